/-
  Helper lemmas for Props/C28.lean: the flood-fill model of `Model/Island.lean`.
  * connectivity (`Conn`) basics,
  * the potential `phi = |stack| + (n-1)·#unlabelled` (termination with fuel `n*n`, stack depth ≤ `n*n`),
  * the DFS invariant `DInv` and the outer-loop invariant `OInv`.
-/
import MjwVerif.Lemmas.Real
import MjwVerif.Model.Island

namespace Mjw.Lemmas.C28
open Mjw Mjw.Island

/-! ## connectivity -/

theorem Conn.single {n : Nat} {adj : Adj} {a b : Nat} (h : Edge n adj a b) : Conn n adj a b :=
  Conn.tail (Conn.refl a) h

theorem Conn.trans {n : Nat} {adj : Adj} {a b c : Nat} (h1 : Conn n adj a b) (h2 : Conn n adj b c) :
    Conn n adj a c := by
  induction h2 with
  | refl => exact h1
  | tail _ e ih => exact Conn.tail ih e

theorem Edge.symm {n : Nat} {adj : Adj} (hs : Symm n adj) {a b : Nat} (h : Edge n adj a b) : Edge n adj b a :=
  ⟨h.2.1, h.1, hs a b h.1 h.2.1 h.2.2⟩

theorem Conn.symm {n : Nat} {adj : Adj} (hs : Symm n adj) {a b : Nat} (h : Conn n adj a b) : Conn n adj b a := by
  induction h with
  | refl => exact Conn.refl _
  | tail _ e ih => exact Conn.trans (Conn.single (Edge.symm hs e)) ih

/-- a nontrivial path ends with an edge -/
theorem Conn.eq_or_edge {n : Nat} {adj : Adj} {a b : Nat} (h : Conn n adj a b) :
    a = b ∨ ∃ c, Edge n adj c b := by
  cases h with
  | refl => exact Or.inl rfl
  | tail _ e => exact Or.inr ⟨_, e⟩

theorem Conn.lt_right {n : Nat} {adj : Adj} {a b : Nat} (h : Conn n adj a b) (ha : a < n) : b < n := by
  rcases Conn.eq_or_edge h with h | ⟨c, e⟩
  · omega
  · exact e.2.1

theorem touchedB_iff {n : Nat} {adj : Adj} {i : Nat} : touchedB n adj i = true ↔ Touched n adj i := by
  simp [touchedB, Touched]

/-- in a symmetric graph every tree on a nontrivial path is touched -/
theorem Conn.touched {n : Nat} {adj : Adj} (hs : Symm n adj) {a b : Nat} (h : Conn n adj a b)
    (ha : Touched n adj a) : Touched n adj b := by
  rcases Conn.eq_or_edge h with h | ⟨c, e⟩
  · subst h; exact ha
  · exact ⟨c, e.1, hs c b e.1 e.2.1 e.2.2⟩

/-! ## counting unlabelled trees -/

/-- number of trees `< n` without label -/
def unl (n : Nat) (labels : Nat → Int) : Nat := (List.range n).countP (fun j => labels j == -1)

theorem unl_le (n : Nat) (labels : Nat → Int) : unl n labels ≤ n := by
  unfold unl
  have := List.countP_le_length (p := fun j => labels j == -1) (l := List.range n)
  simpa using this

theorem unl_succ (n : Nat) (labels : Nat → Int) :
    unl (n + 1) labels = unl n labels + (if labels n = -1 then 1 else 0) := by
  unfold unl
  rw [List.range_succ, List.countP_append]
  by_cases h : labels n = -1 <;> simp [h]

theorem unl_upd_ge {n v : Nat} (labels : Nat → Int) (c : Int) (hv : n ≤ v) :
    unl n (upd labels v c) = unl n labels := by
  unfold unl
  apply List.countP_congr
  intro j hj
  have : j < n := by simpa using hj
  have hne : j ≠ v := by omega
  simp [upd, hne]

theorem unl_upd {n v : Nat} (labels : Nat → Int) (c : Int) (hv : v < n) (hl : labels v = -1) (hc : c ≠ -1) :
    unl n labels = unl n (upd labels v c) + 1 := by
  induction n with
  | zero => omega
  | succ n ih =>
    rw [unl_succ, unl_succ]
    by_cases hvn : v = n
    · subst hvn
      rw [unl_upd_ge labels c (Nat.le_refl _)]
      simp [upd, hl, hc]
    · have hv' : v < n := by omega
      rw [ih hv']
      have hne : n ≠ v := fun h => hvn h.symm
      simp [upd, hne]
      omega

theorem pushList_length_le (n : Nat) (adj : Adj) (labels : Nat → Int) (v : Nat) :
    (pushList n adj labels v).length ≤ unl n labels := by
  unfold pushList unl
  rw [← List.countP_eq_length_filter]
  apply List.countP_mono_left
  intro x _ hx
  simp only [Bool.and_eq_true] at hx
  exact hx.2

theorem mem_pushList {n : Nat} {adj : Adj} {labels : Nat → Int} {v j : Nat} :
    j ∈ pushList n adj labels v ↔ j < n ∧ adj v j ≠ 0 ∧ labels j = -1 := by
  simp [pushList]

/-! ## the potential: termination and stack depth -/

/-- `|stack| + (n-1) · #unlabelled` -/
def phi (n : Nat) (s : DState) : Nat := s.stack.length + (n - 1) * unl n s.labels

theorem dfsStep_phi {n : Nat} {adj : Adj} {c : Nat} {s : DState}
    (hlt : ∀ v ∈ s.stack, v < n) (hne : s.stack ≠ []) :
    phi n (dfsStep n adj c s) + 1 ≤ phi n s ∧ ∀ v ∈ (dfsStep n adj c s).stack, v < n := by
  obtain ⟨labels, stack, trace⟩ := s
  cases stack with
  | nil => exact absurd rfl hne
  | cons v rest =>
    have hv : v < n := hlt v (by simp)
    have hrest : ∀ u ∈ rest, u < n := fun u hu => hlt u (by simp [hu])
    by_cases hl : labels v = -1
    · have hc : (c : Int) ≠ -1 := by omega
      have hU := unl_upd labels (c : Int) hv hl hc
      have hP := pushList_length_le n adj (upd labels v (c : Int)) v
      have hUn := unl_le n labels
      simp only [dfsStep, hl, bne_self_eq_false, Bool.false_eq_true, if_false, phi,
        List.length_append, List.length_reverse, List.length_cons]
      constructor
      · rw [hU]
        have hw : unl n (upd labels v (c : Int)) ≤ n - 1 := by omega
        have : (n - 1) * (unl n (upd labels v (c : Int)) + 1)
            = (n - 1) * unl n (upd labels v (c : Int)) + (n - 1) := by ring
        omega
      · intro u hu
        rcases List.mem_append.mp hu with hu | hu
        · exact (mem_pushList.mp (List.mem_reverse.mp hu)).1
        · exact hrest u hu
    · have hb : (labels v != -1) = true := by simpa using hl
      simp only [dfsStep, hb, if_true, phi, List.length_cons]
      exact ⟨by omega, hrest⟩

theorem dfs_zero {n : Nat} {adj : Adj} {c : Nat} (s : DState) : dfs 0 n adj c s = s := rfl

theorem dfs_succ {n : Nat} {adj : Adj} {c : Nat} (k : Nat) (s : DState) :
    dfs (k + 1) n adj c s = if s.stack = [] then s else dfs k n adj c (dfsStep n adj c s) := by
  unfold dfs
  cases h : s.stack <;> simp [whileFuel, h]

theorem dfs_phi {n : Nat} {adj : Adj} {c : Nat} (k : Nat) (s : DState) (hlt : ∀ v ∈ s.stack, v < n) :
    (∀ v ∈ (dfs k n adj c s).stack, v < n) ∧ phi n (dfs k n adj c s) ≤ phi n s
      ∧ ((dfs k n adj c s).stack = [] ∨ phi n (dfs k n adj c s) + k ≤ phi n s) := by
  induction k generalizing s with
  | zero => exact ⟨hlt, Nat.le_refl _, Or.inr (Nat.le_refl _)⟩
  | succ k ih =>
    rw [dfs_succ]
    by_cases hs : s.stack = []
    · rw [if_pos hs]
      exact ⟨hlt, Nat.le_refl _, Or.inl hs⟩
    · rw [if_neg hs]
      obtain ⟨h1, h2⟩ := dfsStep_phi (adj := adj) (c := c) hlt hs
      obtain ⟨i1, i2, i3⟩ := ih (dfsStep n adj c s) h2
      refine ⟨i1, by omega, ?_⟩
      rcases i3 with i3 | i3
      · exact Or.inl i3
      · exact Or.inr (by omega)

theorem phi_init_le {n i : Nat} (L : Nat → Int) (tr : List MW) (hi : i < n) :
    phi n ⟨L, [i], tr⟩ ≤ n * n := by
  unfold phi
  have hU := unl_le n L
  obtain ⟨m, rfl⟩ : ∃ m, n = m + 1 := ⟨n - 1, by omega⟩
  have h1 : (m + 1 - 1) * unl (m + 1) L ≤ m * (m + 1) := by
    rw [Nat.add_sub_cancel]; exact Nat.mul_le_mul_left m hU
  have h2 : (m + 1) * (m + 1) = m * (m + 1) + (m + 1) := by ring
  simp only [List.length_singleton]
  omega

/-- every state of a DFS started by pushing a tree `i < n` has stack depth at most `n * n` -/
theorem dfs_stack_le {n i : Nat} (adj : Adj) (c : Nat) (L : Nat → Int) (tr : List MW) (hi : i < n) (k : Nat) :
    (dfs k n adj c ⟨L, [i], tr⟩).stack.length ≤ n * n := by
  obtain ⟨-, h2, -⟩ := dfs_phi (n := n) (adj := adj) (c := c) k ⟨L, [i], tr⟩ (by simp [hi])
  have h3 := phi_init_le L tr hi
  have h4 : (dfs k n adj c ⟨L, [i], tr⟩).stack.length ≤ phi n (dfs k n adj c ⟨L, [i], tr⟩) := by
    unfold phi; omega
  omega

/-- with fuel `≥ n * n` the DFS terminates (the stack is empty at the end) -/
theorem dfs_terminates {n i : Nat} (adj : Adj) (c : Nat) (L : Nat → Int) (tr : List MW) (hi : i < n)
    (k : Nat) (hk : n * n ≤ k) : (dfs k n adj c ⟨L, [i], tr⟩).stack = [] := by
  obtain ⟨-, -, h3⟩ := dfs_phi (n := n) (adj := adj) (c := c) k ⟨L, [i], tr⟩ (by simp [hi])
  rcases h3 with h3 | h3
  · exact h3
  · have h4 := phi_init_le L tr hi
    by_contra hne
    have h5 : 1 ≤ (dfs k n adj c ⟨L, [i], tr⟩).stack.length := by
      cases h : (dfs k n adj c ⟨L, [i], tr⟩).stack with
      | nil => exact absurd h hne
      | cons => simp
    have h6 : (dfs k n adj c ⟨L, [i], tr⟩).stack.length ≤ phi n (dfs k n adj c ⟨L, [i], tr⟩) := by
      unfold phi; omega
    -- phi_final + k ≤ phi_init ≤ n*n ≤ k and phi_final ≥ 1
    have hlast : phi n (dfs k n adj c ⟨L, [i], tr⟩) = 0 := by omega
    omega

/-- more fuel than needed changes nothing -/
theorem dfs_fuel_irrelevant {n : Nat} {adj : Adj} {c : Nat} (k : Nat) (s : DState)
    (h : (dfs k n adj c s).stack = []) (j : Nat) : dfs (k + j) n adj c s = dfs k n adj c s := by
  induction k generalizing s with
  | zero =>
    have hs : s.stack = [] := h
    cases j with
    | zero => rfl
    | succ j => rw [Nat.zero_add, dfs_succ]; simp [hs, dfs_zero]
  | succ k ih =>
    rw [show k + 1 + j = (k + j) + 1 by omega, dfs_succ, dfs_succ]
    by_cases hs : s.stack = []
    · simp [hs]
    · simp only [hs, if_false]
      rw [dfs_succ] at h
      simp only [hs, if_false] at h
      exact ih _ h

/-! ## the DFS invariant -/

/-- invariant of `while nstack > 0`, relative to the labels `L` on entry, the root `i` and the island `c` -/
structure DInv (n : Nat) (adj : Adj) (L : Nat → Int) (i c : Nat) (s : DState) : Prop where
  keep : ∀ v, L v ≠ -1 → s.labels v = L v
  changed : ∀ v, s.labels v ≠ L v → s.labels v = (c : Int) ∧ v < n ∧ Conn n adj i v
  stk : ∀ v ∈ s.stack, v < n ∧ Conn n adj i v
  closed : ∀ v u, v < n → u < n → L v = -1 → s.labels v ≠ -1 → adj v u ≠ 0 →
    s.labels u ≠ -1 ∨ u ∈ s.stack
  root : s.labels i ≠ -1 ∨ i ∈ s.stack

theorem dinv_init {n : Nat} {adj : Adj} {L : Nat → Int} {i c : Nat} (tr : List MW) (hi : i < n) :
    DInv n adj L i c ⟨L, [i], tr⟩ where
  keep := fun _ _ => rfl
  changed := fun v h => absurd rfl h
  stk := fun v hv => by
    have : v = i := by simpa using hv
    subst this; exact ⟨hi, Conn.refl _⟩
  closed := fun v u _ _ h1 h2 _ => absurd h1 h2
  root := Or.inr (by simp)

theorem dinv_step {n : Nat} {adj : Adj} {L : Nat → Int} {i c : Nat} {s : DState}
    (h : DInv n adj L i c s) : DInv n adj L i c (dfsStep n adj c s) := by
  obtain ⟨labels, stack, trace⟩ := s
  cases stack with
  | nil => exact h
  | cons v rest =>
    have hc : (c : Int) ≠ -1 := by omega
    obtain ⟨hvn, hvc⟩ := h.stk v (by simp)
    by_cases hl : labels v = -1
    · -- expand v
      have hLv : L v = -1 := by
        by_contra hne
        have := h.keep v hne
        simp only at this
        rw [hl] at this; exact hne this.symm
      simp only [dfsStep, hl, bne_self_eq_false, Bool.false_eq_true, if_false]
      refine ⟨?_, ?_, ?_, ?_, ?_⟩
      · intro u hu
        have hne : u ≠ v := by rintro rfl; exact hu hLv
        simp only [upd, hne, if_false]
        exact h.keep u hu
      · intro u hu
        by_cases huv : u = v
        · subst huv; simp only [upd, if_true]; exact ⟨trivial, hvn, hvc⟩
        · simp only [upd, huv, if_false] at hu ⊢
          exact h.changed u hu
      · intro u hu
        rcases List.mem_append.mp hu with hu | hu
        · obtain ⟨hun, hadj, -⟩ := mem_pushList.mp (List.mem_reverse.mp hu)
          exact ⟨hun, Conn.tail hvc ⟨hvn, hun, hadj⟩⟩
        · exact h.stk u (by simp [hu])
      · intro x u hx hu hLx hlx hadj
        by_cases hxv : x = v
        · subst hxv
          by_cases hlu : upd labels x (c : Int) u = -1
          · right
            exact List.mem_append.mpr (Or.inl (List.mem_reverse.mpr (mem_pushList.mpr ⟨hu, hadj, hlu⟩)))
          · exact Or.inl hlu
        · simp only [upd, hxv, if_false] at hlx
          rcases h.closed x u hx hu hLx hlx hadj with h1 | h1
          · left
            by_cases huv : u = v
            · simp [upd, huv, hc]
            · simp only [upd, huv, if_false]; exact h1
          · have : u = v ∨ u ∈ rest := by simpa using h1
            rcases this with huv | hur
            · left; simp [upd, huv, hc]
            · right; exact List.mem_append.mpr (Or.inr hur)
      · by_cases hiv : i = v
        · left; simp [upd, hiv, hc]
        · rcases h.root with h1 | h1
          · left; simp only [upd, hiv, if_false]; exact h1
          · have : i = v ∨ i ∈ rest := by simpa using h1
            rcases this with h2 | h2
            · exact absurd h2 hiv
            · right; exact List.mem_append.mpr (Or.inr h2)
    · -- v already labelled: just pop
      have hb : (labels v != -1) = true := by simpa using hl
      simp only [dfsStep, hb, if_true]
      refine ⟨h.keep, h.changed, fun u hu => h.stk u (by simp [hu]), ?_, ?_⟩
      · intro x u hx hu hLx hlx hadj
        rcases h.closed x u hx hu hLx hlx hadj with h1 | h1
        · exact Or.inl h1
        · have : u = v ∨ u ∈ rest := by simpa using h1
          rcases this with huv | hur
          · left; rw [huv]; exact hl
          · exact Or.inr hur
      · rcases h.root with h1 | h1
        · exact Or.inl h1
        · have : i = v ∨ i ∈ rest := by simpa using h1
          rcases this with h2 | h2
          · left; rw [h2]; exact hl
          · exact Or.inr h2

theorem dinv_dfs {n : Nat} {adj : Adj} {L : Nat → Int} {i c : Nat} (k : Nat) {s : DState}
    (h : DInv n adj L i c s) : DInv n adj L i c (dfs k n adj c s) := by
  induction k generalizing s with
  | zero => exact h
  | succ k ih =>
    rw [dfs_succ]
    by_cases hs : s.stack = []
    · rw [if_pos hs]; exact h
    · rw [if_neg hs]; exact ih (dinv_step h)

/-- what a terminated DFS from root `i` has done -/
structure DfsSpec (n : Nat) (adj : Adj) (L L' : Nat → Int) (i c : Nat) : Prop where
  keep : ∀ v, L v ≠ -1 → L' v = L v
  changed : ∀ v, L' v ≠ L v → L' v = (c : Int) ∧ v < n ∧ Conn n adj i v
  closed : ∀ v u, v < n → u < n → L v = -1 → L' v ≠ -1 → adj v u ≠ 0 → L' u ≠ -1
  root : L' i ≠ -1

theorem dfs_spec {n : Nat} {adj : Adj} (L : Nat → Int) {i : Nat} (c : Nat) (tr : List MW) (hi : i < n)
    (k : Nat) (hk : n * n ≤ k) :
    DfsSpec n adj L (dfs k n adj c ⟨L, [i], tr⟩).labels i c := by
  have hinv := dinv_dfs (adj := adj) (c := c) k (dinv_init (L := L) tr hi)
  have hterm := dfs_terminates adj c L tr hi k hk
  refine ⟨hinv.keep, hinv.changed, ?_, ?_⟩
  · intro v u hv hu h1 h2 h3
    rcases hinv.closed v u hv hu h1 h2 h3 with h | h
    · exact h
    · rw [hterm] at h; exact absurd h (by simp)
  · rcases hinv.root with h | h
    · exact h
    · rw [hterm] at h; exact absurd h (by simp)

/-! ## the outer-loop invariant -/

/-- invariant of `for i in range(ntree)` after `k` iterations -/
structure OInv (n : Nat) (adj : Adj) (k : Nat) (s : FState) : Prop where
  range : ∀ v, v < n → s.labels v = -1 ∨ (0 ≤ s.labels v ∧ s.labels v < (s.nisland : Int))
  touched : ∀ v, v < n → s.labels v ≠ -1 → Touched n adj v
  same : ∀ u v, u < n → s.labels u ≠ -1 → Conn n adj u v → s.labels v = s.labels u
  conn : ∀ u v, u < n → v < n → s.labels u ≠ -1 → s.labels v = s.labels u → Conn n adj u v
  done : ∀ v, v < k → v < n → Touched n adj v → s.labels v ≠ -1
  low : ∀ v, v < n → s.labels v ≠ -1 → ∃ r, r < k ∧ Conn n adj r v
  surj : ∀ c : Nat, c < s.nisland → ∃ v, v < n ∧ s.labels v = (c : Int)
  order : ∀ u v, u < n → v < n → s.labels u ≠ -1 → s.labels v ≠ -1 → s.labels u < s.labels v →
    ∃ r, Conn n adj r u ∧ ∀ w, Conn n adj w v → r < w

theorem oinv_init (n : Nat) (adj : Adj) : OInv n adj 0 ⟨fun _ => -1, 0, []⟩ where
  range := fun _ _ => Or.inl rfl
  touched := fun _ _ h => absurd rfl h
  same := fun _ _ _ h _ => absurd rfl h
  conn := fun _ _ _ _ h _ => absurd rfl h
  done := fun _ h _ _ => absurd h (Nat.not_lt_zero _)
  low := fun _ _ h => absurd rfl h
  surj := fun _ h => absurd h (Nat.not_lt_zero _)
  order := fun _ _ _ _ h _ _ => absurd rfl h

/-- an iteration that does nothing (tree `k` already labelled, or untouched) -/
theorem oinv_skip {n : Nat} {adj : Adj} {k : Nat} {s : FState} (h : OInv n adj k s)
    (hk : s.labels k ≠ -1 ∨ ¬ Touched n adj k) : OInv n adj (k + 1) s where
  range := h.range
  touched := h.touched
  same := h.same
  conn := h.conn
  done := fun v hv hvn ht => by
    by_cases hvk : v = k
    · subst hvk
      rcases hk with hk | hk
      · exact hk
      · exact absurd ht hk
    · exact h.done v (by omega) hvn ht
  low := fun v hv hl => by
    obtain ⟨r, hr, hc⟩ := h.low v hv hl
    exact ⟨r, by omega, hc⟩
  surj := h.surj
  order := h.order

/-- an iteration that runs a DFS from the unlabelled, touched tree `k` -/
theorem oinv_dfs {n : Nat} {adj : Adj} (hs : Symm n adj) {k : Nat} {s : FState} (h : OInv n adj k s)
    (hkn : k < n) (hlk : s.labels k = -1) (htk : Touched n adj k) {L' : Nat → Int} (tr : List MW)
    (hd : DfsSpec n adj s.labels L' k s.nisland) : OInv n adj (k + 1) ⟨L', s.nisland + 1, tr⟩ := by
  obtain ⟨L, m, tr0⟩ := s
  simp only at hlk hd
  -- the changed set is exactly the component of k
  have hA : ∀ v, Conn n adj k v → L' v = (m : Int) ∧ L v = -1 := by
    intro v hv
    induction hv with
    | refl =>
      refine ⟨?_, hlk⟩
      have : L' k ≠ L k := by rw [hlk]; exact hd.root
      exact (hd.changed k this).1
    | tail hab e ih =>
      rename_i b c
      obtain ⟨ihb, ihL⟩ := ih
      have hmne : (m : Int) ≠ -1 := by omega
      have hc' : L' c ≠ -1 := hd.closed b c e.1 e.2.1 ihL (by rw [ihb]; exact hmne) e.2.2
      have hLc : L c = -1 := by
        by_contra hne
        have := h.same c b e.2.1 hne (Conn.single (Edge.symm hs e))
        simp only at this
        rw [ihL] at this; exact hne this.symm
      have : L' c ≠ L c := by rw [hLc]; exact hc'
      exact ⟨(hd.changed c this).1, hLc⟩
  have hmne : (m : Int) ≠ -1 := by omega
  -- a tree is either old (label kept) or new (in the component of k, label m)
  have hcase : ∀ v, (L' v = L v) ∨ (L' v = (m : Int) ∧ L v = -1 ∧ v < n ∧ Conn n adj k v) := by
    intro v
    by_cases hv : L' v = L v
    · exact Or.inl hv
    · obtain ⟨h1, h2, h3⟩ := hd.changed v hv
      exact Or.inr ⟨h1, (hA v h3).2, h2, h3⟩
  have hold : ∀ v, L v ≠ -1 → L' v = L v := hd.keep
  refine ⟨?_, ?_, ?_, ?_, ?_, ?_, ?_, ?_⟩
  · -- range
    intro v hv
    rcases hcase v with h1 | ⟨h1, -, -, -⟩
    · rcases h.range v hv with h2 | ⟨h2, h3⟩
      · left; simp only; rw [h1]; exact h2
      · right; simp only at h2 h3 ⊢; rw [h1]; exact ⟨h2, by push_cast; omega⟩
    · right; simp only; rw [h1]; exact ⟨by omega, by push_cast; omega⟩
  · -- touched
    intro v hv hl
    simp only at hl
    rcases hcase v with h1 | ⟨-, -, -, h4⟩
    · exact h.touched v hv (by simp only; rw [← h1]; exact hl)
    · exact Conn.touched hs h4 htk
  · -- same
    intro u v hu hl hc
    simp only at hl ⊢
    by_cases hLu : L u = -1
    · have hne : L' u ≠ L u := by rw [hLu]; exact hl
      obtain ⟨h1, -, h3⟩ := hd.changed u hne
      rw [h1]; exact (hA v (Conn.trans h3 hc)).1
    · have h1 := h.same u v hu hLu hc
      simp only at h1
      rw [hold u hLu, hold v (by rw [h1]; exact hLu), h1]
  · -- conn
    intro u v hu hv hl heq
    simp only at hl heq
    rcases hcase u with h1 | ⟨h1, -, -, h4⟩
    · have hLu : L u ≠ -1 := by rw [← h1]; exact hl
      rcases hcase v with g1 | ⟨g1, -, -, -⟩
      · exact h.conn u v hu hv hLu (by simp only; rw [← g1, heq, h1])
      · -- L' v = m but L' u = L u < m
        rcases h.range u hu with h2 | ⟨-, h3⟩
        · exact absurd h2 hLu
        · simp only at h3; rw [g1, h1] at heq; omega
    · rcases hcase v with g1 | ⟨-, -, -, g4⟩
      · have hLv : L v ≠ -1 := by rw [← g1, heq]; exact hl
        rcases h.range v hv with h2 | ⟨-, h3⟩
        · exact absurd h2 hLv
        · simp only at h3; rw [g1, h1] at heq; omega
      · exact Conn.trans (Conn.symm hs h4) g4
  · -- done
    intro v hv hvn ht
    simp only
    by_cases hvk : v = k
    · subst hvk; exact hd.root
    · have := h.done v (by omega) hvn ht
      simp only at this
      rw [hold v this]; exact this
  · -- low
    intro v hv hl
    simp only at hl
    rcases hcase v with h1 | ⟨-, -, -, h4⟩
    · obtain ⟨r, hr, hc⟩ := h.low v hv (by simp only; rw [← h1]; exact hl)
      exact ⟨r, by omega, hc⟩
    · exact ⟨k, by omega, h4⟩
  · -- surj
    intro c hc
    simp only at hc ⊢
    by_cases hcm : c = m
    · subst hcm; exact ⟨k, hkn, (hA k (Conn.refl k)).1⟩
    · obtain ⟨v, hv, hl⟩ := h.surj c (by simp only; omega)
      simp only at hl
      exact ⟨v, hv, by rw [hold v (by rw [hl]; omega), hl]⟩
  · -- order
    intro u v hu hv hlu hlv hlt
    simp only at hlu hlv hlt
    rcases hcase u with h1 | ⟨h1, -, -, -⟩
    · have hLu : L u ≠ -1 := by rw [← h1]; exact hlu
      rcases hcase v with g1 | ⟨g1, -, -, g4⟩
      · have hLv : L v ≠ -1 := by rw [← g1]; exact hlv
        exact h.order u v hu hv hLu hLv (by simp only; rw [← h1, ← g1]; exact hlt)
      · obtain ⟨r, hr, hc⟩ := h.low u hu hLu
        refine ⟨r, hc, ?_⟩
        intro w hw
        have hkw : Conn n adj k w := Conn.trans g4 (Conn.symm hs hw)
        have hLw : L w = -1 := (hA w hkw).2
        have hwn : w < n := Conn.lt_right hkw hkn
        by_contra hlt'
        have hwk : w < k := by omega
        have := h.done w hwk hwn (Conn.touched hs hkw htk)
        exact this hLw
    · -- L' u = m is the largest label
      rcases hcase v with g1 | ⟨g1, -, -, -⟩
      · have hLv : L v ≠ -1 := by rw [← g1]; exact hlv
        rcases h.range v hv with h2 | ⟨-, h3⟩
        · exact absurd h2 hLv
        · simp only at h3; rw [h1, g1] at hlt; omega
      · rw [h1, g1] at hlt; omega

theorem outerStep_inv {n : Nat} {adj : Adj} (hs : Symm n adj) (fuel : Nat) (hf : n * n ≤ fuel) {k : Nat}
    {s : FState} (h : OInv n adj k s) (hkn : k < n) : OInv n adj (k + 1) (outerStep fuel n adj k s) := by
  unfold outerStep
  by_cases hl : s.labels k = -1
  · have hb : (s.labels k != -1) = false := by simp [hl]
    rw [hb]
    simp only [Bool.false_eq_true, if_false]
    by_cases ht : touchedB n adj k = true
    · simp only [ht, Bool.not_true, Bool.false_eq_true, if_false]
      exact oinv_dfs hs h hkn hl (touchedB_iff.mp ht) _ (dfs_spec s.labels s.nisland _ hkn fuel hf)
    · have ht' : touchedB n adj k = false := by simpa using ht
      simp only [ht', Bool.not_false, if_true]
      exact oinv_skip h (Or.inr (fun hT => ht (touchedB_iff.mpr hT)))
  · have hb : (s.labels k != -1) = true := by simpa using hl
    rw [hb]
    simp only [if_true]
    exact oinv_skip h (Or.inl hl)

theorem floodFill_prefix_inv {n : Nat} {adj : Adj} (hs : Symm n adj) (fuel : Nat) (hf : n * n ≤ fuel)
    (k : Nat) (hk : k ≤ n) :
    OInv n adj k ((List.range k).foldl (fun s i => outerStep fuel n adj i s) ⟨fun _ => -1, 0, []⟩) := by
  induction k with
  | zero => exact oinv_init n adj
  | succ k ih =>
    rw [List.range_succ, List.foldl_append]
    exact outerStep_inv hs fuel hf (ih (by omega)) (by omega)

theorem floodFill_inv {n : Nat} {adj : Adj} (hs : Symm n adj) (fuel : Nat) (hf : n * n ≤ fuel) :
    OInv n adj n (floodFill fuel n adj) :=
  floodFill_prefix_inv hs fuel hf n (Nat.le_refl n)

/-! ## memory safety of the writes -/

/-- the write stays inside `stack_scratch[worldid, 0 .. n*n)` resp. `tree_island[worldid, 0 .. n)` -/
def InBounds (n : Nat) (w : MW) : Prop :=
  (w.arr = "stack_out" → ∃ p : Nat, w.idx = [(p : Int)] ∧ p < n * n) ∧
  (w.arr = "tree_island_out" → ∃ v : Nat, w.idx = [(v : Int)] ∧ v < n)

theorem pushEvents_mem {p : Nat} {l : List Nat} {w : MW} (h : w ∈ pushEvents p l) :
    w.arr = "stack_out" ∧ ∃ q : Nat, w.idx = [(q : Int)] ∧ p ≤ q ∧ q < p + l.length := by
  induction l generalizing p with
  | nil => simp [pushEvents] at h
  | cons x xs ih =>
    simp only [pushEvents, List.mem_cons] at h
    rcases h with h | h
    · subst h; exact ⟨rfl, p, rfl, Nat.le_refl _, by simp⟩
    · obtain ⟨h1, q, h2, h3, h4⟩ := ih h
      exact ⟨h1, q, h2, by omega, by simp only [List.length_cons]; omega⟩

theorem dfsStep_trace {n : Nat} {adj : Adj} {c : Nat} {s : DState}
    (hlt : ∀ v ∈ s.stack, v < n) (hphi : phi n s ≤ n * n) (hT : ∀ w ∈ s.trace, InBounds n w) :
    ∀ w ∈ (dfsStep n adj c s).trace, InBounds n w := by
  by_cases hne : s.stack = []
  · unfold dfsStep; rw [hne]; exact hT
  · obtain ⟨h1, -⟩ := dfsStep_phi (adj := adj) (c := c) hlt hne
    obtain ⟨labels, stack, trace⟩ := s
    cases stack with
    | nil => exact absurd rfl hne
    | cons v rest =>
      have hv : v < n := hlt v (by simp)
      by_cases hl : labels v = -1
      · simp only [dfsStep, hl, bne_self_eq_false, Bool.false_eq_true, if_false] at h1 ⊢
        intro w hw
        rcases List.mem_append.mp hw with hw | hw
        · exact hT w hw
        · rcases List.mem_cons.mp hw with hw | hw
          · subst hw
            exact ⟨fun h => by simp at h, fun _ => ⟨v, rfl, hv⟩⟩
          · obtain ⟨ha, q, hq, -, hq2⟩ := pushEvents_mem hw
            refine ⟨fun _ => ⟨q, hq, ?_⟩, fun h => by rw [ha] at h; simp at h⟩
            have : (pushList n adj (upd labels v (c : Int)) v).reverse.length + rest.length
                ≤ phi n ⟨upd labels v (c : Int), (pushList n adj (upd labels v (c : Int)) v).reverse ++ rest,
                    trace ++ (⟨"tree_island_out", [(v : Int)], (c : Int)⟩ ::
                      pushEvents rest.length (pushList n adj (upd labels v (c : Int)) v))⟩ := by
              unfold phi; simp only [List.length_append]; omega
            simp only [List.length_reverse] at this
            omega
      · have hb : (labels v != -1) = true := by simpa using hl
        simp only [dfsStep, hb, if_true]
        exact hT

theorem dfs_trace {n : Nat} {adj : Adj} {c : Nat} (k : Nat) (s : DState)
    (hlt : ∀ v ∈ s.stack, v < n) (hphi : phi n s ≤ n * n) (hT : ∀ w ∈ s.trace, InBounds n w) :
    ∀ w ∈ (dfs k n adj c s).trace, InBounds n w := by
  induction k generalizing s with
  | zero => exact hT
  | succ k ih =>
    rw [dfs_succ]
    by_cases hs : s.stack = []
    · rw [if_pos hs]; exact hT
    · rw [if_neg hs]
      obtain ⟨h1, h2⟩ := dfsStep_phi (adj := adj) (c := c) hlt hs
      exact ih _ h2 (by omega) (dfsStep_trace hlt hphi hT)

theorem outerStep_trace {n : Nat} {adj : Adj} (fuel : Nat) {i : Nat} (hi : i < n) {s : FState}
    (hT : ∀ w ∈ s.trace, InBounds n w) : ∀ w ∈ (outerStep fuel n adj i s).trace, InBounds n w := by
  unfold outerStep
  split
  · exact hT
  · split
    · exact hT
    · apply dfs_trace fuel _ (by simp [hi]) (phi_init_le _ _ hi)
      intro w hw
      rcases List.mem_append.mp hw with hw | hw
      · exact hT w hw
      · have : w = ⟨"stack_out", [0], (i : Int)⟩ := by simpa using hw
        subst this
        refine ⟨fun _ => ⟨0, rfl, ?_⟩, fun h => by simp at h⟩
        have : 1 ≤ n := by omega
        exact Nat.mul_pos this this

theorem floodFillFrom_trace (L0 : Nat → Int) (fuel n : Nat) (adj : Adj) :
    ∀ w ∈ (floodFillFrom L0 fuel n adj).trace, InBounds n w := by
  have key : ∀ k, k ≤ n → ∀ w ∈ ((List.range k).foldl (fun s i => outerStep fuel n adj i s)
      (⟨L0, 0, []⟩ : FState)).trace, InBounds n w := by
    intro k
    induction k with
    | zero => intro _ w hw; simp at hw
    | succ k ih =>
      intro hk
      rw [List.range_succ, List.foldl_append]
      exact outerStep_trace fuel (by omega) (ih (by omega))
  exact key n (Nat.le_refl n)

end Mjw.Lemmas.C28
