/-
  Helper lemmas for property C22: Rodrigues' formula for `rot_vec_quat ∘ axis_angle_to_quat`, its derivative with
  respect to the angle, and covariance of the cross product under unit-quaternion rotations.
-/
import MjwVerif.Lemmas.C01Real
import Mathlib.Analysis.SpecialFunctions.Trigonometric.Deriv

set_option linter.unusedVariables false
set_option linter.unusedSimpArgs false
namespace Mjw.Lemmas.C22
open Mjw Mjw.Gen.Math Mjw.Props.C23 Mjw.Lemmas.C01R

/-- `v cos θ + a (a·v)(1 − cos θ) + (a × v) sin θ` -/
noncomputable def rodrigues (a v : V3 ℝ) (θ : ℝ) : V3 ℝ :=
  ⟨v.c0 * Real.cos θ + a.c0 * (a.c0 * v.c0 + a.c1 * v.c1 + a.c2 * v.c2) * (1 - Real.cos θ)
      + (a.c1 * v.c2 - a.c2 * v.c1) * Real.sin θ,
   v.c1 * Real.cos θ + a.c1 * (a.c0 * v.c0 + a.c1 * v.c1 + a.c2 * v.c2) * (1 - Real.cos θ)
      + (a.c2 * v.c0 - a.c0 * v.c2) * Real.sin θ,
   v.c2 * Real.cos θ + a.c2 * (a.c0 * v.c0 + a.c1 * v.c1 + a.c2 * v.c2) * (1 - Real.cos θ)
      + (a.c0 * v.c1 - a.c1 * v.c0) * Real.sin θ⟩

/-- for a unit axis, rotating by `axis_angle_to_quat a θ` is Rodrigues' rotation about `a` by `θ` -/
theorem rot_axis_angle_eq_rodrigues (a v : V3 ℝ) (ha : vnrm2 a = 1) (θ : ℝ) :
    rot_vec_quat v (axis_angle_to_quat a θ) = rodrigues a v θ := by
  simp only [vnrm2] at ha
  have hh : (θ * ((5:ℤ) * (10:ℝ) ^ (-1:ℤ))) = θ / 2 := by norm_num; ring
  have hcos : Real.cos θ = 2 * Real.cos (θ / 2) ^ 2 - 1 := by
    rw [← Real.cos_two_mul]; congr 1; ring
  have hsin : Real.sin θ = 2 * Real.sin (θ / 2) * Real.cos (θ / 2) := by
    rw [← Real.sin_two_mul]; congr 1; ring
  have hsc := Real.sin_sq_add_cos_sq (θ / 2)
  apply V3.ext' <;>
    simp only [rot_vec_quat, axis_angle_to_quat, rodrigues, V3.muls, V3.add, V3.smul, V3.dot, V3.cross, hadd, hsub,
      hmul, slit, ssin, scos, hh, hcos, hsin] <;>
    norm_num
  · linear_combination
      (2 * a.c0 * (a.c0 * v.c0 + a.c1 * v.c1 + a.c2 * v.c2) - v.c0) * hsc - v.c0 * Real.sin (θ / 2) ^ 2 * ha
  · linear_combination
      (2 * a.c1 * (a.c0 * v.c0 + a.c1 * v.c1 + a.c2 * v.c2) - v.c1) * hsc - v.c1 * Real.sin (θ / 2) ^ 2 * ha
  · linear_combination
      (2 * a.c2 * (a.c0 * v.c0 + a.c1 * v.c1 + a.c2 * v.c2) - v.c2) * hsc - v.c2 * Real.sin (θ / 2) ^ 2 * ha

/-- derivative of one Rodrigues component `v cos t + A (1 − cos t) + B sin t` -/
theorem hasDerivAt_component (v A B θ : ℝ) :
    HasDerivAt (fun t => v * Real.cos t + A * (1 - Real.cos t) + B * Real.sin t)
      (-v * Real.sin θ + A * Real.sin θ + B * Real.cos θ) θ := by
  have h1 := (Real.hasDerivAt_cos θ).const_mul v
  have h2 := ((hasDerivAt_const θ (1:ℝ)).sub (Real.hasDerivAt_cos θ)).const_mul A
  have h3 := (Real.hasDerivAt_sin θ).const_mul B
  have := (h1.add h2).add h3
  exact this.congr_deriv (by ring)

/-- **d/dθ of the Rodrigues rotation is `a × (rotated vector)`** (unit axis), componentwise -/
theorem hasDerivAt_rodrigues (a v : V3 ℝ) (ha : vnrm2 a = 1) (θ : ℝ) :
    HasDerivAt (fun t => (rodrigues a v t).c0) (V3.cross a (rodrigues a v θ)).c0 θ
    ∧ HasDerivAt (fun t => (rodrigues a v t).c1) (V3.cross a (rodrigues a v θ)).c1 θ
    ∧ HasDerivAt (fun t => (rodrigues a v t).c2) (V3.cross a (rodrigues a v θ)).c2 θ := by
  simp only [vnrm2] at ha
  refine ⟨?_, ?_, ?_⟩
  · refine (hasDerivAt_component v.c0 (a.c0 * (a.c0 * v.c0 + a.c1 * v.c1 + a.c2 * v.c2))
      (a.c1 * v.c2 - a.c2 * v.c1) θ).congr_deriv ?_
    simp only [rodrigues, V3.cross, hsub, hmul]
    linear_combination (v.c0 * Real.sin θ) * ha
  · refine (hasDerivAt_component v.c1 (a.c1 * (a.c0 * v.c0 + a.c1 * v.c1 + a.c2 * v.c2))
      (a.c2 * v.c0 - a.c0 * v.c2) θ).congr_deriv ?_
    simp only [rodrigues, V3.cross, hsub, hmul]
    linear_combination (v.c1 * Real.sin θ) * ha
  · refine (hasDerivAt_component v.c2 (a.c2 * (a.c0 * v.c0 + a.c1 * v.c1 + a.c2 * v.c2))
      (a.c0 * v.c1 - a.c1 * v.c0) θ).congr_deriv ?_
    simp only [rodrigues, V3.cross, hsub, hmul]
    linear_combination (v.c2 * Real.sin θ) * ha

/-- a unit quaternion's rotation commutes with the cross product: `R(a × b) = (R a) × (R b)` -/
theorem rot_cross (q : Q ℝ) (hq : nrm2 q = 1) (a b : V3 ℝ) :
    rot_vec_quat (V3.cross a b) q = V3.cross (rot_vec_quat a q) (rot_vec_quat b q) := by
  -- for every quaternion: (R a) × (R b) = |q|² R (a × b)   (R = the homogeneous-quadratic matrix of q)
  have key : V3.cross (rot_vec_quat a q) (rot_vec_quat b q) = V3.smul (nrm2 q) (rot_vec_quat (V3.cross a b) q) := by
    apply V3.ext' <;>
      simp only [rot_vec_quat, nrm2, V3.add, V3.smul, V3.dot, V3.cross, hadd, hsub, hmul, slit] <;> norm_num <;> ring
  rw [key, hq]
  apply V3.ext' <;> simp only [V3.smul, hmul] <;> ring

/-- rotation by a product: `rot(v, p q) = rot(rot(v, q), p)` -/
theorem rot_mul_quat (v : V3 ℝ) (p q : Q ℝ) :
    rot_vec_quat v (mul_quat p q) = rot_vec_quat (rot_vec_quat v q) p := by
  apply V3.ext' <;>
    simp only [rot_vec_quat, mul_quat, V3.add, V3.smul, V3.dot, V3.cross, hadd, hsub, hmul, slit] <;> norm_num <;> ring

/-- `rot_vec_quat` is linear in the vector -/
theorem rot_sub (u v : V3 ℝ) (q : Q ℝ) :
    V3.sub (rot_vec_quat u q) (rot_vec_quat v q) = rot_vec_quat (V3.sub u v) q := by
  apply V3.ext' <;>
    simp only [rot_vec_quat, V3.add, V3.sub, V3.smul, V3.dot, V3.cross, hadd, hsub, hmul, slit] <;> ring

/-- the matrix entries of a fixed rotation applied to a differentiable vector function: derivative of a component -/
theorem hasDerivAt_rot_component (q : Q ℝ) (f0 f1 f2 : ℝ → ℝ) (d0 d1 d2 θ : ℝ)
    (h0 : HasDerivAt f0 d0 θ) (h1 : HasDerivAt f1 d1 θ) (h2 : HasDerivAt f2 d2 θ) :
    HasDerivAt (fun t => (rot_vec_quat ⟨f0 t, f1 t, f2 t⟩ q).c0) (rot_vec_quat ⟨d0, d1, d2⟩ q).c0 θ
    ∧ HasDerivAt (fun t => (rot_vec_quat ⟨f0 t, f1 t, f2 t⟩ q).c1) (rot_vec_quat ⟨d0, d1, d2⟩ q).c1 θ
    ∧ HasDerivAt (fun t => (rot_vec_quat ⟨f0 t, f1 t, f2 t⟩ q).c2) (rot_vec_quat ⟨d0, d1, d2⟩ q).c2 θ := by
  simp only [rot_vec_quat_eq_mat, M33.mulVec, hadd, hmul]
  set R := quat_to_mat q
  refine ⟨?_, ?_, ?_⟩
  · exact ((h0.const_mul R.m00).add (h1.const_mul R.m01)).add (h2.const_mul R.m02)
  · exact ((h0.const_mul R.m10).add (h1.const_mul R.m11)).add (h2.const_mul R.m12)
  · exact ((h0.const_mul R.m20).add (h1.const_mul R.m21)).add (h2.const_mul R.m22)

end Mjw.Lemmas.C22
