/-
  Helper lemmas for Props/C20 (contact geometry): V3 algebra over ℝ.
  Nothing here mentions Gen definitions; they are plain facts about the Model/Vec operations at K = ℝ.
-/
import MjwVerif.Lemmas.Real

namespace Mjw.C20L
open Mjw

/-! ### dot / length -/

theorem dot_def (a b : V3 ℝ) : V3.dot a b = a.c0 * b.c0 + a.c1 * b.c1 + a.c2 * b.c2 := by
  simp only [V3.dot, hadd, hmul]

theorem length_def (a : V3 ℝ) : V3.length a = Real.sqrt (V3.dot a a) := rfl

theorem dot_self_nonneg (a : V3 ℝ) : 0 ≤ V3.dot a a := by
  rw [dot_def]; nlinarith [mul_self_nonneg a.c0, mul_self_nonneg a.c1, mul_self_nonneg a.c2]

theorem dot_comm (a b : V3 ℝ) : V3.dot a b = V3.dot b a := by
  simp only [dot_def]; ring

theorem length_nonneg (a : V3 ℝ) : 0 ≤ V3.length a := Real.sqrt_nonneg _

theorem length_mul_self (a : V3 ℝ) : V3.length a * V3.length a = V3.dot a a :=
  Real.mul_self_sqrt (dot_self_nonneg a)

theorem length_pos_iff (a : V3 ℝ) : 0 < V3.length a ↔ 0 < V3.dot a a := Real.sqrt_pos

theorem length_eq_zero_iff_dot (a : V3 ℝ) : V3.length a = 0 ↔ V3.dot a a = 0 :=
  Real.sqrt_eq_zero (dot_self_nonneg a)

theorem dot_self_eq_zero_iff (a : V3 ℝ) : V3.dot a a = 0 ↔ a = ⟨0, 0, 0⟩ := by
  constructor
  · intro h
    rw [dot_def] at h
    have h0 : a.c0 = 0 := by nlinarith [mul_self_nonneg a.c0, mul_self_nonneg a.c1, mul_self_nonneg a.c2]
    have h1 : a.c1 = 0 := by nlinarith [mul_self_nonneg a.c0, mul_self_nonneg a.c1, mul_self_nonneg a.c2]
    have h2 : a.c2 = 0 := by nlinarith [mul_self_nonneg a.c0, mul_self_nonneg a.c1, mul_self_nonneg a.c2]
    exact V3.ext' h0 h1 h2
  · intro h; rw [h, dot_def]; ring

theorem length_eq_zero_iff (a : V3 ℝ) : V3.length a = 0 ↔ a = ⟨0, 0, 0⟩ :=
  (length_eq_zero_iff_dot a).trans (dot_self_eq_zero_iff a)

theorem sub_eq_zero_iff (a b : V3 ℝ) : V3.sub b a = ⟨0, 0, 0⟩ ↔ a = b := by
  constructor
  · intro h
    have h0 := congrArg V3.c0 h
    have h1 := congrArg V3.c1 h
    have h2 := congrArg V3.c2 h
    simp only [V3.sub, hsub] at h0 h1 h2
    exact V3.ext' (by linarith) (by linarith) (by linarith)
  · intro h; subst h; simp [V3.sub]

/-- distinct points are at positive distance -/
theorem length_sub_pos {a b : V3 ℝ} (h : a ≠ b) : 0 < V3.length (V3.sub b a) := by
  rcases (length_nonneg (V3.sub b a)).lt_or_eq with h' | h'
  · exact h'
  · exact absurd ((sub_eq_zero_iff a b).mp ((length_eq_zero_iff _).mp h'.symm)) h

theorem length_of_dot_one {a : V3 ℝ} (h : V3.dot a a = 1) : V3.length a = 1 := by
  rw [length_def, h, Real.sqrt_one]

/-! ### scaling -/

theorem dot_divs_divs (a b : V3 ℝ) (s : ℝ) :
    V3.dot (V3.divs a s) (V3.divs b s) = V3.dot a b / (s * s) := by
  simp only [dot_def, V3.divs, hdiv]
  by_cases hs : s = 0
  · subst hs; simp
  · field_simp

theorem dot_divs_left (a b : V3 ℝ) (s : ℝ) : V3.dot (V3.divs a s) b = V3.dot a b / s := by
  simp only [dot_def, V3.divs, hdiv]; ring

theorem dot_divs_right (a b : V3 ℝ) (s : ℝ) : V3.dot a (V3.divs b s) = V3.dot a b / s := by
  simp only [dot_def, V3.divs, hdiv]; ring

/-- v / |v| is a unit vector whenever |v| ≠ 0 -/
theorem divs_length_unit {v : V3 ℝ} (h : V3.length v ≠ 0) :
    V3.dot (V3.divs v (V3.length v)) (V3.divs v (V3.length v)) = 1 := by
  rw [dot_divs_divs, length_mul_self]
  have : V3.dot v v ≠ 0 := fun h0 => h ((length_eq_zero_iff_dot v).mpr h0)
  exact div_self this

theorem normalize_of_pos {v : V3 ℝ} (h : 0 < V3.length v) :
    V3.normalize v = V3.divs v (V3.length v) := by
  unfold V3.normalize
  have h' : (0:ℝ) * 10 ^ (0:ℤ) < V3.length v := by simpa using h
  simp only [slit, slt, Int.cast_zero, h', if_true, V3.divs]

theorem normalize_of_zero {v : V3 ℝ} (h : V3.length v = 0) :
    V3.normalize v = ⟨0, 0, 0⟩ := by
  unfold V3.normalize
  simp [h, V3.zero, V3.fill]

theorem normalize_unit {v : V3 ℝ} (h : 0 < V3.length v) :
    V3.dot (V3.normalize v) (V3.normalize v) = 1 := by
  rw [normalize_of_pos h]; exact divs_length_unit (ne_of_gt h)

/-- v = |v| · (v/|v|) -/
theorem muls_divs_length {v : V3 ℝ} (h : V3.length v ≠ 0) :
    V3.muls (V3.divs v (V3.length v)) (V3.length v) = v := by
  apply V3.ext' <;> simp only [V3.muls, V3.divs, hmul, hdiv] <;> field_simp

/-! ### cross product -/

theorem cross_dot_left (u b : V3 ℝ) : V3.dot u (V3.cross u b) = 0 := by
  simp only [dot_def, V3.cross, hsub, hmul]; ring

theorem cross_dot_right (u b : V3 ℝ) : V3.dot b (V3.cross u b) = 0 := by
  simp only [dot_def, V3.cross, hsub, hmul]; ring

/-- Lagrange identity -/
theorem cross_dot_self (u b : V3 ℝ) :
    V3.dot (V3.cross u b) (V3.cross u b) = V3.dot u u * V3.dot b b - V3.dot u b * V3.dot u b := by
  simp only [dot_def, V3.cross, hsub, hmul]; ring

/-- det [u; b; u × b] = |u × b|² -/
theorem det_rows_cross (u b : V3 ℝ) :
    M33.det (M33.fromRows u b (V3.cross u b)) = V3.dot (V3.cross u b) (V3.cross u b) := by
  simp only [M33.det, M33.fromRows, dot_def, V3.cross, hadd, hsub, hmul]; ring

/-! ### matrices -/

/-- n · (R w) = (Rᵀ n) · w for every matrix R -/
theorem dot_mulVec (R : M33 ℝ) (n w : V3 ℝ) :
    V3.dot n (M33.mulVec R w) = V3.dot (M33.mulVec (M33.transpose R) n) w := by
  simp only [dot_def, M33.mulVec, M33.transpose, hadd, hmul]; ring

/-- an orthogonal matrix (RᵀR = I) preserves dot products -/
theorem dot_mulVec_mulVec {R : M33 ℝ} (hR : M33.mul (M33.transpose R) R = M33.identity) (v w : V3 ℝ) :
    V3.dot (M33.mulVec R v) (M33.mulVec R w) = V3.dot v w := by
  have e00 := congrArg M33.m00 hR
  have e01 := congrArg M33.m01 hR
  have e02 := congrArg M33.m02 hR
  have e11 := congrArg M33.m11 hR
  have e12 := congrArg M33.m12 hR
  have e22 := congrArg M33.m22 hR
  simp only [M33.mul, M33.transpose, M33.identity, hadd, hmul, slit] at e00 e01 e02 e11 e12 e22
  norm_num at e00 e01 e02 e11 e12 e22
  simp only [dot_def, M33.mulVec, hadd, hmul]
  linear_combination (v.c0 * w.c0) * e00 + (v.c0 * w.c1 + v.c1 * w.c0) * e01
    + (v.c0 * w.c2 + v.c2 * w.c0) * e02 + (v.c1 * w.c1) * e11
    + (v.c1 * w.c2 + v.c2 * w.c1) * e12 + (v.c2 * w.c2) * e22

/-! ### Bool-valued comparisons -/

theorem slt_true {a b : ℝ} (h : a < b) : Scalar.lt a b = true := (slt a b).mpr h
theorem slt_false {a b : ℝ} (h : b ≤ a) : Scalar.lt a b = false :=
  Bool.eq_false_iff.mpr (fun hc => absurd ((slt a b).mp hc) (not_lt.mpr h))
theorem sgt_true {a b : ℝ} (h : b < a) : Scalar.gt a b = true := (sgt a b).mpr h
theorem sgt_false {a b : ℝ} (h : a ≤ b) : Scalar.gt a b = false :=
  Bool.eq_false_iff.mpr (fun hc => absurd ((sgt a b).mp hc) (not_lt.mpr h))
theorem sle_true {a b : ℝ} (h : a ≤ b) : Scalar.le a b = true := (sle a b).mpr h
theorem sle_false {a b : ℝ} (h : b < a) : Scalar.le a b = false :=
  Bool.eq_false_iff.mpr (fun hc => absurd ((sle a b).mp hc) (not_le.mpr h))

/-! ### Cauchy–Schwarz and the triangle inequality -/

theorem dot_sq_le (x y : V3 ℝ) : V3.dot x y * V3.dot x y ≤ V3.dot x x * V3.dot y y := by
  have := dot_self_nonneg (V3.cross x y)
  rw [cross_dot_self] at this
  linarith

theorem abs_dot_le (x y : V3 ℝ) : |V3.dot x y| ≤ V3.length x * V3.length y := by
  have hx := length_nonneg x
  have hy := length_nonneg y
  have h := dot_sq_le x y
  rw [← length_mul_self x, ← length_mul_self y] at h
  have hxy : 0 ≤ V3.length x * V3.length y := mul_nonneg hx hy
  exact abs_le.mpr (abs_le_of_sq_le_sq' (by nlinarith) hxy)

theorem dot_add_add (x y : V3 ℝ) :
    V3.dot (V3.add x y) (V3.add x y) = V3.dot x x + 2 * V3.dot x y + V3.dot y y := by
  simp only [dot_def, V3.add, hadd]; ring

theorem length_add_le (x y : V3 ℝ) : V3.length (V3.add x y) ≤ V3.length x + V3.length y := by
  have hx := length_nonneg x
  have hy := length_nonneg y
  rw [length_def (V3.add x y)]
  apply Real.sqrt_le_iff.mpr
  refine ⟨by linarith, ?_⟩
  rw [dot_add_add]
  have h1 := (abs_le.mp (abs_dot_le x y)).2
  nlinarith [length_mul_self x, length_mul_self y]

/-! ### misc -/

theorem length_neg_sub (x y : V3 ℝ) : V3.length (V3.sub x y) = V3.length (V3.sub y x) := by
  rw [length_def, length_def]; congr 1
  simp only [dot_def, V3.sub, hsub]; ring

theorem dot_neg_neg (v : V3 ℝ) : V3.dot (V3.neg v) (V3.neg v) = V3.dot v v := by
  simp only [dot_def, V3.neg, hneg]; ring

theorem dot_normalize_self (w : V3 ℝ) : V3.dot w (V3.normalize w) = V3.length w := by
  rcases (length_nonneg w).lt_or_eq with h | h
  · rw [normalize_of_pos h, dot_divs_right, ← length_mul_self, mul_div_assoc, div_self (ne_of_gt h), mul_one]
  · rw [normalize_of_zero h.symm, ← h, dot_def]; ring

/-- clamping is the nearest-point projection onto an interval -/
theorem clamp1_closest (z c y : ℝ) (hy1 : -z ≤ y) (hy2 : y ≤ z) :
    (max (-z) (min z c) - c) * (max (-z) (min z c) - c) ≤ (y - c) * (y - c) := by
  have hz : -z ≤ z := hy1.trans hy2
  rcases le_total z c with h | h
  · rw [min_eq_left h, max_eq_right hz]; nlinarith
  · rw [min_eq_right h]
    rcases le_total (-z) c with h' | h'
    · rw [max_eq_right h']; nlinarith [mul_self_nonneg (y - c)]
    · rw [max_eq_left h']; nlinarith

end Mjw.C20L
