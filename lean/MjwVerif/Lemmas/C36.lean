/-
  Helper lemmas for Props/C36.lean (process-global kernel cache and dispatch list).
-/
import MjwVerif.Model.ProcState

namespace Mjw.Lemmas.C36
open Mjw.ProcState

/-- cache invariant relative to one builder `b`: every cached entry whose key is a key of `b` holds `b`'s kernel -/
def Inv {κ : Type} (b : Builder κ) (c : Cache κ) : Prop :=
  ∀ k kern, c.lookup k = some kern → ∀ a, key b.name a = some k → kern = b.build a

theorem inv_nil {κ : Type} (b : Builder κ) : Inv b ([] : Cache κ) := by
  intro k kern h; simp at h

theorem key_name {name : String} {args : List Arg} {k : Key} (h : key name args = some k) : k.2 = name := by
  unfold key at h
  cases hm : args.mapM hashArg with
  | none => rw [hm] at h; simp at h
  | some ks => rw [hm] at h; simp at h; rw [← h]

/-- one call of `b` itself or of a builder with another name preserves the invariant -/
theorem inv_step {κ : Type} (b : Builder κ)
    (hb : ∀ a a' k, key b.name a = some k → key b.name a' = some k → b.build a = b.build a')
    (c : Cache κ) (hc : Inv b c) (b' : Builder κ) (a' : List Arg) (hb' : b' = b ∨ b'.name ≠ b.name)
    (r : κ × Cache κ) (hr : cachedBuild c b' a' = some r) : Inv b r.2 := by
  unfold cachedBuild at hr
  cases hk : key b'.name a' with
  | none => rw [hk] at hr; simp at hr
  | some k' =>
    rw [hk] at hr
    simp only at hr
    cases hl : c.lookup k' with
    | some kern =>
      rw [hl] at hr
      simp only [Option.some.injEq] at hr
      rw [← hr]; exact hc
    | none =>
      rw [hl] at hr
      simp only [Option.some.injEq] at hr
      rw [← hr]
      intro k kern hlk a hka
      simp only [List.lookup_cons] at hlk
      by_cases hkk : k = k'
      · subst hkk
        simp only [beq_self_eq_true] at hlk
        have hkern : kern = b'.build a' := (Option.some.inj hlk).symm
        rcases hb' with rfl | hne
        · rw [hkern]; exact hb a' a k hk hka
        · exact absurd ((key_name hk).symm.trans (key_name hka)) hne
      · have : (k == k') = false := by simpa using hkk
        simp only [this] at hlk
        exact hc k kern hlk a hka

theorem inv_run {κ : Type} (b : Builder κ)
    (hb : ∀ a a' k, key b.name a = some k → key b.name a' = some k → b.build a = b.build a') :
    ∀ (hist : List (Builder κ × List Arg)) (c : Cache κ), Inv b c →
      (∀ x ∈ hist, x.1 = b ∨ x.1.name ≠ b.name) → Inv b (runHistory hist c) := by
  intro hist
  induction hist with
  | nil => intro c hc _; exact hc
  | cons x rest ih =>
    intro c hc hh
    obtain ⟨b', a'⟩ := x
    simp only [runHistory]
    cases hr : cachedBuild c b' a' with
    | none => exact ih c hc (fun y hy => hh y (List.mem_cons_of_mem _ hy))
    | some r =>
      obtain ⟨kern, c'⟩ := r
      exact ih c' (inv_step b hb c hc b' a' (hh (b', a') (List.mem_cons_self ..)) (kern, c') hr)
        (fun y hy => hh y (List.mem_cons_of_mem _ hy))

/-- with the invariant, a call returns `build args` -/
theorem cachedBuild_of_inv {κ : Type} (b : Builder κ) (c : Cache κ) (hc : Inv b c) (a : List Arg) (k : Key)
    (hk : key b.name a = some k) : (cachedBuild c b a).map Prod.fst = some (b.build a) := by
  unfold cachedBuild
  rw [hk]
  simp only
  cases hl : c.lookup k with
  | some kern => simp only [Option.map_some]; rw [hc k kern hl a hk]
  | none => simp only [Option.map_some]

/-! ### the dispatch list -/

theorem mem_appendWanted_aux (m : ModelInfo) : ∀ (ps : List PairType) (init : List PairType) (t : PairType),
    t ∈ ps.foldl (fun l t => if m.table.contains t && m.count t != 0 && !(l.contains t) then l ++ [t] else l) init →
      t ∈ init ∨ (t ∈ ps ∧ t ∈ m.table ∧ m.count t ≠ 0) := by
  intro ps
  induction ps with
  | nil => intro init t h; exact Or.inl h
  | cons p ps ih =>
    intro init t h
    simp only [List.foldl_cons] at h
    rcases ih _ t h with h1 | ⟨h1, h2, h3⟩
    · by_cases hc : (m.table.contains p && m.count p != 0 && !(init.contains p)) = true
      · rw [if_pos hc] at h1
        rcases List.mem_append.mp h1 with h1 | h1
        · exact Or.inl h1
        · have : t = p := by simpa using h1
          subst this
          simp only [Bool.and_eq_true, List.contains_eq_mem, decide_eq_true_eq, bne_iff_ne, ne_eq] at hc
          exact Or.inr ⟨List.mem_cons_self .., hc.1.1, hc.1.2⟩
      · rw [if_neg hc] at h1; exact Or.inl h1
    · exact Or.inr ⟨List.mem_cons_of_mem _ h1, h2, h3⟩

/-! ### what the key determines -/

theorem pyHashInt_small (n : Int) (h0 : 0 ≤ n) (h1 : n < 2305843009213693951) : pyHashInt n = n := by
  unfold pyHashInt
  have : n % 2305843009213693951 = n := Int.emod_eq_of_lt h0 h1
  simp only [ge_iff_le, h0, if_true, this]
  split <;> omega

theorem mapM_pyHash_eq : ∀ (items : List Arg) (l : List Int), items.mapM pyHash = some l →
    items.map (fun i => (pyHash i).getD 0) = l := by
  intro items
  induction items with
  | nil => intro l h; simp at h; simp [h]
  | cons x xs ih =>
    intro l h
    rw [List.mapM_cons] at h
    cases hx : pyHash x with
    | none => rw [hx] at h; simp at h
    | some v =>
      rw [hx] at h
      cases hxs : xs.mapM pyHash with
      | none => rw [hxs] at h; simp at h
      | some vs =>
        rw [hxs] at h
        simp at h
        rw [← h]
        simp [hx, ih vs hxs]

theorem mapM_pyHash_length : ∀ (items : List Arg) (l : List Int), items.mapM pyHash = some l → items.length = l.length := by
  intro items l h
  rw [← mapM_pyHash_eq items l h]; simp

theorem mapM_pyHash_isSome : ∀ (items : List Arg), items.all (fun i => (pyHash i).isSome) = true →
    ∃ l, items.mapM pyHash = some l := by
  intro items
  induction items with
  | nil => intro _; exact ⟨[], rfl⟩
  | cons x xs ih =>
    intro h
    simp only [List.all_cons, Bool.and_eq_true] at h
    obtain ⟨l, hl⟩ := ih h.2
    obtain ⟨v, hv⟩ := Option.isSome_iff_exists.mp h.1
    exact ⟨v :: l, by rw [List.mapM_cons, hv, hl]; rfl⟩

theorem scalar_case (k : PKind) (hk : k = .nat ∨ k = .bool ∨ k = .enum) (a : Arg) (ha : ofKind k a = true) :
    ∃ n : Int, hashArg a = some (.num n) ∧ observe .value a = .int n := by
  cases a with
  | int n =>
    have hr : 0 ≤ n ∧ n < 2305843009213693951 := by
      rcases hk with rfl | rfl | rfl <;> simpa [ofKind] using ha
    exact ⟨n, by simp [hashArg, pyHash, pyHashInt_small n hr.1 hr.2], rfl⟩
  | bool b =>
    cases b
    · exact ⟨0, by decide, rfl⟩
    · exact ⟨1, by decide, rfl⟩
  | float n => rcases hk with rfl | rfl | rfl <;> simp [ofKind] at ha
  | sized s p => rcases hk with rfl | rfl | rfl <;> simp [ofKind] at ha
  | obj i => rcases hk with rfl | rfl | rfl <;> simp [ofKind] at ha
  | list l => rcases hk with rfl | rfl | rfl <;> simp [ofKind] at ha

theorem list_case (k : PKind) (hk : k = .listTuples ∨ k = .listFuncs) (a : Arg) (ha : ofKind k a = true) :
    ∃ (items : List Arg) (l : List Int), a = .list items ∧ hashArg a = some (.tup l)
      ∧ observe .elems a = .ints l ∧ observe .len a = .int (Int.ofNat l.length) := by
  cases a with
  | list items =>
    have hall : items.all (fun i => (pyHash i).isSome) = true := by
      rcases hk with rfl | rfl <;> simpa [ofKind] using ha
    obtain ⟨l, hl⟩ := mapM_pyHash_isSome items hall
    refine ⟨items, l, rfl, by simp [hashArg, hl], ?_, ?_⟩
    · simp only [observe]; rw [mapM_pyHash_eq items l hl]
    · simp only [observe]; rw [mapM_pyHash_length items l hl]
  | int n => rcases hk with rfl | rfl <;> simp [ofKind] at ha
  | bool n => rcases hk with rfl | rfl <;> simp [ofKind] at ha
  | float n => rcases hk with rfl | rfl <;> simp [ofKind] at ha
  | sized s p => rcases hk with rfl | rfl <;> simp [ofKind] at ha
  | obj i => rcases hk with rfl | rfl <;> simp [ofKind] at ha

theorem key_determines_reads (k : PKind) (a a' : Arg) (ha : ofKind k a = true) (ha' : ofKind k a' = true)
    (h : hashArg a = hashArg a') (r : Read) (hr : r ∈ distinguishes k) : observe r a = observe r a' := by
  have scalar : ∀ k, (k = .nat ∨ k = .bool ∨ k = .enum) → ofKind k a = true → ofKind k a' = true →
      observe .value a = observe .value a' := by
    intro k hk h1 h2
    obtain ⟨n, hn1, hn2⟩ := scalar_case k hk a h1
    obtain ⟨n', hn1', hn2'⟩ := scalar_case k hk a' h2
    rw [hn1, hn1'] at h
    have : n = n' := by simpa using h
    rw [hn2, hn2', this]
  have lst : ∀ k, (k = .listTuples ∨ k = .listFuncs) → ofKind k a = true → ofKind k a' = true →
      observe .elems a = observe .elems a' ∧ observe .len a = observe .len a' := by
    intro k hk h1 h2
    obtain ⟨items, l, -, e1, e2, e3⟩ := list_case k hk a h1
    obtain ⟨items', l', -, e1', e2', e3'⟩ := list_case k hk a' h2
    rw [e1, e1'] at h
    have : l = l' := by simpa using h
    rw [e2, e2', e3, e3', this]; exact ⟨rfl, rfl⟩
  cases k <;> simp only [distinguishes, List.mem_cons, List.not_mem_nil, or_false] at hr
  · subst hr; exact scalar _ (Or.inl rfl) ha ha'
  · subst hr; exact scalar _ (Or.inr (Or.inl rfl)) ha ha'
  · subst hr; exact scalar _ (Or.inr (Or.inr rfl)) ha ha'
  · subst hr
    cases a <;> cases a' <;> simp [ofKind] at ha ha'
    simp only [hashArg, Option.some.injEq, KeyC.num.injEq] at h
    simp [observe, h]
  · rcases hr with rfl | rfl
    · exact (lst _ (Or.inl rfl) ha ha').1
    · exact (lst _ (Or.inl rfl) ha ha').2
  · rcases hr with rfl | rfl
    · exact (lst _ (Or.inr rfl) ha ha').1
    · exact (lst _ (Or.inr rfl) ha ha').2

end Mjw.Lemmas.C36
