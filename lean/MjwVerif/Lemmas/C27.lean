/-
  Helper lemmas for Props/C27 (velocity derivatives).
  * closed forms of `Mjw.Gen.Util_misc._poly_force`, `_poly_force_deriv`, `poly_potential` at K = ℝ
    (pure unfolding of the generated code);
  * calculus: `y ↦ y·|y|` is differentiable everywhere with derivative `2|x|`; cubic / quartic pieces;
  * `_qderiv_tendon_damping`: stage definitions (`tendonScanK`, `tendonAccK`) equal to the generated kernel by `rfl`,
    and the closed form of the accumulated value (`tendonAcc_real`).
-/
import MjwVerif.Lemmas.C24
import MjwVerif.Gen.Util_misc
import MjwVerif.Gen.Derivative

set_option linter.unusedSimpArgs false
set_option linter.unusedVariables false

namespace Mjw.Lemmas.C27
open Mjw Mjw.Gen.Util_misc Mjw.Gen.Derivative Mjw.Lemmas.C24

/-- the argument the polynomial is evaluated at: `|x|` when `flg_odd == 1`, else `x` -/
noncomputable def xval (x : ℝ) (odd : Int) : ℝ := if odd = 1 then |x| else x

theorem poly_force_closed (lin : ℝ) (poly : V2 ℝ) (x : ℝ) (odd : Int) :
    _poly_force lin poly x odd = lin + poly.c0 * xval x odd + poly.c1 * xval x odd * xval x odd := by
  simp only [_poly_force, xval, hadd, hmul, sabs, decide_eq_true_eq]

theorem poly_force_deriv_closed (lin : ℝ) (poly : V2 ℝ) (x : ℝ) (odd : Int) :
    _poly_force_deriv lin poly x odd
      = lin + 2 * poly.c0 * xval x odd + 3 * poly.c1 * xval x odd * xval x odd := by
  simp only [_poly_force_deriv, xval, hadd, hmul, sabs, decide_eq_true_eq, lit2, lit3]

/-- the decimal literal the translator prints for Python's `1.0 / 3.0` -/
theorem third_lit : (Scalar.lit 3333333333333333 (-16) : ℝ) = 3333333333333333 / 10 ^ 16 := by
  simp only [slit]; norm_num

theorem quarter_lit : (Scalar.lit 25 (-2) : ℝ) = 1 / 4 := by
  simp only [slit]; norm_num

theorem poly_potential_closed (lin : ℝ) (poly : V2 ℝ) (x : ℝ) (odd : Int) :
    poly_potential lin poly x odd
      = 1 / 2 * lin * (xval x odd * xval x odd)
        + poly.c0 * (3333333333333333 / 10 ^ 16) * (xval x odd * xval x odd * xval x odd)
        + poly.c1 * (1 / 4) * (xval x odd * xval x odd * xval x odd * xval x odd) := by
  simp only [poly_potential, xval, hadd, hmul, sabs, decide_eq_true_eq, half_lit, third_lit, quarter_lit]

/-! ### calculus -/

/-- `y ↦ y·|y|` has derivative `2|x|` at every x (also at 0) -/
theorem hasDerivAt_mul_abs (x : ℝ) : HasDerivAt (fun y : ℝ => y * |y|) (2 * |x|) x := by
  have dpos : ∀ z : ℝ, HasDerivAt (fun y : ℝ => y * y) (2 * z) z := by
    intro z
    have := hasDerivAt_quad 1 z
    simpa [one_mul, mul_one] using this
  have dneg : ∀ z : ℝ, HasDerivAt (fun y : ℝ => -(y * y)) (-(2 * z)) z := fun z => (dpos z).neg
  rcases lt_trichotomy x 0 with h | h | h
  · rw [abs_of_neg h]
    have hd : HasDerivAt (fun y : ℝ => -(y * y)) (2 * -x) x := by
      convert dneg x using 1; ring
    refine hasDerivAt_of_eqOn_nhds (Iio_mem_nhds h) (fun y hy => ?_) hd
    have hy' : y < 0 := hy
    rw [abs_of_neg hy']; ring
  · subst h
    rw [abs_zero, mul_zero]
    have h1 : HasDerivAt (fun y : ℝ => -(y * y)) 0 0 := by
      convert dneg 0 using 1; ring
    have h2 : HasDerivAt (fun y : ℝ => y * y) 0 0 := by
      convert dpos 0 using 1; ring
    refine hasDerivAt_glue (fun y hy => ?_) (fun y hy => ?_) h1 h2
    · rw [abs_of_nonpos hy]; ring
    · rw [abs_of_nonneg hy]
  · rw [abs_of_pos h]
    refine hasDerivAt_of_eqOn_nhds (Ioi_mem_nhds h) (fun y hy => ?_) (dpos x)
    have hy' : 0 < y := hy
    rw [abs_of_pos hy']

/-- `y ↦ y·y·y` -/
theorem hasDerivAt_cube (x : ℝ) : HasDerivAt (fun y : ℝ => y * y * y) (3 * x * x) x := by
  have h := ((hasDerivAt_id' x).mul (hasDerivAt_id' x)).mul (hasDerivAt_id' x)
  refine hasDerivAt_congr h (fun y => rfl) ?_
  simp only [Pi.mul_apply]
  ring

/-- `y ↦ y·y·y·y` -/
theorem hasDerivAt_quartic (x : ℝ) : HasDerivAt (fun y : ℝ => y * y * y * y) (4 * x * x * x) x := by
  have h := (((hasDerivAt_id' x).mul (hasDerivAt_id' x)).mul (hasDerivAt_id' x)).mul (hasDerivAt_id' x)
  refine hasDerivAt_congr h (fun y => rfl) ?_
  simp only [Pi.mul_apply]
  ring

/-! ### `_qderiv_tendon_damping`: K-generic stage definitions tied to the generated kernel by `rfl`,
    and their closed forms over ℝ -/

section tendon
variable {K : Type} [Scalar K]

/-- one step of the Jacobian-row scan of `_qderiv_tendon_damping` (K-generic copy, tied by `rfl` below) -/
def tendonScanStepK (ten_J_colind : Int → Int) (ten_J_in : Int → Int → K) (worldid rowadr dofiid dofjid : Int)
    (k : Int) (st : (K × K × Bool)) : (K × K × Bool) :=
  let (Ji, Jj, brk_2) := st
  if brk_2 then st else
  if ((Scalar.bne Ji (Scalar.lit 0 0 : K)) && (Scalar.bne Jj (Scalar.lit 0 0 : K))) then
    (Ji, Jj, true)
  else
    let sparseid : Int := (rowadr + k)
    let colind : Int := (ten_J_colind sparseid)
    let Ji := if (decide (colind = dofiid)) then (ten_J_in worldid sparseid) else Ji
    let Jj := if (decide (colind = dofjid)) then (ten_J_in worldid sparseid) else Jj
    (Ji, Jj, brk_2)

def tendonScanK (ten_J_colind : Int → Int) (ten_J_in : Int → Int → K) (worldid rowadr rownnz dofiid dofjid : Int) :
    K × K × Bool :=
  Mjw.forRange (0 : Int) rownnz ((Scalar.lit 0 0 : K), (Scalar.lit 0 0 : K), false)
    (tendonScanStepK ten_J_colind ten_J_in worldid rowadr dofiid dofjid)

def tendonAccK (ntendon : Int) (ten_J_rownnz ten_J_rowadr ten_J_colind : Int → Int)
    (tendon_damping : Int → Int → K) (tendon_dampingpoly : Int → Int → V2 K)
    (ten_J_in ten_velocity_in : Int → Int → K) (s1 s2 worldid dofiid dofjid : Int) : K :=
  Mjw.forRange (0 : Int) ntendon (Scalar.lit 0 0 : K) (fun (tenid : Int) (st : K) =>
    let qderiv := st
    let damping : K := (tendon_damping (Int.tmod worldid s1) tenid)
    let dpoly : V2 K := (tendon_dampingpoly (Int.tmod worldid s2) tenid)
    if ((Scalar.beq damping (Scalar.lit 0 0 : K)) && (Scalar.beq dpoly.c0 (Scalar.lit 0 0 : K)) && (Scalar.beq dpoly.c1 (Scalar.lit 0 0 : K))) then
      qderiv
    else
      let (Ji, Jj, brk_2) := tendonScanK ten_J_colind ten_J_in worldid (ten_J_rowadr tenid) (ten_J_rownnz tenid) dofiid dofjid
      let v : K := (ten_velocity_in worldid tenid)
      (qderiv - ((Ji * Jj) * (_poly_force_deriv damping dpoly v (1 : Int)))))

theorem qderiv_tendon_damping_eq (ntendon : Int) (h : Int → K) (rownnz rowadr colind : Int → Int)
    (tdamp : Int → Int → K) (tpoly : Int → Int → V2 K) (elemid : Int → Int → Int) (J tvel : Int → Int → K)
    (Mi Mj : Int → Int) (qout : Int → Int → K) (s1 s2 s0 w e : Int) :
    _qderiv_tendon_damping ntendon h rownnz rowadr colind tdamp tpoly elemid J tvel Mi Mj qout s1 s2 s0 w e
      = if decide (elemid (Mi e) (Mj e) < 0) then []
        else [Write.mk "qDeriv_out" [w, elemid (Mi e) (Mj e)]
          (WVal.f (qout w (elemid (Mi e) (Mj e))
            - tendonAccK ntendon rownnz rowadr colind tdamp tpoly J tvel s1 s2 w (Mi e) (Mj e)
              * h (Int.tmod w s0))) WKind.set] := rfl
end tendon

section tendon_real
open Finset

/-- dense entry `d` of the sparse row stored at `[adr, adr+n)`: the value at the last `k < n` whose column index
    is `d`, or 0 if there is none (for a CSR row with distinct column indices: THE entry in column `d`) -/
noncomputable def rowEntry (colind : Int → Int) (Jrow : Int → ℝ) (adr d : Int) : Nat → ℝ
  | 0 => 0
  | n + 1 => if colind (adr + (n : Int)) = d then Jrow (adr + (n : Int)) else rowEntry colind Jrow adr d n

/-- column indices of the row are pairwise distinct -/
def RowDistinct (colind : Int → Int) (adr : Int) (N : Nat) : Prop :=
  ∀ k1 k2 : Nat, k1 < N → k2 < N → colind (adr + (k1 : Int)) = colind (adr + (k2 : Int)) → k1 = k2

theorem rowEntry_ne_zero (colind : Int → Int) (Jrow : Int → ℝ) (adr d : Int) :
    ∀ n : Nat, rowEntry colind Jrow adr d n ≠ 0 → ∃ k : Nat, k < n ∧ colind (adr + (k : Int)) = d
  | 0, h => absurd rfl h
  | n + 1, h => by
    unfold rowEntry at h
    by_cases hc : colind (adr + (n : Int)) = d
    · exact ⟨n, Nat.lt_succ_self n, hc⟩
    · rw [if_neg hc] at h
      obtain ⟨k, hk, hk'⟩ := rowEntry_ne_zero colind Jrow adr d n h
      exact ⟨k, Nat.lt_succ_of_lt hk, hk'⟩

theorem scanStep_real (colind : Int → Int) (J : Int → Int → ℝ) (w adr di dj : Int) (k : Nat) (s : ℝ × ℝ × Bool) :
    tendonScanStepK colind J w adr di dj (0 + Int.ofNat k) s
      = if s.2.2 = true then s else if s.1 ≠ 0 ∧ s.2.1 ≠ 0 then (s.1, s.2.1, true)
        else (if colind (adr + (k : Int)) = di then J w (adr + (k : Int)) else s.1,
              if colind (adr + (k : Int)) = dj then J w (adr + (k : Int)) else s.2.1, s.2.2) := by
  obtain ⟨a, b, c⟩ := s
  simp only [tendonScanStepK, sbne, lit0, Bool.and_eq_true, decide_eq_true_eq, Int.ofNat_eq_natCast, zero_add]

theorem scan_fold (colind : Int → Int) (J : Int → Int → ℝ) (w adr di dj : Int) (N : Nat)
    (hd : RowDistinct colind adr N) : ∀ n : Nat, n ≤ N →
    let s := (List.range n).foldl
      (fun s (k : Nat) => tendonScanStepK colind J w adr di dj (0 + Int.ofNat k) s) ((0 : ℝ), (0 : ℝ), false)
    s.1 = rowEntry colind (J w) adr di n ∧ s.2.1 = rowEntry colind (J w) adr dj n ∧
      (s.2.2 = true → s.1 ≠ 0 ∧ s.2.1 ≠ 0) := by
  intro n
  induction n with
  | zero => intro _; simp [rowEntry]
  | succ n ih =>
    intro hn
    have ih' := ih (Nat.le_of_succ_le hn)
    simp only [List.range_succ, List.foldl_append, List.foldl_cons, List.foldl_nil] at ih' ⊢
    generalize (List.range n).foldl
      (fun s (k : Nat) => tendonScanStepK colind J w adr di dj (0 + Int.ofNat k) s) ((0 : ℝ), (0 : ℝ), false) = s at ih' ⊢
    obtain ⟨h1, h2, h3⟩ := ih'
    rw [scanStep_real]
    -- a nonzero accumulated entry excludes a match at position n
    have excl : ∀ d, rowEntry colind (J w) adr d n ≠ 0 → colind (adr + (n : Int)) ≠ d := by
      intro d hne hc
      obtain ⟨k, hk, hk'⟩ := rowEntry_ne_zero colind (J w) adr d n hne
      have := hd k n (by omega) (by omega) (by rw [hk', hc])
      omega
    by_cases hb : s.2.2 = true
    · obtain ⟨n1, n2⟩ := h3 hb
      rw [if_pos hb]
      refine ⟨?_, ?_, h3⟩
      · unfold rowEntry; rw [if_neg (excl di (h1 ▸ n1))]; exact h1
      · unfold rowEntry; rw [if_neg (excl dj (h2 ▸ n2))]; exact h2
    · rw [if_neg hb]
      by_cases hnz : s.1 ≠ 0 ∧ s.2.1 ≠ 0
      · rw [if_pos hnz]
        refine ⟨?_, ?_, fun _ => hnz⟩
        · show s.1 = _
          unfold rowEntry; rw [if_neg (excl di (h1 ▸ hnz.1))]; exact h1
        · show s.2.1 = _
          unfold rowEntry; rw [if_neg (excl dj (h2 ▸ hnz.2))]; exact h2
      · rw [if_neg hnz]
        refine ⟨?_, ?_, fun h => absurd h hb⟩
        · show (if _ then _ else _) = _
          unfold rowEntry; rw [h1]
        · show (if _ then _ else _) = _
          unfold rowEntry; rw [h2]

theorem tendonScan_real (colind : Int → Int) (J : Int → Int → ℝ) (w adr nnz di dj : Int)
    (hd : RowDistinct colind adr nnz.toNat) :
    (tendonScanK colind J w adr nnz di dj).1 = rowEntry colind (J w) adr di nnz.toNat ∧
    (tendonScanK colind J w adr nnz di dj).2.1 = rowEntry colind (J w) adr dj nnz.toNat := by
  have h := scan_fold colind J w adr di dj nnz.toNat hd nnz.toNat le_rfl
  simp only [tendonScanK, Mjw.forRange, sub_zero, lit0]
  exact ⟨h.1, h.2.1⟩

theorem tendonAcc_real (ntendon : Int) (rownnz rowadr colind : Int → Int) (tdamp : Int → Int → ℝ)
    (tpoly : Int → Int → V2 ℝ) (J tvel : Int → Int → ℝ) (s1 s2 w di dj : Int)
    (hd : ∀ t : Nat, t < ntendon.toNat → RowDistinct colind (rowadr t) (rownnz t).toNat) :
    tendonAccK ntendon rownnz rowadr colind tdamp tpoly J tvel s1 s2 w di dj
      = - ∑ t ∈ Finset.range ntendon.toNat,
          rowEntry colind (J w) (rowadr t) di (rownnz t).toNat * rowEntry colind (J w) (rowadr t) dj (rownnz t).toNat
            * _poly_force_deriv (tdamp (Int.tmod w s1) t) (tpoly (Int.tmod w s2) t) (tvel w t) 1 := by
  simp only [tendonAccK, Mjw.forRange, sub_zero, lit0]
  suffices H : ∀ n : Nat, n ≤ ntendon.toNat →
      (List.range n).foldl (fun (s : ℝ) (k : Nat) =>
        if (Scalar.beq (tdamp (Int.tmod w s1) (0 + Int.ofNat k)) 0 && Scalar.beq (tpoly (Int.tmod w s2) (0 + Int.ofNat k)).c0 0
            && Scalar.beq (tpoly (Int.tmod w s2) (0 + Int.ofNat k)).c1 0) = true then s
        else
          match tendonScanK colind J w (rowadr (0 + Int.ofNat k)) (rownnz (0 + Int.ofNat k)) di dj with
          | (Ji, Jj, brk_2) => s - Ji * Jj * _poly_force_deriv (tdamp (Int.tmod w s1) (0 + Int.ofNat k))
              (tpoly (Int.tmod w s2) (0 + Int.ofNat k)) (tvel w (0 + Int.ofNat k)) 1) 0
        = - ∑ t ∈ Finset.range n,
          rowEntry colind (J w) (rowadr t) di (rownnz t).toNat * rowEntry colind (J w) (rowadr t) dj (rownnz t).toNat
            * _poly_force_deriv (tdamp (Int.tmod w s1) t) (tpoly (Int.tmod w s2) t) (tvel w t) 1 by
    exact H _ le_rfl
  intro n
  induction n with
  | zero => intro _; simp
  | succ n ih =>
    intro hn
    rw [List.range_succ, List.foldl_append, ih (Nat.le_of_succ_le hn), Finset.sum_range_succ]
    simp only [List.foldl_cons, List.foldl_nil, Int.ofNat_eq_natCast, zero_add]
    obtain ⟨e1, e2⟩ := tendonScan_real colind J w (rowadr n) (rownnz n) di dj (hd n (by omega))
    split_ifs with hz
    · simp only [Bool.and_eq_true, sbeq] at hz
      obtain ⟨⟨z0, z1⟩, z2⟩ := hz
      rw [poly_force_deriv_closed, z0, z1, z2]
      simp
    · rcases hs : tendonScanK colind J w (rowadr n) (rownnz n) di dj with ⟨a, b, c⟩
      rw [hs] at e1 e2
      simp only at e1 e2 ⊢
      rw [e1, e2]
      ring
end tendon_real

end Mjw.Lemmas.C27
