/-
  ℝ instance of `Scalar` and the rewriting lemmas that turn class operations into Mathlib's.
  Proof files import this; model/Gen files never do.
-/
import MjwVerif.Model.Vec
import Mathlib.Analysis.SpecialFunctions.Sqrt
import Mathlib.Analysis.SpecialFunctions.Trigonometric.Basic
import Mathlib.Analysis.SpecialFunctions.Trigonometric.Arctan
import Mathlib.Analysis.SpecialFunctions.Pow.Real
import Mathlib.Tactic.Ring
import Mathlib.Tactic.Linarith
import Mathlib.Tactic.FieldSimp
import Mathlib.Tactic.NormNum
import Mathlib.Tactic.Positivity

namespace Mjw
open Classical

/-- atan2 over ℝ: only its totality is used in theorems (no property of it is assumed). -/
noncomputable def realAtan2 (y x : ℝ) : ℝ :=
  if 0 < x then Real.arctan (y / x)
  else if x < 0 then (if 0 ≤ y then Real.arctan (y / x) + Real.pi else Real.arctan (y / x) - Real.pi)
  else if 0 < y then Real.pi / 2 else if y < 0 then -(Real.pi / 2) else 0

noncomputable instance realScalar : Scalar ℝ where
  add := (· + ·)
  sub := (· - ·)
  mul := (· * ·)
  div := (· / ·)
  neg := (- ·)
  lit m e := (m : ℝ) * (10 : ℝ) ^ e
  lt a b := decide (a < b)
  le a b := decide (a ≤ b)
  beq a b := decide (a = b)
  abs a := |a|
  min := min
  max := max
  sqrt := Real.sqrt
  sin := Real.sin
  cos := Real.cos
  tan := Real.tan
  asin := Real.arcsin
  acos := Real.arccos
  atan2 := realAtan2
  exp := Real.exp
  log := Real.log
  pow := fun a b => a ^ b
  floor a := (⌊a⌋ : ℤ)
  ceil a := (⌈a⌉ : ℤ)
  isnan _ := false
  pi := Real.pi
  ofInt i := (i : ℝ)
  toInt a := if 0 ≤ a then ⌊a⌋ else ⌈a⌉

section simp_lemmas
variable (a b : ℝ)
@[simp] theorem sadd : Scalar.add a b = a + b := rfl
@[simp] theorem ssub : Scalar.sub a b = a - b := rfl
@[simp] theorem smul' : Scalar.mul a b = a * b := rfl
@[simp] theorem sdiv : Scalar.div a b = a / b := rfl
@[simp] theorem sneg : Scalar.neg a = -a := rfl
@[simp] theorem hadd : (@HAdd.hAdd ℝ ℝ ℝ (@instHAdd ℝ Scalar.instAdd) a b) = a + b := rfl
@[simp] theorem hsub : (@HSub.hSub ℝ ℝ ℝ (@instHSub ℝ Scalar.instSub) a b) = a - b := rfl
@[simp] theorem hmul : (@HMul.hMul ℝ ℝ ℝ (@instHMul ℝ Scalar.instMul) a b) = a * b := rfl
@[simp] theorem hdiv : (@HDiv.hDiv ℝ ℝ ℝ (@instHDiv ℝ Scalar.instDiv) a b) = a / b := rfl
@[simp] theorem hneg : (@Neg.neg ℝ Scalar.instNeg a) = -a := rfl
@[simp] theorem slit (m e : Int) : (Scalar.lit m e : ℝ) = (m : ℝ) * (10 : ℝ) ^ e := rfl
@[simp] theorem slt : (Scalar.lt a b = true) ↔ a < b := by simp [Scalar.lt]
@[simp] theorem sle : (Scalar.le a b = true) ↔ a ≤ b := by simp [Scalar.le]
@[simp] theorem sbeq : (Scalar.beq a b = true) ↔ a = b := by simp [Scalar.beq]
@[simp] theorem sgt : (Scalar.gt a b = true) ↔ b < a := by simp [Scalar.gt]
@[simp] theorem sge : (Scalar.ge a b = true) ↔ b ≤ a := by simp [Scalar.ge]
@[simp] theorem sbne : (Scalar.bne a b = true) ↔ a ≠ b := by simp [Scalar.bne, Scalar.beq]
@[simp] theorem sabs : Scalar.abs a = |a| := rfl
@[simp] theorem smin : Scalar.min a b = min a b := rfl
@[simp] theorem smax : Scalar.max a b = max a b := rfl
@[simp] theorem ssqrt : Scalar.sqrt a = Real.sqrt a := rfl
@[simp] theorem ssin : Scalar.sin a = Real.sin a := rfl
@[simp] theorem scos : Scalar.cos a = Real.cos a := rfl
@[simp] theorem sexp : Scalar.exp a = Real.exp a := rfl
@[simp] theorem spi : (Scalar.pi : ℝ) = Real.pi := rfl
@[simp] theorem sofInt (i : Int) : (Scalar.ofInt i : ℝ) = (i : ℝ) := rfl
end simp_lemmas

end Mjw
