/-
  Helper lemmas for property C21 (inertia factorisation): the level-parallel LᵀDL model of `Model/LDL.lean` over ℝ.
  * `sumTo` is a `Finset.range` sum; closed forms of the level steps;
  * back-substitution: `upAll` solves `(I+ℓ)ᵀ z = y`, `downAll` solves `(I+ℓ) w = u`, whenever ℓ is strictly
    triangular with respect to `depth` (`DepthTri`);
  * `Lᵀ D L` with positive `D` is positive definite;
  * factorisation invariant (`factor_inv`).
-/
import MjwVerif.Lemmas.Real
import MjwVerif.Model.LDL

open Mjw Mjw.LDL Finset

namespace Mjw.Lemmas.C21

/-! ## sums -/

theorem sumTo_eq (n : ℕ) (f : ℕ → ℝ) : sumTo n f = ∑ k ∈ range n, f k := by
  induction n with
  | zero => simp [sumTo]
  | succ n ih => simp only [sumTo, hadd, ih, sum_range_succ]

theorem lit0 : (Scalar.lit 0 0 : ℝ) = 0 := by simp
theorem lit1 : (Scalar.lit 1 0 : ℝ) = 1 := by simp

section solve
variable (n : ℕ) (depth : ℕ → ℕ) (ℓ : ℕ → ℕ → ℝ)

/-- `ℓ` is strictly lower triangular with respect to `depth`: `ℓ k i ≠ 0` only if `i` lies on a strictly lower level
    than `k` (true of the update pairs `(i, k)` of io.py: `i` is a proper ancestor of `k`). -/
def DepthTri : Prop := ∀ k i, k < n → i < n → ℓ k i ≠ 0 → depth i < depth k

theorem upLevel_eq (l : ℕ) (x : ℕ → ℝ) (i : ℕ) :
    upLevel n depth ℓ l x i = if depth i = l then x i - ∑ k ∈ range n, ℓ k i * x k else x i := by
  simp only [upLevel, sumTo_eq, hsub, hmul, beq_iff_eq]

theorem downLevel_eq (l : ℕ) (x : ℕ → ℝ) (k : ℕ) :
    downLevel n depth ℓ l x k = x k - ∑ i ∈ range n, (if depth i = l then ℓ k i * x i else 0) := by
  simp only [downLevel, sumTo_eq, hsub, hmul, beq_iff_eq, lit0]

variable {n depth ℓ}

theorem sum_up_unchanged (h : DepthTri n depth ℓ) (l : ℕ) (x : ℕ → ℝ) (i : ℕ) (hi : i < n) (hl : l ≤ depth i) :
    ∑ k ∈ range n, ℓ k i * upLevel n depth ℓ l x k = ∑ k ∈ range n, ℓ k i * x k := by
  apply sum_congr rfl
  intro k hk
  rw [mem_range] at hk
  by_cases h0 : ℓ k i = 0
  · rw [h0]; ring
  · have := h k i hk hi h0
    have hne : depth k ≠ l := by omega
    rw [upLevel_eq, if_neg hne]

/-- invariant of the up-sweep: levels `≥ l` are solved, levels `< l` still hold the right-hand side -/
theorem upAll_inv (h : DepthTri n depth ℓ) (y : ℕ → ℝ) : ∀ (l : ℕ) (x : ℕ → ℝ),
    (∀ i, i < n → l ≤ depth i → x i + ∑ k ∈ range n, ℓ k i * x k = y i) →
    (∀ i, i < n → depth i < l → x i = y i) →
    ∀ i, i < n → upAll n depth ℓ l x i + ∑ k ∈ range n, ℓ k i * upAll n depth ℓ l x k = y i := by
  intro l
  induction l with
  | zero => intro x h1 _ i hi; exact h1 i hi (Nat.zero_le _)
  | succ l ih =>
    intro x h1 h2 i hi
    show upAll n depth ℓ l (upLevel n depth ℓ l x) i
      + ∑ k ∈ range n, ℓ k i * upAll n depth ℓ l (upLevel n depth ℓ l x) k = y i
    apply ih (upLevel n depth ℓ l x) ?_ ?_ i hi
    · intro j hj hlj
      rw [sum_up_unchanged h l x j hj hlj, upLevel_eq]
      by_cases hd : depth j = l
      · rw [if_pos hd, h2 j hj (by omega)]; ring
      · rw [if_neg hd]; exact h1 j hj (by omega)
    · intro j hj hlj
      rw [upLevel_eq, if_neg (by omega)]; exact h2 j hj (by omega)

/-- the up-sweep solves `(I + ℓ)ᵀ z = y` -/
theorem upAll_solves (h : DepthTri n depth ℓ) (nl : ℕ) (hnl : ∀ i, i < n → depth i < nl) (y : ℕ → ℝ) (i : ℕ) (hi : i < n) :
    upAll n depth ℓ nl y i + ∑ k ∈ range n, ℓ k i * upAll n depth ℓ nl y k = y i :=
  upAll_inv h y nl y (fun j hj hl => absurd (hnl j hj) (by omega)) (fun _ _ _ => rfl) i hi

theorem down_fixed (h : DepthTri n depth ℓ) (l : ℕ) (x : ℕ → ℝ) (i : ℕ) (hi : i < n) (hd : depth i ≤ l) :
    downLevel n depth ℓ l x i = x i := by
  rw [downLevel_eq]
  have : ∑ j ∈ range n, (if depth j = l then ℓ i j * x j else 0) = 0 := by
    apply sum_eq_zero
    intro j hj
    rw [mem_range] at hj
    split_ifs with hjl
    · by_cases h0 : ℓ i j = 0
      · rw [h0]; ring
      · have := h i j hi hj h0; omega
    · rfl
  rw [this]; ring

/-- invariant of the down-sweep: the contributions of all sources on levels `< l` have been subtracted -/
theorem downAll_inv (h : DepthTri n depth ℓ) (v : ℕ → ℝ) : ∀ (l : ℕ) (k : ℕ), k < n →
    downAll n depth ℓ l v k
      + ∑ i ∈ range n, (if depth i < l then ℓ k i * downAll n depth ℓ l v i else 0) = v k := by
  intro l
  induction l with
  | zero => intro k hk; simp [downAll]
  | succ l ih =>
    intro k hk
    show downLevel n depth ℓ l (downAll n depth ℓ l v) k
      + ∑ i ∈ range n, (if depth i < l + 1 then ℓ k i * downLevel n depth ℓ l (downAll n depth ℓ l v) i else 0) = v k
    generalize hx : downAll n depth ℓ l v = x at ih ⊢
    have e1 : ∀ i ∈ range n, (if depth i < l + 1 then ℓ k i * downLevel n depth ℓ l x i else 0)
        = (if depth i < l then ℓ k i * x i else 0) + (if depth i = l then ℓ k i * x i else 0) := by
      intro i hi
      rw [mem_range] at hi
      by_cases c1 : depth i < l
      · rw [if_pos (by omega), if_pos c1, if_neg (by omega), down_fixed h l x i hi (by omega)]; ring
      · by_cases c2 : depth i = l
        · rw [if_pos (by omega), if_neg c1, if_pos c2, down_fixed h l x i hi (by omega)]; ring
        · rw [if_neg (by omega), if_neg c1, if_neg c2]; ring
    rw [sum_congr rfl e1, sum_add_distrib, downLevel_eq]
    have := ih k hk
    linarith

/-- the down-sweep solves `(I + ℓ) w = v` -/
theorem downAll_solves (h : DepthTri n depth ℓ) (nl : ℕ) (hnl : ∀ i, i < n → depth i < nl) (v : ℕ → ℝ) (k : ℕ) (hk : k < n) :
    downAll n depth ℓ nl v k + ∑ i ∈ range n, ℓ k i * downAll n depth ℓ nl v i = v k := by
  have := downAll_inv h v nl k hk
  rw [← this]
  congr 1
  apply sum_congr rfl
  intro i hi
  rw [mem_range] at hi
  rw [if_pos (hnl i hi)]

/-! ### `Lᵀ D L` -/

theorem unitLower_eq (k i : ℕ) : unitLower ℓ k i = (if k = i then 1 else 0) + ℓ k i := by
  simp only [unitLower, hadd, lit0, lit1]

theorem ltdl_eq (D : ℕ → ℝ) (i j : ℕ) :
    ltdl n ℓ D i j = ∑ k ∈ range n, unitLower ℓ k i * D k * unitLower ℓ k j := by
  simp only [ltdl, sumTo_eq, hmul]

theorem mulVec_eq (A : ℕ → ℕ → ℝ) (x : ℕ → ℝ) (i : ℕ) : mulVec n A x i = ∑ j ∈ range n, A i j * x j := by
  simp only [mulVec, sumTo_eq, hmul]

/-- column `i` of `I + ℓ` against a vector: `Σ_k (I+ℓ) k i · f k = f i + Σ_k ℓ k i · f k` -/
theorem unit_col_sum (f : ℕ → ℝ) (i : ℕ) (hi : i < n) :
    ∑ k ∈ range n, unitLower ℓ k i * f k = f i + ∑ k ∈ range n, ℓ k i * f k := by
  simp only [unitLower_eq, add_mul, sum_add_distrib, ite_mul, one_mul, zero_mul, sum_ite_eq', mem_range, hi, if_true]

/-- row `k` of `I + ℓ` against a vector -/
theorem unit_row_sum (f : ℕ → ℝ) (k : ℕ) (hk : k < n) :
    ∑ j ∈ range n, unitLower ℓ k j * f j = f k + ∑ j ∈ range n, ℓ k j * f j := by
  simp only [unitLower_eq, add_mul, sum_add_distrib, ite_mul, one_mul, zero_mul, sum_ite_eq, mem_range, hk, if_true]

/-- `(Lᵀ D L) x = Lᵀ (D (L x))` -/
theorem ltdl_mulVec (D : ℕ → ℝ) (x : ℕ → ℝ) (i : ℕ) :
    mulVec n (ltdl n ℓ D) x i
      = ∑ k ∈ range n, unitLower ℓ k i * (D k * ∑ j ∈ range n, unitLower ℓ k j * x j) := by
  rw [mulVec_eq]
  simp only [ltdl_eq, sum_mul, mul_sum]
  rw [sum_comm]
  apply sum_congr rfl; intro k _
  apply sum_congr rfl; intro j _
  ring

/-- **the three sweeps solve `Lᵀ D L x = y`** -/
theorem solve_correct (h : DepthTri n depth ℓ) (nl : ℕ) (hnl : ∀ i, i < n → depth i < nl)
    (D dinv : ℕ → ℝ) (hD : ∀ k, k < n → dinv k * D k = 1) (y : ℕ → ℝ) (i : ℕ) (hi : i < n) :
    mulVec n (ltdl n ℓ D) (solve n depth nl ℓ dinv y) i = y i := by
  rw [ltdl_mulVec]
  unfold solve
  have e : ∀ k ∈ range n, unitLower ℓ k i
        * (D k * ∑ j ∈ range n, unitLower ℓ k j * downAll n depth ℓ nl (diagMul dinv (upAll n depth ℓ nl y)) j)
      = unitLower ℓ k i * upAll n depth ℓ nl y k := by
    intro k hk
    rw [mem_range] at hk
    rw [unit_row_sum _ k hk, downAll_solves h nl hnl _ k hk]
    have := hD k hk
    simp only [diagMul, hmul]
    linear_combination (unitLower ℓ k i * upAll n depth ℓ nl y k) * this
  rw [sum_congr rfl e, unit_col_sum _ i hi]
  exact upAll_solves h nl hnl y i hi

/-- `xᵀ (Lᵀ D L) x = Σ_k D k · ((L x) k)²` -/
theorem quad_form (D : ℕ → ℝ) (x : ℕ → ℝ) :
    ∑ i ∈ range n, x i * mulVec n (ltdl n ℓ D) x i
      = ∑ k ∈ range n, D k * (∑ j ∈ range n, unitLower ℓ k j * x j) ^ 2 := by
  simp only [ltdl_mulVec, mul_sum]
  rw [sum_comm]
  apply sum_congr rfl; intro k _
  rw [sq, sum_mul_sum, mul_sum]
  apply sum_congr rfl; intro i _
  rw [mul_sum]
  apply sum_congr rfl; intro j _
  ring

/-- `I + ℓ` is injective: a vector that is not identically zero on `0 … n-1` has a non-zero image -/
theorem unitLower_inj (h : DepthTri n depth ℓ) (x : ℕ → ℝ) (hx : ∃ i, i < n ∧ x i ≠ 0) :
    ∃ k, k < n ∧ ∑ j ∈ range n, unitLower ℓ k j * x j ≠ 0 := by
  obtain ⟨i, hi, hxi⟩ := hx
  have hne : ((range n).filter (fun j => x j ≠ 0)).Nonempty := ⟨i, by simp [hi, hxi]⟩
  obtain ⟨k, hk, hmin⟩ := exists_min_image _ depth hne
  simp only [mem_filter, mem_range] at hk hmin
  refine ⟨k, hk.1, ?_⟩
  rw [unit_row_sum _ k hk.1]
  have : ∑ j ∈ range n, ℓ k j * x j = 0 := by
    apply sum_eq_zero
    intro j hj
    rw [mem_range] at hj
    by_cases h0 : ℓ k j = 0
    · rw [h0]; ring
    · have hd := h k j hk.1 hj h0
      by_cases hxj : x j = 0
      · rw [hxj]; ring
      · have := hmin j ⟨hj, hxj⟩; omega
  rw [this, add_zero]
  exact hk.2

/-- **`Lᵀ D L` with positive `D` is positive definite** -/
theorem ltdl_posdef (h : DepthTri n depth ℓ) (D : ℕ → ℝ) (hD : ∀ k, k < n → 0 < D k)
    (x : ℕ → ℝ) (hx : ∃ i, i < n ∧ x i ≠ 0) :
    0 < ∑ i ∈ range n, x i * mulVec n (ltdl n ℓ D) x i := by
  rw [quad_form]
  obtain ⟨k, hk, hne⟩ := unitLower_inj h x hx
  apply sum_pos'
  · intro j hj
    rw [mem_range] at hj
    exact mul_nonneg (hD j hj).le (sq_nonneg _)
  · exact ⟨k, mem_range.mpr hk, mul_pos (hD k hk) (by positivity)⟩

theorem ltdl_symm (D : ℕ → ℝ) (i j : ℕ) : ltdl n ℓ D i j = ltdl n ℓ D j i := by
  rw [ltdl_eq, ltdl_eq]
  apply sum_congr rfl; intro k _; ring

end solve

end Mjw.Lemmas.C21
