/-
  Helper lemmas for Props/C04.lean (contact parameter mixing over ℝ).
-/
import MjwVerif.Lemmas.Real
import MjwVerif.Gen.Collision_core
import MjwVerif.Gen.Collision_primitive_core
import MjwVerif.Spec.ContactParams

set_option linter.unusedVariables false
set_option linter.unusedSimpArgs false

namespace Mjw.Lemmas.C04
open Mjw Mjw.Spec.ContactParams

/-- `safe_div` is a true division when the divisor is non-zero -/
theorem safe_div_ne (x y : ℝ) (hy : y ≠ 0) : Mjw.Gen.Math.safe_div_F_F x y = x / y := by
  unfold Mjw.Gen.Math.safe_div_F_F
  have : Scalar.bne y (Scalar.lit 0 0 : ℝ) = true := by
    rw [sbne]; simpa using hy
  simp only [this, if_true, hdiv]

/-- the spec's mix weight over ℝ, with propositions instead of Bools -/
theorem mixWeight_real (s1 s2 : ℝ) :
    mixWeight s1 s2 =
      if 1 / 1000000000000000 ≤ s1 ∧ 1 / 1000000000000000 ≤ s2 then s1 / (s1 + s2)
      else if s1 < 1 / 1000000000000000 ∧ s2 < 1 / 1000000000000000 then 1 / 2
      else if s1 < 1 / 1000000000000000 then 0 else 1 := by
  simp only [mixWeight, minval, Bool.and_eq_true, slt, sge, slit, hdiv, hadd]
  norm_num

/-- the code's chain of `wp.where` (after `safe_div`) equals the spec's four-case weight -/
theorem mix_eq (s1 s2 : ℝ) :
    (if (Scalar.ge s1 (Scalar.lit 1 (-15) : ℝ) && Scalar.lt s2 (Scalar.lit 1 (-15) : ℝ)) = true then (Scalar.lit 1 0 : ℝ)
     else if (Scalar.lt s1 (Scalar.lit 1 (-15) : ℝ) && Scalar.ge s2 (Scalar.lit 1 (-15) : ℝ)) = true then (Scalar.lit 0 0 : ℝ)
     else if (Scalar.lt s1 (Scalar.lit 1 (-15) : ℝ) && Scalar.lt s2 (Scalar.lit 1 (-15) : ℝ)) = true then (Scalar.lit 5 (-1) : ℝ)
     else Mjw.Gen.Math.safe_div_F_F s1 (s1 + s2)) = mixWeight s1 s2 := by
  simp only [mixWeight, minval, Bool.and_eq_true, slt, sge, slit]
  norm_num
  rcases lt_or_ge s1 (1 / 1000000000000000) with h1 | h1 <;> rcases lt_or_ge s2 (1 / 1000000000000000) with h2 | h2
  · have h1' := not_le.mpr h1; have h2' := not_le.mpr h2
    simp only [h1, h2, h1', h2', and_self, and_false, false_and, if_true, if_false]
  · have h1' := not_le.mpr h1; have h2' := not_lt.mpr h2
    simp only [h1, h2, h1', h2', and_self, and_false, false_and, if_true, if_false]
  · have h1' := not_lt.mpr h1; have h2' := not_le.mpr h2
    simp only [h1, h2, h1', h2', and_self, and_false, false_and, if_true, if_false]
  · have h1' := not_lt.mpr h1; have h2' := not_lt.mpr h2
    simp only [h1, h2, h1', h2', and_self, and_false, false_and, if_true, if_false]
    exact safe_div_ne _ _ (by intro h; linarith)

/-- the weight is a convex coefficient for ALL solmix values (also negative ones) -/
theorem mixWeight_mem (s1 s2 : ℝ) : 0 ≤ mixWeight s1 s2 ∧ mixWeight s1 s2 ≤ 1 := by
  rw [mixWeight_real]
  split_ifs with h1 h2 h3
  · obtain ⟨a, b⟩ := h1
    have hs : 0 < s1 + s2 := by linarith
    constructor
    · apply div_nonneg <;> linarith
    · rw [div_le_one hs]; linarith
  · norm_num
  · norm_num
  · norm_num

/-- swapping the two geoms complements the weight -/
theorem mixWeight_swap (s1 s2 : ℝ) : mixWeight s2 s1 = 1 - mixWeight s1 s2 := by
  rw [mixWeight_real, mixWeight_real]
  rcases lt_or_ge s1 (1 / 1000000000000000) with h1 | h1 <;> rcases lt_or_ge s2 (1 / 1000000000000000) with h2 | h2
  · have h1' := not_le.mpr h1; have h2' := not_le.mpr h2
    simp only [h1, h2, h1', h2', and_self, and_false, false_and, if_true, if_false]; norm_num
  · have h1' := not_le.mpr h1; have h2' := not_lt.mpr h2
    simp only [h1, h2, h1', h2', and_self, and_false, false_and, and_true, true_and, if_true, if_false]; norm_num
  · have h1' := not_lt.mpr h1; have h2' := not_le.mpr h2
    simp only [h1, h2, h1', h2', and_self, and_false, false_and, and_true, true_and, if_true, if_false]; norm_num
  · have h1' := not_lt.mpr h1; have h2' := not_lt.mpr h2
    simp only [h1, h2, h1', h2', and_self, and_false, false_and, if_true, if_false]
    have hs : s1 + s2 ≠ 0 := by intro h; linarith
    have hs' : s2 + s1 ≠ 0 := by intro h; linarith
    field_simp
    ring

theorem mixSolref_swap (m : ℝ) (r1 r2 : V2 ℝ) : mixSolref (1 - m) r2 r1 = mixSolref m r1 r2 := by
  simp only [mixSolref, Bool.and_eq_true, sgt, slit, hadd, hmul, hsub, smin]
  by_cases h : (0:ℝ) < r1.c0 ∧ (0:ℝ) < r2.c0
  · have h' : (0:ℝ) < r2.c0 ∧ (0:ℝ) < r1.c0 := ⟨h.2, h.1⟩
    norm_num [h, h']
    constructor <;> ring
  · have h' : ¬ ((0:ℝ) < r2.c0 ∧ (0:ℝ) < r1.c0) := fun hh => h ⟨hh.2, hh.1⟩
    norm_num
    rw [if_neg h', if_neg h, min_comm r2.c0, min_comm r2.c1]

theorem mixSolimp_swap (m : ℝ) (a b : V5 ℝ) : mixSolimp (1 - m) b a = mixSolimp m a b := by
  simp only [mixSolimp, slit, hadd, hmul, hsub]
  norm_num
  refine ⟨?_, ?_, ?_, ?_, ?_⟩ <;> ring

end Mjw.Lemmas.C04
