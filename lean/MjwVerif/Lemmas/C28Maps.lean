/-
  Helper lemmas for C28 part 3 (island index maps, `Model/IslandMaps.lean`).
-/
import MjwVerif.Lemmas.Real
import MjwVerif.Model.IslandMaps
import MjwVerif.Gen.Island

namespace Mjw.Lemmas.C28Maps
open Mjw Mjw.IslandMaps

/-! ## A. generic: rank / slot of a counting sort with racing arrivals -/

section generic
variable (key : Nat → Nat)

theorem cnt_nil (b : Nat) : cnt key [] b = 0 := rfl

theorem cnt_cons (a : Nat) (l : List Nat) (b : Nat) :
    cnt key (a :: l) b = cnt key l b + (if key a = b then 1 else 0) := by
  unfold cnt
  rw [List.countP_cons]
  by_cases h : key a = b <;> simp [h]

theorem cnt_perm {l₁ l₂ : List Nat} (p : l₁.Perm l₂) (b : Nat) : cnt key l₁ b = cnt key l₂ b :=
  p.countP_eq _

theorem rank_cons_self (a : Nat) (l : List Nat) : rank key (a :: l) a = 0 := by
  simp [rank]

theorem rank_cons_ne {a t : Nat} (l : List Nat) (h : a ≠ t) :
    rank key (a :: l) t = (if key a = key t then 1 else 0) + rank key l t := by
  simp [rank, h]

/-- the rank of a task is smaller than the size of its class -/
theorem rank_lt {l : List Nat} {t : Nat} (ht : t ∈ l) : rank key l t < cnt key l (key t) := by
  induction l with
  | nil => cases ht
  | cons a l ih =>
    rw [cnt_cons]
    by_cases hat : a = t
    · subst hat; rw [rank_cons_self]; simp
    · have ht' : t ∈ l := by
        rcases List.mem_cons.mp ht with h | h
        · exact absurd h.symm hat
        · exact h
      rw [rank_cons_ne key l hat]
      have := ih ht'
      omega

/-- two tasks of the same class with the same rank are the same task -/
theorem rank_inj {l : List Nat} (hnd : l.Nodup) {t u : Nat} (ht : t ∈ l) (hu : u ∈ l)
    (hk : key t = key u) (hr : rank key l t = rank key l u) : t = u := by
  induction l with
  | nil => cases ht
  | cons a l ih =>
    have hnd' := List.nodup_cons.mp hnd
    by_cases hat : a = t
    · by_cases hau : a = u
      · rw [← hat, ← hau]
      · subst hat
        rw [rank_cons_self, rank_cons_ne key l hau, if_pos hk] at hr
        omega
    · by_cases hau : a = u
      · subst hau
        rw [rank_cons_self, rank_cons_ne key l hat, if_pos hk.symm] at hr
        omega
      · have ht' : t ∈ l := by
          rcases List.mem_cons.mp ht with h | h
          · exact absurd h.symm hat
          · exact h
        have hu' : u ∈ l := by
          rcases List.mem_cons.mp hu with h | h
          · exact absurd h.symm hau
          · exact h
        rw [rank_cons_ne key l hat, rank_cons_ne key l hau, hk] at hr
        exact ih hnd'.2 ht' hu' (by omega)

/-- every rank below the class size is taken -/
theorem rank_surj {l : List Nat} (hnd : l.Nodup) (b r : Nat) (hr : r < cnt key l b) :
    ∃ t ∈ l, key t = b ∧ rank key l t = r := by
  induction l generalizing r with
  | nil => simp [cnt_nil] at hr
  | cons a l ih =>
    have hnd' := List.nodup_cons.mp hnd
    rw [cnt_cons] at hr
    by_cases hab : key a = b
    · rw [if_pos hab] at hr
      cases r with
      | zero => exact ⟨a, by simp, hab, rank_cons_self key a l⟩
      | succ r =>
        obtain ⟨t, ht, hkt, hrt⟩ := ih hnd'.2 r (by omega)
        have hat : a ≠ t := fun h => hnd'.1 (h ▸ ht)
        refine ⟨t, by simp [ht], hkt, ?_⟩
        rw [rank_cons_ne key l hat, if_pos (by rw [hab, hkt]), hrt]; omega
    · rw [if_neg hab] at hr
      obtain ⟨t, ht, hkt, hrt⟩ := ih hnd'.2 r (by omega)
      have hat : a ≠ t := fun h => hnd'.1 (h ▸ ht)
      refine ⟨t, by simp [ht], hkt, ?_⟩
      rw [rank_cons_ne key l hat, if_neg (by rw [hkt]; exact hab), hrt]; omega

end generic

/-! ### prefix sums over ℕ -/

theorem psumN_mono (f : Nat → Nat) {a b : Nat} (h : a ≤ b) : psumN f a ≤ psumN f b := by
  induction b with
  | zero => have : a = 0 := by omega
            subst this; exact Nat.le_refl _
  | succ b ih =>
    by_cases hab : a = b + 1
    · subst hab; exact Nat.le_refl _
    · have := ih (by omega)
      simp only [psumN]; omega

theorem psumN_block (f : Nat → Nat) {a b : Nat} (h : a < b) : psumN f a + f a ≤ psumN f b := by
  have := psumN_mono f (show a + 1 ≤ b by omega)
  simpa [psumN] using this

/-- every index below the total lies in exactly one block -/
theorem psumN_find (f : Nat → Nat) (B i : Nat) (h : i < psumN f B) :
    ∃ b, b < B ∧ psumN f b ≤ i ∧ i < psumN f b + f b := by
  induction B with
  | zero => simp [psumN] at h
  | succ B ih =>
    by_cases hi : i < psumN f B
    · obtain ⟨b, hb, h1, h2⟩ := ih hi
      exact ⟨b, by omega, h1, h2⟩
    · exact ⟨B, by omega, by omega, by simpa [psumN] using h⟩

theorem psumN_add (f g : Nat → Nat) (n : Nat) : psumN (fun k => f k + g k) n = psumN f n + psumN g n := by
  induction n with
  | zero => rfl
  | succ n ih => simp only [psumN, ih]; omega

theorem psumN_indicator (a n : Nat) : psumN (fun k => if a = k then 1 else 0) n = if a < n then 1 else 0 := by
  induction n with
  | zero => rfl
  | succ n ih =>
    simp only [psumN, ih]
    by_cases h1 : a < n
    · have : a ≠ n := by omega
      simp [h1, this]; omega
    · by_cases h2 : a = n
      · subst h2; simp
      · have : ¬ a < n + 1 := by omega
        simp [h1, h2, this]

/-- the block sizes of the first `B` classes add up to the number of tasks with a key below `B` -/
theorem psumN_cnt (key : Nat → Nat) (l : List Nat) (B : Nat) :
    psumN (cnt key l) B = l.countP (fun t => decide (key t < B)) := by
  induction l with
  | nil =>
    have : ∀ n, psumN (cnt key []) n = 0 := by
      intro n; induction n with
      | zero => rfl
      | succ n ih => simp [psumN, ih, cnt_nil]
    simp [this]
  | cons a l ih =>
    have : cnt key (a :: l) = fun k => cnt key l k + (if key a = k then 1 else 0) := by
      funext k; exact cnt_cons key a l k
    rw [this, psumN_add, ih, psumN_indicator, List.countP_cons]
    by_cases h : key a < B <;> simp [h]

theorem psumN_cnt_total (key : Nat → Nat) (l : List Nat) (B : Nat) (h : ∀ t ∈ l, key t < B) :
    psumN (cnt key l) B = l.length := by
  rw [psumN_cnt, List.countP_eq_length]
  intro t ht; simpa using h t ht

/-! ### the slot map is a bijection onto the blocks -/

section slots
variable (key : Nat → Nat) {l : List Nat}

theorem slot_lower (t : Nat) : psumN (cnt key l) (key t) ≤ slot key l t := by
  unfold slot; omega

theorem slot_upper {t : Nat} (ht : t ∈ l) : slot key l t < psumN (cnt key l) (key t) + cnt key l (key t) := by
  unfold slot; have := rank_lt key ht; omega

theorem slot_lt_of_key_lt {t : Nat} (ht : t ∈ l) {B : Nat} (hB : key t < B) : slot key l t < psumN (cnt key l) B := by
  have := slot_upper key ht
  have := psumN_block (cnt key l) hB
  omega

theorem slot_ge_of_key_ge {t : Nat} {B : Nat} (hB : B ≤ key t) : psumN (cnt key l) B ≤ slot key l t := by
  have := slot_lower (l := l) key t
  have := psumN_mono (cnt key l) hB
  omega

/-- slots determine the key -/
theorem slot_key_eq {t u : Nat} (ht : t ∈ l) (hu : u ∈ l) (h : slot key l t = slot key l u) : key t = key u := by
  have h1 := slot_lower (l := l) key t
  have h2 := slot_upper key ht
  have h3 := slot_lower (l := l) key u
  have h4 := slot_upper key hu
  rcases Nat.lt_trichotomy (key t) (key u) with hlt | heq | hgt
  · have := psumN_block (cnt key l) hlt; omega
  · exact heq
  · have := psumN_block (cnt key l) hgt; omega

/-- **injective**: two tasks never get the same slot, whatever the order -/
theorem slot_inj (hnd : l.Nodup) {t u : Nat} (ht : t ∈ l) (hu : u ∈ l) (h : slot key l t = slot key l u) : t = u := by
  have hk := slot_key_eq key ht hu h
  apply rank_inj key hnd ht hu hk
  unfold slot at h
  rw [hk] at h
  omega

/-- **surjective**: every slot below the end of block `B-1` is taken by a task with key `< B` -/
theorem slot_surj (hnd : l.Nodup) (B i : Nat) (h : i < psumN (cnt key l) B) :
    ∃ t ∈ l, key t < B ∧ slot key l t = i := by
  obtain ⟨b, hb, h1, h2⟩ := psumN_find (cnt key l) B i h
  obtain ⟨t, ht, hkt, hrt⟩ := rank_surj key hnd b (i - psumN (cnt key l) b) (by omega)
  refine ⟨t, ht, by omega, ?_⟩
  unfold slot; rw [hkt, hrt]; omega

theorem slot_lt_length {t : Nat} (ht : t ∈ l) : slot key l t < l.length := by
  have h := slot_lt_of_key_lt key ht (show key t < key t + 1 by omega)
  have : psumN (cnt key l) (key t + 1) ≤ l.length := by
    rw [psumN_cnt]; exact List.countP_le_length
  omega

theorem invSlot_slot (hnd : l.Nodup) {t : Nat} (ht : t ∈ l) : invSlot key l (slot key l t) = t := by
  unfold invSlot
  cases hf : l.find? (fun u => slot key l u == slot key l t) with
  | none =>
    have := List.find?_eq_none.mp hf t ht
    simp at this
  | some u =>
    have hu := List.mem_of_find?_eq_some hf
    have hs := List.find?_some hf
    simp only [beq_iff_eq] at hs
    simp only [Option.getD_some]
    exact slot_inj key hnd hu ht hs

end slots

/-! ## B. `_island_map_dofs`: the launch in closed form -/

theorem upd_same (f : Int → Int) (i v : Int) : upd f i v i = v := by simp [upd]
theorem upd_ne (f : Int → Int) {i x : Int} (v : Int) (h : x ≠ i) : upd f i v x = f x := by simp [upd, h]

section dofs
variable (key : Nat → Nat) (isl : Nat → Int) (adr : Int → Int) (nidof : Int)

/-- one task of the launch, reading the atomics' results from the current state -/
def dstep (s : DofMem) (d : Nat) : DofMem :=
  mapDofTask (isl d) (adr (isl d)) nidof (s.islandNv (isl d)) s.uncnt d s

theorem mapDofs_nil (s : DofMem) : mapDofs isl adr nidof [] s = s := rfl
theorem mapDofs_cons (a : Nat) (l : List Nat) (s : DofMem) :
    mapDofs isl adr nidof (a :: l) s = mapDofs isl adr nidof l (dstep isl adr nidof s a) := rfl

/-- content of the counter cell task `t` allocates from -/
def dctr (s : DofMem) (t : Nat) : Int := if isl t ≥ 0 then s.islandNv (isl t) else s.uncnt
/-- start of the block task `t` allocates in -/
def dbase (t : Nat) : Int := if isl t ≥ 0 then adr (isl t) else nidof
/-- slot task `t` gets when the tasks `l` run from state `s` -/
def dslot (s : DofMem) (l : List Nat) (t : Nat) : Int := dbase isl adr nidof t + dctr isl s t + rank key l t

/-- `key` identifies exactly the tasks that allocate from the same counter cell -/
def SameCell (l : List Nat) : Prop :=
  ∀ a ∈ l, ∀ t ∈ l, (key a = key t ↔ ((0 ≤ isl a ∧ isl a = isl t) ∨ (isl a < 0 ∧ isl t < 0)))

theorem SameCell.tail {key : Nat → Nat} {isl : Nat → Int} {a : Nat} {l : List Nat}
    (h : SameCell key isl (a :: l)) : SameCell key isl l :=
  fun x hx y hy => h x (List.mem_cons_of_mem _ hx) y (List.mem_cons_of_mem _ hy)

variable {key isl}

theorem dctr_step {a t : Nat} (s : DofMem)
    (h : key a = key t ↔ ((0 ≤ isl a ∧ isl a = isl t) ∨ (isl a < 0 ∧ isl t < 0))) :
    dctr isl (dstep isl adr nidof s a) t = dctr isl s t + (if key a = key t then 1 else 0) := by
  unfold dctr dstep mapDofTask
  by_cases ha : isl a ≥ 0
  · by_cases ht : isl t ≥ 0
    · by_cases hat : isl a = isl t
      · have : key a = key t := h.mpr (Or.inl ⟨ha, hat⟩)
        simp [ht, this, hat, upd]
      · have : ¬ key a = key t := fun hk => by
          rcases h.mp hk with h1 | h1
          · exact hat h1.2
          · omega
        have hne : isl t ≠ isl a := fun e => hat e.symm
        simp [ha, ht, this, upd, hne]
    · have : ¬ key a = key t := fun hk => by
        rcases h.mp hk with h1 | h1 <;> omega
      simp [ha, ht, this]
  · by_cases ht : isl t ≥ 0
    · have : ¬ key a = key t := fun hk => by
        rcases h.mp hk with h1 | h1 <;> omega
      simp [ha, ht, this]
    · have : key a = key t := h.mpr (Or.inr ⟨by omega, by omega⟩)
      simp [ha, ht, this]

theorem dslot_cons_self (s : DofMem) (a : Nat) (l : List Nat) :
    dslot key isl adr nidof s (a :: l) a = dbase isl adr nidof a + dctr isl s a := by
  unfold dslot; rw [rank_cons_self]; simp

theorem dslot_cons_ne (s : DofMem) {a t : Nat} (l : List Nat) (hat : a ≠ t)
    (h : key a = key t ↔ ((0 ≤ isl a ∧ isl a = isl t) ∨ (isl a < 0 ∧ isl t < 0))) :
    dslot key isl adr nidof (dstep isl adr nidof s a) l t = dslot key isl adr nidof s (a :: l) t := by
  unfold dslot
  rw [rank_cons_ne key l hat, dctr_step adr nidof s h]
  split <;> omega

/-- the index a task writes `map_dof2idof[d]`, `map_idof2dof[·]` with -/
theorem dstep_dof2idof (s : DofMem) (a : Nat) (x : Int) :
    (dstep isl adr nidof s a).dof2idof x = if x = (a : Int) then dbase isl adr nidof a + dctr isl s a else s.dof2idof x := by
  unfold dstep mapDofTask dbase dctr
  by_cases ha : isl a ≥ 0 <;> simp [ha, upd]

theorem dstep_idof2dof (s : DofMem) (a : Nat) (x : Int) :
    (dstep isl adr nidof s a).idof2dof x = if x = dbase isl adr nidof a + dctr isl s a then (a : Int) else s.idof2dof x := by
  unfold dstep mapDofTask dbase dctr
  by_cases ha : isl a ≥ 0 <;> simp [ha, upd]

theorem dstep_idofIsland (s : DofMem) (a : Nat) (x : Int) :
    (dstep isl adr nidof s a).idofIsland x
      = if isl a ≥ 0 ∧ x = dbase isl adr nidof a + dctr isl s a then isl a else s.idofIsland x := by
  unfold dstep mapDofTask dbase dctr
  by_cases ha : isl a ≥ 0 <;> simp [ha, upd]

theorem dstep_islandNv (s : DofMem) (a : Nat) (c : Int) :
    (dstep isl adr nidof s a).islandNv c = s.islandNv c + (if isl a ≥ 0 ∧ isl a = c then 1 else 0) := by
  unfold dstep mapDofTask
  by_cases ha : isl a ≥ 0
  · by_cases hc : isl a = c
    · subst hc; simp [ha, upd]
    · have : c ≠ isl a := fun e => hc e.symm
      simp [ha, upd, hc, this]
  · simp [ha]

theorem dstep_uncnt (s : DofMem) (a : Nat) :
    (dstep isl adr nidof s a).uncnt = s.uncnt + (if isl a ≥ 0 then 0 else 1) := by
  unfold dstep mapDofTask
  by_cases ha : isl a ≥ 0 <;> simp [ha]

theorem dstep_dofadr (s : DofMem) (a : Nat) (c : Int) :
    (dstep isl adr nidof s a).dofadr c = if isl a ≥ 0 ∧ isl a = c then min (s.dofadr c) a else s.dofadr c := by
  unfold dstep mapDofTask
  by_cases ha : isl a ≥ 0
  · by_cases hc : isl a = c
    · subst hc; simp [ha, upd]
    · have : c ≠ isl a := fun e => hc e.symm
      simp [ha, upd, hc, this]
  · simp [ha]

/-- cells of `map_dof2idof` that belong to no task of the launch are untouched -/
theorem mapDofs_dof2idof_frame (l : List Nat) (s : DofMem) (x : Int) (hx : ∀ a ∈ l, (a : Int) ≠ x) :
    (mapDofs isl adr nidof l s).dof2idof x = s.dof2idof x := by
  induction l generalizing s with
  | nil => rfl
  | cons a l ih =>
    rw [mapDofs_cons, ih _ (fun b hb => hx b (List.mem_cons_of_mem _ hb)), dstep_dof2idof]
    have := hx a (by simp)
    rw [if_neg (fun e => this e.symm)]

/-- **closed form of `map_dof2idof`** after the launch -/
theorem mapDofs_dof2idof (l : List Nat) (s : DofMem) (hnd : l.Nodup) (hk : SameCell key isl l) {t : Nat} (ht : t ∈ l) :
    (mapDofs isl adr nidof l s).dof2idof t = dslot key isl adr nidof s l t := by
  induction l generalizing s with
  | nil => cases ht
  | cons a l ih =>
    have hnd' := List.nodup_cons.mp hnd
    rw [mapDofs_cons]
    by_cases hat : a = t
    · subst hat
      have hfr : ∀ b ∈ l, (b : Int) ≠ (a : Int) := by
        intro b hb e
        have : b = a := by exact_mod_cast e
        exact hnd'.1 (this ▸ hb)
      rw [mapDofs_dof2idof_frame adr nidof l _ _ hfr, dstep_dof2idof, if_pos rfl, dslot_cons_self]
    · have ht' : t ∈ l := by
        rcases List.mem_cons.mp ht with h | h
        · exact absurd h.symm hat
        · exact h
      rw [ih _ hnd'.2 hk.tail ht', dslot_cons_ne adr nidof s l hat (hk a (by simp) t ht)]

/-- slots of the remaining tasks, seen from the state after the first task -/
theorem dslot_tail (s : DofMem) {a : Nat} {l : List Nat} (hnd : (a :: l).Nodup) (hk : SameCell key isl (a :: l))
    {t : Nat} (ht : t ∈ l) :
    dslot key isl adr nidof (dstep isl adr nidof s a) l t = dslot key isl adr nidof s (a :: l) t := by
  have hat : a ≠ t := fun h => (List.nodup_cons.mp hnd).1 (h ▸ ht)
  exact dslot_cons_ne adr nidof s l hat (hk a (by simp) t (List.mem_cons_of_mem _ ht))

/-- cells of `map_idof2dof` that are nobody's slot are untouched -/
theorem mapDofs_idof2dof_frame (l : List Nat) (s : DofMem) (hnd : l.Nodup) (hk : SameCell key isl l) (x : Int)
    (hx : ∀ t ∈ l, dslot key isl adr nidof s l t ≠ x) :
    (mapDofs isl adr nidof l s).idof2dof x = s.idof2dof x := by
  induction l generalizing s with
  | nil => rfl
  | cons a l ih =>
    rw [mapDofs_cons, ih _ (List.nodup_cons.mp hnd).2 hk.tail, dstep_idof2dof]
    · have := hx a (by simp)
      rw [dslot_cons_self] at this
      rw [if_neg (fun e => this e.symm)]
    · intro t ht
      rw [dslot_tail adr nidof s hnd hk ht]
      exact hx t (List.mem_cons_of_mem _ ht)

/-- **closed form of `map_idof2dof`**: the slot of task `t` holds `t` (slots injective) -/
theorem mapDofs_idof2dof (l : List Nat) (s : DofMem) (hnd : l.Nodup) (hk : SameCell key isl l)
    (hinj : ∀ t ∈ l, ∀ u ∈ l, dslot key isl adr nidof s l t = dslot key isl adr nidof s l u → t = u)
    {t : Nat} (ht : t ∈ l) :
    (mapDofs isl adr nidof l s).idof2dof (dslot key isl adr nidof s l t) = t := by
  induction l generalizing s with
  | nil => cases ht
  | cons a l ih =>
    have hnd' := List.nodup_cons.mp hnd
    rw [mapDofs_cons]
    by_cases hat : a = t
    · subst hat
      rw [mapDofs_idof2dof_frame adr nidof l _ hnd'.2 hk.tail, dstep_idof2dof, dslot_cons_self, if_pos rfl]
      intro u hu e
      rw [dslot_tail adr nidof s hnd hk hu] at e
      have := hinj u (List.mem_cons_of_mem _ hu) a (by simp) e
      exact hnd'.1 (this ▸ hu)
    · have ht' : t ∈ l := by
        rcases List.mem_cons.mp ht with h | h
        · exact absurd h.symm hat
        · exact h
      rw [← dslot_tail adr nidof s hnd hk ht']
      apply ih _ hnd'.2 hk.tail _ ht'
      intro u hu v hv e
      rw [dslot_tail adr nidof s hnd hk hu, dslot_tail adr nidof s hnd hk hv] at e
      exact hinj u (List.mem_cons_of_mem _ hu) v (List.mem_cons_of_mem _ hv) e

/-- cells of `dof_islandid` that are no island dof's slot are untouched -/
theorem mapDofs_idofIsland_frame (l : List Nat) (s : DofMem) (hnd : l.Nodup) (hk : SameCell key isl l) (x : Int)
    (hx : ∀ t ∈ l, isl t ≥ 0 → dslot key isl adr nidof s l t ≠ x) :
    (mapDofs isl adr nidof l s).idofIsland x = s.idofIsland x := by
  induction l generalizing s with
  | nil => rfl
  | cons a l ih =>
    rw [mapDofs_cons, ih _ (List.nodup_cons.mp hnd).2 hk.tail, dstep_idofIsland]
    · have := hx a (by simp)
      rw [dslot_cons_self] at this
      rw [if_neg (fun e => this e.1 e.2.symm)]
    · intro t ht h0
      rw [dslot_tail adr nidof s hnd hk ht]
      exact hx t (List.mem_cons_of_mem _ ht) h0

/-- **closed form of `dof_islandid`**: the slot of an island dof holds its island -/
theorem mapDofs_idofIsland (l : List Nat) (s : DofMem) (hnd : l.Nodup) (hk : SameCell key isl l)
    (hinj : ∀ t ∈ l, ∀ u ∈ l, dslot key isl adr nidof s l t = dslot key isl adr nidof s l u → t = u)
    {t : Nat} (ht : t ∈ l) (h0 : isl t ≥ 0) :
    (mapDofs isl adr nidof l s).idofIsland (dslot key isl adr nidof s l t) = isl t := by
  induction l generalizing s with
  | nil => cases ht
  | cons a l ih =>
    have hnd' := List.nodup_cons.mp hnd
    rw [mapDofs_cons]
    by_cases hat : a = t
    · subst hat
      rw [mapDofs_idofIsland_frame adr nidof l _ hnd'.2 hk.tail, dstep_idofIsland, dslot_cons_self, if_pos ⟨h0, rfl⟩]
      intro u hu _ e
      rw [dslot_tail adr nidof s hnd hk hu] at e
      have := hinj u (List.mem_cons_of_mem _ hu) a (by simp) e
      exact hnd'.1 (this ▸ hu)
    · have ht' : t ∈ l := by
        rcases List.mem_cons.mp ht with h | h
        · exact absurd h.symm hat
        · exact h
      rw [← dslot_tail adr nidof s hnd hk ht']
      apply ih _ hnd'.2 hk.tail _ ht'
      intro u hu v hv e
      rw [dslot_tail adr nidof s hnd hk hu, dslot_tail adr nidof s hnd hk hv] at e
      exact hinj u (List.mem_cons_of_mem _ hu) v (List.mem_cons_of_mem _ hv) e

theorem cntI_cons (a : Nat) (l : List Nat) (c : Int) :
    cntI isl (a :: l) c = cntI isl l c + (if isl a = c then 1 else 0) := by
  unfold cntI
  rw [List.countP_cons]
  by_cases h : isl a = c <;> simp [h]

/-- **the re-counted `island_nv`**: old content + number of the island's dofs -/
theorem mapDofs_islandNv (l : List Nat) (s : DofMem) (c : Int) (hc : 0 ≤ c) :
    (mapDofs isl adr nidof l s).islandNv c = s.islandNv c + cntI isl l c := by
  induction l generalizing s with
  | nil => simp [mapDofs_nil, cntI]
  | cons a l ih =>
    rw [mapDofs_cons, ih, dstep_islandNv, cntI_cons]
    by_cases h : isl a = c
    · have : isl a ≥ 0 := by omega
      simp [h, hc]; omega
    · simp [h]

/-- `island_dofadr[c]` after the launch is a lower bound of the island's dofs … -/
theorem mapDofs_dofadr_le (l : List Nat) (s : DofMem) (c : Int) :
    (mapDofs isl adr nidof l s).dofadr c ≤ s.dofadr c ∧
      ∀ t ∈ l, isl t ≥ 0 → isl t = c → (mapDofs isl adr nidof l s).dofadr c ≤ t := by
  induction l generalizing s with
  | nil => exact ⟨Int.le_refl _, fun t ht => by cases ht⟩
  | cons a l ih =>
    rw [mapDofs_cons]
    obtain ⟨h1, h2⟩ := ih (dstep isl adr nidof s a)
    have hs : (dstep isl adr nidof s a).dofadr c ≤ s.dofadr c ∧
        (isl a ≥ 0 → isl a = c → (dstep isl adr nidof s a).dofadr c ≤ a) := by
      rw [dstep_dofadr]
      by_cases h : isl a ≥ 0 ∧ isl a = c
      · rw [if_pos h]; exact ⟨Int.min_le_left _ _, fun _ _ => Int.min_le_right _ _⟩
      · rw [if_neg h]; exact ⟨Int.le_refl _, fun h0 hc => absurd ⟨h0, hc⟩ h⟩
    refine ⟨Int.le_trans h1 hs.1, fun t ht h0 hc => ?_⟩
    rcases List.mem_cons.mp ht with e | ht'
    · subst e; exact Int.le_trans h1 (hs.2 h0 hc)
    · exact h2 t ht' h0 hc

/-- … and is attained: it is the old content or one of the island's dofs -/
theorem mapDofs_dofadr_attained (l : List Nat) (s : DofMem) (c : Int) :
    (mapDofs isl adr nidof l s).dofadr c = s.dofadr c ∨
      ∃ t ∈ l, isl t ≥ 0 ∧ isl t = c ∧ (mapDofs isl adr nidof l s).dofadr c = t := by
  induction l generalizing s with
  | nil => exact Or.inl rfl
  | cons a l ih =>
    rw [mapDofs_cons]
    rcases ih (dstep isl adr nidof s a) with h | ⟨t, ht, h0, hc, h⟩
    · rw [h, dstep_dofadr]
      by_cases hh : isl a ≥ 0 ∧ isl a = c
      · rw [if_pos hh]
        rcases Int.le_total (s.dofadr c) a with hle | hle
        · left; exact Int.min_eq_left hle
        · right; exact ⟨a, by simp, hh.1, hh.2, Int.min_eq_right hle⟩
      · rw [if_neg hh]; exact Or.inl rfl
    · exact Or.inr ⟨t, List.mem_cons_of_mem _ ht, h0, hc, h⟩

theorem mapDofs_uncnt (l : List Nat) (s : DofMem) :
    (mapDofs isl adr nidof l s).uncnt = s.uncnt + l.countP (fun t => decide (isl t < 0)) := by
  induction l generalizing s with
  | nil => simp [mapDofs_nil]
  | cons a l ih =>
    rw [mapDofs_cons, ih, dstep_uncnt, List.countP_cons]
    by_cases h : isl a ≥ 0
    · have : ¬ isl a < 0 := by omega
      simp [h, this]
    · have : isl a < 0 := by omega
      simp [h, this]; omega

end dofs

/-! ## C. bridging the integer arrays to the generic keys; the dof pipeline -/

theorem cntI_perm {isl : Nat → Int} {l₁ l₂ : List Nat} (p : l₁.Perm l₂) (c : Int) : cntI isl l₁ c = cntI isl l₂ c :=
  p.countP_eq _

theorem cntI_eq_zero {isl : Nat → Int} {l : List Nat} {c : Int} (h : ∀ t ∈ l, isl t ≠ c) : cntI isl l c = 0 := by
  unfold cntI
  rw [List.countP_eq_zero]
  intro t ht; simpa using h t ht

theorem cntI_pos {isl : Nat → Int} {l : List Nat} {c : Int} {t : Nat} (ht : t ∈ l) (h : isl t = c) : 0 < cntI isl l c := by
  unfold cntI
  rw [List.countP_pos_iff]
  exact ⟨t, ht, by simpa using h⟩

theorem countDofs_eq (isl : Nat → Int) (l : List Nat) (f : Int → Int) (c : Int) :
    countDofs isl l f c = f c + (if 0 ≤ c then (cntI isl l c : Int) else 0) := by
  induction l generalizing f with
  | nil => simp [countDofs, cntI]
  | cons a l ih =>
    have : countDofs isl (a :: l) f = countDofs isl l (if isl a ≥ 0 then upd f (isl a) (f (isl a) + 1) else f) := rfl
    rw [this, ih, cntI_cons]
    by_cases ha : isl a ≥ 0
    · by_cases hac : isl a = c
      · subst hac; simp [ha, upd]; omega
      · have : c ≠ isl a := fun e => hac e.symm
        simp [ha, upd, hac, this]
    · by_cases hac : isl a = c
      · subst hac
        have : ¬ 0 ≤ isl a := by omega
        simp [ha]
      · simp [ha, hac]

theorem psum_cast (f : Int → Int) (g : Nat → Nat) (n : Nat) (h : ∀ k : Nat, k < n → f k = g k) :
    psum f n = psumN g n := by
  induction n with
  | zero => rfl
  | succ n ih =>
    simp only [psum, psumN]
    rw [ih (fun k hk => h k (by omega)), h n (by omega)]
    push_cast; rfl

section dofkey
variable {nisland : Nat} {isl : Nat → Int} {l : List Nat}

theorem dofKey_sameCell (h : ∀ t ∈ l, isl t < nisland) : SameCell (dofKey nisland isl) isl l := by
  intro a ha t ht
  have h1 := h a ha
  have h2 := h t ht
  unfold dofKey
  split_ifs <;> omega

theorem dofKey_lt (h : ∀ t ∈ l, isl t < nisland) {t : Nat} (ht : t ∈ l) : dofKey nisland isl t < nisland + 1 := by
  have := h t ht
  unfold dofKey
  split <;> omega

theorem cnt_dofKey (h : ∀ t ∈ l, isl t < nisland) (c : Nat) (hc : c < nisland) :
    cnt (dofKey nisland isl) l c = cntI isl l c := by
  unfold cnt cntI
  apply List.countP_congr
  intro t ht
  have := h t ht
  unfold dofKey
  by_cases h0 : 0 ≤ isl t <;> simp [h0] <;> omega

theorem cnt_dofKey_uncon (h : ∀ t ∈ l, isl t < nisland) :
    cnt (dofKey nisland isl) l nisland = l.countP (fun t => decide (isl t < 0)) := by
  unfold cnt
  apply List.countP_congr
  intro t ht
  have := h t ht
  unfold dofKey
  by_cases h0 : 0 ≤ isl t <;> simp [h0] <;> omega

end dofkey

/-! ### the dof pipeline: slots in closed form -/

section dofpipe
variable {nv nisland : Nat} {isl : Nat → Int} {order1 order2 : List Nat}

theorem perm_range_nodup {n : Nat} {l : List Nat} (p : l.Perm (List.range n)) : l.Nodup :=
  p.nodup_iff.mpr List.nodup_range

theorem perm_range_mem {n : Nat} {l : List Nat} (p : l.Perm (List.range n)) (t : Nat) : t ∈ l ↔ t < n := by
  rw [p.mem_iff, List.mem_range]

/-- the counters after `_island_count_dofs` -/
theorem countDofs_pipeline (hp1 : order1.Perm (List.range nv)) (c : Int) (hc : 0 ≤ c) :
    countDofs isl order1 (fun _ => 0) c = islandCount nv isl c := by
  rw [countDofs_eq, if_pos hc, cntI_perm hp1]; simp [islandCount]

theorem islandCount_eq_cnt (hp2 : order2.Perm (List.range nv)) (hisl : ∀ d, d < nv → isl d < nisland)
    (c : Nat) (hc : c < nisland) : islandCount nv isl c = cnt (dofKey nisland isl) order2 c := by
  have h : ∀ t ∈ order2, isl t < nisland := fun t ht => hisl t ((perm_range_mem hp2 t).mp ht)
  rw [cnt_dofKey h c hc, cntI_perm hp2]; rfl

theorem psum_islandCount (hp2 : order2.Perm (List.range nv)) (hisl : ∀ d, d < nv → isl d < nisland)
    (n : Nat) (hn : n ≤ nisland) :
    psum (islandCount nv isl) n = psumN (cnt (dofKey nisland isl) order2) n :=
  psum_cast _ _ n (fun k hk => islandCount_eq_cnt hp2 hisl k (by omega))

/-- initial state of the map launch in the pipeline -/
def dofInit (nv nisland : Nat) (isl : Nat → Int) (order1 : List Nat) : DofMem :=
  ⟨(scanSizes nisland (countDofs isl order1 (fun _ => 0)) (fun _ => 0) (fun _ => 0) (fun _ => 0)).islandNv,
    0, fun _ => nv, fun _ => 0, fun _ => 0, fun _ => -1⟩

theorem dofPipeline_fst :
    (dofPipeline nv nisland isl order1 order2).1
      = mapDofs isl (dofPipeline nv nisland isl order1 order2).2.idofadr (dofPipeline nv nisland isl order1 order2).2.nidof
          order2 (dofInit nv nisland isl order1) := rfl

theorem dofPipeline_idofadr (hp1 : order1.Perm (List.range nv)) (c : Nat) (hc : c < nisland) :
    (dofPipeline nv nisland isl order1 order2).2.idofadr c = psum (islandCount nv isl) c := by
  have : (countDofs isl order1 fun _ => 0) = fun c => countDofs isl order1 (fun _ => 0) c := rfl
  simp only [dofPipeline, scanSizes]
  rw [if_pos ⟨by omega, by omega⟩]
  simp only [Int.toNat_natCast]
  apply (psum_cast _ _ c (fun k _ => ?_)).trans (psum_cast _ _ c (fun k _ => ?_)).symm
  · exact fun k => (cntI isl (List.range nv) k)
  · rw [countDofs_pipeline hp1 _ (by omega)]; rfl
  · rfl

theorem dofPipeline_nidof (hp1 : order1.Perm (List.range nv)) :
    (dofPipeline nv nisland isl order1 order2).2.nidof = psum (islandCount nv isl) nisland := by
  simp only [dofPipeline, scanSizes]
  apply (psum_cast _ _ nisland (fun k _ => ?_)).trans (psum_cast _ _ nisland (fun k _ => ?_)).symm
  · exact fun k => (cntI isl (List.range nv) k)
  · rw [countDofs_pipeline hp1 _ (by omega)]; rfl
  · rfl

end dofpipe
/-! ## D. `_island_scan_sizes`: the prefix-sum loop -/

section scan
variable {K : Type}

theorem lookupI_append_set (ws : List (Write K)) (a : String) (i : List Int) (v : Int) (arr : String) (idx : List Int) (d : Int) :
    Write.lookupI (ws ++ [(Write.mk a i (WVal.i v) WKind.set : Write K)]) arr idx d
      = if (a == arr && i == idx) = true then v else Write.lookupI ws arr idx d := by
  unfold Write.lookupI
  rw [List.foldl_append]
  simp only [List.foldl_cons, List.foldl_nil]

theorem lookupI_no_arr (ws : List (Write K)) (arr : String) (idx : List Int) (d : Int) (h : ∀ x ∈ ws, x.arr ≠ arr) :
    Write.lookupI ws arr idx d = d := by
  unfold Write.lookupI
  induction ws generalizing d with
  | nil => rfl
  | cons x ws ih =>
    rw [List.foldl_cons]
    have hx : (x.arr == arr) = false := by simpa using h x (by simp)
    simp only [hx, Bool.false_and, Bool.false_eq_true, if_false]
    exact ih d (fun y hy => h y (List.mem_cons_of_mem _ hy))

theorem foldl_append_flatMap {α β : Type} (g : α → List β) (l : List α) (init : List β) :
    l.foldl (fun s k => s ++ g k) init = init ++ l.flatMap g := by
  induction l generalizing init with
  | nil => simp
  | cons a l ih => rw [List.foldl_cons, ih, List.flatMap_cons, List.append_assoc]

variable (w : Int) (nvc nefc adr0 eadr0 : Int → Int)

/-- the body of the first loop of `_island_scan_sizes` (as generated) -/
def scanBody (i : Int) (st : List (Write K)) : List (Write K) :=
  let ws := st
  let ws : List (Write K) := ws ++ [(Write.mk "island_idofadr_out" [w, i] (WVal.i ((Write.lookupI ws "island_idofadr_out" [w, (i - (1 : Int))] (adr0 (i - (1 : Int)))) + (Write.lookupI ws "island_nv_inout" [w, (i - (1 : Int))] (nvc (i - (1 : Int)))))) WKind.set : Write K)]
  let ws : List (Write K) := ws ++ [(Write.mk "island_iefcadr_out" [w, i] (WVal.i ((Write.lookupI ws "island_iefcadr_out" [w, (i - (1 : Int))] (eadr0 (i - (1 : Int)))) + (Write.lookupI ws "island_nefc_inout" [w, (i - (1 : Int))] (nefc (i - (1 : Int)))))) WKind.set : Write K)]
  ws

/-- the two writes of iteration `i = 1 + k` in closed form -/
def scanRow (k : Nat) : List (Write K) :=
  [(Write.mk "island_idofadr_out" [w, 1 + (k : Int)] (WVal.i (psum nvc (k + 1))) WKind.set : Write K),
   (Write.mk "island_iefcadr_out" [w, 1 + (k : Int)] (WVal.i (psum nefc (k + 1))) WKind.set : Write K)]

/-- state of the first loop after `n` iterations, in closed form -/
def scanL (n : Nat) : List (Write K) :=
  [(Write.mk "island_idofadr_out" [w, 0] (WVal.i 0) WKind.set : Write K),
   (Write.mk "island_iefcadr_out" [w, 0] (WVal.i 0) WKind.set : Write K)]
  ++ (List.range n).flatMap (scanRow (K := K) w nvc nefc)

theorem scanL_succ (n : Nat) : scanL (K := K) w nvc nefc (n + 1) = scanL w nvc nefc n ++ scanRow w nvc nefc n := by
  unfold scanL
  rw [List.range_succ, List.flatMap_append, List.append_assoc]
  simp

theorem scanL_arr (n : Nat) : ∀ x ∈ scanL (K := K) w nvc nefc n, x.arr = "island_idofadr_out" ∨ x.arr = "island_iefcadr_out" := by
  intro x hx
  unfold scanL scanRow at hx
  simp only [List.mem_append, List.mem_cons, List.mem_flatMap, List.mem_range, List.not_mem_nil, or_false] at hx
  rcases hx with (h | h) | ⟨k, -, h | h⟩ <;> simp [h]

/-- own reads of the loop: the previous prefix sums -/
theorem scanL_lookup_idofadr (n : Nat) (d : Int) :
    Write.lookupI (scanL (K := K) w nvc nefc n) "island_idofadr_out" [w, (n : Int)] d = psum nvc n := by
  cases n with
  | zero => simp [scanL, Write.lookupI, psum]
  | succ m =>
    rw [scanL_succ, show ((m + 1 : Nat) : Int) = 1 + (m : Int) by omega]
    unfold scanRow
    rw [show ∀ (a b : Write K) (l : List (Write K)), l ++ [a, b] = (l ++ [a]) ++ [b] by simp]
    rw [lookupI_append_set, lookupI_append_set]
    simp

theorem scanL_lookup_iefcadr (n : Nat) (d : Int) :
    Write.lookupI (scanL (K := K) w nvc nefc n) "island_iefcadr_out" [w, (n : Int)] d = psum nefc n := by
  cases n with
  | zero => simp [scanL, Write.lookupI, psum]
  | succ m =>
    rw [scanL_succ, show ((m + 1 : Nat) : Int) = 1 + (m : Int) by omega]
    unfold scanRow
    rw [show ∀ (a b : Write K) (l : List (Write K)), l ++ [a, b] = (l ++ [a]) ++ [b] by simp]
    rw [lookupI_append_set]
    simp

theorem scanL_lookup_nv (n : Nat) (idx : List Int) (d : Int) :
    Write.lookupI (scanL (K := K) w nvc nefc n) "island_nv_inout" idx d = d :=
  lookupI_no_arr _ _ _ _ (fun x hx => by rcases scanL_arr w nvc nefc n x hx with h | h <;> simp [h])

theorem scanL_lookup_nefc (n : Nat) (idx : List Int) (d : Int) :
    Write.lookupI (scanL (K := K) w nvc nefc n) "island_nefc_inout" idx d = d :=
  lookupI_no_arr _ _ _ _ (fun x hx => by rcases scanL_arr w nvc nefc n x hx with h | h <;> simp [h])

/-- one iteration of the loop on the closed form -/
theorem scanBody_scanL (n : Nat) :
    scanBody (K := K) w nvc nefc adr0 eadr0 (1 + (n : Int)) (scanL w nvc nefc n) = scanL w nvc nefc (n + 1) := by
  unfold scanBody
  simp only [show (1 : Int) + (n : Int) - 1 = (n : Int) by omega]
  simp only [lookupI_append_set, scanL_lookup_idofadr, scanL_lookup_iefcadr, scanL_lookup_nv, scanL_lookup_nefc]
  rw [scanL_succ, List.append_assoc]
  simp [scanRow, psum]

/-- **loop invariant** of the prefix-sum loop -/
theorem scan_loop (n : Nat) :
    (List.range n).foldl (fun s (k : Nat) => scanBody (K := K) w nvc nefc adr0 eadr0 (1 + Int.ofNat k) s) (scanL w nvc nefc 0)
      = scanL w nvc nefc n := by
  induction n with
  | zero => rfl
  | succ n ih =>
    rw [List.range_succ, List.foldl_append, ih]
    simp only [List.foldl_cons, List.foldl_nil]
    exact scanBody_scanL w nvc nefc adr0 eadr0 n


/-- the generated kernel, with its first loop body named -/
theorem scan_sizes_unfold [Scalar K] (nisland_in : Int → Int) (island_idofadr_out island_nv_inout island_nefc_inout island_iefcadr_out : Int → Int → Int)
    (nidof_out : Int → Int) (tid0 : Int) :
    Gen.Island._island_scan_sizes (K := K) nisland_in island_idofadr_out island_nv_inout island_nefc_inout island_iefcadr_out nidof_out tid0
      = if nisland_in tid0 = 0 then [(Write.mk "nidof_out" [tid0] (WVal.i (0 : Int)) WKind.set : Write K)]
        else
          let ws1 := Mjw.forRange (1 : Int) (nisland_in tid0) (scanL tid0 (island_nv_inout tid0) (island_nefc_inout tid0) 0)
            (fun i st => scanBody tid0 (island_nv_inout tid0) (island_nefc_inout tid0) (island_idofadr_out tid0) (island_iefcadr_out tid0) i st)
          let nidof : Int := Write.lookupI ws1 "island_idofadr_out" [tid0, nisland_in tid0 - 1] (island_idofadr_out tid0 (nisland_in tid0 - 1))
            + Write.lookupI ws1 "island_nv_inout" [tid0, nisland_in tid0 - 1] (island_nv_inout tid0 (nisland_in tid0 - 1))
          Mjw.forRange (0 : Int) (nisland_in tid0) (ws1 ++ [(Write.mk "nidof_out" [tid0] (WVal.i nidof) WKind.set : Write K)])
            (fun (i : Int) (st : List (Write K)) => st ++
              [(Write.mk "island_nv_inout" [tid0, i] (WVal.i (0 : Int)) WKind.set : Write K),
               (Write.mk "island_nefc_inout" [tid0, i] (WVal.i (0 : Int)) WKind.set : Write K)]) := by
  unfold Gen.Island._island_scan_sizes
  by_cases h : nisland_in tid0 = 0
  · simp [h]
  · simp only [h, decide_false, Bool.false_eq_true, if_false, List.nil_append]
    simp only [scanL, scanBody, List.range_zero, List.flatMap_nil, List.append_nil, List.append_assoc, List.cons_append, List.nil_append]

/-- **`_island_scan_sizes` refines the closed form** (`0 ≤ nisland`) -/
theorem scan_sizes_eq [Scalar K] (nisland_in : Int → Int) (island_idofadr_out island_nv_inout island_nefc_inout island_iefcadr_out : Int → Int → Int)
    (nidof_out : Int → Int) (tid0 : Int) (h0 : 0 ≤ nisland_in tid0) :
    Gen.Island._island_scan_sizes (K := K) nisland_in island_idofadr_out island_nv_inout island_nefc_inout island_iefcadr_out nidof_out tid0
      = scanWrites tid0 (nisland_in tid0) (island_nv_inout tid0) (island_nefc_inout tid0) := by
  rw [scan_sizes_unfold]
  unfold scanWrites
  by_cases h : nisland_in tid0 = 0
  · rw [if_pos h, if_pos h]
  · rw [if_neg h, if_neg h]
    obtain ⟨N, hN⟩ : ∃ N : Nat, nisland_in tid0 = (N : Int) + 1 := ⟨(nisland_in tid0 - 1).toNat, by omega⟩
    have h1 : (nisland_in tid0 - 1).toNat = N := by omega
    have h2 : (nisland_in tid0).toNat = N + 1 := by omega
    have h3 : (nisland_in tid0 - 0).toNat = N + 1 := by omega
    have h4 : nisland_in tid0 - 1 = (N : Int) := by omega
    simp only [Mjw.forRange]
    rw [h1, h2, h3, h4, scan_loop, scanL_lookup_idofadr, scanL_lookup_nv]
    rw [foldl_append_flatMap (fun (k : Nat) =>
      [(Write.mk "island_nv_inout" [tid0, 0 + Int.ofNat k] (WVal.i (0 : Int)) WKind.set : Write K),
       (Write.mk "island_nefc_inout" [tid0, 0 + Int.ofNat k] (WVal.i (0 : Int)) WKind.set : Write K)])]
    have hrow : scanRow (K := K) tid0 (island_nv_inout tid0) (island_nefc_inout tid0) = fun (k : Nat) =>
        [(Write.mk "island_idofadr_out" [tid0, 1 + (k : Int)] (WVal.i (psum (island_nv_inout tid0) (k + 1))) WKind.set : Write K),
         (Write.mk "island_iefcadr_out" [tid0, 1 + (k : Int)] (WVal.i (psum (island_nefc_inout tid0) (k + 1))) WKind.set : Write K)] := by
      funext k; rfl
    simp only [scanL, hrow, psum, Int.ofNat_eq_natCast]


/-! ### the memory effect of the scan's write list -/

theorem lookupI_append (l1 l2 : List (Write K)) (arr : String) (idx : List Int) (d : Int) :
    Write.lookupI (l1 ++ l2) arr idx d = Write.lookupI l2 arr idx (Write.lookupI l1 arr idx d) := by
  unfold Write.lookupI; rw [List.foldl_append]

theorem scanRow_arr (k : Nat) : ∀ x ∈ scanRow (K := K) w nvc nefc k, x.arr = "island_idofadr_out" ∨ x.arr = "island_iefcadr_out" := by
  intro x hx
  unfold scanRow at hx
  simp only [List.mem_cons, List.not_mem_nil, or_false] at hx
  rcases hx with h | h <;> simp [h]

theorem scanL_lookup_idofadr_all (n : Nat) (c d : Int) :
    Write.lookupI (scanL (K := K) w nvc nefc n) "island_idofadr_out" [w, c] d
      = if 0 ≤ c ∧ c ≤ n then psum nvc c.toNat else d := by
  induction n with
  | zero =>
    by_cases hc : c = 0
    · subst hc; simp [scanL, Write.lookupI, psum]
    · have : ¬ (0 ≤ c ∧ c ≤ ((0 : Nat) : Int)) := by omega
      rw [if_neg this]
      have hc' : ¬ (0 : Int) = c := fun e => hc e.symm
      simp [scanL, Write.lookupI, hc']
  | succ n ih =>
    rw [scanL_succ]
    unfold scanRow
    rw [show ∀ (a b : Write K) (l : List (Write K)), l ++ [a, b] = (l ++ [a]) ++ [b] by simp]
    rw [lookupI_append_set, lookupI_append_set, ih]
    have e1 : (("island_iefcadr_out" == "island_idofadr_out" && [w, 1 + (n : Int)] == [w, c]) = true) ↔ False := by simp
    have e2 : (("island_idofadr_out" == "island_idofadr_out" && [w, 1 + (n : Int)] == [w, c]) = true) ↔ 1 + (n : Int) = c := by simp
    simp only [e1, e2, if_false]
    by_cases hc : 1 + (n : Int) = c
    · have h1 : (0 : Int) ≤ c ∧ c ≤ ((n + 1 : Nat) : Int) := by omega
      have h2 : c.toNat = n + 1 := by omega
      rw [if_pos hc, if_pos h1, h2]
    · have : (0 ≤ c ∧ c ≤ ((n + 1 : Nat) : Int)) ↔ (0 ≤ c ∧ c ≤ (n : Int)) := by omega
      rw [if_neg hc, if_congr this rfl rfl]

theorem scanL_lookup_iefcadr_all (n : Nat) (c d : Int) :
    Write.lookupI (scanL (K := K) w nvc nefc n) "island_iefcadr_out" [w, c] d
      = if 0 ≤ c ∧ c ≤ n then psum nefc c.toNat else d := by
  induction n with
  | zero =>
    by_cases hc : c = 0
    · subst hc; simp [scanL, Write.lookupI, psum]
    · have : ¬ (0 ≤ c ∧ c ≤ ((0 : Nat) : Int)) := by omega
      rw [if_neg this]
      have hc' : ¬ (0 : Int) = c := fun e => hc e.symm
      simp [scanL, Write.lookupI, hc']
  | succ n ih =>
    rw [scanL_succ]
    unfold scanRow
    rw [show ∀ (a b : Write K) (l : List (Write K)), l ++ [a, b] = (l ++ [a]) ++ [b] by simp]
    rw [lookupI_append_set, lookupI_append_set, ih]
    have e1 : (("island_iefcadr_out" == "island_iefcadr_out" && [w, 1 + (n : Int)] == [w, c]) = true) ↔ 1 + (n : Int) = c := by simp
    have e2 : (("island_idofadr_out" == "island_iefcadr_out" && [w, 1 + (n : Int)] == [w, c]) = true) ↔ False := by simp
    simp only [e1, e2, if_false]
    by_cases hc : 1 + (n : Int) = c
    · have h1 : (0 : Int) ≤ c ∧ c ≤ ((n + 1 : Nat) : Int) := by omega
      have h2 : c.toNat = n + 1 := by omega
      rw [if_pos hc, if_pos h1, h2]
    · have : (0 ≤ c ∧ c ≤ ((n + 1 : Nat) : Int)) ↔ (0 ≤ c ∧ c ≤ (n : Int)) := by omega
      rw [if_neg hc, if_congr this rfl rfl]

/-- the reset loop's writes -/
def scanReset (n : Nat) : List (Write K) :=
  (List.range n).flatMap (fun (k : Nat) =>
    [(Write.mk "island_nv_inout" [w, 0 + (k : Int)] (WVal.i 0) WKind.set : Write K),
     (Write.mk "island_nefc_inout" [w, 0 + (k : Int)] (WVal.i 0) WKind.set : Write K)])

theorem scanReset_succ (n : Nat) : scanReset (K := K) w (n + 1) = scanReset w n ++
    [(Write.mk "island_nv_inout" [w, 0 + (n : Int)] (WVal.i 0) WKind.set : Write K),
     (Write.mk "island_nefc_inout" [w, 0 + (n : Int)] (WVal.i 0) WKind.set : Write K)] := by
  unfold scanReset
  rw [List.range_succ, List.flatMap_append]
  simp

theorem scanReset_arr (n : Nat) : ∀ x ∈ scanReset (K := K) w n, x.arr = "island_nv_inout" ∨ x.arr = "island_nefc_inout" := by
  intro x hx
  unfold scanReset at hx
  simp only [List.mem_cons, List.mem_flatMap, List.mem_range, List.not_mem_nil, or_false] at hx
  rcases hx with ⟨k, -, h | h⟩ <;> simp [h]

theorem scanReset_lookup_nv (n : Nat) (c d : Int) :
    Write.lookupI (scanReset (K := K) w n) "island_nv_inout" [w, c] d = if 0 ≤ c ∧ c < n then 0 else d := by
  induction n with
  | zero => simp [scanReset, Write.lookupI]
  | succ n ih =>
    rw [scanReset_succ]
    rw [show ∀ (a b : Write K) (l : List (Write K)), l ++ [a, b] = (l ++ [a]) ++ [b] by simp]
    rw [lookupI_append_set, lookupI_append_set, ih]
    have e1 : (("island_nefc_inout" == "island_nv_inout" && [w, 0 + (n : Int)] == [w, c]) = true) ↔ False := by simp
    have e2 : (("island_nv_inout" == "island_nv_inout" && [w, 0 + (n : Int)] == [w, c]) = true) ↔ (n : Int) = c := by simp
    simp only [e1, e2, if_false]
    by_cases hc : (n : Int) = c
    · have h1 : (0 : Int) ≤ c ∧ c < ((n + 1 : Nat) : Int) := by omega
      rw [if_pos hc, if_pos h1]
    · have : (0 ≤ c ∧ c < ((n + 1 : Nat) : Int)) ↔ (0 ≤ c ∧ c < (n : Int)) := by omega
      rw [if_neg hc, if_congr this rfl rfl]

theorem scanReset_lookup_nefc (n : Nat) (c d : Int) :
    Write.lookupI (scanReset (K := K) w n) "island_nefc_inout" [w, c] d = if 0 ≤ c ∧ c < n then 0 else d := by
  induction n with
  | zero => simp [scanReset, Write.lookupI]
  | succ n ih =>
    rw [scanReset_succ]
    rw [show ∀ (a b : Write K) (l : List (Write K)), l ++ [a, b] = (l ++ [a]) ++ [b] by simp]
    rw [lookupI_append_set, lookupI_append_set, ih]
    have e1 : (("island_nefc_inout" == "island_nefc_inout" && [w, 0 + (n : Int)] == [w, c]) = true) ↔ (n : Int) = c := by simp
    have e2 : (("island_nv_inout" == "island_nefc_inout" && [w, 0 + (n : Int)] == [w, c]) = true) ↔ False := by simp
    simp only [e1, e2, if_false]
    by_cases hc : (n : Int) = c
    · have h1 : (0 : Int) ≤ c ∧ c < ((n + 1 : Nat) : Int) := by omega
      rw [if_pos hc, if_pos h1]
    · have : (0 ≤ c ∧ c < ((n + 1 : Nat) : Int)) ↔ (0 ≤ c ∧ c < (n : Int)) := by omega
      rw [if_neg hc, if_congr this rfl rfl]

/-- the closed-form write list, in pieces (`nisland = N + 1`) -/
theorem scanWrites_pos (N : Nat) :
    scanWrites (K := K) w ((N : Int) + 1) nvc nefc
      = scanL w nvc nefc N ++ [(Write.mk "nidof_out" [w] (WVal.i (psum nvc (N + 1))) WKind.set : Write K)]
          ++ scanReset w (N + 1) := by
  unfold scanWrites
  have h : ¬ ((N : Int) + 1 = 0) := by omega
  have h1 : ((N : Int) + 1 - 1).toNat = N := by omega
  have h2 : ((N : Int) + 1).toNat = N + 1 := by omega
  rw [if_neg h, h1, h2]
  rfl

/-- **memory effect of `_island_scan_sizes`' write list** = the function `scanSizes` -/
theorem scanWrites_effect (n : Nat) (nid0 : Int) :
    let ws : List (Write K) := scanWrites w (n : Int) nvc nefc
    let sc := scanSizes n nvc nefc adr0 eadr0
    (∀ c, Write.lookupI ws "island_idofadr_out" [w, c] (adr0 c) = sc.idofadr c) ∧
    (∀ c, Write.lookupI ws "island_iefcadr_out" [w, c] (eadr0 c) = sc.iefcadr c) ∧
    (∀ c, Write.lookupI ws "island_nv_inout" [w, c] (nvc c) = sc.islandNv c) ∧
    (∀ c, Write.lookupI ws "island_nefc_inout" [w, c] (nefc c) = sc.islandNefc c) ∧
    Write.lookupI ws "nidof_out" [w] nid0 = sc.nidof := by
  cases n with
  | zero =>
    have hs : scanWrites (K := K) w ((0 : Nat) : Int) nvc nefc = [(Write.mk "nidof_out" [w] (WVal.i 0) WKind.set : Write K)] := by
      simp [scanWrites]
    simp only [hs]
    refine ⟨fun c => ?_, fun c => ?_, fun c => ?_, fun c => ?_, ?_⟩ <;>
      simp [Write.lookupI, scanSizes, psum]
  | succ N =>
    have hs : scanWrites (K := K) w ((N + 1 : Nat) : Int) nvc nefc = _ := scanWrites_pos w nvc nefc N
    simp only [hs]
    have nidofW : ∀ x ∈ [(Write.mk "nidof_out" [w] (WVal.i (psum nvc (N + 1))) WKind.set : Write K)], x.arr = "nidof_out" := by
      intro x hx; simp at hx; simp [hx]
    refine ⟨fun c => ?_, fun c => ?_, fun c => ?_, fun c => ?_, ?_⟩
    · rw [lookupI_append, lookupI_append, scanL_lookup_idofadr_all,
        lookupI_no_arr _ _ _ _ (fun x hx => by rcases scanReset_arr w (N + 1) x hx with h | h <;> rw [h] <;> decide),
        lookupI_no_arr _ _ _ _ (fun x hx => by rw [nidofW x hx]; decide)]
      have : (0 ≤ c ∧ c ≤ (N : Int)) ↔ (0 ≤ c ∧ c < ((N + 1 : Nat) : Int)) := by omega
      simp only [scanSizes, this]
    · rw [lookupI_append, lookupI_append, scanL_lookup_iefcadr_all,
        lookupI_no_arr _ _ _ _ (fun x hx => by rcases scanReset_arr w (N + 1) x hx with h | h <;> rw [h] <;> decide),
        lookupI_no_arr _ _ _ _ (fun x hx => by rw [nidofW x hx]; decide)]
      have : (0 ≤ c ∧ c ≤ (N : Int)) ↔ (0 ≤ c ∧ c < ((N + 1 : Nat) : Int)) := by omega
      simp only [scanSizes, this]
    · rw [lookupI_append, lookupI_append, scanL_lookup_nv, scanReset_lookup_nv,
        lookupI_no_arr _ _ _ _ (fun x hx => by rw [nidofW x hx]; decide)]
      rfl
    · rw [lookupI_append, lookupI_append, scanL_lookup_nefc, scanReset_lookup_nefc,
        lookupI_no_arr _ _ _ _ (fun x hx => by rw [nidofW x hx]; decide)]
      rfl
    · rw [lookupI_append, lookupI_append_set,
        lookupI_no_arr _ _ _ _ (fun x hx => by rcases scanReset_arr w (N + 1) x hx with h | h <;> rw [h] <;> decide)]
      simp [scanSizes]

end scan
/-! ## E. `_island_map_constraints`: the launch in closed form -/

section efcs
variable (key : Nat → Nat) (eisl ety : Nat → Int) (adr ne nf : Int → Int)

/-- one task of the launch, reading the atomics' results from the current state -/
def estep (s : EfcMem) (e : Nat) : EfcMem :=
  mapEfcTask (eisl e) (ety e) (adr (eisl e)) (ne (eisl e)) (nf (eisl e))
    (s.neMapped (eisl e)) (s.nfMapped (eisl e)) (s.notherMapped (eisl e)) e s

theorem mapEfcs_nil (s : EfcMem) : mapEfcs eisl ety adr ne nf [] s = s := rfl
theorem mapEfcs_cons (a : Nat) (l : List Nat) (s : EfcMem) :
    mapEfcs eisl ety adr ne nf (a :: l) s = mapEfcs eisl ety adr ne nf l (estep eisl ety adr ne nf s a) := rfl

/-- content of the counter cell an island constraint `t` allocates from -/
def ectr (s : EfcMem) (t : Nat) : Int :=
  if cat (ety t) = 0 then s.neMapped (eisl t) else if cat (ety t) = 1 then s.nfMapped (eisl t) else s.notherMapped (eisl t)
/-- start of the (island, category) block of constraint `t` -/
def ebase (t : Nat) : Int :=
  if cat (ety t) = 0 then adr (eisl t) else if cat (ety t) = 1 then adr (eisl t) + ne (eisl t)
  else adr (eisl t) + ne (eisl t) + nf (eisl t)
/-- slot constraint `t` gets when the tasks `l` run from state `s` -/
def eslot (s : EfcMem) (l : List Nat) (t : Nat) : Int := ebase eisl ety adr ne nf t + ectr eisl ety s t + rank key l t

/-- `key` identifies exactly the island constraints that allocate from the same counter cell -/
def SameCellE (l : List Nat) : Prop :=
  ∀ a ∈ l, ∀ t ∈ l, 0 ≤ eisl t → (key a = key t ↔ (0 ≤ eisl a ∧ eisl a = eisl t ∧ cat (ety a) = cat (ety t)))

theorem SameCellE.tail {key : Nat → Nat} {eisl ety : Nat → Int} {a : Nat} {l : List Nat}
    (h : SameCellE key eisl ety (a :: l)) : SameCellE key eisl ety l :=
  fun x hx y hy => h x (List.mem_cons_of_mem _ hx) y (List.mem_cons_of_mem _ hy)

variable {key eisl ety}

theorem cat_cases (ty : Int) : cat ty = 0 ∨ cat ty = 1 ∨ cat ty = 2 := by
  unfold cat; split_ifs <;> simp

theorem ectr_step {a t : Nat} (s : EfcMem)
    (h : key a = key t ↔ (0 ≤ eisl a ∧ eisl a = eisl t ∧ cat (ety a) = cat (ety t))) :
    ectr eisl ety (estep eisl ety adr ne nf s a) t = ectr eisl ety s t + (if key a = key t then 1 else 0) := by
  unfold ectr estep mapEfcTask
  by_cases ha : eisl a ≥ 0
  · by_cases hk : key a = key t
    · obtain ⟨-, he, hc⟩ := h.mp hk
      rw [if_pos hk, if_pos ha]
      rcases cat_cases (ety t) with h0 | h0 | h0 <;> simp [hc, h0, he, upd]
    · rw [if_neg hk, if_pos ha]
      have hne : ¬ (eisl a = eisl t ∧ cat (ety a) = cat (ety t)) := fun hh => hk (h.mpr ⟨ha, hh.1, hh.2⟩)
      by_cases he : eisl a = eisl t
      · have hc : cat (ety a) ≠ cat (ety t) := fun hc => hne ⟨he, hc⟩
        rcases cat_cases (ety t) with h0 | h0 | h0 <;> rcases cat_cases (ety a) with h1 | h1 | h1 <;>
          first | (exfalso; omega) | simp [h0, h1]
      · have he' : eisl t ≠ eisl a := fun e => he e.symm
        rcases cat_cases (ety t) with h0 | h0 | h0 <;> rcases cat_cases (ety a) with h1 | h1 | h1 <;>
          simp [h0, h1, upd, he']
  · have hk : ¬ key a = key t := fun hk => ha (h.mp hk).1
    rw [if_neg hk, if_neg ha]; simp

theorem eslot_cons_self (s : EfcMem) (a : Nat) (l : List Nat) :
    eslot key eisl ety adr ne nf s (a :: l) a = ebase eisl ety adr ne nf a + ectr eisl ety s a := by
  unfold eslot; rw [rank_cons_self]; simp

theorem eslot_cons_ne (s : EfcMem) {a t : Nat} (l : List Nat) (hat : a ≠ t)
    (h : key a = key t ↔ (0 ≤ eisl a ∧ eisl a = eisl t ∧ cat (ety a) = cat (ety t))) :
    eslot key eisl ety adr ne nf (estep eisl ety adr ne nf s a) l t = eslot key eisl ety adr ne nf s (a :: l) t := by
  unfold eslot
  rw [rank_cons_ne key l hat, ectr_step adr ne nf s h]
  split <;> omega

theorem estep_efc2iefc (s : EfcMem) (a : Nat) (x : Int) :
    (estep eisl ety adr ne nf s a).efc2iefc x
      = if eisl a ≥ 0 ∧ x = (a : Int) then ebase eisl ety adr ne nf a + ectr eisl ety s a else s.efc2iefc x := by
  unfold estep mapEfcTask ebase ectr
  by_cases ha : eisl a ≥ 0
  · rcases cat_cases (ety a) with h0 | h0 | h0 <;> simp [ha, h0, upd]
  · simp [ha]

theorem estep_iefc2efc (s : EfcMem) (a : Nat) (x : Int) :
    (estep eisl ety adr ne nf s a).iefc2efc x
      = if eisl a ≥ 0 ∧ x = ebase eisl ety adr ne nf a + ectr eisl ety s a then (a : Int) else s.iefc2efc x := by
  unfold estep mapEfcTask ebase ectr
  by_cases ha : eisl a ≥ 0
  · rcases cat_cases (ety a) with h0 | h0 | h0 <;> simp [ha, h0, upd]
  · simp [ha]

theorem estep_iefcIsland (s : EfcMem) (a : Nat) (x : Int) :
    (estep eisl ety adr ne nf s a).iefcIsland x
      = if eisl a ≥ 0 ∧ x = ebase eisl ety adr ne nf a + ectr eisl ety s a then eisl a else s.iefcIsland x := by
  unfold estep mapEfcTask ebase ectr
  by_cases ha : eisl a ≥ 0
  · rcases cat_cases (ety a) with h0 | h0 | h0 <;> simp [ha, h0, upd]
  · simp [ha]

theorem estep_islandNefc (s : EfcMem) (a : Nat) (c : Int) :
    (estep eisl ety adr ne nf s a).islandNefc c = s.islandNefc c + (if eisl a ≥ 0 ∧ eisl a = c then 1 else 0) := by
  unfold estep mapEfcTask
  by_cases ha : eisl a ≥ 0
  · by_cases hc : eisl a = c
    · subst hc; simp [ha, upd]
    · have : c ≠ eisl a := fun e => hc e.symm
      simp [ha, upd, hc, this]
  · simp [ha]


/-- cells of `map_efc2iefc` that belong to no island constraint of the launch are untouched
    (in particular: the cells of constraints WITHOUT island keep their initial content) -/
theorem mapEfcs_efc2iefc_frame (l : List Nat) (s : EfcMem) (x : Int) (hx : ∀ a ∈ l, eisl a ≥ 0 → (a : Int) ≠ x) :
    (mapEfcs eisl ety adr ne nf l s).efc2iefc x = s.efc2iefc x := by
  induction l generalizing s with
  | nil => rfl
  | cons a l ih =>
    rw [mapEfcs_cons, ih _ (fun b hb => hx b (List.mem_cons_of_mem _ hb)), estep_efc2iefc]
    have := hx a (by simp)
    rw [if_neg (fun e => this e.1 e.2.symm)]

/-- **closed form of `map_efc2iefc`** for island constraints -/
theorem mapEfcs_efc2iefc (l : List Nat) (s : EfcMem) (hnd : l.Nodup) (hk : SameCellE key eisl ety l) {t : Nat}
    (ht : t ∈ l) (h0 : eisl t ≥ 0) :
    (mapEfcs eisl ety adr ne nf l s).efc2iefc t = eslot key eisl ety adr ne nf s l t := by
  induction l generalizing s with
  | nil => cases ht
  | cons a l ih =>
    have hnd' := List.nodup_cons.mp hnd
    rw [mapEfcs_cons]
    by_cases hat : a = t
    · subst hat
      have hfr : ∀ b ∈ l, eisl b ≥ 0 → (b : Int) ≠ (a : Int) := by
        intro b hb _ e
        have : b = a := by exact_mod_cast e
        exact hnd'.1 (this ▸ hb)
      rw [mapEfcs_efc2iefc_frame adr ne nf l _ _ hfr, estep_efc2iefc, if_pos ⟨h0, rfl⟩, eslot_cons_self]
    · have ht' : t ∈ l := by
        rcases List.mem_cons.mp ht with h | h
        · exact absurd h.symm hat
        · exact h
      rw [ih _ hnd'.2 hk.tail ht', eslot_cons_ne adr ne nf s l hat (hk a (by simp) t ht h0)]

theorem eslot_tail (s : EfcMem) {a : Nat} {l : List Nat} (hnd : (a :: l).Nodup) (hk : SameCellE key eisl ety (a :: l))
    {t : Nat} (ht : t ∈ l) (h0 : eisl t ≥ 0) :
    eslot key eisl ety adr ne nf (estep eisl ety adr ne nf s a) l t = eslot key eisl ety adr ne nf s (a :: l) t := by
  have hat : a ≠ t := fun h => (List.nodup_cons.mp hnd).1 (h ▸ ht)
  exact eslot_cons_ne adr ne nf s l hat (hk a (by simp) t (List.mem_cons_of_mem _ ht) h0)

/-- cells of `map_iefc2efc` that are no island constraint's slot are untouched -/
theorem mapEfcs_iefc2efc_frame (l : List Nat) (s : EfcMem) (hnd : l.Nodup) (hk : SameCellE key eisl ety l) (x : Int)
    (hx : ∀ t ∈ l, eisl t ≥ 0 → eslot key eisl ety adr ne nf s l t ≠ x) :
    (mapEfcs eisl ety adr ne nf l s).iefc2efc x = s.iefc2efc x := by
  induction l generalizing s with
  | nil => rfl
  | cons a l ih =>
    rw [mapEfcs_cons, ih _ (List.nodup_cons.mp hnd).2 hk.tail, estep_iefc2efc]
    · have := hx a (by simp)
      rw [eslot_cons_self] at this
      rw [if_neg (fun e => this e.1 e.2.symm)]
    · intro t ht h0
      rw [eslot_tail adr ne nf s hnd hk ht h0]
      exact hx t (List.mem_cons_of_mem _ ht) h0

/-- **closed form of `map_iefc2efc`**: the slot of island constraint `t` holds `t` -/
theorem mapEfcs_iefc2efc (l : List Nat) (s : EfcMem) (hnd : l.Nodup) (hk : SameCellE key eisl ety l)
    (hinj : ∀ t ∈ l, eisl t ≥ 0 → ∀ u ∈ l, eisl u ≥ 0 →
      eslot key eisl ety adr ne nf s l t = eslot key eisl ety adr ne nf s l u → t = u)
    {t : Nat} (ht : t ∈ l) (h0 : eisl t ≥ 0) :
    (mapEfcs eisl ety adr ne nf l s).iefc2efc (eslot key eisl ety adr ne nf s l t) = t := by
  induction l generalizing s with
  | nil => cases ht
  | cons a l ih =>
    have hnd' := List.nodup_cons.mp hnd
    rw [mapEfcs_cons]
    by_cases hat : a = t
    · subst hat
      rw [mapEfcs_iefc2efc_frame adr ne nf l _ hnd'.2 hk.tail, estep_iefc2efc, eslot_cons_self, if_pos ⟨h0, rfl⟩]
      intro u hu hu0 e
      rw [eslot_tail adr ne nf s hnd hk hu hu0] at e
      have := hinj u (List.mem_cons_of_mem _ hu) hu0 a (by simp) h0 e
      exact hnd'.1 (this ▸ hu)
    · have ht' : t ∈ l := by
        rcases List.mem_cons.mp ht with h | h
        · exact absurd h.symm hat
        · exact h
      rw [← eslot_tail adr ne nf s hnd hk ht' h0]
      apply ih _ hnd'.2 hk.tail _ ht'
      intro u hu hu0 v hv hv0 e
      rw [eslot_tail adr ne nf s hnd hk hu hu0, eslot_tail adr ne nf s hnd hk hv hv0] at e
      exact hinj u (List.mem_cons_of_mem _ hu) hu0 v (List.mem_cons_of_mem _ hv) hv0 e

theorem mapEfcs_iefcIsland_frame (l : List Nat) (s : EfcMem) (hnd : l.Nodup) (hk : SameCellE key eisl ety l) (x : Int)
    (hx : ∀ t ∈ l, eisl t ≥ 0 → eslot key eisl ety adr ne nf s l t ≠ x) :
    (mapEfcs eisl ety adr ne nf l s).iefcIsland x = s.iefcIsland x := by
  induction l generalizing s with
  | nil => rfl
  | cons a l ih =>
    rw [mapEfcs_cons, ih _ (List.nodup_cons.mp hnd).2 hk.tail, estep_iefcIsland]
    · have := hx a (by simp)
      rw [eslot_cons_self] at this
      rw [if_neg (fun e => this e.1 e.2.symm)]
    · intro t ht h0
      rw [eslot_tail adr ne nf s hnd hk ht h0]
      exact hx t (List.mem_cons_of_mem _ ht) h0

/-- **closed form of `efc_islandid`**: the slot of island constraint `t` holds its island -/
theorem mapEfcs_iefcIsland (l : List Nat) (s : EfcMem) (hnd : l.Nodup) (hk : SameCellE key eisl ety l)
    (hinj : ∀ t ∈ l, eisl t ≥ 0 → ∀ u ∈ l, eisl u ≥ 0 →
      eslot key eisl ety adr ne nf s l t = eslot key eisl ety adr ne nf s l u → t = u)
    {t : Nat} (ht : t ∈ l) (h0 : eisl t ≥ 0) :
    (mapEfcs eisl ety adr ne nf l s).iefcIsland (eslot key eisl ety adr ne nf s l t) = eisl t := by
  induction l generalizing s with
  | nil => cases ht
  | cons a l ih =>
    have hnd' := List.nodup_cons.mp hnd
    rw [mapEfcs_cons]
    by_cases hat : a = t
    · subst hat
      rw [mapEfcs_iefcIsland_frame adr ne nf l _ hnd'.2 hk.tail, estep_iefcIsland, eslot_cons_self, if_pos ⟨h0, rfl⟩]
      intro u hu hu0 e
      rw [eslot_tail adr ne nf s hnd hk hu hu0] at e
      have := hinj u (List.mem_cons_of_mem _ hu) hu0 a (by simp) h0 e
      exact hnd'.1 (this ▸ hu)
    · have ht' : t ∈ l := by
        rcases List.mem_cons.mp ht with h | h
        · exact absurd h.symm hat
        · exact h
      rw [← eslot_tail adr ne nf s hnd hk ht' h0]
      apply ih _ hnd'.2 hk.tail _ ht'
      intro u hu hu0 v hv hv0 e
      rw [eslot_tail adr ne nf s hnd hk hu hu0, eslot_tail adr ne nf s hnd hk hv hv0] at e
      exact hinj u (List.mem_cons_of_mem _ hu) hu0 v (List.mem_cons_of_mem _ hv) hv0 e

/-- **the re-counted `island_nefc`** -/
theorem mapEfcs_islandNefc (l : List Nat) (s : EfcMem) (c : Int) (hc : 0 ≤ c) :
    (mapEfcs eisl ety adr ne nf l s).islandNefc c = s.islandNefc c + cntI eisl l c := by
  induction l generalizing s with
  | nil => simp [mapEfcs_nil, cntI]
  | cons a l ih =>
    rw [mapEfcs_cons, ih, estep_islandNefc, cntI_cons]
    by_cases h : eisl a = c
    · have : eisl a ≥ 0 := by omega
      simp [h, hc]; omega
    · simp [h]

end efcs
/-! ## F. the constraint pipeline: counts, keys, slots in closed form -/

theorem cntC_cons (eisl ety : Nat → Int) (a : Nat) (l : List Nat) (c : Int) (j : Nat) :
    cntC eisl ety (a :: l) c j = cntC eisl ety l c j + (if eisl a = c ∧ cat (ety a) = j then 1 else 0) := by
  unfold cntC
  rw [List.countP_cons]
  by_cases h : eisl a = c ∧ cat (ety a) = j
  · simp [h]
  · have : (eisl a == c && cat (ety a) == j) = false := by
      rw [Bool.and_eq_false_iff]
      by_cases h1 : eisl a = c
      · right; simpa using fun h2 => h ⟨h1, h2⟩
      · left; simpa using h1
    simp [h, this]

theorem cntC_perm {eisl ety : Nat → Int} {l₁ l₂ : List Nat} (p : l₁.Perm l₂) (c : Int) (j : Nat) :
    cntC eisl ety l₁ c j = cntC eisl ety l₂ c j := p.countP_eq _

/-- island size = equality + friction + other -/
theorem cntI_split (eisl ety : Nat → Int) (l : List Nat) (c : Int) :
    cntI eisl l c = cntC eisl ety l c 0 + cntC eisl ety l c 1 + cntC eisl ety l c 2 := by
  induction l with
  | nil => rfl
  | cons a l ih =>
    rw [cntI_cons, cntC_cons, cntC_cons, cntC_cons, ih]
    by_cases h : eisl a = c
    · rcases cat_cases (ety a) with h0 | h0 | h0 <;> simp [h, h0] <;> omega
    · simp [h]

theorem countEfcs_cons (eisl ety : Nat → Int) (a : Nat) (l : List Nat) (s : EfcCounts) :
    countEfcs eisl ety (a :: l) s = countEfcs eisl ety l (countEfcTask (eisl a) (ety a) s) := rfl

/-- the three counters after `_island_count_constraints` -/
theorem countEfcs_eq (eisl ety : Nat → Int) (l : List Nat) (s : EfcCounts) (c : Int) :
    (countEfcs eisl ety l s).nefc c = s.nefc c + (if 0 ≤ c then (cntI eisl l c : Int) else 0) ∧
    (countEfcs eisl ety l s).ne c = s.ne c + (if 0 ≤ c then (cntC eisl ety l c 0 : Int) else 0) ∧
    (countEfcs eisl ety l s).nf c = s.nf c + (if 0 ≤ c then (cntC eisl ety l c 1 : Int) else 0) := by
  induction l generalizing s with
  | nil => simp [countEfcs, cntI, cntC]
  | cons a l ih =>
    rw [countEfcs_cons]
    obtain ⟨h1, h2, h3⟩ := ih (countEfcTask (eisl a) (ety a) s)
    rw [h1, h2, h3, cntI_cons, cntC_cons, cntC_cons]
    unfold countEfcTask
    by_cases ha : eisl a ≥ 0
    · by_cases hac : eisl a = c
      · have hc : 0 ≤ c := by omega
        subst hac
        rcases cat_cases (ety a) with h0 | h0 | h0 <;> simp [ha, h0, upd] <;> omega
      · have hca : c ≠ eisl a := fun e => hac e.symm
        rcases cat_cases (ety a) with h0 | h0 | h0 <;> simp [ha, h0, upd, hac, hca]
    · by_cases hac : eisl a = c
      · have hc : ¬ 0 ≤ c := by omega
        simp [ha, hc]
      · simp [ha, hac]

theorem psumN_three (f : Nat → Nat) (c : Nat) :
    psumN f (3 * c) = psumN (fun k => f (3 * k) + f (3 * k + 1) + f (3 * k + 2)) c := by
  induction c with
  | zero => rfl
  | succ c ih =>
    rw [show 3 * (c + 1) = 3 * c + 1 + 1 + 1 by omega]
    simp only [psumN, ih]; omega

section efckey
variable {nisland : Nat} {eisl ety : Nat → Int} {l : List Nat}

theorem cat_lt (ty : Int) : cat ty < 3 := by rcases cat_cases ty with h | h | h <;> omega

theorem efcKey_island {t : Nat} {c : Nat} (h : eisl t = c) : efcKey nisland eisl ety t = 3 * c + cat (ety t) := by
  unfold efcKey; rw [if_pos (by omega), h]; simp

theorem efcKey_sameCellE (h : ∀ t ∈ l, eisl t < nisland) : SameCellE (efcKey nisland eisl ety) eisl ety l := by
  intro a ha t ht h0
  have h1 := h a ha
  have h2 := h t ht
  have c1 := cat_lt (ety a)
  have c2 := cat_lt (ety t)
  unfold efcKey
  split_ifs <;> omega

theorem cnt_efcKey (h : ∀ t ∈ l, eisl t < nisland) (c : Nat) (hc : c < nisland) (j : Nat) (hj : j < 3) :
    cnt (efcKey nisland eisl ety) l (3 * c + j) = cntC eisl ety l c j := by
  unfold cnt cntC
  apply List.countP_congr
  intro t ht
  have := h t ht
  have c1 := cat_lt (ety t)
  unfold efcKey
  by_cases h0 : 0 ≤ eisl t
  · by_cases he : eisl t = c
    · by_cases hcat : cat (ety t) = j
      · simp [he, hcat]
      · simp [he, hcat]
    · have : ¬ 3 * (eisl t).toNat + cat (ety t) = 3 * c + j := by omega
      simp [h0, he, this]
  · have : ¬ 3 * nisland = 3 * c + j := by omega
    have he : ¬ eisl t = c := by omega
    simp [h0, this, he]

end efckey

section efcpipe
variable {n nisland : Nat} {eisl ety : Nat → Int} {order1 order2 : List Nat}

/-- the counters after `_island_count_constraints` in the pipeline -/
theorem efcPipeline_counts (hp1 : order1.Perm (List.range n)) (c : Int) (hc : 0 ≤ c) :
    (efcPipeline nisland eisl ety order1 order2).2.1.nefc c = islandCount n eisl c ∧
    (efcPipeline nisland eisl ety order1 order2).2.1.ne c = catCount n eisl ety c 0 ∧
    (efcPipeline nisland eisl ety order1 order2).2.1.nf c = catCount n eisl ety c 1 := by
  obtain ⟨h1, h2, h3⟩ := countEfcs_eq eisl ety order1 ⟨fun _ => 0, fun _ => 0, fun _ => 0⟩ c
  refine ⟨?_, ?_, ?_⟩
  · change (countEfcs eisl ety order1 _).nefc c = _
    rw [h1, if_pos hc, cntI_perm hp1]; simp [islandCount]
  · change (countEfcs eisl ety order1 _).ne c = _
    rw [h2, if_pos hc, cntC_perm hp1]; simp [catCount]
  · change (countEfcs eisl ety order1 _).nf c = _
    rw [h3, if_pos hc, cntC_perm hp1]; simp [catCount]

theorem islandCount_eq_cnt3 (hp2 : order2.Perm (List.range n)) (hisl : ∀ e, e < n → eisl e < nisland)
    (c : Nat) (hc : c < nisland) :
    islandCount n eisl c = ((fun k => cnt (efcKey nisland eisl ety) order2 (3 * k)
      + cnt (efcKey nisland eisl ety) order2 (3 * k + 1) + cnt (efcKey nisland eisl ety) order2 (3 * k + 2)) c : Nat) := by
  have h : ∀ t ∈ order2, eisl t < nisland := fun t ht => hisl t ((perm_range_mem hp2 t).mp ht)
  have e0 := cnt_efcKey (ety := ety) h c hc 0 (by omega)
  have e1 := cnt_efcKey (ety := ety) h c hc 1 (by omega)
  have e2 := cnt_efcKey (ety := ety) h c hc 2 (by omega)
  simp only [Nat.add_zero] at e0
  simp only [e0, e1, e2]
  rw [← cntI_split, cntI_perm hp2]; rfl

theorem catCount_eq_cnt (hp2 : order2.Perm (List.range n)) (hisl : ∀ e, e < n → eisl e < nisland)
    (c : Nat) (hc : c < nisland) (j : Nat) (hj : j < 3) :
    catCount n eisl ety c j = cnt (efcKey nisland eisl ety) order2 (3 * c + j) := by
  have h : ∀ t ∈ order2, eisl t < nisland := fun t ht => hisl t ((perm_range_mem hp2 t).mp ht)
  rw [cnt_efcKey h c hc j hj, cntC_perm hp2]; rfl

theorem psum_islandCount3 (hp2 : order2.Perm (List.range n)) (hisl : ∀ e, e < n → eisl e < nisland)
    (k : Nat) (hk : k ≤ nisland) :
    psum (islandCount n eisl) k = psumN (cnt (efcKey nisland eisl ety) order2) (3 * k) := by
  rw [psumN_three]
  exact psum_cast _ _ k (fun c hc => islandCount_eq_cnt3 hp2 hisl c (by omega))

/-- initial state of the constraint map launch in the pipeline -/
def efcInit (nisland : Nat) (eisl ety : Nat → Int) (order1 : List Nat) : EfcMem :=
  ⟨fun _ => 0, fun _ => 0, fun _ => 0,
    (scanSizes nisland (fun _ => 0) (countEfcs eisl ety order1 ⟨fun _ => 0, fun _ => 0, fun _ => 0⟩).nefc
      (fun _ => 0) (fun _ => 0)).islandNefc, fun _ => 0, fun _ => 0, fun _ => -1⟩

theorem efcPipeline_fst :
    (efcPipeline nisland eisl ety order1 order2).1
      = mapEfcs eisl ety (efcPipeline nisland eisl ety order1 order2).2.2.iefcadr
          (efcPipeline nisland eisl ety order1 order2).2.1.ne (efcPipeline nisland eisl ety order1 order2).2.1.nf
          order2 (efcInit nisland eisl ety order1) := rfl

theorem efcPipeline_iefcadr (hp1 : order1.Perm (List.range n)) (c : Nat) (hc : c < nisland) :
    (efcPipeline nisland eisl ety order1 order2).2.2.iefcadr c = psum (islandCount n eisl) c := by
  simp only [efcPipeline, scanSizes]
  rw [if_pos ⟨by omega, by omega⟩]
  simp only [Int.toNat_natCast]
  apply (psum_cast _ _ c (fun k _ => ?_)).trans (psum_cast _ _ c (fun k _ => ?_)).symm
  · exact fun k => (cntI eisl (List.range n) k)
  · exact (efcPipeline_counts (nisland := nisland) (ety := ety) (order2 := order2) hp1 k (by omega)).1
  · rfl

end efcpipe
/-! ## G. specification of a `_island_map_dofs` launch from any state with zeroed counters -/

theorem dslot_eq_slot {nisland : Nat} {isl : Nat → Int} {adr : Int → Int} {nidof : Int} {l : List Nat} {s : DofMem}
    (hl : ∀ t ∈ l, isl t < nisland)
    (hadr : ∀ c : Nat, c < nisland → adr c = psumN (cnt (dofKey nisland isl) l) c)
    (hnid : nidof = psumN (cnt (dofKey nisland isl) l) nisland)
    (hs : ∀ c : Nat, c < nisland → s.islandNv c = 0) (hu : s.uncnt = 0) {t : Nat} (ht : t ∈ l) :
    dslot (dofKey nisland isl) isl adr nidof s l t = slot (dofKey nisland isl) l t := by
  have htn := hl t ht
  unfold dslot dbase dctr slot
  by_cases h0 : isl t ≥ 0
  · obtain ⟨c, hc⟩ : ∃ c : Nat, isl t = c := ⟨(isl t).toNat, by omega⟩
    have hk : dofKey nisland isl t = c := by unfold dofKey; rw [if_pos h0, hc]; simp
    rw [if_pos h0, if_pos h0, hk, hc, hadr c (by omega), hs c (by omega)]; push_cast; omega
  · have hk : dofKey nisland isl t = nisland := by unfold dofKey; rw [if_neg h0]
    rw [if_neg h0, if_neg h0, hk, hnid, hu]; push_cast; omega

theorem mapDofs_spec (nv nisland : Nat) (isl : Nat → Int) (adr : Int → Int) (nidof : Int) (order : List Nat) (s0 : DofMem)
    (hp : order.Perm (List.range nv)) (hisl : ∀ d, d < nv → isl d < nisland)
    (hadr : ∀ c : Nat, c < nisland → adr c = psum (islandCount nv isl) c)
    (hnid : nidof = psum (islandCount nv isl) nisland)
    (hs : ∀ c : Nat, c < nisland → s0.islandNv c = 0) (hu : s0.uncnt = 0) :
    let m := mapDofs isl adr nidof order s0
    let nvc := islandCount nv isl
    (∀ d : Nat, d < nv → m.idof2dof (m.dof2idof d) = d) ∧
    (∀ i : Nat, i < nv → m.dof2idof (m.idof2dof i) = i) ∧
    (∀ d : Nat, d < nv → 0 ≤ m.dof2idof d ∧ m.dof2idof d < nv) ∧
    (∀ i : Nat, i < nv → 0 ≤ m.idof2dof i ∧ m.idof2dof i < nv) ∧
    (∀ d : Nat, d < nv → 0 ≤ isl d →
      adr (isl d) ≤ m.dof2idof d ∧ m.dof2idof d < adr (isl d) + nvc (isl d)
        ∧ m.dof2idof d < nidof ∧ m.idofIsland (m.dof2idof d) = isl d) ∧
    (∀ d : Nat, d < nv → isl d < 0 →
      nidof ≤ m.dof2idof d ∧ m.dof2idof d < nv ∧ m.idofIsland (m.dof2idof d) = s0.idofIsland (m.dof2idof d)) ∧
    (∀ c : Int, 0 ≤ c → m.islandNv c = s0.islandNv c + nvc c) ∧
    (∀ c : Int, 0 ≤ c → (∀ d : Nat, d < nv → isl d = c → m.dofadr c ≤ d) ∧ m.dofadr c ≤ s0.dofadr c ∧
      ((∃ d : Nat, d < nv ∧ isl d = c ∧ m.dofadr c = d) ∨ m.dofadr c = s0.dofadr c)) := by
  intro m nvc
  have hnd := perm_range_nodup hp
  have hmem := perm_range_mem hp
  have hl : ∀ t ∈ order, isl t < nisland := fun t ht => hisl t ((hmem t).mp ht)
  have hk := dofKey_sameCell hl
  have hlen : order.length = nv := by rw [hp.length_eq, List.length_range]
  have hadrN : ∀ c : Nat, c < nisland → adr c = psumN (cnt (dofKey nisland isl) order) c := by
    intro c hc; rw [hadr c hc, psum_islandCount hp hisl c (by omega)]
  have hnidN : nidof = psumN (cnt (dofKey nisland isl) order) nisland := by
    rw [hnid, psum_islandCount hp hisl _ (Nat.le_refl _)]
  have hds := fun {t : Nat} (ht : t ∈ order) => dslot_eq_slot (s := s0) hl hadrN hnidN hs hu ht
  have hinj : ∀ t ∈ order, ∀ u ∈ order,
      dslot (dofKey nisland isl) isl adr nidof s0 order t = dslot (dofKey nisland isl) isl adr nidof s0 order u → t = u := by
    intro t ht u hu e
    rw [hds ht, hds hu] at e
    exact slot_inj _ hnd ht hu (by exact_mod_cast e)
  have hm : m = mapDofs isl adr nidof order s0 := rfl
  have hd2i : ∀ d : Nat, d < nv → m.dof2idof d = slot (dofKey nisland isl) order d := by
    intro d hd
    have ht := (hmem d).mpr hd
    rw [hm, mapDofs_dof2idof adr nidof order _ hnd hk ht, hds ht]
  have hi2d : ∀ d : Nat, d < nv → m.idof2dof (slot (dofKey nisland isl) order d : Nat) = d := by
    intro d hd
    have ht := (hmem d).mpr hd
    rw [hm, ← hds ht, mapDofs_idof2dof adr nidof order _ hnd hk hinj ht]
  have htot : psumN (cnt (dofKey nisland isl) order) (nisland + 1) = nv := by
    rw [psumN_cnt_total _ _ _ (fun t ht => dofKey_lt hl ht), hlen]
  have hsurj : ∀ i : Nat, i < nv → ∃ d : Nat, d < nv ∧ slot (dofKey nisland isl) order d = i := by
    intro i hi
    obtain ⟨t, ht, -, hs⟩ := slot_surj (dofKey nisland isl) hnd (nisland + 1) i (by omega)
    exact ⟨t, (hmem t).mp ht, hs⟩
  refine ⟨?_, ?_, ?_, ?_, ?_, ?_, ?_, ?_⟩
  · intro d hd; rw [hd2i d hd, hi2d d hd]
  · intro i hi
    obtain ⟨d, hd, hs⟩ := hsurj i hi
    rw [← hs, hi2d d hd, hd2i d hd]
  · intro d hd
    rw [hd2i d hd]
    have := slot_lt_length (dofKey nisland isl) ((hmem d).mpr hd)
    omega
  · intro i hi
    obtain ⟨d, hd, hs⟩ := hsurj i hi
    rw [← hs, hi2d d hd]; omega
  · intro d hd h0
    have ht := (hmem d).mpr hd
    obtain ⟨c, hc⟩ : ∃ c : Nat, isl d = c := ⟨(isl d).toNat, by omega⟩
    have hcn : c < nisland := by have := hisl d hd; omega
    have hkey : dofKey nisland isl d = c := by unfold dofKey; rw [if_pos h0, hc]; simp
    have h1 := slot_lower (l := order) (dofKey nisland isl) d
    have h2 := slot_upper (dofKey nisland isl) ht
    have h3 := slot_lt_of_key_lt (dofKey nisland isl) ht (show dofKey nisland isl d < nisland by omega)
    rw [hkey] at h1 h2
    have hcnt : nvc c = cnt (dofKey nisland isl) order c := islandCount_eq_cnt hp hisl c hcn
    refine ⟨?_, ?_, ?_, ?_⟩
    · rw [hd2i d hd, hc, hadrN c hcn]; exact_mod_cast h1
    · rw [hd2i d hd, hc, hadrN c hcn, hcnt]; exact_mod_cast h2
    · rw [hd2i d hd, hnidN]; exact_mod_cast h3
    · rw [hd2i d hd, hm, ← hds ht, mapDofs_idofIsland adr nidof order _ hnd hk hinj ht h0]
  · intro d hd h0
    have ht := (hmem d).mpr hd
    have hkey : dofKey nisland isl d = nisland := by unfold dofKey; rw [if_neg (by omega)]
    have h1 := slot_ge_of_key_ge (l := order) (dofKey nisland isl) (t := d) (B := nisland) (by omega)
    have h2 := slot_lt_length (dofKey nisland isl) ht
    refine ⟨by rw [hd2i d hd, hnidN]; exact_mod_cast h1, by rw [hd2i d hd]; omega, ?_⟩
    rw [hd2i d hd, hm, mapDofs_idofIsland_frame adr nidof order _ hnd hk]
    intro t ht' ht0 e
    rw [hds ht'] at e
    have := slot_inj _ hnd ht' ht (by exact_mod_cast e)
    subst this; omega
  · intro c hc
    rw [hm, mapDofs_islandNv _ _ _ _ c hc, cntI_perm hp]; rfl
  · intro c hc
    have hle := mapDofs_dofadr_le adr nidof (isl := isl) order s0 c
    have hat := mapDofs_dofadr_attained adr nidof (isl := isl) order s0 c
    rw [← hm] at hle hat
    refine ⟨fun d hd e => hle.2 d ((hmem d).mpr hd) (by omega) e, hle.1, ?_⟩
    rcases hat with h | ⟨t, ht, h0, he, h⟩
    · exact Or.inr h
    · exact Or.inl ⟨t, (hmem t).mp ht, he, h⟩

/-! ## H. specification of a `_island_map_constraints` launch from any state with zeroed counters -/

theorem eslot_eq_slot {n nisland : Nat} {eisl ety : Nat → Int} {adr ne nf : Int → Int} {l : List Nat} {s : EfcMem}
    (hp : l.Perm (List.range n)) (hisl : ∀ e, e < n → eisl e < nisland)
    (hadr : ∀ c : Nat, c < nisland → adr c = psum (islandCount n eisl) c)
    (hne : ∀ c : Nat, c < nisland → ne c = catCount n eisl ety c 0)
    (hnf : ∀ c : Nat, c < nisland → nf c = catCount n eisl ety c 1)
    (hs : ∀ c : Nat, c < nisland → s.neMapped c = 0 ∧ s.nfMapped c = 0 ∧ s.notherMapped c = 0)
    {t : Nat} (ht : t ∈ l) (h0 : eisl t ≥ 0) :
    eslot (efcKey nisland eisl ety) eisl ety adr ne nf s l t = slot (efcKey nisland eisl ety) l t := by
  have htn := hisl t ((perm_range_mem hp t).mp ht)
  obtain ⟨c, hc⟩ : ∃ c : Nat, eisl t = c := ⟨(eisl t).toNat, by omega⟩
  have hcn : c < nisland := by omega
  have hkey := efcKey_island (nisland := nisland) (ety := ety) hc
  have hadr' := hadr c hcn
  have hne' := hne c hcn
  have hnf' := hnf c hcn
  obtain ⟨z0, z1, z2⟩ := hs c hcn
  rw [psum_islandCount3 (ety := ety) hp hisl c (by omega)] at hadr'
  rw [catCount_eq_cnt hp hisl c hcn 0 (by omega), Nat.add_zero] at hne'
  rw [catCount_eq_cnt hp hisl c hcn 1 (by omega)] at hnf'
  unfold eslot ebase ectr slot
  rw [hkey, hc, hadr', hne', hnf', z0, z1, z2]
  rcases cat_cases (ety t) with hj | hj | hj
  · simp only [hj, if_true, Nat.add_zero]; push_cast; omega
  · have : psumN (cnt (efcKey nisland eisl ety) l) (3 * c + 1)
        = psumN (cnt (efcKey nisland eisl ety) l) (3 * c) + cnt (efcKey nisland eisl ety) l (3 * c) := rfl
    simp only [hj, this]
    simp
  · have : psumN (cnt (efcKey nisland eisl ety) l) (3 * c + 2)
        = psumN (cnt (efcKey nisland eisl ety) l) (3 * c) + cnt (efcKey nisland eisl ety) l (3 * c)
          + cnt (efcKey nisland eisl ety) l (3 * c + 1) := rfl
    simp only [hj, this]
    simp

theorem mapEfcs_spec (n nisland : Nat) (eisl ety : Nat → Int) (adr ne nf : Int → Int) (order : List Nat) (s0 : EfcMem)
    (hp : order.Perm (List.range n)) (hisl : ∀ e, e < n → eisl e < nisland)
    (hadr : ∀ c : Nat, c < nisland → adr c = psum (islandCount n eisl) c)
    (hne : ∀ c : Nat, c < nisland → ne c = catCount n eisl ety c 0)
    (hnf : ∀ c : Nat, c < nisland → nf c = catCount n eisl ety c 1)
    (hs : ∀ c : Nat, c < nisland → s0.neMapped c = 0 ∧ s0.nfMapped c = 0 ∧ s0.notherMapped c = 0) :
    let m := mapEfcs eisl ety adr ne nf order s0
    let tot : Int := psum (islandCount n eisl) nisland
    (∀ e : Nat, e < n → 0 ≤ eisl e →
      0 ≤ m.efc2iefc e ∧ m.efc2iefc e < tot ∧ m.iefc2efc (m.efc2iefc e) = e ∧ m.iefcIsland (m.efc2iefc e) = eisl e) ∧
    (∀ i : Nat, (i : Int) < tot → ∃ e : Nat, e < n ∧ 0 ≤ eisl e ∧ m.iefc2efc i = e ∧ m.efc2iefc e = i) ∧
    (∀ e : Nat, e < n → 0 ≤ eisl e →
      let a := adr (eisl e); let ne' := ne (eisl e); let nf' := nf (eisl e)
      (cat (ety e) = 0 → a ≤ m.efc2iefc e ∧ m.efc2iefc e < a + ne') ∧
      (cat (ety e) = 1 → a + ne' ≤ m.efc2iefc e ∧ m.efc2iefc e < a + ne' + nf') ∧
      (cat (ety e) = 2 → a + ne' + nf' ≤ m.efc2iefc e ∧ m.efc2iefc e < a + islandCount n eisl (eisl e))) ∧
    (∀ c : Int, 0 ≤ c → m.islandNefc c = s0.islandNefc c + islandCount n eisl c) ∧
    (∀ e : Nat, e < n → eisl e < 0 → m.efc2iefc e = s0.efc2iefc e) ∧
    (∀ x : Int, tot ≤ x ∨ x < 0 → m.iefc2efc x = s0.iefc2efc x ∧ m.iefcIsland x = s0.iefcIsland x) := by
  intro m tot
  have hnd := perm_range_nodup hp
  have hmem := perm_range_mem hp
  have hl : ∀ t ∈ order, eisl t < nisland := fun t ht => hisl t ((hmem t).mp ht)
  have hk := efcKey_sameCellE (ety := ety) hl
  have hes := fun {t : Nat} (ht : t ∈ order) (h0 : eisl t ≥ 0) =>
    eslot_eq_slot (s := s0) hp hisl hadr hne hnf hs ht h0
  have hinj : ∀ t ∈ order, eisl t ≥ 0 → ∀ u ∈ order, eisl u ≥ 0 →
      eslot (efcKey nisland eisl ety) eisl ety adr ne nf s0 order t
        = eslot (efcKey nisland eisl ety) eisl ety adr ne nf s0 order u → t = u := by
    intro t ht ht0 u hu hu0 e
    rw [hes ht ht0, hes hu hu0] at e
    exact slot_inj _ hnd ht hu (by exact_mod_cast e)
  have hm : m = mapEfcs eisl ety adr ne nf order s0 := rfl
  have he2i : ∀ e : Nat, e < n → 0 ≤ eisl e → m.efc2iefc e = slot (efcKey nisland eisl ety) order e := by
    intro e he h0
    have ht := (hmem e).mpr he
    rw [hm, mapEfcs_efc2iefc adr ne nf order _ hnd hk ht h0, hes ht h0]
  have hi2e : ∀ e : Nat, e < n → 0 ≤ eisl e → m.iefc2efc (slot (efcKey nisland eisl ety) order e : Nat) = e := by
    intro e he h0
    have ht := (hmem e).mpr he
    rw [hm, ← hes ht h0, mapEfcs_iefc2efc adr ne nf order _ hnd hk hinj ht h0]
  have htot : tot = psumN (cnt (efcKey nisland eisl ety) order) (3 * nisland) :=
    psum_islandCount3 hp hisl nisland (Nat.le_refl _)
  have hkeylt : ∀ e : Nat, e < n → 0 ≤ eisl e → efcKey nisland eisl ety e < 3 * nisland := by
    intro e he h0
    have := hisl e he
    have := cat_lt (ety e)
    unfold efcKey; rw [if_pos h0]; omega
  refine ⟨?_, ?_, ?_, ?_, ?_, ?_⟩
  · intro e he h0
    have ht := (hmem e).mpr he
    have h1 := slot_lt_of_key_lt (efcKey nisland eisl ety) ht (hkeylt e he h0)
    refine ⟨by rw [he2i e he h0]; omega, by rw [he2i e he h0, htot]; exact_mod_cast h1,
      by rw [he2i e he h0, hi2e e he h0], ?_⟩
    rw [he2i e he h0, hm, ← hes ht h0, mapEfcs_iefcIsland adr ne nf order _ hnd hk hinj ht h0]
  · intro i hi
    rw [htot] at hi
    obtain ⟨t, ht, hkt, hs⟩ := slot_surj (efcKey nisland eisl ety) hnd (3 * nisland) i (by exact_mod_cast hi)
    have htn := (hmem t).mp ht
    have h0 : 0 ≤ eisl t := by
      by_contra hneg
      have : efcKey nisland eisl ety t = 3 * nisland := by unfold efcKey; rw [if_neg hneg]
      omega
    exact ⟨t, htn, h0, by rw [← hs, hi2e t htn h0], by rw [he2i t htn h0, hs]⟩
  · intro e he h0
    have ht := (hmem e).mpr he
    obtain ⟨c, hc⟩ : ∃ c : Nat, eisl e = c := ⟨(eisl e).toNat, by omega⟩
    have hcn : c < nisland := by have := hisl e he; omega
    have hkey := efcKey_island (nisland := nisland) (ety := ety) hc
    have hadr' := hadr c hcn
    have hne' := hne c hcn
    have hnf' := hnf c hcn
    rw [psum_islandCount3 (ety := ety) hp hisl c (by omega)] at hadr'
    rw [catCount_eq_cnt hp hisl c hcn 0 (by omega), Nat.add_zero] at hne'
    rw [catCount_eq_cnt hp hisl c hcn 1 (by omega)] at hnf'
    have hnefc := islandCount_eq_cnt3 (ety := ety) hp hisl c hcn
    have h1 := slot_lower (l := order) (efcKey nisland eisl ety) e
    have h2 := slot_upper (efcKey nisland eisl ety) ht
    rw [hkey] at h1 h2
    have p1 : psumN (cnt (efcKey nisland eisl ety) order) (3 * c + 1)
        = psumN (cnt (efcKey nisland eisl ety) order) (3 * c) + cnt (efcKey nisland eisl ety) order (3 * c) := rfl
    have p2 : psumN (cnt (efcKey nisland eisl ety) order) (3 * c + 2)
        = psumN (cnt (efcKey nisland eisl ety) order) (3 * c) + cnt (efcKey nisland eisl ety) order (3 * c)
          + cnt (efcKey nisland eisl ety) order (3 * c + 1) := rfl
    intro a ne' nf'
    have ha : a = psumN (cnt (efcKey nisland eisl ety) order) (3 * c) := by rw [← hadr', ← hc]
    have hne'' : ne' = cnt (efcKey nisland eisl ety) order (3 * c) := by rw [← hne', ← hc]
    have hnf'' : nf' = cnt (efcKey nisland eisl ety) order (3 * c + 1) := by rw [← hnf', ← hc]
    rw [he2i e he h0, ha, hne'', hnf'', hc, hnefc]
    refine ⟨fun hj => ?_, fun hj => ?_, fun hj => ?_⟩
    · rw [hj] at h1 h2; simp only [Nat.add_zero] at h1 h2
      exact ⟨by exact_mod_cast h1, by exact_mod_cast h2⟩
    · rw [hj, p1] at h1 h2
      exact ⟨by exact_mod_cast h1, by exact_mod_cast h2⟩
    · rw [hj, p2] at h1 h2
      refine ⟨by exact_mod_cast h1, ?_⟩
      push_cast at h2 ⊢; omega
  · intro c hc
    rw [hm, mapEfcs_islandNefc _ _ _ _ _ c hc, cntI_perm hp]; rfl
  · intro e he hneg
    rw [hm, mapEfcs_efc2iefc_frame]
    intro a _ ha0 e'
    have : a = e := by exact_mod_cast e'
    subst this; omega
  · intro x hx
    have hne : ∀ t ∈ order, eisl t ≥ 0 → eslot (efcKey nisland eisl ety) eisl ety adr ne nf s0 order t ≠ x := by
      intro t ht h0 e
      rw [hes ht h0] at e
      have h1 := slot_lt_of_key_lt (efcKey nisland eisl ety) ht (hkeylt t ((hmem t).mp ht) h0)
      rw [htot] at hx
      omega
    exact ⟨by rw [hm, mapEfcs_iefc2efc_frame adr ne nf order _ hnd hk x hne],
      by rw [hm, mapEfcs_iefcIsland_frame adr ne nf order _ hnd hk x hne]⟩

/-! ## I. integer-memory semantics: a task's write list acts on memory like the model's task function -/

section mem
variable {K : Type}

theorem IMem.set_apply (m : IMem) (arr : String) (idx : List Int) (v : Int) (a : String) (i : List Int) :
    (m.set arr idx v) a i = if a = arr ∧ i = idx then v else m a i := by
  unfold IMem.set
  split <;> rfl   -- deliberately not a `rfl`-lemma: as a dsimp lemma it makes `simp` whnf string comparisons
theorem applyWrites_cons (m : IMem) (x : Write K) (l : List (Write K)) :
    applyWrites m (x :: l) = applyWrites (applyWrite m x) l := rfl
theorem applyWrites_nil (m : IMem) : applyWrites m ([] : List (Write K)) = m := rfl
theorem applyWrite_set (m : IMem) (a : String) (i : List Int) (v : Int) :
    applyWrite m (Write.mk a i (WVal.i v) WKind.set : Write K) = m.set a i v := rfl
theorem applyWrite_alloc (m : IMem) (a : String) (i : List Int) (v : Int) :
    applyWrite m (Write.mk a i (WVal.i v) WKind.alloc : Write K) = m.set a i (m a i + v) := rfl
theorem applyWrite_aadd (m : IMem) (a : String) (i : List Int) (v : Int) :
    applyWrite m (Write.mk a i (WVal.i v) WKind.aadd : Write K) = m.set a i (m a i + v) := rfl
theorem applyWrite_amin (m : IMem) (a : String) (i : List Int) (v : Int) :
    applyWrite m (Write.mk a i (WVal.i v) WKind.amin : Write K) = m.set a i (min (m a i) v) := rfl

/-- world `w`'s cells touched by `_island_map_dofs`, read from memory (kernel parameter names) -/
def dofView (w : Int) (m : IMem) : DofMem :=
  { islandNv := fun c => m "island_nv_inout" [w, c],
    uncnt := m "unconstrained_cnt_inout" [w, 0],
    dofadr := fun c => m "island_dofadr_out" [w, c],
    dof2idof := fun d => m "map_dof2idof_out" [w, d],
    idof2dof := fun i => m "map_idof2dof_out" [w, i],
    idofIsland := fun i => m "idof_islandid_out" [w, i] }

theorem dofView_mapDofWrites (w d isl adr nidof a0 a1 : Int) (m : IMem) :
    dofView w (applyWrites m (mapDofWrites (K := K) w d isl adr nidof a0 a1))
      = mapDofTask isl adr nidof a0 a1 d (dofView w m) := by
  unfold mapDofWrites mapDofTask
  by_cases h : isl ≥ 0
  · rw [if_pos h, if_pos h]
    simp only [applyWrites_cons, applyWrites_nil, applyWrite_set, applyWrite_alloc, applyWrite_amin, dofView,
      DofMem.mk.injEq]
    refine ⟨?_, ?_, ?_, ?_, ?_, ?_⟩ <;> (try funext x) <;> simp [IMem.set_apply, upd]
  · rw [if_neg h, if_neg h]
    simp only [applyWrites_cons, applyWrites_nil, applyWrite_set, applyWrite_alloc, dofView,
      DofMem.mk.injEq]
    refine ⟨?_, ?_, ?_, ?_, ?_, ?_⟩ <;> (try funext x) <;> simp [IMem.set_apply, upd]

/-- tasks of another world do not touch world `w`'s cells -/
theorem dofView_mapDofWrites_other (w w' d isl adr nidof a0 a1 : Int) (m : IMem) (hw : w' ≠ w) :
    dofView w (applyWrites m (mapDofWrites (K := K) w' d isl adr nidof a0 a1)) = dofView w m := by
  have hw' : w ≠ w' := fun e => hw e.symm
  unfold mapDofWrites
  by_cases h : isl ≥ 0
  · rw [if_pos h]
    simp only [applyWrites_cons, applyWrites_nil, applyWrite_set, applyWrite_alloc, applyWrite_amin, dofView,
      DofMem.mk.injEq]
    refine ⟨?_, ?_, ?_, ?_, ?_, ?_⟩ <;> (try funext x) <;> simp [IMem.set_apply, hw']
  · rw [if_neg h]
    simp only [applyWrites_cons, applyWrites_nil, applyWrite_set, applyWrite_alloc, dofView,
      DofMem.mk.injEq]
    refine ⟨?_, ?_, ?_, ?_, ?_, ?_⟩ <;> (try funext x) <;> simp [IMem.set_apply, hw']


/-- applying a write list to memory and reading a cell = `Write.lookupI` from the cell's old content -/
theorem applyWrites_eq_lookupI (ws : List (Write K)) (m : IMem) (a : String) (i : List Int) :
    applyWrites m ws a i = Write.lookupI ws a i (m a i) := by
  induction ws generalizing m with
  | nil => rfl
  | cons x ws ih =>
    rw [applyWrites_cons, ih]
    unfold Write.lookupI
    rw [List.foldl_cons]
    congr 1
    obtain ⟨xa, xi, xv, xk⟩ := x
    by_cases h : (xa == a && xi == i) = true
    · have h' : a = xa ∧ i = xi := by
        simp only [Bool.and_eq_true, beq_iff_eq] at h; exact ⟨h.1.symm, h.2.symm⟩
      obtain ⟨rfl, rfl⟩ := h'
      cases xv <;> cases xk <;> simp [applyWrite, IMem.set_apply]
    · have h' : ¬ (a = xa ∧ i = xi) := by
        simp only [Bool.and_eq_true, beq_iff_eq] at h; exact fun hh => h ⟨hh.1.symm, hh.2.symm⟩
      simp only [h]
      cases xv <;> cases xk <;> simp [applyWrite, IMem.set_apply, h']

/-- world `w`'s cells touched by `_island_map_constraints` -/
def efcView (w : Int) (m : IMem) : EfcMem :=
  { neMapped := fun c => m "island_ne_mapped_inout" [w, c],
    nfMapped := fun c => m "island_nf_mapped_inout" [w, c],
    notherMapped := fun c => m "island_nother_mapped_inout" [w, c],
    islandNefc := fun c => m "island_nefc_inout" [w, c],
    efc2iefc := fun e => m "map_efc2iefc_out" [w, e],
    iefc2efc := fun i => m "map_iefc2efc_out" [w, i],
    iefcIsland := fun i => m "iefc_islandid_out" [w, i] }

theorem efcView_mapEfcWrites (w e isl ty adr ne nf a0 a1 a2 : Int) (m : IMem) :
    efcView w (applyWrites m (mapEfcWrites (K := K) w e true isl ty adr ne nf a0 a1 a2))
      = mapEfcTask isl ty adr ne nf a0 a1 a2 e (efcView w m) := by
  unfold mapEfcWrites mapEfcTask
  by_cases h : isl ≥ 0
  · rcases cat_cases ty with h0 | h0 | h0
    all_goals
      simp only [Bool.not_true, Bool.false_eq_true, if_false, h, if_true, h0]
      simp only [applyWrites_cons, applyWrites_nil, applyWrite_set, applyWrite_alloc, applyWrite_aadd, efcView,
        EfcMem.mk.injEq]
      refine ⟨?_, ?_, ?_, ?_, ?_, ?_, ?_⟩ <;> (try funext x) <;> simp [IMem.set_apply, upd]
  · simp [h, applyWrites_nil]

theorem mapEfcWrites_inactive (w e isl ty adr ne nf a0 a1 a2 : Int) :
    mapEfcWrites (K := K) w e false isl ty adr ne nf a0 a1 a2 = [] := by
  simp [mapEfcWrites]

/-- the three counters of `_island_count_constraints` and the `efc_island` row -/
def cntView (w : Int) (m : IMem) : EfcCounts :=
  { nefc := fun c => m "island_nefc_out" [w, c],
    ne := fun c => m "island_ne_out" [w, c],
    nf := fun c => m "island_nf_out" [w, c] }

theorem cntView_countEfcWrites (w e efcTree : Int) (treeIsland : Int → Int) (ty : Int) (m : IMem) :
    cntView w (applyWrites m (countEfcWrites (K := K) w e true efcTree treeIsland ty))
      = countEfcTask (efcIsland efcTree treeIsland) ty (cntView w m) := by
  unfold countEfcWrites countEfcTask efcIsland
  by_cases ht : efcTree < 0
  · simp only [Bool.not_true, Bool.false_eq_true, if_false, ht, if_true]
    have : ¬ ((-1 : Int) ≥ 0) := by omega
    rw [if_neg this]
    simp only [applyWrites_cons, applyWrites_nil, applyWrite_set, cntView, EfcCounts.mk.injEq]
    refine ⟨?_, ?_, ?_⟩ <;> funext x <;> simp [IMem.set_apply]
  · simp only [Bool.not_true, Bool.false_eq_true, if_false, ht]
    by_cases h : treeIsland efcTree ≥ 0
    · rcases cat_cases ty with h0 | h0 | h0
      all_goals
        simp only [h, if_true, h0, List.cons_append, List.nil_append, List.append_nil,
          (by decide : ¬ (1 : Nat) = 0), (by decide : ¬ (2 : Nat) = 0), (by decide : ¬ (2 : Nat) = 1), if_false]
        simp only [applyWrites_cons, applyWrites_nil, applyWrite_set, applyWrite_aadd, cntView, EfcCounts.mk.injEq]
        refine ⟨?_, ?_, ?_⟩ <;> funext x <;> simp [IMem.set_apply, upd]
    · simp only [h, if_false, List.append_nil]
      simp only [applyWrites_cons, applyWrites_nil, applyWrite_set, cntView, EfcCounts.mk.injEq]
      refine ⟨?_, ?_, ?_⟩ <;> funext x <;> simp [IMem.set_apply]

/-- the `efc_island` cell written by an active `_island_count_constraints` task -/
theorem countEfcWrites_efc_island (w e efcTree : Int) (treeIsland : Int → Int) (ty : Int) (m : IMem) (x : Int) :
    applyWrites m (countEfcWrites (K := K) w e true efcTree treeIsland ty) "efc_island_out" [w, x]
      = if x = e then efcIsland efcTree treeIsland else m "efc_island_out" [w, x] := by
  unfold countEfcWrites efcIsland
  by_cases ht : efcTree < 0
  · simp only [Bool.not_true, Bool.false_eq_true, if_false, ht, if_true]
    simp only [applyWrites_cons, applyWrites_nil, applyWrite_set]
    simp [IMem.set_apply]
  · simp only [Bool.not_true, Bool.false_eq_true, if_false, ht]
    by_cases h : treeIsland efcTree ≥ 0
    · rcases cat_cases ty with h0 | h0 | h0
      all_goals
        simp only [h, if_true, h0, List.cons_append, List.nil_append, List.append_nil,
          (by decide : ¬ (1 : Nat) = 0), (by decide : ¬ (2 : Nat) = 0), (by decide : ¬ (2 : Nat) = 1), if_false]
        simp only [applyWrites_cons, applyWrites_nil, applyWrite_set, applyWrite_aadd]
        simp [IMem.set_apply]
    · simp only [h, if_false, List.append_nil]
      simp only [applyWrites_cons, applyWrites_nil, applyWrite_set]
      simp [IMem.set_apply]

/-- memory effect of one `_island_count_dofs` task -/
theorem countDofWrites_effect (w d isl : Int) (m : IMem) (x : Int) :
    applyWrites m (countDofWrites (K := K) w d isl) "island_nv_out" [w, x]
        = (if isl ≥ 0 then upd (fun c => m "island_nv_out" [w, c]) isl (m "island_nv_out" [w, isl] + 1)
           else fun c => m "island_nv_out" [w, c]) x
      ∧ applyWrites m (countDofWrites (K := K) w d isl) "dof_island_out" [w, x]
        = if x = d then isl else m "dof_island_out" [w, x] := by
  unfold countDofWrites
  by_cases h : isl ≥ 0
  · simp only [h, if_true, List.cons_append, List.nil_append]
    simp only [applyWrites_cons, applyWrites_nil, applyWrite_set, applyWrite_aadd]
    constructor <;> simp [IMem.set_apply, upd]
  · simp only [h, if_false, List.append_nil]
    simp only [applyWrites_cons, applyWrites_nil, applyWrite_set]
    constructor <;> simp [IMem.set_apply]

end mem

/-! ## J. launches of the GENERATED kernels on an integer memory (definitions; theorems in `Props/C28Maps.lean`) -/

/-- One world's launch of the GENERATED `_island_map_dofs` on an integer memory (kernel parameter names):
    tasks `(w, d)` for `d` in `order`, one after another; array parameters = pre-launch contents `m0`;
    `alloc0` / `alloc1` = CURRENT content of the counter cell the task's `atomic_add` hits. -/
def launchMapDofs (K : Type) [Scalar K] (nv w : Int) (order : List Nat) (m0 : IMem) : IMem :=
  let arr (name : String) : Int → Int → Int := fun a b => m0 name [a, b]
  order.foldl (fun m (d : Nat) => applyWrites m
    (Gen.Island._island_map_dofs (K := K) nv (arr "dof_island_in") (arr "island_idofadr_in") (fun a => m0 "nidof_in" [a])
      (arr "island_nv_inout") (arr "island_dofadr_out") (arr "map_dof2idof_out") (arr "map_idof2dof_out")
      (arr "idof_islandid_out") (arr "unconstrained_cnt_inout")
      (m "island_nv_inout" [w, m0 "dof_island_in" [w, d]]) (m "unconstrained_cnt_inout" [w, 0]) w d)) m0

/-- One world's launch of the GENERATED `_island_map_constraints`: tasks `(w, e)` for `e` in `order`. -/
def launchMapEfcs (K : Type) [Scalar K] (njmax w : Int) (order : List Nat) (m0 : IMem) : IMem :=
  let arr (name : String) : Int → Int → Int := fun a b => m0 name [a, b]
  order.foldl (fun m (e : Nat) => applyWrites m
    (Gen.Island._island_map_constraints (K := K) (fun a => m0 "nefc_in" [a]) njmax (arr "efc_island_in")
      (arr "island_iefcadr_in") (arr "island_ne_in") (arr "island_nf_in") (arr "efc_type_in")
      (arr "island_ne_mapped_inout") (arr "island_nf_mapped_inout") (arr "island_nother_mapped_inout")
      (arr "island_nefc_inout") (arr "map_efc2iefc_out") (arr "map_iefc2efc_out") (arr "iefc_islandid_out")
      (m "island_ne_mapped_inout" [w, m0 "efc_island_in" [w, e]])
      (m "island_nf_mapped_inout" [w, m0 "efc_island_in" [w, e]])
      (m "island_nother_mapped_inout" [w, m0 "efc_island_in" [w, e]]) w e)) m0

/-- One world's launch of the GENERATED `_island_count_dofs`. -/
def launchCountDofs (K : Type) [Scalar K] (w : Int) (order : List Nat) (m0 : IMem) : IMem :=
  let arr (name : String) : Int → Int → Int := fun a b => m0 name [a, b]
  order.foldl (fun m (d : Nat) => applyWrites m
    (Gen.Island._island_count_dofs (K := K) (fun a => m0 "dof_treeid" [a]) (arr "tree_island_in")
      (arr "dof_island_out") (arr "island_nv_out") w d)) m0

/-- One world's launch of the GENERATED `_island_count_constraints`. -/
def launchCountEfcs (K : Type) [Scalar K] (njmax w : Int) (order : List Nat) (m0 : IMem) : IMem :=
  let arr (name : String) : Int → Int → Int := fun a b => m0 name [a, b]
  order.foldl (fun m (e : Nat) => applyWrites m
    (Gen.Island._island_count_constraints (K := K) (fun a => m0 "nefc_in" [a]) njmax (arr "efc_tree_in")
      (arr "tree_island_in") (arr "efc_type_in") (arr "efc_island_out") (arr "island_nefc_out") (arr "island_ne_out")
      (arr "island_nf_out") w e)) m0

end Mjw.Lemmas.C28Maps
