/-
  C05 helper lemmas: `_efc_contact_init__kernel` (row addresses of contacts).
-/
import MjwVerif.Lemmas.C05
set_option linter.unusedSimpArgs false
set_option linter.unusedVariables false
set_option linter.unusedTactic false
set_option linter.unreachableTactic false
set_option linter.unnecessarySeqFocus false
namespace Mjw.Lemmas.C05
open Mjw Mjw.Lemmas.C16

/-- rows per contact: elliptic `condim`; pyramidal `1` if `condim = 1` else `2·(condim − 1)` -/
def ndimOf (elliptic : Bool) (condim : Int) : Int :=
  if elliptic then condim else if condim = 1 then 1 else 2 * (condim - 1)

section contact_init
variable {K : Type} [Scalar K] (body_weldid : (Int → Int)) (body_dofnum : (Int → Int)) (body_dofadr : (Int → Int)) (dof_parentid : (Int → Int)) (geom_bodyid : (Int → Int)) (njmax_in : Int) (njmax_nnz_in : Int) (nacon_in : (Int → Int)) (dist_in : (Int → K)) (condim_in : (Int → Int)) (includemargin_in : (Int → K)) (adhesion_in : (Int → K)) (worldid_in : (Int → Int)) (geom_in : (Int → I2)) (type_in : (Int → Int)) (nefc_out : (Int → Int)) (contact_efc_address_out : (Int → Int → Int)) (efc_id_out : (Int → Int → Int)) (efc_jtdaj_adr_out : (Int → Int → Int)) (efc_jtdaj_nrow_out : (Int → Int → Int)) (efc_jtdaj_nblock_out : (Int → Int)) (efc_J_rownnz_out : (Int → Int → Int)) (efc_J_rowadr_out : (Int → Int → Int)) (efc_nnz_out : (Int → Int)) (st_flg_adhesion : Bool) (st_IS_ELLIPTIC : Bool) (alloc0 : Int) (st_is_sparse_and_newton : Bool) (alloc1 : Int) (st_IS_SPARSE : Bool) (alloc2 : Int) (fuel : Nat) (tid0 : Int)
local notation "KW" => Gen.Constraint._efc_contact_init__kernel body_weldid body_dofnum body_dofadr dof_parentid geom_bodyid njmax_in njmax_nnz_in nacon_in dist_in condim_in includemargin_in adhesion_in worldid_in geom_in type_in nefc_out contact_efc_address_out efc_id_out efc_jtdaj_adr_out efc_jtdaj_nrow_out efc_jtdaj_nblock_out efc_J_rownnz_out efc_J_rowadr_out efc_nnz_out st_flg_adhesion st_IS_ELLIPTIC alloc0 st_is_sparse_and_newton alloc1 st_IS_SPARSE alloc2 fuel tid0


set_option maxHeartbeats 1600000 in
theorem contact_init_ndim (idx : List Int) (n : Int) (h : allocReq KW "nefc_out" idx n) :
    idx = [worldid_in tid0] ∧ n = ndimOf st_IS_ELLIPTIC (condim_in tid0) := by
  revert h
  unfold Gen.Constraint._efc_contact_init__kernel ndimOf
  csimp [ite_append_nil]
  intros
  subst_vars
  simp_all

set_option maxHeartbeats 1600000 in
/-- counters: the thread adds `ndim` to `nefc_out[worldid]` iff it performs the allocating atomic, nothing to any
    other cell of `nefc_out`, nothing to `ne/nf/nl` (contacts have no class counter), atomic adds only -/
theorem contact_init_counts :
    (reached KW "nefc_out" [worldid_in tid0] →
        contrib "nefc_out" [worldid_in tid0] KW = ndimOf st_IS_ELLIPTIC (condim_in tid0))
    ∧ (¬ reached KW "nefc_out" [worldid_in tid0] → contrib "nefc_out" [worldid_in tid0] KW = 0)
    ∧ (∀ idx, idx ≠ [worldid_in tid0] → contrib "nefc_out" idx KW = 0)
    ∧ (∀ c, c ∈ ["ne_out", "nf_out", "nl_out"] → ∀ idx, contrib c idx KW = 0)
    ∧ AllW (fun w => w.arr ∈ counters → (w.kind = WKind.aadd ∨ w.kind = WKind.alloc)) KW := by
  unfold Gen.Constraint._efc_contact_init__kernel ndimOf
  refine ⟨?_, ?_, ?_, ?_, ?_⟩
  · csimp [ite_append_nil] <;> (intros; split_ifs <;> first | rfl | omega | (simp_all; done) | (simp_all; omega))
  · csimp [ite_append_nil] <;> (intros; split_ifs <;> first | rfl | omega | (simp_all; done) | (simp_all; omega))
  · intro idx hidx; csimp [ite_append_nil, Ne.symm hidx]
  · intro c hc idx
    simp only [List.mem_cons, List.mem_nil_iff, or_false] at hc
    rcases hc with rfl | rfl | rfl <;> csimp [ite_append_nil]
  · csimp [counters, ite_append_nil]

set_option maxHeartbeats 1600000 in
/-- every `contact.efc_address[·]` cell the thread writes is `[conid, d]` with `0 ≤ d < ndim`, and holds
    `alloc0 + d` if that row fits (`alloc0 + d < njmax`), `-1` otherwise -/
theorem contact_init_address :
    AllW (fun w => w.arr = "contact_efc_address_out" →
      ∃ d, 0 ≤ d ∧ d < ndimOf st_IS_ELLIPTIC (condim_in tid0) ∧ w.idx = [tid0, d] ∧ w.kind = WKind.set
        ∧ ((alloc0 + d < njmax_in ∧ w.val = WVal.i (alloc0 + d)) ∨ (njmax_in ≤ alloc0 + d ∧ w.val = WVal.i (-1)))) KW := by
  unfold Gen.Constraint._efc_contact_init__kernel ndimOf
  csimp [ite_append_nil]
  intros
  subst_vars
  simp_all

set_option maxHeartbeats 1600000 in
/-- conversely, a thread that allocates writes, for EVERY `0 ≤ d < ndim`: if row `alloc0 + d` fits, the address
    `alloc0 + d` into `contact.efc_address[conid, d]` AND `efc_id[worldid, alloc0 + d] := conid`; otherwise the
    address `-1` -/
theorem contact_init_address_row (hr : reached KW "nefc_out" [worldid_in tid0]) (d : Int) (h0 : 0 ≤ d)
    (h1 : d < ndimOf st_IS_ELLIPTIC (condim_in tid0)) :
    (alloc0 + d < njmax_in →
        setsI KW "contact_efc_address_out" [tid0, d] (alloc0 + d)
        ∧ setsI KW "efc_id_out" [worldid_in tid0, alloc0 + d] tid0)
    ∧ (njmax_in ≤ alloc0 + d → setsI KW "contact_efc_address_out" [tid0, d] (-1)) := by
  revert hr h1
  unfold Gen.Constraint._efc_contact_init__kernel ndimOf
  csimp [ite_append_nil]
  intro c1 c2 c3 h1
  refine ⟨fun hfit => ⟨?_, ?_⟩, fun hno => ?_⟩
  · exact ⟨c1, c2, c3, d, h0, h1, by simp [not_le.mpr hfit]⟩
  · exact ⟨c1, c2, c3, h0, h1, hfit⟩
  · exact ⟨c1, c2, c3, d, h0, h1, by simp [hno]⟩

set_option maxHeartbeats 1600000 in
/-- a thread that performs the allocating atomic asks for exactly `ndim` rows -/
theorem contact_init_allocReq (h : reached KW "nefc_out" [worldid_in tid0]) :
    allocReq KW "nefc_out" [worldid_in tid0] (ndimOf st_IS_ELLIPTIC (condim_in tid0)) := by
  revert h
  unfold Gen.Constraint._efc_contact_init__kernel ndimOf
  csimp [ite_append_nil]

set_option maxHeartbeats 1600000 in
/-- addresses are written only by a thread that allocated -/
theorem contact_init_address_reached (h : AnyW (fun w => w.arr = "contact_efc_address_out") KW) :
    reached KW "nefc_out" [worldid_in tid0] := by
  revert h
  unfold Gen.Constraint._efc_contact_init__kernel
  csimp [ite_append_nil]
  intros
  simp_all

set_option maxHeartbeats 1600000 in
/-- every `efc_id` cell the thread writes holds its contact id -/
theorem contact_init_id_value : AllW (fun w => w.arr = "efc_id_out" → w.val = WVal.i tid0) KW := by
  unfold Gen.Constraint._efc_contact_init__kernel
  csimp [ite_append_nil]
end contact_init
end Mjw.Lemmas.C05
