/-
  Abstract lemma behind `com_pos` (property C01, item 5) — and behind every other "accumulate children into
  parents, level by level, with atomic adds" host loop (`_crb_accumulate`, `_cfrc_backward`, …):

  In a commutative semigroup, accumulating `c[parent i] += c[i]` level by level, deepest level first, the tasks of
  one level in ANY order and each reading the value its body had when the launch started, gives the same array as
  MuJoCo's sequential backward loop `for i = n-1 … 1: c[parent i] += c[i]`.    Core Lean only.
-/
set_option linter.unusedSimpArgs false
namespace Mjw.Lemmas.C01Tree

variable {M : Type} (op : M → M → M)

/-- `c[p i] += c[i]` (reads the CURRENT value of `c[i]`) -/
def push (p : Nat → Nat) (c : Nat → M) (i : Nat) : Nat → M :=
  fun k => if k = p i then op (c k) (c i) else c k

/-- MuJoCo's loop `for i = n-1 … 1: c[p i] += c[i]` -/
def seqAcc (p : Nat → Nat) : Nat → (Nat → M) → (Nat → M)
  | 0, c => c
  | 1, c => c
  | n + 2, c => seqAcc p (n + 1) (push op p c (n + 1))

/-- one task of a `_subtree_com_acc`-style launch: body `i` (skipped if it is the world) atomically adds the value
    `pre i` it READ FROM THE PRE-LAUNCH ARRAY to its parent's cell -/
def pushSnap (p : Nat → Nat) (pre : Nat → M) (c : Nat → M) (i : Nat) : Nat → M :=
  if i = 0 then c else fun k => if k = p i then op (c k) (pre i) else c k

/-- one launch over the bodies `l` of a level, tasks executed in the order of `l` -/
def launch (p : Nat → Nat) (l : List Nat) (c : Nat → M) : Nat → M := l.foldl (pushSnap op p c) c

/-- the host loop: one launch per level, in the order of `levels` -/
def levelAcc (p : Nat → Nat) (levels : List (List Nat)) (c : Nat → M) : Nat → M :=
  levels.foldl (fun c l => launch op p l c) c

variable {op}
variable (hc : ∀ a b, op a b = op b a) (ha : ∀ a b c, op (op a b) c = op a (op b c))

include hc ha in
/-- two pushes commute unless one body is the other's parent -/
theorem push_comm (p : Nat → Nat) (c : Nat → M) (a m : Nat) (h1 : p a ≠ m) (h2 : p m ≠ a) :
    push op p (push op p c m) a = push op p (push op p c a) m := by
  have hA : push op p c m a = c a := by
    simp only [push]; rw [if_neg (fun h => h2 h.symm)]
  have hM : push op p c a m = c m := by
    simp only [push]; rw [if_neg (fun h => h1 h.symm)]
  funext k
  show (if k = p a then op (push op p c m k) (push op p c m a) else push op p c m k)
     = (if k = p m then op (push op p c a k) (push op p c a m) else push op p c a k)
  rw [hA, hM]
  simp only [push]
  by_cases hka : k = p a <;> by_cases hkm : k = p m
  · rw [if_pos hka, if_pos hkm, if_pos hkm, if_pos hka, ha, ha, hc (c m) (c a)]
  · rw [if_pos hka, if_neg hkm, if_neg hkm, if_pos hka]
  · rw [if_neg hka, if_pos hkm, if_pos hkm, if_neg hka]
  · rw [if_neg hka, if_neg hkm, if_neg hkm, if_neg hka]

include hc ha in
theorem fold_push_comm (p : Nat → Nat) (A : List Nat) (m : Nat) (h : ∀ a ∈ A, p a ≠ m ∧ p m ≠ a) (c : Nat → M) :
    push op p (A.foldl (push op p) c) m = A.foldl (push op p) (push op p c m) := by
  induction A generalizing c with
  | nil => rfl
  | cons a A ih =>
    simp only [List.foldl_cons]
    rw [ih (fun x hx => h x (List.mem_cons_of_mem _ hx)), push_comm hc ha p c a m (h a List.mem_cons_self).1
      (h a List.mem_cons_self).2]

include hc ha in
/-- **any children-first order gives the sequential result**: `ord` enumerates the bodies `1 … n-1` once each and
    no body comes before one of its children -/
theorem fold_push_eq_seq (p : Nat → Nat) (n : Nat) (hT : ∀ i, 0 < i → i < n → p i < i) (ord : List Nat)
    (hnd : ord.Nodup) (hmem : ∀ i, i ∈ ord ↔ 0 < i ∧ i < n) (hcf : ord.Pairwise (fun x y => p y ≠ x))
    (c : Nat → M) : ord.foldl (push op p) c = seqAcc op p n c := by
  induction n generalizing ord c with
  | zero =>
    have : ord = [] := List.eq_nil_iff_forall_not_mem.mpr (fun i hi => by have := (hmem i).mp hi; omega)
    subst this; rfl
  | succ m ih =>
    cases m with
    | zero =>
      have : ord = [] := List.eq_nil_iff_forall_not_mem.mpr (fun i hi => by have := (hmem i).mp hi; omega)
      subst this; rfl
    | succ m =>
      -- the last body `m+1` is a leaf; move its push to the front
      have hin : m + 1 ∈ ord := (hmem (m + 1)).mpr ⟨by omega, by omega⟩
      obtain ⟨A, B, rfl⟩ := List.append_of_mem hin
      have hndA := List.nodup_append.mp hnd
      have hcfA := List.pairwise_append.mp hcf
      have hAm : ∀ a ∈ A, p a ≠ m + 1 ∧ p (m + 1) ≠ a := by
        intro a haA
        have ha' := (hmem a).mp (List.mem_append_left _ haA)
        have hne : a ≠ m + 1 := hndA.2.2 a haA (m + 1) List.mem_cons_self
        have hlt := hT a ha'.1 ha'.2
        exact ⟨by omega, hcfA.2.2 a haA (m + 1) List.mem_cons_self⟩
      rw [List.foldl_append, List.foldl_cons, fold_push_comm hc ha p A (m + 1) hAm c, ← List.foldl_append]
      have hsub : (A ++ B).Sublist (A ++ (m + 1) :: B) :=
        List.Sublist.append_left (List.sublist_cons_self _ _) _
      show _ = seqAcc op p (m + 1) (push op p c (m + 1))
      apply ih (fun i h0 hi => hT i h0 (by omega)) (A ++ B) (List.Pairwise.sublist hsub hnd)
      · intro i
        constructor
        · intro hi
          have hi' : i ∈ A ++ (m + 1) :: B := hsub.subset hi
          have := (hmem i).mp hi'
          have hne : i ≠ m + 1 := by
            rcases List.mem_append.mp hi with h | h
            · exact hndA.2.2 i h (m + 1) List.mem_cons_self
            · intro he; subst he
              exact (List.nodup_cons.mp hndA.2.1).1 h
          omega
        · intro hi
          have := (hmem i).mpr ⟨hi.1, by omega⟩
          rcases List.mem_append.mp this with h | h
          · exact List.mem_append_left _ h
          · rcases List.mem_cons.mp h with h | h
            · omega
            · exact List.mem_append_right _ h
      · exact List.Pairwise.sublist hsub hcf

/-- within a launch whose bodies are not parents of one another, reading the pre-launch value is reading the
    current value -/
theorem launch_eq_fold_push (p : Nat → Nat) (l : List Nat) (pre c : Nat → M)
    (hind : ∀ i ∈ l, ∀ j ∈ l, j ≠ 0 → p j ≠ i) (hpre : ∀ i ∈ l, c i = pre i) :
    l.foldl (pushSnap op p pre) c = (l.filter (· ≠ 0)).foldl (push op p) c := by
  induction l generalizing c with
  | nil => rfl
  | cons j l ih =>
    simp only [List.foldl_cons]
    by_cases hj : j = 0
    · subst hj
      have : pushSnap op p pre c 0 = c := by simp [pushSnap]
      rw [this]
      simp only [List.filter_cons, ne_eq, not_true_eq_false, decide_false, Bool.false_eq_true, if_false]
      exact ih c (fun i hi k hk => hind i (List.mem_cons_of_mem _ hi) k (List.mem_cons_of_mem _ hk))
        (fun i hi => hpre i (List.mem_cons_of_mem _ hi))
    · have hs : pushSnap op p pre c j = push op p c j := by
        funext k
        simp only [pushSnap, push, hj, if_false, hpre j List.mem_cons_self]
      rw [hs]
      have hf : (j :: l).filter (· ≠ 0) = j :: l.filter (· ≠ 0) := by simp [List.filter_cons, hj]
      rw [hf, List.foldl_cons]
      apply ih
      · exact fun i hi k hk => hind i (List.mem_cons_of_mem _ hi) k (List.mem_cons_of_mem _ hk)
      · intro i hi
        have hne : p j ≠ i := hind i (List.mem_cons_of_mem _ hi) j List.mem_cons_self hj
        simp only [push]
        rw [if_neg (fun h => hne h.symm)]
        exact hpre i (List.mem_cons_of_mem _ hi)

/-- the host loop as one fold of pushes over the concatenated levels (world dropped) -/
theorem levelAcc_eq_fold_push (p : Nat → Nat) (levels : List (List Nat))
    (hind : ∀ l ∈ levels, ∀ i ∈ l, ∀ j ∈ l, j ≠ 0 → p j ≠ i) (c : Nat → M) :
    levelAcc op p levels c = (levels.flatten.filter (· ≠ 0)).foldl (push op p) c := by
  induction levels generalizing c with
  | nil => rfl
  | cons l ls ih =>
    simp only [levelAcc, List.foldl_cons, List.flatten_cons, List.filter_append, List.foldl_append]
    have h1 : launch op p l c = (l.filter (· ≠ 0)).foldl (push op p) c :=
      launch_eq_fold_push p l c c (hind l List.mem_cons_self) (fun _ _ => rfl)
    rw [h1]
    exact ih (fun l' hl' => hind l' (List.mem_cons_of_mem _ hl')) _

include hc ha in
/-- **level-by-level accumulation in any order within a level = the sequential backward accumulation.**
    `p` = parent (`p i < i` for `0 < i < n`), `d` = depth (`d i = d (p i) + 1`); `levels` lists every body `< n`
    exactly once, bodies of one inner list have the same depth (in any order), and depths do not increase along the
    launch order (deepest first). -/
theorem levelAcc_eq_seqAcc (p : Nat → Nat) (n : Nat) (hT : ∀ i, 0 < i → i < n → p i < i)
    (d : Nat → Nat) (hd : ∀ i, 0 < i → i < n → d i = d (p i) + 1)
    (levels : List (List Nat)) (hnd : levels.flatten.Nodup) (hmem : ∀ i, i ∈ levels.flatten ↔ i < n)
    (hsame : ∀ l ∈ levels, ∀ i ∈ l, ∀ j ∈ l, d i = d j)
    (hdeep : levels.flatten.Pairwise (fun x y => d y ≤ d x)) (c : Nat → M) :
    levelAcc op p levels c = seqAcc op p n c := by
  have hin : ∀ l ∈ levels, ∀ i ∈ l, i < n := fun l hl i hi =>
    (hmem i).mp (List.mem_flatten.mpr ⟨l, hl, hi⟩)
  rw [levelAcc_eq_fold_push p levels ?_ c]
  · apply fold_push_eq_seq hc ha p n hT
    · exact List.Pairwise.filter _ hnd
    · intro i
      simp only [List.mem_filter, hmem, ne_eq, decide_eq_true_eq]
      omega
    · refine List.Pairwise.imp_of_mem ?_ (List.Pairwise.filter _ hdeep)
      intro x y hx hy hxy hp
      have hy' := List.mem_filter.mp hy
      have hyn := (hmem y).mp hy'.1
      have hy0 : y ≠ 0 := by simpa using hy'.2
      have := hd y (by omega) hyn
      rw [hp] at this
      omega
  · intro l hl i hi j hj hj0 hp
    have := hd j (by omega) (hin l hl j hj)
    have hs := hsame l hl i hi j hj
    rw [hp] at this
    omega

end Mjw.Lemmas.C01Tree
