/-
  Helper lemmas for property C21: correctness of the level-parallel sparse LᵀDL elimination `LDL.factorAll`
  (model of smooth.py `_factor_i_sparse`) over ℝ, for every forest and every size.

  Invariant (`Inv`): after the levels `≥ s` have been processed, every stored entry `(r, c)` (c = r or c a proper
  ancestor of r) of the ORIGINAL matrix satisfies
      M r c = U r c + [s ≤ depth r] · Σ_{k below r} U k r · U k c / A k k
  where `U` ("undivided") is the current entry with the division by the pivot undone where it has already happened.
-/
import MjwVerif.Lemmas.C21

open Mjw Mjw.LDL Finset

set_option linter.unusedVariables false

namespace Mjw.Lemmas.C21

section factor
variable (n : ℕ) (depth : ℕ → ℕ) (anc : ℕ → ℕ → Bool)

/-- what the proofs need of the kinematic forest: a proper ancestor lies on a strictly lower level, and the ancestor
    relation is transitive (indices `< n`) -/
structure Forest : Prop where
  lt : ∀ i k, i < n → k < n → anc i k = true → depth i < depth k
  trans : ∀ i j k, i < n → j < n → k < n → anc i j = true → anc j k = true → anc i k = true

theorem factorLevel_eq (l : ℕ) (A : ℕ → ℕ → ℝ) (r c : ℕ) :
    factorLevel n depth anc l A r c =
      if anc c r = true ∧ depth c = l then A r c / A r r
      else if depth r = l ∧ (c = r ∨ anc c r = true) then
        A r c - ∑ k ∈ range n, (if anc r k = true then A k c * (A k r / A k k) else 0)
      else A r c := by
  simp only [factorLevel, sumTo_eq, hsub, hmul, hdiv, lit0, Bool.and_eq_true, Bool.or_eq_true, beq_iff_eq]

theorem lowerOf_eq (A : ℕ → ℕ → ℝ) (k i : ℕ) : lowerOf anc A k i = if anc i k = true then A k i else 0 := by
  simp only [lowerOf, lit0]

/-- the current entry with the pivot division undone (where it has happened: columns on levels `≥ s`) -/
noncomputable def undiv (s : ℕ) (A : ℕ → ℕ → ℝ) (r c : ℕ) : ℝ :=
  if anc c r = true ∧ s ≤ depth c then A r c * A r r else A r c

def Inv (M : ℕ → ℕ → ℝ) (s : ℕ) (A : ℕ → ℕ → ℝ) : Prop :=
  ∀ r c, r < n → c < n → (c = r ∨ anc c r = true) →
    M r c = undiv depth anc s A r c
      + (if s ≤ depth r then
           ∑ k ∈ range n, (if anc r k = true then undiv depth anc s A k r * undiv depth anc s A k c / A k k else 0)
         else 0)

variable {n depth anc}

theorem anc_irrefl (F : Forest n depth anc) (r : ℕ) (hr : r < n) : anc r r = false := by
  cases h : anc r r
  · rfl
  · exfalso; have := F.lt r r hr hr h; omega

theorem anc_asymm (F : Forest n depth anc) (r c : ℕ) (hr : r < n) (hc : c < n) (h : anc c r = true) : anc r c = false := by
  cases h' : anc r c
  · rfl
  · exfalso; have := F.lt r c hr hc h'; have := F.lt c r hc hr h; omega

/-- a level only touches the diagonal of rows on that level -/
theorem factorLevel_diag (F : Forest n depth anc) (l : ℕ) (A : ℕ → ℕ → ℝ) (r : ℕ) (hr : r < n) (hd : depth r ≠ l) :
    factorLevel n depth anc l A r r = A r r := by
  have h1 : ¬ (anc r r = true ∧ depth r = l) := fun h => hd h.2
  have h2 : ¬ (depth r = l ∧ (r = r ∨ anc r r = true)) := fun h => hd h.1
  rw [factorLevel_eq, if_neg h1, if_neg h2]

theorem factorAll_diag (F : Forest n depth anc) : ∀ (s : ℕ) (A : ℕ → ℕ → ℝ) (k : ℕ), k < n → s ≤ depth k →
    factorAll n depth anc s A k k = A k k := by
  intro s
  induction s with
  | zero => intro A k _ _; rfl
  | succ s ih =>
    intro A k hk hs
    show factorAll n depth anc s (factorLevel n depth anc s A) k k = A k k
    rw [ih _ k hk (by omega), factorLevel_diag F s A k hk (by omega)]

/-- entries of rows NOT on level `s`: the undivided value is unchanged by level `s` -/
theorem undiv_step_other (F : Forest n depth anc) (s : ℕ) (A : ℕ → ℕ → ℝ) (r c : ℕ) (hr : r < n) (hc : c < n)
    (hrc : c = r ∨ anc c r = true) (hd : depth r ≠ s) (hp : s < depth r → A r r ≠ 0) :
    undiv depth anc s (factorLevel n depth anc s A) r c = undiv depth anc (s + 1) A r c := by
  unfold undiv
  rw [factorLevel_diag F s A r hr hd]
  rcases hrc with h | hanc
  · rw [h]
    have hi : anc r r = false := anc_irrefl F r hr
    have h1 : ¬ (anc r r = true ∧ s ≤ depth r) := by rw [hi]; simp
    have h2 : ¬ (anc r r = true ∧ s + 1 ≤ depth r) := by rw [hi]; simp
    rw [if_neg h1, if_neg h2]
    exact factorLevel_diag F s A r hr hd
  · have hlt := F.lt c r hc hr hanc
    by_cases hcs : depth c = s
    · have e : factorLevel n depth anc s A r c = A r c / A r r := by
        rw [factorLevel_eq, if_pos ⟨hanc, hcs⟩]
      have h1 : anc c r = true ∧ s ≤ depth c := ⟨hanc, by omega⟩
      have h2 : ¬ (anc c r = true ∧ s + 1 ≤ depth c) := by rintro ⟨_, h⟩; omega
      rw [e, if_pos h1, if_neg h2]
      have := hp (by omega)
      field_simp
    · have e : factorLevel n depth anc s A r c = A r c := by
        have g1 : ¬ (anc c r = true ∧ depth c = s) := fun h => hcs h.2
        have g2 : ¬ (depth r = s ∧ (c = r ∨ anc c r = true)) := fun h => hd h.1
        rw [factorLevel_eq, if_neg g1, if_neg g2]
      rw [e]
      by_cases h1 : s ≤ depth c
      · have h2 : anc c r = true ∧ s + 1 ≤ depth c := ⟨hanc, by omega⟩
        rw [if_pos ⟨hanc, h1⟩, if_pos h2]
      · have h2 : ¬ (anc c r = true ∧ s + 1 ≤ depth c) := by rintro ⟨_, h⟩; omega
        have h3 : ¬ (anc c r = true ∧ s ≤ depth c) := fun h => h1 h.2
        rw [if_neg h3, if_neg h2]

/-- entries of the rows ON level `s`: they receive the contributions of all dofs below -/
theorem undiv_step_row (F : Forest n depth anc) (s : ℕ) (A : ℕ → ℕ → ℝ) (r c : ℕ) (hr : r < n) (hc : c < n)
    (hrc : c = r ∨ anc c r = true) (hd : depth r = s) :
    undiv depth anc s (factorLevel n depth anc s A) r c
        = A r c - ∑ k ∈ range n, (if anc r k = true then A k c * (A k r / A k k) else 0)
      ∧ undiv depth anc (s + 1) A r c = A r c := by
  have hcl : anc c r = true → depth c < s := fun h => by have := F.lt c r hc hr h; omega
  have h1 : ¬ (anc c r = true ∧ s ≤ depth c) := by rintro ⟨h, h'⟩; have := hcl h; omega
  have h2 : ¬ (anc c r = true ∧ s + 1 ≤ depth c) := by rintro ⟨h, h'⟩; have := hcl h; omega
  have h3 : ¬ (anc c r = true ∧ depth c = s) := by rintro ⟨h, h'⟩; have := hcl h; omega
  unfold undiv
  rw [if_neg h1, if_neg h2, factorLevel_eq, if_neg h3, if_pos ⟨hd, hrc⟩]
  exact ⟨rfl, rfl⟩

/-- one level preserves the invariant -/
theorem inv_step (F : Forest n depth anc) (M A : ℕ → ℕ → ℝ) (s : ℕ) (hI : Inv n depth anc M (s + 1) A)
    (hp : ∀ k, k < n → s < depth k → A k k ≠ 0) :
    Inv n depth anc M s (factorLevel n depth anc s A) := by
  intro r c hr hc hrc
  have hI' := hI r c hr hc hrc
  -- the rows below `r` (when `depth r ≥ s`) are not on level `s`
  have hbelow : s ≤ depth r → ∀ k, k < n → anc r k = true →
      undiv depth anc s (factorLevel n depth anc s A) k r = undiv depth anc (s + 1) A k r
      ∧ undiv depth anc s (factorLevel n depth anc s A) k c = undiv depth anc (s + 1) A k c
      ∧ factorLevel n depth anc s A k k = A k k := by
    intro hs k hk hak
    have hlt := F.lt r k hr hk hak
    have hck : c = k ∨ anc c k = true := by
      rcases hrc with h | h
      · right; rw [h]; exact hak
      · right; exact F.trans c r k hc hr hk h hak
    exact ⟨undiv_step_other F s A k r hk hr (Or.inr hak) (by omega) (fun _ => hp k hk (by omega)),
      undiv_step_other F s A k c hk hc hck (by omega) (fun _ => hp k hk (by omega)),
      factorLevel_diag F s A k hk (by omega)⟩
  rcases Nat.lt_trichotomy (depth r) s with hlt | heq | hgt
  · -- row not reached yet
    rw [if_neg (by omega)] at hI'
    rw [if_neg (by omega), undiv_step_other F s A r c hr hc hrc (by omega) (fun h => absurd h (by omega))]
    exact hI'
  · -- row on level s
    obtain ⟨e1, e2⟩ := undiv_step_row F s A r c hr hc hrc heq
    rw [if_neg (by omega), e2, add_zero] at hI'
    rw [if_pos (by omega), e1, hI']
    have : ∑ k ∈ range n, (if anc r k = true then
          undiv depth anc s (factorLevel n depth anc s A) k r * undiv depth anc s (factorLevel n depth anc s A) k c
            / factorLevel n depth anc s A k k else 0)
        = ∑ k ∈ range n, (if anc r k = true then A k c * (A k r / A k k) else 0) := by
      apply sum_congr rfl
      intro k hk
      rw [mem_range] at hk
      by_cases hak : anc r k = true
      · obtain ⟨g1, g2, g3⟩ := hbelow (by omega) k hk hak
        rw [if_pos hak, if_pos hak, g1, g2, g3]
        have u1 : undiv depth anc (s + 1) A k r = A k r := by
          unfold undiv; rw [if_neg (by rintro ⟨_, h⟩; omega)]
        have u2 : undiv depth anc (s + 1) A k c = A k c := by
          unfold undiv
          have : depth c ≤ s := by
            rcases hrc with h | h
            · rw [h]; omega
            · have := F.lt c r hc hr h; omega
          rw [if_neg (by rintro ⟨_, h⟩; omega)]
        rw [u1, u2]; ring
      · rw [if_neg hak, if_neg hak]
    rw [this]; ring
  · -- row already eliminated: only divisions happen
    rw [if_pos (by omega)] at hI'
    rw [if_pos (by omega), undiv_step_other F s A r c hr hc hrc (by omega) (fun _ => hp r hr hgt), hI']
    congr 1
    apply sum_congr rfl
    intro k hk
    rw [mem_range] at hk
    by_cases hak : anc r k = true
    · obtain ⟨g1, g2, g3⟩ := hbelow (by omega) k hk hak
      rw [if_pos hak, if_pos hak, g1, g2, g3]
    · rw [if_neg hak, if_neg hak]

theorem factor_inv (F : Forest n depth anc) (M : ℕ → ℕ → ℝ) : ∀ (s : ℕ) (A : ℕ → ℕ → ℝ), Inv n depth anc M s A →
    (∀ k, k < n → factorAll n depth anc s A k k ≠ 0) → Inv n depth anc M 0 (factorAll n depth anc s A) := by
  intro s
  induction s with
  | zero => intro A h _; exact h
  | succ s ih =>
    intro A hI hp
    show Inv n depth anc M 0 (factorAll n depth anc s (factorLevel n depth anc s A))
    apply ih _ (inv_step F M A s hI ?_) hp
    intro k hk hs
    have := hp k hk
    rwa [factorAll_diag F (s + 1) A k hk (by omega)] at this

theorem inv_init (F : Forest n depth anc) (M : ℕ → ℕ → ℝ) (nl : ℕ) (hnl : ∀ i, i < n → depth i < nl) :
    Inv n depth anc M nl M := by
  intro r c hr hc _
  have h1 : ¬ (anc c r = true ∧ nl ≤ depth c) := by rintro ⟨_, h⟩; have := hnl c hc; omega
  have h2 : ¬ (nl ≤ depth r) := by have := hnl r hr; omega
  unfold undiv
  rw [if_neg h1, if_neg h2, add_zero]

/-- **the elimination produces `L`, `D` with `M = Lᵀ D L`** on every stored entry -/
theorem factor_correct_lower (F : Forest n depth anc) (M : ℕ → ℕ → ℝ) (nl : ℕ) (hnl : ∀ i, i < n → depth i < nl)
    (hp : ∀ k, k < n → factorAll n depth anc nl M k k ≠ 0) (r c : ℕ) (hr : r < n) (hc : c < n)
    (hrc : c = r ∨ anc c r = true) :
    M r c = ltdl n (lowerOf anc (factorAll n depth anc nl M)) (fun k => factorAll n depth anc nl M k k) r c := by
  have hI := factor_inv F M nl M (inv_init F M nl hnl) hp r c hr hc hrc
  generalize factorAll n depth anc nl M = A at hI hp
  rw [if_pos (Nat.zero_le _)] at hI
  rw [hI, ltdl_eq]
  -- split the remaining sum
  have hs : ∑ k ∈ range n, lowerOf anc A k r * (A k k * unitLower (lowerOf anc A) k c)
      = ∑ k ∈ range n, (if anc r k = true then undiv depth anc 0 A k r * undiv depth anc 0 A k c / A k k else 0) := by
    apply sum_congr rfl
    intro k hk
    rw [mem_range] at hk
    rw [lowerOf_eq]
    by_cases hak : anc r k = true
    · have hne : k ≠ c := by
        rintro rfl
        rcases hrc with h | h
        · rw [h, anc_irrefl F r hr] at hak; exact Bool.false_ne_true hak
        · rw [anc_asymm F r k hr hk h] at hak; exact Bool.false_ne_true hak
      have hck : anc c k = true := by
        rcases hrc with h | h
        · rw [h]; exact hak
        · exact F.trans c r k hc hr hk h hak
      have hkk := hp k hk
      rw [if_pos hak, if_pos hak, unitLower_eq, if_neg hne, lowerOf_eq, if_pos hck]
      unfold undiv
      rw [if_pos ⟨hak, Nat.zero_le _⟩, if_pos ⟨hck, Nat.zero_le _⟩]
      field_simp
      ring
    · rw [if_neg hak, if_neg hak]; ring
  have hfirst : A r r * unitLower (lowerOf anc A) r c = undiv depth anc 0 A r c := by
    rw [unitLower_eq, lowerOf_eq]
    unfold undiv
    rcases hrc with h | h
    · rw [h, anc_irrefl F r hr]; simp
    · have hne : r ≠ c := by
        rintro rfl; rw [anc_irrefl F r hr] at h; exact Bool.false_ne_true h
      rw [if_neg hne, if_pos h, if_pos ⟨h, Nat.zero_le _⟩]; ring
  have hre : ∑ k ∈ range n, unitLower (lowerOf anc A) k r * (fun k => A k k) k * unitLower (lowerOf anc A) k c
      = ∑ k ∈ range n, unitLower (lowerOf anc A) k r * (A k k * unitLower (lowerOf anc A) k c) := by
    apply sum_congr rfl; intro k _; ring
  rw [hre, unit_col_sum _ r hr, hfirst, hs]

/-- the forest property proper: the ancestors of a dof form a chain -/
def Chain (n : ℕ) (anc : ℕ → ℕ → Bool) : Prop :=
  ∀ i j k, i < n → j < n → k < n → anc i k = true → anc j k = true → i = j ∨ anc i j = true ∨ anc j i = true

/-- `M` is symmetric and has the sparsity pattern of the forest -/
structure TreeSym (n : ℕ) (anc : ℕ → ℕ → Bool) (M : ℕ → ℕ → ℝ) : Prop where
  symm : ∀ r c, r < n → c < n → M r c = M c r
  sparse : ∀ r c, r < n → c < n → r ≠ c → anc r c = false → anc c r = false → M r c = 0

theorem unitLower_lowerOf_ne (F : Forest n depth anc) (A : ℕ → ℕ → ℝ) (k r : ℕ)
    (h : unitLower (lowerOf anc A) k r ≠ 0) : k = r ∨ anc r k = true := by
  by_contra hc0
  have hc := not_or.mp hc0
  apply h
  rw [unitLower_eq, if_neg hc.1, lowerOf_eq, if_neg hc.2]; ring

/-- **`M = Lᵀ D L` on every entry** for a symmetric matrix with the forest's sparsity pattern -/
theorem factor_correct_full (F : Forest n depth anc) (hch : Chain n anc) (M : ℕ → ℕ → ℝ) (hM : TreeSym n anc M)
    (nl : ℕ) (hnl : ∀ i, i < n → depth i < nl) (hp : ∀ k, k < n → factorAll n depth anc nl M k k ≠ 0)
    (r c : ℕ) (hr : r < n) (hc : c < n) :
    M r c = ltdl n (lowerOf anc (factorAll n depth anc nl M)) (fun k => factorAll n depth anc nl M k k) r c := by
  by_cases h1 : c = r ∨ anc c r = true
  · exact factor_correct_lower F M nl hnl hp r c hr hc h1
  · by_cases h2 : anc r c = true
    · rw [hM.symm r c hr hc, ltdl_symm]
      exact factor_correct_lower F M nl hnl hp c r hc hr (Or.inr h2)
    · replace h1 := not_or.mp h1
      have hne : r ≠ c := fun h => h1.1 h.symm
      have ha1 : anc c r = false := by simpa using h1.2
      have ha2 : anc r c = false := by simpa using h2
      rw [hM.sparse r c hr hc hne ha2 ha1, ltdl_eq]
      symm
      apply sum_eq_zero
      intro k hk
      rw [mem_range] at hk
      by_contra hne0
      have g1 : unitLower (lowerOf anc (factorAll n depth anc nl M)) k r ≠ 0 := by
        intro h; apply hne0; rw [h]; ring
      have g2 : unitLower (lowerOf anc (factorAll n depth anc nl M)) k c ≠ 0 := by
        intro h; apply hne0; rw [h]; ring
      rcases unitLower_lowerOf_ne F _ k r g1 with e1 | e1 <;> rcases unitLower_lowerOf_ne F _ k c g2 with e2 | e2
      · exact hne (e1.symm.trans e2)
      · rw [e1] at e2; rw [e2] at ha1; exact Bool.false_ne_true ha1.symm
      · rw [e2] at e1; rw [e1] at ha2; exact Bool.false_ne_true ha2.symm
      · rcases hch r c k hr hc hk e1 e2 with h | h | h
        · exact hne h
        · rw [h] at ha2; exact Bool.false_ne_true ha2.symm
        · rw [h] at ha1; exact Bool.false_ne_true ha1.symm

theorem depthTri_lowerOf (F : Forest n depth anc) (A : ℕ → ℕ → ℝ) : DepthTri n depth (lowerOf anc A) := by
  intro k i hk hi h
  rw [lowerOf_eq] at h
  by_cases ha : anc i k = true
  · exact F.lt i k hi hk ha
  · rw [if_neg ha] at h; exact absurd rfl h

theorem diagInv_eq (A : ℕ → ℕ → ℝ) (k : ℕ) : diagInv A k = 1 / A k k := by
  simp only [diagInv, hdiv, lit1]

/-- **factor, then solve: `M x = y`** — every size, every forest, every symmetric tree-sparse `M` whose pivots do not vanish -/
theorem factor_solve_correct (F : Forest n depth anc) (hch : Chain n anc) (M : ℕ → ℕ → ℝ) (hM : TreeSym n anc M)
    (nl : ℕ) (hnl : ∀ i, i < n → depth i < nl) (hp : ∀ k, k < n → factorAll n depth anc nl M k k ≠ 0)
    (y : ℕ → ℝ) (i : ℕ) (hi : i < n) :
    mulVec n M (solve n depth nl (lowerOf anc (factorAll n depth anc nl M)) (diagInv (factorAll n depth anc nl M)) y) i = y i := by
  have key := solve_correct (depthTri_lowerOf F (factorAll n depth anc nl M)) nl hnl
    (fun k => factorAll n depth anc nl M k k) (diagInv (factorAll n depth anc nl M))
    (fun k hk => by rw [diagInv_eq]; field_simp [hp k hk]) y i hi
  rw [← key, mulVec_eq, mulVec_eq]
  apply sum_congr rfl
  intro j hj
  rw [mem_range] at hj
  rw [factor_correct_full F hch M hM nl hnl hp i j hi hj]

end factor

end Mjw.Lemmas.C21
