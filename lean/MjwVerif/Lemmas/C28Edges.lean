/-
  Helper lemmas for Props/C28.lean: every thread of the generated `_tree_edges` writes the adjacency
  matrix symmetrically (`atomic_max(tree_tree[w,a,b], 1)` always comes with `atomic_max(tree_tree[w,b,a], 1)`).
-/
import MjwVerif.Lemmas.Real
import MjwVerif.Model.Island
import MjwVerif.Gen.Island

namespace Mjw.Lemmas.C28
open Mjw Mjw.Island

/-- all writes are `atomic_max(tree_tree[w, a, b], 1)` and each comes with its mirror image -/
def SymWrites {K : Type} (w : Int) (ws : List (Write K)) : Prop :=
  ∀ x ∈ ws, x.arr = "tree_tree" ∧ x.kind = WKind.amax ∧ x.val = WVal.i 1 ∧
    ∃ a b, x.idx = [w, a, b] ∧ ∃ y ∈ ws, y.idx = [w, b, a]

theorem SymWrites.nil {K : Type} (w : Int) : SymWrites (K := K) w [] := by
  intro x hx; simp at hx

theorem SymWrites.mono {K : Type} {w : Int} {ws : List (Write K)} (h : SymWrites w ws) (ws' : List (Write K))
    (h' : SymWrites w ws') : SymWrites w (ws ++ ws') := by
  intro x hx
  rcases List.mem_append.mp hx with hx | hx
  · obtain ⟨h1, h2, h3, a, b, h4, y, hy, h5⟩ := h x hx
    exact ⟨h1, h2, h3, a, b, h4, y, List.mem_append.mpr (Or.inl hy), h5⟩
  · obtain ⟨h1, h2, h3, a, b, h4, y, hy, h5⟩ := h' x hx
    exact ⟨h1, h2, h3, a, b, h4, y, List.mem_append.mpr (Or.inr hy), h5⟩

theorem SymWrites.diag {K : Type} (w a : Int) :
    SymWrites (K := K) w [(Write.mk "tree_tree" [w, a, a] (WVal.i (1 : Int)) WKind.amax : Write K)] := by
  intro x hx
  have : x = Write.mk "tree_tree" [w, a, a] (WVal.i (1 : Int)) WKind.amax := by simpa using hx
  subst this
  exact ⟨rfl, rfl, rfl, a, a, rfl, _, hx, rfl⟩

theorem SymWrites.pair {K : Type} (w a b : Int) :
    SymWrites (K := K) w [(Write.mk "tree_tree" [w, a, b] (WVal.i (1 : Int)) WKind.amax : Write K),
      (Write.mk "tree_tree" [w, b, a] (WVal.i (1 : Int)) WKind.amax : Write K)] := by
  intro x hx
  have : x = Write.mk "tree_tree" [w, a, b] (WVal.i (1 : Int)) WKind.amax
      ∨ x = Write.mk "tree_tree" [w, b, a] (WVal.i (1 : Int)) WKind.amax := by simpa using hx
  rcases this with h | h
  · subst h; exact ⟨rfl, rfl, rfl, a, b, rfl, Write.mk "tree_tree" [w, b, a] (WVal.i 1) WKind.amax, by simp, rfl⟩
  · subst h; exact ⟨rfl, rfl, rfl, b, a, rfl, Write.mk "tree_tree" [w, a, b] (WVal.i 1) WKind.amax, by simp, rfl⟩

theorem SymWrites.add_diag {K : Type} {w : Int} {ws : List (Write K)} (h : SymWrites w ws) (a : Int) :
    SymWrites w (ws ++ [(Write.mk "tree_tree" [w, a, a] (WVal.i (1 : Int)) WKind.amax : Write K)]) :=
  h.mono _ (SymWrites.diag w a)

theorem SymWrites.add_pair {K : Type} {w : Int} {ws : List (Write K)} (h : SymWrites w ws) (a b : Int) :
    SymWrites w (ws ++ [(Write.mk "tree_tree" [w, a, b] (WVal.i (1 : Int)) WKind.amax : Write K)]
      ++ [(Write.mk "tree_tree" [w, b, a] (WVal.i (1 : Int)) WKind.amax : Write K)]) := by
  rw [List.append_assoc]
  exact h.mono _ (SymWrites.pair w a b)

/-- invariants of `forRange` -/
theorem forRange_inv {σ : Type} (P : σ → Prop) (lo hi : Int) (init : σ) (f : Int → σ → σ)
    (h0 : P init) (hstep : ∀ i s, P s → P (f i s)) : P (Mjw.forRange lo hi init f) := by
  unfold Mjw.forRange
  generalize (List.range (hi - lo).toNat) = l
  induction l generalizing init with
  | nil => exact h0
  | cons k l ih => exact ih _ (hstep _ _ h0)

theorem tree_edges_symWrites {K : Type} [Scalar K] (nv : Int) (body_treeid jnt_dofadr dof_treeid geom_bodyid
    site_bodyid eq_type eq_obj1id eq_obj2id eq_objtype : Int → Int) (is_sparse : Bool) (nefc_in : Int → Int)
    (contact_geom_in : Int → I2) (efc_type_in efc_id_in efc_J_rownnz_in efc_J_rowadr_in : Int → Int → Int)
    (efc_J_colind_in : Int → Int → Int → Int) (efc_J_in : Int → Int → Int → K) (njmax_in : Int)
    (tree_tree : Int → Int → Int → Int) (tid0 tid1 : Int) :
    SymWrites tid0 (Gen.Island._tree_edges (K := K) nv body_treeid jnt_dofadr dof_treeid geom_bodyid site_bodyid
      eq_type eq_obj1id eq_obj2id eq_objtype is_sparse nefc_in contact_geom_in efc_type_in efc_id_in
      efc_J_rownnz_in efc_J_rowadr_in efc_J_colind_in efc_J_in njmax_in tree_tree tid0 tid1) := by
  unfold Gen.Island._tree_edges
  dsimp only
  by_cases hguard : decide (tid1 ≥ min njmax_in (nefc_in tid0)) = true
  · rw [if_pos hguard]; exact SymWrites.nil _
  · rw [if_neg hguard]
    generalize (if decide (efc_type_in tid0 tid1 = (0 : Int)) = true
      then (_ : Int × Int × Int × Int × Int × Int × I2 × Int × Int) else _) = p
    obtain ⟨eq_t, b1, b2, tree0, tree1, use_generic, geom_pair, g1, g2⟩ := p
    dsimp only
    by_cases hug : decide (use_generic = (0 : Int)) = true
    · rw [if_pos hug]
      split_ifs <;> dsimp only <;>
        first
        | exact SymWrites.nil _
        | exact (SymWrites.nil _).add_diag _
        | exact (SymWrites.nil _).add_pair _ _
    · rw [if_neg hug]
      generalize hX : Mjw.forRange (0 : Int) _ (((-1 : Int), (0 : Int), ([] : List (Write K)))) _ = X
      have hinv : SymWrites tid0 X.2.2 := by
        rw [← hX]
        apply forRange_inv (fun (s : Int × Int × List (Write K)) => SymWrites tid0 s.2.2)
        · exact SymWrites.nil _
        · intro i s hs
          obtain ⟨ft, hc, ws0⟩ := s
          dsimp only at hs ⊢
          split_ifs <;> dsimp only <;>
            first
            | exact hs
            | exact hs.add_pair _ _
      split_ifs
      · exact hinv.add_diag _
      · exact hinv

/-! ## the adjacency matrix after the launch -/

/-- the writes of any collection of threads (of any worlds), in any order -/
def AllSym {K : Type} (all : List (Write K)) : Prop :=
  ∀ x ∈ all, x.arr = "tree_tree" ∧ x.kind = WKind.amax ∧ x.val = WVal.i 1 ∧
    ∃ w a b, x.idx = [w, a, b] ∧ ∃ y ∈ all, y.idx = [w, b, a]

theorem allSym_flatMap {K : Type} {T : Type} (tids : List T) (f : T → List (Write K)) (wof : T → Int)
    (h : ∀ t ∈ tids, SymWrites (wof t) (f t)) : AllSym (tids.flatMap f) := by
  intro x hx
  obtain ⟨t, ht, hxt⟩ := List.mem_flatMap.mp hx
  obtain ⟨h1, h2, h3, a, b, h4, y, hy, h5⟩ := h t ht x hxt
  exact ⟨h1, h2, h3, wof t, a, b, h4, y, List.mem_flatMap.mpr ⟨t, ht, hy⟩, h5⟩

theorem lookupI_amax_ones {K : Type} (l : List (Write K)) (idx : List Int)
    (h : ∀ x ∈ l, x.arr = "tree_tree" ∧ x.kind = WKind.amax ∧ x.val = WVal.i 1) (acc : Int)
    (hacc : acc = 0 ∨ acc = 1) :
    Write.lookupI l "tree_tree" idx acc = if (acc = 1 ∨ ∃ x ∈ l, x.idx = idx) then 1 else 0 := by
  induction l generalizing acc with
  | nil =>
    rcases hacc with h0 | h1
    · simp [Write.lookupI, h0]
    · simp [Write.lookupI, h1]
  | cons x l ih =>
    obtain ⟨h1, h2, h3⟩ := h x (by simp)
    have hl : ∀ y ∈ l, y.arr = "tree_tree" ∧ y.kind = WKind.amax ∧ y.val = WVal.i 1 :=
      fun y hy => h y (by simp [hy])
    have hstep : Write.lookupI (x :: l) "tree_tree" idx acc
        = Write.lookupI l "tree_tree" idx (if x.idx = idx then max acc 1 else acc) := by
      simp only [Write.lookupI, List.foldl_cons, h1, h2, h3]
      congr 1
      by_cases hi : x.idx = idx <;> simp [hi]
    rw [hstep]
    by_cases hi : x.idx = idx
    · rw [if_pos hi, ih hl (max acc 1) (by rcases hacc with h | h <;> simp [h])]
      have : max acc 1 = 1 := by rcases hacc with h | h <;> simp [h]
      simp [this, hi]
    · rw [if_neg hi, ih hl acc hacc]
      simp [hi]

/-- after `tree_tree.zero_()` and the `atomic_max` writes: an entry is nonzero iff some thread wrote it -/
theorem tt_nonzero_iff {K : Type} {all : List (Write K)} (h : AllSym all) (w a b : Int) :
    Write.lookupI all "tree_tree" [w, a, b] 0 ≠ 0 ↔ ∃ x ∈ all, x.idx = [w, a, b] := by
  rw [lookupI_amax_ones all [w, a, b] (fun x hx => ⟨(h x hx).1, (h x hx).2.1, (h x hx).2.2.1⟩) 0 (Or.inl rfl)]
  by_cases hex : ∃ x ∈ all, x.idx = [w, a, b]
  · simp [hex]
  · simp [hex]

theorem tt_symm {K : Type} {all : List (Write K)} (h : AllSym all) (w a b : Int)
    (hab : Write.lookupI all "tree_tree" [w, a, b] 0 ≠ 0) : Write.lookupI all "tree_tree" [w, b, a] 0 ≠ 0 := by
  obtain ⟨x, hx, hi⟩ := (tt_nonzero_iff h w a b).mp hab
  obtain ⟨-, -, -, w', a', b', h4, y, hy, h5⟩ := h x hx
  rw [hi] at h4
  have : w = w' ∧ a = a' ∧ b = b' := by simpa using h4
  obtain ⟨rfl, rfl, rfl⟩ := this
  exact (tt_nonzero_iff h w b a).mpr ⟨y, hy, h5⟩

end Mjw.Lemmas.C28
