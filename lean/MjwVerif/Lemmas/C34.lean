/-
  Helper definitions and lemmas for property C34 (ray–primitive intersection).
  Property theorems live in `Props/C34.lean`.
-/
import MjwVerif.Lemmas.Real
import MjwVerif.Gen.Ray

set_option linter.unusedSimpArgs false
set_option linter.unusedVariables false
namespace Mjw.Lemmas.C34
open Mjw Mjw.Gen.Ray

/-- MJ_MINVAL as a real number -/
noncomputable def minval : ℝ := 1e-15

theorem minval_pos : 0 < minval := by norm_num [minval]

theorem lit_minval : ((1 : ℤ) : ℝ) * (10 : ℝ) ^ (-15 : ℤ) = minval := by
  norm_num [minval]

theorem lit_one : (Scalar.lit 1 0 : ℝ) = 1 := by norm_num
theorem lit_zero : (Scalar.lit 0 0 : ℝ) = 0 := by norm_num
theorem lit_neg_one : (Scalar.lit (-1) 0 : ℝ) = -1 := by norm_num
theorem lit_minval' : (Scalar.lit 1 (-15) : ℝ) = minval := by rw [slit]; exact lit_minval

/-- normal form of `_ray_quad` over ℝ -/
theorem ray_quad_eq (a b c : ℝ) :
    _ray_quad a b c =
      if b * b - a * c < minval then ((-1 : ℝ), (⟨-1, -1⟩ : V2 ℝ))
      else
        let d := Real.sqrt (b * b - a * c)
        let den := 1 / (if a ≠ 0 then a else minval)
        let x0 := (-b - d) * den
        let x1 := (-b + d) * den
        if 0 ≤ x0 then (x0, ⟨x0, x1⟩) else if 0 ≤ x1 then (x1, ⟨x0, x1⟩) else (-1, ⟨x0, x1⟩) := by
  simp only [_ray_quad, Mjw.Gen.Math.safe_div_F_F, hsub, hmul, hadd, hneg, hdiv, slit, slt, sge, sbne,
    ssqrt, lit_minval]
  norm_num


/-- For `a > 0` and accepted discriminant, `_ray_quad` returns the two distinct roots `x0 < x1` of
    `a x² + 2 b x + c` (the polynomial factors as `a (t - x0) (t - x1)`) and the first non-negative one. -/
theorem ray_quad_pos (a b c : ℝ) (ha : 0 < a) (hd : minval ≤ b * b - a * c) :
    ∃ x0 x1 : ℝ, x0 < x1 ∧ (∀ t : ℝ, a * t ^ 2 + 2 * b * t + c = a * (t - x0) * (t - x1)) ∧
      x0 = (-b - Real.sqrt (b * b - a * c)) / a ∧ x1 = (-b + Real.sqrt (b * b - a * c)) / a ∧
      _ray_quad a b c = ((if 0 ≤ x0 then x0 else if 0 ≤ x1 then x1 else -1), (⟨x0, x1⟩ : V2 ℝ)) := by
  have hdpos : 0 < b * b - a * c := lt_of_lt_of_le minval_pos hd
  have hs : 0 < Real.sqrt (b * b - a * c) := Real.sqrt_pos.mpr hdpos
  have hss := Real.mul_self_sqrt hdpos.le
  have hne : a ≠ 0 := ne_of_gt ha
  refine ⟨(-b - Real.sqrt (b * b - a * c)) / a, (-b + Real.sqrt (b * b - a * c)) / a, ?_, ?_, rfl, rfl, ?_⟩
  · apply div_lt_div_of_pos_right _ ha; linarith
  · intro t
    set s := Real.sqrt (b * b - a * c)
    field_simp
    nlinarith [hss]
  · rw [ray_quad_eq]
    simp only [not_lt.mpr hd, if_false, hne, ne_eq, not_false_eq_true, if_true, mul_one_div]
    split_ifs <;> rfl


theorem ray_quad_reject' (a b c : ℝ) (h : b * b - a * c < minval) :
    _ray_quad a b c = (-1, ⟨-1, -1⟩) := by
  rw [ray_quad_eq, if_pos h]

/-- any negative scalar result of `_ray_quad` is exactly `-1` (no hypothesis) -/
theorem ray_quad_neg (a b c : ℝ) (h : (_ray_quad a b c).1 < 0) : (_ray_quad a b c).1 = -1 := by
  rw [ray_quad_eq] at h ⊢
  dsimp only at h ⊢
  split_ifs at h ⊢ <;> first | rfl | (exfalso; linarith)

/-- point on the ray at parameter `t` -/
noncomputable def rayPt (pnt vec : V3 ℝ) (t : ℝ) : V3 ℝ := V3.add pnt (V3.muls vec t)

/-- squared Euclidean distance -/
noncomputable def distSq (p q : V3 ℝ) : ℝ := V3.dot (V3.sub p q) (V3.sub p q)

/-- `mat` is orthogonal: `mat·matᵀ = I` and `matᵀ·mat = I` -/
def IsOrtho (m : M33 ℝ) : Prop :=
  M33.mul m (M33.transpose m) = M33.identity ∧ M33.mul (M33.transpose m) m = M33.identity

/-- rows of `m` are orthonormal when `m·mᵀ = I` -/
theorem ortho_rows {m : M33 ℝ} (h : M33.mul m (M33.transpose m) = M33.identity) :
    m.m00 * m.m00 + m.m01 * m.m01 + m.m02 * m.m02 = 1 ∧
    m.m00 * m.m10 + m.m01 * m.m11 + m.m02 * m.m12 = 0 ∧
    m.m00 * m.m20 + m.m01 * m.m21 + m.m02 * m.m22 = 0 ∧
    m.m10 * m.m10 + m.m11 * m.m11 + m.m12 * m.m12 = 1 ∧
    m.m10 * m.m20 + m.m11 * m.m21 + m.m12 * m.m22 = 0 ∧
    m.m20 * m.m20 + m.m21 * m.m21 + m.m22 * m.m22 = 1 := by
  have h00 := congrArg M33.m00 h
  have h01 := congrArg M33.m01 h
  have h02 := congrArg M33.m02 h
  have h11 := congrArg M33.m11 h
  have h12 := congrArg M33.m12 h
  have h22 := congrArg M33.m22 h
  simp only [M33.mul, M33.transpose, M33.identity, hadd, hmul, slit] at h00 h01 h02 h11 h12 h22
  norm_num at h00 h01 h02 h11 h12 h22
  exact ⟨h00, h01, h02, h11, h12, h22⟩

/-- columns of `m` are orthonormal when `mᵀ·m = I` -/
theorem ortho_cols {m : M33 ℝ} (h : M33.mul (M33.transpose m) m = M33.identity) :
    m.m00 * m.m00 + m.m10 * m.m10 + m.m20 * m.m20 = 1 ∧
    m.m00 * m.m01 + m.m10 * m.m11 + m.m20 * m.m21 = 0 ∧
    m.m00 * m.m02 + m.m10 * m.m12 + m.m20 * m.m22 = 0 ∧
    m.m01 * m.m01 + m.m11 * m.m11 + m.m21 * m.m21 = 1 ∧
    m.m01 * m.m02 + m.m11 * m.m12 + m.m21 * m.m22 = 0 ∧
    m.m02 * m.m02 + m.m12 * m.m12 + m.m22 * m.m22 = 1 := by
  have h00 := congrArg M33.m00 h
  have h01 := congrArg M33.m01 h
  have h02 := congrArg M33.m02 h
  have h11 := congrArg M33.m11 h
  have h12 := congrArg M33.m12 h
  have h22 := congrArg M33.m22 h
  simp only [M33.mul, M33.transpose, M33.identity, hadd, hmul, slit] at h00 h01 h02 h11 h12 h22
  norm_num at h00 h01 h02 h11 h12 h22
  exact ⟨h00, h01, h02, h11, h12, h22⟩

theorem ray_sphere_eq (pos : V3 ℝ) (r2 : ℝ) (pnt vec : V3 ℝ) :
    ray_sphere pos r2 pnt vec =
      (let sol := (_ray_quad (V3.dot vec vec) (V3.dot vec (V3.sub pnt pos))
          (V3.dot (V3.sub pnt pos) (V3.sub pnt pos) - r2)).1
       (sol, if 0 ≤ sol then V3.normalize (V3.sub (rayPt pnt vec sol) pos) else V3.zero)) := by
  simp only [ray_sphere, sge, hsub, slit, rayPt]
  norm_num
  split_ifs <;> rfl

/-- the quadratic whose roots are the ray parameters at squared distance `r2` from `pos` -/
theorem distSq_rayPt (pos pnt vec : V3 ℝ) (r2 t : ℝ) :
    distSq (rayPt pnt vec t) pos - r2 =
      V3.dot vec vec * t ^ 2 + 2 * V3.dot vec (V3.sub pnt pos) * t +
        (V3.dot (V3.sub pnt pos) (V3.sub pnt pos) - r2) := by
  simp only [distSq, rayPt, V3.dot, V3.sub, V3.add, V3.muls, hadd, hsub, hmul]
  ring

theorem dot_self_nonneg (v : V3 ℝ) : 0 ≤ V3.dot v v := by
  simp only [V3.dot, hadd, hmul]
  nlinarith [mul_self_nonneg v.c0, mul_self_nonneg v.c1, mul_self_nonneg v.c2]

theorem dot_self_eq_zero {v : V3 ℝ} (h : V3.dot v v = 0) : v.c0 = 0 ∧ v.c1 = 0 ∧ v.c2 = 0 := by
  simp only [V3.dot, hadd, hmul] at h
  refine ⟨?_, ?_, ?_⟩ <;> nlinarith [mul_self_nonneg v.c0, mul_self_nonneg v.c1, mul_self_nonneg v.c2]

/-- discriminant used by `ray_sphere` -/
noncomputable def sphereDet (pos : V3 ℝ) (r2 : ℝ) (pnt vec : V3 ℝ) : ℝ :=
  V3.dot vec (V3.sub pnt pos) * V3.dot vec (V3.sub pnt pos) -
    V3.dot vec vec * (V3.dot (V3.sub pnt pos) (V3.sub pnt pos) - r2)

/-- Complete case description of `ray_sphere`. -/
theorem ray_sphere_cases (pos : V3 ℝ) (r2 : ℝ) (pnt vec : V3 ℝ) :
    (sphereDet pos r2 pnt vec < minval ∧ ray_sphere pos r2 pnt vec = (-1, V3.zero)) ∨
    (minval ≤ sphereDet pos r2 pnt vec ∧ 0 < V3.dot vec vec ∧
      ((ray_sphere pos r2 pnt vec = (-1, V3.zero) ∧ ∀ t : ℝ, 0 ≤ t → distSq (rayPt pnt vec t) pos ≠ r2) ∨
       (∃ x : ℝ, 0 ≤ x ∧ ray_sphere pos r2 pnt vec = (x, V3.normalize (V3.sub (rayPt pnt vec x) pos)) ∧
          distSq (rayPt pnt vec x) pos = r2 ∧
          ∀ t : ℝ, 0 ≤ t → distSq (rayPt pnt vec t) pos = r2 → x ≤ t))) := by
  rcases lt_or_ge (sphereDet pos r2 pnt vec) minval with hd | hd
  · left
    refine ⟨hd, ?_⟩
    rw [ray_sphere_eq, ray_quad_reject' _ _ _ hd]
    norm_num
  · right
    have ha0 := dot_self_nonneg vec
    have ha : 0 < V3.dot vec vec := by
      rcases lt_or_eq_of_le ha0 with h | h
      · exact h
      · exfalso
        obtain ⟨h0, h1, h2⟩ := dot_self_eq_zero h.symm
        have : sphereDet pos r2 pnt vec = 0 := by
          simp only [sphereDet, V3.dot, hadd, hmul, h0, h1, h2]; ring
        rw [this] at hd
        exact absurd hd (not_le.mpr minval_pos)
    refine ⟨hd, ha, ?_⟩
    obtain ⟨x0, x1, hlt, hf, -, -, hq⟩ := ray_quad_pos _ _ _ ha hd
    have hroot : ∀ t : ℝ, distSq (rayPt pnt vec t) pos = r2 ↔ t = x0 ∨ t = x1 := by
      intro t
      have := distSq_rayPt pos pnt vec r2 t
      rw [hf t] at this
      constructor
      · intro h
        rw [h, sub_self] at this
        rcases mul_eq_zero.mp this.symm with h | h
        · rcases mul_eq_zero.mp h with h | h
          · exact absurd h (ne_of_gt ha)
          · left; linarith
        · right; linarith
      · rintro (h | h) <;> subst h <;> simp only [sub_self, mul_zero, zero_mul] at this <;> linarith
    rw [ray_sphere_eq, hq]
    by_cases h1 : 0 ≤ x0
    · right
      simp only [if_pos h1]
      refine ⟨x0, h1, rfl, (hroot x0).mpr (Or.inl rfl), ?_⟩
      intro t _ ht
      rcases (hroot t).mp ht with h | h <;> linarith
    · by_cases h2 : 0 ≤ x1
      · right
        simp only [if_neg h1, if_pos h2]
        refine ⟨x1, h2, rfl, (hroot x1).mpr (Or.inr rfl), ?_⟩
        intro t ht0 ht
        rcases (hroot t).mp ht with h | h <;> linarith
      · left
        simp only [if_neg h1, if_neg h2]
        refine ⟨?_, ?_⟩
        · norm_num
        · intro t ht0 ht
          rcases (hroot t).mp ht with h | h <;> linarith

/-- Cauchy–Schwarz in the form used for the sphere discriminant -/
theorem dot_sq_le (v d : V3 ℝ) : V3.dot v d * V3.dot v d ≤ V3.dot v v * V3.dot d d := by
  simp only [V3.dot, hadd, hmul]
  nlinarith [sq_nonneg (v.c0 * d.c1 - v.c1 * d.c0), sq_nonneg (v.c0 * d.c2 - v.c2 * d.c0),
    sq_nonneg (v.c1 * d.c2 - v.c2 * d.c1)]

theorem sphereDet_le (pos : V3 ℝ) (r2 : ℝ) (pnt vec : V3 ℝ) :
    sphereDet pos r2 pnt vec ≤ V3.dot vec vec * r2 := by
  have := dot_sq_le vec (V3.sub pnt pos)
  simp only [sphereDet]
  nlinarith [this]

/-- `normalize v = v / √r2` when `|v|² = r2 > 0`, and the result is a unit vector -/
theorem normalize_of_dot {v : V3 ℝ} {r2 : ℝ} (h : V3.dot v v = r2) (hr : 0 < r2) :
    V3.normalize v = V3.divs v (Real.sqrt r2) ∧ V3.dot (V3.normalize v) (V3.normalize v) = 1 := by
  have hs : 0 < Real.sqrt r2 := Real.sqrt_pos.mpr hr
  have hss := Real.mul_self_sqrt hr.le
  have e : V3.normalize v = V3.divs v (Real.sqrt r2) := by
    simp only [V3.normalize, V3.length, h, ssqrt, slit, slt, V3.divs, hdiv]
    rw [if_pos (by simpa using hs)]
  refine ⟨e, ?_⟩
  rw [e]
  simp only [V3.dot, hadd, hmul] at h
  simp only [V3.divs, V3.dot, hadd, hmul, hdiv]
  have hne : Real.sqrt r2 ≠ 0 := ne_of_gt hs
  field_simp
  nlinarith [hss, h]

/-- What every caller in ray.py uses about `_ray_quad`: for `a ≥ 0` with `a = 0 → b = 0` (true for
    `a = Σ wᵢ vᵢ²`, `b = Σ wᵢ vᵢ pᵢ`, `wᵢ > 0`) the scalar result is the smallest non-negative root or `-1`,
    and each non-negative entry of the returned pair is a root. -/
theorem quad_sol (a b c : ℝ) (ha : 0 ≤ a) (hab : a = 0 → b = 0) :
    let r := _ray_quad a b c
    (0 ≤ r.1 → a * r.1 ^ 2 + 2 * b * r.1 + c = 0 ∧
        ∀ t : ℝ, 0 ≤ t → a * t ^ 2 + 2 * b * t + c = 0 → r.1 ≤ t) ∧
    (r.1 < 0 → r.1 = -1) ∧
    (0 ≤ r.2.c0 → a * r.2.c0 ^ 2 + 2 * b * r.2.c0 + c = 0) ∧
    (0 ≤ r.2.c1 → a * r.2.c1 ^ 2 + 2 * b * r.2.c1 + c = 0) := by
  rcases lt_or_ge (b * b - a * c) minval with hd | hd
  · rw [ray_quad_reject' a b c hd]
    dsimp only
    refine ⟨?_, ?_, ?_, ?_⟩ <;> intro h <;> first | rfl | (exfalso; linarith)
  · have hpos : 0 < a := by
      rcases lt_or_eq_of_le ha with h | h
      · exact h
      · exfalso
        have hb := hab h.symm
        rw [← h, hb] at hd
        linarith [minval_pos]
    obtain ⟨x0, x1, hlt, hf, -, -, hq⟩ := ray_quad_pos a b c hpos hd
    have hroot : ∀ t : ℝ, a * t ^ 2 + 2 * b * t + c = 0 ↔ t = x0 ∨ t = x1 := by
      intro t
      rw [hf t]
      constructor
      · intro h
        rcases mul_eq_zero.mp h with h | h
        · rcases mul_eq_zero.mp h with h | h
          · exact absurd h (ne_of_gt hpos)
          · left; linarith
        · right; linarith
      · rintro (h | h) <;> rw [h] <;> ring
    rw [hq]
    dsimp only
    refine ⟨?_, ?_, fun _ => (hroot x0).mpr (Or.inl rfl), fun _ => (hroot x1).mpr (Or.inr rfl)⟩
    · intro h0
      split_ifs at h0 ⊢ with h1 h2
      · refine ⟨(hroot x0).mpr (Or.inl rfl), ?_⟩
        intro t _ ht
        rcases (hroot t).mp ht with h | h <;> linarith
      · refine ⟨(hroot x1).mpr (Or.inr rfl), ?_⟩
        intro t ht0 ht
        rcases (hroot t).mp ht with h | h <;> linarith
      · linarith
    · intro h0
      split_ifs at h0 ⊢ with h1 h2
      · linarith
      · linarith
      · rfl

/-- `safe_div 1 y` over ℝ is positive for `y ≥ 0` (it is `1/y`, or `1/MJ_MINVAL` at `y = 0`). -/
theorem safe_inv_pos (y : ℝ) (hy : 0 ≤ y) : 0 < Mjw.Gen.Math.safe_div_F_F (1 : ℝ) y := by
  simp only [Mjw.Gen.Math.safe_div_F_F, hdiv, sbne, slit, lit_minval]
  split_ifs with h
  · exact div_pos one_pos (lt_of_le_of_ne hy (by simpa using Ne.symm h))
  · exact div_pos one_pos minval_pos

theorem safe_inv_of_ne (y : ℝ) (hy : y ≠ 0) : Mjw.Gen.Math.safe_div_F_F (1 : ℝ) y = 1 / y := by
  simp only [Mjw.Gen.Math.safe_div_F_F, hdiv, sbne, slit]
  rw [if_pos (by simpa using hy)]

/-- the three scale factors `1/sizeᵢ²` (via `safe_div`) used by `ray_ellipsoid` -/
noncomputable def ellScale (size : V3 ℝ) : V3 ℝ :=
  ⟨Mjw.Gen.Math.safe_div_F_F (1 : ℝ) (size.c0 * size.c0), Mjw.Gen.Math.safe_div_F_F (1 : ℝ) (size.c1 * size.c1),
   Mjw.Gen.Math.safe_div_F_F (1 : ℝ) (size.c2 * size.c2)⟩

theorem ellScale_pos (size : V3 ℝ) :
    0 < (ellScale size).c0 ∧ 0 < (ellScale size).c1 ∧ 0 < (ellScale size).c2 :=
  ⟨safe_inv_pos _ (mul_self_nonneg _), safe_inv_pos _ (mul_self_nonneg _), safe_inv_pos _ (mul_self_nonneg _)⟩

/-- normal form of `ray_ellipsoid` -/
theorem ray_ellipsoid_eq (pos : V3 ℝ) (mat : M33 ℝ) (size pnt vec : V3 ℝ) :
    ray_ellipsoid pos mat size pnt vec =
      (let l := _ray_map pos mat pnt vec
       let s := ellScale size
       let sol := (_ray_quad (V3.dot (V3.cwmul s l.2) l.2) (V3.dot (V3.cwmul s l.2) l.1)
          (V3.dot (V3.cwmul s l.1) l.1 - 1)).1
       (sol, if 0 ≤ sol then M33.mulVec mat (V3.normalize (V3.cwmul s (rayPt l.1 l.2 sol))) else V3.zero)) := by
  simp only [ray_ellipsoid, sge, hsub, lit_one, lit_zero, rayPt, ellScale, hmul]
  split_ifs with h <;> simp only [h, if_true, if_false]

/-! ## ray_cylinder: stage decomposition
  `cylCaps`, `cylSide`, `cylNormal` are verbatim copies of the three stages of the generated
  `ray_cylinder`; `ray_cylinder_eq` (proved by `rfl`) ties them to the generated definition, so a change of
  the generated code breaks that proof. -/

/-- caps stage of ray_cylinder (verbatim copy of the generated sub-term) -/
noncomputable def cylCaps (lpnt lvec size : V3 ℝ) : ℝ × V2 ℝ × ℝ × Int :=
    let x : ℝ := (Scalar.lit (-1) 0 : ℝ)
    let part : Int := (0 : Int)
      if (Scalar.gt (Scalar.abs lvec.c2) (Scalar.lit 1 (-15) : ℝ)) then

        let sol : ℝ := ((((Scalar.lit (-1) 0 : ℝ) * size.c1) - lpnt.c2) / lvec.c2)
        let (p, x, part) :=
          if (Scalar.ge sol (Scalar.lit 0 0 : ℝ)) then
            let p : V2 ℝ := (⟨(lpnt.c0 + (sol * lvec.c0)), (lpnt.c1 + (sol * lvec.c1))⟩ : V2 ℝ)
            let (x, part) :=
              if (Scalar.le (V2.dot p p) (size.c0 * size.c0)) then
                let (x, part) :=
                  if ((Scalar.lt x (Scalar.lit 0 0 : ℝ)) || (Scalar.lt sol x)) then
                    let x : ℝ := sol
                    let part : Int := (-1 : Int)
                    (x, part)
                  else
                    (x, part)
                (x, part)
              else
                (x, part)
            (p, x, part)
          else
            ((V2.zero : V2 ℝ), x, part)

        let sol : ℝ := ((((Scalar.lit 1 0 : ℝ) * size.c1) - lpnt.c2) / lvec.c2)
        let (p, x, part) :=
          if (Scalar.ge sol (Scalar.lit 0 0 : ℝ)) then
            let p : V2 ℝ := (⟨(lpnt.c0 + (sol * lvec.c0)), (lpnt.c1 + (sol * lvec.c1))⟩ : V2 ℝ)
            let (x, part) :=
              if (Scalar.le (V2.dot p p) (size.c0 * size.c0)) then
                let (x, part) :=
                  if ((Scalar.lt x (Scalar.lit 0 0 : ℝ)) || (Scalar.lt sol x)) then
                    let x : ℝ := sol
                    let part : Int := (1 : Int)
                    (x, part)
                  else
                    (x, part)
                (x, part)
              else
                (x, part)
            (p, x, part)
          else
            (p, x, part)
        (sol, p, x, part)
      else
        ((Scalar.lit 0 0 : ℝ), (V2.zero : V2 ℝ), x, part)

noncomputable def cylSide (lpnt lvec size : V3 ℝ) (x : ℝ) (part : Int) : ℝ × Int :=
    let a : ℝ := ((lvec.c0 * lvec.c0) + (lvec.c1 * lvec.c1))
    let b : ℝ := ((lvec.c0 * lpnt.c0) + (lvec.c1 * lpnt.c1))
    let c : ℝ := (((lpnt.c0 * lpnt.c0) + (lpnt.c1 * lpnt.c1)) - (size.c0 * size.c0))
    let (sol, _) := (Mjw.Gen.Ray._ray_quad (K := ℝ) a b c)
    let (x, part) :=
      if ((Scalar.ge sol (Scalar.lit 0 0 : ℝ)) && (Scalar.le (Scalar.abs (lpnt.c2 + (sol * lvec.c2))) size.c1)) then
        let (x, part) :=
          if ((Scalar.lt x (Scalar.lit 0 0 : ℝ)) || (Scalar.lt sol x)) then
            let x : ℝ := sol
            let part : Int := (0 : Int)
            (x, part)
          else
            (x, part)
        (x, part)
      else
        (x, part)
    (x, part)

noncomputable def cylNormal (mat : M33 ℝ) (lpnt lvec : V3 ℝ) (x : ℝ) (part : Int) : V3 ℝ :=
    let normal : V3 ℝ := (V3.zero : V3 ℝ)
    let normal :=
      if (Scalar.ge x (Scalar.lit 0 0 : ℝ)) then
        let normal :=
          if (decide (part = (0 : Int))) then
            let normal : V3 ℝ := (V3.add lpnt (V3.muls lvec x))
            let normal : V3 ℝ := { normal with c2 := (Scalar.lit 0 0 : ℝ) }
            let normal : V3 ℝ := (V3.normalize normal)
            normal
          else
            let normal : V3 ℝ := (⟨(Scalar.lit 0 0 : ℝ), (Scalar.lit 0 0 : ℝ), (Scalar.ofInt part : ℝ)⟩ : V3 ℝ)
            normal
        let normal : V3 ℝ := (M33.mulVec mat normal)
        normal
      else
        normal
    normal

theorem ray_cylinder_eq (pos : V3 ℝ) (mat : M33 ℝ) (size pnt vec : V3 ℝ) :
    ray_cylinder pos mat size pnt vec =
      (let d := ray_sphere pos (size.c0 * size.c0 + size.c1 * size.c1) pnt vec
       if Scalar.lt d.1 (Scalar.lit 0 0 : ℝ) then ((Scalar.lit (-1) 0 : ℝ), (V3.zero : V3 ℝ))
       else
         let l := _ray_map pos mat pnt vec
         let c := cylCaps l.1 l.2 size
         let s := cylSide l.1 l.2 size c.2.2.1 c.2.2.2
         (s.1, cylNormal mat l.1 l.2 s.1 s.2)) := by
  rfl


theorem cap_z (a b c : ℝ) (h : c ≠ 0) : b + (a - b) / c * c = a := by field_simp; ring

/-- invariant after the two cap tests of `ray_cylinder` -/
def CylCapInv (lp lv size : V3 ℝ) (x : ℝ) (part : Int) : Prop :=
  (x = -1 ∧ part = 0) ∨
  (0 ≤ x ∧ ((part = -1 ∧ lp.c2 + x * lv.c2 = -size.c1) ∨ (part = 1 ∧ lp.c2 + x * lv.c2 = size.c1)) ∧
    (lp.c0 + x * lv.c0) * (lp.c0 + x * lv.c0) + (lp.c1 + x * lv.c1) * (lp.c1 + x * lv.c1) ≤
      size.c0 * size.c0)

theorem cylCaps_inv (lp lv size : V3 ℝ) :
    CylCapInv lp lv size (cylCaps lp lv size).2.2.1 (cylCaps lp lv size).2.2.2 := by
  unfold cylCaps
  simp only [sgt, sge, sle, slt, sabs, lit_zero, lit_one, lit_neg_one, lit_minval', Bool.or_eq_true,
    hmul, hadd, V2.dot, neg_one_mul, one_mul]
  split_ifs with hg <;> simp only [] <;> unfold CylCapInv
  all_goals
    first
    | (left; exact ⟨rfl, rfl⟩)
    | (have hne : lv.c2 ≠ 0 := by
         intro h0; rw [h0, abs_zero] at hg; linarith [minval_pos]
       first
       | (right; exact ⟨‹_›, Or.inl ⟨rfl, cap_z _ _ _ hne⟩, ‹_›⟩)
       | (right; exact ⟨‹_›, Or.inr ⟨rfl, cap_z _ _ _ hne⟩, ‹_›⟩))

theorem sq2_zero {u v : ℝ} (h : u * u + v * v = 0) : u = 0 ∧ v = 0 := by
  constructor <;> nlinarith [mul_self_nonneg u, mul_self_nonneg v]

theorem sq3_zero {u v w : ℝ} (h : u * u + v * v + w * w = 0) : u = 0 ∧ v = 0 ∧ w = 0 := by
  refine ⟨?_, ?_, ?_⟩ <;> nlinarith [mul_self_nonneg u, mul_self_nonneg v, mul_self_nonneg w]

/-- invariant after the side test of `ray_cylinder` -/
def CylInv (lp lv size : V3 ℝ) (x : ℝ) (part : Int) : Prop :=
  CylCapInv lp lv size x part ∨
  (0 ≤ x ∧ part = 0 ∧
    (lp.c0 + x * lv.c0) * (lp.c0 + x * lv.c0) + (lp.c1 + x * lv.c1) * (lp.c1 + x * lv.c1) =
      size.c0 * size.c0 ∧ |lp.c2 + x * lv.c2| ≤ size.c1)

theorem cylSide_inv (lp lv size : V3 ℝ) (x : ℝ) (part : Int) (h : CylCapInv lp lv size x part) :
    CylInv lp lv size (cylSide lp lv size x part).1 (cylSide lp lv size x part).2 := by
  have hq := quad_sol (lv.c0 * lv.c0 + lv.c1 * lv.c1) (lv.c0 * lp.c0 + lv.c1 * lp.c1)
    (lp.c0 * lp.c0 + lp.c1 * lp.c1 - size.c0 * size.c0)
    (by nlinarith [mul_self_nonneg lv.c0, mul_self_nonneg lv.c1])
    (by intro h0; obtain ⟨z0, z1⟩ := sq2_zero h0; rw [z0, z1]; ring)
  unfold cylSide
  simp only [sge, sle, slt, sabs, lit_zero, Bool.or_eq_true, Bool.and_eq_true, hmul, hadd, hsub]
  set q := _ray_quad (lv.c0 * lv.c0 + lv.c1 * lv.c1) (lv.c0 * lp.c0 + lv.c1 * lp.c1)
    (lp.c0 * lp.c0 + lp.c1 * lp.c1 - size.c0 * size.c0) with hqdef
  dsimp only at hq
  split_ifs with h1 h2 <;> simp only []
  · right
    refine ⟨h1.1, rfl, ?_, h1.2⟩
    have := (hq.1 h1.1).1
    nlinarith [this]
  · left; exact h
  · left; exact h

/-! ## ray_box: stage decomposition in continuation-passing form
  `boxFaceK` / `boxAxisK` are K-generic transcriptions of one face test / one axis block of the generated
  `ray_box`; `ray_box_eq` (by `rfl`) ties the generated definition to their composition. -/

/-- one face test of `ray_box` in continuation-passing form. `lpi lvi szi` are the coordinates along the
    face's axis, `lp0 lv0 sz0`, `lp1 lv1 sz1` those of the two in-face axes. -/
def boxFaceK {K : Type} [Scalar K] {α : Type} (axis sgn i0 i1 : Int) (lpi lvi szi lp0 lv0 sz0 lp1 lv1 sz1 : K)
    (setAll : V6 K → K → V6 K)
    (id0 id1 : Int) (p0 p1 : K) (all : V6 K) (x : K) (face_axis face_side : Int)
    (k : K → Int → Int → K → K → V6 K → K → Int → Int → α) : α :=
  let sol : K := ((((Scalar.lit sgn 0 : K) * szi) - lpi) / lvi)
  let (id0, id1, p0, p1, all, x, face_axis, face_side) :=
    if (Scalar.ge sol (Scalar.lit 0 0 : K)) then
      let p0 : K := (lp0 + (sol * lv0))
      let p1 : K := (lp1 + (sol * lv1))
      let (x, face_axis, face_side, all) :=
        if ((Scalar.le (Scalar.abs p0) sz0) && (Scalar.le (Scalar.abs p1) sz1)) then
          let (x, face_axis, face_side) :=
            if ((Scalar.lt x (Scalar.lit 0 0 : K)) || (Scalar.lt sol x)) then
              (sol, axis, sgn)
            else
              (x, face_axis, face_side)
          let all : V6 K := setAll all sol
          (x, face_axis, face_side, all)
        else
          (x, face_axis, face_side, all)
      (i0, i1, p0, p1, all, x, face_axis, face_side)
    else
      (id0, id1, p0, p1, all, x, face_axis, face_side)
  k sol id0 id1 p0 p1 all x face_axis face_side

/-- both faces of one axis, gated by `|lvec_axis| > MJ_MINVAL` -/
def boxAxisK {K : Type} [Scalar K] {α : Type} (axis i0 i1 : Int) (lpi lvi szi lp0 lv0 sz0 lp1 lv1 sz1 : K)
    (setAllM setAllP : V6 K → K → V6 K)
    (sol : K) (id0 id1 : Int) (p0 p1 : K) (all : V6 K) (x : K) (face_axis face_side : Int)
    (k : K → Int → Int → K → K → V6 K → K → Int → Int → α) : α :=
  let (sol, id0, id1, p0, p1, all, x, face_axis, face_side) :=
    if (Scalar.gt (Scalar.abs lvi) (Scalar.lit 1 (-15) : K)) then
      boxFaceK axis (-1 : Int) i0 i1 lpi lvi szi lp0 lv0 sz0 lp1 lv1 sz1 setAllM id0 id1 p0 p1 all x face_axis face_side
        (fun sol id0 id1 p0 p1 all x face_axis face_side =>
          boxFaceK axis (1 : Int) i0 i1 lpi lvi szi lp0 lv0 sz0 lp1 lv1 sz1 setAllP id0 id1 p0 p1 all x face_axis face_side
            (fun sol id0 id1 p0 p1 all x face_axis face_side =>
              (sol, id0, id1, p0, p1, all, x, face_axis, face_side)))
    else
      (sol, id0, id1, p0, p1, all, x, face_axis, face_side)
  k sol id0 id1 p0 p1 all x face_axis face_side

def boxAll0 {K : Type} [Scalar K] : V6 K := (⟨(Scalar.lit (-1) 0 : K), (Scalar.lit (-1) 0 : K), (Scalar.lit (-1) 0 : K), (Scalar.lit (-1) 0 : K), (Scalar.lit (-1) 0 : K), (Scalar.lit (-1) 0 : K)⟩ : V6 K)

def boxNormal {K : Type} [Scalar K] (mat : M33 K) (x : K) (face_axis face_side : Int) : V3 K :=
    let normal : V3 K := (V3.zero : V3 K)
    let normal :=
      if (Scalar.ge x (Scalar.lit 0 0 : K)) then
        let normal : V3 K := V3.set normal face_axis (Scalar.ofInt face_side : K)
        let normal : V3 K := (M33.mulVec mat normal)
        normal
      else
        normal
    normal

theorem ray_box_eq (pos : V3 ℝ) (mat : M33 ℝ) (size pnt vec : V3 ℝ) :
    ray_box pos mat size pnt vec =
      (let (dist_sphere, _) := ray_sphere pos (V3.dot size size) pnt vec
       if Scalar.lt dist_sphere (Scalar.lit 0 0 : ℝ) then
         ((Scalar.lit (-1) 0 : ℝ), boxAll0, (V3.zero : V3 ℝ))
       else
         let (lpnt, lvec) := _ray_map pos mat pnt vec
         boxAxisK 0 1 2 lpnt.c0 lvec.c0 size.c0 lpnt.c1 lvec.c1 size.c1 lpnt.c2 lvec.c2 size.c2
           (fun all sol => { all with c0 := sol }) (fun all sol => { all with c1 := sol })
           (Scalar.lit 0 0 : ℝ) 0 0 (Scalar.lit 0 0 : ℝ) (Scalar.lit 0 0 : ℝ) boxAll0 (Scalar.lit (-1) 0 : ℝ) (-1) (-1)
           (fun sol id0 id1 p0 p1 all x face_axis face_side =>
         boxAxisK 1 0 2 lpnt.c1 lvec.c1 size.c1 lpnt.c0 lvec.c0 size.c0 lpnt.c2 lvec.c2 size.c2
           (fun all sol => { all with c2 := sol }) (fun all sol => { all with c3 := sol })
           sol id0 id1 p0 p1 all x face_axis face_side
           (fun sol id0 id1 p0 p1 all x face_axis face_side =>
         boxAxisK 2 0 1 lpnt.c2 lvec.c2 size.c2 lpnt.c0 lvec.c0 size.c0 lpnt.c1 lvec.c1 size.c1
           (fun all sol => { all with c4 := sol }) (fun all sol => { all with c5 := sol })
           sol id0 id1 p0 p1 all x face_axis face_side
           (fun sol id0 id1 p0 p1 all x face_axis face_side =>
             (x, all, boxNormal mat x face_axis face_side))))) := by
  rfl


/-- `t` is a non-negative ray parameter at which the local ray point lies on the face `axis = sgn·size`
    within the bounds of the two other axes -/
def FaceCand (lpi lvi szi lp0 lv0 sz0 lp1 lv1 sz1 : ℝ) (sgn : Int) (t : ℝ) : Prop :=
  0 ≤ t ∧ lpi + t * lvi = (sgn : ℝ) * szi ∧ |lp0 + t * lv0| ≤ sz0 ∧ |lp1 + t * lv1| ≤ sz1

theorem lit_int (n : Int) : (Scalar.lit n 0 : ℝ) = (n : ℝ) := by simp

theorem boxFaceK_spec (axis sgn i0 i1 : Int) (lpi lvi szi lp0 lv0 sz0 lp1 lv1 sz1 : ℝ)
    (setAll : V6 ℝ → ℝ → V6 ℝ) (id0 id1 : Int) (p0 p1 : ℝ) (all : V6 ℝ) (x : ℝ) (fa fs : Int)
    (I : ℝ → Int → Int → Prop) (C : ℝ → Prop)
    (hlv : lvi ≠ 0) (hx : x = -1 ∨ 0 ≤ x) (hI : 0 ≤ x → I x fa fs) (hC : ∀ t, C t → 0 ≤ x ∧ x ≤ t)
    (hnew : ∀ t, FaceCand lpi lvi szi lp0 lv0 sz0 lp1 lv1 sz1 sgn t → I t axis sgn) :
    ∃ (sol' : ℝ) (id0' id1' : Int) (p0' p1' : ℝ) (all' : V6 ℝ) (x' : ℝ) (fa' fs' : Int),
      (∀ {α : Type} (k : ℝ → Int → Int → ℝ → ℝ → V6 ℝ → ℝ → Int → Int → α),
        boxFaceK axis sgn i0 i1 lpi lvi szi lp0 lv0 sz0 lp1 lv1 sz1 setAll id0 id1 p0 p1 all x fa fs k
          = k sol' id0' id1' p0' p1' all' x' fa' fs') ∧
      (x' = -1 ∨ 0 ≤ x') ∧ (0 ≤ x' → I x' fa' fs') ∧
      (∀ t, (C t ∨ FaceCand lpi lvi szi lp0 lv0 sz0 lp1 lv1 sz1 sgn t) → 0 ≤ x' ∧ x' ≤ t) := by
  have huniq : ∀ t, FaceCand lpi lvi szi lp0 lv0 sz0 lp1 lv1 sz1 sgn t → t = ((sgn : ℝ) * szi - lpi) / lvi := by
    intro t ht
    have := ht.2.1
    field_simp
    linarith
  have hon : lpi + ((sgn : ℝ) * szi - lpi) / lvi * lvi = (sgn : ℝ) * szi := cap_z _ _ _ hlv
  generalize hsol : ((sgn : ℝ) * szi - lpi) / lvi = sol at huniq hon
  by_cases h1 : 0 ≤ sol
  · by_cases h2 : |lp0 + sol * lv0| ≤ sz0 ∧ |lp1 + sol * lv1| ≤ sz1
    · have hcand : FaceCand lpi lvi szi lp0 lv0 sz0 lp1 lv1 sz1 sgn sol := ⟨h1, hon, h2.1, h2.2⟩
      by_cases h3 : x < 0 ∨ sol < x
      · refine ⟨sol, i0, i1, lp0 + sol * lv0, lp1 + sol * lv1, setAll all sol, sol, axis, sgn, ?_, Or.inr h1,
          fun _ => hnew sol hcand, ?_⟩
        · intro α k
          simp only [boxFaceK, sge, sle, slt, sabs, lit_zero, lit_int sgn, Bool.and_eq_true, Bool.or_eq_true,
            hmul, hadd, hsub, hdiv, hsol, h1, h2, h3, and_self, if_true]
        · rintro t (ht | ht)
          · obtain ⟨a, b⟩ := hC t ht
            rcases h3 with h3 | h3
            · linarith
            · exact ⟨h1, by linarith⟩
          · rw [huniq t ht]; exact ⟨h1, le_refl _⟩
      · refine ⟨sol, i0, i1, lp0 + sol * lv0, lp1 + sol * lv1, setAll all sol, x, fa, fs, ?_, hx, hI, ?_⟩
        · intro α k
          simp only [boxFaceK, sge, sle, slt, sabs, lit_zero, lit_int sgn, Bool.and_eq_true, Bool.or_eq_true,
            hmul, hadd, hsub, hdiv, hsol, h1, h2, h3, and_self, if_true, if_false]
        · rw [not_or, not_lt, not_lt] at h3
          rintro t (ht | ht)
          · exact hC t ht
          · rw [huniq t ht]; exact h3
    · refine ⟨sol, i0, i1, lp0 + sol * lv0, lp1 + sol * lv1, all, x, fa, fs, ?_, hx, hI, ?_⟩
      · intro α k
        simp only [boxFaceK, sge, sle, slt, sabs, lit_zero, lit_int sgn, Bool.and_eq_true, Bool.or_eq_true,
          hmul, hadd, hsub, hdiv, hsol, h1, h2, and_self, if_true, if_false]
      · rintro t (ht | ht)
        · exact hC t ht
        · exfalso; have := huniq t ht; subst this; exact h2 ⟨ht.2.2.1, ht.2.2.2⟩
  · refine ⟨sol, id0, id1, p0, p1, all, x, fa, fs, ?_, hx, hI, ?_⟩
    · intro α k
      simp only [boxFaceK, sge, sle, slt, sabs, lit_zero, lit_int sgn, Bool.and_eq_true, Bool.or_eq_true,
        hmul, hadd, hsub, hdiv, hsol, h1, if_false]
    · rintro t (ht | ht)
      · exact hC t ht
      · exfalso; have := huniq t ht; subst this; exact h1 ht.1

theorem boxAxisK_spec (axis i0 i1 : Int) (lpi lvi szi lp0 lv0 sz0 lp1 lv1 sz1 : ℝ)
    (setAllM setAllP : V6 ℝ → ℝ → V6 ℝ) (sol : ℝ) (id0 id1 : Int) (p0 p1 : ℝ) (all : V6 ℝ) (x : ℝ)
    (fa fs : Int) (I : ℝ → Int → Int → Prop) (C : ℝ → Prop)
    (hx : x = -1 ∨ 0 ≤ x) (hI : 0 ≤ x → I x fa fs) (hC : ∀ t, C t → 0 ≤ x ∧ x ≤ t)
    (hnewM : ∀ t, FaceCand lpi lvi szi lp0 lv0 sz0 lp1 lv1 sz1 (-1) t → I t axis (-1))
    (hnewP : ∀ t, FaceCand lpi lvi szi lp0 lv0 sz0 lp1 lv1 sz1 1 t → I t axis 1) :
    ∃ (sol' : ℝ) (id0' id1' : Int) (p0' p1' : ℝ) (all' : V6 ℝ) (x' : ℝ) (fa' fs' : Int),
      (∀ {α : Type} (k : ℝ → Int → Int → ℝ → ℝ → V6 ℝ → ℝ → Int → Int → α),
        boxAxisK axis i0 i1 lpi lvi szi lp0 lv0 sz0 lp1 lv1 sz1 setAllM setAllP sol id0 id1 p0 p1 all x fa fs k
          = k sol' id0' id1' p0' p1' all' x' fa' fs') ∧
      (x' = -1 ∨ 0 ≤ x') ∧ (0 ≤ x' → I x' fa' fs') ∧
      (∀ t, (C t ∨ (minval < |lvi| ∧ (FaceCand lpi lvi szi lp0 lv0 sz0 lp1 lv1 sz1 (-1) t ∨
          FaceCand lpi lvi szi lp0 lv0 sz0 lp1 lv1 sz1 1 t))) → 0 ≤ x' ∧ x' ≤ t) := by
  by_cases hg : minval < |lvi|
  · have hlv : lvi ≠ 0 := by
      intro h0; rw [h0, abs_zero] at hg; linarith [minval_pos]
    obtain ⟨sa, ia0, ia1, pa0, pa1, alla, xa, faa, fsa, eqa, hxa, hIa, hCa⟩ :=
      boxFaceK_spec axis (-1) i0 i1 lpi lvi szi lp0 lv0 sz0 lp1 lv1 sz1 setAllM id0 id1 p0 p1 all x fa fs
        I C hlv hx hI hC hnewM
    obtain ⟨sb, ib0, ib1, pb0, pb1, allb, xb, fab, fsb, eqb, hxb, hIb, hCb⟩ :=
      boxFaceK_spec axis 1 i0 i1 lpi lvi szi lp0 lv0 sz0 lp1 lv1 sz1 setAllP ia0 ia1 pa0 pa1 alla xa faa fsa
        I _ hlv hxa hIa hCa hnewP
    refine ⟨sb, ib0, ib1, pb0, pb1, allb, xb, fab, fsb, ?_, hxb, hIb, ?_⟩
    · intro α k
      simp only [boxAxisK, sgt, sabs, lit_minval', hg, if_true]
      rw [eqa, eqb]
    · rintro t (ht | ⟨-, ht | ht⟩)
      · exact hCb t (Or.inl (Or.inl ht))
      · exact hCb t (Or.inl (Or.inr ht))
      · exact hCb t (Or.inr ht)
  · refine ⟨sol, id0, id1, p0, p1, all, x, fa, fs, ?_, hx, hI, ?_⟩
    · intro α k
      simp only [boxAxisK, sgt, sabs, lit_minval', hg, if_false]
    · rintro t (ht | ⟨hg', -⟩)
      · exact hC t ht
      · exact absurd hg' hg

/-- the ray point at parameter `t` lies on face (`fa`, `fs`) of the box, `fs = ∓1` -/
def BoxHit (lp lv size : V3 ℝ) (t : ℝ) (fa fs : Int) : Prop :=
  (fs = -1 ∨ fs = 1) ∧
  ((fa = 0 ∧ FaceCand lp.c0 lv.c0 size.c0 lp.c1 lv.c1 size.c1 lp.c2 lv.c2 size.c2 fs t) ∨
   (fa = 1 ∧ FaceCand lp.c1 lv.c1 size.c1 lp.c0 lv.c0 size.c0 lp.c2 lv.c2 size.c2 fs t) ∨
   (fa = 2 ∧ FaceCand lp.c2 lv.c2 size.c2 lp.c0 lv.c0 size.c0 lp.c1 lv.c1 size.c1 fs t))

/-- `t ≥ 0` is a ray parameter at which the ray meets one of the (up to six) faces that the code tests,
    i.e. faces whose axis has `|lvec_axis| > MJ_MINVAL` -/
def BoxCand (lp lv size : V3 ℝ) (t : ℝ) : Prop :=
  (minval < |lv.c0| ∧ (FaceCand lp.c0 lv.c0 size.c0 lp.c1 lv.c1 size.c1 lp.c2 lv.c2 size.c2 (-1) t ∨
      FaceCand lp.c0 lv.c0 size.c0 lp.c1 lv.c1 size.c1 lp.c2 lv.c2 size.c2 1 t)) ∨
  (minval < |lv.c1| ∧ (FaceCand lp.c1 lv.c1 size.c1 lp.c0 lv.c0 size.c0 lp.c2 lv.c2 size.c2 (-1) t ∨
      FaceCand lp.c1 lv.c1 size.c1 lp.c0 lv.c0 size.c0 lp.c2 lv.c2 size.c2 1 t)) ∨
  (minval < |lv.c2| ∧ (FaceCand lp.c2 lv.c2 size.c2 lp.c0 lv.c0 size.c0 lp.c1 lv.c1 size.c1 (-1) t ∨
      FaceCand lp.c2 lv.c2 size.c2 lp.c0 lv.c0 size.c0 lp.c1 lv.c1 size.c1 1 t))

theorem ray_box_spec (pos : V3 ℝ) (mat : M33 ℝ) (size pnt vec : V3 ℝ) :
    ((ray_sphere pos (V3.dot size size) pnt vec).1 < 0 ∧
      ray_box pos mat size pnt vec = (-1, boxAll0, V3.zero)) ∨
    (¬ (ray_sphere pos (V3.dot size size) pnt vec).1 < 0 ∧
      ∃ (x : ℝ) (fa fs : Int) (all : V6 ℝ),
        ray_box pos mat size pnt vec = (x, all, boxNormal mat x fa fs) ∧ (x = -1 ∨ 0 ≤ x) ∧
        (0 ≤ x → BoxHit (_ray_map pos mat pnt vec).1 (_ray_map pos mat pnt vec).2 size x fa fs) ∧
        (∀ t, BoxCand (_ray_map pos mat pnt vec).1 (_ray_map pos mat pnt vec).2 size t → 0 ≤ x ∧ x ≤ t)) := by
  obtain ⟨lp, lv, hl⟩ : ∃ lp lv, _ray_map pos mat pnt vec = (lp, lv) := ⟨_, _, rfl⟩
  obtain ⟨d, n, hd⟩ : ∃ d n, ray_sphere pos (V3.dot size size) pnt vec = (d, n) := ⟨_, _, rfl⟩
  rw [ray_box_eq, hl, hd]
  simp only [slt, lit_zero, lit_neg_one]
  by_cases hneg : d < 0
  · left
    exact ⟨hneg, by rw [if_pos hneg]⟩
  · right
    refine ⟨hneg, ?_⟩
    rw [if_neg hneg]
    obtain ⟨s0, i0, j0, p0, q0, all0, x0, fa0, fs0, eq0, hx0, hI0, hC0⟩ :=
      boxAxisK_spec 0 1 2 lp.c0 lv.c0 size.c0 lp.c1 lv.c1 size.c1 lp.c2 lv.c2 size.c2
        (fun all sol => { all with c0 := sol }) (fun all sol => { all with c1 := sol })
        0 0 0 0 0 boxAll0 (-1) (-1) (-1) (BoxHit lp lv size) (fun _ => False)
        (Or.inl rfl) (fun h => absurd h (by norm_num)) (fun t h => h.elim)
        (fun t h => ⟨Or.inl rfl, Or.inl ⟨rfl, h⟩⟩) (fun t h => ⟨Or.inr rfl, Or.inl ⟨rfl, h⟩⟩)
    obtain ⟨s1, i1, j1, p1, q1, all1, x1, fa1, fs1, eq1, hx1, hI1, hC1⟩ :=
      boxAxisK_spec 1 0 2 lp.c1 lv.c1 size.c1 lp.c0 lv.c0 size.c0 lp.c2 lv.c2 size.c2
        (fun all sol => { all with c2 := sol }) (fun all sol => { all with c3 := sol })
        s0 i0 j0 p0 q0 all0 x0 fa0 fs0 (BoxHit lp lv size) _ hx0 hI0 hC0
        (fun t h => ⟨Or.inl rfl, Or.inr (Or.inl ⟨rfl, h⟩)⟩) (fun t h => ⟨Or.inr rfl, Or.inr (Or.inl ⟨rfl, h⟩)⟩)
    obtain ⟨s2, i2, j2, p2, q2, all2, x2, fa2, fs2, eq2, hx2, hI2, hC2⟩ :=
      boxAxisK_spec 2 0 1 lp.c2 lv.c2 size.c2 lp.c0 lv.c0 size.c0 lp.c1 lv.c1 size.c1
        (fun all sol => { all with c4 := sol }) (fun all sol => { all with c5 := sol })
        s1 i1 j1 p1 q1 all1 x1 fa1 fs1 (BoxHit lp lv size) _ hx1 hI1 hC1
        (fun t h => ⟨Or.inl rfl, Or.inr (Or.inr ⟨rfl, h⟩)⟩) (fun t h => ⟨Or.inr rfl, Or.inr (Or.inr ⟨rfl, h⟩)⟩)
    refine ⟨x2, fa2, fs2, all2, ?_, hx2, hI2, ?_⟩
    · rw [eq0, eq1, eq2]
    · rintro t (ht | ht | ht)
      · exact hC2 t (Or.inl (Or.inl (Or.inr ht)))
      · exact hC2 t (Or.inl (Or.inr ht))
      · exact hC2 t (Or.inr ht)

/-! ## ray_capsule: stage decomposition in continuation-passing form -/

/-- candidate update of `ray_capsule` (one root of one cap), continuation-passing -/
def capsUpdK {K : Type} [Scalar K] {α : Type} (x : K) (part : Int) (root : K) (ok : Bool) (pt : Int)
    (k : K → Int → α) : α :=
  let (x, part) :=
    if ((Scalar.ge root (Scalar.lit 0 0 : K)) && ok) then
      let (x, part) :=
        if ((Scalar.lt x (Scalar.lit 0 0 : K)) || (Scalar.lt root x)) then
          (root, pt)
        else
          (x, part)
      (x, part)
    else
      (x, part)
  k x part

/-- one spherical cap of `ray_capsule` (centre `(0,0,zc')`, `zc = lpnt.z - zc'`), continuation-passing -/
def capsCapK {K : Type} [Scalar K] {α : Type} (lpnt lvec size : V3 K) (zc : K) (okf : K → Bool) (pt : Int)
    (x : K) (part : Int) (k : K → Int → α) : α :=
  let sq_size0 : K := (size.c0 * size.c0)
  let a : K := (((lvec.c0 * lvec.c0) + (lvec.c1 * lvec.c1)) + (lvec.c2 * lvec.c2))
  let ldif : V3 K := (⟨lpnt.c0, lpnt.c1, zc⟩ : V3 K)
  let b : K := (V3.dot lvec ldif)
  let c : K := ((V3.dot ldif ldif) - sq_size0)
  let (_, xx) := (Mjw.Gen.Ray._ray_quad (K := K) a b c)
  capsUpdK x part xx.c0 (okf xx.c0) pt (fun x part => capsUpdK x part xx.c1 (okf xx.c1) pt k)

/-- cylinder-side test of `ray_capsule`, continuation-passing -/
def capsSideK {K : Type} [Scalar K] {α : Type} (lpnt lvec size : V3 K) (k : K → α) : α :=
  let x : K := (Scalar.lit (-1) 0 : K)
  let sq_size0 : K := (size.c0 * size.c0)
  let a : K := ((lvec.c0 * lvec.c0) + (lvec.c1 * lvec.c1))
  let b : K := ((lvec.c0 * lpnt.c0) + (lvec.c1 * lpnt.c1))
  let c : K := (((lpnt.c0 * lpnt.c0) + (lpnt.c1 * lpnt.c1)) - sq_size0)
  let (sol, xx) := (Mjw.Gen.Ray._ray_quad (K := K) a b c)
  let x :=
    if ((Scalar.ge sol (Scalar.lit 0 0 : K)) && (Scalar.le (Scalar.abs (lpnt.c2 + (sol * lvec.c2))) size.c1)) then
      let x :=
        if ((Scalar.lt x (Scalar.lit 0 0 : K)) || (Scalar.lt sol x)) then
          sol
        else
          x
      x
    else
      x
  k x

def capsNormal {K : Type} [Scalar K] (mat : M33 K) (lpnt lvec size : V3 K) (x : K) (part : Int) : V3 K :=
    let normal : V3 K := (V3.zero : V3 K)
    let normal :=
      if (Scalar.ge x (Scalar.lit 0 0 : K)) then
        let normal : V3 K := { normal with c0 := (lpnt.c0 + (lvec.c0 * x)) }
        let normal : V3 K := { normal with c1 := (lpnt.c1 + (lvec.c1 * x)) }
        let normal :=
          if (decide (part = (0 : Int))) then
            let normal : V3 K := { normal with c2 := (Scalar.lit 0 0 : K) }
            normal
          else
            let normal : V3 K := { normal with c2 := ((lpnt.c2 + (lvec.c2 * x)) - (size.c1 * (Scalar.ofInt part : K))) }
            normal
        let normal : V3 K := (V3.normalize normal)
        let normal : V3 K := (M33.mulVec mat normal)
        normal
      else
        normal
    normal

theorem ray_capsule_eq (pos : V3 ℝ) (mat : M33 ℝ) (size pnt vec : V3 ℝ) :
    ray_capsule pos mat size pnt vec =
      (let ssz : ℝ := size.c0 + size.c1
       let (dist_sphere, normal_sphere) := ray_sphere pos (ssz * ssz) pnt vec
       if Scalar.lt dist_sphere (Scalar.lit 0 0 : ℝ) then ((Scalar.lit (-1) 0 : ℝ), (V3.zero : V3 ℝ))
       else
         let (lpnt, lvec) := _ray_map pos mat pnt vec
         capsSideK lpnt lvec size (fun x =>
         capsCapK lpnt lvec size (lpnt.c2 - size.c1) (fun r => Scalar.ge (lpnt.c2 + (r * lvec.c2)) size.c1) 1 x 0
           (fun x part =>
         capsCapK lpnt lvec size (lpnt.c2 + size.c1) (fun r => Scalar.le (lpnt.c2 + (r * lvec.c2)) (-size.c1)) (-1)
           x part (fun x part => (x, capsNormal mat lpnt lvec size x part))))) := by
  rfl

theorem capsUpdK_spec (x : ℝ) (part : Int) (root : ℝ) (ok : Bool) (pt : Int) (I : ℝ → Int → Prop)
    (hx : x = -1 ∨ 0 ≤ x) (hI : 0 ≤ x → I x part) (hnew : 0 ≤ root → ok = true → I root pt) :
    ∃ (x' : ℝ) (part' : Int),
      (∀ {α : Type} (k : ℝ → Int → α), capsUpdK x part root ok pt k = k x' part') ∧
      (x' = -1 ∨ 0 ≤ x') ∧ (0 ≤ x' → I x' part') := by
  by_cases h1 : 0 ≤ root ∧ ok = true
  · by_cases h2 : x < 0 ∨ root < x
    · refine ⟨root, pt, ?_, Or.inr h1.1, fun _ => hnew h1.1 h1.2⟩
      intro α k
      simp only [capsUpdK, sge, slt, lit_zero, Bool.and_eq_true, Bool.or_eq_true, h1, h2, and_self, if_true]
    · refine ⟨x, part, ?_, hx, hI⟩
      intro α k
      simp only [capsUpdK, sge, slt, lit_zero, Bool.and_eq_true, Bool.or_eq_true, h1, h2, and_self, if_true,
        if_false]
  · refine ⟨x, part, ?_, hx, hI⟩
    intro α k
    simp only [capsUpdK, sge, slt, lit_zero, Bool.and_eq_true, Bool.or_eq_true, h1, if_false]

theorem capsCapK_spec (lp lv size : V3 ℝ) (zc : ℝ) (okf : ℝ → Bool) (pt : Int) (x : ℝ) (part : Int)
    (I : ℝ → Int → Prop) (hx : x = -1 ∨ 0 ≤ x) (hI : 0 ≤ x → I x part)
    (hnew : ∀ r : ℝ, 0 ≤ r → okf r = true →
      (lp.c0 + r * lv.c0) * (lp.c0 + r * lv.c0) + (lp.c1 + r * lv.c1) * (lp.c1 + r * lv.c1) +
        (zc + r * lv.c2) * (zc + r * lv.c2) = size.c0 * size.c0 → I r pt) :
    ∃ (x' : ℝ) (part' : Int),
      (∀ {α : Type} (k : ℝ → Int → α), capsCapK lp lv size zc okf pt x part k = k x' part') ∧
      (x' = -1 ∨ 0 ≤ x') ∧ (0 ≤ x' → I x' part') := by
  have hq := quad_sol (lv.c0 * lv.c0 + lv.c1 * lv.c1 + lv.c2 * lv.c2)
    (lv.c0 * lp.c0 + lv.c1 * lp.c1 + lv.c2 * zc)
    (lp.c0 * lp.c0 + lp.c1 * lp.c1 + zc * zc - size.c0 * size.c0)
    (by nlinarith [mul_self_nonneg lv.c0, mul_self_nonneg lv.c1, mul_self_nonneg lv.c2])
    (by intro h0; obtain ⟨z0, z1, z2⟩ := sq3_zero h0; rw [z0, z1, z2]; ring)
  dsimp only at hq
  obtain ⟨-, -, hr0, hr1⟩ := hq
  set q := _ray_quad (lv.c0 * lv.c0 + lv.c1 * lv.c1 + lv.c2 * lv.c2)
    (lv.c0 * lp.c0 + lv.c1 * lp.c1 + lv.c2 * zc)
    (lp.c0 * lp.c0 + lp.c1 * lp.c1 + zc * zc - size.c0 * size.c0) with hqdef
  obtain ⟨xa, pa, eqa, hxa, hIa⟩ := capsUpdK_spec x part q.2.c0 (okf q.2.c0) pt I hx hI
    (fun h0 hok => hnew _ h0 hok (by have := hr0 h0; nlinarith [this]))
  obtain ⟨xb, pb, eqb, hxb, hIb⟩ := capsUpdK_spec xa pa q.2.c1 (okf q.2.c1) pt I hxa hIa
    (fun h0 hok => hnew _ h0 hok (by have := hr1 h0; nlinarith [this]))
  refine ⟨xb, pb, ?_, hxb, hIb⟩
  intro α k
  simp only [capsCapK, V3.dot, hmul, hadd, hsub, ← hqdef]
  rw [eqa, eqb]

/-- the ray point at parameter `t` lies on part `part` of the capsule surface
    (0 = cylinder side, 1 = top cap, -1 = bottom cap) -/
def CapsHit (lp lv size : V3 ℝ) (t : ℝ) (part : Int) : Prop :=
  (part = 0 ∧ (lp.c0 + t * lv.c0) * (lp.c0 + t * lv.c0) + (lp.c1 + t * lv.c1) * (lp.c1 + t * lv.c1) =
      size.c0 * size.c0 ∧ |lp.c2 + t * lv.c2| ≤ size.c1) ∨
  (part = 1 ∧ (lp.c0 + t * lv.c0) * (lp.c0 + t * lv.c0) + (lp.c1 + t * lv.c1) * (lp.c1 + t * lv.c1) +
      (lp.c2 + t * lv.c2 - size.c1) * (lp.c2 + t * lv.c2 - size.c1) = size.c0 * size.c0 ∧
      size.c1 ≤ lp.c2 + t * lv.c2) ∨
  (part = -1 ∧ (lp.c0 + t * lv.c0) * (lp.c0 + t * lv.c0) + (lp.c1 + t * lv.c1) * (lp.c1 + t * lv.c1) +
      (lp.c2 + t * lv.c2 + size.c1) * (lp.c2 + t * lv.c2 + size.c1) = size.c0 * size.c0 ∧
      lp.c2 + t * lv.c2 ≤ -size.c1)

theorem capsSideK_spec (lp lv size : V3 ℝ) :
    ∃ x' : ℝ, (∀ {α : Type} (k : ℝ → α), capsSideK lp lv size k = k x') ∧
      (x' = -1 ∨ 0 ≤ x') ∧ (0 ≤ x' → CapsHit lp lv size x' 0) := by
  have hq := quad_sol (lv.c0 * lv.c0 + lv.c1 * lv.c1) (lv.c0 * lp.c0 + lv.c1 * lp.c1)
    (lp.c0 * lp.c0 + lp.c1 * lp.c1 - size.c0 * size.c0)
    (by nlinarith [mul_self_nonneg lv.c0, mul_self_nonneg lv.c1])
    (by intro h0; obtain ⟨z0, z1⟩ := sq2_zero h0; rw [z0, z1]; ring)
  dsimp only at hq
  obtain ⟨hr, -, -, -⟩ := hq
  set q := _ray_quad (lv.c0 * lv.c0 + lv.c1 * lv.c1) (lv.c0 * lp.c0 + lv.c1 * lp.c1)
    (lp.c0 * lp.c0 + lp.c1 * lp.c1 - size.c0 * size.c0) with hqdef
  by_cases h1 : 0 ≤ q.1 ∧ |lp.c2 + q.1 * lv.c2| ≤ size.c1
  · refine ⟨q.1, ?_, Or.inr h1.1, fun _ => Or.inl ⟨rfl, ?_, h1.2⟩⟩
    · intro α k
      have hlt : (-1 : ℝ) < 0 ∨ q.1 < -1 := Or.inl (by norm_num)
      simp only [capsSideK, sge, sle, slt, sabs, lit_zero, lit_neg_one, Bool.and_eq_true, Bool.or_eq_true,
        hmul, hadd, hsub, ← hqdef, h1, hlt, and_self, if_true]
    · have := (hr h1.1).1
      nlinarith [this]
  · refine ⟨-1, ?_, Or.inl rfl, fun h => absurd h (by norm_num)⟩
    intro α k
    simp only [capsSideK, sge, sle, slt, sabs, lit_zero, lit_neg_one, Bool.and_eq_true, Bool.or_eq_true,
      hmul, hadd, hsub, ← hqdef, h1, if_false]

theorem ray_capsule_spec (pos : V3 ℝ) (mat : M33 ℝ) (size pnt vec : V3 ℝ) :
    ((ray_sphere pos ((size.c0 + size.c1) * (size.c0 + size.c1)) pnt vec).1 < 0 ∧
      ray_capsule pos mat size pnt vec = (-1, V3.zero)) ∨
    (¬ (ray_sphere pos ((size.c0 + size.c1) * (size.c0 + size.c1)) pnt vec).1 < 0 ∧
      ∃ (x : ℝ) (part : Int),
        ray_capsule pos mat size pnt vec =
          (x, capsNormal mat (_ray_map pos mat pnt vec).1 (_ray_map pos mat pnt vec).2 size x part) ∧
        (x = -1 ∨ 0 ≤ x) ∧
        (0 ≤ x → CapsHit (_ray_map pos mat pnt vec).1 (_ray_map pos mat pnt vec).2 size x part)) := by
  obtain ⟨lp, lv, hl⟩ : ∃ lp lv, _ray_map pos mat pnt vec = (lp, lv) := ⟨_, _, rfl⟩
  obtain ⟨d, n, hd⟩ : ∃ d n, ray_sphere pos ((size.c0 + size.c1) * (size.c0 + size.c1)) pnt vec = (d, n) :=
    ⟨_, _, rfl⟩
  rw [ray_capsule_eq]
  simp only [hl, hd, slt, lit_zero, lit_neg_one]
  by_cases hneg : d < 0
  · left
    exact ⟨hneg, by rw [if_pos hneg]⟩
  · right
    refine ⟨hneg, ?_⟩
    rw [if_neg hneg]
    obtain ⟨x0, eq0, hx0, hI0⟩ := capsSideK_spec lp lv size
    obtain ⟨x1, p1, eq1, hx1, hI1⟩ := capsCapK_spec lp lv size (lp.c2 - size.c1)
      (fun r => Scalar.ge (lp.c2 + (r * lv.c2)) size.c1) 1 x0 0 (CapsHit lp lv size) hx0 hI0
      (fun r h0 hok he => Or.inr (Or.inl ⟨rfl, by nlinarith [he], by simpa using hok⟩))
    obtain ⟨x2, p2, eq2, hx2, hI2⟩ := capsCapK_spec lp lv size (lp.c2 + size.c1)
      (fun r => Scalar.le (lp.c2 + (r * lv.c2)) (-size.c1)) (-1) x1 p1 (CapsHit lp lv size) hx1 hI1
      (fun r h0 hok he => Or.inr (Or.inr ⟨rfl, by nlinarith [he], by simpa using hok⟩))
    refine ⟨x2, p2, ?_, hx2, hI2⟩
    rw [eq0, eq1, eq2]

theorem sqrt9 : Real.sqrt 9 = 3 := by
  rw [show (9:ℝ) = 3 ^ 2 by norm_num]; exact Real.sqrt_sq (by norm_num)

theorem sqrt25 : Real.sqrt 25 = 5 := by
  rw [show (25:ℝ) = 5 ^ 2 by norm_num]; exact Real.sqrt_sq (by norm_num)

end Mjw.Lemmas.C34
