/-
  Helper lemmas for Props/C19.lean (contact pair filtering table of io.py `put_model`).
  Part A: the upper-triangular index.  Part B: the explicit-pair write loop.  Part C: bit masks.
-/
import Mathlib.Tactic.Ring
import Mathlib.Tactic.Linarith
import Mathlib.Tactic.NormNum
import MjwVerif.Model.PairFilter
import MjwVerif.Gen.Math

namespace Mjw.Lemmas.C19
open Mjw Mjw.PairFilter

/-! ## A. triu order -/

/-- number of entries of `np.triu_indices(n, k=1)` before row `i` -/
def rowStart (n : Nat) : Nat → Nat
  | 0 => 0
  | i + 1 => rowStart n i + (n - (i + 1))

/-- position of `(i, j)` in triu order -/
def natIdx (n i j : Nat) : Nat := rowStart n i + (j - i - 1)

theorem row_length (n i : Nat) : (row n i).length = n - (i + 1) := by simp [row]

theorem rows_length (n m : Nat) : ((List.range m).flatMap (row n)).length = rowStart n m := by
  induction m with
  | zero => simp [rowStart]
  | succ m ih => simp [List.range_succ, List.flatMap_append, rowStart, ih, row_length]

theorem triu_length (n : Nat) : (triu n).length = rowStart n n := rows_length n n

theorem rowStart_mono (n : Nat) {a b : Nat} (h : a ≤ b) : rowStart n a ≤ rowStart n b := by
  induction b with
  | zero => have : a = 0 := by omega
            subst this; exact Nat.le_refl _
  | succ b ih =>
    rcases Nat.lt_or_ge a (b + 1) with h1 | h1
    · have := ih (by omega); simp only [rowStart]; omega
    · have : a = b + 1 := by omega
      subst this; exact Nat.le_refl _

/-- `2 * rowStart n i = i * (2 n - 1 - i)` -/
theorem two_rowStart (n i : Nat) (h : i ≤ n) : (2 * (rowStart n i : Int)) = (i : Int) * (2 * (n : Int) - 1 - i) := by
  induction i with
  | zero => simp [rowStart]
  | succ i ih =>
    have ih' := ih (by omega)
    simp only [rowStart]
    have hc : ((n - (i + 1) : Nat) : Int) = (n : Int) - (i + 1) := by omega
    push_cast
    rw [hc]
    linarith [ih']

/-- `len = n (n - 1) / 2` -/
theorem two_triu_length (n : Nat) : 2 * (triu n).length = n * (n - 1) := by
  have h := two_rowStart n n (Nat.le_refl _)
  rw [triu_length]
  rcases n with _ | n
  · simp [rowStart]
  · rw [Nat.add_sub_cancel]
    have h' : (2 * (rowStart (n + 1) (n + 1) : Int)) = ((n : Int) + 1) * (n : Int) := by
      rw [h]; push_cast; ring
    exact_mod_cast h'

theorem row_getElem (n i k : Nat) (hk : k < n - (i + 1)) : (row n i)[k]? = some (i, i + 1 + k) := by
  simp [row, hk]

/-- inside the first `m` rows, row `i` starts at `rowStart n i` -/
theorem rows_getElem (n : Nat) : ∀ m i k, i < m → k < n - (i + 1) →
    ((List.range m).flatMap (row n))[rowStart n i + k]? = some (i, i + 1 + k) := by
  intro m
  induction m with
  | zero => intro i k hi; omega
  | succ m ih =>
    intro i k hi hk
    rw [List.range_succ, List.flatMap_append]
    have hlen := rows_length n m
    rcases Nat.lt_or_ge i m with him | him
    · have h1 : rowStart n (i + 1) ≤ rowStart n m := rowStart_mono n (by omega)
      have h2 : rowStart n i + k < rowStart n (i + 1) := by simp only [rowStart]; omega
      rw [List.getElem?_append_left (by rw [hlen]; omega)]
      exact ih i k him hk
    · have : i = m := by omega
      subst this
      rw [List.getElem?_append_right (by rw [hlen]; omega), hlen]
      simp only [List.flatMap_cons, List.flatMap_nil, List.append_nil, Nat.add_sub_cancel_left]
      exact row_getElem n i k hk

/-- POSITION: `(i, j)` with `i < j < n` sits at position `natIdx n i j` of the triu list -/
theorem triu_getElem (n i j : Nat) (hij : i < j) (hj : j < n) : (triu n)[natIdx n i j]? = some (i, j) := by
  have := rows_getElem n n i (j - i - 1) (by omega) (by omega)
  have e : i + 1 + (j - i - 1) = j := by omega
  rw [e] at this
  exact this

theorem natIdx_lt (n i j : Nat) (hij : i < j) (hj : j < n) : natIdx n i j < (triu n).length := by
  have h := triu_getElem n i j hij hj
  rcases Nat.lt_or_ge (natIdx n i j) (triu n).length with h1 | h1
  · exact h1
  · rw [List.getElem?_eq_none h1] at h; cases h

theorem natIdx_inj (n i j i' j' : Nat) (hij : i < j) (hj : j < n) (hij' : i' < j') (hj' : j' < n)
    (h : natIdx n i j = natIdx n i' j') : i = i' ∧ j = j' := by
  have h1 := triu_getElem n i j hij hj
  have h2 := triu_getElem n i' j' hij' hj'
  rw [h, h2] at h1
  simpa using (Option.some.inj h1).symm

/-- every position below `rowStart n m` lies in one of the first `m` rows -/
theorem find_row (n : Nat) : ∀ m k, k < rowStart n m → ∃ i, i < m ∧ rowStart n i ≤ k ∧ k < rowStart n (i + 1) := by
  intro m
  induction m with
  | zero => intro k hk; simp [rowStart] at hk
  | succ m ih =>
    intro k hk
    rcases Nat.lt_or_ge k (rowStart n m) with h | h
    · obtain ⟨i, hi, h1, h2⟩ := ih k h
      exact ⟨i, by omega, h1, h2⟩
    · exact ⟨m, by omega, h, hk⟩

/-- SURJECTIVITY / inverse: every position is the index of a pair `i < j < n` -/
theorem natIdx_surj (n k : Nat) (hk : k < (triu n).length) : ∃ i j, i < j ∧ j < n ∧ natIdx n i j = k := by
  rw [triu_length] at hk
  obtain ⟨i, hi, h1, h2⟩ := find_row n n k hk
  simp only [rowStart] at h2
  refine ⟨i, i + 1 + (k - rowStart n i), by omega, by omega, ?_⟩
  unfold natIdx
  omega

theorem mem_triu (n i j : Nat) : (i, j) ∈ triu n ↔ i < j ∧ j < n := by
  constructor
  · intro h
    obtain ⟨k, hk, he⟩ := List.getElem_of_mem h
    obtain ⟨i', j', h1, h2, h3⟩ := natIdx_surj n k hk
    have := triu_getElem n i' j' h1 h2
    rw [h3, List.getElem?_eq_getElem hk, he] at this
    have e := Option.some.inj this
    simp only [Prod.mk.injEq] at e
    omega
  · rintro ⟨h1, h2⟩
    exact List.mem_of_getElem? (triu_getElem n i j h1 h2)

/-- the generated (device) `upper_tri_index` (C truncating division) computes the triu position -/
theorem gen_upper_tri_index {K : Type} [Scalar K] (n i j : Nat) (hij : i < j) (hj : j < n) :
    Gen.Math.upper_tri_index (K := K) (n : Int) (i : Int) (j : Int) = (natIdx n i j : Int) := by
  unfold Gen.Math.upper_tri_index natIdx
  have h2 := two_rowStart n i (by omega)
  have e : (i : Int) * (2 * (n : Int) - i - 3) = 2 * ((rowStart n i : Int) - i) := by
    have : (i : Int) * (2 * (n : Int) - i - 3) = (i : Int) * (2 * (n : Int) - 1 - i) - 2 * i := by ring
    rw [this, ← h2]; ring
  rw [e, Int.mul_tdiv_cancel_left _ (by decide : (2 : Int) ≠ 0)]
  omega

/-- the host (io.py, floor division, with swap) `upper_tri_index` computes the triu position of the sorted pair -/
theorem host_upper_tri_index (n i j : Nat) (hij : i < j) (hj : j < n) :
    upperTriIndex (n : Int) (i : Int) (j : Int) = (natIdx n i j : Int)
      ∧ upperTriIndex (n : Int) (j : Int) (i : Int) = (natIdx n i j : Int) := by
  have h2 := two_rowStart n i (by omega)
  have e : (i : Int) * (2 * (n : Int) - i - 3) = 2 * ((rowStart n i : Int) - i) := by
    have : (i : Int) * (2 * (n : Int) - i - 3) = (i : Int) * (2 * (n : Int) - 1 - i) - 2 * i := by ring
    rw [this, ← h2]; ring
  have hf : Int.fdiv ((i : Int) * (2 * (n : Int) - i - 3)) 2 = (rowStart n i : Int) - i := by
    rw [e, Int.fdiv_eq_ediv_of_nonneg _ (by decide : (0 : Int) ≤ 2), Int.mul_ediv_cancel_left _ (by decide : (2 : Int) ≠ 0)]
  constructor
  · unfold upperTriIndex natIdx
    have : ¬ ((j : Int) < (i : Int)) := by omega
    simp only [this, if_false, hf]
    omega
  · unfold upperTriIndex natIdx
    have : ((i : Int) < (j : Int)) := by omega
    simp only [this, if_true, hf]
    omega

/-- index computed by io.py's `upper_tri_index` for a DEGENERATE pair `(k, k)`: it is the slot of the unrelated
    pair `(k-1, n-1)` for `1 ≤ k < n`, and `-1` (NumPy: the LAST slot) for `k = 0` — the reason why `put_model`
    rejects such pairs. -/
theorem self_pair_index (n k : Nat) (hk : k < n) :
    upperTriIndex (n : Int) (k : Int) (k : Int) = if k = 0 then -1 else (natIdx n (k - 1) (n - 1) : Int) := by
  have h2 := two_rowStart n k (by omega)
  have e : (k : Int) * (2 * (n : Int) - k - 3) = 2 * ((rowStart n k : Int) - k) := by
    have : (k : Int) * (2 * (n : Int) - k - 3) = (k : Int) * (2 * (n : Int) - 1 - k) - 2 * k := by ring
    rw [this, ← h2]; ring
  have hf : Int.fdiv ((k : Int) * (2 * (n : Int) - k - 3)) 2 = (rowStart n k : Int) - k := by
    rw [e, Int.fdiv_eq_ediv_of_nonneg _ (by decide : (0 : Int) ≤ 2), Int.mul_ediv_cancel_left _ (by decide : (2 : Int) ≠ 0)]
  unfold upperTriIndex
  simp only [Int.lt_irrefl, if_false, hf]
  rcases k with _ | k
  · simp [rowStart]
  · simp only [Nat.add_one_ne_zero, if_false, natIdx, Nat.add_sub_cancel, rowStart]
    omega

/-! ## B. the explicit-pair write loop -/

theorem npSet_inrange (t : List Int) (q : Nat) (v : Int) (h : q < t.length) :
    npSet t (q : Int) v = some (t.set q v) := by
  unfold npSet
  have h1 : (0 : Int) ≤ (q : Int) ∧ (q : Int) < Int.ofNat t.length := ⟨by omega, by simp only [Int.ofNat_eq_natCast]; omega⟩
  simp only [h1, and_self, if_true, Int.toNat_natCast]

theorem lastMatch_none {α : Type} (m : α → Bool) : ∀ (ps : List α) (k : Nat),
    lastMatch m ps k = none ↔ ∀ p ∈ ps, m p = false := by
  intro ps
  induction ps with
  | nil => intro k; simp [lastMatch]
  | cons p ps ih =>
    intro k
    simp only [lastMatch, List.mem_cons, forall_eq_or_imp]
    cases hl : lastMatch m ps (k + 1) with
    | some r =>
      have := (ih (k + 1)).not.mp (by rw [hl]; simp)
      simp only [reduceCtorEq, false_iff]
      intro h; exact this h.2
    | none =>
      have := (ih (k + 1)).mp hl
      cases hm : m p
      · simpa using this
      · simp

theorem lastMatch_some {α : Type} (m : α → Bool) : ∀ (ps : List α) (k r : Nat),
    lastMatch m ps k = some r ↔
      ∃ i, r = k + i ∧ ∃ h : i < ps.length, m ps[i] = true ∧ ∀ i' (h' : i' < ps.length), i < i' → m ps[i'] = false := by
  intro ps
  induction ps with
  | nil => intro k r; simp [lastMatch]
  | cons p ps ih =>
    intro k r
    simp only [lastMatch]
    cases hl : lastMatch m ps (k + 1) with
    | some r' =>
      obtain ⟨i, hi, hlt, hm, hlater⟩ := (ih (k + 1) r').mp hl
      constructor
      · intro h
        have hr : r' = r := by simpa using h
        subst hr
        refine ⟨i + 1, by omega, by simp only [List.length_cons]; omega, by simpa using hm, ?_⟩
        intro i' h' hlt'
        rcases i' with _ | i'
        · omega
        · simp only [List.getElem_cons_succ]
          exact hlater i' (by simp only [List.length_cons] at h'; omega) (by omega)
      · rintro ⟨j, hj, hjl, hjm, hjlater⟩
        -- j must be i + 1
        have : j = i + 1 := by
          rcases Nat.lt_trichotomy j (i + 1) with h | h | h
          · have := hjlater (i + 1) (by simp only [List.length_cons]; omega) h
            simp only [List.getElem_cons_succ] at this
            rw [hm] at this; cases this
          · exact h
          · rcases j with _ | j
            · omega
            · have := hlater j (by simp only [List.length_cons] at hjl; omega) (by omega)
              simp only [List.getElem_cons_succ] at hjm
              rw [hjm] at this; cases this
        subst this
        simp only [Option.some.injEq]; omega
    | none =>
      have hnone := (lastMatch_none m ps (k + 1)).mp hl
      cases hm : m p
      · simp only [Bool.false_eq_true, if_false, reduceCtorEq, false_iff]
        rintro ⟨j, hj, hjl, hjm, -⟩
        rcases j with _ | j
        · simp only [List.getElem_cons_zero] at hjm; rw [hm] at hjm; cases hjm
        · simp only [List.getElem_cons_succ] at hjm
          rw [hnone _ (List.getElem_mem _)] at hjm; cases hjm
      · simp only [if_true, Option.some.injEq]
        constructor
        · intro h
          refine ⟨0, by omega, by simp, by simpa using hm, ?_⟩
          intro i' h' hlt'
          rcases i' with _ | i'
          · omega
          · simp only [List.getElem_cons_succ]; exact hnone _ (List.getElem_mem _)
        · rintro ⟨j, hj, hjl, hjm, -⟩
          rcases j with _ | j
          · omega
          · simp only [List.getElem_cons_succ] at hjm
            rw [hnone _ (List.getElem_mem _)] at hjm; cases hjm

theorem lastMatch_congr {α : Type} (m m' : α → Bool) : ∀ (ps : List α) (k : Nat),
    (∀ p ∈ ps, m p = m' p) → lastMatch m ps k = lastMatch m' ps k := by
  intro ps
  induction ps with
  | nil => intro k _; rfl
  | cons p ps ih =>
    intro k h
    simp only [lastMatch]
    rw [ih (k + 1) (fun q hq => h q (List.mem_cons_of_mem _ hq)), h p (List.mem_cons_self ..)]

/-- the write loop: if no pair is a self pair and every write index is in range, the loop does not raise, keeps the
    length and the final value at `pos` is the id of the LAST pair whose index is `pos`, else the old value -/
theorem applyPairs_spec (n : Int) (L : Nat) : ∀ (ps : List (Int × Int)),
    (∀ p ∈ ps, p.1 ≠ p.2 ∧ ∃ q : Nat, upperTriIndex n p.1 p.2 = (q : Int) ∧ q < L) →
    ∀ (k : Nat) (t : List Int), t.length = L →
      ∃ t', applyPairs n ps k t = .ok t' ∧ t'.length = L ∧
        ∀ pos, pos < L → t'[pos]? =
          (match lastMatch (fun p => decide (upperTriIndex n p.1 p.2 = (pos : Int))) ps k with
           | some r => some (r : Int)
           | none => t[pos]?) := by
  intro ps
  induction ps with
  | nil =>
    intro _ k t ht
    exact ⟨t, rfl, ht, fun pos _ => by simp [lastMatch]⟩
  | cons p ps ih =>
    intro hps k t ht
    obtain ⟨hne, q, hq, hqL⟩ := hps p (List.mem_cons_self ..)
    have hset : npSet t (upperTriIndex n p.1 p.2) (Int.ofNat k) = some (t.set q (Int.ofNat k)) := by
      rw [hq]; exact npSet_inrange t q _ (by omega)
    obtain ⟨t', h1, h2, h3⟩ := ih (fun p' hp' => hps p' (List.mem_cons_of_mem _ hp')) (k + 1)
      (t.set q (Int.ofNat k)) (by simp [ht])
    refine ⟨t', ?_, h2, ?_⟩
    · simp only [applyPairs, if_neg hne, hset]; exact h1
    · intro pos hpos
      rw [h3 pos hpos]
      simp only [lastMatch]
      cases hl : lastMatch (fun p => decide (upperTriIndex n p.1 p.2 = (pos : Int))) ps (k + 1) with
      | some r => rfl
      | none =>
        simp only []
        rw [List.getElem?_set]
        by_cases hqp : q = pos
        · subst hqp
          simp [hq, ht, hqL]
        · have : ¬ (upperTriIndex n p.1 p.2 = (pos : Int)) := by rw [hq]; omega
          simp [hqp, this]

/-- ACCEPTANCE EXCLUDES SELF PAIRS (no hypothesis): if the loop completes, no pair lists a geom twice — the test
    `pair_geom1[i] == pair_geom2[i]` precedes every write -/
theorem applyPairs_ok_no_self (n : Int) : ∀ (ps : List (Int × Int)) (k : Nat) (t t' : List Int),
    applyPairs n ps k t = .ok t' → ∀ p ∈ ps, p.1 ≠ p.2 := by
  intro ps
  induction ps with
  | nil => intro k t t' _ p hp; cases hp
  | cons p ps ih =>
    intro k t t' h q hq
    by_cases hself : p.1 = p.2
    · simp only [applyPairs, if_pos hself, reduceCtorEq] at h
    · simp only [applyPairs, if_neg hself] at h
      cases hs : npSet t (upperTriIndex n p.1 p.2) (Int.ofNat k) with
      | none => rw [hs] at h; simp only [reduceCtorEq] at h
      | some t'' =>
        rw [hs] at h
        rcases List.mem_cons.mp hq with rfl | hq'
        · exact hself
        · exact ih (k + 1) t'' t' h q hq'

/-- REJECTION: if the writes of the proper pairs are in range (so that no IndexError comes first) and some pair is a
    self pair, the loop ends with NotImplementedError -/
theorem applyPairs_self_rejected (n : Int) (L : Nat) : ∀ (ps : List (Int × Int)),
    (∀ p ∈ ps, p.1 ≠ p.2 → ∃ q : Nat, upperTriIndex n p.1 p.2 = (q : Int) ∧ q < L) →
    (∃ p ∈ ps, p.1 = p.2) →
    ∀ (k : Nat) (t : List Int), t.length = L → applyPairs n ps k t = .notImplemented := by
  intro ps
  induction ps with
  | nil => rintro _ ⟨p, hp, -⟩; cases hp
  | cons p ps ih =>
    intro hps hex k t ht
    by_cases hself : p.1 = p.2
    · simp only [applyPairs, if_pos hself]
    · obtain ⟨q, hq, hqL⟩ := hps p (List.mem_cons_self ..) hself
      have hset : npSet t (upperTriIndex n p.1 p.2) (Int.ofNat k) = some (t.set q (Int.ofNat k)) := by
        rw [hq]; exact npSet_inrange t q _ (by omega)
      have hex' : ∃ p' ∈ ps, p'.1 = p'.2 := by
        obtain ⟨p', hp', he⟩ := hex
        rcases List.mem_cons.mp hp' with rfl | hp''
        · exact absurd he hself
        · exact ⟨p', hp'', he⟩
      simp only [applyPairs, if_neg hself, hset]
      exact ih (fun p' hp' => hps p' (List.mem_cons_of_mem _ hp')) hex' (k + 1) _ (by simp [ht])

/-! ## C. int32 bit operations -/

theorem bmod32_small (x : Int) (h1 : -2147483648 ≤ x) (h2 : x < 2147483648) : x.bmod (2 ^ 32) = x := by
  have : ((2 ^ 32 : Nat) : Int) = 4294967296 := by norm_num
  simp only [Int.bmod, this]
  split <;> omega

theorem toInt_ofInt_small (x : Int) (h1 : -2147483648 ≤ x) (h2 : x < 2147483648) : (BitVec.ofInt 32 x).toInt = x := by
  rw [BitVec.toInt_ofInt]; exact bmod32_small x h1 h2

/-- `(b1 << 16) + b2` does not overflow for body ids below 2^15 -/
theorem signature_eq (b1 b2 : Int) (h1 : 0 ≤ b1) (h1' : b1 < 32768) (h2 : 0 ≤ b2) (h2' : b2 < 65536) :
    signature b1 b2 = b1 * 65536 + b2 := by
  unfold signature wrap32 Mjw.ishl
  have hs : (BitVec.ofInt 32 b1 <<< (16 : Int).toNat).toInt = b1 * 65536 := by
    rw [BitVec.toInt_shiftLeft, BitVec.toNat_ofInt]
    have e : (16 : Int).toNat = 16 := rfl
    rw [e, Nat.shiftLeft_eq]
    have hm : (b1 % ((2 ^ 32 : Nat) : Int)) = b1 := by
      have : ((2 ^ 32 : Nat) : Int) = 4294967296 := by norm_num
      rw [this]; omega
    rw [hm]
    have : ((b1.toNat * 2 ^ 16 : Nat) : Int) = b1 * 65536 := by
      push_cast
      rw [Int.toNat_of_nonneg h1]
    rw [this]
    exact bmod32_small _ (by omega) (by omega)
  rw [hs]
  exact toInt_ofInt_small _ (by omega) (by omega)

/-- `np.array((ct1 & ca2) | (ct2 & ca1), dtype=bool)` is "one of the two ANDs is non-zero" -/
theorem maskBit_iff (ct1 ca1 ct2 ca2 : Int) :
    maskBit ct1 ca1 ct2 ca2 = true ↔ (Mjw.iand ct1 ca2 ≠ 0 ∨ Mjw.iand ct2 ca1 ≠ 0) := by
  unfold maskBit Mjw.ior Mjw.iand
  simp only [BitVec.ofInt_toInt, bne_iff_ne, ne_eq]
  rw [← not_and_or, not_iff_not]
  rw [show (0 : Int) = (0#32 : BitVec 32).toInt from rfl, BitVec.toInt_inj, BitVec.toInt_inj, BitVec.toInt_inj]
  exact BitVec.or_eq_zero_iff

end Mjw.Lemmas.C19
