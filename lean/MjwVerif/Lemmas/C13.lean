/-
  Helper lemmas for properties C13 (reset_data) and C14 (reset_data_keyframe).  Core Lean only.

  * `tabL n g`      = concatenation of `g 0, g 1, …, g (n-1)`  (what a `for i in range(n)` loop appends)
  * `final ws a ix` = the last write in `ws` that targets cell `a[ix]` (value and kind), `none` if no
                      write of `ws` targets that cell (`final_eq_none_iff`)
  * hand-written write lists of the reset kernels (`nworldWrites`, `contactWrites`, …); the theorems
    `*_eq` say that the GENERATED kernels return exactly these lists.
-/
import MjwVerif.Gen.Io
open Mjw

namespace Mjw.Lemmas.C13
variable {K : Type}

/-! ## loops that append -/

/-- concatenation of `g 0 … g (n-1)` -/
def tabL {α : Type} (n : Int) (g : Int → List α) : List α :=
  (List.range n.toNat).flatMap (fun k => g (Int.ofNat k))

theorem foldl_append_gen {α β : Type} (g : β → List α) (l : List β) (ws : List α) :
    l.foldl (fun s k => s ++ g k) ws = ws ++ l.flatMap g := by
  induction l generalizing ws with
  | nil => simp
  | cons x xs ih => simp [ih]

/-- **forRange_append**: `for i in range(n): ws.extend(g i)` -/
theorem forRange_append {α : Type} (n : Int) (ws : List α) (g : Int → List α) :
    forRange 0 n ws (fun i st => st ++ g i) = ws ++ tabL n g := by
  simp only [forRange, Int.sub_zero, Int.zero_add]
  exact foldl_append_gen (fun k : Nat => g (Int.ofNat k)) _ ws

theorem ite_append_left {α : Type} (c : Prop) [Decidable c] (st a b : List α) :
    (if c then st ++ a else st ++ b) = st ++ (if c then a else b) := by
  split <;> rfl

theorem ite_append_self {α : Type} (c : Prop) [Decidable c] (st a : List α) :
    (if c then st ++ a else st) = st ++ (if c then a else []) := by
  split <;> simp

theorem tabL_nonpos {α : Type} (n : Int) (h : n ≤ 0) (g : Int → List α) : tabL n g = [] := by
  simp [tabL, Int.toNat_of_nonpos h]

theorem mem_tabL {α : Type} {n : Int} {g : Int → List α} {x : α} :
    x ∈ tabL n g ↔ ∃ i : Int, 0 ≤ i ∧ i < n ∧ x ∈ g i := by
  simp only [tabL, List.mem_flatMap, List.mem_range]
  constructor
  · rintro ⟨k, hk, hx⟩
    exact ⟨Int.ofNat k, Int.natCast_nonneg k, by simp only [Int.ofNat_eq_natCast]; omega, hx⟩
  · rintro ⟨i, h0, hn, hx⟩
    refine ⟨i.toNat, by omega, ?_⟩
    have : Int.ofNat i.toNat = i := by simp [Int.toNat_of_nonneg h0]
    rw [this]; exact hx

theorem forall_mem_tabL {α : Type} {n : Int} {g : Int → List α} {P : α → Prop}
    (h : ∀ i, 0 ≤ i → i < n → ∀ x ∈ g i, P x) : ∀ x ∈ tabL n g, P x := by
  intro x hx
  obtain ⟨i, h0, hn, hxi⟩ := mem_tabL.mp hx
  exact h i h0 hn x hxi

/-! ## the last write to a cell -/

/-- does write `x` target cell `arr[idx]` -/
def hits (arr : String) (idx : List Int) (x : Write K) : Bool := x.arr == arr && x.idx == idx

/-- value and kind of the last write of `ws` to cell `arr[idx]` (`none`: the cell is not written) -/
def final (ws : List (Write K)) (arr : String) (idx : List Int) : Option (WVal K × WKind) :=
  ws.foldl (fun acc x => if hits arr idx x then some (x.val, x.kind) else acc) none

theorem foldl_final_acc (ws : List (Write K)) (arr : String) (idx : List Int) (acc : Option (WVal K × WKind)) :
    ws.foldl (fun acc x => if hits arr idx x then some (x.val, x.kind) else acc) acc
      = (final ws arr idx).or acc := by
  induction ws generalizing acc with
  | nil => simp [final]
  | cons x xs ih =>
    simp only [final, List.foldl_cons]
    rw [ih, ih (if hits arr idx x = true then some (x.val, x.kind) else none)]
    by_cases h : hits arr idx x = true
    · simp [h]
    · simp [h]

@[simp] theorem final_nil (arr : String) (idx : List Int) : final ([] : List (Write K)) arr idx = none := rfl

theorem final_append (a b : List (Write K)) (arr : String) (idx : List Int) :
    final (a ++ b) arr idx = (final b arr idx).or (final a arr idx) := by
  simp only [final, List.foldl_append]
  exact foldl_final_acc b arr idx _

theorem final_cons (x : Write K) (xs : List (Write K)) (arr : String) (idx : List Int) :
    final (x :: xs) arr idx
      = (final xs arr idx).or (if hits arr idx x then some (x.val, x.kind) else none) := by
  simp only [final, List.foldl_cons]
  exact foldl_final_acc xs arr idx _

/-- `final = none` means: NO write of the list targets the cell -/
theorem final_eq_none_iff (ws : List (Write K)) (arr : String) (idx : List Int) :
    final ws arr idx = none ↔ ∀ x ∈ ws, ¬ (x.arr = arr ∧ x.idx = idx) := by
  induction ws with
  | nil => simp
  | cons x xs ih =>
    rw [final_cons]
    by_cases h : hits arr idx x = true
    · have h' : x.arr = arr ∧ x.idx = idx := by simpa [hits] using h
      simp [h, h']
    · have h' : ¬ (x.arr = arr ∧ x.idx = idx) := by simpa [hits] using h
      rw [if_neg h, Option.or_none, ih]
      constructor
      · intro hh y hy
        rcases List.mem_cons.mp hy with rfl | hy'
        · exact h'
        · exact hh y hy'
      · intro hh y hy
        exact hh y (List.mem_cons_of_mem _ hy)

/-- if some write targets the cell and all writes that target it carry the same value `v`, then
    `final = some v` (independently of the order of the list) -/
theorem final_eq_some_of_forall (ws : List (Write K)) (arr : String) (idx : List Int) (v : WVal K × WKind)
    (hex : ∃ x ∈ ws, x.arr = arr ∧ x.idx = idx)
    (hall : ∀ x ∈ ws, x.arr = arr → x.idx = idx → (x.val, x.kind) = v) :
    final ws arr idx = some v := by
  induction ws with
  | nil => simp at hex
  | cons x xs ih =>
    rw [final_cons]
    by_cases hx : ∃ y ∈ xs, y.arr = arr ∧ y.idx = idx
    · rw [ih hx (fun y hy => hall y (List.mem_cons_of_mem _ hy))]; rfl
    · have hn : final xs arr idx = none := by
        rw [final_eq_none_iff]; intro y hy hc; exact hx ⟨y, hy, hc⟩
      obtain ⟨y, hy, hya, hyi⟩ := hex
      rcases List.mem_cons.mp hy with rfl | hy'
      · have : hits arr idx y = true := by simp [hits, hya, hyi]
        rw [hn, this]; simp [hall y List.mem_cons_self hya hyi]
      · exact absurd ⟨y, hy', hya, hyi⟩ hx

/-- the last write of a loop in which iteration `i` only touches column `i` of row `w` -/
theorem final_tabL_col (n w : Int) (g : Int → List (Write K))
    (hcol : ∀ i, ∀ x ∈ g i, x.idx = [w, i]) (arr : String) (j : Int) :
    final (tabL n g) arr [w, j] = if 0 ≤ j ∧ j < n then final (g j) arr [w, j] else none := by
  have key : ∀ m : Nat, final ((List.range m).flatMap (fun k => g (Int.ofNat k))) arr [w, j]
      = if 0 ≤ j ∧ j < (m : Int) then final (g j) arr [w, j] else none := by
    intro m
    induction m with
    | zero =>
      have : ¬ (0 ≤ j ∧ j < ((0 : Nat) : Int)) := by omega
      rw [if_neg this]; rfl
    | succ m ih =>
      rw [List.range_succ, List.flatMap_append, final_append, ih]
      simp only [List.flatMap_cons, List.flatMap_nil, List.append_nil]
      by_cases hj : j = Int.ofNat m
      · subst hj
        have h1 : ¬ (0 ≤ Int.ofNat m ∧ Int.ofNat m < (m : Int)) := by
          simp
        have h2 : (0 ≤ Int.ofNat m ∧ Int.ofNat m < ((m + 1 : Nat) : Int)) := by
          constructor
          · exact Int.natCast_nonneg m
          · simp only [Int.ofNat_eq_natCast]; omega
        rw [if_neg h1, if_pos h2]; simp
      · have hnone : final (g (Int.ofNat m)) arr [w, j] = none := by
          rw [final_eq_none_iff]
          intro x hx hc
          have := hcol _ x hx
          rw [this] at hc
          have : Int.ofNat m = j := by simpa using hc.2
          exact hj this.symm
        rw [hnone]
        have hiff : (0 ≤ j ∧ j < ((m + 1 : Nat) : Int)) ↔ (0 ≤ j ∧ j < (m : Int)) := by
          simp only [Int.ofNat_eq_natCast] at hj; omega
        simp only [Option.none_or]
        by_cases h : 0 ≤ j ∧ j < (m : Int)
        · rw [if_pos h, if_pos (hiff.mpr h)]
        · rw [if_neg h, if_neg (fun h' => h (hiff.mp h'))]
  have h := key n.toNat
  unfold tabL
  rw [h]
  have hiff : (0 ≤ j ∧ j < ((n.toNat : Nat) : Int)) ↔ (0 ≤ j ∧ j < n) := by omega
  by_cases hh : 0 ≤ j ∧ j < n
  · rw [if_pos hh, if_pos (hiff.mpr hh)]
  · rw [if_neg hh, if_neg (fun h' => hh (hiff.mp h'))]

/-- a loop whose writes all have two indices writes no cell with a different number of indices -/
theorem final_tabL_row (n w : Int) (g : Int → List (Write K))
    (hcol : ∀ i, ∀ x ∈ g i, x.idx = [w, i]) (arr : String) (idx : List Int) (hl : idx.length ≠ 2) :
    final (tabL n g) arr idx = none := by
  rw [final_eq_none_iff]
  intro x hx hc
  obtain ⟨i, -, -, hxi⟩ := mem_tabL.mp hx
  have := hcol i x hxi
  rw [← hc.2, this] at hl
  exact hl rfl

/-- a loop none of whose writes goes to array `arr` -/
theorem final_tabL_arr (n : Int) (g : Int → List (Write K)) (arr : String) (idx : List Int)
    (h : ∀ i, ∀ x ∈ g i, x.arr ≠ arr) : final (tabL n g) arr idx = none := by
  rw [final_eq_none_iff]
  intro x hx hc
  obtain ⟨i, -, -, hxi⟩ := mem_tabL.mp hx
  exact h i x hxi hc.1

end Mjw.Lemmas.C13
