/-
  Helper lemmas for properties C13 (reset_data) and C14 (reset_data_keyframe).  Core Lean only.

  * `tabL n g`      = concatenation of `g 0, g 1, …, g (n-1)`  (what a `for i in range(n)` loop appends)
  * `final ws a ix` = the last write in `ws` that targets cell `a[ix]` (value and kind), `none` if no
                      write of `ws` targets that cell (`final_eq_none_iff`)
  * hand-written write lists of the reset kernels (`nworldWrites`, `contactWrites`, …); the theorems
    `*_eq` say that the GENERATED kernels return exactly these lists.
-/
import MjwVerif.Gen.Io
open Mjw

namespace Mjw.Lemmas.C13
variable {K : Type}

/-! ## loops that append -/

/-- concatenation of `g 0 … g (n-1)` -/
def tabL {α : Type} (n : Int) (g : Int → List α) : List α :=
  (List.range n.toNat).flatMap (fun k => g (Int.ofNat k))

theorem foldl_append_gen {α β : Type} (g : β → List α) (l : List β) (ws : List α) :
    l.foldl (fun s k => s ++ g k) ws = ws ++ l.flatMap g := by
  induction l generalizing ws with
  | nil => simp
  | cons x xs ih => simp [ih]

/-- **forRange_append**: `for i in range(n): ws.extend(g i)` -/
theorem forRange_append {α : Type} (n : Int) (ws : List α) (g : Int → List α) :
    forRange 0 n ws (fun i st => st ++ g i) = ws ++ tabL n g := by
  simp only [forRange, Int.sub_zero, Int.zero_add]
  exact foldl_append_gen (fun k : Nat => g (Int.ofNat k)) _ ws

theorem ite_append_left {α : Type} (c : Prop) [Decidable c] (st a b : List α) :
    (if c then st ++ a else st ++ b) = st ++ (if c then a else b) := by
  split <;> rfl

theorem ite_append_self {α : Type} (c : Prop) [Decidable c] (st a : List α) :
    (if c then st ++ a else st) = st ++ (if c then a else []) := by
  split <;> simp

theorem ite_nest {α : Type} (a b : Prop) [Decidable a] [Decidable b] (x y : α) :
    (if a then (if b then x else y) else y) = if a ∧ b then x else y := by
  by_cases ha : a <;> by_cases hb : b <;> simp [ha, hb]

theorem ite_nest3 {α : Type} (a b c : Prop) [Decidable a] [Decidable b] [Decidable c] (x y : α) :
    (if a ∧ b then (if c then x else y) else y) = if a ∧ b ∧ c then x else y := by
  by_cases ha : a <;> by_cases hb : b <;> by_cases hc : c <;> simp [ha, hb, hc]

theorem tabL_nonpos {α : Type} (n : Int) (h : n ≤ 0) (g : Int → List α) : tabL n g = [] := by
  simp [tabL, Int.toNat_of_nonpos h]

theorem mem_tabL {α : Type} {n : Int} {g : Int → List α} {x : α} :
    x ∈ tabL n g ↔ ∃ i : Int, 0 ≤ i ∧ i < n ∧ x ∈ g i := by
  simp only [tabL, List.mem_flatMap, List.mem_range]
  constructor
  · rintro ⟨k, hk, hx⟩
    exact ⟨Int.ofNat k, Int.natCast_nonneg k, by simp only [Int.ofNat_eq_natCast]; omega, hx⟩
  · rintro ⟨i, h0, hn, hx⟩
    refine ⟨i.toNat, by omega, ?_⟩
    have : Int.ofNat i.toNat = i := by simp [Int.toNat_of_nonneg h0]
    rw [this]; exact hx

theorem forall_mem_tabL {α : Type} {n : Int} {g : Int → List α} {P : α → Prop}
    (h : ∀ i, 0 ≤ i → i < n → ∀ x ∈ g i, P x) : ∀ x ∈ tabL n g, P x := by
  intro x hx
  obtain ⟨i, h0, hn, hxi⟩ := mem_tabL.mp hx
  exact h i h0 hn x hxi

/-! ## the last write to a cell -/

/-- does write `x` target cell `arr[idx]` -/
def hits (arr : String) (idx : List Int) (x : Write K) : Bool := x.arr == arr && x.idx == idx

/-- value and kind of the last write of `ws` to cell `arr[idx]` (`none`: the cell is not written) -/
def final (ws : List (Write K)) (arr : String) (idx : List Int) : Option (WVal K × WKind) :=
  ws.foldl (fun acc x => if hits arr idx x then some (x.val, x.kind) else acc) none

theorem foldl_final_acc (ws : List (Write K)) (arr : String) (idx : List Int) (acc : Option (WVal K × WKind)) :
    ws.foldl (fun acc x => if hits arr idx x then some (x.val, x.kind) else acc) acc
      = (final ws arr idx).or acc := by
  induction ws generalizing acc with
  | nil => simp [final]
  | cons x xs ih =>
    simp only [final, List.foldl_cons]
    rw [ih, ih (if hits arr idx x = true then some (x.val, x.kind) else none)]
    by_cases h : hits arr idx x = true
    · simp [h]
    · simp [h]

@[simp] theorem final_nil (arr : String) (idx : List Int) : final ([] : List (Write K)) arr idx = none := rfl

theorem final_append (a b : List (Write K)) (arr : String) (idx : List Int) :
    final (a ++ b) arr idx = (final b arr idx).or (final a arr idx) := by
  simp only [final, List.foldl_append]
  exact foldl_final_acc b arr idx _

theorem final_cons (x : Write K) (xs : List (Write K)) (arr : String) (idx : List Int) :
    final (x :: xs) arr idx
      = (final xs arr idx).or (if hits arr idx x then some (x.val, x.kind) else none) := by
  simp only [final, List.foldl_cons]
  exact foldl_final_acc xs arr idx _

/-- `final = none` means: NO write of the list targets the cell -/
theorem final_eq_none_iff (ws : List (Write K)) (arr : String) (idx : List Int) :
    final ws arr idx = none ↔ ∀ x ∈ ws, ¬ (x.arr = arr ∧ x.idx = idx) := by
  induction ws with
  | nil => simp
  | cons x xs ih =>
    rw [final_cons]
    by_cases h : hits arr idx x = true
    · have h' : x.arr = arr ∧ x.idx = idx := by simpa [hits] using h
      simp [h, h']
    · have h' : ¬ (x.arr = arr ∧ x.idx = idx) := by simpa [hits] using h
      rw [if_neg h, Option.or_none, ih]
      constructor
      · intro hh y hy
        rcases List.mem_cons.mp hy with rfl | hy'
        · exact h'
        · exact hh y hy'
      · intro hh y hy
        exact hh y (List.mem_cons_of_mem _ hy)

/-- if some write targets the cell and all writes that target it carry the same value `v`, then
    `final = some v` (independently of the order of the list) -/
theorem final_eq_some_of_forall (ws : List (Write K)) (arr : String) (idx : List Int) (v : WVal K × WKind)
    (hex : ∃ x ∈ ws, x.arr = arr ∧ x.idx = idx)
    (hall : ∀ x ∈ ws, x.arr = arr → x.idx = idx → (x.val, x.kind) = v) :
    final ws arr idx = some v := by
  induction ws with
  | nil => simp at hex
  | cons x xs ih =>
    rw [final_cons]
    by_cases hx : ∃ y ∈ xs, y.arr = arr ∧ y.idx = idx
    · rw [ih hx (fun y hy => hall y (List.mem_cons_of_mem _ hy))]; rfl
    · have hn : final xs arr idx = none := by
        rw [final_eq_none_iff]; intro y hy hc; exact hx ⟨y, hy, hc⟩
      obtain ⟨y, hy, hya, hyi⟩ := hex
      rcases List.mem_cons.mp hy with rfl | hy'
      · have : hits arr idx y = true := by simp [hits, hya, hyi]
        rw [hn, this]; simp [hall y List.mem_cons_self hya hyi]
      · exact absurd ⟨y, hy', hya, hyi⟩ hx

/-- the last write of a loop in which iteration `i` only touches column `i` of row `w` -/
theorem final_tabL_col (n w : Int) (g : Int → List (Write K))
    (hcol : ∀ i, ∀ x ∈ g i, x.idx = [w, i]) (arr : String) (j : Int) :
    final (tabL n g) arr [w, j] = if 0 ≤ j ∧ j < n then final (g j) arr [w, j] else none := by
  have key : ∀ m : Nat, final ((List.range m).flatMap (fun k => g (Int.ofNat k))) arr [w, j]
      = if 0 ≤ j ∧ j < (m : Int) then final (g j) arr [w, j] else none := by
    intro m
    induction m with
    | zero =>
      have : ¬ (0 ≤ j ∧ j < ((0 : Nat) : Int)) := by omega
      rw [if_neg this]; rfl
    | succ m ih =>
      rw [List.range_succ, List.flatMap_append, final_append, ih]
      simp only [List.flatMap_cons, List.flatMap_nil, List.append_nil]
      by_cases hj : j = Int.ofNat m
      · subst hj
        have h1 : ¬ (0 ≤ Int.ofNat m ∧ Int.ofNat m < (m : Int)) := by
          simp
        have h2 : (0 ≤ Int.ofNat m ∧ Int.ofNat m < ((m + 1 : Nat) : Int)) := by
          constructor
          · exact Int.natCast_nonneg m
          · simp only [Int.ofNat_eq_natCast]; omega
        rw [if_neg h1, if_pos h2]; simp
      · have hnone : final (g (Int.ofNat m)) arr [w, j] = none := by
          rw [final_eq_none_iff]
          intro x hx hc
          have := hcol _ x hx
          rw [this] at hc
          have : Int.ofNat m = j := by simpa using hc.2
          exact hj this.symm
        rw [hnone]
        have hiff : (0 ≤ j ∧ j < ((m + 1 : Nat) : Int)) ↔ (0 ≤ j ∧ j < (m : Int)) := by
          simp only [Int.ofNat_eq_natCast] at hj; omega
        simp only [Option.none_or]
        by_cases h : 0 ≤ j ∧ j < (m : Int)
        · rw [if_pos h, if_pos (hiff.mpr h)]
        · rw [if_neg h, if_neg (fun h' => h (hiff.mp h'))]
  have h := key n.toNat
  unfold tabL
  rw [h]
  have hiff : (0 ≤ j ∧ j < ((n.toNat : Nat) : Int)) ↔ (0 ≤ j ∧ j < n) := by omega
  by_cases hh : 0 ≤ j ∧ j < n
  · rw [if_pos hh, if_pos (hiff.mpr hh)]
  · rw [if_neg hh, if_neg (fun h' => hh (hiff.mp h'))]

/-- a loop whose writes all have two indices writes no cell with a different number of indices -/
theorem final_tabL_row (n w : Int) (g : Int → List (Write K))
    (hcol : ∀ i, ∀ x ∈ g i, x.idx = [w, i]) (arr : String) (idx : List Int) (hl : idx.length ≠ 2) :
    final (tabL n g) arr idx = none := by
  rw [final_eq_none_iff]
  intro x hx hc
  obtain ⟨i, -, -, hxi⟩ := mem_tabL.mp hx
  have := hcol i x hxi
  rw [← hc.2, this] at hl
  exact hl rfl

/-- a loop none of whose writes goes to array `arr` -/
theorem final_tabL_arr (n : Int) (g : Int → List (Write K)) (arr : String) (idx : List Int)
    (h : ∀ i, ∀ x ∈ g i, x.arr ≠ arr) : final (tabL n g) arr idx = none := by
  rw [final_eq_none_iff]
  intro x hx hc
  obtain ⟨i, -, -, hxi⟩ := mem_tabL.mp hx
  exact h i x hxi hc.1

/-! ## hand-written write lists of the reset kernels -/

section specs
variable [Scalar K]

/-- `set` write -/
abbrev wset (arr : String) (idx : List Int) (v : WVal K) : Write K := Write.mk arr idx v WKind.set
/-- float zero -/
abbrev fz : WVal K := WVal.f (Scalar.lit 0 0 : K)

/-- iteration `i` of `for i in range(nq)` in `reset_nworld` -/
def qposBody (nv w : Int) (q0 : Int → K) (i : Int) : List (Write K) :=
  if i < nv then
    [wset "qpos_out" [w, i] (WVal.f (q0 i)), wset "qvel_out" [w, i] fz, wset "qacc_warmstart_out" [w, i] fz,
     wset "qfrc_applied_out" [w, i] fz, wset "qacc_out" [w, i] fz]
  else [wset "qpos_out" [w, i] (WVal.f (q0 i))]

/-- iteration `i` of `for i in range(na)` in `reset_nworld`: `act` and `act_dot` -/
def actBody (w : Int) (i : Int) : List (Write K) :=
  [wset "act_out" [w, i] fz, wset "act_dot_out" [w, i] fz]

/-- iteration `i` of a loop `for i in range(n): arr[w, i] = v i` -/
def cellBody (arr : String) (w : Int) (v : Int → WVal K) (i : Int) : List (Write K) := [wset arr [w, i] (v i)]

/-- everything a `reset_nworld` task of a SELECTED world `w` writes, in program order -/
def nworldWrites (nq nv nu na nbody ntree neq nuserdata nsensordata : Int) (qpos0 : Int → Int → K)
    (eq_active0 : Int → Bool) (qpos0_shape0 w : Int) : List (Write K) :=
  (if w = 0 then [wset "solver_niter_out" [w] (WVal.i 0), wset "nacon_out" [0] (WVal.i 0)]
   else [wset "solver_niter_out" [w] (WVal.i 0)])
  ++ [wset "ne_out" [w] (WVal.i 0), wset "nf_out" [w] (WVal.i 0), wset "nl_out" [w] (WVal.i 0),
      wset "nefc_out" [w] (WVal.i 0), wset "time_out" [w] fz,
      wset "energy_out" [w] (WVal.v [(Scalar.lit 0 0 : K), (Scalar.lit 0 0 : K)]),
      wset "ntree_awake_out" [w] (WVal.i ntree), wset "nbody_awake_out" [w] (WVal.i nbody),
      wset "nv_awake_out" [w] (WVal.i nv)]
  ++ tabL nq (qposBody nv w (qpos0 (Int.tmod w qpos0_shape0)))
  ++ tabL nu (cellBody "ctrl_out" w (fun _ => fz))
  ++ tabL na (actBody w)
  ++ tabL neq (cellBody "eq_active_out" w (fun i => WVal.b (eq_active0 i)))
  ++ tabL nsensordata (cellBody "sensordata_out" w (fun _ => fz))
  ++ tabL nuserdata (cellBody "userdata_out" w (fun _ => fz))
  ++ [wset "overflow_out" [w] (WVal.i 0)]

/-- the generated `reset_nworld` kernel returns `[]` for an unselected world and `nworldWrites` otherwise -/
theorem reset_nworld_eq (nq nv nu na nbody ntree neq nuserdata nsensordata : Int) (qpos0 : Int → Int → K)
    (eq_active0 : Int → Bool) (nworld_in : Int) (reset_in : Int → Bool)
    (solver_niter_out ne_out nf_out nl_out nefc_out ntree_awake_out nbody_awake_out nv_awake_out : Int → Int)
    (time_out : Int → K) (energy_out : Int → V2 K)
    (qpos_out qvel_out act_out qacc_warmstart_out ctrl_out qfrc_applied_out : Int → Int → K)
    (eq_active_out : Int → Int → Bool) (qacc_out act_dot_out userdata_out sensordata_out : Int → Int → K)
    (nacon_out overflow_out : Int → Int) (st : Bool) (qpos0_shape0 w : Int) :
    Gen.Io.reset_data__reset_nworld nq nv nu na nbody ntree neq nuserdata nsensordata qpos0 eq_active0 nworld_in
        reset_in solver_niter_out ne_out nf_out nl_out nefc_out ntree_awake_out nbody_awake_out nv_awake_out
        time_out energy_out qpos_out qvel_out act_out qacc_warmstart_out ctrl_out qfrc_applied_out eq_active_out
        qacc_out act_dot_out userdata_out sensordata_out nacon_out overflow_out st qpos0_shape0 w
      = if st = true ∧ reset_in w = false then []
        else nworldWrites nq nv nu na nbody ntree neq nuserdata nsensordata qpos0 eq_active0 qpos0_shape0 w := by
  unfold Gen.Io.reset_data__reset_nworld
  simp only [List.append_assoc, List.cons_append, List.nil_append, decide_eq_true_eq, ite_append_left,
    forRange_append]
  cases st <;> cases reset_in w <;> simp [nworldWrites, V2.toList] <;> rfl

/-- everything a `reset_contact` task clears in contact slot `c`, in program order -/
def contactWrites (nefcaddress sh_flex sh_elem sh_vert c : Int) : List (Write K) :=
  [wset "contact_dist_out" [c] fz,
   wset "contact_pos_out" [c] (WVal.v [(Scalar.lit 0 0 : K), (Scalar.lit 0 0 : K), (Scalar.lit 0 0 : K)]),
   wset "contact_frame_out" [c] (WVal.v [(Scalar.lit 0 0 : K), (Scalar.lit 0 0 : K), (Scalar.lit 0 0 : K),
     (Scalar.lit 0 0 : K), (Scalar.lit 0 0 : K), (Scalar.lit 0 0 : K), (Scalar.lit 0 0 : K), (Scalar.lit 0 0 : K),
     (Scalar.lit 0 0 : K)]),
   wset "contact_includemargin_out" [c] fz,
   wset "contact_friction_out" [c] (WVal.v [(Scalar.lit 0 0 : K), (Scalar.lit 0 0 : K), (Scalar.lit 0 0 : K),
     (Scalar.lit 0 0 : K), (Scalar.lit 0 0 : K)]),
   wset "contact_solref_out" [c] (WVal.v [(Scalar.lit 0 0 : K), (Scalar.lit 0 0 : K)]),
   wset "contact_solreffriction_out" [c] (WVal.v [(Scalar.lit 0 0 : K), (Scalar.lit 0 0 : K)]),
   wset "contact_solimp_out" [c] (WVal.v [(Scalar.lit 0 0 : K), (Scalar.lit 0 0 : K), (Scalar.lit 0 0 : K),
     (Scalar.lit 0 0 : K), (Scalar.lit 0 0 : K)]),
   wset "contact_dim_out" [c] (WVal.i 0),
   wset "contact_geom_out" [c] (WVal.iv [0, 0])]
  ++ (if sh_flex > 0 then [wset "contact_flex_out" [c] (WVal.iv [0, 0])] else [])
  ++ (if sh_elem > 0 then [wset "contact_elem_out" [c] (WVal.iv [0, 0])] else [])
  ++ (if sh_vert > 0 then [wset "contact_vert_out" [c] (WVal.iv [0, 0])] else [])
  ++ tabL nefcaddress (cellBody "contact_efc_address_out" c (fun _ => WVal.i (-1)))
  ++ [wset "contact_worldid_out" [c] (WVal.i 0), wset "contact_type_out" [c] (WVal.i 0),
      wset "contact_geomcollisionid_out" [c] (WVal.i 0), wset "contact_adhesion_out" [c] fz]

/-- the generated `reset_contact` kernel: slot `c` is cleared iff it is active (`c < nacon`) and NOT
    (mask in use ∧ its world tag is ≥ 0 ∧ that world is unselected) -/
theorem reset_contact_eq (nacon_in : Int → Int) (reset_in : Int → Bool) (nefcaddress : Int)
    (contact_dist_out : Int → K) (contact_pos_out : Int → V3 K) (contact_frame_out : Int → M33 K)
    (contact_includemargin_out : Int → K) (contact_friction_out : Int → V5 K)
    (contact_solref_out contact_solreffriction_out : Int → V2 K) (contact_solimp_out : Int → V5 K)
    (contact_dim_out : Int → Int) (contact_geom_out contact_flex_out contact_elem_out contact_vert_out : Int → I2)
    (contact_efc_address_out : Int → Int → Int)
    (contact_worldid_out contact_type_out contact_geomcollisionid_out : Int → Int) (contact_adhesion_out : Int → K)
    (st : Bool) (sh_flex sh_elem sh_vert c : Int) :
    Gen.Io.reset_data__reset_contact nacon_in reset_in nefcaddress contact_dist_out contact_pos_out
        contact_frame_out contact_includemargin_out contact_friction_out contact_solref_out
        contact_solreffriction_out contact_solimp_out contact_dim_out contact_geom_out contact_flex_out
        contact_elem_out contact_vert_out contact_efc_address_out contact_worldid_out contact_type_out
        contact_geomcollisionid_out contact_adhesion_out st sh_flex sh_elem sh_vert c
      = if c ≥ nacon_in 0 then []
        else if st = true ∧ 0 ≤ contact_worldid_out c ∧ reset_in (contact_worldid_out c) = false then []
        else contactWrites nefcaddress sh_flex sh_elem sh_vert c := by
  unfold Gen.Io.reset_data__reset_contact
  simp only [List.append_assoc, List.cons_append, List.nil_append, decide_eq_true_eq, ite_append_left,
    ite_append_self, forRange_append, Write.lookupI, List.foldl_nil]
  by_cases h1 : c ≥ nacon_in 0
  · simp only [if_pos h1]
  · simp only [if_neg h1]
    cases st <;> by_cases h2 : 0 ≤ contact_worldid_out c <;> cases h3 : reset_in (contact_worldid_out c) <;>
      simp [contactWrites, V2.toList, V3.toList, V5.toList, M33.toList, I2.toList, V3.fill, h2] <;> split <;> rfl

/-- the generated `reset_M` kernel -/
theorem reset_M_eq (reset_in : Int → Bool) (M_out : Int → Int → K) (st : Bool) (w e : Int) :
    Gen.Io.reset_data__reset_M reset_in M_out st w e
      = if st = true ∧ reset_in w = false then [] else [wset "M_out" [w, e] fz] := by
  unfold Gen.Io.reset_data__reset_M
  cases st <;> cases h : reset_in w <;> simp [h]

/-- what a `reset_mocap` task writes for a selected world `w` and body `b` -/
def mocapWrites (body_mocapid : Int → Int) (body_pos : Int → Int → V3 K) (body_quat : Int → Int → Q K)
    (sh_pos sh_quat w b : Int) : List (Write K) :=
  if body_mocapid b ≥ 0 then
    [wset "mocap_pos_out" [w, body_mocapid b] (WVal.v (V3.toList (body_pos (Int.tmod w sh_pos) b))),
     wset "mocap_quat_out" [w, body_mocapid b] (WVal.v (Q.toList (body_quat (Int.tmod w sh_quat) b)))]
  else []

theorem reset_mocap_eq (body_mocapid : Int → Int) (body_pos : Int → Int → V3 K) (body_quat : Int → Int → Q K)
    (reset_in : Int → Bool) (mocap_pos_out : Int → Int → V3 K) (mocap_quat_out : Int → Int → Q K) (st : Bool)
    (sh_pos sh_quat w b : Int) :
    Gen.Io.reset_data__reset_mocap body_mocapid body_pos body_quat reset_in mocap_pos_out mocap_quat_out st
        sh_pos sh_quat w b
      = if st = true ∧ reset_in w = false then []
        else mocapWrites body_mocapid body_pos body_quat sh_pos sh_quat w b := by
  unfold Gen.Io.reset_data__reset_mocap
  simp only [List.cons_append, List.nil_append, decide_eq_true_eq]
  cases st <;> cases reset_in w <;> simp [mocapWrites]

/-- what a `reset_sleep` task writes for a selected world `w` and element `e` -/
def sleepWrites (nv nbody ntree : Int) (body_mocapid body_treeid : Int → Int) (mj_minawake w e : Int) :
    List (Write K) :=
  (if e < ntree then [wset "tree_asleep_out" [w, e] (WVal.i (-(1 + mj_minawake))),
                      wset "tree_awake_out" [w, e] (WVal.i 1)] else [])
  ++ (if e < nbody then
        [wset "body_awake_out" [w, e]
           (WVal.i (if body_treeid e < 0 then (if body_mocapid e ≥ 0 then 1 else -1) else 1)),
         wset "body_awake_ind_out" [w, e] (WVal.i e)] else [])
  ++ (if e < nv then [wset "dof_awake_ind_out" [w, e] (WVal.i e)] else [])

theorem reset_sleep_eq (nv nbody ntree : Int) (body_mocapid body_treeid : Int → Int) (mj_minawake : Int)
    (reset_in : Int → Bool)
    (tree_asleep_out tree_awake_out body_awake_out body_awake_ind_out dof_awake_ind_out : Int → Int → Int)
    (st : Bool) (w e : Int) :
    Gen.Io.reset_data__reset_sleep (K := K) nv nbody ntree body_mocapid body_treeid mj_minawake reset_in
        tree_asleep_out tree_awake_out body_awake_out body_awake_ind_out dof_awake_ind_out st w e
      = if st = true ∧ reset_in w = false then []
        else sleepWrites nv nbody ntree body_mocapid body_treeid mj_minawake w e := by
  unfold Gen.Io.reset_data__reset_sleep
  simp only [List.cons_append, List.nil_append, decide_eq_true_eq]
  cases st <;> cases reset_in w <;> simp [sleepWrites] <;>
    (split <;> split <;> split <;> try split) <;> simp_all

end specs

section keyframe
variable [Scalar K]

/-- iteration `i` of `for i in range(nmocap)` in `reset_keyframe_data` -/
def kmocapBody (w : Int) (mpos : Int → V3 K) (mquat : Int → Q K) (i : Int) : List (Write K) :=
  [wset "mocap_pos_out" [w, i] (WVal.v (V3.toList (mpos i))),
   wset "mocap_quat_out" [w, i] (WVal.v (Q.toList (mquat i)))]

/-- everything a `reset_keyframe_data` task writes for a world `w` with (valid) key `key` -/
def keyframeWrites (nq nv nu na nmocap : Int) (key_time : Int → K) (key_qpos key_qvel key_act : Int → Int → K)
    (key_mpos : Int → Int → V3 K) (key_mquat : Int → Int → Q K) (key_ctrl : Int → Int → K) (key w : Int) :
    List (Write K) :=
  [wset "time_out" [w] (WVal.f (key_time key))]
  ++ tabL nq (cellBody "qpos_out" w (fun i => WVal.f (key_qpos key i)))
  ++ tabL nv (cellBody "qvel_out" w (fun i => WVal.f (key_qvel key i)))
  ++ tabL na (cellBody "act_out" w (fun i => WVal.f (key_act key i)))
  ++ tabL nmocap (kmocapBody w (key_mpos key) (key_mquat key))
  ++ tabL nu (cellBody "ctrl_out" w (fun i => WVal.f (key_ctrl key i)))

theorem reset_keyframe_data_eq (nq nv nu na nmocap : Int) (key_time : Int → K)
    (key_qpos key_qvel key_act : Int → Int → K) (key_mpos : Int → Int → V3 K) (key_mquat : Int → Int → Q K)
    (key_ctrl : Int → Int → K) (key_in : Int → Int) (reset_in : Int → Bool) (time_out : Int → K)
    (qpos_out qvel_out act_out ctrl_out : Int → Int → K) (mocap_pos_out : Int → Int → V3 K)
    (mocap_quat_out : Int → Int → Q K) (w : Int) :
    Gen.Io.reset_data_keyframe__reset_keyframe_data nq nv nu na nmocap key_time key_qpos key_qvel key_act
        key_mpos key_mquat key_ctrl key_in reset_in time_out qpos_out qvel_out act_out ctrl_out mocap_pos_out
        mocap_quat_out w
      = if reset_in w = false then []
        else keyframeWrites nq nv nu na nmocap key_time key_qpos key_qvel key_act key_mpos key_mquat key_ctrl
          (key_in w) w := by
  unfold Gen.Io.reset_data_keyframe__reset_keyframe_data
  simp only [List.append_assoc, List.cons_append, List.nil_append, forRange_append]
  cases reset_in w <;> simp [keyframeWrites] <;> rfl

theorem valid_key_mask_eq (nkey : Int) (key_in : Int → Int) (mask_out : Int → Bool) (w : Int) :
    Gen.Io.reset_data_keyframe__valid_key_mask (K := K) nkey key_in mask_out w
      = [wset "mask_out" [w] (WVal.b (decide (0 ≤ key_in w) && decide (key_in w < nkey)))] := by
  unfold Gen.Io.reset_data_keyframe__valid_key_mask
  simp

end keyframe

/-! ## `final` of the loop bodies -/

section finals
variable [Scalar K]

omit [Scalar K] in
theorem final_ite (c : Prop) [Decidable c] (a b : List (Write K)) (arr : String) (idx : List Int) :
    final (if c then a else b) arr idx = if c then final a arr idx else final b arr idx := by
  split <;> rfl

omit [Scalar K] in
theorem cellBody_col (a : String) (w : Int) (v : Int → WVal K) : ∀ i, ∀ x ∈ cellBody a w v i, x.idx = [w, i] := by
  intro i x hx
  simp only [cellBody, List.mem_singleton] at hx
  subst hx; rfl

theorem qposBody_col (nv w : Int) (q0 : Int → K) : ∀ i, ∀ x ∈ qposBody nv w q0 i, x.idx = [w, i] := by
  intro i x hx
  unfold qposBody at hx
  split at hx <;> simp only [List.mem_cons, List.mem_nil_iff, or_false] at hx
  · rcases hx with rfl | rfl | rfl | rfl | rfl <;> rfl
  · subst hx; rfl

theorem actBody_col (w : Int) : ∀ i, ∀ x ∈ actBody (K := K) w i, x.idx = [w, i] := by
  intro i x hx
  simp only [actBody, List.mem_cons, List.mem_nil_iff, or_false] at hx
  rcases hx with rfl | rfl <;> rfl

omit [Scalar K] in
theorem kmocapBody_col (w : Int) (mpos : Int → V3 K) (mquat : Int → Q K) :
    ∀ i, ∀ x ∈ kmocapBody w mpos mquat i, x.idx = [w, i] := by
  intro i x hx
  simp only [kmocapBody, List.mem_cons, List.mem_nil_iff, or_false] at hx
  rcases hx with rfl | rfl <;> rfl

omit [Scalar K] in
theorem final_tabL_cell (n w : Int) (a : String) (v : Int → WVal K) (arr : String) (j : Int) :
    final (tabL n (cellBody a w v)) arr [w, j]
      = if a = arr ∧ 0 ≤ j ∧ j < n then some (v j, WKind.set) else none := by
  rw [final_tabL_col n w _ (cellBody_col a w v)]
  by_cases ha : a = arr
  · by_cases hj : 0 ≤ j ∧ j < n
    · simp [cellBody, final_cons, hits, ha, hj]
    · rw [if_neg hj, if_neg (fun h => hj h.2)]
  · have : final (cellBody a w v j) arr [w, j] = none := by
      simp [cellBody, final_cons, hits, ha]
    simp [this, ha]

omit [Scalar K] in
theorem final_tabL_cell_one (n w : Int) (a : String) (v : Int → WVal K) (arr : String) (x : Int) :
    final (tabL n (cellBody a w v)) arr [x] = none :=
  final_tabL_row n w _ (cellBody_col a w v) arr [x] (by simp)

theorem final_tabL_qpos (n nv w : Int) (q0 : Int → K) (arr : String) (j : Int) :
    final (tabL n (qposBody nv w q0)) arr [w, j]
      = if 0 ≤ j ∧ j < n then final (qposBody nv w q0 j) arr [w, j] else none :=
  final_tabL_col n w _ (qposBody_col nv w q0) arr j

theorem final_tabL_qpos_one (n nv w : Int) (q0 : Int → K) (arr : String) (x : Int) :
    final (tabL n (qposBody nv w q0)) arr [x] = none :=
  final_tabL_row n w _ (qposBody_col nv w q0) arr [x] (by simp)

theorem final_tabL_act (n w : Int) (arr : String) (j : Int) :
    final (tabL n (actBody (K := K) w)) arr [w, j]
      = if 0 ≤ j ∧ j < n then final (actBody (K := K) w j) arr [w, j] else none :=
  final_tabL_col n w _ (actBody_col w) arr j

theorem final_tabL_act_one (n w : Int) (arr : String) (x : Int) :
    final (tabL n (actBody (K := K) w)) arr [x] = none :=
  final_tabL_row n w _ (actBody_col w) arr [x] (by simp)

omit [Scalar K] in
theorem final_tabL_kmocap (n w : Int) (mpos : Int → V3 K) (mquat : Int → Q K) (arr : String) (j : Int) :
    final (tabL n (kmocapBody w mpos mquat)) arr [w, j]
      = if 0 ≤ j ∧ j < n then final (kmocapBody w mpos mquat j) arr [w, j] else none :=
  final_tabL_col n w _ (kmocapBody_col w mpos mquat) arr j

omit [Scalar K] in
theorem final_tabL_kmocap_one (n w : Int) (mpos : Int → V3 K) (mquat : Int → Q K) (arr : String) (x : Int) :
    final (tabL n (kmocapBody w mpos mquat)) arr [x] = none :=
  final_tabL_row n w _ (kmocapBody_col w mpos mquat) arr [x] (by simp)

/-- simp set that evaluates `final` on the hand-written write lists -/
macro "final_simp" : tactic =>
  `(tactic| simp [final_append, final_cons, final_ite, hits, final_tabL_cell, final_tabL_cell_one,
      final_tabL_qpos, final_tabL_qpos_one, final_tabL_act, final_tabL_act_one, final_tabL_kmocap,
      final_tabL_kmocap_one, qposBody, actBody, kmocapBody])

/-! ## array names -/

/-- all writes of `ws` go to arrays named in `names` -/
def arrsIn (names : List String) (ws : List (Write K)) : Prop := ∀ x ∈ ws, x.arr ∈ names

omit [Scalar K] in
theorem arrsIn_nil (names : List String) : arrsIn names ([] : List (Write K)) := by
  intro x hx; cases hx

omit [Scalar K] in
theorem arrsIn_append {names : List String} {a b : List (Write K)} (ha : arrsIn names a) (hb : arrsIn names b) :
    arrsIn names (a ++ b) := by
  intro x hx
  rcases List.mem_append.mp hx with h | h
  · exact ha x h
  · exact hb x h

omit [Scalar K] in
theorem arrsIn_cons {names : List String} {x : Write K} {xs : List (Write K)} (hx : x.arr ∈ names)
    (hxs : arrsIn names xs) : arrsIn names (x :: xs) := by
  intro y hy
  rcases List.mem_cons.mp hy with rfl | h
  · exact hx
  · exact hxs y h

omit [Scalar K] in
theorem arrsIn_ite {names : List String} (c : Prop) [Decidable c] {a b : List (Write K)} (ha : arrsIn names a)
    (hb : arrsIn names b) : arrsIn names (if c then a else b) := by
  split <;> assumption

omit [Scalar K] in
theorem arrsIn_tabL {names : List String} (n : Int) {g : Int → List (Write K)} (h : ∀ i, arrsIn names (g i)) :
    arrsIn names (tabL n g) :=
  forall_mem_tabL (fun i _ _ => h i)

end finals

/-! ## the sub-list of writes that go to one array -/

section toArr

/-- the writes of `ws` that go to array `arr`, in order -/
def toArr (arr : String) (ws : List (Write K)) : List (Write K) := ws.filter (fun x => x.arr == arr)

@[simp] theorem toArr_nil (arr : String) : toArr arr ([] : List (Write K)) = [] := rfl

theorem toArr_append (arr : String) (a b : List (Write K)) : toArr arr (a ++ b) = toArr arr a ++ toArr arr b := by
  simp [toArr]

theorem toArr_cons (arr : String) (x : Write K) (xs : List (Write K)) :
    toArr arr (x :: xs) = if x.arr = arr then x :: toArr arr xs else toArr arr xs := by
  by_cases h : x.arr = arr <;> simp [toArr, h]

theorem toArr_ite (arr : String) (c : Prop) [Decidable c] (a b : List (Write K)) :
    toArr arr (if c then a else b) = if c then toArr arr a else toArr arr b := by
  split <;> rfl

theorem toArr_tabL (arr : String) (n : Int) (g : Int → List (Write K)) :
    toArr arr (tabL n g) = tabL n (fun i => toArr arr (g i)) := by
  simp [toArr, tabL, List.filter_flatMap]

theorem tabL_nil {α : Type} (n : Int) : tabL n (fun _ => ([] : List α)) = [] := by
  simp [tabL]

theorem mem_toArr {arr : String} {ws : List (Write K)} {x : Write K} :
    x ∈ toArr arr ws ↔ x ∈ ws ∧ x.arr = arr := by
  simp [toArr]

/-- no write to `arr` ⇒ no cell of `arr` is written -/
theorem final_none_of_toArr_nil (ws : List (Write K)) (arr : String) (h : toArr arr ws = []) (idx : List Int) :
    final ws arr idx = none := by
  rw [final_eq_none_iff]
  intro x hx hc
  have : x ∈ toArr arr ws := mem_toArr.mpr ⟨hx, hc.1⟩
  rw [h] at this; cases this

end toArr

/-! ## the kernel calculus' own cell semantics (`Write.lookupI/F`) on untouched cells -/

theorem lookupI_of_no_write (ws : List (Write K)) (arr : String) (idx : List Int) (d : Int)
    (h : ∀ x ∈ ws, ¬ (x.arr = arr ∧ x.idx = idx)) : Write.lookupI ws arr idx d = d := by
  unfold Write.lookupI
  induction ws generalizing d with
  | nil => rfl
  | cons x xs ih =>
    have hx : ¬ (x.arr = arr ∧ x.idx = idx) := h x List.mem_cons_self
    have : (x.arr == arr && x.idx == idx) = false := by
      cases h1 : (x.arr == arr && x.idx == idx)
      · rfl
      · exfalso; apply hx; simpa using h1
    simp only [List.foldl_cons, this]
    exact ih d (fun y hy => h y (List.mem_cons_of_mem _ hy))

theorem lookupF_of_no_write [Scalar K] (ws : List (Write K)) (arr : String) (idx : List Int) (d : K)
    (h : ∀ x ∈ ws, ¬ (x.arr = arr ∧ x.idx = idx)) : Write.lookupF ws arr idx d = d := by
  unfold Write.lookupF
  induction ws generalizing d with
  | nil => rfl
  | cons x xs ih =>
    have hx : ¬ (x.arr = arr ∧ x.idx = idx) := h x List.mem_cons_self
    have : (x.arr == arr && x.idx == idx) = false := by
      cases h1 : (x.arr == arr && x.idx == idx)
      · rfl
      · exfalso; apply hx; simpa using h1
    simp only [List.foldl_cons, this]
    exact ih d (fun y hy => h y (List.mem_cons_of_mem _ hy))

/-- simp set that evaluates `toArr` on the hand-written write lists -/
macro "toArr_simp" : tactic =>
  `(tactic| simp [toArr_append, toArr_cons, toArr_ite, toArr_tabL, tabL_nil, qposBody, actBody, kmocapBody,
      cellBody])

/-- if the last write to an int cell is `set v`, the cell holds `v` afterwards (kernel-calculus semantics) -/
theorem lookupI_of_final_set (ws : List (Write K)) (arr : String) (idx : List Int) (v d : Int)
    (h : final ws arr idx = some (WVal.i v, WKind.set)) : Write.lookupI ws arr idx d = v := by
  induction ws generalizing d with
  | nil => simp at h
  | cons x xs ih =>
    rw [final_cons] at h
    have hstep : Write.lookupI (x :: xs) arr idx d
        = Write.lookupI xs arr idx (if x.arr == arr && x.idx == idx then
            (match x.kind, x.val with
             | .set, .i y => y
             | .aadd, .i y => d + y
             | .alloc, .i y => d + y
             | .asub, .i y => d - y
             | .amax, .i y => max d y
             | .amin, .i y => min d y
             | .aor, .i y => Mjw.ior d y
             | _, _ => d) else d) := rfl
    rw [hstep]
    cases hf : final xs arr idx with
    | some p =>
      rw [hf] at h
      exact ih _ (by rw [hf]; exact h)
    | none =>
      rw [hf, Option.none_or] at h
      by_cases hh : hits arr idx x = true
      · rw [if_pos hh] at h
        have hv : x.val = WVal.i v := by injection h with h; exact (Prod.mk.inj h).1
        have hk : x.kind = WKind.set := by injection h with h; exact (Prod.mk.inj h).2
        have hh' : (x.arr == arr && x.idx == idx) = true := hh
        rw [hh', if_pos rfl, hv, hk]
        exact lookupI_of_no_write xs arr idx v ((final_eq_none_iff xs arr idx).mp hf)
      · rw [if_neg hh] at h; cases h

theorem lookupI_of_final_none (ws : List (Write K)) (arr : String) (idx : List Int) (d : Int)
    (h : final ws arr idx = none) : Write.lookupI ws arr idx d = d :=
  lookupI_of_no_write ws arr idx d ((final_eq_none_iff ws arr idx).mp h)

theorem lookupF_of_final_none [Scalar K] (ws : List (Write K)) (arr : String) (idx : List Int) (d : K)
    (h : final ws arr idx = none) : Write.lookupF ws arr idx d = d :=
  lookupF_of_no_write ws arr idx d ((final_eq_none_iff ws arr idx).mp h)

/-- writes confined to `names` never touch an array outside `names` -/
theorem final_none_of_arrsIn {names : List String} {ws : List (Write K)} (h : arrsIn names ws) (arr : String)
    (harr : arr ∉ names) (idx : List Int) : final ws arr idx = none := by
  rw [final_eq_none_iff]
  intro x hx hc
  exact harr (hc.1 ▸ h x hx)

/-- "selected" (`reset=None` or mask bit set) excludes the early-return condition -/
theorem sel_not (reset_in : Int → Bool) (st : Bool) (w : Int) (hsel : st = false ∨ reset_in w = true) :
    ¬ (st = true ∧ reset_in w = false) := by
  rintro ⟨h1, h2⟩
  rcases hsel with h | h
  · rw [h1] at h; cases h
  · rw [h2] at h; cases h

end Mjw.Lemmas.C13
