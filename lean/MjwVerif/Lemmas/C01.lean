/-
  Helper definitions and lemmas for property C01 (kinematics agree with MuJoCo C).
  Property theorems live in `Props/C01.lean`.

  * `KinArgs`            : the array / shape arguments of `Gen.Smooth._kinematics_branch`, bundled
  * `jointBody5/4`, `regular5/4`, `bodyStepG` : K-generic copies of the stages of the generated loop body;
                           `kinematics_branch_unfold` (by `rfl`) ties them to the generated definition, so a change
                           of the generated code breaks the proofs here
  * `kinBodyW`           : the "Warp-flavoured" normal form of one body iteration (same recursion as
                           `Spec.Kinematics.kinBody`, with mujoco_warp's `math.*` functions and `wp.normalize`)
-/
import MjwVerif.Gen.Smooth
import MjwVerif.Spec.Kinematics
import MjwVerif.Lemmas.C13

set_option linter.unusedVariables false
set_option linter.unusedSimpArgs false
namespace Mjw.Lemmas.C01
open Mjw Mjw.Gen.Math Mjw.Spec.Kinematics

/-- the array and shape arguments of `_kinematics_branch` (same names as the kernel parameters) -/
structure KinArgs (K : Type) where
  qpos0 : Int → Int → K
  body_parentid : Int → Int
  body_mocapid : Int → Int
  body_jntnum : Int → Int
  body_jntadr : Int → Int
  body_pos : Int → Int → V3 K
  body_quat : Int → Int → Q K
  jnt_type : Int → Int
  jnt_qposadr : Int → Int
  jnt_pos : Int → Int → V3 K
  jnt_axis : Int → Int → V3 K
  body_branches : Int → Int
  body_branch_start : Int → Int
  qpos_in : Int → Int → K
  mocap_pos_in : Int → Int → V3 K
  mocap_quat_in : Int → Int → Q K
  xpos_out : Int → Int → V3 K
  xquat_out : Int → Int → Q K
  xanchor_out : Int → Int → V3 K
  xaxis_out : Int → Int → V3 K
  jnt_axis_shape0 : Int
  jnt_pos_shape0 : Int
  body_pos_shape0 : Int
  body_quat_shape0 : Int
  qpos0_shape0 : Int

variable {K : Type} [Scalar K]

/-- the generated kernel applied to a bundle -/
abbrev kin (a : KinArgs K) (tid0 tid1 : Int) : List (Write K) :=
  Gen.Smooth._kinematics_branch a.qpos0 a.body_parentid a.body_mocapid a.body_jntnum a.body_jntadr a.body_pos
    a.body_quat a.jnt_type a.jnt_qposadr a.jnt_pos a.jnt_axis a.body_branches a.body_branch_start a.qpos_in
    a.mocap_pos_in a.mocap_quat_in a.xpos_out a.xquat_out a.xanchor_out a.xaxis_out a.jnt_axis_shape0
    a.jnt_pos_shape0 a.body_pos_shape0 a.body_quat_shape0 a.qpos0_shape0 tid0 tid1

/-! ## copies of the stages of the generated loop body -/

/-- body of the joint loop when the loop state carries `jnt_type_` (the `jntnum == 1`, not FREE path) -/
def jointBody5 (a : KinArgs K) (worldid : Int) (qpos : Int → K) (jnt_pos_id : Int) :
    Int → (Int × Q K × V3 K × List (Write K) × Int) → (Int × Q K × V3 K × List (Write K) × Int) :=
  fun (_ : Int) (st : (Int × Q K × V3 K × List (Write K) × Int)) =>
    let (jnt_type_, xquat, xpos, ws, jntadr) := st
    let qadr : Int := (a.jnt_qposadr jntadr)
    let jnt_type_ : Int := (a.jnt_type jntadr)
    let jnt_axis_ : V3 K := (a.jnt_axis (Int.tmod worldid a.jnt_axis_shape0) jntadr)
    let xanchor : V3 K := (V3.add (Mjw.Gen.Math.rot_vec_quat (K := K) (a.jnt_pos jnt_pos_id jntadr) xquat) xpos)
    let xaxis : V3 K := (Mjw.Gen.Math.rot_vec_quat (K := K) jnt_axis_ xquat)
    let (qloc, xquat, xpos, qpos0_, qloc_) :=
      if (decide (jnt_type_ = (1 : Int))) then
        let qloc : Q K := (⟨(qpos (qadr + (0 : Int))), (qpos (qadr + (1 : Int))), (qpos (qadr + (2 : Int))), (qpos (qadr + (3 : Int)))⟩ : Q K)
        let qloc : Q K := (Q.normalize qloc)
        let xquat : Q K := (Mjw.Gen.Math.mul_quat (K := K) xquat qloc)
        let xpos : V3 K := (V3.sub xanchor (Mjw.Gen.Math.rot_vec_quat (K := K) (a.jnt_pos jnt_pos_id jntadr) xquat))
        (qloc, xquat, xpos, (Scalar.lit 0 0 : K), (Q.zero : Q K))
      else
        let (xpos, qpos0_, qloc_, xquat) :=
          if (decide (jnt_type_ = (2 : Int))) then
            let xpos : V3 K := (V3.add xpos (V3.muls xaxis ((qpos qadr) - (a.qpos0 (Int.tmod worldid a.qpos0_shape0) qadr))))
            (xpos, (Scalar.lit 0 0 : K), (Q.zero : Q K), xquat)
          else
            let (qpos0_, qloc_, xquat, xpos) :=
              if (decide (jnt_type_ = (3 : Int))) then
                let qpos0_ : K := (a.qpos0 (Int.tmod worldid a.qpos0_shape0) qadr)
                let qloc_ : Q K := (Mjw.Gen.Math.axis_angle_to_quat (K := K) jnt_axis_ ((qpos qadr) - qpos0_))
                let xquat : Q K := (Mjw.Gen.Math.mul_quat (K := K) xquat qloc_)
                let xpos : V3 K := (V3.sub xanchor (Mjw.Gen.Math.rot_vec_quat (K := K) (a.jnt_pos jnt_pos_id jntadr) xquat))
                (qpos0_, qloc_, xquat, xpos)
              else
                ((Scalar.lit 0 0 : K), (Q.zero : Q K), xquat, xpos)
            (xpos, qpos0_, qloc_, xquat)
        ((Q.zero : Q K), xquat, xpos, qpos0_, qloc_)
    let ws : List (Write K) := ws ++ [(Write.mk "xanchor_out" [worldid, jntadr] (WVal.v (V3.toList xanchor)) WKind.set : Write K)]
    let ws : List (Write K) := ws ++ [(Write.mk "xaxis_out" [worldid, jntadr] (WVal.v (V3.toList xaxis)) WKind.set : Write K)]
    let jntadr : Int := (jntadr + (1 : Int))
    (jnt_type_, xquat, xpos, ws, jntadr)

/-- body of the joint loop when the loop state does not carry `jnt_type_` (the `jntnum != 1` path) -/
def jointBody4 (a : KinArgs K) (worldid : Int) (qpos : Int → K) (jnt_pos_id : Int) :
    Int → (Q K × V3 K × List (Write K) × Int) → (Q K × V3 K × List (Write K) × Int) :=
  fun (_ : Int) (st : (Q K × V3 K × List (Write K) × Int)) =>
    let (xquat, xpos, ws, jntadr) := st
    let qadr : Int := (a.jnt_qposadr jntadr)
    let jnt_type_ : Int := (a.jnt_type jntadr)
    let jnt_axis_ : V3 K := (a.jnt_axis (Int.tmod worldid a.jnt_axis_shape0) jntadr)
    let xanchor : V3 K := (V3.add (Mjw.Gen.Math.rot_vec_quat (K := K) (a.jnt_pos jnt_pos_id jntadr) xquat) xpos)
    let xaxis : V3 K := (Mjw.Gen.Math.rot_vec_quat (K := K) jnt_axis_ xquat)
    let (qloc, xquat, xpos, qpos0_, qloc_) :=
      if (decide (jnt_type_ = (1 : Int))) then
        let qloc : Q K := (⟨(qpos (qadr + (0 : Int))), (qpos (qadr + (1 : Int))), (qpos (qadr + (2 : Int))), (qpos (qadr + (3 : Int)))⟩ : Q K)
        let qloc : Q K := (Q.normalize qloc)
        let xquat : Q K := (Mjw.Gen.Math.mul_quat (K := K) xquat qloc)
        let xpos : V3 K := (V3.sub xanchor (Mjw.Gen.Math.rot_vec_quat (K := K) (a.jnt_pos jnt_pos_id jntadr) xquat))
        (qloc, xquat, xpos, (Scalar.lit 0 0 : K), (Q.zero : Q K))
      else
        let (xpos, qpos0_, qloc_, xquat) :=
          if (decide (jnt_type_ = (2 : Int))) then
            let xpos : V3 K := (V3.add xpos (V3.muls xaxis ((qpos qadr) - (a.qpos0 (Int.tmod worldid a.qpos0_shape0) qadr))))
            (xpos, (Scalar.lit 0 0 : K), (Q.zero : Q K), xquat)
          else
            let (qpos0_, qloc_, xquat, xpos) :=
              if (decide (jnt_type_ = (3 : Int))) then
                let qpos0_ : K := (a.qpos0 (Int.tmod worldid a.qpos0_shape0) qadr)
                let qloc_ : Q K := (Mjw.Gen.Math.axis_angle_to_quat (K := K) jnt_axis_ ((qpos qadr) - qpos0_))
                let xquat : Q K := (Mjw.Gen.Math.mul_quat (K := K) xquat qloc_)
                let xpos : V3 K := (V3.sub xanchor (Mjw.Gen.Math.rot_vec_quat (K := K) (a.jnt_pos jnt_pos_id jntadr) xquat))
                (qpos0_, qloc_, xquat, xpos)
              else
                ((Scalar.lit 0 0 : K), (Q.zero : Q K), xquat, xpos)
            (xpos, qpos0_, qloc_, xquat)
        ((Q.zero : Q K), xquat, xpos, qpos0_, qloc_)
    let ws : List (Write K) := ws ++ [(Write.mk "xanchor_out" [worldid, jntadr] (WVal.v (V3.toList xanchor)) WKind.set : Write K)]
    let ws : List (Write K) := ws ++ [(Write.mk "xaxis_out" [worldid, jntadr] (WVal.v (V3.toList xaxis)) WKind.set : Write K)]
    let jntadr : Int := (jntadr + (1 : Int))
    (xquat, xpos, ws, jntadr)

/-- the frame of body `bodyid` before its joints, as the kernel computes it from the writes so far -/
def frameG (a : KinArgs K) (worldid : Int) (ws : List (Write K)) (bodyid : Int) : V3 K × Q K :=
  let pid : Int := (a.body_parentid bodyid)
  let mocapid : Int := (a.body_mocapid bodyid)
  let (xpos, xquat) :=
    if (decide (mocapid ≥ (0 : Int))) then
      let xpos : V3 K := (a.mocap_pos_in worldid mocapid)
      let xquat : Q K := (a.mocap_quat_in worldid mocapid)
      (xpos, xquat)
    else
      let xpos : V3 K := (a.body_pos (Int.tmod worldid a.body_pos_shape0) bodyid)
      let xquat : Q K := (a.body_quat (Int.tmod worldid a.body_quat_shape0) bodyid)
      (xpos, xquat)
  let (xpos, xquat) :=
    if (decide (pid ≥ (0 : Int))) then
      let xpos : V3 K := (V3.add (Mjw.Gen.Math.rot_vec_quat (K := K) xpos (Q.ofList (Write.lookupV ws "xquat_out" [worldid, pid] (Q.toList (a.xquat_out worldid pid))))) (V3.ofList (Write.lookupV ws "xpos_out" [worldid, pid] (V3.toList (a.xpos_out worldid pid)))))
      let xquat : Q K := (Mjw.Gen.Math.mul_quat (K := K) (Q.ofList (Write.lookupV ws "xquat_out" [worldid, pid] (Q.toList (a.xquat_out worldid pid)))) xquat)
      (xpos, xquat)
    else
      (xpos, xquat)
  (xpos, xquat)

/-- the loop body of the generated kernel -/
def bodyStepG (a : KinArgs K) (worldid : Int) : Int → List (Write K) → List (Write K) :=
  fun (i : Int) (st : List (Write K)) =>
    let qpos : (Int → K) := (a.qpos_in worldid)
    let ws := st
    let bodyid : Int := (a.body_branches i)
    let pid : Int := (a.body_parentid bodyid)
    let jntadr : Int := (a.body_jntadr bodyid)
    let jntnum : Int := (a.body_jntnum bodyid)
    if (decide (jntnum = (1 : Int))) then
      let jnt_type_ : Int := (a.jnt_type jntadr)
      if (decide (jnt_type_ = (0 : Int))) then
        let qadr : Int := (a.jnt_qposadr jntadr)
        let xpos : V3 K := (⟨(qpos qadr), (qpos (qadr + (1 : Int))), (qpos (qadr + (2 : Int)))⟩ : V3 K)
        let xquat : Q K := (⟨(qpos (qadr + (3 : Int))), (qpos (qadr + (4 : Int))), (qpos (qadr + (5 : Int))), (qpos (qadr + (6 : Int)))⟩ : Q K)
        let xquat : Q K := (Q.normalize xquat)
        let ws : List (Write K) := ws ++ [(Write.mk "xpos_out" [worldid, bodyid] (WVal.v (V3.toList xpos)) WKind.set : Write K)]
        let ws : List (Write K) := ws ++ [(Write.mk "xquat_out" [worldid, bodyid] (WVal.v (Q.toList xquat)) WKind.set : Write K)]
        let ws : List (Write K) := ws ++ [(Write.mk "xanchor_out" [worldid, jntadr] (WVal.v (V3.toList xpos)) WKind.set : Write K)]
        let ws : List (Write K) := ws ++ [(Write.mk "xaxis_out" [worldid, jntadr] (WVal.v (V3.toList (a.jnt_axis (Int.tmod worldid a.jnt_axis_shape0) jntadr))) WKind.set : Write K)]
        ws
      else
        let jnt_pos_id : Int := (Int.tmod worldid a.jnt_pos_shape0)
        let (xpos, xquat) := frameG a worldid ws bodyid
        let (jnt_type_, xquat, xpos, ws, jntadr) := Mjw.forRange (0 : Int) jntnum (jnt_type_, xquat, xpos, ws, jntadr) (jointBody5 a worldid qpos jnt_pos_id)
        let xquat : Q K := (Q.normalize xquat)
        let ws : List (Write K) := ws ++ [(Write.mk "xpos_out" [worldid, bodyid] (WVal.v (V3.toList xpos)) WKind.set : Write K)]
        let ws : List (Write K) := ws ++ [(Write.mk "xquat_out" [worldid, bodyid] (WVal.v (Q.toList xquat)) WKind.set : Write K)]
        ws
    else
      let jnt_pos_id : Int := (Int.tmod worldid a.jnt_pos_shape0)
      let (xpos, xquat) := frameG a worldid ws bodyid
      let (xquat, xpos, ws, jntadr) := Mjw.forRange (0 : Int) jntnum (xquat, xpos, ws, jntadr) (jointBody4 a worldid qpos jnt_pos_id)
      let xquat : Q K := (Q.normalize xquat)
      let ws : List (Write K) := ws ++ [(Write.mk "xpos_out" [worldid, bodyid] (WVal.v (V3.toList xpos)) WKind.set : Write K)]
      let ws : List (Write K) := ws ++ [(Write.mk "xquat_out" [worldid, bodyid] (WVal.v (Q.toList xquat)) WKind.set : Write K)]
      ws

/-- **the generated kernel is the `for i in range(start, end)` fold of `bodyStepG`** (definitional) -/
theorem kinematics_branch_unfold (a : KinArgs K) (tid0 tid1 : Int) :
    kin a tid0 tid1
      = forRange (a.body_branch_start tid1) (a.body_branch_start (tid1 + 1)) [] (bodyStepG a tid0) := rfl


/-! ## the Warp-flavoured normal form of one body iteration -/

/-- the model fields of joint `j` as world `w` sees them -/
def jointAt (a : KinArgs K) (w j : Int) : Joint K :=
  ⟨a.jnt_type j, a.jnt_qposadr j, a.jnt_pos (Int.tmod w a.jnt_pos_shape0) j,
   a.jnt_axis (Int.tmod w a.jnt_axis_shape0) j⟩

/-- one pass of the kernel's joint loop (mujoco_warp's `math.*`, `wp.normalize`) on the running pose -/
def jointApplyW (qpos qpos0 : Int → K) (j : Joint K) (s : Pose K) : Pose K × (V3 K × V3 K) :=
  let xanchor : V3 K := V3.add (rot_vec_quat j.pos s.quat) s.pos
  let xaxis : V3 K := rot_vec_quat j.axis s.quat
  let s' : Pose K :=
    if j.type = 1 then
      let q : Q K := mul_quat s.quat (Q.normalize (qposQuat qpos j.qadr))
      ⟨V3.sub xanchor (rot_vec_quat j.pos q), q⟩
    else if j.type = 2 then ⟨V3.add s.pos (V3.muls xaxis (qpos j.qadr - qpos0 j.qadr)), s.quat⟩
    else if j.type = 3 then
      let q : Q K := mul_quat s.quat (axis_angle_to_quat j.axis (qpos j.qadr - qpos0 j.qadr))
      ⟨V3.sub xanchor (rot_vec_quat j.pos q), q⟩
    else s
  (s', (xanchor, xaxis))

/-- the two writes of one pass of the joint loop -/
def jntWrite (w j : Int) (o : V3 K × V3 K) : List (Write K) :=
  [(Write.mk "xanchor_out" [w, j] (WVal.v (V3.toList o.1)) WKind.set : Write K),
   (Write.mk "xaxis_out" [w, j] (WVal.v (V3.toList o.2)) WKind.set : Write K)]

theorem jointBody5_eq (a : KinArgs K) (w : Int) (qpos : Int → K) (k t : Int) (q : Q K) (p : V3 K)
    (ws : List (Write K)) (j : Int) :
    jointBody5 a w qpos (Int.tmod w a.jnt_pos_shape0) k (t, q, p, ws, j)
      = (a.jnt_type j,
         (jointApplyW qpos (a.qpos0 (Int.tmod w a.qpos0_shape0)) (jointAt a w j) ⟨p, q⟩).1.quat,
         (jointApplyW qpos (a.qpos0 (Int.tmod w a.qpos0_shape0)) (jointAt a w j) ⟨p, q⟩).1.pos,
         ws ++ jntWrite w j (jointApplyW qpos (a.qpos0 (Int.tmod w a.qpos0_shape0)) (jointAt a w j) ⟨p, q⟩).2,
         j + 1) := by
  simp only [jointBody5, jointApplyW, jointAt, jntWrite, qposQuat, decide_eq_true_eq, Int.add_zero,
    List.append_assoc, List.cons_append, List.nil_append]
  by_cases h1 : a.jnt_type j = 1
  · simp only [h1, if_true]
  · by_cases h2 : a.jnt_type j = 2
    · simp only [h1, h2, if_true, if_false]; rfl
    · by_cases h3 : a.jnt_type j = 3
      · simp only [h1, h2, h3, if_true, if_false]; rfl
      · simp only [h1, h2, h3, if_false]

theorem jointBody4_eq (a : KinArgs K) (w : Int) (qpos : Int → K) (k : Int) (q : Q K) (p : V3 K)
    (ws : List (Write K)) (j : Int) :
    jointBody4 a w qpos (Int.tmod w a.jnt_pos_shape0) k (q, p, ws, j)
      = ((jointApplyW qpos (a.qpos0 (Int.tmod w a.qpos0_shape0)) (jointAt a w j) ⟨p, q⟩).1.quat,
         (jointApplyW qpos (a.qpos0 (Int.tmod w a.qpos0_shape0)) (jointAt a w j) ⟨p, q⟩).1.pos,
         ws ++ jntWrite w j (jointApplyW qpos (a.qpos0 (Int.tmod w a.qpos0_shape0)) (jointAt a w j) ⟨p, q⟩).2,
         j + 1) := by
  simp only [jointBody4, jointApplyW, jointAt, jntWrite, qposQuat, decide_eq_true_eq, Int.add_zero,
    List.append_assoc, List.cons_append, List.nil_append]
  by_cases h1 : a.jnt_type j = 1
  · simp only [h1, if_true]
  · by_cases h2 : a.jnt_type j = 2
    · simp only [h1, h2, if_true, if_false]; rfl
    · by_cases h3 : a.jnt_type j = 3
      · simp only [h1, h2, h3, if_true, if_false]; rfl
      · simp only [h1, h2, h3, if_false]


/-! ## loops whose body ignores the index -/

/-- `g` applied `n` times, first application innermost-first (`iter g (n+1) s = iter g n (g s)`) -/
def iter {σ : Type} (g : σ → σ) : Nat → σ → σ
  | 0, s => s
  | n + 1, s => iter g n (g s)

theorem iter_succ' {σ : Type} (g : σ → σ) (n : Nat) (s : σ) : iter g (n + 1) s = g (iter g n s) := by
  induction n generalizing s with
  | zero => rfl
  | succ n ih => rw [iter, ih (g s)]; rfl

theorem foldl_range_const {σ : Type} (g : σ → σ) (m : Nat) (init : σ) :
    (List.range m).foldl (fun s (_ : Nat) => g s) init = iter g m init := by
  induction m with
  | zero => rfl
  | succ m ih => rw [List.range_succ, List.foldl_append, ih, iter_succ']; rfl

/-- `for _ in range(n): s = g s` -/
theorem forRange_const {σ : Type} (n : Int) (init : σ) (f : Int → σ → σ) (g : σ → σ)
    (h : ∀ k s, f k s = g s) : forRange 0 n init f = iter g n.toNat init := by
  unfold forRange
  have : (fun s (k : Nat) => f (0 + Int.ofNat k) s) = (fun s (_ : Nat) => g s) := by
    funext s k; exact h _ _
  rw [this, Int.sub_zero, foldl_range_const]

/-- loop invariant rule for `forRange` -/
theorem forRange_inv {σ : Type} (I : σ → Prop) (lo hi : Int) (init : σ) (f : Int → σ → σ)
    (h0 : I init) (hs : ∀ i s, lo ≤ i → i < hi → I s → I (f i s)) : I (forRange lo hi init f) := by
  unfold forRange
  have key : ∀ (l : List Nat) (init : σ), (∀ k ∈ l, (k : Int) < hi - lo) → I init →
      I (l.foldl (fun s (k : Nat) => f (lo + Int.ofNat k) s) init) := by
    intro l
    induction l with
    | nil => intro init _ h; exact h
    | cons a l ih =>
      intro init hl h
      have ha := hl a (List.mem_cons_self)
      exact ih _ (fun k hk => hl k (List.mem_cons_of_mem _ hk))
        (hs _ _ (by simp only [Int.ofNat_eq_natCast]; omega) (by simp only [Int.ofNat_eq_natCast]; omega) h)
  apply key _ _ _ h0
  intro k hk
  have := List.mem_range.mp hk
  omega

/-! ## the joint loop -/

/-- the joints `j, j+1, …, j+m-1` -/
def jointList (a : KinArgs K) (w : Int) : Int → Nat → List (Joint K)
  | _, 0 => []
  | j, m + 1 => jointAt a w j :: jointList a w (j + 1) m

/-- the kernel's joint loop on the running pose -/
def jointsFoldW (qpos qpos0 : Int → K) : List (Joint K) → Pose K → Pose K × List (V3 K × V3 K)
  | [], s => (s, [])
  | j :: js, s =>
    let r := jointApplyW qpos qpos0 j s
    let rs := jointsFoldW qpos qpos0 js r.1
    (rs.1, r.2 :: rs.2)

/-- the writes of the joint loop, joints numbered from `j` -/
def jntWrites (w : Int) : Int → List (V3 K × V3 K) → List (Write K)
  | _, [] => []
  | j, o :: os => jntWrite w j o ++ jntWrites w (j + 1) os

theorem iter_jointBody5 (a : KinArgs K) (w : Int) (qpos : Int → K) (m : Nat) (t : Int) (q : Q K) (p : V3 K)
    (ws : List (Write K)) (j : Int) :
    ∃ t', iter (jointBody5 a w qpos (Int.tmod w a.jnt_pos_shape0) 0) m (t, q, p, ws, j)
      = (t',
         (jointsFoldW qpos (a.qpos0 (Int.tmod w a.qpos0_shape0)) (jointList a w j m) ⟨p, q⟩).1.quat,
         (jointsFoldW qpos (a.qpos0 (Int.tmod w a.qpos0_shape0)) (jointList a w j m) ⟨p, q⟩).1.pos,
         ws ++ jntWrites w j (jointsFoldW qpos (a.qpos0 (Int.tmod w a.qpos0_shape0)) (jointList a w j m) ⟨p, q⟩).2,
         j + m) := by
  induction m generalizing t q p ws j with
  | zero => exact ⟨t, by simp [iter, jointList, jointsFoldW, jntWrites]⟩
  | succ m ih =>
    rw [iter, jointBody5_eq]
    obtain ⟨t', h⟩ := ih (a.jnt_type j) _ _ _ (j + 1)
    refine ⟨t', ?_⟩
    rw [h]
    simp only [jointList, jointsFoldW, jntWrites, List.append_assoc, Int.add_assoc]
    congr 4
    push_cast; omega

theorem iter_jointBody4 (a : KinArgs K) (w : Int) (qpos : Int → K) (m : Nat) (q : Q K) (p : V3 K)
    (ws : List (Write K)) (j : Int) :
    iter (jointBody4 a w qpos (Int.tmod w a.jnt_pos_shape0) 0) m (q, p, ws, j)
      = ((jointsFoldW qpos (a.qpos0 (Int.tmod w a.qpos0_shape0)) (jointList a w j m) ⟨p, q⟩).1.quat,
         (jointsFoldW qpos (a.qpos0 (Int.tmod w a.qpos0_shape0)) (jointList a w j m) ⟨p, q⟩).1.pos,
         ws ++ jntWrites w j (jointsFoldW qpos (a.qpos0 (Int.tmod w a.qpos0_shape0)) (jointList a w j m) ⟨p, q⟩).2,
         j + m) := by
  induction m generalizing q p ws j with
  | zero => simp [iter, jointList, jointsFoldW, jntWrites]
  | succ m ih =>
    rw [iter, jointBody4_eq, ih]
    simp only [jointList, jointsFoldW, jntWrites, List.append_assoc, Int.add_assoc]
    congr 3
    push_cast; omega


/-! ## one body -/

/-- the pose of the parent of `bodyid` as the thread sees it: its own earlier writes, else the pre-launch arrays
    (`none` only for a negative parent id, which no compiled model has) -/
def parentOf (a : KinArgs K) (w : Int) (ws : List (Write K)) (bodyid : Int) : Option (Pose K) :=
  if a.body_parentid bodyid ≥ 0 then
    some ⟨V3.ofList (Write.lookupV ws "xpos_out" [w, a.body_parentid bodyid]
                      (V3.toList (a.xpos_out w (a.body_parentid bodyid)))),
          Q.ofList (Write.lookupV ws "xquat_out" [w, a.body_parentid bodyid]
                      (Q.toList (a.xquat_out w (a.body_parentid bodyid))))⟩
  else none

/-- the fields of body `b` as world `w` sees them -/
def bpAt (a : KinArgs K) (w b : Int) : BodyParams K :=
  ⟨a.body_pos (Int.tmod w a.body_pos_shape0) b, a.body_quat (Int.tmod w a.body_quat_shape0) b,
   if a.body_mocapid b ≥ 0 then some (a.mocap_pos_in w (a.body_mocapid b), a.mocap_quat_in w (a.body_mocapid b))
   else none⟩

/-- the kernel's body frame before joints: mocap pose is used AS IS (not normalised); a parent (also the
    world, id 0) is always composed with, through `rot_vec_quat` / `mul_quat` -/
def bodyFrameW (parent : Option (Pose K)) (bp : BodyParams K) : Pose K :=
  let b : Pose K :=
    match bp.mocap with
    | some (mp, mq) => ⟨mp, mq⟩
    | none => ⟨bp.pos, bp.quat⟩
  match parent with
  | some P => ⟨V3.add (rot_vec_quat b.pos P.quat) P.pos, mul_quat P.quat b.quat⟩
  | none => b

theorem frameG_eq (a : KinArgs K) (w : Int) (ws : List (Write K)) (b : Int) :
    frameG a w ws b = ((bodyFrameW (parentOf a w ws b) (bpAt a w b)).pos,
                       (bodyFrameW (parentOf a w ws b) (bpAt a w b)).quat) := by
  simp only [frameG, bodyFrameW, parentOf, bpAt, decide_eq_true_eq]
  by_cases h1 : a.body_mocapid b ≥ 0 <;> by_cases h2 : a.body_parentid b ≥ 0 <;> simp only [h1, h2, if_true, if_false]

def regularBodyW (parent : Option (Pose K)) (bp : BodyParams K) (joints : List (Joint K))
    (qpos qpos0 : Int → K) : BodyOut K :=
  let r := jointsFoldW qpos qpos0 joints (bodyFrameW parent bp)
  ⟨⟨r.1.pos, Q.normalize r.1.quat⟩, r.2⟩

def freeBodyW (j : Joint K) (qpos : Int → K) : BodyOut K :=
  let xpos : V3 K := ⟨qpos j.qadr, qpos (j.qadr + 1), qpos (j.qadr + 2)⟩
  ⟨⟨xpos, Q.normalize (qposQuat qpos (j.qadr + 3))⟩, [(xpos, j.axis)]⟩

/-- **Warp normal form of one body iteration** (compare `Spec.Kinematics.kinBody`) -/
def kinBodyW (parent : Option (Pose K)) (bp : BodyParams K) (joints : List (Joint K))
    (qpos qpos0 : Int → K) : BodyOut K :=
  match joints with
  | [j] => if j.type = 0 then freeBodyW j qpos else regularBodyW parent bp joints qpos qpos0
  | _ => regularBodyW parent bp joints qpos qpos0

/-- the pose writes of a body -/
def poseWrites (w b : Int) (p : Pose K) : List (Write K) :=
  [(Write.mk "xpos_out" [w, b] (WVal.v (V3.toList p.pos)) WKind.set : Write K),
   (Write.mk "xquat_out" [w, b] (WVal.v (Q.toList p.quat)) WKind.set : Write K)]

/-- the body takes the kernel's FREE shortcut (`jntnum == 1 and jnt_type[jntadr] == FREE`) -/
def isFree (a : KinArgs K) (b : Int) : Bool :=
  decide (a.body_jntnum b = 1) && decide (a.jnt_type (a.body_jntadr b) = 0)

/-- everything the kernel writes for one body, in program order: the FREE shortcut writes the pose first,
    the regular path the joints first -/
def bodyWrites (w b jntadr : Int) (free : Bool) (o : BodyOut K) : List (Write K) :=
  if free then poseWrites w b o.pose ++ jntWrites w jntadr o.jnt
  else jntWrites w jntadr o.jnt ++ poseWrites w b o.pose

/-- the joints of body `b` -/
def jointsOf (a : KinArgs K) (w b : Int) : List (Joint K) :=
  jointList a w (a.body_jntadr b) (a.body_jntnum b).toNat

/-- the result of the kernel's iteration for body `b` given the writes so far -/
def bodyOutW (a : KinArgs K) (w : Int) (ws : List (Write K)) (b : Int) : BodyOut K :=
  kinBodyW (parentOf a w ws b) (bpAt a w b) (jointsOf a w b) (a.qpos_in w) (a.qpos0 (Int.tmod w a.qpos0_shape0))

theorem kinBodyW_of_length_ne_one (parent : Option (Pose K)) (bp : BodyParams K) (joints : List (Joint K))
    (qpos qpos0 : Int → K) (h : joints.length ≠ 1) :
    kinBodyW parent bp joints qpos qpos0 = regularBodyW parent bp joints qpos qpos0 := by
  match joints, h with
  | [], _ => rfl
  | [_], h => exact absurd rfl h
  | _ :: _ :: _, _ => rfl

omit [Scalar K] in
theorem jointList_length (a : KinArgs K) (w j : Int) (m : Nat) : (jointList a w j m).length = m := by
  induction m generalizing j with
  | zero => rfl
  | succ m ih => simp [jointList, ih]

/-- **one iteration of the generated loop appends exactly `bodyWrites … (kinBodyW …)`** -/
theorem bodyStepG_eq (a : KinArgs K) (w i : Int) (ws : List (Write K)) :
    bodyStepG a w i ws
      = ws ++ bodyWrites w (a.body_branches i) (a.body_jntadr (a.body_branches i)) (isFree a (a.body_branches i))
          (bodyOutW a w ws (a.body_branches i)) := by
  generalize hb : a.body_branches i = b
  unfold bodyStepG
  simp only [hb, decide_eq_true_eq, frameG_eq]
  by_cases h1 : a.body_jntnum b = 1
  · have hl : jointsOf a w b = [jointAt a w (a.body_jntadr b)] := by
      simp [jointsOf, h1, jointList]
    by_cases h0 : a.jnt_type (a.body_jntadr b) = 0
    · simp only [h1, h0, if_true, isFree, bodyWrites, bodyOutW, hl, kinBodyW, jointAt, freeBodyW, poseWrites,
        jntWrites, jntWrite, qposQuat, decide_true, Bool.and_self, List.append_assoc, List.cons_append,
        List.nil_append, List.append_nil, Int.add_assoc]
      rfl
    · have hf : isFree a b = false := by simp [isFree, h0]
      rw [if_pos h1, if_neg h0]
      rw [forRange_const (a.body_jntnum b) _ (jointBody5 a w (a.qpos_in w) (Int.tmod w a.jnt_pos_shape0))
        (jointBody5 a w (a.qpos_in w) (Int.tmod w a.jnt_pos_shape0) 0) (fun _ _ => rfl)]
      obtain ⟨t', ht⟩ := iter_jointBody5 a w (a.qpos_in w) (a.body_jntnum b).toNat (a.jnt_type (a.body_jntadr b))
        (bodyFrameW (parentOf a w ws b) (bpAt a w b)).quat (bodyFrameW (parentOf a w ws b) (bpAt a w b)).pos ws
        (a.body_jntadr b)
      rw [ht]
      simp only [hf, bodyWrites, bodyOutW, hl, kinBodyW, jointAt, h0, if_false, regularBodyW, poseWrites,
        List.append_assoc, Bool.false_eq_true]
      simp only [h1, jointList, Int.toNat_one, jointAt]
      rfl
  · have hf : isFree a b = false := by simp [isFree, h1]
    rw [if_neg h1]
    rw [forRange_const (a.body_jntnum b) _ (jointBody4 a w (a.qpos_in w) (Int.tmod w a.jnt_pos_shape0))
      (jointBody4 a w (a.qpos_in w) (Int.tmod w a.jnt_pos_shape0) 0) (fun _ _ => rfl)]
    rw [iter_jointBody4]
    have hlen : (jointsOf a w b).length ≠ 1 := by
      rw [jointsOf, jointList_length]; omega
    rw [bodyOutW, kinBodyW_of_length_ne_one _ _ _ _ _ hlen]
    simp only [hf, bodyWrites, regularBodyW, poseWrites, List.append_assoc, Bool.false_eq_true, if_false, jointsOf]
    rfl


/-! ## reading one's own writes -/

omit [Scalar K] in
theorem lookupV_append (x y : List (Write K)) (arr : String) (idx : List Int) (d : List K) :
    Write.lookupV (x ++ y) arr idx d = Write.lookupV y arr idx (Write.lookupV x arr idx d) := by
  simp [Write.lookupV, List.foldl_append]

omit [Scalar K] in
theorem lookupV_no_arr (ws : List (Write K)) (arr : String) (idx : List Int) (d : List K)
    (h : ∀ x ∈ ws, x.arr ≠ arr) : Write.lookupV ws arr idx d = d := by
  induction ws generalizing d with
  | nil => rfl
  | cons x xs ih =>
    have hx : ¬ (x.arr = arr) := h x List.mem_cons_self
    have : Write.lookupV (x :: xs) arr idx d = Write.lookupV xs arr idx d := by
      simp [Write.lookupV, hx]
    rw [this]
    exact ih d (fun y hy => h y (List.mem_cons_of_mem _ hy))

omit [Scalar K] in
theorem jntWrites_arr (w j : Int) (os : List (V3 K × V3 K)) :
    ∀ x ∈ jntWrites w j os, x.arr = "xanchor_out" ∨ x.arr = "xaxis_out" := by
  induction os generalizing j with
  | nil => intro x hx; cases hx
  | cons o os ih =>
    intro x hx
    simp only [jntWrites, jntWrite, List.cons_append, List.nil_append, List.mem_cons] at hx
    rcases hx with rfl | rfl | hx
    · exact Or.inl rfl
    · exact Or.inr rfl
    · exact ih _ x hx

omit [Scalar K] in
theorem lookupV_jntWrites_xpos (w j : Int) (os : List (V3 K × V3 K)) (idx : List Int) (d : List K) :
    Write.lookupV (jntWrites w j os) "xpos_out" idx d = d :=
  lookupV_no_arr _ _ _ _ (fun x hx => by rcases jntWrites_arr w j os x hx with h | h <;> rw [h] <;> decide)

omit [Scalar K] in
theorem lookupV_jntWrites_xquat (w j : Int) (os : List (V3 K × V3 K)) (idx : List Int) (d : List K) :
    Write.lookupV (jntWrites w j os) "xquat_out" idx d = d :=
  lookupV_no_arr _ _ _ _ (fun x hx => by rcases jntWrites_arr w j os x hx with h | h <;> rw [h] <;> decide)

omit [Scalar K] in
theorem lookupV_poseWrites_xpos (w b : Int) (p : Pose K) (d : List K) :
    Write.lookupV (poseWrites w b p) "xpos_out" [w, b] d = V3.toList p.pos := by
  simp [Write.lookupV, poseWrites]

omit [Scalar K] in
theorem lookupV_poseWrites_xquat (w b : Int) (p : Pose K) (d : List K) :
    Write.lookupV (poseWrites w b p) "xquat_out" [w, b] d = Q.toList p.quat := by
  simp [Write.lookupV, poseWrites]

omit [Scalar K] in
/-- after a body's iteration the thread reads back exactly the position it wrote for that body -/
theorem lookupV_bodyWrites_xpos (w b j : Int) (free : Bool) (o : BodyOut K) (d : List K) :
    Write.lookupV (bodyWrites w b j free o) "xpos_out" [w, b] d = V3.toList o.pose.pos := by
  cases free <;>
    simp only [bodyWrites, lookupV_append, lookupV_jntWrites_xpos, lookupV_poseWrites_xpos, if_true,
      Bool.false_eq_true, if_false]

omit [Scalar K] in
theorem lookupV_bodyWrites_xquat (w b j : Int) (free : Bool) (o : BodyOut K) (d : List K) :
    Write.lookupV (bodyWrites w b j free o) "xquat_out" [w, b] d = Q.toList o.pose.quat := by
  cases free <;>
    simp only [bodyWrites, lookupV_append, lookupV_jntWrites_xquat, lookupV_poseWrites_xquat, if_true,
      Bool.false_eq_true, if_false]

theorem V3_ofList_toList (v : V3 K) : V3.ofList (V3.toList v) = v := rfl
theorem Q_ofList_toList (q : Q K) : Q.ofList (Q.toList q) = q := rfl

/-! ## the chain -/

/-- Warp normal form of the kinematics along a chain `c 0, c 1, …`; `world` is the pose the root composes with -/
def kinChainW (world : Option (Pose K)) (bp : Nat → BodyParams K) (jn : Nat → List (Joint K))
    (qpos qpos0 : Int → K) : Nat → BodyOut K
  | 0 => kinBodyW world (bp 0) (jn 0) qpos qpos0
  | n + 1 => kinBodyW (some (kinChainW world bp jn qpos qpos0 n).pose) (bp (n + 1)) (jn (n + 1)) qpos qpos0

/-- body `k` of the chain of branch thread `br` -/
def chainBody (a : KinArgs K) (br : Int) (k : Nat) : Int := a.body_branches (a.body_branch_start br + k)

/-- number of bodies of the chain of branch `br` -/
def chainLen (a : KinArgs K) (br : Int) : Nat := (a.body_branch_start (br + 1) - a.body_branch_start br).toNat

/-- the result for the `k`-th body of the chain of branch `br` in world `w` -/
def chainOut (a : KinArgs K) (w br : Int) (k : Nat) : BodyOut K :=
  kinChainW (parentOf a w [] (chainBody a br 0)) (fun k => bpAt a w (chainBody a br k))
    (fun k => jointsOf a w (chainBody a br k)) (a.qpos_in w) (a.qpos0 (Int.tmod w a.qpos0_shape0)) k

/-- what the thread writes for the `k`-th body of its chain -/
def chainBodyWrites (a : KinArgs K) (w br : Int) (k : Nat) : List (Write K) :=
  bodyWrites w (chainBody a br k) (a.body_jntadr (chainBody a br k)) (isFree a (chainBody a br k)) (chainOut a w br k)

/-- the writes for the first `m` bodies of the chain, in program order -/
def chainWrites (a : KinArgs K) (w br : Int) (m : Nat) : List (Write K) :=
  (List.range m).flatMap (chainBodyWrites a w br)

/-- the chain is parent-linked: each body's parent is the previous one (and parent ids are non-negative) -/
def Linked (a : KinArgs K) (br : Int) : Prop :=
  ∀ k, k + 1 < chainLen a br →
    a.body_parentid (chainBody a br (k + 1)) = chainBody a br k ∧ 0 ≤ chainBody a br k

theorem chainWrites_succ (a : KinArgs K) (w br : Int) (m : Nat) :
    chainWrites a w br (m + 1) = chainWrites a w br m ++ chainBodyWrites a w br m := by
  simp [chainWrites, List.range_succ, List.flatMap_append]

/-- what the thread sees as parent pose of chain body `m` after `m` iterations -/
theorem parentOf_chainWrites (a : KinArgs K) (w br : Int) (hl : Linked a br) (m : Nat) (hm : m + 1 < chainLen a br) :
    parentOf a w (chainWrites a w br (m + 1)) (chainBody a br (m + 1)) = some (chainOut a w br m).pose := by
  obtain ⟨hp, h0⟩ := hl m hm
  unfold parentOf
  rw [hp, if_pos (by omega), chainWrites_succ, lookupV_append, lookupV_append]
  simp only [chainBodyWrites, lookupV_bodyWrites_xpos, lookupV_bodyWrites_xquat, V3_ofList_toList, Q_ofList_toList]

theorem foldl_bodyStepG (a : KinArgs K) (w br : Int) (hl : Linked a br) (m : Nat) (hm : m ≤ chainLen a br) :
    (List.range m).foldl (fun s (k : Nat) => bodyStepG a w (a.body_branch_start br + Int.ofNat k) s) []
      = chainWrites a w br m := by
  induction m with
  | zero => rfl
  | succ m ih =>
    rw [List.range_succ, List.foldl_append, ih (by omega)]
    simp only [List.foldl_cons, List.foldl_nil]
    rw [bodyStepG_eq, chainWrites_succ]
    congr 1
    have hb : a.body_branches (a.body_branch_start br + Int.ofNat m) = chainBody a br m := rfl
    rw [hb, chainBodyWrites]
    congr 1
    unfold bodyOutW chainOut
    cases m with
    | zero => rfl
    | succ m =>
      rw [parentOf_chainWrites a w br hl m (by omega)]
      rfl

/-- **the branch thread's complete write list in closed form** -/
theorem kin_eq_chainWrites (a : KinArgs K) (w br : Int) (hl : Linked a br) :
    kin a w br = chainWrites a w br (chainLen a br) := by
  rw [kinematics_branch_unfold]
  unfold forRange
  exact foldl_bodyStepG a w br hl _ (Nat.le_refl _)


/-! ## which cells of xpos_out / xquat_out the thread writes, and with what -/

open Mjw.Lemmas.C13 in
omit [Scalar K] in
theorem mem_bodyWrites_pose (w b j : Int) (free : Bool) (o : BodyOut K) (x : Write K)
    (hx : x ∈ bodyWrites w b j free o) (ha : x.arr = "xpos_out" ∨ x.arr = "xquat_out") :
    x = (Write.mk "xpos_out" [w, b] (WVal.v (V3.toList o.pose.pos)) WKind.set : Write K)
    ∨ x = (Write.mk "xquat_out" [w, b] (WVal.v (Q.toList o.pose.quat)) WKind.set : Write K) := by
  have key : x ∈ poseWrites w b o.pose := by
    have hj : x ∉ jntWrites w j o.jnt := by
      intro hj
      rcases jntWrites_arr w j o.jnt x hj with h | h <;> rcases ha with h' | h' <;> rw [h] at h' <;>
        exact absurd h' (by decide)
    cases free <;> simp only [bodyWrites, if_true, Bool.false_eq_true, if_false, List.mem_append] at hx <;>
      rcases hx with h | h <;> first | exact h | exact absurd h hj
  simpa [poseWrites] using key

omit [Scalar K] in
theorem mem_bodyWrites_has_pose (w b j : Int) (free : Bool) (o : BodyOut K) :
    (Write.mk "xpos_out" [w, b] (WVal.v (V3.toList o.pose.pos)) WKind.set : Write K) ∈ bodyWrites w b j free o
    ∧ (Write.mk "xquat_out" [w, b] (WVal.v (Q.toList o.pose.quat)) WKind.set : Write K) ∈ bodyWrites w b j free o := by
  cases free <;> simp [bodyWrites, poseWrites]

theorem mem_chainWrites (a : KinArgs K) (w br : Int) (m : Nat) (x : Write K) :
    x ∈ chainWrites a w br m ↔ ∃ k, k < m ∧ x ∈ chainBodyWrites a w br k := by
  simp [chainWrites, List.mem_flatMap, List.mem_range]

/-- every write of the thread to `xpos_out` / `xquat_out` is the pose write of some body of its chain -/
theorem chainWrites_pose (a : KinArgs K) (w br : Int) (m : Nat) (x : Write K) (hx : x ∈ chainWrites a w br m)
    (ha : x.arr = "xpos_out" ∨ x.arr = "xquat_out") :
    ∃ k, k < m ∧
      (x = (Write.mk "xpos_out" [w, chainBody a br k] (WVal.v (V3.toList (chainOut a w br k).pose.pos)) WKind.set : Write K)
       ∨ x = (Write.mk "xquat_out" [w, chainBody a br k] (WVal.v (Q.toList (chainOut a w br k).pose.quat)) WKind.set : Write K)) := by
  obtain ⟨k, hk, hxk⟩ := (mem_chainWrites a w br m x).mp hx
  exact ⟨k, hk, mem_bodyWrites_pose _ _ _ _ _ x hxk ha⟩

/-! ## tree structure: a body determines its root path -/

/-- the chain of branch `br` starts at a child of the world, never contains the world, and is parent-linked -/
structure WF (a : KinArgs K) (br : Int) : Prop where
  linked : Linked a br
  root : 0 < chainLen a br → a.body_parentid (chainBody a br 0) = 0
  pos : ∀ k, k < chainLen a br → 0 < chainBody a br k

omit [Scalar K] in
/-- two chains of a tree that meet in a body meet at the same depth and share the whole prefix -/
theorem chain_prefix (a : KinArgs K) (b1 b2 : Int) (h1 : WF a b1) (h2 : WF a b2) :
    ∀ (i1 i2 : Nat), i1 < chainLen a b1 → i2 < chainLen a b2 → chainBody a b1 i1 = chainBody a b2 i2 →
      i1 = i2 ∧ ∀ k, k ≤ i1 → chainBody a b1 k = chainBody a b2 k := by
  intro i1
  induction i1 with
  | zero =>
    intro i2 hi1 hi2 he
    cases i2 with
    | zero =>
      refine ⟨rfl, fun k hk => ?_⟩
      have : k = 0 := by omega
      subst this; exact he
    | succ k =>
      exfalso
      have hp := (h2.linked k hi2).1
      have hr := h1.root hi1
      rw [he, hp] at hr
      have := h2.pos k (by omega)
      omega
  | succ j ih =>
    intro i2 hi1 hi2 he
    cases i2 with
    | zero =>
      exfalso
      have hp := (h1.linked j hi1).1
      have hr := h2.root hi2
      rw [← he, hp] at hr
      have := h1.pos j (by omega)
      omega
    | succ k =>
      have hp1 := (h1.linked j hi1).1
      have hp2 := (h2.linked k hi2).1
      have hpar : chainBody a b1 j = chainBody a b2 k := by rw [← hp1, ← hp2, he]
      obtain ⟨hjk, hpre⟩ := ih k (by omega) (by omega) hpar
      subst hjk
      refine ⟨rfl, fun k' hk' => ?_⟩
      by_cases hk'' : k' ≤ j
      · exact hpre k' hk''
      · have : k' = j + 1 := by omega
        subst this; exact he

omit [Scalar K] in
/-- the bodies of a well-formed chain are pairwise different -/
theorem chain_inj (a : KinArgs K) (br : Int) (h : WF a br) (i j : Nat) (hi : i < chainLen a br)
    (hj : j < chainLen a br) (he : chainBody a br i = chainBody a br j) : i = j :=
  (chain_prefix a br br h h i j hi hj he).1

/-- the value a chain assigns to its `i`-th body depends only on the chain prefix up to `i` -/
theorem kinChainW_congr (world : Option (Pose K)) (bp bp' : Nat → BodyParams K) (jn jn' : Nat → List (Joint K))
    (qpos qpos0 : Int → K) (i : Nat) (hb : ∀ k, k ≤ i → bp k = bp' k) (hj : ∀ k, k ≤ i → jn k = jn' k) :
    kinChainW world bp jn qpos qpos0 i = kinChainW world bp' jn' qpos qpos0 i := by
  induction i with
  | zero => simp only [kinChainW, hb 0 (Nat.le_refl _), hj 0 (Nat.le_refl _)]
  | succ i ih =>
    simp only [kinChainW, hb (i + 1) (Nat.le_refl _), hj (i + 1) (Nat.le_refl _)]
    rw [ih (fun k hk => hb k (by omega)) (fun k hk => hj k (by omega))]

theorem chainOut_congr (a : KinArgs K) (w b1 b2 : Int) (i : Nat)
    (h : ∀ k, k ≤ i → chainBody a b1 k = chainBody a b2 k) : chainOut a w b1 i = chainOut a w b2 i := by
  unfold chainOut
  rw [h 0 (Nat.zero_le _)]
  exact kinChainW_congr _ _ _ _ _ _ _ i (fun k hk => by rw [h k hk]) (fun k hk => by rw [h k hk])

open Mjw.Lemmas.C13 in
/-- the last (and only) write of the thread to `xpos_out[w, c i]` / `xquat_out[w, c i]` -/
theorem final_chainWrites (a : KinArgs K) (w br : Int) (h : WF a br) (i : Nat) (hi : i < chainLen a br) :
    final (chainWrites a w br (chainLen a br)) "xpos_out" [w, chainBody a br i]
        = some (WVal.v (V3.toList (chainOut a w br i).pose.pos), WKind.set)
    ∧ final (chainWrites a w br (chainLen a br)) "xquat_out" [w, chainBody a br i]
        = some (WVal.v (Q.toList (chainOut a w br i).pose.quat), WKind.set) := by
  have hmem := mem_bodyWrites_has_pose w (chainBody a br i) (a.body_jntadr (chainBody a br i))
    (isFree a (chainBody a br i)) (chainOut a w br i)
  constructor
  · apply final_eq_some_of_forall
    · exact ⟨_, (mem_chainWrites a w br _ _).mpr ⟨i, hi, hmem.1⟩, rfl, rfl⟩
    · intro x hx harr hidx
      obtain ⟨k, hk, hxk⟩ := chainWrites_pose a w br _ x hx (Or.inl harr)
      rcases hxk with rfl | rfl
      · have : chainBody a br k = chainBody a br i := by simpa using hidx
        have hki := chain_inj a br h k i hk hi this
        subst hki; rfl
      · exact absurd (show ("xquat_out" : String) = "xpos_out" from harr) (by decide)
  · apply final_eq_some_of_forall
    · exact ⟨_, (mem_chainWrites a w br _ _).mpr ⟨i, hi, hmem.2⟩, rfl, rfl⟩
    · intro x hx harr hidx
      obtain ⟨k, hk, hxk⟩ := chainWrites_pose a w br _ x hx (Or.inr harr)
      rcases hxk with rfl | rfl
      · exact absurd (show ("xpos_out" : String) = "xquat_out" from harr) (by decide)
      · have : chainBody a br k = chainBody a br i := by simpa using hidx
        have hki := chain_inj a br h k i hk hi this
        subst hki; rfl


/-! ## the joint cells (xanchor_out / xaxis_out) -/

theorem jointsFoldW_length (qpos qpos0 : Int → K) (js : List (Joint K)) (s : Pose K) :
    (jointsFoldW qpos qpos0 js s).2.length = js.length := by
  induction js generalizing s with
  | nil => rfl
  | cons j js ih => simp [jointsFoldW, ih]

theorem kinBodyW_jnt_length (parent : Option (Pose K)) (bp : BodyParams K) (js : List (Joint K))
    (qpos qpos0 : Int → K) : (kinBodyW parent bp js qpos qpos0).jnt.length = js.length := by
  have hreg : (regularBodyW parent bp js qpos qpos0).jnt.length = js.length := jointsFoldW_length _ _ _ _
  match js, hreg with
  | [], hreg => exact hreg
  | [j], hreg =>
    simp only [kinBodyW]
    by_cases h0 : j.type = 0
    · simp [h0, freeBodyW]
    · simp only [h0, if_false]; exact hreg
  | _ :: _ :: _, hreg => exact hreg

theorem kinChainW_jnt_length (world : Option (Pose K)) (bp : Nat → BodyParams K) (jn : Nat → List (Joint K))
    (qpos qpos0 : Int → K) (k : Nat) : (kinChainW world bp jn qpos qpos0 k).jnt.length = (jn k).length := by
  cases k <;> exact kinBodyW_jnt_length _ _ _ _ _

theorem chainOut_jnt_length (a : KinArgs K) (w br : Int) (k : Nat) :
    (chainOut a w br k).jnt.length = (a.body_jntnum (chainBody a br k)).toNat := by
  unfold chainOut
  rw [kinChainW_jnt_length, jointsOf, jointList_length]

omit [Scalar K] in
/-- the writes of the joint loop: joint `j + r` gets anchor / axis number `r` -/
theorem mem_jntWrites (w j : Int) (os : List (V3 K × V3 K)) (x : Write K) (hx : x ∈ jntWrites w j os) :
    ∃ (r : Nat) (h : r < os.length),
      x = (Write.mk "xanchor_out" [w, j + r] (WVal.v (V3.toList (os[r]).1)) WKind.set : Write K)
      ∨ x = (Write.mk "xaxis_out" [w, j + r] (WVal.v (V3.toList (os[r]).2)) WKind.set : Write K) := by
  induction os generalizing j with
  | nil => cases hx
  | cons o os ih =>
    simp only [jntWrites, jntWrite, List.cons_append, List.nil_append, List.mem_cons] at hx
    rcases hx with rfl | rfl | hx
    · exact ⟨0, by simp, Or.inl (by simp)⟩
    · exact ⟨0, by simp, Or.inr (by simp)⟩
    · obtain ⟨r, hr, h⟩ := ih (j + 1) hx
      refine ⟨r + 1, by simp; omega, ?_⟩
      have e : j + 1 + (r : Int) = j + ((r + 1 : Nat) : Int) := by push_cast; omega
      rw [e] at h
      simpa using h

omit [Scalar K] in
theorem mem_bodyWrites_jnt (w b j : Int) (free : Bool) (o : BodyOut K) (x : Write K)
    (hx : x ∈ bodyWrites w b j free o) (ha : x.arr = "xanchor_out" ∨ x.arr = "xaxis_out") :
    x ∈ jntWrites w j o.jnt := by
  have hp : x ∉ poseWrites w b o.pose := by
    intro hp
    simp only [poseWrites, List.mem_cons, List.mem_nil_iff, or_false] at hp
    rcases hp with rfl | rfl <;> rcases ha with h | h <;> simp at h
  cases free <;> simp only [bodyWrites, if_true, Bool.false_eq_true, if_false, List.mem_append] at hx <;>
    rcases hx with h | h <;> first | exact h | exact absurd h hp

/-- joint address ranges of different bodies do not overlap (true of every compiled model) -/
def JntDisjoint (a : KinArgs K) : Prop :=
  ∀ (b1 b2 : Int) (r1 r2 : Nat), r1 < (a.body_jntnum b1).toNat → r2 < (a.body_jntnum b2).toNat →
    a.body_jntadr b1 + r1 = a.body_jntadr b2 + r2 → b1 = b2

/-- every write of the thread to `xanchor_out` / `xaxis_out` is entry `r` of the joint results of some chain body -/
theorem chainWrites_jnt (a : KinArgs K) (w br : Int) (m : Nat) (x : Write K) (hx : x ∈ chainWrites a w br m)
    (ha : x.arr = "xanchor_out" ∨ x.arr = "xaxis_out") :
    ∃ (k : Nat) (_ : k < m) (r : Nat) (h : r < (chainOut a w br k).jnt.length),
      x = (Write.mk "xanchor_out" [w, a.body_jntadr (chainBody a br k) + r]
            (WVal.v (V3.toList ((chainOut a w br k).jnt[r]).1)) WKind.set : Write K)
      ∨ x = (Write.mk "xaxis_out" [w, a.body_jntadr (chainBody a br k) + r]
            (WVal.v (V3.toList ((chainOut a w br k).jnt[r]).2)) WKind.set : Write K) := by
  obtain ⟨k, hk, hxk⟩ := (mem_chainWrites a w br m x).mp hx
  obtain ⟨r, hr, h⟩ := mem_jntWrites _ _ _ x (mem_bodyWrites_jnt _ _ _ _ _ x hxk ha)
  exact ⟨k, hk, r, hr, h⟩


/-! ## single-joint bodies -/

omit [Scalar K] in
theorem jointsOf_single (a : KinArgs K) (w b : Int) (j : Joint K) (h : jointsOf a w b = [j]) :
    a.body_jntnum b = 1 ∧ j = jointAt a w (a.body_jntadr b) := by
  have hl : (a.body_jntnum b).toNat = 1 := by
    have := congrArg List.length h
    rw [jointsOf, jointList_length] at this
    simpa using this
  have h1 : a.body_jntnum b = 1 := by omega
  refine ⟨h1, ?_⟩
  rw [jointsOf, hl] at h
  simp only [jointList, List.cons.injEq, and_true] at h
  exact h.symm

omit [Scalar K] in
theorem isFree_single (a : KinArgs K) (w b : Int) (j : Joint K) (h : jointsOf a w b = [j]) :
    isFree a b = decide (j.type = 0) := by
  obtain ⟨h1, hj⟩ := jointsOf_single a w b j h
  subst hj
  by_cases h0 : a.jnt_type (a.body_jntadr b) = 0 <;> simp [isFree, h1, jointAt, h0]

/-- `kin a w br` is the `for i in range(start, end)` fold of the loop body `f` -/
def KernelLoop (a : KinArgs K) (w br : Int) (f : Int → List (Write K) → List (Write K)) : Prop :=
  kin a w br = forRange (a.body_branch_start br) (a.body_branch_start (br + 1)) [] f

theorem kernelLoop (a : KinArgs K) (w br : Int) : KernelLoop a w br (bodyStepG a w) :=
  kinematics_branch_unfold a w br

end Mjw.Lemmas.C01
