/-
  Helper lemmas for C35, part 2 (K = ℝ): closed forms of `Gen.Render_util.compute_ray`, facts about
  `V3.normalize`, and the scalar inequalities behind "the BVH leaf box of `Gen.Bvh._compute_*_bounds` contains
  the geom".
-/
import MjwVerif.Lemmas.C35
import MjwVerif.Gen.Render_util
import MjwVerif.Gen.Bvh

set_option linter.unusedSimpArgs false
namespace Mjw.Lemmas.C35
open Mjw Mjw.RayCast Mjw.Lemmas.C34 Mjw.Gen.Render_util

/-! ### literals -/
theorem lit_half : (Scalar.lit 5 (-1) : ℝ) = 1 / 2 := by rw [slit]; norm_num
theorem lit_two : (Scalar.lit 2 0 : ℝ) = 2 := by norm_num
theorem lit_one' : (Scalar.lit 1 0 : ℝ) = 1 := by norm_num
theorem lit_maxval : (Scalar.lit 1 10 : ℝ) = 10 ^ (10 : ℕ) := by rw [slit]; norm_num
theorem lit_1000 : (Scalar.lit 1 3 : ℝ) = 1000 := by rw [slit]; norm_num
theorem lit_001 : (Scalar.lit 1 (-2) : ℝ) = 1 / 100 := by rw [slit]; norm_num

/-- the literal `wp.static(wp.pi / 180.0)` as it appears in the source (a decimal, not π/180) -/
noncomputable def deg2rad : ℝ := 17453292519943295 / 10 ^ (18 : ℕ)
theorem lit_deg : (Scalar.lit 17453292519943295 (-18) : ℝ) = deg2rad := by rw [slit, deg2rad]; norm_num

/-- `tan(fovy/2)` with `fovy` in degrees, as the code computes it -/
noncomputable def halfTan (fovy : ℝ) : ℝ := Real.tan (1 / 2 * (fovy * deg2rad))

/-- pixel-centre coordinate of pixel `p` of `n` in `[-1, 1]`: `2·(p + 1/2)/n - 1` -/
noncomputable def ndc (p n : Int) : ℝ := 2 * (((p : ℝ) + 1 / 2) / (n : ℝ)) - 1

theorem v3_congr {a b c a' b' c' : ℝ} (h0 : a = a') (h1 : b = b') (h2 : c = c') :
    (⟨a, b, c⟩ : V3 ℝ) = ⟨a', b', c'⟩ := by subst h0 h1 h2; rfl

/-! ### `compute_ray` closed forms -/

theorem compute_ray_ortho (fovy : ℝ) (ss : V2 ℝ) (intr : V4 ℝ) (w h px py : Int) (zn : ℝ) :
    compute_ray 1 fovy ss intr w h px py zn = ⟨0, 0, -1⟩ := by
  unfold compute_ray
  simp only [decide_true, if_true, lit0, litm1]

/-- perspective camera without sensor size (`sensorsize[1] == 0`): the `fovy` branch -/
theorem compute_ray_fovy (proj : Int) (fovy : ℝ) (ss : V2 ℝ) (intr : V4 ℝ) (w h px py : Int) (zn : ℝ)
    (hp : proj ≠ 1) (hs : ss.c1 = 0) :
    compute_ray proj fovy ss intr w h px py zn =
      V3.normalize ⟨zn * halfTan fovy * ((w : ℝ) / (h : ℝ)) * ndc px w, zn * halfTan fovy * (-(ndc py h)), -zn⟩ := by
  unfold compute_ray
  simp only [hp, decide_false, Bool.false_eq_true, if_false, hs, sbne, lit0, ne_eq, not_true_eq_false,
    hadd, hsub, hmul, hdiv, hneg, stan, sofInt, lit_half, lit_deg]
  congr 1
  apply v3_congr
  · simp only [halfTan, ndc]; ring
  · simp only [halfTan, ndc]; ring
  · rfl

/-- the sensor size after clipping to the image aspect ratio (`target_aspect` vs `sensor_aspect`) -/
noncomputable def effSensor (ss : V2 ℝ) (w h : Int) : ℝ × ℝ :=
  if ss.c0 / ss.c1 < (w : ℝ) / (h : ℝ) then (ss.c0, ss.c0 / ((w : ℝ) / (h : ℝ)))
  else if (w : ℝ) / (h : ℝ) < ss.c0 / ss.c1 then (ss.c1 * ((w : ℝ) / (h : ℝ)), ss.c1)
  else (ss.c0, ss.c1)

/-- perspective camera with sensor size and intrinsics `(fx, fy, cx, cy)` -/
theorem compute_ray_intrinsic (proj : Int) (fovy : ℝ) (ss : V2 ℝ) (intr : V4 ℝ) (w h px py : Int) (zn : ℝ)
    (hp : proj ≠ 1) (hs : ss.c1 ≠ 0) :
    compute_ray proj fovy ss intr w h px py zn =
      V3.normalize ⟨zn / intr.c0 * ((effSensor ss w h).1 * (ndc px w / 2) + intr.c2),
                    zn / intr.c1 * ((effSensor ss w h).2 * (-(ndc py h) / 2) - intr.c3), -zn⟩ := by
  unfold compute_ray effSensor
  simp only [hp, decide_false, Bool.false_eq_true, if_false, hs, sbne, lit0, ne_eq, not_false_eq_true, if_true,
    hadd, hsub, hmul, hdiv, hneg, sofInt, lit_half, sgt, slt]
  split_ifs <;> (congr 1; apply v3_congr <;> first | rfl | (simp only [ndc]; ring))

/-! ### `V3.normalize` -/

theorem normalize_unit_of_z (x y z : ℝ) (hz : z ≠ 0) :
    V3.dot (V3.normalize ⟨x, y, z⟩) (V3.normalize ⟨x, y, z⟩) = 1 := by
  have hpos : 0 < x * x + y * y + z * z := by
    have : 0 < z * z := mul_self_pos.mpr hz
    nlinarith [mul_self_nonneg x, mul_self_nonneg y]
  exact (normalize_of_dot (v := ⟨x, y, z⟩) (r2 := x * x + y * y + z * z) rfl hpos).2

/-- for `z < 0`: `normalize (x,y,z)` has negative third component and rescaling it to third component `z` gives
    back `(x,y,z)`, i.e. the unit ray passes through the point `(x,y,z)`. -/
theorem normalize_through (x y z : ℝ) (hz : z < 0) :
    (V3.normalize ⟨x, y, z⟩).c2 < 0 ∧
    V3.muls (V3.normalize ⟨x, y, z⟩) (z / (V3.normalize ⟨x, y, z⟩).c2) = ⟨x, y, z⟩ := by
  have hpos : 0 < x * x + y * y + z * z := by nlinarith [mul_self_nonneg x, mul_self_nonneg y]
  have hn := (normalize_of_dot (v := ⟨x, y, z⟩) (r2 := x * x + y * y + z * z) rfl hpos).1
  have hs : 0 < Real.sqrt (x * x + y * y + z * z) := Real.sqrt_pos.mpr hpos
  rw [hn]
  simp only [V3.divs, V3.muls, hdiv, hmul]
  refine ⟨div_neg_of_neg_of_pos hz hs, ?_⟩
  have hne : Real.sqrt (x * x + y * y + z * z) ≠ 0 := hs.ne'
  have hzne : z ≠ 0 := hz.ne
  apply v3_congr <;> field_simp

theorem normalize_axis (z : ℝ) (hz : z < 0) : V3.normalize (⟨0, 0, z⟩ : V3 ℝ) = ⟨0, 0, -1⟩ := by
  have hpos : 0 < (0 : ℝ) * 0 + 0 * 0 + z * z := by nlinarith
  have hn := (normalize_of_dot (v := ⟨0, 0, z⟩) (r2 := 0 * 0 + 0 * 0 + z * z) rfl hpos).1
  rw [hn]
  have : Real.sqrt (0 * 0 + 0 * 0 + z * z) = -z := by
    rw [show (0 : ℝ) * 0 + 0 * 0 + z * z = (-z) * (-z) by ring]
    exact Real.sqrt_mul_self (by linarith)
  rw [this]
  simp only [V3.divs, hdiv]
  apply v3_congr
  · simp
  · simp
  · rw [div_neg, div_self hz.ne]

/-- positive rescaling does not change the normalised direction -/
theorem normalize_smul (k x y z : ℝ) (hk : 0 < k) (hz : z ≠ 0) :
    V3.normalize (⟨k * x, k * y, k * z⟩ : V3 ℝ) = V3.normalize ⟨x, y, z⟩ := by
  have hpos : 0 < x * x + y * y + z * z := by
    have : 0 < z * z := mul_self_pos.mpr hz
    nlinarith [mul_self_nonneg x, mul_self_nonneg y]
  have hpos' : 0 < k * x * (k * x) + k * y * (k * y) + k * z * (k * z) := by
    have : k * x * (k * x) + k * y * (k * y) + k * z * (k * z) = k * k * (x * x + y * y + z * z) := by ring
    rw [this]; positivity
  rw [(normalize_of_dot (v := ⟨k * x, k * y, k * z⟩) rfl hpos').1, (normalize_of_dot (v := ⟨x, y, z⟩) rfl hpos).1]
  have hsq : Real.sqrt (k * x * (k * x) + k * y * (k * y) + k * z * (k * z)) = k * Real.sqrt (x * x + y * y + z * z) := by
    rw [show k * x * (k * x) + k * y * (k * y) + k * z * (k * z) = k * k * (x * x + y * y + z * z) by ring,
      Real.sqrt_mul (by positivity), Real.sqrt_mul_self hk.le]
  simp only [V3.dot, V3.divs, hdiv, hsq]
  have hs : Real.sqrt (x * x + y * y + z * z) ≠ 0 := (Real.sqrt_pos.mpr hpos).ne'
  apply v3_congr <;> field_simp

/-! ### scalar inequalities for the bounds -/

theorem abs_le_of_sq {a r : ℝ} (hr : 0 ≤ r) (h : a * a ≤ r * r) : -r ≤ a ∧ a ≤ r := by
  constructor <;> nlinarith

/-- Cauchy–Schwarz in the plane / in space, in the form used for cylinder and ellipsoid extents -/
theorem cs2 (a b x y : ℝ) : (a * x + b * y) * (a * x + b * y) ≤ (a * a + b * b) * (x * x + y * y) := by
  nlinarith [sq_nonneg (a * y - b * x)]

theorem cs3 (a b c x y z : ℝ) :
    (a * x + b * y + c * z) * (a * x + b * y + c * z) ≤ (a * a + b * b + c * c) * (x * x + y * y + z * z) := by
  nlinarith [sq_nonneg (a * y - b * x), sq_nonneg (a * z - c * x), sq_nonneg (b * z - c * y)]

/-- `|t| ≤ s·√q` from `t² ≤ q·s²` -/
theorem abs_le_mul_sqrt {t q s : ℝ} (hs : 0 ≤ s) (hq : 0 ≤ q) (h : t * t ≤ q * (s * s)) :
    -(s * Real.sqrt q) ≤ t ∧ t ≤ s * Real.sqrt q := by
  have h1 : (s * Real.sqrt q) * (s * Real.sqrt q) = q * (s * s) := by
    have := Real.mul_self_sqrt hq
    calc (s * Real.sqrt q) * (s * Real.sqrt q) = (Real.sqrt q * Real.sqrt q) * (s * s) := by ring
      _ = q * (s * s) := by rw [this]
  exact abs_le_of_sq (mul_nonneg hs (Real.sqrt_nonneg q)) (by rw [h1]; exact h)

theorem lin1 (c a s m : ℝ) (l : -1 ≤ s) (u : s ≤ 1) (h0 : m ≤ c - a) (h1 : m ≤ c + a) : m ≤ c + a * s := by
  rcases le_total 0 a with g | g
  · nlinarith [mul_nonneg g (by linarith : (0:ℝ) ≤ s + 1)]
  · nlinarith [mul_nonneg (neg_nonneg.mpr g) (by linarith : (0:ℝ) ≤ 1 - s)]

/-- a linear function on the cube `[-1,1]³` lies between its values at the 8 corners -/
theorem cube_lo (p a0 a1 a2 s0 s1 s2 m : ℝ)
    (l0 : -1 ≤ s0) (u0 : s0 ≤ 1) (l1 : -1 ≤ s1) (u1 : s1 ≤ 1) (l2 : -1 ≤ s2) (u2 : s2 ≤ 1)
    (h000 : m ≤ p - a0 - a1 - a2) (h001 : m ≤ p - a0 - a1 + a2) (h010 : m ≤ p - a0 + a1 - a2)
    (h011 : m ≤ p - a0 + a1 + a2) (h100 : m ≤ p + a0 - a1 - a2) (h101 : m ≤ p + a0 - a1 + a2)
    (h110 : m ≤ p + a0 + a1 - a2) (h111 : m ≤ p + a0 + a1 + a2) :
    m ≤ p + a0 * s0 + a1 * s1 + a2 * s2 := by
  have e00 : m ≤ (p - a0 - a1) + a2 * s2 := lin1 _ a2 s2 m l2 u2 h000 h001
  have e01 : m ≤ (p - a0 + a1) + a2 * s2 := lin1 _ a2 s2 m l2 u2 h010 h011
  have e10 : m ≤ (p + a0 - a1) + a2 * s2 := lin1 _ a2 s2 m l2 u2 h100 h101
  have e11 : m ≤ (p + a0 + a1) + a2 * s2 := lin1 _ a2 s2 m l2 u2 h110 h111
  have f0 : m ≤ (p - a0 + a2 * s2) + a1 * s1 := lin1 _ a1 s1 m l1 u1 (by linarith) (by linarith)
  have f1 : m ≤ (p + a0 + a2 * s2) + a1 * s1 := lin1 _ a1 s1 m l1 u1 (by linarith) (by linarith)
  have g : m ≤ (p + a2 * s2 + a1 * s1) + a0 * s0 := lin1 _ a0 s0 m l0 u0 (by linarith) (by linarith)
  linarith

theorem cube_hi (p a0 a1 a2 s0 s1 s2 m : ℝ)
    (l0 : -1 ≤ s0) (u0 : s0 ≤ 1) (l1 : -1 ≤ s1) (u1 : s1 ≤ 1) (l2 : -1 ≤ s2) (u2 : s2 ≤ 1)
    (h000 : p - a0 - a1 - a2 ≤ m) (h001 : p - a0 - a1 + a2 ≤ m) (h010 : p - a0 + a1 - a2 ≤ m)
    (h011 : p - a0 + a1 + a2 ≤ m) (h100 : p + a0 - a1 - a2 ≤ m) (h101 : p + a0 - a1 + a2 ≤ m)
    (h110 : p + a0 + a1 - a2 ≤ m) (h111 : p + a0 + a1 + a2 ≤ m) :
    p + a0 * s0 + a1 * s1 + a2 * s2 ≤ m := by
  have := cube_lo (-p) a0 a1 a2 (-s0) (-s1) (-s2) (-m) (by linarith) (by linarith) (by linarith) (by linarith)
    (by linarith) (by linarith) (by linarith) (by linarith) (by linarith) (by linarith) (by linarith) (by linarith)
    (by linarith) (by linarith)
  linarith

/-! ### nested min / max of corner values -/

/-- `(lower, upper)` of `bvh._compute_*_bounds` as a `Box` -/
def boxOf (p : V3 ℝ × V3 ℝ) : Box ℝ := ⟨p.1, p.2⟩

theorem nested_min_cube (m0 p a0 a1 a2 s0 s1 s2 c1 c2 c3 c4 c5 c6 c7 c8 t : ℝ)
    (l0 : -1 ≤ s0) (u0 : s0 ≤ 1) (l1 : -1 ≤ s1) (u1 : s1 ≤ 1) (l2 : -1 ≤ s2) (u2 : s2 ≤ 1)
    (e1 : c1 = p - a0 - a1 - a2) (e2 : c2 = p - a0 - a1 + a2) (e3 : c3 = p - a0 + a1 - a2)
    (e4 : c4 = p - a0 + a1 + a2) (e5 : c5 = p + a0 - a1 - a2) (e6 : c6 = p + a0 - a1 + a2)
    (e7 : c7 = p + a0 + a1 - a2) (e8 : c8 = p + a0 + a1 + a2) (et : t = p + a0 * s0 + a1 * s1 + a2 * s2) :
    min (min (min (min (min (min (min (min m0 c1) c2) c3) c4) c5) c6) c7) c8 ≤ t := by
  have hm : ∀ c, (c = c1 ∨ c = c2 ∨ c = c3 ∨ c = c4 ∨ c = c5 ∨ c = c6 ∨ c = c7 ∨ c = c8) →
      min (min (min (min (min (min (min (min m0 c1) c2) c3) c4) c5) c6) c7) c8 ≤ c := by
    intro c hc
    rcases hc with rfl | rfl | rfl | rfl | rfl | rfl | rfl | rfl <;> simp only [min_le_iff, le_refl, true_or, or_true]
  rw [et]
  exact cube_lo p a0 a1 a2 s0 s1 s2 _ l0 u0 l1 u1 l2 u2
    (e1 ▸ hm c1 (by simp)) (e2 ▸ hm c2 (by simp)) (e3 ▸ hm c3 (by simp)) (e4 ▸ hm c4 (by simp))
    (e5 ▸ hm c5 (by simp)) (e6 ▸ hm c6 (by simp)) (e7 ▸ hm c7 (by simp)) (e8 ▸ hm c8 (by simp))

theorem nested_max_cube (m0 p a0 a1 a2 s0 s1 s2 c1 c2 c3 c4 c5 c6 c7 c8 t : ℝ)
    (l0 : -1 ≤ s0) (u0 : s0 ≤ 1) (l1 : -1 ≤ s1) (u1 : s1 ≤ 1) (l2 : -1 ≤ s2) (u2 : s2 ≤ 1)
    (e1 : c1 = p - a0 - a1 - a2) (e2 : c2 = p - a0 - a1 + a2) (e3 : c3 = p - a0 + a1 - a2)
    (e4 : c4 = p - a0 + a1 + a2) (e5 : c5 = p + a0 - a1 - a2) (e6 : c6 = p + a0 - a1 + a2)
    (e7 : c7 = p + a0 + a1 - a2) (e8 : c8 = p + a0 + a1 + a2) (et : t = p + a0 * s0 + a1 * s1 + a2 * s2) :
    t ≤ max (max (max (max (max (max (max (max m0 c1) c2) c3) c4) c5) c6) c7) c8 := by
  have hm : ∀ c, (c = c1 ∨ c = c2 ∨ c = c3 ∨ c = c4 ∨ c = c5 ∨ c = c6 ∨ c = c7 ∨ c = c8) →
      c ≤ max (max (max (max (max (max (max (max m0 c1) c2) c3) c4) c5) c6) c7) c8 := by
    intro c hc
    rcases hc with rfl | rfl | rfl | rfl | rfl | rfl | rfl | rfl <;> simp only [le_max_iff, le_refl, true_or, or_true]
  rw [et]
  exact cube_hi p a0 a1 a2 s0 s1 s2 _ l0 u0 l1 u1 l2 u2
    (e1 ▸ hm c1 (by simp)) (e2 ▸ hm c2 (by simp)) (e3 ▸ hm c3 (by simp)) (e4 ▸ hm c4 (by simp))
    (e5 ▸ hm c5 (by simp)) (e6 ▸ hm c6 (by simp)) (e7 ▸ hm c7 (by simp)) (e8 ▸ hm c8 (by simp))

/-- one coordinate of the ellipsoid extent -/
theorem ell_coord (a b c x y z : ℝ) (hu : x * x + y * y + z * z ≤ 1) :
    -Real.sqrt (a * a + b * b + c * c) ≤ a * x + b * y + c * z ∧ a * x + b * y + c * z ≤ Real.sqrt (a * a + b * b + c * c) := by
  have hq : 0 ≤ a * a + b * b + c * c := by nlinarith [mul_self_nonneg a, mul_self_nonneg b, mul_self_nonneg c]
  have h := abs_le_mul_sqrt (t := a * x + b * y + c * z) (q := a * a + b * b + c * c) (s := 1) (by norm_num) hq
    (by nlinarith [cs3 a b c x y z])
  simpa using h

theorem cyl_coord (bx by' ax r h x y z : ℝ) (hr : 0 ≤ r) (hxy : x * x + y * y ≤ r * r) (lz : -h ≤ z) (uz : z ≤ h) :
    -(r * Real.sqrt (bx * bx + by' * by') + h * |ax|) ≤ bx * x + by' * y + ax * z ∧
      bx * x + by' * y + ax * z ≤ r * Real.sqrt (bx * bx + by' * by') + h * |ax| := by
  have hq : 0 ≤ bx * bx + by' * by' := by nlinarith [mul_self_nonneg bx, mul_self_nonneg by']
  have h1 := abs_le_mul_sqrt (t := bx * x + by' * y) (q := bx * bx + by' * by') (s := r) hr hq
    (by nlinarith [cs2 bx by' x y, mul_le_mul_of_nonneg_left hxy hq])
  have h2 : -(h * |ax|) ≤ ax * z ∧ ax * z ≤ h * |ax| := by
    rcases abs_cases ax with ⟨e, g⟩ | ⟨e, g⟩ <;> rw [e] <;> constructor <;> nlinarith
  constructor <;> linarith [h1.1, h1.2, h2.1, h2.2]

theorem lin1S (c a S x m : ℝ) (l : -S ≤ x) (u : x ≤ S) (h0 : m ≤ c - a * S) (h1 : m ≤ c + a * S) : m ≤ c + a * x := by
  rcases le_total 0 a with g | g
  · nlinarith [mul_nonneg g (by linarith : (0:ℝ) ≤ x + S)]
  · nlinarith [mul_nonneg (neg_nonneg.mpr g) (by linarith : (0:ℝ) ≤ S - x)]

theorem nested_min_sq' (m0 p a0 a1 S x y : ℝ) (l0 : -S ≤ x) (u0 : x ≤ S) (l1 : -S ≤ y) (u1 : y ≤ S) :
    min (min (min (min m0 (p - a0 * S - a1 * S)) (p - a0 * S + a1 * S)) (p + a0 * S - a1 * S)) (p + a0 * S + a1 * S) - 1 / 100
      ≤ p + a0 * x + a1 * y := by
  generalize hM : min (min (min (min m0 (p - a0 * S - a1 * S)) (p - a0 * S + a1 * S)) (p + a0 * S - a1 * S)) (p + a0 * S + a1 * S) = M
  have h1 : M ≤ p - a0 * S - a1 * S := by rw [← hM]; simp only [min_le_iff, le_refl, true_or, or_true]
  have h2 : M ≤ p - a0 * S + a1 * S := by rw [← hM]; simp only [min_le_iff, le_refl, true_or, or_true]
  have h3 : M ≤ p + a0 * S - a1 * S := by rw [← hM]; simp only [min_le_iff, le_refl, true_or, or_true]
  have h4 : M ≤ p + a0 * S + a1 * S := by rw [← hM]; simp only [min_le_iff, le_refl, true_or, or_true]
  have f0 : M ≤ (p - a0 * S) + a1 * y := lin1S _ a1 S y _ l1 u1 h1 h2
  have f1 : M ≤ (p + a0 * S) + a1 * y := lin1S _ a1 S y _ l1 u1 h3 h4
  have g : M ≤ (p + a1 * y) + a0 * x := lin1S _ a0 S x _ l0 u0 (by linarith) (by linarith)
  linarith

theorem nested_max_sq' (m0 p a0 a1 S x y : ℝ) (l0 : -S ≤ x) (u0 : x ≤ S) (l1 : -S ≤ y) (u1 : y ≤ S) :
    p + a0 * x + a1 * y ≤
      max (max (max (max m0 (p - a0 * S - a1 * S)) (p - a0 * S + a1 * S)) (p + a0 * S - a1 * S)) (p + a0 * S + a1 * S) + 1 / 100 := by
  generalize hM : max (max (max (max m0 (p - a0 * S - a1 * S)) (p - a0 * S + a1 * S)) (p + a0 * S - a1 * S)) (p + a0 * S + a1 * S) = M
  have h1 : p - a0 * S - a1 * S ≤ M := by rw [← hM]; simp only [le_max_iff, le_refl, true_or, or_true]
  have h2 : p - a0 * S + a1 * S ≤ M := by rw [← hM]; simp only [le_max_iff, le_refl, true_or, or_true]
  have h3 : p + a0 * S - a1 * S ≤ M := by rw [← hM]; simp only [le_max_iff, le_refl, true_or, or_true]
  have h4 : p + a0 * S + a1 * S ≤ M := by rw [← hM]; simp only [le_max_iff, le_refl, true_or, or_true]
  have f0 := lin1S (-(p + a0 * S)) a1 S (-y) (-M) (by linarith) (by linarith) (by linarith) (by linarith)
  have f1 := lin1S (-(p - a0 * S)) a1 S (-y) (-M) (by linarith) (by linarith) (by linarith) (by linarith)
  have g := lin1S (-(p + a1 * y)) a0 S (-x) (-M) (by linarith) (by linarith) (by linarith) (by linarith)
  linarith

theorem nested_min_sq (m0 p a0 a1 S x y c1 c2 c3 c4 t : ℝ)
    (l0 : -S ≤ x) (u0 : x ≤ S) (l1 : -S ≤ y) (u1 : y ≤ S)
    (e1 : c1 = p - a0 * S - a1 * S) (e2 : c2 = p - a0 * S + a1 * S) (e3 : c3 = p + a0 * S - a1 * S)
    (e4 : c4 = p + a0 * S + a1 * S) (et : t = p + a0 * x + a1 * y) :
    min (min (min (min m0 c1) c2) c3) c4 - 1 / 100 ≤ t := by
  subst e1 e2 e3 e4 et
  exact nested_min_sq' m0 p a0 a1 S x y l0 u0 l1 u1

theorem nested_max_sq (m0 p a0 a1 S x y c1 c2 c3 c4 t : ℝ)
    (l0 : -S ≤ x) (u0 : x ≤ S) (l1 : -S ≤ y) (u1 : y ≤ S)
    (e1 : c1 = p - a0 * S - a1 * S) (e2 : c2 = p - a0 * S + a1 * S) (e3 : c3 = p + a0 * S - a1 * S)
    (e4 : c4 = p + a0 * S + a1 * S) (et : t = p + a0 * x + a1 * y) :
    t ≤ max (max (max (max m0 c1) c2) c3) c4 + 1 / 100 := by
  subst e1 e2 e3 e4 et
  exact nested_max_sq' m0 p a0 a1 S x y l0 u0 l1 u1

/-! ### mesh half extent of `bvh.build_mesh_bvh` (model `RayCast.meshHalf`) -/

theorem foldl_vmin_le (vs : List (V3 ℝ)) : ∀ a : V3 ℝ,
    ((vs.foldl V3.vmin a).c0 ≤ a.c0 ∧ (vs.foldl V3.vmin a).c1 ≤ a.c1 ∧ (vs.foldl V3.vmin a).c2 ≤ a.c2) ∧
    ∀ v ∈ vs, (vs.foldl V3.vmin a).c0 ≤ v.c0 ∧ (vs.foldl V3.vmin a).c1 ≤ v.c1 ∧ (vs.foldl V3.vmin a).c2 ≤ v.c2 := by
  induction vs with
  | nil => intro a; exact ⟨⟨le_refl _, le_refl _, le_refl _⟩, fun v hv => absurd hv List.not_mem_nil⟩
  | cons w vs ih =>
    intro a
    obtain ⟨⟨h0, h1, h2⟩, hall⟩ := ih (V3.vmin a w)
    simp only [V3.vmin, smin] at h0 h1 h2
    simp only [List.foldl_cons]
    refine ⟨⟨h0.trans (min_le_left _ _), h1.trans (min_le_left _ _), h2.trans (min_le_left _ _)⟩, ?_⟩
    intro v hv
    rcases List.mem_cons.mp hv with rfl | hv
    · exact ⟨h0.trans (min_le_right _ _), h1.trans (min_le_right _ _), h2.trans (min_le_right _ _)⟩
    · exact hall v hv

theorem le_foldl_vmax (vs : List (V3 ℝ)) : ∀ a : V3 ℝ,
    (a.c0 ≤ (vs.foldl V3.vmax a).c0 ∧ a.c1 ≤ (vs.foldl V3.vmax a).c1 ∧ a.c2 ≤ (vs.foldl V3.vmax a).c2) ∧
    ∀ v ∈ vs, v.c0 ≤ (vs.foldl V3.vmax a).c0 ∧ v.c1 ≤ (vs.foldl V3.vmax a).c1 ∧ v.c2 ≤ (vs.foldl V3.vmax a).c2 := by
  induction vs with
  | nil => intro a; exact ⟨⟨le_refl _, le_refl _, le_refl _⟩, fun v hv => absurd hv List.not_mem_nil⟩
  | cons w vs ih =>
    intro a
    obtain ⟨⟨h0, h1, h2⟩, hall⟩ := ih (V3.vmax a w)
    simp only [V3.vmax, smax] at h0 h1 h2
    simp only [List.foldl_cons]
    refine ⟨⟨(le_max_left _ _).trans h0, (le_max_left _ _).trans h1, (le_max_left _ _).trans h2⟩, ?_⟩
    intro v hv
    rcases List.mem_cons.mp hv with rfl | hv
    · exact ⟨(le_max_right _ _).trans h0, (le_max_right _ _).trans h1, (le_max_right _ _).trans h2⟩
    · exact hall v hv

theorem abs_le_max_abs {lo hi x : ℝ} (h0 : lo ≤ x) (h1 : x ≤ hi) : |x| ≤ max |lo| |hi| := by
  rw [abs_le]
  constructor
  · have := neg_abs_le lo
    have := le_max_left |lo| |hi|
    linarith
  · have := le_abs_self hi
    have := le_max_right |lo| |hi|
    linarith

/-- every vertex of the mesh lies within `± meshHalf` of the mesh-frame origin, per axis -/
theorem meshHalf_bound (v0 : V3 ℝ) (vs : List (V3 ℝ)) (v : V3 ℝ) (hv : v ∈ v0 :: vs) :
    |v.c0| ≤ (meshHalf v0 vs).c0 ∧ |v.c1| ≤ (meshHalf v0 vs).c1 ∧ |v.c2| ≤ (meshHalf v0 vs).c2 := by
  obtain ⟨⟨a0, a1, a2⟩, amin⟩ := foldl_vmin_le vs v0
  obtain ⟨⟨b0, b1, b2⟩, bmax⟩ := le_foldl_vmax vs v0
  simp only [meshHalf, meshMin, meshMax, V3.vmax, V3.vabs, smax, sabs]
  rcases List.mem_cons.mp hv with rfl | hv
  · exact ⟨abs_le_max_abs a0 b0, abs_le_max_abs a1 b1, abs_le_max_abs a2 b2⟩
  · obtain ⟨m0, m1, m2⟩ := amin v hv
    obtain ⟨n0, n1, n2⟩ := bmax v hv
    exact ⟨abs_le_max_abs m0 n0, abs_le_max_abs m1 n1, abs_le_max_abs m2 n2⟩

/-- `|q| ≤ h` ⇒ `q = h·s` with `s ∈ [-1,1]` (also for `h = 0`) -/
theorem scaled_of_abs_le {q h : ℝ} (hq : |q| ≤ h) : ∃ s : ℝ, -1 ≤ s ∧ s ≤ 1 ∧ q = h * s := by
  have hh : 0 ≤ h := (abs_nonneg q).trans hq
  rcases hh.eq_or_lt with e | hpos
  · refine ⟨0, by norm_num, by norm_num, ?_⟩
    rw [← e] at hq ⊢
    simpa using abs_nonpos_iff.mp hq
  · obtain ⟨l, u⟩ := abs_le.mp hq
    refine ⟨q / h, ?_, ?_, ?_⟩
    · rw [le_div_iff₀ hpos]; linarith
    · rw [div_le_iff₀ hpos]; linarith
    · field_simp

/-- a convex combination of three numbers within `±h` stays within `±h` (points of a triangle) -/
theorem abs_convex3_le {x0 x1 x2 a b c h : ℝ} (ha : 0 ≤ a) (hb : 0 ≤ b) (hc : 0 ≤ c) (hs : a + b + c = 1)
    (h0 : |x0| ≤ h) (h1 : |x1| ≤ h) (h2 : |x2| ≤ h) : |a * x0 + b * x1 + c * x2| ≤ h := by
  obtain ⟨l0, u0⟩ := abs_le.mp h0
  obtain ⟨l1, u1⟩ := abs_le.mp h1
  obtain ⟨l2, u2⟩ := abs_le.mp h2
  rw [abs_le]
  constructor <;> nlinarith [mul_nonneg ha (sub_nonneg.mpr u0), mul_nonneg hb (sub_nonneg.mpr u1), mul_nonneg hc (sub_nonneg.mpr u2),
    mul_nonneg ha (by linarith : (0:ℝ) ≤ x0 + h), mul_nonneg hb (by linarith : (0:ℝ) ≤ x1 + h), mul_nonneg hc (by linarith : (0:ℝ) ≤ x2 + h)]

end Mjw.Lemmas.C35
