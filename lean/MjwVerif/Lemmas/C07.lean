/-
  Helper lemmas for property C07 (sensors and energy): rotation matrices commute with the cross product,
  quaternion norm facts, closed form of `poly_potential`, the clamp/clip equivalence used by the cutoff theorems.
-/
import MjwVerif.Lemmas.Real
import MjwVerif.Gen.Sensor
import MjwVerif.Spec.Sensor

set_option linter.unusedVariables false
set_option linter.unusedSimpArgs false
namespace Mjw.Lemmas.C07
open Mjw

/-! ## rotation matrices -/

/-- `r` is a proper rotation: rows orthonormal (`R Rᵀ = I`) and `det R = 1`.  (`xmat`, `site_xmat`, … are produced by
    `quat_to_mat` of a unit quaternion, which satisfies this.) -/
structure IsRotation (r : M33 ℝ) : Prop where
  r00 : r.m00 * r.m00 + r.m01 * r.m01 + r.m02 * r.m02 = 1
  r11 : r.m10 * r.m10 + r.m11 * r.m11 + r.m12 * r.m12 = 1
  r22 : r.m20 * r.m20 + r.m21 * r.m21 + r.m22 * r.m22 = 1
  r01 : r.m00 * r.m10 + r.m01 * r.m11 + r.m02 * r.m12 = 0
  r02 : r.m00 * r.m20 + r.m01 * r.m21 + r.m02 * r.m22 = 0
  r12 : r.m10 * r.m20 + r.m11 * r.m21 + r.m12 * r.m22 = 0
  det : r.m00 * (r.m11 * r.m22 - r.m12 * r.m21) - r.m01 * (r.m10 * r.m22 - r.m12 * r.m20)
          + r.m02 * (r.m10 * r.m21 - r.m11 * r.m20) = 1

theorem isRotation_identity : IsRotation (⟨1, 0, 0, 0, 1, 0, 0, 0, 1⟩ : M33 ℝ) := by
  constructor <;> norm_num

/-- a quarter turn about z -/
theorem isRotation_quarter : IsRotation (⟨0, -1, 0, 1, 0, 0, 0, 0, 1⟩ : M33 ℝ) := by
  constructor <;> norm_num

/-- for a proper rotation every entry equals its cofactor -/
theorem cofactor_eq {r : M33 ℝ} (h : IsRotation r) :
    r.m11 * r.m22 - r.m12 * r.m21 = r.m00 ∧ r.m12 * r.m20 - r.m10 * r.m22 = r.m01 ∧ r.m10 * r.m21 - r.m11 * r.m20 = r.m02
    ∧ r.m02 * r.m21 - r.m01 * r.m22 = r.m10 ∧ r.m00 * r.m22 - r.m02 * r.m20 = r.m11 ∧ r.m01 * r.m20 - r.m00 * r.m21 = r.m12
    ∧ r.m01 * r.m12 - r.m02 * r.m11 = r.m20 ∧ r.m02 * r.m10 - r.m00 * r.m12 = r.m21 ∧ r.m00 * r.m11 - r.m01 * r.m10 = r.m22 := by
  obtain ⟨h00, h11, h22, h01, h02, h12, hd⟩ := h
  refine ⟨?_, ?_, ?_, ?_, ?_, ?_, ?_, ?_, ?_⟩
  · linear_combination (-(r.m11 * r.m22 - r.m12 * r.m21)) * h00 + (-(r.m02 * r.m21 - r.m01 * r.m22)) * h01
      + (-(r.m01 * r.m12 - r.m02 * r.m11)) * h02 + r.m00 * hd
  · linear_combination (-(r.m12 * r.m20 - r.m10 * r.m22)) * h00 + (-(r.m00 * r.m22 - r.m02 * r.m20)) * h01
      + (-(r.m02 * r.m10 - r.m00 * r.m12)) * h02 + r.m01 * hd
  · linear_combination (-(r.m10 * r.m21 - r.m11 * r.m20)) * h00 + (-(r.m01 * r.m20 - r.m00 * r.m21)) * h01
      + (-(r.m00 * r.m11 - r.m01 * r.m10)) * h02 + r.m02 * hd
  · linear_combination (-(r.m11 * r.m22 - r.m12 * r.m21)) * h01 + (-(r.m02 * r.m21 - r.m01 * r.m22)) * h11
      + (-(r.m01 * r.m12 - r.m02 * r.m11)) * h12 + r.m10 * hd
  · linear_combination (-(r.m12 * r.m20 - r.m10 * r.m22)) * h01 + (-(r.m00 * r.m22 - r.m02 * r.m20)) * h11
      + (-(r.m02 * r.m10 - r.m00 * r.m12)) * h12 + r.m11 * hd
  · linear_combination (-(r.m10 * r.m21 - r.m11 * r.m20)) * h01 + (-(r.m01 * r.m20 - r.m00 * r.m21)) * h11
      + (-(r.m00 * r.m11 - r.m01 * r.m10)) * h12 + r.m12 * hd
  · linear_combination (-(r.m11 * r.m22 - r.m12 * r.m21)) * h02 + (-(r.m02 * r.m21 - r.m01 * r.m22)) * h12
      + (-(r.m01 * r.m12 - r.m02 * r.m11)) * h22 + r.m20 * hd
  · linear_combination (-(r.m12 * r.m20 - r.m10 * r.m22)) * h02 + (-(r.m00 * r.m22 - r.m02 * r.m20)) * h12
      + (-(r.m02 * r.m10 - r.m00 * r.m12)) * h22 + r.m21 * hd
  · linear_combination (-(r.m10 * r.m21 - r.m11 * r.m20)) * h02 + (-(r.m01 * r.m20 - r.m00 * r.m21)) * h12
      + (-(r.m00 * r.m11 - r.m01 * r.m10)) * h22 + r.m22 * hd

/-- **`Rᵀ` commutes with the cross product**: `(Rᵀa) × (Rᵀb) = Rᵀ(a × b)` for a proper rotation -/
theorem rotT_cross {r : M33 ℝ} (h : IsRotation r) (a b : V3 ℝ) :
    V3.cross (M33.mulVec (M33.transpose r) a) (M33.mulVec (M33.transpose r) b)
      = M33.mulVec (M33.transpose r) (V3.cross a b) := by
  obtain ⟨c00, c01, c02, c10, c11, c12, c20, c21, c22⟩ := cofactor_eq h
  apply V3.ext' <;> simp only [V3.cross, M33.mulVec, M33.transpose, hadd, hsub, hmul]
  · linear_combination (a.c1 * b.c2 - a.c2 * b.c1) * c00 + (a.c2 * b.c0 - a.c0 * b.c2) * c10
      + (a.c0 * b.c1 - a.c1 * b.c0) * c20
  · linear_combination (a.c1 * b.c2 - a.c2 * b.c1) * c01 + (a.c2 * b.c0 - a.c0 * b.c2) * c11
      + (a.c0 * b.c1 - a.c1 * b.c0) * c21
  · linear_combination (a.c1 * b.c2 - a.c2 * b.c1) * c02 + (a.c2 * b.c0 - a.c0 * b.c2) * c12
      + (a.c0 * b.c1 - a.c1 * b.c0) * c22

/-- `Rᵀ` is additive -/
theorem rotT_add (r : M33 ℝ) (a b : V3 ℝ) :
    M33.mulVec (M33.transpose r) (V3.add a b) = V3.add (M33.mulVec (M33.transpose r) a) (M33.mulVec (M33.transpose r) b) := by
  apply V3.ext' <;> simp only [V3.add, M33.mulVec, M33.transpose, hadd, hsub, hmul] <;> ring

/-- `Rᵀ` preserves the squared length (rows orthonormal) -/
theorem rotT_lengthSq {r : M33 ℝ} (h : IsRotation r) (a : V3 ℝ) :
    V3.dot (M33.mulVec (M33.transpose r) a) (M33.mulVec (M33.transpose r) a) = V3.dot a a := by
  obtain ⟨h00, h11, h22, h01, h02, h12, hd⟩ := h
  simp only [V3.dot, M33.mulVec, M33.transpose, hadd, hsub, hmul]
  linear_combination (a.c0 * a.c0) * h00 + (a.c1 * a.c1) * h11 + (a.c2 * a.c2) * h22 + (2 * a.c0 * a.c1) * h01
    + (2 * a.c0 * a.c2) * h02 + (2 * a.c1 * a.c2) * h12

/-! ## quaternions -/

/-- squared norm -/
def qn2 (q : Q ℝ) : ℝ := q.c0 * q.c0 + q.c1 * q.c1 + q.c2 * q.c2 + q.c3 * q.c3

/-- the norm is multiplicative under `mul_quat` -/
theorem qn2_mul (u v : Q ℝ) : qn2 (Gen.Math.mul_quat u v) = qn2 u * qn2 v := by
  simp only [qn2, Gen.Math.mul_quat, hadd, hsub, hmul]; ring

theorem qn2_inv (u : Q ℝ) : qn2 (Gen.Math.quat_inv u) = qn2 u := by
  simp only [qn2, Gen.Math.quat_inv, hneg]; ring

/-- `conj(q) * q = (|q|², 0, 0, 0)` -/
theorem inv_mul_self (q : Q ℝ) : Gen.Math.mul_quat (Gen.Math.quat_inv q) q = ⟨qn2 q, 0, 0, 0⟩ := by
  apply Q.ext' <;> simp only [qn2, Gen.Math.mul_quat, Gen.Math.quat_inv, hadd, hsub, hmul, hneg] <;> ring

/-- `Q.normalize` of a non-zero quaternion has unit norm -/
theorem qn2_normalize (q : Q ℝ) (h : qn2 q ≠ 0) : qn2 (Q.normalize q) = 1 := by
  have hpos : 0 < qn2 q := by
    have : 0 ≤ qn2 q := by simp only [qn2]; nlinarith [mul_self_nonneg q.c0, mul_self_nonneg q.c1, mul_self_nonneg q.c2, mul_self_nonneg q.c3]
    exact lt_of_le_of_ne this (Ne.symm h)
  have hl : 0 < Real.sqrt (qn2 q) := Real.sqrt_pos.mpr hpos
  have hs : Real.sqrt (qn2 q) * Real.sqrt (qn2 q) = qn2 q := Real.mul_self_sqrt hpos.le
  have hdot : Q.dot q q = qn2 q := by simp only [Q.dot, qn2, hadd, hmul]
  simp only [Q.normalize, Q.length, hdot, ssqrt, slit, slt, hdiv, hmul]
  norm_num
  rw [if_pos hpos]
  have hne : Real.sqrt (qn2 q) ≠ 0 := ne_of_gt hl
  have hinv : (Real.sqrt (qn2 q))⁻¹ * Real.sqrt (qn2 q) = 1 := inv_mul_cancel₀ hne
  generalize Real.sqrt (qn2 q) = s at hs hinv
  simp only [qn2] at hs ⊢
  linear_combination (-(s⁻¹ * s⁻¹)) * hs + (s⁻¹ * s + 1) * hinv

/-- `Q.normalize` of the zero quaternion is `(0,0,0,1)` (Warp's layout-agnostic fallback; MuJoCo's is `(1,0,0,0)`) -/
theorem normalize_zero : Q.normalize (⟨0, 0, 0, 0⟩ : Q ℝ) = ⟨0, 0, 0, 1⟩ := by
  simp only [Q.normalize, Q.length, Q.dot, ssqrt, slit, slt, hdiv, hmul, hadd]
  norm_num

/-! ## `poly_potential` -/

/-- closed form with the even flag: `½ k x² + (p₀/3) x³ + (p₁/4) x⁴`
    (the generated literal for 1/3 is the 16-digit decimal of the source) -/
theorem poly_potential_even (k : ℝ) (p : V2 ℝ) (x : ℝ) :
    Gen.Util_misc.poly_potential k p x 0
      = 1 / 2 * k * x ^ 2 + p.c0 * (3333333333333333 / 10000000000000000) * x ^ 3 + p.c1 / 4 * x ^ 4 := by
  simp only [Gen.Util_misc.poly_potential, hadd, hmul, slit]
  norm_num
  ring

/-- without polynomial coefficients it is the linear-spring energy `½ k x²` -/
theorem poly_potential_linear (k x : ℝ) : Gen.Util_misc.poly_potential k (⟨0, 0⟩ : V2 ℝ) x 0 = 1 / 2 * k * x ^ 2 := by
  rw [poly_potential_even]; ring

/-! ## clamp -/

/-- Warp's `clamp(x, -c, c) = min(max(-c, x), c)` is MuJoCo's `mju_clip` for `c ≥ 0` -/
theorem clamp_eq_clip (x c : ℝ) (hc : 0 ≤ c) :
    Scalar.clamp x (-c) c = Spec.Sensor.mjuClip x (-c) c := by
  simp only [Scalar.clamp, Spec.Sensor.mjuClip, smin, smax, slt, sgt, hneg]
  by_cases h1 : x < -c
  · rw [if_pos (by simpa using h1)]
    rw [max_eq_left (le_of_lt h1), min_eq_left (by linarith)]
  · rw [if_neg (by simpa using h1)]
    rw [not_lt] at h1
    by_cases h2 : c < x
    · rw [if_pos (by simpa using h2), max_eq_right h1, min_eq_right (le_of_lt h2)]
    · rw [if_neg (by simpa using h2)]
      rw [not_lt] at h2
      rw [max_eq_right h1, min_eq_left h2]

end Mjw.Lemmas.C07
