-- Root of the MjwVerif library: imports everything that must build for the checks.
import MjwVerif.Model.Scalar
import MjwVerif.Model.Vec
import MjwVerif.Model.Codec
import MjwVerif.Gen.Dispatch
