import MjwVerif.Model.IoOrder
/-!
  Line-protocol runner for the hand-written host/device conversion model `Mjw.IoOrder.proto` (property C31):
      cd /verif/lean && lake env lean --run Driver/ProtoIo.lean
  reads request lines (see the header of Model/IoOrder.lean) from stdin and prints one answer line per request
  (`NONE` for a malformed request).  Used by harness/props/c31.py.
-/
set_option linter.deprecated false
def main : IO Unit := do
  let stdin ← IO.getStdin
  let stdout ← IO.getStdout
  repeat
    let line ← stdin.getLine
    if line.isEmpty then break
    let toks := (line.trim.splitOn " ").filter (· ≠ "")
    stdout.putStrLn ((Mjw.IoOrder.proto toks).getD "NONE")
    stdout.flush
