/- Verbs of the hand-written protocol models (E2).  Each model contributes a handler over a shared
   protocol state. -/
namespace Proto

structure PState where
  dummy : Nat := 0

def handle (st : PState) (verb : String) (args : List String) : Option (PState × String) :=
  none

end Proto
