/- Verbs of the hand-written protocol models (E2).  Each model contributes a pure handler
   `List String → Option String`; `pairfilter <ints…>` → Model/PairFilter.lean. -/
import MjwVerif.Model.PairFilter
namespace Proto

structure PState where
  dummy : Nat := 0

def handle (st : PState) (verb : String) (args : List String) : Option (PState × String) :=
  match verb with
  | "pairfilter" => some (st, (Mjw.PairFilter.proto args).getD "NONE")
  | _ => none

end Proto
