/- Verbs of the hand-written protocol models (E2).  Each model contributes a handler. -/
namespace Proto

def handle (verb : String) (args : List String) : Option String :=
  none

end Proto
