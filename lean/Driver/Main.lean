/- Line-protocol driver.  Run:  lake env lean --run Driver/Main.lean   (Mathlib-free imports)
   One request per line on stdin, one reply per line on stdout.
     f32 <mod.func> <tok>...   call generated function at Float32 (floats = decimal of bit pattern)
     f64 <mod.func> <tok>...   same at Float (binary64)
   Reply: space-separated result tokens, or `ERR <why>`.
   Protocol models (E2) register their own verbs in Driver/Proto.lean. -/
import MjwVerif.Gen.Dispatch
import Driver.Proto
open Mjw

def handle (line : String) : String :=
  let toks := (line.splitOn " ").filter (· ≠ "")
  match toks with
  | "f32" :: name :: args =>
    match Gen.dispatch (K := Float32) name args.toArray with
    | some r => " ".intercalate r
    | none => "ERR unknown-or-arity " ++ name
  | "f64" :: name :: args =>
    match Gen.dispatch (K := Float) name args.toArray with
    | some r => " ".intercalate r
    | none => "ERR unknown-or-arity " ++ name
  | verb :: args =>
    match Proto.handle verb args with
    | some r => r
    | none => "ERR bad-verb " ++ verb
  | [] => "ERR empty"

partial def loop (h : IO.FS.Stream) (out : IO.FS.Stream) : IO Unit := do
  let line ← h.getLine
  if line.isEmpty then return ()
  out.putStrLn (handle line.trimAscii.toString)
  loop h out

def main : IO Unit := do
  let out ← IO.getStdout
  loop (← IO.getStdin) out
  out.flush
