/- Line-protocol driver.  Run:  lake env lean --run Driver/Main.lean   (Mathlib-free imports)
   One request per line on stdin, one reply per line on stdout.
     f32 <mod.func> <tok>...          call generated function at Float32 (floats = decimal of bit pattern)
     f64 <mod.func> <tok>...          same at Float (binary64)
     arr <name> f|i <w> <ndim> d.. v..   store an array (Float32 payload) in the driver's memory
     clr                               forget all arrays
     k32 <mod.kernel> <ntid> t.. <scalar tok>...   run a generated kernel task on the stored arrays
   Reply: space-separated result tokens / encoded write list, or `ERR <why>`.
   Protocol models (E2) register their own verbs in Driver/Proto.lean. -/
import MjwVerif.Gen.Dispatch
import Driver.Proto
open Mjw

structure St where
  mem : Mem Float32 := {}
  proto : Proto.PState := {}

def handle (st : St) (line : String) : St × String :=
  let toks := (line.splitOn " ").filter (· ≠ "")
  match toks with
  | "f32" :: name :: args =>
    match Gen.dispatch (K := Float32) name args.toArray with
    | some r => (st, " ".intercalate r)
    | none => (st, "ERR unknown-or-arity " ++ name)
  | "f64" :: name :: args =>
    match Gen.dispatch (K := Float) name args.toArray with
    | some r => (st, " ".intercalate r)
    | none => (st, "ERR unknown-or-arity " ++ name)
  | "arr" :: rest =>
    match parseArr (K := Float32) rest with
    | some (n, a) => ({ st with mem := st.mem.insert n a }, "ok")
    | none => (st, "ERR bad-arr")
  | "clr" :: _ => ({ st with mem := {} }, "ok")
  | "k32" :: name :: nt :: rest =>
    let n := nt.toNat!
    let tids := ((rest.take n).map String.toInt!).toArray
    match Gen.kdispatch (K := Float32) name st.mem (rest.drop n).toArray tids with
    | some r => (st, "W " ++ r)
    | none => (st, "ERR unknown-or-arity " ++ name)
  | verb :: args =>
    match Proto.handle st.proto verb args with
    | some (p, r) => ({ st with proto := p }, r)
    | none => (st, "ERR bad-verb " ++ verb)
  | [] => (st, "ERR empty")

partial def loop (h : IO.FS.Stream) (out : IO.FS.Stream) (st : St) : IO Unit := do
  let line ← h.getLine
  if line.isEmpty then return ()
  let (st', r) := handle st line.trimAscii.toString
  out.putStrLn r
  loop h out st'

def main : IO Unit := do
  let out ← IO.getStdout
  loop (← IO.getStdin) out {}
  out.flush
