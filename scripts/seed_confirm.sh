#!/bin/bash
# seed_confirm.sh <ID> <tag> : copy a seeded change out of its agent worktree, confirm the demonstration in a FRESH scratch worktree
set -u
ID=$1; TAG=$2; SRC=/tmp/mut_${ID}${TAG}/_out; DST=/verif/seeded/${ID}${TAG}; WT=/tmp/confirm_${ID}${TAG}
mkdir -p $DST
cp $SRC/patch.diff $SRC/demo.py $SRC/notes.md $DST/ 2>/dev/null
git -C /repo worktree add --detach $WT HEAD >/dev/null 2>&1
mkdir -p $WT/_out; cp $DST/demo.py $WT/_out/
cd $WT
WARP_CACHE_PATH=/tmp/confirm_cache timeout 1200 /venv/bin/python _out/demo.py > $DST/demo_clean.log 2>&1; RC0=$?
git apply $DST/patch.diff; AP=$?
WARP_CACHE_PATH=/tmp/confirm_cache timeout 1200 /venv/bin/python _out/demo.py > $DST/demo_patched.log 2>&1; RC1=$?
FILES=$(git diff --name-only | tr '\n' ' ')
cd /verif
git -C /repo worktree remove --force $WT
echo "{\"id\": \"${ID}${TAG}\", \"property\": \"${ID}\", \"files\": \"${FILES}\", \"apply_rc\": $AP, \"demo_exit_clean\": $RC0, \"demo_exit_patched\": $RC1}" > $DST/confirm.json
cat $DST/confirm.json
