#!/bin/bash
# mkstrengthen.sh <ID> <SID> : worktree /tmp/st_<SID> with the seeded change applied + the prompt for a strengthening agent
set -eu
ID=$1; SID=$2; WT=/tmp/st_$SID
git -C /repo worktree add --detach $WT HEAD >/dev/null 2>&1
git -C $WT apply /verif/seeded/$SID/patch.diff
id=$(echo $ID | tr 'A-Z' 'a-z')
sed -e "s#{ID}#$ID#g" -e "s#{id}#$id#g" -e "s#{SID}#$SID#g" -e "s#{WT}#$WT#g" /verif/scripts/strengthen_brief.md > /tmp/prompt_st_$SID.txt
echo /tmp/prompt_st_$SID.txt
