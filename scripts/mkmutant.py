"""prints the prompt for a seeded-change agent and creates its worktree: mkmutant.py C29 a"""
import json, subprocess, sys
pid, tag = sys.argv[1], sys.argv[2]
wt = f"/tmp/mut_{pid}{tag}"
subprocess.run(["git", "-C", "/repo", "worktree", "add", "--detach", wt, "HEAD"], check=True, capture_output=True)
for l in open("/verif/properties.jsonl"):
  d = json.loads(l)
  if d["id"] == pid:
    break
t = open("/verif/scripts/mutant_brief_template.md").read()
anch = "; ".join(d["anchors"]["files"] + [m["where"] for m in d["anchors"].get("mechanism", [])])
avoid = ("\n\nNOTE: an earlier seeded change for this property already did this: \"" + sys.argv[3] + "\" — yours must use a DIFFERENT mechanism in a different function/branch (prefer a rarely exercised feature, element type or option that the property still covers).\n") if len(sys.argv) > 3 else ""  # AVOID
print(t.format(WT=wt, TAG=f"mut_{pid}{tag}", ID=pid, TITLE=d["title"], STATEMENT=d["statement"], QUANT=d["quantifier"]["text"], ANCHORS=anch) + avoid)
