#!/bin/bash
# seed_eval.sh <seedid> <prop> [<prop>...] : evaluate checks against a seeded change in the sandbox copy (/tmp/ev)
# (sandbox = rsync of /verif + a worktree of /repo; used while other work needs /repo itself undisturbed)
set -u
SID=$1; shift
EV=${EV:-/tmp/ev}
git -C $EV/repo checkout -q -- . ; git -C $EV/repo checkout -q --detach $(git -C /repo rev-parse HEAD) 2>/dev/null
rsync -a --exclude evidence/replay --exclude lean/.lake --exclude .cache --exclude lean/MjwVerif/Gen --exclude lean/MjwVerif/Audit /verif/ $EV/verif/
git -C $EV/repo apply /verif/seeded/$SID/patch.diff || { echo "apply failed"; exit 2; }
mkdir -p /verif/seeded/$SID/results
for P in "$@"; do
  ( cd $EV/verif && MJW_REPO=$EV/repo PYTHONPATH=$EV/repo timeout 3000 ./check $P quick > /verif/seeded/$SID/results/$P.quick.log 2>&1; echo "rc=$?" >> /verif/seeded/$SID/results/$P.quick.log )
  echo "$SID $P $(tail -1 /verif/seeded/$SID/results/$P.quick.log) $(grep -c '^VIOLATION' /verif/seeded/$SID/results/$P.quick.log) violation-lines: $(grep '^VIOLATION' /verif/seeded/$SID/results/$P.quick.log | head -2 | tr '\n' ' ')"
done
git -C $EV/repo checkout -q -- .
