"""rewrites the generated sections 11.6/11.7 of DESIGN.md (everything between the GENERATED markers)"""
import subprocess
p = "/verif/DESIGN.md"
s = open(p).read()
gen = subprocess.run(["/venv/bin/python", "/verif/scripts/design_tables.py"], capture_output=True, text=True, cwd="/verif").stdout
b, e = "<!-- GENERATED TABLES BEGIN -->", "<!-- GENERATED TABLES END -->"
if b in s:
  s = s[: s.index(b)] + b + "\n" + gen + "\n" + e + s[s.index(e) + len(e):]
else:
  s = s.rstrip("\n") + "\n\n" + b + "\n" + gen + "\n" + e + "\n"
open(p, "w").write(s)
print("updated", len(gen))
