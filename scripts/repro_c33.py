# stand-alone reproduction of the C33 findings (needs only mujoco, mujoco_warp, numpy, warp)
import numpy as np, mujoco, warp as wp
import mujoco_warp as mjw
np.set_printoptions(precision=5, suppress=True, linewidth=160)

# D1 -- camera/light reference fields computed with the model's tracking mode instead of FIXED
XML1 = """<mujoco><worldbody>
  <light name="l" pos="0 0 3" mode="targetbody" target="b2"/>
  <body name="b1" pos="0 0 1"><joint type="hinge" axis="0 1 0"/><geom size="0.1" mass="1"/>
    <camera name="c" pos="0.1 0.2 0.3" mode="trackcom"/>
    <body name="b2" pos="0 0 0.5"><joint type="hinge" axis="1 0 0"/><geom size="0.1" pos="0.3 0 0" mass="0.7"/></body>
  </body></worldbody></mujoco>"""
mjm = mujoco.MjModel.from_xml_string(XML1); mjd = mujoco.MjData(mjm)
mjm.body_mass[2] = 5.0                       # a set_const-safe change that moves the subtree COM
mujoco.mj_forward(mjm, mjd)
m = mjw.put_model(mjm); d = mjw.put_data(mjm, mjd)
mujoco.mj_setConst(mjm, mjd); mjw.set_const(m, d)
print("D1 cam_poscom0  mujoco", mjm.cam_poscom0[0], " mjwarp", m.cam_poscom0.numpy()[0, 0])
print("D1 cam_pos0     mujoco", mjm.cam_pos0[0], " mjwarp", m.cam_pos0.numpy()[0, 0])
print("D1 light_dir0   mujoco", mjm.light_dir0[0], " mjwarp", m.light_dir0.numpy()[0, 0])
mujoco.mj_forward(mjm, mjd); mjw.forward(m, d)
print("D1 cam_xpos after forward: mujoco", mjd.cam_xpos[0], " mjwarp", d.cam_xpos.numpy()[0, 0])

# D2 -- body_invweight0: degenerate component copied from the other one; slider-only body
XML2 = """<mujoco><worldbody>
  <body pos="0 0 1"><joint type="slide" axis="1 1 0"/><geom size="0.1" mass="2"/></body>
  <body pos="1 0 1"><joint type="hinge" axis="0 1 0"/><geom size="0.1" mass="2"/></body>
  <body pos="2 0 1"><joint type="slide" axis="1 0 0"/><geom size="0.1" mass="2"/></body>
</worldbody></mujoco>"""
mjm = mujoco.MjModel.from_xml_string(XML2); mjd = mujoco.MjData(mjm)
m = mjw.put_model(mjm); d = mjw.put_data(mjm, mjd)
mujoco.mj_setConst(mjm, mjd); mjw.set_const(m, d)   # NO model change at all
print("D2 body_invweight0 mujoco", mjm.body_invweight0[1:].ravel())
print("D2 body_invweight0 mjwarp", m.body_invweight0.numpy()[0, 1:].ravel())

# D3 -- dampratio: float32 round-off in the moment passes |moment| > 1e-15
XML3 = """<mujoco><worldbody>
  <body name="b0" pos="0.13 -0.27 1.1" quat="0.3 -0.5 0.6 0.55"><freejoint/><geom size="0.1" mass="2"/>
    <site name="s0" pos="0.05 0.02 0.04"/>
    <body name="b1" pos="0.3 0.1 0.05" quat="0.9 0.1 0.3 0.2"><joint type="hinge" axis="0.3 1 0.2"/>
      <geom size="0.08" pos="0.1 0 0" mass="1"/><site name="s1" pos="0.12 -0.02 0.09"/></body></body>
</worldbody>
<tendon><spatial name="ts"><site site="s0"/><site site="s1"/></spatial></tendon>
<actuator><position tendon="ts" kp="80" dampratio="1"/></actuator></mujoco>"""
mjm = mujoco.MjModel.from_xml_string(XML3); mjd = mujoco.MjData(mjm)
mjm.actuator_biasprm[0, 2] = 1.0             # damping ratio 1, to be resolved by set_const
mujoco.mj_forward(mjm, mjd)
m = mjw.put_model(mjm); d = mjw.put_data(mjm, mjd)
mujoco.mj_setConst(mjm, mjd); mjw.set_const(m, d)
print("D3 biasprm[2]  mujoco", mjm.actuator_biasprm[0, 2], " mjwarp", m.actuator_biasprm.numpy()[0, 0, 2])

# D4 -- REPAIRED in /repo 9c76e3b (was: _compute_cam_pos0 indexed cam_poscom0 / cam_mat0 with cam_pos0's batch size);
#       now every world's slice of cam_mat0 holds that world's orientation
XML4 = """<mujoco><worldbody><body pos="0 0 1"><joint type="ball"/><geom size="0.1"/><camera pos="0.1 0.2 0.3"/></body></worldbody></mujoco>"""
mjm = mujoco.MjModel.from_xml_string(XML4); mjd = mujoco.MjData(mjm)
m = mjw.put_model(mjm); d = mjw.put_data(mjm, mjd, nworld=3)
for f in ("cam_mat0", "cam_poscom0", "body_quat"):
  a = getattr(m, f); x = np.tile(a.numpy(), (3,) + (1,) * (a.numpy().ndim - 1))
  if f == "body_quat":
    x[1, 1] = [0.8, 0.6, 0, 0]; x[2, 1] = [0.6, 0.8, 0, 0]
  setattr(m, f, wp.array(x, dtype=a.dtype))
mjw.set_const(m, d)
print("D4 cam_mat0 per world (worlds have different body_quat; cam_pos0 left unbatched):\n", m.cam_mat0.numpy().reshape(3, 9))
