import sys, json, importlib, collections; sys.path.insert(0,'/verif')
from harness import check
check.setup_warp()
pid=sys.argv[1]
mod=importlib.import_module(f"harness.props.{pid.lower()}")
for seed in [int(x) for x in sys.argv[2:]] or [0]:
  ctx = check.Ctx(pid, "quick", seed)
  r = mod.search(ctx, [])
  c=collections.Counter((f['site'],f['trigger_id']) for f in r['findings'])
  print(seed, "cases", r['cases'], r['outcome'], dict(c))
