"""Structured random MJCF generator shared by correspondence harnesses and failing-input searches.

Everything derives from one numpy Generator so a case replays from (seed, parameters).
"""

from __future__ import annotations

import numpy as np

GEOMS = ["sphere", "capsule", "box", "ellipsoid", "cylinder"]


def _f(x):
  return " ".join(f"{float(v):.5g}" for v in np.atleast_1d(x))


def _geom(rng, name, types=GEOMS, contype=None, conaffinity=None, extra=""):
  t = types[int(rng.integers(len(types)))]
  if t == "sphere":
    size = _f([rng.uniform(0.05, 0.2)])
  elif t in ("capsule", "cylinder"):
    size = _f([rng.uniform(0.04, 0.12), rng.uniform(0.05, 0.25)])
  else:
    size = _f(rng.uniform(0.04, 0.2, size=3))
  pos = _f(rng.uniform(-0.1, 0.1, size=3))
  q = rng.normal(size=4)
  q /= np.linalg.norm(q)
  s = f'<geom name="{name}" type="{t}" size="{size}" pos="{pos}" quat="{_f(q)}"'
  if contype is not None:
    s += f' contype="{int(contype)}"'
  if conaffinity is not None:
    s += f' conaffinity="{int(conaffinity)}"'
  return s + f" {extra}/>"


class Spec:
  """Book-keeping of names produced while generating (for actuators, equalities, sensors)."""

  def __init__(self):
    self.bodies, self.joints, self.geoms, self.sites = [], [], [], []
    self.joint_types = {}


def random_tree(rng, nbody=4, joint_types=("free", "ball", "hinge", "slide"), max_joints_per_body=2, free_root_prob=0.5,
                geoms_per_body=(1, 2), geom_types=GEOMS, sites=True, contype_bits=None, spread=0.6, static_geoms=0,
                depth_bias=0.5):
  """Returns (worldbody xml string, Spec). Bodies form a random forest rooted at the world."""
  sp = Spec()
  children = {-1: []}
  parent = {}
  for b in range(nbody):
    if b == 0 or rng.random() > depth_bias:
      p = -1 if (b == 0 or rng.random() < 0.4) else int(rng.integers(0, b))
    else:
      p = b - 1
    parent[b] = p
    children.setdefault(p, []).append(b)
    children.setdefault(b, [])

  def body_xml(b, indent):
    pad = " " * indent
    name = f"b{b}"
    sp.bodies.append(name)
    pos = rng.uniform(-spread, spread, size=3)
    if parent[b] == -1:
      pos[2] = rng.uniform(0.3, 1.5)
    q = rng.normal(size=4)
    q /= np.linalg.norm(q)
    out = [f'{pad}<body name="{name}" pos="{_f(pos)}" quat="{_f(q)}">']
    # joints
    jts = []
    if parent[b] == -1 and "free" in joint_types and rng.random() < free_root_prob:
      jts = ["free"]
    else:
      nj = int(rng.integers(0, max_joints_per_body + 1)) if b > 0 else int(rng.integers(1, max_joints_per_body + 1))
      pool = [t for t in joint_types if t not in ("free", "ball")]
      if pool:
        jts = [pool[int(rng.integers(len(pool)))] for _ in range(nj)]
      # MuJoCo: a ball joint may not be followed by another rotation -> at most one ball, placed last
      if "ball" in joint_types and rng.random() < 0.4:
        jts = [t for t in jts if t == "slide"][: max(0, max_joints_per_body - 1)] + ["ball"] if rng.random() < 0.5 else jts[: max(0, max_joints_per_body - 1)] + ["ball"]
    for k, jt in enumerate(jts):
      jn = f"j{b}_{k}"
      sp.joints.append(jn)
      sp.joint_types[jn] = jt
      if jt == "free":
        out.append(f'{pad}  <freejoint name="{jn}"/>')
      elif jt == "ball":
        out.append(f'{pad}  <joint name="{jn}" type="ball" pos="{_f(rng.uniform(-0.05, 0.05, size=3))}"/>')
      else:
        ax = rng.normal(size=3)
        ax /= np.linalg.norm(ax)
        out.append(f'{pad}  <joint name="{jn}" type="{jt}" axis="{_f(ax)}" pos="{_f(rng.uniform(-0.05, 0.05, size=3))}"/>')
    ng = int(rng.integers(geoms_per_body[0], geoms_per_body[1] + 1))
    for g in range(max(ng, 1)):
      gn = f"g{b}_{g}"
      sp.geoms.append(gn)
      ct = ca = None
      if contype_bits is not None:
        ct, ca = int(rng.integers(0, 1 << contype_bits)), int(rng.integers(0, 1 << contype_bits))
      out.append(pad + "  " + _geom(rng, gn, geom_types, ct, ca))
    if sites and rng.random() < 0.6:
      sn = f"s{b}"
      sp.sites.append(sn)
      out.append(f'{pad}  <site name="{sn}" pos="{_f(rng.uniform(-0.1, 0.1, size=3))}"/>')
    for c in children[b]:
      out += body_xml(c, indent + 2)
    out.append(f"{pad}</body>")
    return out

  lines = []
  for g in range(static_geoms):
    gn = f"gs{g}"
    sp.geoms.append(gn)
    lines.append("    " + _geom(rng, gn, geom_types))
  for r in children[-1]:
    lines += body_xml(r, 4)
  return "\n".join(lines), sp


def wrap(worldbody, option="", extra="", floor=True, compiler='<compiler angle="radian"/>'):
  fl = '    <geom name="floor" type="plane" size="5 5 .1"/>\n' if floor else ""
  return f"""<mujoco>
  {compiler}
  <option {option}/>
  <worldbody>
{fl}{worldbody}
  </worldbody>
{extra}
</mujoco>
"""


def random_model_xml(rng, **kw):
  floor = kw.pop("floor", True)
  option = kw.pop("option", "")
  extra = kw.pop("extra", "")
  wb, sp = random_tree(rng, **kw)
  return wrap(wb, option=option, extra=extra, floor=floor), sp


def random_state(rng, mjm, mjd, qpos_scale=0.5, qvel_scale=1.0, unnormalized=True):
  """Random qpos/qvel (optionally with unnormalised quaternions) written into mjd."""
  import mujoco

  qpos = mjm.qpos0.copy() + rng.normal(size=mjm.nq) * qpos_scale
  for j in range(mjm.njnt):
    adr = mjm.jnt_qposadr[j]
    t = mjm.jnt_type[j]
    if t == mujoco.mjtJoint.mjJNT_FREE:
      q = rng.normal(size=4)
      if not unnormalized:
        q /= np.linalg.norm(q)
      else:
        q *= rng.uniform(0.2, 3.0) / np.linalg.norm(q)
      qpos[adr + 3: adr + 7] = q
    elif t == mujoco.mjtJoint.mjJNT_BALL:
      q = rng.normal(size=4)
      if not unnormalized:
        q /= np.linalg.norm(q)
      else:
        q *= rng.uniform(0.2, 3.0) / np.linalg.norm(q)
      qpos[adr: adr + 4] = q
  mjd.qpos[:] = qpos
  mjd.qvel[:] = rng.normal(size=mjm.nv) * qvel_scale
  return mjd
