"""Writes /verif/MANIFEST.json from the property modules (harness/props/cXX.py) and properties.jsonl."""
import importlib, json, os, re
VERIF = os.path.abspath(os.path.join(os.path.dirname(__file__), ".."))

# properties whose module exists but is not integrated/verified on the clean tree yet (removed one by one)
PENDING = set()


def main():
  props = [json.loads(l) for l in open(os.path.join(VERIF, "properties.jsonl"))]
  checks, na = [], []
  for p in props:
    pid = p["id"]
    path = os.path.join(VERIF, "harness", "props", pid.lower() + ".py")
    if not os.path.exists(path) or pid in PENDING:
      na.append({"property_id": pid, "reason": "check not built yet in this framework (work in progress; see DESIGN.md §4 for the planned theorems)"})
      continue
    m = importlib.import_module(f"harness.props.{pid.lower()}")
    checks.append({
      "property_id": pid,
      "quick_cmd": f"./check {pid} quick",
      "thorough_cmd": f"./check {pid} thorough",
      "evidence_file": f"evidence/{pid}.json",
      "replay_cmd_template": f"./check {pid} --replay {{path}}",
      "engine": getattr(m, "ENGINE", "lean-proof"),
      "level_claimed": {"category": "proof", "text": m.LEVEL_TEXT, "design_ref": getattr(m, "DESIGN_REF", "DESIGN.md §4")},
      "level_note": m.LEVEL_NOTE,
      "technique": getattr(m, "TECHNIQUE", "Lean 4 theorems over a model regenerated from source by a translator + differential correspondence against the real Warp kernels"),
    })
  man = {
    "version": 1,
    "setup_cmd": "./check --setup",
    "hooks": {"guard": "MJWARP_VERIF", "enable": "export MJWARP_VERIF=1 (set by ./check; no source hook is currently needed: the thread-order hook patches Warp's CPU launch template in the harness process)",
              "baseline_off_cmd": "cd /repo && /venv/bin/python -m pytest -ra -q -p no:cacheprovider --timeout=900 --continue-on-collection-errors",
              "source_commits": [], "add_only": True},
    "engines": [
      {"name": "lean-proof", "path": "lean/", "serves_properties": [c["property_id"] for c in checks],
       "kind_free_text": "Lean 4 + Mathlib theorems about models regenerated from /repo by harness/translate (tier-A wp.func translator, launch-graph/access extractor) or hand-written protocol models tied to the code by a line-protocol correspondence (lean/Driver)"},
    ],
    "checks": checks,
    "not_applicable": na,
    "notes": "All checks: regenerate Gen/*.lean from /repo's working tree -> lake build + #print axioms audit -> correspondence against the real kernels -> failing-input search on break. Exit 2 = infrastructure problem/timeout, never a verdict.",
  }
  json.dump(man, open(os.path.join(VERIF, "MANIFEST.json"), "w"), indent=1)
  print("claimed", len(checks), "not_applicable", len(na))

if __name__ == "__main__":
  main()
