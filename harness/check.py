"""./check driver.  Usage (cwd=/verif):
     ./check --setup                 build everything from files on disk (offline)
     ./check Cxx quick|thorough      run one property's check (exit 0 ok / 1 violation / 2 infrastructure problem)
     ./check Cxx --replay <path>     replay a recorded witness on the real code

Pipeline per property (DESIGN.md §1): regenerate Gen/*.lean from /repo -> lake build the property's
Lean modules + axiom audit -> correspondence (real code vs Lean model) -> on any break, failing-input
search with the property's own oracle -> known-findings replay -> evidence/<id>.json.
"""

from __future__ import annotations

import fcntl
import importlib
import json
import os
import re
import subprocess
import sys
import time
import traceback

VERIF = os.path.abspath(os.path.join(os.path.dirname(__file__), ".."))
LEAN = os.path.join(VERIF, "lean")
CACHE = os.path.join(VERIF, ".cache")
EVID = os.path.join(VERIF, "evidence")
REPLAY = os.path.join(EVID, "replay")
ALLOWED_AXIOMS = {"propext", "Classical.choice", "Quot.sound"}
FORBIDDEN = re.compile(r"\b(sorry|admit|native_decide|bv_decide|implemented_by|unsafe)\b|^\s*axiom\s|maxHeartbeats\s+0\b")

TRUSTED_BASE = [
  "Lean 4.33.0 kernel (lake build; leanchecker re-check in thorough tier); Mathlib v4.33.0 for the real-number lemmas",
  "axioms allowed in property theorems: propext, Classical.choice, Quot.sound (audited by #print axioms on every run); no sorry/admit/native_decide/bv_decide/own axioms",
  "harness/translate (Python ast -> Lean): Warp scalar ops = IEEE ops of the same name, wp.normalize as in warp/native, wp.quat component 0 = w; validated on every run by the func-level differential at Float32",
  "correspondence harness + PRNG-driven generators bound what the tie between hand-written models and code has seen",
  "modelled, not verified: float32 round-off (theorems are over the reals/integers), Warp compiler/runtime/tile/scan/sort/BVH, CUDA memory model (serial task orders only), the MuJoCo C binary (run as an oracle, never a term in a theorem)",
]


def log(*a):
  print(*a, flush=True)


class Ctx:
  def __init__(self, pid, tier, seed):
    self.pid, self.tier, self.seed = pid, tier, seed
    self.t0 = time.time()
    self.notes = []
    self.translator_report = None

  @property
  def thorough(self):
    return self.tier == "thorough"


# -------------------------------------------------------------------------------------------------
# Lean side


class Lock:
  def __enter__(self):
    os.makedirs(CACHE, exist_ok=True)
    self.f = open(os.path.join(CACHE, "lean.lock"), "w")
    fcntl.flock(self.f, fcntl.LOCK_EX)
    return self

  def __exit__(self, *a):
    fcntl.flock(self.f, fcntl.LOCK_UN)
    self.f.close()


def regenerate():
  from harness.translate import emit
  rep = emit.run()   # runs the E3 extractor (graph.py) first: its alias table is an input of the kernel translation
  return rep


def lake_build(targets, timeout=3000):
  cmd = ["lake", "build"] + list(targets)
  p = subprocess.run(cmd, cwd=LEAN, capture_output=True, text=True, timeout=timeout)
  return p.returncode, p.stdout + p.stderr, " ".join(cmd)


def lean_file_of(module):
  return os.path.join(LEAN, *module.split(".")) + ".lean"


def strip_comments(src):
  # remove /- ... -/ (nested not handled beyond one level) and -- comments
  out, i, depth = [], 0, 0
  while i < len(src):
    if src.startswith("/-", i):
      depth += 1
      i += 2
    elif src.startswith("-/", i) and depth > 0:
      depth -= 1
      i += 2
    elif depth > 0:
      if src[i] == "\n":
        out.append("\n")
      i += 1
    elif src.startswith("--", i):
      while i < len(src) and src[i] != "\n":
        i += 1
    else:
      out.append(src[i])
      i += 1
  return "".join(out)


def theorems_of(module):
  """[(qualified name, line)] of `theorem`s declared in a Props module (namespace-aware)."""
  src = strip_comments(open(lean_file_of(module)).read())
  ns, out = [], []
  for ln, line in enumerate(src.split("\n"), 1):
    m = re.match(r"\s*namespace\s+(\S+)", line)
    if m:
      ns.append(m.group(1))
      continue
    m = re.match(r"\s*end\s+(\S+)", line)
    if m and ns and ns[-1] == m.group(1):
      ns.pop()
      continue
    if re.match(r"\s*(?:@\[[^\]]*\]\s*)?private\s+theorem\s", line):
      continue   # private helpers cannot be named from the audit file; their axioms are included in those of the theorems using them
    m = re.match(r"\s*(?:@\[[^\]]*\]\s*)?(?:protected\s+)?theorem\s+(\S+)", line) or re.match(r"\s*alias\s+(\S+)\s*:=", line)
    if m:
      out.append((".".join(ns + [m.group(1)]), ln))
  return out


def forbidden_scan(modules_dirs=("MjwVerif", "Driver")):
  hits = []
  for d in modules_dirs:
    for root, _, files in os.walk(os.path.join(LEAN, d)):
      for f in files:
        if f.endswith(".lean"):
          p = os.path.join(root, f)
          src = strip_comments(open(p).read())
          for ln, line in enumerate(src.split("\n"), 1):
            if FORBIDDEN.search(line):
              hits.append(f"{os.path.relpath(p, LEAN)}:{ln}: {line.strip()[:100]}")
  return hits


def audit(pid, modules):
  """#print axioms for every theorem of the property's modules. Returns (per-theorem axioms dict, raw)."""
  thms = []
  for m in modules:
    thms += [t for t, _ in theorems_of(m)]
  path = os.path.join(LEAN, "MjwVerif", "Audit", f"{pid}.lean")
  os.makedirs(os.path.dirname(path), exist_ok=True)
  src = "\n".join([f"import {m}" for m in modules] + [f"#print axioms {t}" for t in thms]) + "\n"
  open(path, "w").write(src)
  p = subprocess.run(["lake", "env", "lean", path], cwd=LEAN, capture_output=True, text=True, timeout=1800)
  out = p.stdout + p.stderr
  res = {}
  for m in re.finditer(r"'(\S+)' depends on axioms: \[([^\]]*)\]", out):
    res[m.group(1)] = [a.strip() for a in m.group(2).replace("\n", " ").split(",") if a.strip()]
  for m in re.finditer(r"'(\S+)' does not depend on any axioms", out):
    res[m.group(1)] = []
  return thms, res, out, p.returncode


def failing_theorems(module, build_out):
  """Map Lean error lines to the enclosing theorem names."""
  thms = theorems_of(module)
  rel = os.path.join(*module.split(".")) + ".lean"
  bad = set()
  for m in re.finditer(re.escape(rel) + r":(\d+):\d+: error", build_out):
    ln = int(m.group(1))
    enclosing = None
    for name, tl in thms:
      if tl <= ln:
        enclosing = name
    bad.add(enclosing or f"{module}:<line {ln}>")
  return sorted(bad)


# -------------------------------------------------------------------------------------------------


def load_known():
  p = os.path.join(VERIF, "known_findings.json")
  if os.path.exists(p):
    return json.load(open(p))
  return {"findings": [], "fixed": []}


def write_evidence(ctx, coverage, violations, assumptions=None):
  os.makedirs(EVID, exist_ok=True)
  ev = {
    "property_id": ctx.pid,
    "tier": ctx.tier,
    "seed": ctx.seed,
    "level": "proof",
    "coverage": coverage,
    "assumptions": assumptions or [],
    "wall_s": round(time.time() - ctx.t0, 2),
    "violations": violations,
  }
  tmp = os.path.join(EVID, f"{ctx.pid}.json.tmp")
  json.dump(ev, open(tmp, "w"), indent=1, default=str)
  os.replace(tmp, os.path.join(EVID, f"{ctx.pid}.json"))


def write_replay(ctx, tag, payload):
  os.makedirs(REPLAY, exist_ok=True)
  path = os.path.join(REPLAY, f"{ctx.pid}_{tag}_{ctx.tier}_{ctx.seed}.json")
  json.dump(payload, open(path, "w"), indent=1, default=str)
  return path


def setup_warp():
  os.environ.setdefault("MJWARP_VERIF", "1")
  import warp as wp
  wp.config.quiet = True
  wp.config.kernel_cache_dir = os.path.join(CACHE, "warp")
  os.makedirs(wp.config.kernel_cache_dir, exist_ok=True)
  try:
    wp.init()
  except Exception:
    pass
  return wp


def run_property(pid, tier, seed):
  ctx = Ctx(pid, tier, seed)
  mod = importlib.import_module(f"harness.props.{pid.lower()}")
  breaks = []        # proof obligations / correspondence cases that no longer check
  violations = []    # (replay path, suffix)
  coverage = {}
  # 1+2: regenerate and build, under the lock
  with Lock():
    try:
      rep = regenerate()
    except Exception as e:
      rep = {"error": traceback.format_exc()}
      breaks.append({"kind": "translator", "what": f"translator crashed: {e}"})
    ctx.translator_report = rep
    missing = []
    if "signatures" in rep:
      for fn in getattr(mod, "GEN_FUNCS", []):
        if fn not in rep["signatures"]:
          why = rep["modules"].get(fn.split(".")[0], {}).get("unsupported", {}).get(fn.split(".")[1], "not translated")
          missing.append(fn)
          breaks.append({"kind": "translator", "what": f"{fn} no longer translates: {why}"})
    modules = list(mod.LEAN_MODULES)
    extra = ["Driver"] if getattr(mod, "NEEDS_DRIVER", True) else []
    rc, out, cmd = lake_build(modules + ["MjwVerif.Gen.Dispatch"] + extra)
    thm_list, axioms, bad_thms = [], {}, []
    if rc != 0:
      for m in modules:
        bad_thms += failing_theorems(m, out)
      errs = re.findall(r"error: .*", out)
      if not bad_thms:
        bad_thms = ["<build>"]
      breaks.append({"kind": "proof", "what": "lake build failed", "theorems": bad_thms, "errors": errs[:12]})
      for m in modules:
        thm_list += [t for t, _ in theorems_of(m)]
    else:
      thm_list, axioms, aout, arc = audit(pid, modules)
      for t in thm_list:
        ax = axioms.get(t)
        if ax is None:
          bad_thms.append(t)
          breaks.append({"kind": "audit", "what": f"no axiom report for {t}", "theorems": [t]})
        elif not set(ax) <= ALLOWED_AXIOMS:
          bad_thms.append(t)
          breaks.append({"kind": "audit", "what": f"{t} depends on {ax}", "theorems": [t]})
    hits = forbidden_scan()
    if hits:
      breaks.append({"kind": "audit", "what": "forbidden token", "hits": hits[:10]})
    checker_cmd = f"cd /verif/lean && {cmd} && lake env lean MjwVerif/Audit/{pid}.lean  (#print axioms)"
    if ctx.thorough and rc == 0:
      p = subprocess.run(["lake", "env", "leanchecker"] + modules, cwd=LEAN, capture_output=True, text=True, timeout=3000)
      coverage["leanchecker"] = {"rc": p.returncode, "tail": (p.stdout + p.stderr)[-300:]}
      checker_cmd += " && lake env leanchecker " + " ".join(modules)
      if p.returncode != 0:
        breaks.append({"kind": "audit", "what": "leanchecker rejected", "detail": (p.stdout + p.stderr)[-500:]})
  obligations = len(thm_list)
  discharged = len([t for t in thm_list if t not in bad_thms]) if "<build>" not in bad_thms else 0
  coverage.update({
    "obligations": obligations,
    "discharged": discharged,
    "checker_cmd": checker_cmd,
    "trusted_base": TRUSTED_BASE + list(getattr(mod, "TRUSTED_EXTRA", [])),
    "theorems": thm_list,
    "axioms": {t: axioms.get(t) for t in thm_list},
    "translator": {
      "translated": rep.get("translated"), "unsupported": rep.get("unsupported"),
      "gen_funcs_required": getattr(mod, "GEN_FUNCS", []), "missing": missing,
      "source_blobs": {k: v.get("source_blob") for k, v in rep.get("modules", {}).items()},
    },
  })
  # 3: correspondence
  corr = {}
  try:
    setup_warp()
    corr = mod.correspondence(ctx) or {}
  except Exception as e:
    corr = {"error": traceback.format_exc()[-3000:]}
    breaks.append({"kind": "correspondence", "what": f"correspondence harness crashed: {type(e).__name__}: {e}"})
  for d in corr.get("disagreements", [])[:50]:
    breaks.append({"kind": "correspondence", "what": "model and implementation differ", "case": d})
  coverage["correspondence"] = {k: v for k, v in corr.items() if k not in ("disagreements", "findings")}
  coverage["correspondence"]["disagreements"] = len(corr.get("disagreements", []))
  coverage["evaluations"] = int(corr.get("evaluations", 0))
  coverage["distinct_nontrivial"] = int(corr.get("distinct_nontrivial", 0))
  coverage["rule"] = corr.get("rule", "")
  coverage["samples"] = corr.get("samples", [])[:6] or [{"theorem": t} for t in thm_list[:3]]
  # findings produced directly by the correspondence/oracle stage: list of {what, site, witness}
  found = list(corr.get("findings", []))
  # 4: search on break
  search_info = {"ran": False}
  if breaks or (ctx.thorough and hasattr(mod, "search")):
    search_info = {"ran": True, "reason": "break" if breaks else "pre-emptive (thorough)"}
    try:
      if hasattr(mod, "search"):
        res = mod.search(ctx, breaks) or {}
        search_info.update({k: v for k, v in res.items() if k != "findings"})
        found += res.get("findings", [])
      else:
        search_info["outcome"] = "no search registered"
    except Exception as e:
      search_info["error"] = traceback.format_exc()[-2000:]
  coverage["search"] = search_info
  # 5: classify findings against known_findings.json
  known = load_known()
  kf = [k for k in known.get("findings", []) if k["property"] == pid]
  unknown_found = []
  known_hit = set()
  for f in found:
    match = None
    for k in kf:
      if k["site"] == f.get("site") and k["trigger_id"] == f.get("trigger_id"):
        match = k
    if match:
      known_hit.add(match["id"])
    else:
      unknown_found.append(f)
  for k in kf:
    if k["id"] in known_hit:
      log(f"KNOWN-FINDING: property={pid} {k['what']}")
    else:
      ctx.notes.append(f"known finding {k['id']} not reproduced in this run")
  coverage["known_findings_reproduced"] = sorted(known_hit)
  coverage["notes"] = ctx.notes
  nviol = 0
  for f in unknown_found:
    path = write_replay(ctx, f.get("trigger_id", "witness"), f)
    log(f"VIOLATION property={pid} replay={path}")
    nviol += 1
  if breaks and not unknown_found:
    # a proof obligation or correspondence broke; were all breaks explained by known findings? no: a break
    # is by definition not expected on the unchanged tree.
    path = write_replay(ctx, "break", {"property": pid, "breaks": breaks, "search": search_info,
                                      "note": "no failing input found; the named theorem/correspondence no longer checks"})
    log(f"VIOLATION property={pid} replay={path} no-failing-input-found")
    nviol += 1
  elif breaks:
    write_replay(ctx, "break", {"property": pid, "breaks": breaks})
  coverage["breaks"] = breaks[:20]
  write_evidence(ctx, coverage, nviol, getattr(mod, "ASSUMPTIONS", []))
  log(f"[{pid}] tier={tier} seed={seed} obligations={obligations} discharged={discharged} "
      f"corr_evals={coverage['evaluations']} breaks={len(breaks)} violations={nviol} wall={time.time() - ctx.t0:.1f}s")
  return 1 if nviol else 0


def all_props():
  out = []
  for f in sorted(os.listdir(os.path.join(VERIF, "harness", "props"))):
    m = re.match(r"(c\d+)\.py$", f)
    if m:
      out.append(m.group(1).upper())
  return out


def setup():
  t0 = time.time()
  with Lock():
    rep = regenerate()
    log(f"translator: {rep['translated']} functions, {rep['unsupported']} unsupported")
    mods = []
    for pid in all_props():
      mods += importlib.import_module(f"harness.props.{pid.lower()}").LEAN_MODULES
    rc, out, cmd = lake_build(["MjwVerif", "Driver"] + sorted(set(mods)))
    log(out[-3000:])
    if rc != 0:
      log("setup: lake build failed")
      return 2
  # warm the Warp kernel cache with the kernels the quick checks use
  try:
    setup_warp()
    from harness import warm
    warm.run()
  except ImportError:
    pass
  except Exception:
    log(traceback.format_exc())
  log(f"setup done in {time.time() - t0:.0f}s")
  return 0


def main(argv):
  os.chdir(VERIF)
  if len(argv) >= 1 and argv[0] == "--setup":
    return setup()
  if len(argv) < 2:
    log(__doc__)
    return 2
  pid = argv[0].upper()
  seed = int(os.environ.get("VERIF_SEED", "0") or 0)
  if argv[1] == "--replay":
    mod = importlib.import_module(f"harness.props.{pid.lower()}")
    setup_warp()
    payload = json.load(open(argv[2]))
    if hasattr(mod, "replay"):
      ok = mod.replay(payload)
      log("replay:", "still fails" if not ok else "passes")
      return 0 if ok else 1
    log(json.dumps(payload, indent=1)[:4000])
    return 0
  tier = argv[1] if argv[1] in ("quick", "thorough") else os.environ.get("VERIF_TIER", "quick")
  try:
    return run_property(pid, tier, seed)
  except subprocess.TimeoutExpired:
    log("timeout")
    return 2
  except Exception:
    log(traceback.format_exc())
    return 2


if __name__ == "__main__":
  sys.exit(main(sys.argv[1:]))
