"""Warm the Warp kernel caches used by the quick checks (called by ./check --setup)."""
import os
import subprocess
import sys

VERIF = os.path.abspath(os.path.join(os.path.dirname(__file__), ".."))

SNIPPET = r'''
import sys, os
sys.path.insert(0, %r)
import numpy as np
import warp as wp
wp.config.quiet = True
sched_mode = %r
if sched_mode:
  from harness import sched
  sched.install(os.path.join(%r, ".cache", "warp-sched"))
else:
  wp.config.kernel_cache_dir = os.path.join(%r, ".cache", "warp")
import mujoco, mujoco_warp as mjw
from harness.gen import models
rng = np.random.default_rng(0)
for sleep in (False, True):
  for cone in ("pyramidal", "elliptic"):
    for jac in ("dense", "sparse"):
      xml, sp = models.random_model_xml(rng, nbody=4, option='cone="%%s" jacobian="%%s"' %% (cone, jac))
      if sleep:
        xml = xml.replace("<option ", '<option><flag sleep="enable"/></option>\n  <option ')
      mjm = mujoco.MjModel.from_xml_string(xml); mjd = mujoco.MjData(mjm)
      m = mjw.put_model(mjm); d = mjw.put_data(mjm, mjd, nworld=2)
      mjw.step(m, d); mjw.reset_data(m, d); mjw.step(m, d)
print("warm ok", "sched" if sched_mode else "main")
'''


def run():
  for sched_mode in (False, True):
    code = SNIPPET % (VERIF, sched_mode, VERIF, VERIF)
    p = subprocess.run([sys.executable, "-c", code], capture_output=True, text=True, timeout=1800)
    print((p.stdout + p.stderr)[-400:])


if __name__ == "__main__":
  run()
