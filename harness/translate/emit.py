"""Regenerates lean/MjwVerif/Gen/*.lean from /repo's working tree (E1 tier A) and the driver dispatch.

Usage:  python -m harness.translate.emit            (from /verif; run by ./check on every run)
Writes files only when their content changed (so `lake build` stays incremental) and a JSON report
at lean/MjwVerif/Gen/report.json: per function translated / unsupported(reason), source blob hashes.
"""

from __future__ import annotations

import json
import os
import sys

from . import tiera
from .targets import TARGETS

VERIF = os.path.abspath(os.path.join(os.path.dirname(__file__), "..", ".."))
GEN = os.path.join(VERIF, "lean", "MjwVerif", "Gen")


def write_if_changed(path, content) -> bool:
  os.makedirs(os.path.dirname(path), exist_ok=True)
  if os.path.exists(path) and open(path).read() == content:
    return False
  tmp = path + ".tmp"
  open(tmp, "w").write(content)
  os.replace(tmp, path)
  return True


def reader(t, off):
  """Lean expression reading a value of type t from token array `a` at static offset; returns (expr, new offset)."""
  if t == tiera.F:
    return f"(Codec.dec a[{off}]!)", off + 1
  if t == tiera.I:
    return f"(a[{off}]!.toInt!)", off + 1
  if t == tiera.B:
    return f"(a[{off}]! == \"1\")", off + 1
  if t in tiera.VEC:
    n = tiera.VEC[t]
    return "(⟨" + ", ".join(f"Codec.dec a[{off + i}]!" for i in range(n)) + f"⟩ : {t} K)", off + n
  if t in tiera.MAT:
    r, c, _ = tiera.MAT[t]
    return "(⟨" + ", ".join(f"Codec.dec a[{off + i}]!" for i in range(r * c)) + f"⟩ : {t} K)", off + r * c
  raise tiera.Unsupported(f"driver cannot read type {t}")


def encoder(t, e):
  if t == tiera.F:
    return f"[Codec.enc {e}]"
  if t == tiera.I:
    return f"[toString {e}]"
  if t == tiera.B:
    return f"[if {e} then \"1\" else \"0\"]"
  if t in tiera.VEC or t in tiera.MAT:
    return f"(({t}.toList {e}).map Codec.enc)"
  if isinstance(t, tuple) and t[0] == "tuple":
    parts = []
    n = len(t[1])
    for i, tt in enumerate(t[1]):
      acc = e
      for _ in range(i):
        acc = f"{acc}.2"
      if i < n - 1:
        acc = f"{acc}.1"
      parts.append(encoder(tt, f"({acc})"))
    return "(" + " ++ ".join(parts) + ")"
  raise tiera.Unsupported(f"driver cannot encode type {t}")


GETTER = {"V8": "getV8", "V11": "getV11", "V2": "getV2", "V3": "getV3", "V4": "getV4", "Q": "getQ", "V5": "getV5", "V6": "getV6", "V10": "getV10", "M33": "getM33", "M22": "getM22",
          "I2": "getI2", "I3": "getI3", "I4": "getI4", "I6": "getI6"}


def kernel_entry(modname, m, f):
  """Lean call of a generated kernel with arrays served from a `Mem` and scalars from tokens."""
  ptypes, rtype = m.sigs[f]
  args, scal = [], []
  for pn, t in zip(m.pnames[f], ptypes):
    if isinstance(t, tuple) and t[0] == "arr":
      et, nd = t[1], t[2]
      vs = [f"i{k}" for k in range(nd)]
      ix = "[" + ", ".join(vs) + "]"
      if et == tiera.F:
        g = f"Mem.getF m \"{pn}\" {ix} 0"
      elif et == tiera.I:
        g = f"Mem.getI m \"{pn}\" {ix} 0"
      elif et == tiera.B:
        g = f"(Mem.getI m \"{pn}\" {ix} 0 != 0)"
      elif et in GETTER:
        g = f"Mem.{GETTER[et]} m \"{pn}\" {ix}"
      else:
        raise tiera.Unsupported(f"array element type {et}")
      args.append("(fun " + " ".join(vs) + f" => {g})")
    else:
      e, _ = reader(t, len(scal))
      n = {True: 1}.get(t in (tiera.F, tiera.I, tiera.B), None)
      if n is None:
        w = tiera.VEC.get(t) or (tiera.MAT[t][0] * tiera.MAT[t][1] if t in tiera.MAT else None)
        if w is None:
          raise tiera.Unsupported(f"scalar parameter type {t}")
        n = w
      scal += [(pn, t)] * n
      args.append(e)
  ntid = 0
  for en, et in m.extras.get(f, []):
    if en.startswith("tid"):
      args.append(f"(tid[{ntid}]!)")
      ntid += 1
    elif "_shape" in en:
      pn, dim = en.rsplit("_shape", 1)
      args.append(f"(Mem.shape m \"{pn}\" {dim})")
    elif et == "Int":
      args.append(f"(a[{len(scal)}]!.toInt!)")
      scal.append((en, "I"))
    elif et == "Bool":
      args.append(f"(a[{len(scal)}]! == \"1\")")
      scal.append((en, "B"))
    elif et == "Nat":
      args.append(f"(a[{len(scal)}]!.toNat!)")
      scal.append((en, "N"))
    elif et == "K":
      args.append(f"(Codec.dec a[{len(scal)}]!)")
      scal.append((en, "F"))
    else:
      raise tiera.Unsupported(f"extra parameter {en} : {et}")
  body = "(" + m.qualified(f) + " (K := K) " + " ".join(args) + ")"
  m.kernel_scalars = getattr(m, "kernel_scalars", {})
  m.kernel_scalars[f] = {"scalars": [[n, t] for n, t in scal], "ntid": ntid,
                         "arrays": [[pn, repr_type(t)] for pn, t in zip(m.pnames[f], ptypes) if isinstance(t, tuple) and t[0] == "arr"]}
  return (f"{modname}.{f}", body, scal)


def _stamp():
  """sha256 over everything the generated files are a function of: /repo's non-test sources and the translator itself"""
  import hashlib, glob
  h = hashlib.sha256()
  files = sorted(f for f in glob.glob(os.path.join(tiera.REPO, "mujoco_warp", "_src", "*.py")) if not f.endswith("_test.py"))
  files += sorted(glob.glob(os.path.join(os.path.dirname(os.path.abspath(__file__)), "*.py")))
  for f in files:
    h.update(f.encode() + b"\0")
    h.update(open(f, "rb").read())
  return h.hexdigest()


def run(targets=None, verbose=False):
  # regeneration is a pure function of the stamped inputs: identical inputs -> keep the files (and lake's build) as they are
  stamp = _stamp() if targets is None else None
  sp, rp = os.path.join(GEN, ".stamp"), os.path.join(GEN, "report.json")
  need = ["Host.lean", "Graph.lean", "Dispatch.lean", "aliases.json", "graph.json", "host.json"]
  if stamp and os.path.exists(sp) and open(sp).read() == stamp and os.path.exists(rp) and all(os.path.exists(os.path.join(GEN, n)) for n in need):
    rep = json.load(open(rp))
    rep["changed_files"] = []
    rep["unchanged_inputs"] = True
    return rep
  targets = targets or TARGETS
  aliases = {}
  try:
    from . import graph
    graph.run()
    aliases = json.load(open(os.path.join(GEN, "aliases.json")))
    from . import hostgraph
    hostgraph.run()   # Gen/Host.lean: ordered host events of step/forward/reset_data/inverse (C12, C32, C37, C07)
  except Exception as e:  # the alias table is an input of the kernel translation
    raise
  reg = tiera.Registry(aliases)
  for modname, fnames in targets.items():
    m = reg.module(modname)
    for f in fnames:
      m.translate_func(f)
  report = {"modules": {}, "translated": 0, "unsupported": 0}
  # group by module, keep dependency order
  by_mod = {}
  for m, f in reg.order:
    by_mod.setdefault(m.pyname, []).append(f)
  # module imports
  deps = {k: set() for k in reg.mods}
  for m, f in reg.order:
    src = m.out[f]
    for other in reg.mods.values():
      if other is not m and (other.lean_ns() + ".") in src:
        deps[m.pyname].add(other.pyname)
  changed = []
  dispatch_entries = []
  kernel_entries = []
  for modname, m in reg.mods.items():
    fl = by_mod.get(modname, [])
    lines = [
      f"/- GENERATED by harness/translate (tier A) from /repo/mujoco_warp/_src/{modname}.py — do not edit.",
      "   Regenerated on every check run; theorems in Props/ are therefore about the code as it is now. -/",
      "import MjwVerif.Model.Kernel",
    ]
    for d in sorted(deps[modname]):
      lines.append(f"import MjwVerif.Gen.{d.capitalize()}")
    lines += ["set_option linter.unusedVariables false", "namespace " + m.lean_ns(), "open Mjw Mjw.Scalar", ""]
    for f in fl:
      lines.append(m.out[f])
    lines.append("end " + m.lean_ns())
    content = "\n".join(lines) + "\n"
    path = os.path.join(GEN, modname.capitalize() + ".lean")
    if write_if_changed(path, content):
      changed.append(path)
    report["modules"][modname] = {
      "source_blob": tiera.blob_hash(m.path),
      "translated": fl,
      "unsupported": {k: v for k, v in m.errors.items()},
    }
    report["translated"] += len(fl)
    report["unsupported"] += len(m.errors)
    for f in fl:
      ptypes, rtype = m.sigs[f]
      if m.kinds.get(f) in ("kernel", "wfunc") or any(isinstance(t, tuple) and t[0] == "arr" for t in ptypes):
        if m.kinds.get(f) == "kernel":
          try:
            kernel_entries.append(kernel_entry(modname, m, f))
          except tiera.Unsupported as e:
            report.setdefault("kernel_dispatch_skipped", {})[f"{modname}.{f}"] = str(e)
        continue
      if m.extras.get(f):
        continue
      try:
        off = 0
        args = []
        for t in ptypes:
          e, off = reader(t, off)
          args.append(e)
        call = "(" + m.qualified(f) + " (K := K) " + " ".join(args) + ")"
        enc = encoder(rtype, call)
        dispatch_entries.append((f"{modname}.{f}", off, enc))
      except tiera.Unsupported:
        pass
  # dispatch file
  dl = [
    "/- GENERATED: driver dispatch for the func-level correspondence (harness/corr/func_corr.py). -/",
    "import MjwVerif.Model.Mem",
  ]
  for modname in reg.mods:
    dl.append(f"import MjwVerif.Gen.{modname.capitalize()}")
  dl += ["set_option maxRecDepth 4096", "namespace Mjw.Gen", "open Mjw", ""]
  for i, (name, nargs, enc) in enumerate(dispatch_entries):
    dl.append(f"def drv{i} {{K : Type}} [Scalar K] [Codec K] (a : Array String) : List String :=\n  {enc}\n")
  dl.append("def dispatch {K : Type} [Scalar K] [Codec K] (name : String) (a : Array String) : Option (List String) :=")
  for i, (name, nargs, enc) in enumerate(dispatch_entries):
    kw = "if" if i == 0 else "else if"
    dl.append(f"  {kw} name == \"{name}\" then (if a.size == {nargs} then some (drv{i} (K := K) a) else none)")
  dl.append("  else none" if dispatch_entries else "  none")
  dl.append("")
  for i, (name, body, scal) in enumerate(kernel_entries):
    dl.append(f"def kdrv{i} {{K : Type}} [Scalar K] [Codec K] (m : Mem K) (a : Array String) (tid : Array Int) : String :=\n  encWrites ({body})\n")
  dl.append("def kdispatch {K : Type} [Scalar K] [Codec K] (name : String) (m : Mem K) (a : Array String) (tid : Array Int) : Option String :=")
  for i, (name, body, scal) in enumerate(kernel_entries):
    kw = "if" if i == 0 else "else if"
    dl.append(f"  {kw} name == \"{name}\" then (if a.size == {len(scal)} then some (kdrv{i} (K := K) m a tid) else none)")
  dl.append("  else none" if kernel_entries else "  none")
  dl.append("end Mjw.Gen")
  if write_if_changed(os.path.join(GEN, "Dispatch.lean"), "\n".join(dl) + "\n"):
    changed.append("Dispatch.lean")
  report["changed_files"] = changed
  sigs = {}
  for modname, m in reg.mods.items():
    for f in by_mod.get(modname, []):
      ptypes, rtype = m.sigs[f]
      sigs[f"{modname}.{f}"] = {"params": [repr_type(t) for t in ptypes], "ret": repr_type(rtype), "py": f"{modname}.{m.pynames[f]}",
                                "kind": m.kinds.get(f, "func"), "extras": [list(x) for x in m.extras.get(f, [])], "static_exprs": m.statics.get(f, {}), "alloc_sites": m.allocsites.get(f, [])}
      if f in getattr(m, "kernel_scalars", {}):
        sigs[f"{modname}.{f}"]["kernel"] = m.kernel_scalars[f]
  report["signatures"] = sigs
  write_if_changed(os.path.join(GEN, "report.json"), json.dumps(report, indent=1, sort_keys=True))
  if stamp:
    open(sp, "w").write(stamp)
  return report


def repr_type(t):
  if isinstance(t, tuple):
    if t[0] == "tuple":
      return ["tuple"] + [repr_type(x) for x in t[1]]
    if t[0] == "arr":
      return ["arr", repr_type(t[1]), t[2]]
  return t


if __name__ == "__main__":
  rep = run(verbose=True)
  print(f"translated {rep['translated']} functions, unsupported {rep['unsupported']}, changed {len(rep['changed_files'])} files")
  for mod, r in rep["modules"].items():
    for f, why in r["unsupported"].items():
      print("  UNSUPPORTED", why)
