"""E3 (host side): flatten the host call graph of the public pipeline functions into ordered event lists.

For an entry point (forward.step, forward.forward, forward.step1, forward.step2, io.reset_data, …) the host code is
walked in source order, following calls to other host functions of the package (constant keyword/positional
arguments such as `factorize=False` are propagated and `if factorize:` is folded), recording
  * every `wp.launch/launch_tiled` with the kernel it launches, the expressions bound to the kernel parameters and
    the stack of enclosing host conditions (source text of the `if` tests, negated on else branches),
  * host-side array writes: `X.zero_()`, `X.fill_(v)`, `wp.copy(dst, src)`.
Joined with the per-kernel access table of graph.py this gives, per launch, the Data/Model fields it reads and writes.
Output: lean/MjwVerif/Gen/Host.lean (+ host.json).
"""

from __future__ import annotations

import ast
import json
import os

from . import graph, tiera

GEN = graph.GEN
SRC = graph.SRC
ENTRIES = [("forward", "step"), ("forward", "forward"), ("forward", "step1"), ("forward", "step2"), ("io", "reset_data"), ("inverse", "inverse")]
MAXDEPTH = 12


class Pkg:
  def __init__(self):
    self.trees, self.funcs, self.aliases = {}, {}, {}
    for mod in graph.modules():
      tree = ast.parse(open(os.path.join(SRC, mod + ".py")).read())
      self.trees[mod] = tree
      self.funcs[mod] = graph.collect_functions(tree)
      al = {}
      for n in tree.body:
        if isinstance(n, ast.ImportFrom) and n.module and n.module.startswith("mujoco_warp._src"):
          for a in n.names:
            if n.module == "mujoco_warp._src":
              al[a.asname or a.name] = ("mod", a.name)
            else:
              al[a.asname or a.name] = ("sym", n.module.split(".")[-1], a.name)
      self.aliases[mod] = al

  def resolve(self, mod, call_name):
    parts = call_name.split(".")
    if len(parts) == 1:
      if parts[0] in self.funcs[mod]:
        return mod, parts[0]
      al = self.aliases[mod].get(parts[0])
      if al and al[0] == "sym" and al[2] in self.funcs.get(al[1], {}):
        return al[1], al[2]
    elif len(parts) == 2:
      al = self.aliases[mod].get(parts[0])
      if al and al[0] == "mod" and parts[1] in self.funcs.get(al[1], {}):
        return al[1], parts[1]
    return None

  def is_host(self, fn):
    if graph.is_kernel(fn):
      return False
    for d in fn.decorator_list:
      if ast.unparse(d) in ("wp.func", "wp.func_native", "wp.struct"):
        return False
    return True


def flatten(pkg: Pkg, mod, fname, kernels_by_mod, consts=None, conds=None, depth=0, stack=None, out=None, rename=None, given=()):
  out = [] if out is None else out
  conds = conds or []
  stack = stack or []
  fn = pkg.funcs[mod].get(fname)
  if fn is None or depth > MAXDEPTH or (mod, fname) in stack:
    return out
  stack = stack + [(mod, fname)]
  consts = dict(consts or {})
  rename = dict(rename or {})

  def rn(expr):
    """rewrite the root name of a binding expression into the caller's name for the same object"""
    root = expr.split(".")[0].split("[")[0]
    if root in rename and root == expr[: len(root)]:
      return rename[root] + expr[len(root):]
    return expr
  # defaults
  a = fn.args
  defaults = dict(zip([p.arg for p in a.args][len(a.args) - len(a.defaults):], a.defaults))
  for p, dv in defaults.items():
    if p not in consts and p not in given and isinstance(dv, ast.Constant):   # a default applies only when the caller passed nothing
      consts[p] = dv.value
  local_src = {}

  def fold(test):
    """statically known truth value of an if-test, or None"""
    if isinstance(test, ast.Name) and test.id in consts:
      return bool(consts[test.id])
    if isinstance(test, ast.UnaryOp) and isinstance(test.op, ast.Not):
      v = fold(test.operand)
      return None if v is None else (not v)
    if isinstance(test, ast.Constant):
      return bool(test.value)
    if isinstance(test, ast.Compare) and len(test.ops) == 1 and isinstance(test.ops[0], (ast.Is, ast.IsNot)) and isinstance(test.left, ast.Name) and test.left.id in consts \
        and isinstance(test.comparators[0], ast.Constant) and test.comparators[0].value is None:
      v = consts[test.left.id] is None
      return v if isinstance(test.ops[0], ast.Is) else (not v)
    return None

  def cond_text(test):
    s = ast.unparse(test)
    if isinstance(test, ast.Name) and test.id in local_src:
      s = local_src[test.id]
    elif isinstance(test, ast.UnaryOp) and isinstance(test.op, ast.Not) and isinstance(test.operand, ast.Name) and test.operand.id in local_src:
      s = "not (" + local_src[test.operand.id] + ")"
    return " ".join(s.split())

  def handle_call(c, conds):
    f = ast.unparse(c.func)
    if f in ("wp.launch", "wp.launch_tiled"):
      kw = {k.arg: k.value for k in c.keywords}
      kexpr = c.args[0] if c.args else kw.get("kernel")
      ins, outs = kw.get("inputs"), kw.get("outputs")
      ilist = [rn(ast.unparse(x)) for x in ins.elts] if isinstance(ins, (ast.List, ast.Tuple)) else []
      olist = [rn(ast.unparse(x)) for x in outs.elts] if isinstance(outs, (ast.List, ast.Tuple)) else []

      def argtext(x):
        """ordered argument text: literals as `const:<v>`, host parameters/locals with a statically known value as `<name>=<v>`"""
        if isinstance(x, ast.Constant):
          return f"const:{x.value!r}"
        if isinstance(x, ast.Name) and x.id in consts:
          return f"{x.id}={consts[x.id]!r}"
        return " ".join(rn(ast.unparse(x)).split())
      alist = [argtext(x) for x in (list(ins.elts) if isinstance(ins, (ast.List, ast.Tuple)) else []) + (list(outs.elts) if isinstance(outs, (ast.List, ast.Tuple)) else [])]
      kname = None
      if isinstance(kexpr, ast.Name):
        kname = kexpr.id
      elif isinstance(kexpr, ast.Call):
        kname = ast.unparse(kexpr.func) + "()"
      elif isinstance(kexpr, ast.Attribute):
        kname = ast.unparse(kexpr)
      key = graph.resolve_kernel({"module": mod, "kernel_expr": kname, "host": fname}, kernels_by_mod, None)
      out.append({"ev": "launch", "kernel": key or f"?{mod}.{kname}", "host": f"{mod}.{fname}", "line": c.lineno, "conds": list(conds), "inputs": ilist, "outputs": olist, "args": alist,
                  "dim": " ".join(rn(ast.unparse(kw["dim"])).split()) if "dim" in kw else (" ".join(ast.unparse(c.args[1]).split()) if len(c.args) > 1 else "")})
      return
    if isinstance(c.func, ast.Attribute) and c.func.attr in ("zero_", "fill_"):
      out.append({"ev": "hostwrite", "field": rn(ast.unparse(c.func.value)), "host": f"{mod}.{fname}", "line": c.lineno, "conds": list(conds), "how": c.func.attr})
      return
    if f == "wp.copy" and len(c.args) >= 2:
      out.append({"ev": "hostcopy", "field": rn(ast.unparse(c.args[0])), "src": rn(ast.unparse(c.args[1])), "host": f"{mod}.{fname}", "line": c.lineno, "conds": list(conds)})
      return
    if f == "wp.capture_while":
      kw = {k.arg: k.value for k in c.keywords}
      body = kw.get("while_body")
      if body is not None:
        tgt = pkg.resolve(mod, ast.unparse(body))
        if tgt and pkg.is_host(pkg.funcs[tgt[0]][tgt[1]]):
          rr = {k.arg: rn(ast.unparse(k.value)) for k in c.keywords if k.arg and isinstance(k.value, (ast.Name, ast.Attribute))}
          flatten(pkg, tgt[0], tgt[1], kernels_by_mod, {}, conds + ["while nsolving"], depth + 1, stack, out, rr)
      return
    tgt = pkg.resolve(mod, f)
    if tgt and pkg.is_host(pkg.funcs[tgt[0]][tgt[1]]):
      callee = pkg.funcs[tgt[0]][tgt[1]]
      cc = {}
      rr = {}
      pnames = [p.arg for p in callee.args.args]
      for i, av in enumerate(c.args):
        if i < len(pnames) and isinstance(av, (ast.Name, ast.Attribute)):
          rr[pnames[i]] = rn(ast.unparse(av))
      for k in c.keywords:
        if k.arg and isinstance(k.value, (ast.Name, ast.Attribute)):
          rr[k.arg] = rn(ast.unparse(k.value))
      for i, av in enumerate(c.args):
        if i < len(pnames):
          if isinstance(av, ast.Constant):
            cc[pnames[i]] = av.value
          elif isinstance(av, ast.Name) and av.id in consts:
            cc[pnames[i]] = consts[av.id]
      for k in c.keywords:
        if k.arg and isinstance(k.value, ast.Constant):
          cc[k.arg] = k.value.value
        elif k.arg and isinstance(k.value, ast.Name) and k.value.id in consts:
          cc[k.arg] = consts[k.value.id]
      given = set(pnames[: len(c.args)]) | {k.arg for k in c.keywords if k.arg}
      flatten(pkg, tgt[0], tgt[1], kernels_by_mod, cc, conds, depth + 1, stack, out, rr, given)

  def calls_in(node):
    cs = [n for n in ast.walk(node) if isinstance(n, ast.Call)]
    cs.sort(key=lambda n: (n.lineno, n.col_offset))
    # only outermost relevant calls: launches/host calls are statements, nested calls are arguments (ignored unless host fn)
    return cs

  def walk(stmts, conds):
    conds = list(conds)
    for s in stmts:
      if isinstance(s, ast.FunctionDef):
        continue
      if isinstance(s, ast.If):
        v = fold(s.test)
        if v is True:
          walk(s.body, conds)
          if s.body and isinstance(s.body[-1], ast.Return):
            return
        elif v is False:
          walk(s.orelse, conds)
        else:
          t = cond_text(s.test)
          # constant propagation is path-insensitive: after a branch on an unknown condition a name keeps a known value only
          # if BOTH branches leave it with the same one
          before = dict(consts)
          walk(s.body, conds + [t])
          after_body = dict(consts)
          consts.clear(); consts.update(before)
          walk(s.orelse, conds + ["not (" + t + ")"])
          after_else = dict(consts)
          consts.clear(); consts.update({k: v for k, v in after_body.items() if k in after_else and after_else[k] == v and type(after_else[k]) is type(v)})
          # `if c: ...; return` guards everything that follows in this function
          if s.body and isinstance(s.body[-1], ast.Return) and not s.orelse:
            conds = conds + ["not (" + t + ")"]
        continue
      if isinstance(s, (ast.For, ast.While)):
        before = dict(consts)
        # names assigned anywhere in the loop body are unknown inside it (a later iteration sees the earlier one's value) and after it
        for n in ast.walk(s):
          if isinstance(n, ast.Assign):
            for tg in n.targets:
              for nn in ast.walk(tg):
                if isinstance(nn, ast.Name):
                  consts.pop(nn.id, None)
                  before.pop(nn.id, None)
        walk(s.body, conds + ["loop:" + " ".join(ast.unparse(s.iter if isinstance(s, ast.For) else s.test).split())[:60]])
        consts.clear(); consts.update(before)
        continue
      if isinstance(s, ast.With):
        walk(s.body, conds)
        continue
      if isinstance(s, ast.Try):
        walk(s.body, conds)
        continue
      if isinstance(s, ast.Return):
        if s.value is not None:
          for c in calls_in(s.value):
            handle_call(c, conds)
        # early return: the rest of this function is skipped under the current conditions (not modelled further)
        continue
      if isinstance(s, ast.Assign) and len(s.targets) == 1 and isinstance(s.targets[0], ast.Name):
        local_src[s.targets[0].id] = " ".join(ast.unparse(s.value).split())
        if isinstance(s.value, ast.Constant):
          consts[s.targets[0].id] = s.value.value
        else:
          consts.pop(s.targets[0].id, None)
      for c in calls_in(s):
        handle_call(c, conds)

  walk(fn.body, conds)
  return out


def run():
  pkg = Pkg()
  kernels, kernels_by_mod = {}, {}
  for mod in graph.modules():
    kernels_by_mod[mod] = {}
    for name, fn in pkg.funcs[mod].items():
      if graph.is_kernel(fn):
        rec = graph.classify_kernel(mod, name, fn)
        kernels[f"{mod}.{name}"] = rec
        kernels_by_mod[mod][name] = rec
  ftab = graph.field_table()
  res = {}
  for mod, fn in ENTRIES:
    evs = flatten(pkg, mod, fn, kernels_by_mod)
    # attach field-level read/write sets to launches
    for e in evs:
      if e["ev"] != "launch":
        continue
      k = kernels.get(e["kernel"])
      e["reads"], e["writes"] = [], []
      if not k:
        continue
      params = [p for p, _ in k["params"]]
      args = e["inputs"] + e["outputs"]
      if len(args) != len(params):
        continue
      bind = dict(zip(params, args))
      rd, wr = set(), set()
      for a in k["accesses"]:
        f = bind.get(a["param"])
        if f is None:
          continue
        (rd if a["rw"] == "r" else wr).add(f)
        if a["rw"] == "a":
          rd.add(f)
      for p in k.get("passed", []):
        if p in bind:
          # passed whole to a wp.func: classified by the repo's naming convention (_in read, _out write, else both)
          if not p.endswith("_out"):
            rd.add(bind[p])
          if p.endswith("_out") or (p in params[len(e["inputs"]):] and not p.endswith("_in")):
            wr.add(bind[p])
      e["reads"], e["writes"] = sorted(rd), sorted(wr)
    res[f"{mod}.{fn}"] = evs
  json.dump(res, open(os.path.join(GEN, "host.json"), "w"), indent=0)
  emit_lean(res)
  return {k: len(v) for k, v in res.items()}


def emit_lean(res):
  from .emit import write_if_changed
  names = {}

  def nid(x):
    x = str(x)
    if x not in names:
      names[x] = len(names)
    return names[x]

  nid("")
  L = ["/- GENERATED by harness/translate/hostgraph.py from /repo — ordered host events of the public pipeline functions. -/",
       "import MjwVerif.Model.HostGraph", "namespace Mjw.Gen.Host", "open Mjw.HostGraph", ""]
  body = []
  for entry, evs in res.items():
    nm = entry.replace(".", "_")
    rows = []
    for e in evs:
      conds = "[" + ", ".join(str(nid(c)) for c in e["conds"]) + "]"
      if e["ev"] == "launch":
        rd = "[" + ", ".join(str(nid(f)) for f in e.get("reads", [])) + "]"
        wr = "[" + ", ".join(str(nid(f)) for f in e.get("writes", [])) + "]"
        rows.append(f"  ⟨EvKind.launch, {nid(e['kernel'])}, {conds}, {rd}, {wr}⟩")
      elif e["ev"] == "hostwrite":
        rows.append(f"  ⟨EvKind.hostWrite, {nid(e['field'])}, {conds}, [], [{nid(e['field'])}]⟩")
      else:
        rows.append(f"  ⟨EvKind.hostCopy, {nid(e['field'])}, {conds}, [{nid(e['src'])}], [{nid(e['field'])}]⟩")
    chunks = []
    for ci in range(0, max(len(rows), 1), 150):
      cn = f"{nm}_{ci // 150}"
      chunks.append(cn)
      body.append(f"def {cn} : List Event := [")
      body.append(",\n".join(rows[ci: ci + 150]))
      body.append("]")
    body.append(f"def {nm} : List Event := " + " ++ ".join(chunks))
  # side table (same indexing as the event list): ORDERED launch arguments (inputs then outputs) — pins argument order, literal
  # scalars (`const:False`) and statically known host parameters (`flg_subtract=False`); [] for host writes/copies
  for entry, evs in res.items():
    nm = entry.replace(".", "_")
    arows = ["  [" + ", ".join(str(nid(a)) for a in (e.get("args", []) if e["ev"] == "launch" else [])) + "]" for e in evs]
    chunks = []
    for ci in range(0, max(len(arows), 1), 150):
      cn = f"{nm}_args_{ci // 150}"
      chunks.append(cn)
      body.append(f"def {cn} : List (List Nat) := [")
      body.append(",\n".join(arows[ci: ci + 150]))
      body.append("]")
    body.append(f"/-- ordered launch arguments of `{nm}` (index = position in the event list) -/")
    body.append(f"def {nm}_args : List (List Nat) := " + " ++ ".join(chunks))
    drows = [str(nid("dim:" + e.get("dim", ""))) if e["ev"] == "launch" else "0" for e in evs]
    dchunks = []
    for ci in range(0, max(len(drows), 1), 300):
      cn = f"{nm}_dims_{ci // 300}"
      dchunks.append(cn)
      body.append(f"def {cn} : List Nat := [" + ", ".join(drows[ci: ci + 300]) + "]")
    body.append(f"/-- launch dimension expressions (source text, `dim:` prefixed, interned) of `{nm}`; 0 for host writes/copies -/")
    body.append(f"def {nm}_dims : List Nat := " + " ++ ".join(dchunks))
  ordered = [k for k, _ in sorted(names.items(), key=lambda kv: kv[1])]
  nchunks = []
  for ci in range(0, len(ordered), 150):
    L.append(f"def names_{ci // 150} : List String := [" + ", ".join(graph.lstr(k) for k in ordered[ci: ci + 150]) + "]")
    nchunks.append(f"names_{ci // 150}")
  L.append("def names : List String := " + " ++ ".join(nchunks))
  L.append("def name (i : Nat) : String := names.getD i \"?\"")
  L.append("def nameId (s : String) : Nat := names.idxOf s")
  L.append("/-- ids of binding expressions rooted at the Model (`m.…`) resp. at Data (`d.…`) -/")
  L.append("def modelFieldIds : List Nat := [" + ", ".join(str(i) for i, k in enumerate(ordered) if k.startswith("m.") or k.startswith("m_")) + "]")
  L.append("def dataFieldIds : List Nat := [" + ", ".join(str(i) for i, k in enumerate(ordered) if k.startswith("d.")) + "]")
  L.append("")
  L += body
  L.append("")
  L.append("end Mjw.Gen.Host")
  write_if_changed(os.path.join(GEN, "Host.lean"), "\n".join(L) + "\n")


if __name__ == "__main__":
  print(json.dumps(run(), indent=1))
