"""E1 tier-A translator: array-free (or read-only-array) `@wp.func`s of /repo -> Lean definitions
generic over `Mjw.Scalar K`.

The translator is part of the trusted base; it is validated on every run by the func-level
differential (harness/corr/func_corr.py) which runs the real Warp function and the generated Lean
definition at Float32 on the same inputs.

Semantics assumed (see DESIGN.md §3): Warp scalar ops are the IEEE ops of the same name; `wp.quat`
is used by this repo as a plain 4-vector with component 0 = w; `wp.normalize` as in warp/native;
Python `range`; locals assigned in one branch only read as 0 elsewhere.
"""

from __future__ import annotations

import ast
import importlib
import os
import sys
import textwrap
from decimal import Decimal
from typing import Dict, List, Optional, Tuple

REPO = os.environ.get("MJW_REPO", "/repo")


class Unsupported(Exception):
  pass


# ---------------------------------------------------------------------------------------------
# types

F, I, B = "F", "I", "B"
VEC = {"V2": 2, "V3": 3, "V4": 4, "V5": 5, "V6": 6, "V8": 8, "V10": 10, "V11": 11, "Q": 4}
IVEC = {"I2": 2, "I3": 3, "I4": 4, "I6": 6}
MAT = {"M22": (2, 2, "V2"), "M33": (3, 3, "V3")}


def lean_type(t) -> str:
  if t == F:
    return "K"
  if t == I:
    return "Int"
  if t == B:
    return "Bool"
  if isinstance(t, tuple) and t[0] == "tuple":
    return "(" + " × ".join(lean_type(x) for x in t[1]) + ")"
  if isinstance(t, tuple) and t[0] == "arr":  # array: function of Int indices (pre-launch contents)
    return "(" + " → ".join(["Int"] * t[2] + [lean_type(t[1])]) + ")"
  if t == "WS":
    return "List (Write K)"
  if t in IVEC:
    return t
  return f"{t} K"


def zero_of(t) -> str:
  if t == F:
    return "(Scalar.lit 0 0 : K)"
  if t == I:
    return "(0 : Int)"
  if t == B:
    return "false"
  if isinstance(t, tuple) and t[0] == "tuple":
    return "(" + ", ".join(zero_of(x) for x in t[1]) + ")"
  if t == "WS":
    return "([] : List (Write K))"
  if t in IVEC:
    return f"({t}.zero : {t})"
  return f"({t}.zero : {t} K)"


_ANN = {
  "float": F, "int": I, "bool": B,
  "wp.float32": F, "wp.int32": I, "wp.bool": B,
  "wp.vec2": "V2", "wp.vec2f": "V2", "wp.vec3": "V3", "wp.vec3f": "V3", "wp.vec4": "V4", "wp.vec4f": "V4",
  "wp.quat": "Q", "wp.quatf": "Q", "wp.mat33": "M33", "wp.mat33f": "M33", "wp.mat22": "M22", "wp.mat22f": "M22",
  "wp.spatial_vector": "V6", "wp.spatial_vectorf": "V6",
  "vec5": "V5", "types.vec5": "V5", "vec6": "V6", "types.vec6": "V6", "vec10": "V10", "types.vec10": "V10",
  "vec10f": "V10", "types.vec10f": "V10", "vec8": "V8", "vec8f": "V8", "types.vec8": "V8", "types.vec8f": "V8",
  "vec11": "V11", "vec11f": "V11", "types.vec11": "V11", "types.vec11f": "V11", "vec5f": "V5", "vec6f": "V6", "types.vec6f": "V6", "types.vec5f": "V5",
  "wp.vec2i": "I2", "wp.vec3i": "I3", "wp.vec4i": "I4", "vec6i": "I6", "types.vec6i": "I6",
}


def ann_type(node) -> object:
  s = ast.unparse(node)
  if s in _ANN:
    return _ANN[s]
  if isinstance(node, ast.Subscript) and ast.unparse(node.value) in ("Tuple", "tuple", "typing.Tuple"):
    elts = node.slice.elts if isinstance(node.slice, ast.Tuple) else [node.slice]
    return ("tuple", tuple(ann_type(e) for e in elts))
  if isinstance(node, ast.Subscript) and ast.unparse(node.value) in ("wp.array", "wp.array2d", "wp.array3d", "wp.array4d"):
    nd = {"wp.array": 1, "wp.array2d": 2, "wp.array3d": 3, "wp.array4d": 4}[ast.unparse(node.value)]
    return ("arr", ann_type(node.slice), nd)
  if isinstance(node, ast.Call) and ast.unparse(node.func) in ("wp.array", "wp.array2d", "wp.array3d"):
    nd = {"wp.array": 1, "wp.array2d": 2, "wp.array3d": 3}[ast.unparse(node.func)]
    dt = None
    for kw in node.keywords:
      if kw.arg == "dtype":
        dt = ann_type(kw.value)
      if kw.arg == "ndim":
        nd = int(ast.literal_eval(kw.value))
    if dt is None:
      raise Unsupported(f"array annotation without dtype: {s}")
    return ("arr", dt, nd)
  raise Unsupported(f"type annotation {s}")


def float_lit(x: float) -> str:
  if x != x or x in (float("inf"), float("-inf")):
    raise Unsupported(f"non-finite literal {x}")
  d = Decimal(repr(float(x)))
  sign, digits, exp = d.as_tuple()
  m = int("".join(map(str, digits)))
  while m != 0 and m % 10 == 0:
    m //= 10
    exp += 1
  if m == 0:
    exp = 0
  if sign:
    m = -m
  ms = f"({m})" if m < 0 else str(m)
  es = f"({exp})" if exp < 0 else str(exp)
  return f"(Scalar.lit {ms} {es} : K)"


# ---------------------------------------------------------------------------------------------


class Env:
  def __init__(self, types: Dict[str, object], consts: Dict[str, int]):
    self.types = types
    self.consts = consts

  def copy(self):
    return Env(dict(self.types), dict(self.consts))


class FuncTranslator:
  def __init__(self, mod: "ModuleTranslator", fn: ast.FunctionDef, spec=None):
    self.mod = mod
    self.fn = fn
    self.spec = spec
    self.name = fn.name
    self.ret_type = None
    self.fresh = 0
    self.kernel = False          # tier B: @wp.kernel body -> List (Write K)
    self.writes = False          # function/kernel performs array writes
    self.alias = {}              # view variable -> (array param name, [prefix index exprs])
    self.extra_params = []       # (lean name, lean type) appended to the signature (shapes, statics, alloc results, fuel)
    self.loop_stack = []
    self.needs_fuel = False
    self.arr_params = {}
    self.written_arrays = set()
    self.static_exprs = {}
    self.alloc_sites = []
    self.alias_of = {}           # input array param -> output array param bound to the same array at a launch
    self.written_now = set()     # array roots written so far in program order (loop bodies pre-added)
    self.rv_init = None
    self.retf_init = False

  def err(self, node, msg):
    raise Unsupported(f"{self.mod.pyname}.{self.name}:{getattr(node, 'lineno', '?')}: {msg}")

  # ---- constants -----------------------------------------------------------------------------
  def py_eval(self, node, env: Env):
    """Evaluate a Python expression at translation time in the module's globals (for constants)."""
    src = ast.unparse(node)
    try:
      return eval(src, self.mod.globals, dict(env.consts))
    except Exception as e:  # noqa
      return None

  def const_int(self, node, env: Env) -> Optional[int]:
    if isinstance(node, ast.Constant) and isinstance(node.value, int) and not isinstance(node.value, bool):
      return node.value
    if isinstance(node, ast.Name) and node.id in env.consts:
      return env.consts[node.id]
    if isinstance(node, ast.Name) and node.id in env.types:
      return None
    names = {n.id for n in ast.walk(node) if isinstance(n, ast.Name)}
    if any((n in env.types and n not in env.consts) for n in names):
      return None
    if isinstance(node, ast.Call) and ast.unparse(node.func) == "wp.static":
      node = node.args[0]
    v = self.py_eval(node, env)
    if isinstance(v, bool):
      return None
    if isinstance(v, int):
      return int(v)
    try:
      import enum
      if isinstance(v, enum.IntEnum):
        return int(v)
    except Exception:
      pass
    return None

  # ---- expressions ---------------------------------------------------------------------------
  def expr(self, node, env: Env, want=None) -> Tuple[str, object]:
    """Returns (lean source, type)."""
    if isinstance(node, ast.Constant):
      v = node.value
      if isinstance(v, bool):
        return ("true" if v else "false"), B
      if isinstance(v, int):
        if want == F:
          return float_lit(float(v)), F
        return f"({v} : Int)", I
      if isinstance(v, float):
        return float_lit(v), F
      self.err(node, f"constant {v!r}")
    if isinstance(node, ast.Name):
      if node.id in env.consts:
        c = env.consts[node.id]
        if want == F:
          return float_lit(float(c)), F
        return f"({c} : Int)", I
      if node.id in env.types:
        return self.mod.lname(node.id), env.types[node.id]
      v = self.py_eval(node, env)
      if v is None and getattr(self, "is_nested", False):
        nm = "cl_" + node.id
        if (nm, "Int") not in self.extra_params:
          self.extra_params.append((nm, "Int"))
        return nm, I
      return self.const_value(node, v, want)
    if isinstance(node, ast.Attribute):
      s = ast.unparse(node)
      if s == "wp.pi":
        return "(Scalar.pi : K)", F
      if s == "wp.inf":
        self.err(node, "wp.inf")
      if isinstance(node.value, ast.Name) and node.value.id in env.types and node.attr in ("x", "y", "z", "w"):
        bt = env.types[node.value.id]
        k = "xyzw".index(node.attr)
        if bt in VEC and bt != "Q" and k < VEC[bt]:
          return f"{self.mod.lname(node.value.id)}.c{k}", F
        self.err(node, f"attribute .{node.attr} of {bt}")
      v = self.py_eval(node, env)
      return self.const_value(node, v, want)
    if isinstance(node, ast.UnaryOp):
      if isinstance(node.op, ast.USub):
        if isinstance(node.operand, ast.Constant) and isinstance(node.operand.value, (int, float)) and not isinstance(node.operand.value, bool):
          v = -node.operand.value
          if isinstance(v, float) or want == F:
            return float_lit(float(v)), F
          return f"({v} : Int)", I
        a, t = self.expr(node.operand, env, want)
        if t == F:
          return f"(-{a})", F
        if t == I:
          return f"(-{a})", I
        if t in VEC or t in MAT:
          return f"({t}.neg {a})", t
        self.err(node, f"neg of {t}")
      if isinstance(node.op, ast.Not):
        a, t = self.expr(node.operand, env, "COND")
        a = self.as_bool(a, t, node)
        return f"(!{a})", B
      if isinstance(node.op, ast.UAdd):
        return self.expr(node.operand, env, want)
      if isinstance(node.op, ast.Invert):
        a, t = self.expr(node.operand, env)
        if t == I:
          return f"(Mjw.inot {a})", I
      self.err(node, "unary op")
    if isinstance(node, ast.BinOp):
      return self.binop(node, env, want)
    if isinstance(node, ast.BoolOp):
      parts = []
      for v in node.values:
        a, t = self.expr(v, env, "COND")
        parts.append(self.as_bool(a, t, v))
      op = " && " if isinstance(node.op, ast.And) else " || "
      return "(" + op.join(parts) + ")", B
    if isinstance(node, ast.Compare):
      return self.compare(node, env)
    if isinstance(node, ast.IfExp):
      c, ct = self.expr(node.test, env, "COND")
      c = self.as_bool(c, ct, node)
      a, ta = self.expr(node.body, env, want)
      b, tb = self.expr(node.orelse, env, want or ta)
      if ta != tb:
        a, ta = self.expr(node.body, env, tb)
      if ta != tb:
        self.err(node, f"ifexp branch types {ta} {tb}")
      return f"(if {c} then {a} else {b})", ta
    if isinstance(node, ast.Subscript):
      return self.subscript(node, env)
    if isinstance(node, ast.Call):
      return self.call(node, env, want)
    if isinstance(node, ast.Tuple):
      parts = [self.expr(e, env) for e in node.elts]
      return "(" + ", ".join(p[0] for p in parts) + ")", ("tuple", tuple(p[1] for p in parts))
    self.err(node, f"expression {type(node).__name__}: {ast.unparse(node)[:60]}")

  def const_value(self, node, v, want):
    import enum
    if isinstance(v, bool):
      return ("true" if v else "false"), B
    if isinstance(v, enum.IntEnum) or isinstance(v, int):
      if want == F:
        return float_lit(float(int(v))), F
      return f"({int(v)} : Int)", I
    if isinstance(v, float):
      return float_lit(v), F
    # warp constant wrappers (wp.constant returns the python value); vec constants
    try:
      import warp as wp
      if hasattr(v, "_length_") and hasattr(v, "__getitem__"):
        n = len(v)
        name = {2: "V2", 3: "V3", 4: "V4", 5: "V5", 6: "V6", 8: "V8", 10: "V10", 11: "V11"}.get(n)
        if type(v).__name__.startswith("quat"):
          name = "Q"
        if name:
          return "(⟨" + ", ".join(float_lit(float(v[i])) for i in range(n)) + f"⟩ : {name} K)", name
    except Exception:
      pass
    self.err(node, f"cannot resolve constant {ast.unparse(node)} = {v!r}")

  def as_bool(self, a, t, node):
    if t == B:
      return a
    if t == I:
      return f"(decide ({a} ≠ 0))"
    if t == F:
      return f"(Scalar.bne {a} (Scalar.lit 0 0))"
    self.err(node, f"truthiness of {t}")

  def coerce_pair(self, l, r, env, want=None):
    """translate two operands; int literals adapt to a float partner."""
    a, ta = self.expr(l, env, want)
    b, tb = self.expr(r, env, want)
    if ta == I and tb == F and self.is_int_literalish(l, env):
      a, ta = self.expr(l, env, F)
    if tb == I and ta == F and self.is_int_literalish(r, env):
      b, tb = self.expr(r, env, F)
    return a, ta, b, tb

  def is_int_literalish(self, node, env):
    return self.const_int(node, env) is not None

  def binop(self, node, env, want):
    op = type(node.op)
    a, ta, b, tb = self.coerce_pair(node.left, node.right, env, want if want in (F, I) else None)
    if ta == I and tb == F:
      a, ta = f"(Scalar.ofInt {a} : K)", F
    elif ta == F and tb == I:
      b, tb = f"(Scalar.ofInt {b} : K)", F
    if ta == I and tb == B:
      b, tb = f"(if {b} then (1 : Int) else 0)", I
    elif ta == B and tb == I:
      a, ta = f"(if {a} then (1 : Int) else 0)", I
    sym = {ast.Add: "+", ast.Sub: "-", ast.Mult: "*", ast.Div: "/"}.get(op)
    if ta == F and tb == F:
      if sym:
        return f"({a} {sym} {b})", F
      if op is ast.Pow:
        return f"(Scalar.pow {a} {b})", F
      self.err(node, "float binop")
    if ta == I and tb == I:
      if op in (ast.Add, ast.Sub, ast.Mult):
        return f"({a} {sym} {b})", I
      if op in (ast.FloorDiv, ast.Div):
        return f"(Int.tdiv {a} {b})", I
      if op is ast.Mod:
        return f"(Int.tmod {a} {b})", I
      if op is ast.BitAnd:
        return f"(Mjw.iand {a} {b})", I
      if op is ast.BitOr:
        return f"(Mjw.ior {a} {b})", I
      if op is ast.BitXor:
        return f"(Mjw.ixor {a} {b})", I
      if op is ast.LShift:
        return f"(Mjw.ishl {a} {b})", I
      if op is ast.RShift:
        return f"(Mjw.ishr {a} {b})", I
      self.err(node, "int binop")
    if ta == B and tb == B and op in (ast.BitAnd, ast.BitOr):
      return f"({a} {'&&' if op is ast.BitAnd else '||'} {b})", B
    vec_a, vec_b = ta in VEC, tb in VEC
    mat_a, mat_b = ta in MAT, tb in MAT
    if (vec_a and tb == ta) or (mat_a and tb == ta and op in (ast.Add, ast.Sub)):
      if op is ast.Add:
        return f"({ta}.add {a} {b})", ta
      if op is ast.Sub:
        return f"({ta}.sub {a} {b})", ta
      if op is ast.Mult and vec_a and ta != "Q":
        return f"({ta}.cwmul {a} {b})", ta
      if op is ast.Div and vec_a and ta != "Q":
        return f"({ta}.cwdiv {a} {b})", ta
      self.err(node, f"vec binop {ta}")
    if (vec_a or mat_a) and tb in (F, I):
      if tb == I:
        b, tb = self.expr(node.right, env, F)
      if op is ast.Mult:
        return f"({ta}.muls {a} {b})", ta
      if op is ast.Div:
        return f"({ta}.divs {a} {b})", ta
    if ta in (F, I) and (vec_b or mat_b):
      if ta == I:
        a, ta = self.expr(node.left, env, F)
      if op is ast.Mult:
        return f"({tb}.smul {a} {b})", tb
    if mat_a and vec_b and op in (ast.Mult, ast.MatMult) and MAT[ta][2] == tb:
      return f"({ta}.mulVec {a} {b})", tb
    if vec_a and mat_b and op in (ast.Mult, ast.MatMult) and MAT[tb][2] == ta:
      return f"({tb}.vecMul {a} {b})", ta
    if mat_a and tb == ta and op in (ast.Mult, ast.MatMult):
      return f"({ta}.mul {a} {b})", ta
    self.err(node, f"binop {op.__name__} on {ta}, {tb}")

  def compare(self, node, env):
    if len(node.ops) != 1:
      # chained comparison a < b < c
      parts = []
      left = node.left
      for op, right in zip(node.ops, node.comparators):
        sub = ast.Compare(left=left, ops=[op], comparators=[right])
        ast.copy_location(sub, node)
        parts.append(self.compare(sub, env)[0])
        left = right
      return "(" + " && ".join(parts) + ")", B
    op = type(node.ops[0])
    a, ta, b, tb = self.coerce_pair(node.left, node.comparators[0], env)
    if ta == F and tb == F:
      f = {ast.Lt: "Scalar.lt", ast.LtE: "Scalar.le", ast.Gt: "Scalar.gt", ast.GtE: "Scalar.ge", ast.Eq: "Scalar.beq", ast.NotEq: "Scalar.bne"}.get(op)
      if f:
        return f"({f} {a} {b})", B
    if ta == I and tb == I:
      s = {ast.Lt: "<", ast.LtE: "≤", ast.Gt: ">", ast.GtE: "≥", ast.Eq: "=", ast.NotEq: "≠"}.get(op)
      if s:
        return f"(decide ({a} {s} {b}))", B
    if ta == B and tb == B and op in (ast.Eq, ast.NotEq):
      return (f"({a} == {b})" if op is ast.Eq else f"({a} != {b})"), B
    if ta == B and tb == I or ta == I and tb == B:
      self.err(node, "bool/int comparison")
    self.err(node, f"compare {op.__name__} on {ta}, {tb}")

  def subscript(self, node, env):
    if isinstance(node.value, ast.Attribute) and node.value.attr == "shape" and isinstance(node.value.value, ast.Name):
      an = node.value.value.id
      k = self.const_int(node.slice, env)
      root = self.alias.get(an, (an, []))
      if root[0] in self.arr_params and k is not None:
        k2 = k + len(root[1])
        nm = f"{self.mod.lname(root[0])}_shape{k2}"
        if (nm, "Int") not in self.extra_params:
          self.extra_params.append((nm, "Int"))
        return nm, I
      self.err(node, "shape of non-parameter")
    base, tb = self.expr(node.value, env)
    idx = node.slice
    idxs = list(idx.elts) if isinstance(idx, ast.Tuple) else [idx]
    if isinstance(tb, tuple) and tb[0] == "arr":
      if len(idxs) != tb[2]:
        if len(idxs) < tb[2]:
          parts = [self.int_expr(i, env) for i in idxs]
          return "(" + base + " " + " ".join(parts) + ")", ("arr", tb[1], tb[2] - len(idxs))
        # array of vectors indexed deeper: a[i][k] handled by nested Subscript; a[i, k] on vec dtype
        arr_idx, rest = idxs[: tb[2]], idxs[tb[2]:]
        parts = [self.int_expr(i, env) for i in arr_idx]
        e = "(" + base + " " + " ".join(parts) + ")"
        return self.index_value(node, e, tb[1], rest, env)
      parts = [self.int_expr(i, env) for i in idxs]
      plain = "(" + base + " " + " ".join(parts) + ")"
      if isinstance(node.value, ast.Name):
        root, prefix = self.alias.get(node.value.id, (node.value.id, []))
        partner = self.alias_of.get(root)
        if partner is not None and partner in self.written_now and root not in self.written_arrays and "ws" in env.types:
          # the launch binds `root` and `partner` to the same array and this thread has already written `partner`
          fnm = {F: "lookupF", I: "lookupI", B: "lookupB"}.get(tb[1])
          if fnm is None and tb[1] in VEC:
            return f"({tb[1]}.ofList (Write.lookupV ws \"{partner}\" [{', '.join(prefix + parts)}] ({tb[1]}.toList {plain})))", tb[1]
          if fnm is None:
            self.err(node, f"aliased read of an array of {tb[1]}")
          return f"(Write.{fnm} ws \"{partner}\" [{', '.join(prefix + parts)}] {plain})", tb[1]
        if root in self.written_arrays and "ws" in env.types:
          fnm = {F: "lookupF", I: "lookupI", B: "lookupB"}.get(tb[1])
          if fnm is None and tb[1] in VEC:
            return f"({tb[1]}.ofList (Write.lookupV ws \"{root}\" [{', '.join(prefix + parts)}] ({tb[1]}.toList {plain})))", tb[1]
          if fnm is None:
            self.err(node, f"read of an array of {tb[1]} that this thread also writes")
          return f"(Write.{fnm} ws \"{root}\" [{', '.join(prefix + parts)}] {plain})", tb[1]
      return plain, tb[1]
    if isinstance(tb, tuple) and tb[0] == "tuple":
      c = self.const_int(idxs[0], env)
      if c is None:
        self.err(node, "dynamic tuple index")
      n = len(tb[1])
      # right-nested pairs
      e = base
      for _ in range(c):
        e = f"{e}.2"
      if c < n - 1:
        e = f"{e}.1"
      return e, tb[1][c]
    return self.index_value(node, base, tb, idxs, env)

  def index_value(self, node, base, tb, idxs, env):
    if not idxs:
      return base, tb
    if tb in IVEC:
      c = self.const_int(idxs[0], env)
      if c is not None and 0 <= c < IVEC[tb]:
        return f"{base}.c{c}", I
      return f"({tb}.get {base} {self.int_expr(idxs[0], env)})", I
    if tb in VEC:
      if len(idxs) != 1:
        self.err(node, "vector with 2 indices")
      c = self.const_int(idxs[0], env)
      if c is not None:
        n = VEC[tb]
        if c < 0:
          c += n
        if not (0 <= c < n):
          self.err(node, f"constant index {c} out of range for {tb}")
        return f"{base}.c{c}", F
      i = self.int_expr(idxs[0], env)
      return f"({tb}.get {base} {i})", F
    if tb in MAT:
      r, c_, vt = MAT[tb]
      if len(idxs) == 1:
        ci = self.const_int(idxs[0], env)
        i = f"({ci} : Int)" if ci is not None else self.int_expr(idxs[0], env)
        return f"({tb}.row {base} {i})", vt
      ci, cj = self.const_int(idxs[0], env), self.const_int(idxs[1], env)
      if ci is not None and cj is not None:
        return f"{base}.m{ci}{cj}", F
      i, j = self.int_expr(idxs[0], env), self.int_expr(idxs[1], env)
      return f"({tb}.get {base} {i} {j})", F
    self.err(node, f"subscript of {tb}")

  def int_expr(self, node, env):
    c = self.const_int(node, env)
    if c is not None:
      return f"({c} : Int)"
    a, t = self.expr(node, env, I)
    if t != I:
      self.err(node, f"index of type {t}")
    return a

  def float_args(self, args, env):
    out = []
    for a in args:
      s, t = self.expr(a, env, F)
      if t == I:
        s = f"(Scalar.ofInt {s} : K)"
        t = F
      out.append((s, t))
    return out

  def call(self, node, env, want):
    fn = ast.unparse(node.func)
    args = node.args
    if node.keywords:
      self.err(node, f"keyword args in call {fn}")
    # constructors
    ctor = {"wp.vec2": "V2", "wp.vec2f": "V2", "wp.vec3": "V3", "wp.vec3f": "V3", "wp.vec4": "V4", "wp.vec4f": "V4", "wp.quat": "Q", "wp.quatf": "Q",
            "vec5": "V5", "types.vec5": "V5", "vec6": "V6", "types.vec6": "V6", "vec10": "V10", "types.vec10": "V10", "vec10f": "V10",
            "vec8": "V8", "vec8f": "V8", "types.vec8": "V8", "vec11": "V11", "types.vec11": "V11", "vec11f": "V11",
            "wp.spatial_vector": "V6", "wp.spatial_vectorf": "V6"}.get(fn)
    if ctor:
      n = VEC[ctor]
      if len(args) == 0:
        return f"({ctor}.zero : {ctor} K)", ctor
      if len(args) == 1:
        (a, t), = self.float_args(args, env)
        if t == F:
          return f"({ctor}.fill {a})", ctor
        if t == ctor:
          return a, ctor
        self.err(node, f"{fn} from {t}")
      if ctor == "V6" and len(args) == 2:
        (a, ta), (b, tb) = self.float_args(args, env)
        if ta == "V3" and tb == "V3":
          return f"(V6.ofV3 {a} {b})", "V6"
      if ctor == "V4" and len(args) == 2:
        (a, ta), (b, tb) = self.float_args(args, env)
        if ta == "V3" and tb == F:
          return f"(⟨{a}.c0, {a}.c1, {a}.c2, {b}⟩ : V4 K)", "V4"
      if len(args) == n:
        parts = self.float_args(args, env)
        if all(t == F for _, t in parts):
          return "(⟨" + ", ".join(s for s, _ in parts) + f"⟩ : {ctor} K)", ctor
      self.err(node, f"constructor {fn} with {len(args)} args")
    ictor = {"wp.vec2i": "I2", "wp.vec3i": "I3", "wp.vec4i": "I4", "vec6i": "I6", "types.vec6i": "I6"}.get(fn)
    if ictor:
      n = IVEC[ictor]
      if len(args) == 0:
        return f"({ictor}.zero : {ictor})", ictor
      parts = [self.expr(a, env, I) for a in args]
      if len(parts) == n and all(t == I for _, t in parts):
        return "(⟨" + ", ".join(p for p, _ in parts) + f"⟩ : {ictor})", ictor
      if len(parts) == 1 and parts[0][1] == I:
        return f"({ictor}.fill {parts[0][0]})", ictor
      self.err(node, f"constructor {fn}")
    mctor = {"wp.mat33": "M33", "wp.mat33f": "M33", "wp.mat22": "M22", "wp.mat22f": "M22"}.get(fn)
    if mctor:
      r, c, vt = MAT[mctor]
      if len(args) == 0:
        return f"({mctor}.zero : {mctor} K)", mctor
      parts = self.float_args(args, env)
      if len(args) == r * c and all(t == F for _, t in parts):
        return "(⟨" + ", ".join(s for s, _ in parts) + f"⟩ : {mctor} K)", mctor
      if len(args) == 1 and parts[0][1] == F:
        return f"({mctor}.fill {parts[0][0]})", mctor
      if len(args) == c and all(t == vt for _, t in parts):
        # Warp: constructing a matrix from vectors uses them as COLUMNS (deprecated form)
        return f"({mctor}.fromCols " + " ".join(s for s, _ in parts) + ")", mctor
      self.err(node, f"matrix constructor {fn} with {len(args)} args")
    if fn in ("wp.matrix_from_rows", "wp.matrix_from_cols"):
      parts = self.float_args(args, env)
      if len(parts) == 3 and all(t == "V3" for _, t in parts):
        k = "fromRows" if fn.endswith("rows") else "fromCols"
        return f"(M33.{k} " + " ".join(s for s, _ in parts) + ")", "M33"
      if len(parts) == 2 and all(t == "V2" for _, t in parts):
        k = "fromRows" if fn.endswith("rows") else "fromCols"
        return f"(M22.{k} " + " ".join(s for s, _ in parts) + ")", "M22"
      self.err(node, fn)
    if fn in ("float", "wp.float32"):
      a, t = self.expr(args[0], env, F)
      if t == F:
        return a, F
      if t == I:
        return f"(Scalar.ofInt {a} : K)", F
      if t == B:
        return f"(if {a} then (Scalar.lit 1 0 : K) else (Scalar.lit 0 0 : K))", F
      self.err(node, f"float() of {t}")
    if fn in ("int", "wp.int32"):
      c = self.const_int(args[0], env)
      if c is not None:
        return f"({c} : Int)", I
      a, t = self.expr(args[0], env)
      if t == I:
        return a, I
      if t == F:
        return f"(Scalar.toInt {a})", I
      if t == B:
        return f"(if {a} then (1 : Int) else 0)", I
      self.err(node, f"int() of {t}")
    if fn in ("bool", "wp.bool"):
      a, t = self.expr(args[0], env)
      return self.as_bool(a, t, node), B
    if fn == "wp.static":
      v = self.py_eval(args[0], env)
      if v is None and getattr(self, "is_nested", False):
        import re as _re
        nm = "st_" + _re.sub(r"[^A-Za-z0-9]+", "_", ast.unparse(args[0])).strip("_")[:40]
        ty = "Bool" if want == "COND" else "Int"
        if (nm, ty) not in self.extra_params:
          self.extra_params.append((nm, ty))
        self.static_exprs[nm] = ast.unparse(args[0])
        return nm, (I if ty == "Int" else B)
      return self.const_value(node, v, want)
    # scalar builtins
    sc1 = {"wp.ceil": "ceil", "wp.sqrt": "sqrt", "wp.sin": "sin", "wp.cos": "cos", "wp.tan": "tan", "wp.asin": "asin", "wp.acos": "acos", "wp.exp": "exp", "wp.log": "log",
           "wp.floor": "floor", "wp.abs": "abs", "wp.sign": "sign"}
    if fn in sc1:
      (a, t), = self.float_args(args, env)
      if t == F:
        return f"(Scalar.{sc1[fn]} {a})", F
      if fn == "wp.abs" and t in VEC:
        return f"({t}.vabs {a})", t
      self.err(node, f"{fn} of {t}")
    sc2 = {"wp.atan2": "atan2", "wp.pow": "pow", "wp.min": "min", "wp.max": "max"}
    if fn in sc2 and len(args) != 2:
      self.err(node, f"{fn} with {len(args)} args")
    if fn in sc2:
      a, ta, b, tb = self.coerce_pair(args[0], args[1], env, F if fn in ("wp.atan2", "wp.pow") else None)
      if ta == F and tb == F:
        return f"(Scalar.{sc2[fn]} {a} {b})", F
      if ta == I and tb == I and fn in ("wp.min", "wp.max"):
        return f"({sc2[fn]} {a} {b})", I
      if ta in VEC and tb == ta and fn in ("wp.min", "wp.max"):
        return f"({ta}.v{sc2[fn]} {a} {b})", ta
      self.err(node, f"{fn} of {ta},{tb}")
    if fn == "wp.isnan":
      (a, t), = self.float_args(args, env)
      if t == F:
        return f"(Scalar.isnan {a})", B
      self.err(node, "isnan")
    if fn == "wp.clamp":
      parts = self.float_args(args, env)
      if all(t == F for _, t in parts):
        return f"(Scalar.clamp {parts[0][0]} {parts[1][0]} {parts[2][0]})", F
      self.err(node, "clamp")
    if fn in ("wp.where", "wp.select"):
      c, ct = self.expr(args[0], env)
      c = self.as_bool(c, ct, node)
      a, ta, b, tb = self.coerce_pair(args[1], args[2], env, want)
      if ta != tb:
        self.err(node, f"where branch types {ta},{tb}")
      if fn == "wp.select":
        a, b = b, a
      return f"(if {c} then {a} else {b})", ta
    v1 = {"wp.length": ("length", F), "wp.norm_l2": ("length", F), "wp.length_sq": ("lengthSq", F), "wp.normalize": ("normalize", None)}
    if fn in v1:
      a, t = self.expr(args[0], env)
      if t in VEC:
        k, rt = v1[fn]
        return f"({t}.{k} {a})", (rt or t)
      self.err(node, f"{fn} of {t}")
    if fn == "wp.dot":
      a, ta = self.expr(args[0], env)
      b, tb = self.expr(args[1], env)
      if ta in VEC and ta == tb:
        return f"({ta}.dot {a} {b})", F
      self.err(node, f"dot of {ta},{tb}")
    if fn == "wp.cross":
      a, ta = self.expr(args[0], env)
      b, tb = self.expr(args[1], env)
      if ta == "V3" and tb == "V3":
        return f"(V3.cross {a} {b})", "V3"
      self.err(node, "cross")
    if fn == "wp.cw_mul" or fn == "wp.cw_div":
      a, ta = self.expr(args[0], env)
      b, tb = self.expr(args[1], env)
      if ta in VEC and ta == tb:
        return f"({ta}.{'cwmul' if fn.endswith('mul') else 'cwdiv'} {a} {b})", ta
      self.err(node, fn)
    if fn == "wp.transpose":
      a, t = self.expr(args[0], env)
      if t in MAT:
        return f"({t}.transpose {a})", t
      self.err(node, "transpose")
    if fn == "wp.determinant":
      a, t = self.expr(args[0], env)
      if t == "M33":
        return f"(M33.det {a})", F
      self.err(node, "determinant")
    if fn == "wp.outer":
      a, ta = self.expr(args[0], env)
      b, tb = self.expr(args[1], env)
      if ta == "V3" and tb == "V3":
        return f"(M33.outer {a} {b})", "M33"
      self.err(node, "outer")
    if fn == "wp.diag":
      a, t = self.expr(args[0], env)
      if t == "V3":
        return f"(M33.diag {a})", "M33"
      self.err(node, "diag")
    if fn == "wp.get_diag":
      a, t = self.expr(args[0], env)
      if t == "M33":
        return f"(M33.getDiag {a})", "V3"
    if fn == "wp.trace":
      a, t = self.expr(args[0], env)
      if t == "M33":
        return f"(M33.trace {a})", F
    if fn == "wp.identity":
      return "(M33.identity : M33 K)", "M33"
    if fn == "wp.spatial_top":
      a, t = self.expr(args[0], env)
      return f"(V6.top {a})", "V3"
    if fn == "wp.spatial_bottom":
      a, t = self.expr(args[0], env)
      return f"(V6.bottom {a})", "V3"
    # user functions
    target = self.mod.resolve_func(fn)
    if target is not None:
      tmod, tname = target
      spec = None
      if tmod.is_generic(tname):
        spec = tuple(self.expr(a, env)[1] for a in args)
      sig = tmod.signature(tname, spec)
      if sig is None:
        self.err(node, f"call to untranslated function {fn}: {tmod.errors.get(tmod.key(tname, spec), '')[:80]}")
      ptypes, rtype = sig
      if len(args) != len(ptypes):
        self.err(node, f"arity mismatch calling {fn}")
      parts = []
      for a, pt in zip(args, ptypes):
        s, t = self.expr(a, env, pt if pt in (F, I) else None)
        if t == I and pt == F:
          s, t = f"(Scalar.ofInt {s} : K)", F
        if t != pt:
          self.err(node, f"argument type {t} for parameter type {pt} in call to {fn}")
        parts.append(s)
      k = tmod.key(tname, spec)
      for (en, et) in tmod.extras.get(k, []):
        if en == "fuel":
          self.needs_fuel = True
          parts.append("fuel")
        elif "_shape" in en:
          pn, dim = en.rsplit("_shape", 1)
          cal_params = [tmod.lname(x) for x in tmod.pnames[k]]
          if pn not in cal_params:
            self.err(node, f"cannot bind extra parameter {en} of {fn}")
          actual = args[cal_params.index(pn)]
          if not isinstance(actual, ast.Name):
            self.err(node, f"shape of non-name argument for {en}")
          root, prefix = self.alias.get(actual.id, (actual.id, []))
          nm = f"{self.mod.lname(root)}_shape{int(dim) + len(prefix)}"
          if root not in self.arr_params:
            self.err(node, f"shape of non-parameter array {root}")
          if (nm, "Int") not in self.extra_params:
            self.extra_params.append((nm, "Int"))
          parts.append(nm)
        else:
          self.err(node, f"callee {fn} needs extra parameter {en}")
      call = "(" + tmod.qualified(k) + " (K := K) " + " ".join(parts) + ")"
      if tmod.kinds.get(k) == "wfunc":
        # rename the callee's array parameter names in its write records to the caller's arrays
        ren = []
        for a, pn, pt in zip(args, tmod.pnames[k], ptypes):
          if isinstance(pt, tuple) and pt[0] == "arr" and isinstance(a, ast.Name):
            root, prefix = self.alias.get(a.id, (a.id, []))
            if prefix:
              self.err(node, f"view passed to a writing function {fn}")
            ren.append(f'("{pn}", "{root}")')
        rn = "[" + ", ".join(ren) + "]"
        self.writes = True
        for a, pn in zip(args, tmod.pnames[k]):
          if isinstance(a, ast.Name) and pn.endswith("_out"):
            self.written_now.add(self.alias.get(a.id, (a.id, []))[0])
        if rtype == "WS":
          call = f"(Write.renameAll {rn} {call})"
        else:
          call = f"(let r := {call}; (r.1, Write.renameAll {rn} r.2))"
      return call, rtype
    self.err(node, f"call {fn}")

  # ---- statements ----------------------------------------------------------------------------
  @staticmethod
  def contains_return(stmts) -> bool:
    """a `return` anywhere, or a `continue`/`break` that belongs to an enclosing loop"""
    def walk(nodes, in_loop):
      for n in nodes:
        if isinstance(n, ast.Return):
          return True
        if isinstance(n, (ast.Continue, ast.Break)) and not in_loop:
          return True
        if isinstance(n, (ast.For, ast.While)):
          if walk(n.body, True) or walk(n.orelse, in_loop):
            return True
        elif isinstance(n, ast.If):
          if walk(n.body, in_loop) or walk(n.orelse, in_loop):
            return True
    return bool(walk(stmts, False))

  @staticmethod
  def has_real_return(stmts) -> bool:
    return any(isinstance(n, ast.Return) for s in stmts for n in ast.walk(s))

  def is_array_target(self, t, env) -> bool:
    return isinstance(t, ast.Subscript) and isinstance(t.value, ast.Name) and (
      t.value.id in self.alias or (isinstance(env.types.get(t.value.id), tuple) and env.types.get(t.value.id)[0] == "arr"))

  def assigned_names(self, stmts, env=None) -> List[str]:
    out = []

    def add(n):
      if n not in out and n != "_":
        out.append(n)

    def tgt(t):
      if isinstance(t, ast.Name):
        add(t.id)
      elif isinstance(t, (ast.Tuple, ast.List)):
        for e in t.elts:
          tgt(e)
      elif isinstance(t, ast.Subscript):
        if env is not None and self.is_array_target(t, env):
          add("ws")
        else:
          tgt(t.value)

    for s in stmts:
      for n in ast.walk(s):
        if isinstance(n, ast.Assign):
          for t in n.targets:
            tgt(t)
        elif isinstance(n, (ast.AugAssign, ast.AnnAssign)):
          tgt(n.target)
        elif isinstance(n, ast.Call):
          fn = ast.unparse(n.func)
          if fn.startswith("wp.atomic_"):
            add("ws")
          else:
            tg = self.mod.resolve_func(fn)
            if tg is not None and tg[0].func_writes(tg[1]):
              add("ws")
    return out

  def state_tuple(self, names, e: Env, override=None):
    parts = []
    for n, t in names:
      if override and n in override:
        parts.append(override[n])
      elif n in e.types:
        parts.append(f"({e.consts[n]} : Int)" if n in e.consts else self.mod.lname(n))
      else:
        parts.append(zero_of(t))
    return parts[0] if len(parts) == 1 else "(" + ", ".join(parts) + ")"

  def stmts(self, stmts: List[ast.stmt], env: Env, tail=None, depth=0) -> str:
    """Translate a statement list to a Lean expression. `tail` is the expression to use when the list
    falls off its end (used for if-merging / loop bodies); None means a return is required."""
    ind = "  "
    if not stmts:
      if tail is None:
        raise Unsupported(f"{self.mod.pyname}.{self.name}: control reaches end without return")
      return tail(env) if callable(tail) else tail
    s, rest = stmts[0], stmts[1:]
    if isinstance(s, ast.Expr) and isinstance(s.value, ast.Constant):
      return self.stmts(rest, env, tail, depth)  # docstring
    if isinstance(s, ast.Pass):
      return self.stmts(rest, env, tail, depth)
    if isinstance(s, ast.Continue):
      if not self.loop_stack:
        self.err(s, "continue outside loop")
      return self.loop_stack[-1](env, False, ret=None)
    if isinstance(s, ast.Break):
      if not self.loop_stack:
        self.err(s, "break outside loop")
      return self.loop_stack[-1](env, True, ret=None)
    if isinstance(s, ast.Return) and self.loop_stack:
      if s.value is None:
        return self.loop_stack[-1](env, True, ret="ws")
      e, t = self.expr(s.value, env, self.ret_type if self.ret_type in (F, I) else None)
      if self.ret_type is None or isinstance(self.ret_type, tuple) or t != self.ret_type:
        self.err(s, "return of a non-scalar / untyped value inside a dynamic loop")
      return self.loop_stack[-1](env, True, ret=e)
    if isinstance(s, ast.Return):
      if s.value is None:
        if self.ret_type in (None, "WS") and (self.kernel or self.writes):
          self.ret_type = "WS"
          return "ws"
        self.err(s, "bare return")
      e, t = self.expr(s.value, env, self.ret_type if self.ret_type in (F, I) else None)
      if isinstance(self.ret_type, tuple) and self.ret_type[0] == "tuple" and isinstance(s.value, ast.Tuple):
        parts = []
        for el, pt in zip(s.value.elts, self.ret_type[1]):
          se, st = self.expr(el, env, pt if pt in (F, I) else None)
          if st != pt:
            self.err(s, f"return element type {st} vs {pt}")
          parts.append(se)
        e, t = "(" + ", ".join(parts) + ")", self.ret_type
      if self.ret_type is None:
        self.ret_type = t
      elif t != self.ret_type:
        if t == I and self.ret_type == F:
          e = f"(Scalar.ofInt {e} : K)"
        else:
          self.err(s, f"return type {t} vs declared {self.ret_type}")
      if self.writes and not self.kernel:
        return f"({e}, ws)"
      return e
    if isinstance(s, (ast.Assign, ast.AnnAssign, ast.AugAssign)):
      binds = self.assign(s, env)
      body = self.stmts(rest, env, tail, depth)
      return "\n".join(binds + [body]) if binds else body
    if isinstance(s, ast.Expr) and isinstance(s.value, ast.Call):
      binds = self.call_stmt(s.value, env)
      body = self.stmts(rest, env, tail, depth)
      return "\n".join(binds + [body]) if binds else body
    if isinstance(s, ast.If):
      # statically decidable conditions (wp.static / constants) are folded
      if isinstance(s.test, ast.Call) and ast.unparse(s.test.func) == "wp.static":
        v = self.py_eval(s.test.args[0], env)
        if isinstance(v, bool):
          return self.stmts((list(s.body) if v else list(s.orelse)) + rest, env, tail, depth)
      names = {n.id for n in ast.walk(s.test) if isinstance(n, ast.Name)}
      if names and all(n in env.consts for n in names if n in env.types) and not any(isinstance(n, ast.Call) for n in ast.walk(s.test)):
        v = self.py_eval(s.test, env)
        if isinstance(v, (bool, int)) and any(n in env.consts for n in names):
          return self.stmts((list(s.body) if v else list(s.orelse)) + rest, env, tail, depth)
      c, ct = self.expr(s.test, env, "COND")
      c = self.as_bool(c, ct, s)
      if self.contains_return(s.body) or self.contains_return(s.orelse):
        saved_w = set(self.written_now)
        e1 = self.stmts(list(s.body) + rest, env.copy(), tail, depth + 1)
        w1 = set(self.written_now)
        self.written_now = set(saved_w)
        e2 = self.stmts(list(s.orelse) + rest, env.copy(), tail, depth + 1)
        self.written_now |= w1
        return f"if {c} then\n{textwrap.indent(e1, ind)}\nelse\n{textwrap.indent(e2, ind)}"
      names = self.assigned_names(list(s.body) + list(s.orelse), env)
      env1, env2 = env.copy(), env.copy()
      saved_w = set(self.written_now)
      b1 = self.stmts(list(s.body), env1, tail=lambda e: "⟪TUPLE⟫", depth=depth + 1)
      w1 = set(self.written_now)
      self.written_now = set(saved_w)
      b2 = self.stmts(list(s.orelse), env2, tail=lambda e: "⟪TUPLE⟫", depth=depth + 1)
      self.written_now |= w1
      merged = []
      for n in names:
        t = env1.types.get(n) or env2.types.get(n)
        t0 = env.types.get(n)
        if t is None:
          continue
        if t0 is not None and t0 != t:
          self.err(s, f"variable {n} changes type {t0} -> {t}")
        if n in env1.types and n in env2.types and env1.types[n] != env2.types[n]:
          self.err(s, f"variable {n} has different types in branches")
        if isinstance(t, tuple) and t[0] == "arr":
          # a view bound in a branch: keep it local to the branch
          continue
        merged.append((n, t))
      if not merged:
        return self.stmts(rest, env, tail, depth)
      b1 = b1.replace("⟪TUPLE⟫", self.state_tuple(merged, env1))
      b2 = b2.replace("⟪TUPLE⟫", self.state_tuple(merged, env2))
      for n, t in merged:
        env.types[n] = t
        env.consts.pop(n, None)
      pat = self.mod.lname(merged[0][0]) if len(merged) == 1 else "(" + ", ".join(self.mod.lname(n) for n, _ in merged) + ")"
      body = self.stmts(rest, env, tail, depth)
      return f"let {pat} :=\n  if {c} then\n{textwrap.indent(b1, ind * 2)}\n  else\n{textwrap.indent(b2, ind * 2)}\n{body}"
    if isinstance(s, ast.For):
      it = s.iter
      if not (isinstance(it, ast.Call) and ast.unparse(it.func) == "range" and isinstance(s.target, ast.Name)):
        self.err(s, "for loop not over range")
      bounds = [self.const_int(a, env) for a in it.args]
      has_jump = any(isinstance(n, (ast.Break, ast.Continue)) for n in ast.walk(s))
      if all(b is not None for b in bounds) and len(range(*bounds)) <= 64 and not has_jump:
        unrolled: List[ast.stmt] = []
        var = s.target.id
        for v in range(*bounds):
          marker = ast.Assign(targets=[ast.Name(id=var, ctx=ast.Store())], value=ast.Constant(value=v), lineno=s.lineno)
          marker._loopconst = True
          unrolled.append(marker)
          unrolled.extend(s.body)
        return self.stmts(unrolled + rest, env, tail, depth)
      return self.dyn_loop(s, rest, env, tail, depth, is_while=False)
    if isinstance(s, ast.While):
      return self.dyn_loop(s, rest, env, tail, depth, is_while=True)
    if isinstance(s, ast.Expr):
      self.err(s, f"expression statement {ast.unparse(s)[:50]}")
    self.err(s, f"statement {type(s).__name__}")

  def dyn_loop(self, s, rest, env: Env, tail, depth, is_while):
    ind = "  "
    has_ret = self.has_real_return(s.body)
    # writes anywhere in the loop body may precede (in an earlier iteration) any read in it
    for n in ast.walk(s):
      tg = None
      if isinstance(n, (ast.Assign, ast.AugAssign)):
        for t in (n.targets if isinstance(n, ast.Assign) else [n.target]):
          if isinstance(t, ast.Subscript) and isinstance(t.value, ast.Name):
            self.written_now.add(self.alias.get(t.value.id, (t.value.id, []))[0])
      elif isinstance(n, ast.Call) and ast.unparse(n.func).startswith("wp.atomic_") and n.args:
        a0 = n.args[0].value if isinstance(n.args[0], ast.Subscript) else n.args[0]
        if isinstance(a0, ast.Name):
          self.written_now.add(self.alias.get(a0.id, (a0.id, []))[0])
    if s.orelse:
      self.err(s, "loop else")
    has_break = False
    def find_break(nodes):
      nonlocal has_break
      for n in nodes:
        if isinstance(n, ast.Break):
          has_break = True
        elif isinstance(n, ast.If):
          find_break(n.body); find_break(n.orelse)
    find_break(s.body)
    has_break = has_break or has_ret
    assigned = self.assigned_names(s.body, env)
    state = [(n, env.types[n]) for n in assigned if n in env.types and not (isinstance(env.types[n], tuple) and env.types[n][0] == "arr")]
    self.fresh += 1
    brk = f"brk_{self.fresh}"
    if has_break:
      state.append((brk, B))
      env.types[brk] = B
    rv_t = None
    if has_ret:
      if "retf" not in env.types:
        env.types["retf"] = B
        self.retf_init = True
      if not any(n == "retf" for n, _ in state):
        state.append(("retf", B))
      if not (self.kernel or self.ret_type == "WS" or (self.writes and self.ret_type is None)):
        rv_t = self.ret_type
        if rv_t is None or isinstance(rv_t, tuple):
          self.err(s, "return of an untyped/tuple value inside a dynamic loop")
        if "rv" not in env.types:
          env.types["rv"] = rv_t
          self.rv_init = rv_t
        if not any(n == "rv" for n, _ in state):
          state.append(("rv", rv_t))
    if not state:
      return self.stmts(rest, env, tail, depth)
    for n, _ in state:
      env.consts.pop(n, None)
    st_type = lean_type(state[0][1]) if len(state) == 1 else "(" + " × ".join(lean_type(t) for _, t in state) + ")"
    pat = self.mod.lname(state[0][0]) if len(state) == 1 else "(" + ", ".join(self.mod.lname(n) for n, _ in state) + ")"
    init = self.state_tuple(state, env, {brk: "false"} if has_break else None)

    def loop_tail(e, is_break, ret=None):
      ov = {}
      if is_break and has_break:
        ov[brk] = "true"
      if ret is not None:
        ov["retf"] = "true"
        if ret != "ws":
          ov["rv"] = ret
      return self.state_tuple(state, e, ov or None)

    env_b = env.copy()
    if not is_while:
      var = s.target.id
      env_b.types[var] = I
      env_b.consts.pop(var, None)
      args = list(s.iter.args)
      if len(args) == 1:
        lo, hi = "(0 : Int)", self.int_expr(args[0], env)
      elif len(args) == 2:
        lo, hi = self.int_expr(args[0], env), self.int_expr(args[1], env)
      else:
        lo, hi = self.int_expr(args[0], env), self.int_expr(args[1], env) + " " + self.int_expr(args[2], env)
      step_loop = len(args) == 3
    self.loop_stack.append(loop_tail)
    try:
      body = self.stmts(list(s.body), env_b, tail=lambda e: loop_tail(e, False, None), depth=depth + 1)
    finally:
      self.loop_stack.pop()
    for n, t in state:
      if env_b.types.get(n) != t:
        self.err(s, f"loop state variable {n} changes type")
    if is_while:
      env_c = env.copy()
      c, ct = self.expr(s.test, env_c)
      c = self.as_bool(c, ct, s)
      if has_break:
        c = f"((!{brk}) && {c})"
      self.needs_fuel = True
      loop = (f"Mjw.whileFuel fuel (fun (st : {st_type}) =>\n    let {pat} := st\n    {c}) (fun (st : {st_type}) =>\n    let {pat} := st\n"
              f"{textwrap.indent(body, ind * 2)}) {init}")
    else:
      if has_break:
        body = f"if {brk} then st else\n{body}"
      loop = (f"Mjw.{'forRangeStep' if step_loop else 'forRange'} {lo} {hi} {init} (fun ({self.mod.lname(s.target.id)} : Int) (st : {st_type}) =>\n    let {pat} := st\n"
              f"{textwrap.indent(body, ind * 2)})")
    cont = self.stmts(rest, env, tail, depth)
    if has_ret:
      if self.loop_stack:
        out_ret = self.loop_stack[-1](env, True, ret=("rv" if rv_t is not None else "ws"))
      elif rv_t is not None:
        out_ret = "(rv, ws)" if (self.writes and not self.kernel) else "rv"
      else:
        out_ret = "ws"
      cont = f"if retf then {out_ret} else\n{cont}"
    return f"let {pat} := {loop}\n{cont}"

  def scan_written(self):
    """array parameters (roots) this function writes or atomically updates, flow-insensitively"""
    views = {n: n for n in self.arr_params}
    out = set()
    changed = True
    while changed:
      changed = False
      for n in ast.walk(self.fn):
        if isinstance(n, ast.Assign) and len(n.targets) == 1 and isinstance(n.targets[0], ast.Name):
          v = n.value
          src = None
          if isinstance(v, ast.Subscript) and isinstance(v.value, ast.Name) and v.value.id in views:
            src = views[v.value.id]
          elif isinstance(v, ast.Name) and v.id in views:
            src = views[v.id]
          if src is not None and n.targets[0].id not in views:
            views[n.targets[0].id] = src
            changed = True
    for n in ast.walk(self.fn):
      if isinstance(n, (ast.Assign, ast.AugAssign)):
        tgts = n.targets if isinstance(n, ast.Assign) else [n.target]
        for t in tgts:
          if isinstance(t, ast.Subscript) and isinstance(t.value, ast.Name) and t.value.id in views:
            out.add(views[t.value.id])
      elif isinstance(n, ast.Call) and ast.unparse(n.func).startswith("wp.atomic_") and n.args:
        a0 = n.args[0]
        if isinstance(a0, ast.Subscript):
          a0 = a0.value
        if isinstance(a0, ast.Name) and a0.id in views:
          out.add(views[a0.id])
      elif isinstance(n, ast.Call):
        tg = self.mod.resolve_func(ast.unparse(n.func))
        if tg is not None and tg[0].func_writes(tg[1]):
          # arrays handed to a writing callee: its output parameters (by the repo's `_out` naming) count as written here
          callee = tg[0].funcs.get(tg[1])
          pn = [p.arg for p in callee.args.args] if callee is not None else []
          for a, p in zip(n.args, pn):
            if isinstance(a, ast.Name) and a.id in views and p.endswith("_out"):
              out.add(views[a.id])
    return out

  def write_val(self, e, t, node):
    if t == F:
      return f"(WVal.f {e})"
    if t == I:
      return f"(WVal.i {e})"
    if t == B:
      return f"(WVal.b {e})"
    if t in VEC or t in MAT:
      return f"(WVal.v ({t}.toList {e}))"
    if t in IVEC:
      return f"(WVal.iv ({t}.toList {e}))"
    self.err(node, f"write of value type {t}")

  def array_target(self, target, env):
    """-> (root array name, [index exprs], element type)"""
    nm = target.value.id
    idx = target.slice
    idxs = list(idx.elts) if isinstance(idx, ast.Tuple) else [idx]
    t = env.types.get(nm)
    root, prefix = self.alias.get(nm, (nm, []))
    if not (isinstance(t, tuple) and t[0] == "arr"):
      self.err(target, f"write target {nm} is not an array")
    if len(idxs) != t[2]:
      self.err(target, f"write with {len(idxs)} indices into {t[2]}-d array/view")
    return root, prefix + [self.int_expr(i, env) for i in idxs], t[1]

  def emit_write(self, root, idxs, val, kind, env):
    self.writes = True
    self.written_now.add(root)
    env.types["ws"] = "WS"
    return f"let ws : List (Write K) := ws ++ [(Write.mk \"{root}\" [{', '.join(idxs)}] {val} WKind.{kind} : Write K)]"

  def call_stmt(self, call, env: Env) -> List[str]:
    fn = ast.unparse(call.func)
    if fn.startswith("wp.atomic_"):
      return [self.atomic(call, env, None)]
    tg = self.mod.resolve_func(fn)
    if tg is not None and tg[0].func_writes(tg[1]):
      e, t = self.expr(call, env)
      return [f"let ws : List (Write K) := ws ++ ({e})" if t == "WS" else f"let ws : List (Write K) := ws ++ ({e}).2"]
    if fn in ("wp.printf", "print", "wp.print"):
      return []
    self.err(call, f"call statement {fn}")

  def atomic(self, call, env: Env, result_name):
    fn = ast.unparse(call.func)
    kind = fn.split("_", 1)[1]
    if kind not in ("add", "sub", "min", "max", "or", "and"):
      self.err(call, fn)
    arr = call.args[0]
    extra_prefix = []
    if isinstance(arr, ast.Subscript) and isinstance(arr.value, ast.Name):
      ix = arr.slice
      extra_prefix = list(ix.elts) if isinstance(ix, ast.Tuple) else [ix]
      arr = arr.value
    if not isinstance(arr, ast.Name):
      self.err(call, "atomic on non-name")
    t = env.types.get(arr.id)
    if not (isinstance(t, tuple) and t[0] == "arr"):
      self.err(call, "atomic on non-array")
    root, prefix = self.alias.get(arr.id, (arr.id, []))
    idxs = prefix + [self.int_expr(a, env) for a in extra_prefix] + [self.int_expr(a, env) for a in call.args[1:-1]]
    if len(idxs) != t[2] + len(prefix):
      self.err(call, "atomic index arity")
    v, tv = self.expr(call.args[-1], env, t[1] if t[1] in (F, I) else None)
    if tv != t[1]:
      self.err(call, f"atomic value type {tv} vs {t[1]}")
    return self.emit_write(root, idxs, self.write_val(v, tv, call), "a" + kind, env)

  def assign(self, s, env: Env) -> List[str]:
    if isinstance(s, ast.AugAssign):
      value = ast.BinOp(left=self.load_of(s.target), op=s.op, right=s.value)
      ast.copy_location(value, s)
      ast.fix_missing_locations(value)
      return self.assign_to(s.target, value, env, s)
    if isinstance(s, ast.AnnAssign):
      if s.value is None:
        self.err(s, "annotation without value")
      return self.assign_to(s.target, s.value, env, s)
    if len(s.targets) != 1:
      self.err(s, "chained assignment")
    if getattr(s, "_loopconst", False):
      env.consts[s.targets[0].id] = s.value.value
      env.types[s.targets[0].id] = I
      return []
    return self.assign_to(s.targets[0], s.value, env, s)

  @staticmethod
  def load_of(t):
    import copy
    t2 = copy.deepcopy(t)
    for n in ast.walk(t2):
      if hasattr(n, "ctx"):
        n.ctx = ast.Load()
    return t2

  def assign_to(self, target, value, env: Env, s) -> List[str]:
    if isinstance(value, ast.Call) and ast.unparse(value.func) == "wp.tid":
      if not self.kernel:
        self.err(s, "wp.tid() outside a kernel")
      tg = [target] if isinstance(target, ast.Name) else list(target.elts)
      out = []
      for k, tname in enumerate(tg):
        env.types[tname.id] = I
        env.consts.pop(tname.id, None)
        out.append(f"let {self.mod.lname(tname.id)} : Int := tid{k}")
      self.ntid = max(getattr(self, "ntid", 0), len(tg))
      return out
    if isinstance(target, ast.Name) and isinstance(value, ast.Call) and ast.unparse(value.func).startswith("wp.atomic_"):
      # allocation: the value returned by the atomic is an input of the thread (supplied by the launch-level model)
      if self.loop_stack:
        self.err(s, "atomic with used result inside a dynamic loop")
      self.fresh += 1
      an = f"alloc{len([1 for n, _ in self.extra_params if n.startswith('alloc')])}"
      arr = value.args[0]
      if isinstance(arr, ast.Subscript) and isinstance(arr.value, ast.Name):
        arr = arr.value
      t = env.types.get(arr.id) if isinstance(arr, ast.Name) else None
      if not (isinstance(t, tuple) and t[0] == "arr"):
        self.err(s, "atomic on non-array")
      self.extra_params.append((an, lean_type(t[1])))
      w = self.atomic(value, env, an)
      w = w.replace("WKind.aadd", "WKind.alloc")
      import re as _re
      mm = _re.search(r'Write\.mk "([^"]+)"', w)
      self.alloc_sites.append([an, mm.group(1) if mm else ""])
      env.types[target.id] = t[1]
      env.consts.pop(target.id, None)
      return [w, f"let {self.mod.lname(target.id)} : {lean_type(t[1])} := {an}"]
    if isinstance(target, ast.Subscript) and self.is_array_target(target, env):
      root, idxs, et = self.array_target(target, env)
      e, te = self.expr(value, env, et if et in (F, I) else None)
      if te == I and et == F:
        e, te = f"(Scalar.ofInt {e} : K)", F
      if te != et:
        self.err(s, f"write of {te} into array of {et}")
      return [self.emit_write(root, idxs, self.write_val(e, te, s), "set", env)]
    if isinstance(target, ast.Name):
      want = env.types.get(target.id)
      if want in (None, I) and not self.loop_stack:
        c = self.const_int(value, env)
        if c is not None and not isinstance(value, ast.Constant) or (c is not None and want == I):
          pass
        if c is not None and not (isinstance(value, ast.Call) and ast.unparse(value.func) in ("int", "wp.int32") and isinstance(value.args[0], ast.Constant)):
          # a compile-time integer (loop-unrolled index arithmetic, enum members): keep it symbolic-free
          env.types[target.id] = I
          env.consts[target.id] = c
          return [f"let {self.mod.lname(target.id)} : Int := ({c} : Int)"]
      e, t = self.expr(value, env, want if want in (F, I) else None)
      if want is not None and want != t:
        if want == F and t == I:
          e, t = f"(Scalar.ofInt {e} : K)", F
        else:
          self.err(s, f"variable {target.id} changes type {want} -> {t}")
      env.types[target.id] = t
      env.consts.pop(target.id, None)
      if isinstance(t, tuple) and t[0] == "arr":
        # a view of an array (row); remember what it aliases so that writes through it are attributed
        v = value
        if isinstance(v, ast.Subscript) and isinstance(v.value, ast.Name):
          root, prefix = self.alias.get(v.value.id, (v.value.id, []))
          ix = v.slice
          ixs = list(ix.elts) if isinstance(ix, ast.Tuple) else [ix]
          self.alias[target.id] = (root, prefix + [self.int_expr(i, env) for i in ixs])
        elif isinstance(v, ast.Name):
          self.alias[target.id] = self.alias.get(v.id, (v.id, []))
        else:
          self.err(s, "array-valued expression")
      return [f"let {self.mod.lname(target.id)} : {lean_type(t)} := {e}"]
    if isinstance(target, (ast.Tuple, ast.List)):
      if isinstance(value, ast.Tuple) and len(value.elts) == len(target.elts):
        # simultaneous assignment: evaluate all RHS first
        tmp, out = [], []
        for i, (tg, v) in enumerate(zip(target.elts, value.elts)):
          e, t = self.expr(v, env)
          self.fresh += 1
          nm = f"tmp_{self.fresh}"
          out.append(f"let {nm} : {lean_type(t)} := {e}")
          tmp.append((tg, nm, t))
        for tg, nm, t in tmp:
          if not isinstance(tg, ast.Name):
            self.err(s, "nested tuple target")
          env.types[tg.id] = t
          env.consts.pop(tg.id, None)
          out.append(f"let {self.mod.lname(tg.id)} : {lean_type(t)} := {nm}")
        return out
      e, t = self.expr(value, env)
      if not (isinstance(t, tuple) and t[0] == "tuple" and len(t[1]) == len(target.elts)):
        self.err(s, f"tuple unpack of {t}")
      names = []
      for tg, tt in zip(target.elts, t[1]):
        if not isinstance(tg, ast.Name):
          self.err(s, "nested tuple target")
        if tg.id == "_":
          names.append("_")
          continue
        env.types[tg.id] = tt
        env.consts.pop(tg.id, None)
        names.append(self.mod.lname(tg.id))
      return [f"let ({', '.join(names)}) := {e}"]
    if isinstance(target, ast.Subscript) and isinstance(target.value, ast.Name):
      nm = target.value.id
      t = env.types.get(nm)
      idx = target.slice
      idxs = list(idx.elts) if isinstance(idx, ast.Tuple) else [idx]
      e, te = self.expr(value, env, F)
      ln = self.mod.lname(nm)
      if t in VEC and len(idxs) == 1 and te == F:
        c = self.const_int(idxs[0], env)
        if c is not None:
          return [f"let {ln} : {lean_type(t)} := {{ {ln} with c{c} := {e} }}"]
        i = self.int_expr(idxs[0], env)
        return [f"let {ln} : {lean_type(t)} := {t}.set {ln} {i} {e}"]
      if t in IVEC and len(idxs) == 1:
        e, te = self.expr(value, env, I)
        c = self.const_int(idxs[0], env)
        if te == I and c is not None:
          return [f"let {ln} : {t} := {{ {ln} with c{c} := {e} }}"]
        if te == I:
          return [f"let {ln} : {t} := {t}.set {ln} {self.int_expr(idxs[0], env)} {e}"]
      if t in MAT and len(idxs) == 2 and te == F:
        ci, cj = self.const_int(idxs[0], env), self.const_int(idxs[1], env)
        if ci is not None and cj is not None:
          return [f"let {ln} : {lean_type(t)} := {{ {ln} with m{ci}{cj} := {e} }}"]
      self.err(s, f"subscript assignment to {t}")
    self.err(s, "assignment target")

  # ---- whole function ------------------------------------------------------------------------
  def param_types(self):
    out = []
    a = self.fn.args
    if a.vararg or a.kwarg or a.kwonlyargs:
      self.err(self.fn, "varargs")
    for i, p in enumerate(a.args):
      if p.annotation is None:
        self.err(self.fn, f"parameter {p.arg} without annotation")
      if ast.unparse(p.annotation) == "Any":
        if self.spec is None:
          self.err(self.fn, "generic function without specialisation")
        out.append((p.arg, self.spec[i]))
      else:
        out.append((p.arg, ann_type(p.annotation)))
    return out

  def translate(self) -> Tuple[str, list, object]:
    params = self.param_types()
    if self.fn.returns is not None and ast.unparse(self.fn.returns) not in ("None", "Any"):
      self.ret_type = ann_type(self.fn.returns)
    env = Env({n: t for n, t in params}, {})
    self.arr_params = {n: t for n, t in params if isinstance(t, tuple) and t[0] == "arr"}
    self.written_arrays = self.scan_written()
    self.writes = self.kernel or self.mod.func_writes(self.name)
    if self.writes:
      env.types["ws"] = "WS"
    if self.kernel:
      self.ret_type = "WS"
      body = self.stmts(list(self.fn.body), env, tail=lambda e: "ws")
    elif self.writes and self.ret_type is None:
      body = self.stmts(list(self.fn.body), env, tail=lambda e: "ws")
      if self.ret_type is None:
        self.ret_type = "WS"
    else:
      body = self.stmts(list(self.fn.body), env)
    if self.ret_type is None:
      self.err(self.fn, "no return type")
    rt = self.ret_type
    if self.writes and not self.kernel and rt != "WS":
      rt = ("tuple", (rt, "WS"))
    if getattr(self, "retf_init", False):
      body = "let retf : Bool := false\n" + body
      if "rv" in env.types or True:
        pass
    if self.rv_init is not None:
      body = f"let rv : {lean_type(self.rv_init)} := {zero_of(self.rv_init)}\n" + body
    if self.writes:
      body = "let ws : List (Write K) := []\n" + body
    sig = " ".join(f"({self.mod.lname(n)} : {lean_type(t)})" for n, t in params)
    extra = list(self.extra_params)
    if self.needs_fuel:
      extra.append(("fuel", "Nat"))
    if self.kernel:
      extra += [(f"tid{k}", "Int") for k in range(getattr(self, "ntid", 0))]
    sig += " " + " ".join(f"({n} : {t})" for n, t in extra)
    lname = self.mod.lname(self.mod.key(self.name, self.spec))
    src = f"def {lname} {{K : Type}} [Scalar K] {sig} : {lean_type(rt)} :=\n{textwrap.indent(body, '  ')}\n"
    self.extra_out = extra
    self.param_names = [n for n, _ in params]
    return src, [t for _, t in params], rt


_LEAN_KEYWORDS = {"at", "from", "in", "end", "do", "then", "else", "if", "let", "have", "show", "fun", "match", "with", "open", "local", "prefix",
                  "infix", "notation", "section", "namespace", "variable", "def", "theorem", "example", "structure", "class", "instance", "where",
                  "by", "mut", "for", "return", "Type", "Prop", "Sort", "axis", "abs", "max", "min", "K", "V2", "V3", "V4", "V5", "V6", "V10", "Q",
                  "M22", "M33", "Int", "Bool", "Nat", "Scalar", "Mjw", "List", "some", "none", "true", "false", "id", "fun", "this", "using", "extends",
                  "instance", "deriving", "macro", "syntax", "universe", "mutual", "private", "protected", "partial", "noncomputable", "unsafe"}


class ModuleTranslator:
  def __init__(self, pyname: str, registry: "Registry"):
    self.pyname = pyname  # e.g. "math"
    self.registry = registry
    self.path = os.path.join(REPO, "mujoco_warp", "_src", pyname + ".py")
    self.source = open(self.path).read()
    self.tree = ast.parse(self.source)
    self.funcs: Dict[str, ast.FunctionDef] = {}
    self.nested = set()

    def collect(body, prefix):
      for n in body:
        if isinstance(n, ast.FunctionDef):
          nm = prefix + n.name
          self.funcs[nm] = n
          if prefix:
            self.nested.add(nm)
          collect(n.body, nm + ".")
        elif isinstance(n, (ast.If, ast.With, ast.Try)):
          collect(getattr(n, "body", []), prefix)
          collect(getattr(n, "orelse", []), prefix)

    collect(self.tree.body, "")
    self._writes_cache = {}
    self.module = importlib.import_module(f"mujoco_warp._src.{pyname}")
    self.globals = dict(vars(self.module))
    self.sigs: Dict[str, Tuple[list, object]] = {}
    self.pynames: Dict[str, str] = {}
    self.extras: Dict[str, list] = {}
    self.statics: Dict[str, dict] = {}
    self.allocsites: Dict[str, list] = {}
    self.kinds: Dict[str, str] = {}
    self.pnames: Dict[str, list] = {}
    self.out: Dict[str, str] = {}
    self.errors: Dict[str, str] = {}
    self.in_progress = set()
    # import aliases: name -> module pyname
    self.aliases = {}
    for n in self.tree.body:
      if isinstance(n, ast.ImportFrom) and n.module and n.module.startswith("mujoco_warp._src"):
        for a in n.names:
          if n.module == "mujoco_warp._src":
            self.aliases[a.asname or a.name] = ("mod", a.name)
          else:
            self.aliases[a.asname or a.name] = ("sym", n.module.split(".")[-1], a.name)

  def lean_ns(self):
    return "Mjw.Gen." + self.pyname.capitalize()

  def lname(self, n: str) -> str:
    if n in _LEAN_KEYWORDS:
      return n + "'"
    return n

  def qualified(self, fname):
    return f"{self.lean_ns()}.{self.lname(fname)}"

  def resolve_func(self, call_name: str):
    parts = call_name.split(".")
    if len(parts) == 1:
      if parts[0] in self.funcs and self.is_wp_func(self.funcs[parts[0]]):
        return (self, parts[0])
      al = self.aliases.get(parts[0])
      if al and al[0] == "sym":
        m = self.registry.module(al[1])
        if al[2] in m.funcs:
          return (m, al[2])
      return None
    if len(parts) == 2:
      al = self.aliases.get(parts[0])
      if al and al[0] == "mod":
        m = self.registry.module(al[1])
        if parts[1] in m.funcs:
          return (m, parts[1])
    return None

  @staticmethod
  def is_wp_func(fn: ast.FunctionDef) -> bool:
    return any(ast.unparse(d) in ("wp.func", "wp.func_native") for d in fn.decorator_list)

  @staticmethod
  def is_kernel(fn: ast.FunctionDef) -> bool:
    for d in fn.decorator_list:
      u = ast.unparse(d)
      if u == "wp.kernel" or u.startswith("wp.kernel(") or u == "nested_kernel" or u.startswith("nested_kernel("):
        return True
    return False

  def func_writes(self, fname) -> bool:
    """does this function (transitively) write to / atomically update an array parameter?"""
    if fname in self._writes_cache:
      return self._writes_cache[fname]
    self._writes_cache[fname] = False
    fn = self.funcs.get(fname)
    res = False
    if fn is not None:
      arrs = set()
      for p in fn.args.args:
        if p.annotation is not None and "array" in ast.unparse(p.annotation):
          arrs.add(p.arg)
      views = set(arrs)
      for n in ast.walk(fn):
        if isinstance(n, ast.Assign) and len(n.targets) == 1 and isinstance(n.targets[0], ast.Name) and isinstance(n.value, ast.Subscript) \
            and isinstance(n.value.value, ast.Name) and n.value.value.id in views:
          pass
      for n in ast.walk(fn):
        if isinstance(n, (ast.Assign, ast.AugAssign)):
          tgts = n.targets if isinstance(n, ast.Assign) else [n.target]
          for t in tgts:
            if isinstance(t, ast.Subscript) and isinstance(t.value, ast.Name) and (t.value.id in arrs or t.value.id.endswith("_out")):
              res = True
        elif isinstance(n, ast.Call):
          u = ast.unparse(n.func)
          if u.startswith("wp.atomic_"):
            res = True
          else:
            tg = self.resolve_func(u)
            if tg is not None and tg != (self, fname) and tg[0].func_writes(tg[1]):
              res = True
    self._writes_cache[fname] = res
    return res

  def is_generic(self, fname):
    fn = self.funcs.get(fname)
    return fn is not None and any(p.annotation is not None and ast.unparse(p.annotation) == "Any" for p in fn.args.args)

  @staticmethod
  def key(fname, spec):
    fname = fname.replace(".", "__")
    if spec is None:
      return fname
    def tn(t):
      return t if isinstance(t, str) else "T" + "".join(tn(x) for x in t[1]) if t[0] == "tuple" else "A"
    return fname + "_" + "_".join(tn(t) for t in spec)

  def signature(self, fname, spec=None):
    k = self.key(fname, spec)
    if k not in self.sigs and k not in self.errors:
      self.translate_func(fname, spec)
    return self.sigs.get(k)

  def translate_func(self, fname, spec=None):
    k = self.key(fname, spec)
    if k in self.sigs or k in self.errors:
      return
    if k in self.in_progress:
      self.errors[k] = "recursive"
      return
    self.in_progress.add(k)
    try:
      fn = self.funcs.get(fname)
      if fn is None:
        raise Unsupported(f"{self.pyname}.{fname}: no such function")
      ft = FuncTranslator(self, fn, spec)
      ft.name = fname
      ft.kernel = self.is_kernel(fn)
      ft.is_nested = fname in self.nested
      ft.alias_of = dict(self.registry.kernel_aliases.get(f"{self.pyname}.{fname}", {})) if ft.kernel else {}
      src, ptypes, rtype = ft.translate()
      self.extras[k] = ft.extra_out
      self.statics[k] = ft.static_exprs
      self.allocsites[k] = ft.alloc_sites
      self.kinds[k] = "kernel" if ft.kernel else ("wfunc" if ft.writes else "func")
      self.pnames[k] = ft.param_names
      self.sigs[k] = (ptypes, rtype)
      self.pynames[k] = fname
      self.out[k] = src
      self.registry.order.append((self, k))
    except Unsupported as e:
      self.errors[k] = str(e)
    except RecursionError:
      self.errors[k] = f"{self.pyname}.{fname}: translator recursion limit"
    except Exception as e:  # translator bug: report, never crash the run
      self.errors[k] = f"{self.pyname}.{fname}: translator internal error {type(e).__name__}: {e}"
    finally:
      self.in_progress.discard(k)


class Registry:
  def __init__(self, aliases=None):
    self.mods: Dict[str, ModuleTranslator] = {}
    self.order: List[Tuple[ModuleTranslator, str]] = []
    # kernel key "module.name" -> {input param: output param} for parameters bound to the SAME array at some launch
    self.kernel_aliases = aliases or {}

  def module(self, pyname) -> ModuleTranslator:
    if pyname not in self.mods:
      self.mods[pyname] = ModuleTranslator(pyname, self)
    return self.mods[pyname]


def blob_hash(path):
  import hashlib
  data = open(path, "rb").read()
  return hashlib.sha1(b"blob %d\0" % len(data) + data).hexdigest()
