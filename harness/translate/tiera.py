"""E1 tier-A translator: array-free (or read-only-array) `@wp.func`s of /repo -> Lean definitions
generic over `Mjw.Scalar K`.

The translator is part of the trusted base; it is validated on every run by the func-level
differential (harness/corr/func_corr.py) which runs the real Warp function and the generated Lean
definition at Float32 on the same inputs.

Semantics assumed (see DESIGN.md §3): Warp scalar ops are the IEEE ops of the same name; `wp.quat`
is used by this repo as a plain 4-vector with component 0 = w; `wp.normalize` as in warp/native;
Python `range`; locals assigned in one branch only read as 0 elsewhere.
"""

from __future__ import annotations

import ast
import importlib
import os
import sys
import textwrap
from decimal import Decimal
from typing import Dict, List, Optional, Tuple

REPO = os.environ.get("MJW_REPO", "/repo")


class Unsupported(Exception):
  pass


# ---------------------------------------------------------------------------------------------
# types

F, I, B = "F", "I", "B"
VEC = {"V2": 2, "V3": 3, "V4": 4, "V5": 5, "V6": 6, "V10": 10, "Q": 4}
MAT = {"M22": (2, 2, "V2"), "M33": (3, 3, "V3")}


def lean_type(t) -> str:
  if t == F:
    return "K"
  if t == I:
    return "Int"
  if t == B:
    return "Bool"
  if isinstance(t, tuple) and t[0] == "tuple":
    return "(" + " × ".join(lean_type(x) for x in t[1]) + ")"
  if isinstance(t, tuple) and t[0] == "arr":  # read-only array: function of Int indices
    return "(" + " → ".join(["Int"] * t[2] + [lean_type(t[1])]) + ")"
  return f"{t} K"


def zero_of(t) -> str:
  if t == F:
    return "(Scalar.lit 0 0 : K)"
  if t == I:
    return "(0 : Int)"
  if t == B:
    return "false"
  if isinstance(t, tuple) and t[0] == "tuple":
    return "(" + ", ".join(zero_of(x) for x in t[1]) + ")"
  return f"({t}.zero : {t} K)"


_ANN = {
  "float": F, "int": I, "bool": B,
  "wp.float32": F, "wp.int32": I, "wp.bool": B,
  "wp.vec2": "V2", "wp.vec2f": "V2", "wp.vec3": "V3", "wp.vec3f": "V3", "wp.vec4": "V4", "wp.vec4f": "V4",
  "wp.quat": "Q", "wp.quatf": "Q", "wp.mat33": "M33", "wp.mat33f": "M33", "wp.mat22": "M22", "wp.mat22f": "M22",
  "wp.spatial_vector": "V6", "wp.spatial_vectorf": "V6",
  "vec5": "V5", "types.vec5": "V5", "vec6": "V6", "types.vec6": "V6", "vec10": "V10", "types.vec10": "V10",
  "vec10f": "V10", "types.vec10f": "V10",
}


def ann_type(node) -> object:
  s = ast.unparse(node)
  if s in _ANN:
    return _ANN[s]
  if isinstance(node, ast.Subscript) and ast.unparse(node.value) in ("Tuple", "tuple", "typing.Tuple"):
    elts = node.slice.elts if isinstance(node.slice, ast.Tuple) else [node.slice]
    return ("tuple", tuple(ann_type(e) for e in elts))
  if isinstance(node, ast.Subscript) and ast.unparse(node.value) in ("wp.array", "wp.array2d", "wp.array3d", "wp.array4d"):
    nd = {"wp.array": 1, "wp.array2d": 2, "wp.array3d": 3, "wp.array4d": 4}[ast.unparse(node.value)]
    return ("arr", ann_type(node.slice), nd)
  if isinstance(node, ast.Call) and ast.unparse(node.func) in ("wp.array", "wp.array2d", "wp.array3d"):
    nd = {"wp.array": 1, "wp.array2d": 2, "wp.array3d": 3}[ast.unparse(node.func)]
    dt = None
    for kw in node.keywords:
      if kw.arg == "dtype":
        dt = ann_type(kw.value)
      if kw.arg == "ndim":
        nd = int(ast.literal_eval(kw.value))
    if dt is None:
      raise Unsupported(f"array annotation without dtype: {s}")
    return ("arr", dt, nd)
  raise Unsupported(f"type annotation {s}")


def float_lit(x: float) -> str:
  if x != x or x in (float("inf"), float("-inf")):
    raise Unsupported(f"non-finite literal {x}")
  d = Decimal(repr(float(x)))
  sign, digits, exp = d.as_tuple()
  m = int("".join(map(str, digits)))
  while m != 0 and m % 10 == 0:
    m //= 10
    exp += 1
  if m == 0:
    exp = 0
  if sign:
    m = -m
  ms = f"({m})" if m < 0 else str(m)
  es = f"({exp})" if exp < 0 else str(exp)
  return f"(Scalar.lit {ms} {es} : K)"


# ---------------------------------------------------------------------------------------------


class Env:
  def __init__(self, types: Dict[str, object], consts: Dict[str, int]):
    self.types = types
    self.consts = consts

  def copy(self):
    return Env(dict(self.types), dict(self.consts))


class FuncTranslator:
  def __init__(self, mod: "ModuleTranslator", fn: ast.FunctionDef, spec=None):
    self.mod = mod
    self.fn = fn
    self.spec = spec
    self.name = fn.name
    self.ret_type = None
    self.fresh = 0

  def err(self, node, msg):
    raise Unsupported(f"{self.mod.pyname}.{self.name}:{getattr(node, 'lineno', '?')}: {msg}")

  # ---- constants -----------------------------------------------------------------------------
  def py_eval(self, node, env: Env):
    """Evaluate a Python expression at translation time in the module's globals (for constants)."""
    src = ast.unparse(node)
    try:
      return eval(src, self.mod.globals, dict(env.consts))
    except Exception as e:  # noqa
      return None

  def const_int(self, node, env: Env) -> Optional[int]:
    if isinstance(node, ast.Constant) and isinstance(node.value, int) and not isinstance(node.value, bool):
      return node.value
    if isinstance(node, ast.Name) and node.id in env.consts:
      return env.consts[node.id]
    if isinstance(node, ast.Name) and node.id in env.types:
      return None
    names = {n.id for n in ast.walk(node) if isinstance(n, ast.Name)}
    if any((n in env.types and n not in env.consts) for n in names):
      return None
    if isinstance(node, ast.Call) and ast.unparse(node.func) == "wp.static":
      node = node.args[0]
    v = self.py_eval(node, env)
    if isinstance(v, bool):
      return None
    if isinstance(v, int):
      return int(v)
    try:
      import enum
      if isinstance(v, enum.IntEnum):
        return int(v)
    except Exception:
      pass
    return None

  # ---- expressions ---------------------------------------------------------------------------
  def expr(self, node, env: Env, want=None) -> Tuple[str, object]:
    """Returns (lean source, type)."""
    if isinstance(node, ast.Constant):
      v = node.value
      if isinstance(v, bool):
        return ("true" if v else "false"), B
      if isinstance(v, int):
        if want == F:
          return float_lit(float(v)), F
        return f"({v} : Int)", I
      if isinstance(v, float):
        return float_lit(v), F
      self.err(node, f"constant {v!r}")
    if isinstance(node, ast.Name):
      if node.id in env.consts:
        c = env.consts[node.id]
        if want == F:
          return float_lit(float(c)), F
        return f"({c} : Int)", I
      if node.id in env.types:
        return self.mod.lname(node.id), env.types[node.id]
      v = self.py_eval(node, env)
      return self.const_value(node, v, want)
    if isinstance(node, ast.Attribute):
      s = ast.unparse(node)
      if s == "wp.pi":
        return "(Scalar.pi : K)", F
      if s == "wp.inf":
        self.err(node, "wp.inf")
      if isinstance(node.value, ast.Name) and node.value.id in env.types and node.attr in ("x", "y", "z", "w"):
        bt = env.types[node.value.id]
        k = "xyzw".index(node.attr)
        if bt in VEC and bt != "Q" and k < VEC[bt]:
          return f"{self.mod.lname(node.value.id)}.c{k}", F
        self.err(node, f"attribute .{node.attr} of {bt}")
      v = self.py_eval(node, env)
      return self.const_value(node, v, want)
    if isinstance(node, ast.UnaryOp):
      if isinstance(node.op, ast.USub):
        if isinstance(node.operand, ast.Constant) and isinstance(node.operand.value, (int, float)) and not isinstance(node.operand.value, bool):
          v = -node.operand.value
          if isinstance(v, float) or want == F:
            return float_lit(float(v)), F
          return f"({v} : Int)", I
        a, t = self.expr(node.operand, env, want)
        if t == F:
          return f"(-{a})", F
        if t == I:
          return f"(-{a})", I
        if t in VEC or t in MAT:
          return f"({t}.neg {a})", t
        self.err(node, f"neg of {t}")
      if isinstance(node.op, ast.Not):
        a, t = self.expr(node.operand, env)
        a = self.as_bool(a, t, node)
        return f"(!{a})", B
      if isinstance(node.op, ast.UAdd):
        return self.expr(node.operand, env, want)
      if isinstance(node.op, ast.Invert):
        a, t = self.expr(node.operand, env)
        if t == I:
          return f"(Mjw.inot {a})", I
      self.err(node, "unary op")
    if isinstance(node, ast.BinOp):
      return self.binop(node, env, want)
    if isinstance(node, ast.BoolOp):
      parts = []
      for v in node.values:
        a, t = self.expr(v, env)
        parts.append(self.as_bool(a, t, v))
      op = " && " if isinstance(node.op, ast.And) else " || "
      return "(" + op.join(parts) + ")", B
    if isinstance(node, ast.Compare):
      return self.compare(node, env)
    if isinstance(node, ast.IfExp):
      c, ct = self.expr(node.test, env)
      c = self.as_bool(c, ct, node)
      a, ta = self.expr(node.body, env, want)
      b, tb = self.expr(node.orelse, env, want or ta)
      if ta != tb:
        a, ta = self.expr(node.body, env, tb)
      if ta != tb:
        self.err(node, f"ifexp branch types {ta} {tb}")
      return f"(if {c} then {a} else {b})", ta
    if isinstance(node, ast.Subscript):
      return self.subscript(node, env)
    if isinstance(node, ast.Call):
      return self.call(node, env, want)
    if isinstance(node, ast.Tuple):
      parts = [self.expr(e, env) for e in node.elts]
      return "(" + ", ".join(p[0] for p in parts) + ")", ("tuple", tuple(p[1] for p in parts))
    self.err(node, f"expression {type(node).__name__}: {ast.unparse(node)[:60]}")

  def const_value(self, node, v, want):
    import enum
    if isinstance(v, bool):
      return ("true" if v else "false"), B
    if isinstance(v, enum.IntEnum) or isinstance(v, int):
      if want == F:
        return float_lit(float(int(v))), F
      return f"({int(v)} : Int)", I
    if isinstance(v, float):
      return float_lit(v), F
    # warp constant wrappers (wp.constant returns the python value); vec constants
    try:
      import warp as wp
      if hasattr(v, "_length_") and hasattr(v, "__getitem__"):
        n = len(v)
        name = {2: "V2", 3: "V3", 4: "V4", 5: "V5", 6: "V6", 10: "V10"}.get(n)
        if type(v).__name__.startswith("quat"):
          name = "Q"
        if name:
          return "(⟨" + ", ".join(float_lit(float(v[i])) for i in range(n)) + f"⟩ : {name} K)", name
    except Exception:
      pass
    self.err(node, f"cannot resolve constant {ast.unparse(node)} = {v!r}")

  def as_bool(self, a, t, node):
    if t == B:
      return a
    if t == I:
      return f"(decide ({a} ≠ 0))"
    if t == F:
      return f"(Scalar.bne {a} (Scalar.lit 0 0))"
    self.err(node, f"truthiness of {t}")

  def coerce_pair(self, l, r, env, want=None):
    """translate two operands; int literals adapt to a float partner."""
    a, ta = self.expr(l, env, want)
    b, tb = self.expr(r, env, want)
    if ta == I and tb == F and self.is_int_literalish(l, env):
      a, ta = self.expr(l, env, F)
    if tb == I and ta == F and self.is_int_literalish(r, env):
      b, tb = self.expr(r, env, F)
    return a, ta, b, tb

  def is_int_literalish(self, node, env):
    return self.const_int(node, env) is not None

  def binop(self, node, env, want):
    op = type(node.op)
    a, ta, b, tb = self.coerce_pair(node.left, node.right, env, want if want in (F, I) else None)
    sym = {ast.Add: "+", ast.Sub: "-", ast.Mult: "*", ast.Div: "/"}.get(op)
    if ta == F and tb == F:
      if sym:
        return f"({a} {sym} {b})", F
      if op is ast.Pow:
        return f"(Scalar.pow {a} {b})", F
      self.err(node, "float binop")
    if ta == I and tb == I:
      if op in (ast.Add, ast.Sub, ast.Mult):
        return f"({a} {sym} {b})", I
      if op in (ast.FloorDiv, ast.Div):
        return f"(Int.tdiv {a} {b})", I
      if op is ast.Mod:
        return f"(Int.tmod {a} {b})", I
      if op is ast.BitAnd:
        return f"(Mjw.iand {a} {b})", I
      if op is ast.BitOr:
        return f"(Mjw.ior {a} {b})", I
      if op is ast.BitXor:
        return f"(Mjw.ixor {a} {b})", I
      if op is ast.LShift:
        return f"(Mjw.ishl {a} {b})", I
      if op is ast.RShift:
        return f"(Mjw.ishr {a} {b})", I
      self.err(node, "int binop")
    if ta == B and tb == B and op in (ast.BitAnd, ast.BitOr):
      return f"({a} {'&&' if op is ast.BitAnd else '||'} {b})", B
    vec_a, vec_b = ta in VEC, tb in VEC
    mat_a, mat_b = ta in MAT, tb in MAT
    if (vec_a and tb == ta) or (mat_a and tb == ta and op in (ast.Add, ast.Sub)):
      if op is ast.Add:
        return f"({ta}.add {a} {b})", ta
      if op is ast.Sub:
        return f"({ta}.sub {a} {b})", ta
      if op is ast.Mult and vec_a and ta != "Q":
        return f"({ta}.cwmul {a} {b})", ta
      if op is ast.Div and vec_a and ta != "Q":
        return f"({ta}.cwdiv {a} {b})", ta
      self.err(node, f"vec binop {ta}")
    if (vec_a or mat_a) and tb in (F, I):
      if tb == I:
        b, tb = self.expr(node.right, env, F)
      if op is ast.Mult:
        return f"({ta}.muls {a} {b})", ta
      if op is ast.Div:
        return f"({ta}.divs {a} {b})", ta
    if ta in (F, I) and (vec_b or mat_b):
      if ta == I:
        a, ta = self.expr(node.left, env, F)
      if op is ast.Mult:
        return f"({tb}.smul {a} {b})", tb
    if mat_a and vec_b and op in (ast.Mult, ast.MatMult) and MAT[ta][2] == tb:
      return f"({ta}.mulVec {a} {b})", tb
    if vec_a and mat_b and op in (ast.Mult, ast.MatMult) and MAT[tb][2] == ta:
      return f"({tb}.vecMul {a} {b})", ta
    if mat_a and tb == ta and op in (ast.Mult, ast.MatMult):
      return f"({ta}.mul {a} {b})", ta
    self.err(node, f"binop {op.__name__} on {ta}, {tb}")

  def compare(self, node, env):
    if len(node.ops) != 1:
      # chained comparison a < b < c
      parts = []
      left = node.left
      for op, right in zip(node.ops, node.comparators):
        sub = ast.Compare(left=left, ops=[op], comparators=[right])
        ast.copy_location(sub, node)
        parts.append(self.compare(sub, env)[0])
        left = right
      return "(" + " && ".join(parts) + ")", B
    op = type(node.ops[0])
    a, ta, b, tb = self.coerce_pair(node.left, node.comparators[0], env)
    if ta == F and tb == F:
      f = {ast.Lt: "Scalar.lt", ast.LtE: "Scalar.le", ast.Gt: "Scalar.gt", ast.GtE: "Scalar.ge", ast.Eq: "Scalar.beq", ast.NotEq: "Scalar.bne"}.get(op)
      if f:
        return f"({f} {a} {b})", B
    if ta == I and tb == I:
      s = {ast.Lt: "<", ast.LtE: "≤", ast.Gt: ">", ast.GtE: "≥", ast.Eq: "=", ast.NotEq: "≠"}.get(op)
      if s:
        return f"(decide ({a} {s} {b}))", B
    if ta == B and tb == B and op in (ast.Eq, ast.NotEq):
      return (f"({a} == {b})" if op is ast.Eq else f"({a} != {b})"), B
    if ta == B and tb == I or ta == I and tb == B:
      self.err(node, "bool/int comparison")
    self.err(node, f"compare {op.__name__} on {ta}, {tb}")

  def subscript(self, node, env):
    base, tb = self.expr(node.value, env)
    idx = node.slice
    idxs = list(idx.elts) if isinstance(idx, ast.Tuple) else [idx]
    if isinstance(tb, tuple) and tb[0] == "arr":
      if len(idxs) != tb[2]:
        if len(idxs) < tb[2]:
          self.err(node, "partial array indexing")
        # array of vectors indexed deeper: a[i][k] handled by nested Subscript; a[i, k] on vec dtype
        arr_idx, rest = idxs[: tb[2]], idxs[tb[2]:]
        parts = [self.int_expr(i, env) for i in arr_idx]
        e = "(" + base + " " + " ".join(parts) + ")"
        return self.index_value(node, e, tb[1], rest, env)
      parts = [self.int_expr(i, env) for i in idxs]
      return "(" + base + " " + " ".join(parts) + ")", tb[1]
    if isinstance(tb, tuple) and tb[0] == "tuple":
      c = self.const_int(idxs[0], env)
      if c is None:
        self.err(node, "dynamic tuple index")
      n = len(tb[1])
      # right-nested pairs
      e = base
      for _ in range(c):
        e = f"{e}.2"
      if c < n - 1:
        e = f"{e}.1"
      return e, tb[1][c]
    return self.index_value(node, base, tb, idxs, env)

  def index_value(self, node, base, tb, idxs, env):
    if not idxs:
      return base, tb
    if tb in VEC:
      if len(idxs) != 1:
        self.err(node, "vector with 2 indices")
      c = self.const_int(idxs[0], env)
      if c is not None:
        n = VEC[tb]
        if c < 0:
          c += n
        if not (0 <= c < n):
          self.err(node, f"constant index {c} out of range for {tb}")
        return f"{base}.c{c}", F
      i = self.int_expr(idxs[0], env)
      return f"({tb}.get {base} {i})", F
    if tb in MAT:
      r, c_, vt = MAT[tb]
      if len(idxs) == 1:
        ci = self.const_int(idxs[0], env)
        i = f"({ci} : Int)" if ci is not None else self.int_expr(idxs[0], env)
        return f"({tb}.row {base} {i})", vt
      ci, cj = self.const_int(idxs[0], env), self.const_int(idxs[1], env)
      if ci is not None and cj is not None:
        return f"{base}.m{ci}{cj}", F
      i, j = self.int_expr(idxs[0], env), self.int_expr(idxs[1], env)
      return f"({tb}.get {base} {i} {j})", F
    self.err(node, f"subscript of {tb}")

  def int_expr(self, node, env):
    c = self.const_int(node, env)
    if c is not None:
      return f"({c} : Int)"
    a, t = self.expr(node, env, I)
    if t != I:
      self.err(node, f"index of type {t}")
    return a

  def float_args(self, args, env):
    out = []
    for a in args:
      s, t = self.expr(a, env, F)
      if t == I:
        s = f"(Scalar.ofInt {s} : K)"
        t = F
      out.append((s, t))
    return out

  def call(self, node, env, want):
    fn = ast.unparse(node.func)
    args = node.args
    if node.keywords:
      self.err(node, f"keyword args in call {fn}")
    # constructors
    ctor = {"wp.vec2": "V2", "wp.vec2f": "V2", "wp.vec3": "V3", "wp.vec3f": "V3", "wp.vec4": "V4", "wp.vec4f": "V4", "wp.quat": "Q", "wp.quatf": "Q",
            "vec5": "V5", "types.vec5": "V5", "vec6": "V6", "types.vec6": "V6", "vec10": "V10", "types.vec10": "V10", "vec10f": "V10",
            "wp.spatial_vector": "V6", "wp.spatial_vectorf": "V6"}.get(fn)
    if ctor:
      n = VEC[ctor]
      if len(args) == 0:
        return f"({ctor}.zero : {ctor} K)", ctor
      if len(args) == 1:
        (a, t), = self.float_args(args, env)
        if t == F:
          return f"({ctor}.fill {a})", ctor
        if t == ctor:
          return a, ctor
        self.err(node, f"{fn} from {t}")
      if ctor == "V6" and len(args) == 2:
        (a, ta), (b, tb) = self.float_args(args, env)
        if ta == "V3" and tb == "V3":
          return f"(V6.ofV3 {a} {b})", "V6"
      if ctor == "V4" and len(args) == 2:
        (a, ta), (b, tb) = self.float_args(args, env)
        if ta == "V3" and tb == F:
          return f"(⟨{a}.c0, {a}.c1, {a}.c2, {b}⟩ : V4 K)", "V4"
      if len(args) == n:
        parts = self.float_args(args, env)
        if all(t == F for _, t in parts):
          return "(⟨" + ", ".join(s for s, _ in parts) + f"⟩ : {ctor} K)", ctor
      self.err(node, f"constructor {fn} with {len(args)} args")
    mctor = {"wp.mat33": "M33", "wp.mat33f": "M33", "wp.mat22": "M22", "wp.mat22f": "M22"}.get(fn)
    if mctor:
      r, c, vt = MAT[mctor]
      if len(args) == 0:
        return f"({mctor}.zero : {mctor} K)", mctor
      parts = self.float_args(args, env)
      if len(args) == r * c and all(t == F for _, t in parts):
        return "(⟨" + ", ".join(s for s, _ in parts) + f"⟩ : {mctor} K)", mctor
      if len(args) == 1 and parts[0][1] == F:
        return f"({mctor}.fill {parts[0][0]})", mctor
      if len(args) == c and all(t == vt for _, t in parts):
        # Warp: constructing a matrix from vectors uses them as COLUMNS (deprecated form)
        return f"({mctor}.fromCols " + " ".join(s for s, _ in parts) + ")", mctor
      self.err(node, f"matrix constructor {fn} with {len(args)} args")
    if fn in ("wp.matrix_from_rows", "wp.matrix_from_cols"):
      parts = self.float_args(args, env)
      if len(parts) == 3 and all(t == "V3" for _, t in parts):
        k = "fromRows" if fn.endswith("rows") else "fromCols"
        return f"(M33.{k} " + " ".join(s for s, _ in parts) + ")", "M33"
      if len(parts) == 2 and all(t == "V2" for _, t in parts):
        k = "fromRows" if fn.endswith("rows") else "fromCols"
        return f"(M22.{k} " + " ".join(s for s, _ in parts) + ")", "M22"
      self.err(node, fn)
    if fn in ("float", "wp.float32"):
      a, t = self.expr(args[0], env, F)
      if t == F:
        return a, F
      if t == I:
        return f"(Scalar.ofInt {a} : K)", F
      if t == B:
        return f"(if {a} then (Scalar.lit 1 0 : K) else (Scalar.lit 0 0 : K))", F
      self.err(node, f"float() of {t}")
    if fn in ("int", "wp.int32"):
      c = self.const_int(args[0], env)
      if c is not None:
        return f"({c} : Int)", I
      a, t = self.expr(args[0], env)
      if t == I:
        return a, I
      if t == F:
        return f"(Scalar.toInt {a})", I
      if t == B:
        return f"(if {a} then (1 : Int) else 0)", I
      self.err(node, f"int() of {t}")
    if fn in ("bool", "wp.bool"):
      a, t = self.expr(args[0], env)
      return self.as_bool(a, t, node), B
    if fn == "wp.static":
      v = self.py_eval(args[0], env)
      return self.const_value(node, v, want)
    # scalar builtins
    sc1 = {"wp.sqrt": "sqrt", "wp.sin": "sin", "wp.cos": "cos", "wp.tan": "tan", "wp.asin": "asin", "wp.acos": "acos", "wp.exp": "exp", "wp.log": "log",
           "wp.floor": "floor", "wp.abs": "abs", "wp.sign": "sign"}
    if fn in sc1:
      (a, t), = self.float_args(args, env)
      if t == F:
        return f"(Scalar.{sc1[fn]} {a})", F
      if fn == "wp.abs" and t in VEC:
        return f"({t}.vabs {a})", t
      self.err(node, f"{fn} of {t}")
    sc2 = {"wp.atan2": "atan2", "wp.pow": "pow", "wp.min": "min", "wp.max": "max"}
    if fn in sc2 and len(args) != 2:
      self.err(node, f"{fn} with {len(args)} args")
    if fn in sc2:
      a, ta, b, tb = self.coerce_pair(args[0], args[1], env, F if fn in ("wp.atan2", "wp.pow") else None)
      if ta == F and tb == F:
        return f"(Scalar.{sc2[fn]} {a} {b})", F
      if ta == I and tb == I and fn in ("wp.min", "wp.max"):
        return f"({sc2[fn]} {a} {b})", I
      if ta in VEC and tb == ta and fn in ("wp.min", "wp.max"):
        return f"({ta}.v{sc2[fn]} {a} {b})", ta
      self.err(node, f"{fn} of {ta},{tb}")
    if fn == "wp.clamp":
      parts = self.float_args(args, env)
      if all(t == F for _, t in parts):
        return f"(Scalar.clamp {parts[0][0]} {parts[1][0]} {parts[2][0]})", F
      self.err(node, "clamp")
    if fn in ("wp.where", "wp.select"):
      c, ct = self.expr(args[0], env)
      c = self.as_bool(c, ct, node)
      a, ta, b, tb = self.coerce_pair(args[1], args[2], env, want)
      if ta != tb:
        self.err(node, f"where branch types {ta},{tb}")
      if fn == "wp.select":
        a, b = b, a
      return f"(if {c} then {a} else {b})", ta
    v1 = {"wp.length": ("length", F), "wp.norm_l2": ("length", F), "wp.length_sq": ("lengthSq", F), "wp.normalize": ("normalize", None)}
    if fn in v1:
      a, t = self.expr(args[0], env)
      if t in VEC:
        k, rt = v1[fn]
        return f"({t}.{k} {a})", (rt or t)
      self.err(node, f"{fn} of {t}")
    if fn == "wp.dot":
      a, ta = self.expr(args[0], env)
      b, tb = self.expr(args[1], env)
      if ta in VEC and ta == tb:
        return f"({ta}.dot {a} {b})", F
      self.err(node, f"dot of {ta},{tb}")
    if fn == "wp.cross":
      a, ta = self.expr(args[0], env)
      b, tb = self.expr(args[1], env)
      if ta == "V3" and tb == "V3":
        return f"(V3.cross {a} {b})", "V3"
      self.err(node, "cross")
    if fn == "wp.cw_mul" or fn == "wp.cw_div":
      a, ta = self.expr(args[0], env)
      b, tb = self.expr(args[1], env)
      if ta in VEC and ta == tb:
        return f"({ta}.{'cwmul' if fn.endswith('mul') else 'cwdiv'} {a} {b})", ta
      self.err(node, fn)
    if fn == "wp.transpose":
      a, t = self.expr(args[0], env)
      if t in MAT:
        return f"({t}.transpose {a})", t
      self.err(node, "transpose")
    if fn == "wp.determinant":
      a, t = self.expr(args[0], env)
      if t == "M33":
        return f"(M33.det {a})", F
      self.err(node, "determinant")
    if fn == "wp.outer":
      a, ta = self.expr(args[0], env)
      b, tb = self.expr(args[1], env)
      if ta == "V3" and tb == "V3":
        return f"(M33.outer {a} {b})", "M33"
      self.err(node, "outer")
    if fn == "wp.diag":
      a, t = self.expr(args[0], env)
      if t == "V3":
        return f"(M33.diag {a})", "M33"
      self.err(node, "diag")
    if fn == "wp.get_diag":
      a, t = self.expr(args[0], env)
      if t == "M33":
        return f"(M33.getDiag {a})", "V3"
    if fn == "wp.trace":
      a, t = self.expr(args[0], env)
      if t == "M33":
        return f"(M33.trace {a})", F
    if fn == "wp.identity":
      return "(M33.identity : M33 K)", "M33"
    if fn == "wp.spatial_top":
      a, t = self.expr(args[0], env)
      return f"(V6.top {a})", "V3"
    if fn == "wp.spatial_bottom":
      a, t = self.expr(args[0], env)
      return f"(V6.bottom {a})", "V3"
    # user functions
    target = self.mod.resolve_func(fn)
    if target is not None:
      tmod, tname = target
      spec = None
      if tmod.is_generic(tname):
        spec = tuple(self.expr(a, env)[1] for a in args)
      sig = tmod.signature(tname, spec)
      if sig is None:
        self.err(node, f"call to untranslated function {fn}: {tmod.errors.get(tmod.key(tname, spec), '')[:80]}")
      ptypes, rtype = sig
      if len(args) != len(ptypes):
        self.err(node, f"arity mismatch calling {fn}")
      parts = []
      for a, pt in zip(args, ptypes):
        s, t = self.expr(a, env, pt if pt in (F, I) else None)
        if t == I and pt == F:
          s, t = f"(Scalar.ofInt {s} : K)", F
        if t != pt:
          self.err(node, f"argument type {t} for parameter type {pt} in call to {fn}")
        parts.append(s)
      return "(" + tmod.qualified(tmod.key(tname, spec)) + " (K := K) " + " ".join(parts) + ")", rtype
    self.err(node, f"call {fn}")

  # ---- statements ----------------------------------------------------------------------------
  @staticmethod
  def contains_return(stmts) -> bool:
    for s in stmts:
      for n in ast.walk(s):
        if isinstance(n, ast.Return):
          return True
    return False

  @staticmethod
  def assigned_names(stmts) -> List[str]:
    out = []

    def tgt(t):
      if isinstance(t, ast.Name):
        if t.id not in out and t.id != "_":
          out.append(t.id)
      elif isinstance(t, (ast.Tuple, ast.List)):
        for e in t.elts:
          tgt(e)
      elif isinstance(t, ast.Subscript):
        tgt(t.value)

    for s in stmts:
      for n in ast.walk(s):
        if isinstance(n, ast.Assign):
          for t in n.targets:
            tgt(t)
        elif isinstance(n, (ast.AugAssign, ast.AnnAssign)):
          tgt(n.target)
        elif isinstance(n, ast.For):
          pass
    return out

  def stmts(self, stmts: List[ast.stmt], env: Env, tail: Optional[str] = None, depth=0) -> str:
    """Translate a statement list to a Lean expression. `tail` is the expression to use when the list
    falls off its end (used for if-merging); None means a return is required."""
    ind = "  "
    if not stmts:
      if tail is None:
        raise Unsupported(f"{self.mod.pyname}.{self.name}: control reaches end without return")
      return tail(env) if callable(tail) else tail
    s, rest = stmts[0], stmts[1:]
    if isinstance(s, ast.Expr) and isinstance(s.value, ast.Constant):
      return self.stmts(rest, env, tail, depth)  # docstring
    if isinstance(s, ast.Pass):
      return self.stmts(rest, env, tail, depth)
    if isinstance(s, ast.Return):
      if s.value is None:
        self.err(s, "bare return")
      e, t = self.expr(s.value, env, self.ret_type if self.ret_type in (F, I) else None)
      if isinstance(self.ret_type, tuple) and self.ret_type[0] == "tuple" and isinstance(s.value, ast.Tuple):
        parts = []
        for el, pt in zip(s.value.elts, self.ret_type[1]):
          se, st = self.expr(el, env, pt if pt in (F, I) else None)
          if st != pt:
            self.err(s, f"return element type {st} vs {pt}")
          parts.append(se)
        e, t = "(" + ", ".join(parts) + ")", self.ret_type
      if self.ret_type is None:
        self.ret_type = t
      elif t != self.ret_type:
        if t == I and self.ret_type == F:
          e = f"(Scalar.ofInt {e} : K)"
        else:
          self.err(s, f"return type {t} vs declared {self.ret_type}")
      return e
    if isinstance(s, (ast.Assign, ast.AnnAssign, ast.AugAssign)):
      binds = self.assign(s, env)
      body = self.stmts(rest, env, tail, depth)
      return "\n".join(binds) + "\n" + body
    if isinstance(s, ast.If):
      c, ct = self.expr(s.test, env)
      c = self.as_bool(c, ct, s)
      # static condition?
      if self.contains_return(s.body) or self.contains_return(s.orelse):
        e1 = self.stmts(list(s.body) + rest, env.copy(), tail, depth + 1)
        e2 = self.stmts(list(s.orelse) + rest, env.copy(), tail, depth + 1)
        return f"if {c} then\n{textwrap.indent(e1, ind)}\nelse\n{textwrap.indent(e2, ind)}"
      names = [n for n in self.assigned_names(list(s.body) + list(s.orelse))]
      env1, env2 = env.copy(), env.copy()
      # determine types by a dry run
      b1 = self.stmts(list(s.body), env1, tail=lambda e: "⟪TUPLE⟫", depth=depth + 1)
      b2 = self.stmts(list(s.orelse), env2, tail=lambda e: "⟪TUPLE⟫", depth=depth + 1)
      merged = []
      for n in names:
        t = env1.types.get(n) or env2.types.get(n)
        t0 = env.types.get(n)
        if t0 is not None and t is not None and t0 != t:
          self.err(s, f"variable {n} changes type {t0} -> {t}")
        if n in env1.types and n in env2.types and env1.types[n] != env2.types[n]:
          self.err(s, f"variable {n} has different types in branches")
        merged.append((n, t))
      if not merged:
        return self.stmts(rest, env, tail, depth)

      def tup(e: Env):
        parts = []
        for n, t in merged:
          if n in e.types:
            if n in e.consts:
              parts.append(f"({e.consts[n]} : Int)")
            else:
              parts.append(self.mod.lname(n))
          else:
            parts.append(zero_of(t))
        return parts[0] if len(parts) == 1 else "(" + ", ".join(parts) + ")"

      b1 = b1.replace("⟪TUPLE⟫", tup(env1))
      b2 = b2.replace("⟪TUPLE⟫", tup(env2))
      for n, t in merged:
        env.types[n] = t
        env.consts.pop(n, None)
      pat = self.mod.lname(merged[0][0]) if len(merged) == 1 else "(" + ", ".join(self.mod.lname(n) for n, _ in merged) + ")"
      body = self.stmts(rest, env, tail, depth)
      return f"let {pat} :=\n  if {c} then\n{textwrap.indent(b1, ind * 2)}\n  else\n{textwrap.indent(b2, ind * 2)}\n{body}"
    if isinstance(s, ast.For):
      it = s.iter
      if not (isinstance(it, ast.Call) and ast.unparse(it.func) == "range" and isinstance(s.target, ast.Name)):
        self.err(s, "for loop not over range")
      bounds = [self.const_int(a, env) for a in it.args]
      if any(b is None for b in bounds):
        self.err(s, f"dynamic loop bounds {ast.unparse(it)}")
      rng = list(range(*bounds))
      if len(rng) > 64:
        self.err(s, "loop too long to unroll")
      for n in ast.walk(s):
        if isinstance(n, (ast.Break, ast.Continue)):
          self.err(s, "break/continue in loop")
      unrolled: List[ast.stmt] = []
      var = s.target.id
      for v in rng:
        marker = ast.Assign(targets=[ast.Name(id=var, ctx=ast.Store())], value=ast.Constant(value=v), lineno=s.lineno)
        marker._loopconst = True
        unrolled.append(marker)
        unrolled.extend(s.body)
      return self.stmts(unrolled + rest, env, tail, depth)
    if isinstance(s, ast.Expr):
      self.err(s, f"expression statement {ast.unparse(s)[:50]}")
    self.err(s, f"statement {type(s).__name__}")

  def assign(self, s, env: Env) -> List[str]:
    if isinstance(s, ast.AugAssign):
      value = ast.BinOp(left=self.load_of(s.target), op=s.op, right=s.value)
      ast.copy_location(value, s)
      ast.fix_missing_locations(value)
      return self.assign_to(s.target, value, env, s)
    if isinstance(s, ast.AnnAssign):
      if s.value is None:
        self.err(s, "annotation without value")
      return self.assign_to(s.target, s.value, env, s)
    if len(s.targets) != 1:
      self.err(s, "chained assignment")
    if getattr(s, "_loopconst", False):
      env.consts[s.targets[0].id] = s.value.value
      env.types[s.targets[0].id] = I
      return []
    return self.assign_to(s.targets[0], s.value, env, s)

  @staticmethod
  def load_of(t):
    import copy
    t2 = copy.deepcopy(t)
    for n in ast.walk(t2):
      if hasattr(n, "ctx"):
        n.ctx = ast.Load()
    return t2

  def assign_to(self, target, value, env: Env, s) -> List[str]:
    if isinstance(target, ast.Name):
      want = env.types.get(target.id)
      e, t = self.expr(value, env, want if want in (F, I) else None)
      if want is not None and want != t:
        if want == F and t == I:
          e, t = f"(Scalar.ofInt {e} : K)", F
        else:
          self.err(s, f"variable {target.id} changes type {want} -> {t}")
      env.types[target.id] = t
      env.consts.pop(target.id, None)
      return [f"let {self.mod.lname(target.id)} : {lean_type(t)} := {e}"]
    if isinstance(target, (ast.Tuple, ast.List)):
      if isinstance(value, ast.Tuple) and len(value.elts) == len(target.elts):
        # simultaneous assignment: evaluate all RHS first
        tmp, out = [], []
        for i, (tg, v) in enumerate(zip(target.elts, value.elts)):
          e, t = self.expr(v, env)
          self.fresh += 1
          nm = f"tmp_{self.fresh}"
          out.append(f"let {nm} : {lean_type(t)} := {e}")
          tmp.append((tg, nm, t))
        for tg, nm, t in tmp:
          if not isinstance(tg, ast.Name):
            self.err(s, "nested tuple target")
          env.types[tg.id] = t
          env.consts.pop(tg.id, None)
          out.append(f"let {self.mod.lname(tg.id)} : {lean_type(t)} := {nm}")
        return out
      e, t = self.expr(value, env)
      if not (isinstance(t, tuple) and t[0] == "tuple" and len(t[1]) == len(target.elts)):
        self.err(s, f"tuple unpack of {t}")
      names = []
      for tg, tt in zip(target.elts, t[1]):
        if not isinstance(tg, ast.Name):
          self.err(s, "nested tuple target")
        if tg.id == "_":
          names.append("_")
          continue
        env.types[tg.id] = tt
        env.consts.pop(tg.id, None)
        names.append(self.mod.lname(tg.id))
      return [f"let ({', '.join(names)}) := {e}"]
    if isinstance(target, ast.Subscript) and isinstance(target.value, ast.Name):
      nm = target.value.id
      t = env.types.get(nm)
      idx = target.slice
      idxs = list(idx.elts) if isinstance(idx, ast.Tuple) else [idx]
      e, te = self.expr(value, env, F)
      ln = self.mod.lname(nm)
      if t in VEC and len(idxs) == 1 and te == F:
        c = self.const_int(idxs[0], env)
        if c is not None:
          return [f"let {ln} : {lean_type(t)} := {{ {ln} with c{c} := {e} }}"]
        i = self.int_expr(idxs[0], env)
        return [f"let {ln} : {lean_type(t)} := {t}.set {ln} {i} {e}"]
      if t in MAT and len(idxs) == 2 and te == F:
        ci, cj = self.const_int(idxs[0], env), self.const_int(idxs[1], env)
        if ci is not None and cj is not None:
          return [f"let {ln} : {lean_type(t)} := {{ {ln} with m{ci}{cj} := {e} }}"]
      self.err(s, f"subscript assignment to {t}")
    self.err(s, "assignment target")

  # ---- whole function ------------------------------------------------------------------------
  def param_types(self):
    out = []
    a = self.fn.args
    if a.vararg or a.kwarg or a.kwonlyargs:
      self.err(self.fn, "varargs")
    for i, p in enumerate(a.args):
      if p.annotation is None:
        self.err(self.fn, f"parameter {p.arg} without annotation")
      if ast.unparse(p.annotation) == "Any":
        if self.spec is None:
          self.err(self.fn, "generic function without specialisation")
        out.append((p.arg, self.spec[i]))
      else:
        out.append((p.arg, ann_type(p.annotation)))
    return out

  def translate(self) -> Tuple[str, list, object]:
    params = self.param_types()
    if self.fn.returns is not None and ast.unparse(self.fn.returns) not in ("None", "Any"):
      self.ret_type = ann_type(self.fn.returns)
    env = Env({n: t for n, t in params}, {})
    body = self.stmts(list(self.fn.body), env)
    if self.ret_type is None:
      self.err(self.fn, "no return type")
    sig = " ".join(f"({self.mod.lname(n)} : {lean_type(t)})" for n, t in params)
    src = f"def {self.mod.lname(self.mod.key(self.name, self.spec))} {{K : Type}} [Scalar K] {sig} : {lean_type(self.ret_type)} :=\n{textwrap.indent(body, '  ')}\n"
    return src, [t for _, t in params], self.ret_type


_LEAN_KEYWORDS = {"at", "from", "in", "end", "do", "then", "else", "if", "let", "have", "show", "fun", "match", "with", "open", "local", "prefix",
                  "infix", "notation", "section", "namespace", "variable", "def", "theorem", "example", "structure", "class", "instance", "where",
                  "by", "mut", "for", "return", "Type", "Prop", "Sort", "axis", "abs", "max", "min", "K", "V2", "V3", "V4", "V5", "V6", "V10", "Q",
                  "M22", "M33", "Int", "Bool", "Nat", "Scalar", "Mjw", "List", "some", "none", "true", "false", "id", "fun", "this", "using", "extends",
                  "instance", "deriving", "macro", "syntax", "universe", "mutual", "private", "protected", "partial", "noncomputable", "unsafe"}


class ModuleTranslator:
  def __init__(self, pyname: str, registry: "Registry"):
    self.pyname = pyname  # e.g. "math"
    self.registry = registry
    self.path = os.path.join(REPO, "mujoco_warp", "_src", pyname + ".py")
    self.source = open(self.path).read()
    self.tree = ast.parse(self.source)
    self.funcs: Dict[str, ast.FunctionDef] = {}
    for n in self.tree.body:
      if isinstance(n, ast.FunctionDef):
        self.funcs[n.name] = n
    self.module = importlib.import_module(f"mujoco_warp._src.{pyname}")
    self.globals = dict(vars(self.module))
    self.sigs: Dict[str, Tuple[list, object]] = {}
    self.pynames: Dict[str, str] = {}
    self.out: Dict[str, str] = {}
    self.errors: Dict[str, str] = {}
    self.in_progress = set()
    # import aliases: name -> module pyname
    self.aliases = {}
    for n in self.tree.body:
      if isinstance(n, ast.ImportFrom) and n.module and n.module.startswith("mujoco_warp._src"):
        for a in n.names:
          if n.module == "mujoco_warp._src":
            self.aliases[a.asname or a.name] = ("mod", a.name)
          else:
            self.aliases[a.asname or a.name] = ("sym", n.module.split(".")[-1], a.name)

  def lean_ns(self):
    return "Mjw.Gen." + self.pyname.capitalize()

  def lname(self, n: str) -> str:
    if n in _LEAN_KEYWORDS:
      return n + "'"
    return n

  def qualified(self, fname):
    return f"{self.lean_ns()}.{self.lname(fname)}"

  def resolve_func(self, call_name: str):
    parts = call_name.split(".")
    if len(parts) == 1:
      if parts[0] in self.funcs and self.is_wp_func(self.funcs[parts[0]]):
        return (self, parts[0])
      al = self.aliases.get(parts[0])
      if al and al[0] == "sym":
        m = self.registry.module(al[1])
        if al[2] in m.funcs:
          return (m, al[2])
      return None
    if len(parts) == 2:
      al = self.aliases.get(parts[0])
      if al and al[0] == "mod":
        m = self.registry.module(al[1])
        if parts[1] in m.funcs:
          return (m, parts[1])
    return None

  @staticmethod
  def is_wp_func(fn: ast.FunctionDef) -> bool:
    return any(ast.unparse(d) in ("wp.func", "wp.func_native") for d in fn.decorator_list)

  def is_generic(self, fname):
    fn = self.funcs.get(fname)
    return fn is not None and any(p.annotation is not None and ast.unparse(p.annotation) == "Any" for p in fn.args.args)

  @staticmethod
  def key(fname, spec):
    if spec is None:
      return fname
    def tn(t):
      return t if isinstance(t, str) else "T" + "".join(tn(x) for x in t[1]) if t[0] == "tuple" else "A"
    return fname + "_" + "_".join(tn(t) for t in spec)

  def signature(self, fname, spec=None):
    k = self.key(fname, spec)
    if k not in self.sigs and k not in self.errors:
      self.translate_func(fname, spec)
    return self.sigs.get(k)

  def translate_func(self, fname, spec=None):
    k = self.key(fname, spec)
    if k in self.sigs or k in self.errors:
      return
    if k in self.in_progress:
      self.errors[k] = "recursive"
      return
    self.in_progress.add(k)
    try:
      fn = self.funcs.get(fname)
      if fn is None:
        raise Unsupported(f"{self.pyname}.{fname}: no such function")
      ft = FuncTranslator(self, fn, spec)
      src, ptypes, rtype = ft.translate()
      self.sigs[k] = (ptypes, rtype)
      self.pynames[k] = fname
      self.out[k] = src
      self.registry.order.append((self, k))
    except Unsupported as e:
      self.errors[k] = str(e)
    except RecursionError:
      self.errors[k] = f"{self.pyname}.{fname}: translator recursion limit"
    except Exception as e:  # translator bug: report, never crash the run
      self.errors[k] = f"{self.pyname}.{fname}: translator internal error {type(e).__name__}: {e}"
    finally:
      self.in_progress.discard(k)


class Registry:
  def __init__(self):
    self.mods: Dict[str, ModuleTranslator] = {}
    self.order: List[Tuple[ModuleTranslator, str]] = []

  def module(self, pyname) -> ModuleTranslator:
    if pyname not in self.mods:
      self.mods[pyname] = ModuleTranslator(pyname, self)
    return self.mods[pyname]


def blob_hash(path):
  import hashlib
  data = open(path, "rb").read()
  return hashlib.sha1(b"blob %d\0" % len(data) + data).hexdigest()
