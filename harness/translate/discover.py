"""One-off helper: try to translate every @wp.func of every module; print which translate.
Used to grow targets.py; not part of the checks."""
import ast, os, sys, json
from . import tiera

def main():
  src_dir = os.path.join(tiera.REPO, "mujoco_warp", "_src")
  reg = tiera.Registry()
  res = {}
  for f in sorted(os.listdir(src_dir)):
    if not f.endswith(".py") or f.endswith("_test.py") or f in ("__init__.py", "cli.py", "jax_test.py"):
      continue
    modname = f[:-3]
    try:
      m = reg.module(modname)
    except Exception as e:
      print("skip module", modname, type(e).__name__, e)
      continue
    for name, fn in m.funcs.items():
      if tiera.ModuleTranslator.is_wp_func(fn):
        m.translate_func(name)
    ok = [n for n in m.funcs if n in m.sigs]
    res[modname] = ok
    print(modname, "ok", len(ok), "fail", len(m.errors))
    for k, v in m.errors.items():
      print("    ", v[:160])
  json.dump(res, open("/tmp/discover.json", "w"), indent=1)

if __name__ == "__main__":
  main()
