"""One-off helper: try to translate every @wp.func / @wp.kernel of every module; write /tmp/discover.json.
Used to grow targets.py; not part of the checks."""
import ast, os, sys, json
from . import tiera

def main():
  src_dir = os.path.join(tiera.REPO, "mujoco_warp", "_src")
  reg = tiera.Registry()
  res = {"funcs": {}, "kernels": {}}
  nerr = {}
  for f in sorted(os.listdir(src_dir)):
    if not f.endswith(".py") or f.endswith("_test.py") or f in ("__init__.py", "cli.py", "jax_test.py"):
      continue
    modname = f[:-3]
    try:
      m = reg.module(modname)
    except Exception as e:
      print("skip module", modname, type(e).__name__, e)
      continue
    for name, fn in m.funcs.items():
      if tiera.ModuleTranslator.is_wp_func(fn) and not m.is_generic(name):
        m.translate_func(name)
      elif tiera.ModuleTranslator.is_kernel(fn):
        m.translate_func(name)
    okf = [n for n in m.funcs if m.key(n, None) in m.sigs and m.kinds[m.key(n, None)] != "kernel"]
    okk = [n for n in m.funcs if m.key(n, None) in m.sigs and m.kinds[m.key(n, None)] == "kernel"]
    res["funcs"][modname] = okf
    res["kernels"][modname] = okk
    print(modname, "funcs ok", len(okf), "kernels ok", len(okk), "fail", len(m.errors))
    for k, v in m.errors.items():
      print("    ", v[:170])
  json.dump(res, open("/tmp/discover.json", "w"), indent=1)

if __name__ == "__main__":
  main()
