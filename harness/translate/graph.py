"""E3 extractor: per-kernel array-access classes and the host launch graph of /repo, as Lean data.

For every `@wp.kernel` (top level or nested in a builder) of every non-test module:
  * which variable is the world id (`worldid, … = wp.tid()` or `worldid = X_worldid_in[…]`),
  * every subscript access to an array parameter (through row views too) with the class of its
    LEADING index:  W (the world id) | WMOD:<param> (`worldid % param.shape[0]`, directly or through an
    `x_id = worldid % x.shape[0]` alias) | TID | CONST | OTHER, and whether it is a read, a plain write or an atomic.
For every `wp.launch(...)` in host code: kernel, and the expression bound to each kernel parameter, from
which the parameter's FIELD CLASS follows (types.Model / types.Data annotations):
  ModelBatched ("*"-led) | ModelShared | DataWorld ("nworld"-led) | DataFlat (naconmax-led etc.) | Global ((1,)) | Temp.
Output: lean/MjwVerif/Gen/Graph.lean (+ graph.json).  The extractor is trusted; it is validated by the
launch-interception run (every concrete write of a translated kernel is checked against its class) and by the
differential oracles of C09-C12.
"""

from __future__ import annotations

import ast
import dataclasses
import json
import os

from . import tiera

VERIF = os.path.abspath(os.path.join(os.path.dirname(__file__), "..", ".."))
GEN = os.path.join(VERIF, "lean", "MjwVerif", "Gen")
SRC = os.path.join(tiera.REPO, "mujoco_warp", "_src")


def modules():
  out = []
  for f in sorted(os.listdir(SRC)):
    if f.endswith(".py") and not f.endswith("_test.py") and f not in ("__init__.py", "cli.py"):
      out.append(f[:-3])
  return out


def is_kernel(fn):
  for d in fn.decorator_list:
    u = ast.unparse(d)
    if u == "wp.kernel" or u.startswith("wp.kernel(") or u.startswith("nested_kernel"):
      return True
  return False


def arr_ndim(ann):
  u = ast.unparse(ann)
  for pre, nd in (("wp.array4d", 4), ("wp.array3d", 3), ("wp.array2d", 2), ("wp.array", 1)):
    if u.startswith(pre + "[") or u.startswith(pre + "("):
      if pre == "wp.array" and "ndim=" in u:
        try:
          return int(u.split("ndim=")[1].split(",")[0].split(")")[0])
        except Exception:
          return 1
      return nd
  return 0


def collect_functions(tree):
  out = {}

  def rec(body, prefix):
    for n in body:
      if isinstance(n, ast.FunctionDef):
        out[prefix + n.name] = n
        rec(n.body, prefix + n.name + ".")
      elif isinstance(n, (ast.If, ast.With, ast.Try, ast.For, ast.While)):
        rec(getattr(n, "body", []), prefix)
        rec(getattr(n, "orelse", []), prefix)

  rec(tree.body, "")
  return out


def classify_kernel(mod, name, fn):
  params = [(p.arg, arr_ndim(p.annotation) if p.annotation is not None else 0) for p in fn.args.args]
  arrs = {n: nd for n, nd in params if nd > 0}
  world = None
  tids = set()
  tids_all = set()
  wmod = {}     # alias var -> param
  views = {}    # view var -> (param, leading index class)  (row views)
  accesses = []

  def idx_class(e):
    if isinstance(e, ast.Name):
      if e.id == world:
        return "W"
      if e.id in wmod:
        return "WMOD:" + wmod[e.id]
      if e.id in tids:
        return "TID"
      return "OTHER"
    if isinstance(e, ast.Constant):
      return "CONST"
    if isinstance(e, ast.BinOp) and isinstance(e.op, ast.Mod) and isinstance(e.left, ast.Name) and e.left.id == world:
      r = e.right
      if isinstance(r, ast.Subscript) and isinstance(r.value, ast.Attribute) and r.value.attr == "shape" and isinstance(r.value.value, ast.Name) \
          and isinstance(r.slice, ast.Constant) and r.slice.value == 0:      # the LEADING dimension's size
        return "WMOD:" + r.value.value.id
    return "OTHER"

  # pass 1: world id, tid vars, aliases (in program order, flow-insensitive is enough here)
  for n in ast.walk(fn):
    if isinstance(n, ast.Assign) and len(n.targets) == 1:
      t, v = n.targets[0], n.value
      if isinstance(v, ast.Call) and ast.unparse(v.func) == "wp.tid":
        names = [t.id] if isinstance(t, ast.Name) else [e.id for e in t.elts if isinstance(e, ast.Name)]
        for nm in names:
          tids.add(nm)
        tids_all.update(names)
        if "worldid" in names:
          world = "worldid"
          tids.discard("worldid")
  if world is None:
    for n in ast.walk(fn):
      if isinstance(n, ast.Assign) and len(n.targets) == 1 and isinstance(n.targets[0], ast.Name) and n.targets[0].id == "worldid":
        world_src = ast.unparse(n.value)
        # accepted sources of a world id that is not a launch coordinate: the world tag of a flat-buffer record
        # (`contact_worldid_in[conid]`, `cand_worldid[i]`, ...) or the quotient of a flat launch index (`i // nelem`)
        import re as _re
        if _re.match(r"^\w*worldid\w*\[.+\]$", world_src) or _re.match(r"^\w+ // \w+$", world_src):
          world = "worldid"
  # an alias `x_id = worldid % x.shape[0]` counts only if EVERY assignment to that name (plain, augmented, loop target, tuple
  # unpacking) is that same expression: a name that is reassigned to something else is not a world-modular index
  assigned = {}
  for n in ast.walk(fn):
    if isinstance(n, ast.Assign):
      for t in n.targets:
        if isinstance(t, ast.Name):
          from_tid = isinstance(n.value, ast.Call) and ast.unparse(n.value.func) == "wp.tid"
          assigned.setdefault(t.id, []).append("TIDSRC" if from_tid else (idx_class(n.value) if len(n.targets) == 1 else "OTHER"))
        elif isinstance(t, (ast.Tuple, ast.List)):
          from_tid = isinstance(n.value, ast.Call) and ast.unparse(n.value.func) == "wp.tid"
          for e in t.elts:
            e = e.value if isinstance(e, ast.Starred) else e
            if isinstance(e, ast.Name):
              assigned.setdefault(e.id, []).append("TIDSRC" if from_tid else "OTHER")
    elif isinstance(n, (ast.AugAssign, ast.AnnAssign)) and isinstance(n.target, ast.Name):
      assigned.setdefault(n.target.id, []).append("OTHER")
    elif isinstance(n, ast.For):
      for e in ([n.target] if isinstance(n.target, ast.Name) else getattr(n.target, "elts", [])):
        if isinstance(e, ast.Name):
          assigned.setdefault(e.id, []).append("OTHER")
  for nm, cls in assigned.items():
    if cls and cls[0].startswith("WMOD:") and all(c == cls[0] for c in cls):
      wmod[nm] = cls[0][5:]
  # the world id itself must not be reassigned after it was taken from wp.tid()
  world_reassigned = world is not None and world in tids_all and any(c != "TIDSRC" for c in assigned.get(world, []))
  if world_reassigned:
    world = None    # nothing is classified as world-led in such a kernel (the table theorems then fail on it)
  # views: x = arr[i] with fewer indices than ndim
  changed = True
  while changed:
    changed = False
    for n in ast.walk(fn):
      if isinstance(n, ast.Assign) and len(n.targets) == 1 and isinstance(n.targets[0], ast.Name) and isinstance(n.value, ast.Subscript) \
          and isinstance(n.value.value, ast.Name):
        base = n.value.value.id
        ix = n.value.slice
        ixs = list(ix.elts) if isinstance(ix, ast.Tuple) else [ix]
        tgt = n.targets[0].id
        if base in arrs and len(ixs) < arrs[base] and tgt not in views:
          views[tgt] = (base, idx_class(ixs[0]), arrs[base] - len(ixs), ast.unparse(ix))
          changed = True
        elif base in views and tgt not in views and len(ixs) < views[base][2]:
          views[tgt] = (views[base][0], views[base][1], views[base][2] - len(ixs), views[base][3] + ", " + ast.unparse(ix))
          changed = True

  def record(sub, rw):
    if not isinstance(sub.value, ast.Name):
      return
    base = sub.value.id
    ix = sub.slice
    ixs = list(ix.elts) if isinstance(ix, ast.Tuple) else [ix]
    if base in arrs:
      accesses.append({"param": base, "ndim": arrs[base], "idx0": idx_class(ixs[0]), "rw": rw, "line": sub.lineno, "idx": ast.unparse(sub.slice)})
    elif base in views:
      accesses.append({"param": views[base][0], "ndim": arrs[views[base][0]], "idx0": views[base][1], "rw": rw, "line": sub.lineno,
                       "idx": views[base][3] + ", " + ast.unparse(sub.slice)})

  for n in ast.walk(fn):
    if isinstance(n, (ast.Assign, ast.AugAssign)):
      tgts = n.targets if isinstance(n, ast.Assign) else [n.target]
      for t in tgts:
        for s in ([t] if isinstance(t, ast.Subscript) else []):
          record(s, "w")
          if isinstance(n, ast.AugAssign):
            record(s, "r")
    if isinstance(n, ast.Call) and ast.unparse(n.func).startswith("wp.atomic_") and n.args:
      a0 = n.args[0]
      if isinstance(a0, ast.Name) and (a0.id in arrs or a0.id in views):
        root = a0.id if a0.id in arrs else views[a0.id][0]
        if a0.id in arrs and len(n.args) >= 2:
          c = idx_class(n.args[1])
        elif a0.id in views:
          c = views[a0.id][1]
        else:
          c = "OTHER"
        accesses.append({"param": root, "ndim": arrs[root], "idx0": c, "rw": "a", "line": n.lineno, "idx": ", ".join(ast.unparse(x) for x in n.args[1:-1]),
                         "op": ast.unparse(n.func).split("_", 1)[1]})
      elif isinstance(a0, ast.Subscript):
        record(a0, "a")
  # reads: every Load subscript
  stores = set()
  for n in ast.walk(fn):
    if isinstance(n, (ast.Assign, ast.AugAssign)):
      tgts = n.targets if isinstance(n, ast.Assign) else [n.target]
      for t in tgts:
        if isinstance(t, ast.Subscript):
          stores.add(id(t))
  for n in ast.walk(fn):
    if isinstance(n, ast.Subscript) and id(n) not in stores and isinstance(n.ctx, ast.Load):
      if isinstance(n.value, ast.Name) and (n.value.id in arrs or n.value.id in views):
        # a partial index that only creates a view is recorded at its uses; full reads recorded here
        base = n.value.id
        ix = n.slice
        ixs = list(ix.elts) if isinstance(ix, ast.Tuple) else [ix]
        nd = arrs[base] if base in arrs else views[base][2]
        if len(ixs) >= nd:
          record(n, "r")
  # arrays passed whole to wp.funcs (their accesses happen inside the callee): recorded as PASSED
  passed = []
  for n in ast.walk(fn):
    if isinstance(n, ast.Call) and not ast.unparse(n.func).startswith("wp."):
      for a in n.args:
        if isinstance(a, ast.Name) and a.id in arrs:
          passed.append(a.id)
  guards = []
  for n in fn.body:
    if isinstance(n, ast.If) and any(isinstance(b, ast.Return) for b in n.body):
      guards.append(ast.unparse(n.test)[:80])
  return {"module": mod, "kernel": name, "world": world, "params": params, "accesses": accesses, "passed": sorted(set(passed)), "guards": guards,
          "line": fn.lineno}


def field_table():
  """types.Model/Data/... field -> leading dim spec"""
  import importlib
  types = importlib.import_module("mujoco_warp._src.types")
  table = {}
  for cls in ("Model", "Data", "Option", "Statistic", "Contact", "Constraint"):
    c = getattr(types, cls, None)
    if c is None or not dataclasses.is_dataclass(c):
      continue
    for f in dataclasses.fields(c):
      t = f.type
      shape = getattr(t, "shape", None)
      if shape is not None and isinstance(shape, tuple) and len(shape) > 0:
        table[f"{cls}.{f.name}"] = [str(s) for s in shape]
      else:
        table[f"{cls}.{f.name}"] = None
  return table


def classify_binding(expr, ftab):
  """expression bound to a kernel parameter at a launch -> field class"""
  e = expr.strip()
  path = e.split(".")
  def cls_of(key):
    sh = ftab.get(key, "missing")
    if sh == "missing":
      return "Unknown"
    if sh is None:
      return "Scalar"
    return sh
  key = None
  if path[0] == "m":
    if len(path) == 2:
      key = "Model." + path[1]
    elif path[1] == "opt":
      key = "Option." + path[2]
    elif path[1] == "stat":
      key = "Statistic." + path[2]
    sh = cls_of(key) if key else "Unknown"
    if isinstance(sh, list):
      return ("ModelBatched" if sh[0] == "*" else "ModelShared"), key
    return ("ModelScalar" if sh == "Scalar" else "Unknown"), key
  if path[0] == "d":
    if len(path) == 2:
      key = "Data." + path[1]
    elif path[1] == "contact":
      key = "Contact." + path[2]
    elif path[1] == "efc":
      key = "Constraint." + path[2]
    sh = cls_of(key) if key else "Unknown"
    if isinstance(sh, list):
      if sh[0] == "nworld":
        return "DataWorld", key
      if sh[0] in ("1",):
        return "Global", key
      return "DataFlat", key
    return ("DataScalar" if sh == "Scalar" else "Unknown"), key
  return "Temp", e[:40]


def scan_launches(mod, tree, funcs, aliases, ftab):
  launches = []
  for hname, fn in funcs.items():
    if is_kernel(fn) or any(ast.unparse(d) in ("wp.func",) for d in fn.decorator_list):
      continue
    for n in ast.walk(fn):
      if isinstance(n, ast.Call) and ast.unparse(n.func) in ("wp.launch", "wp.launch_tiled"):
        kw = {k.arg: k.value for k in n.keywords}
        kexpr = n.args[0] if n.args else kw.get("kernel")
        ins = kw.get("inputs")
        outs = kw.get("outputs")
        if ins is None and len(n.args) >= 3:
          ins = n.args[2]
        if isinstance(ins, ast.Name):
          # inputs=<name>: the list is built in a local variable of the host function (name = [ ... ])
          vname, found = ins.id, None
          for a in ast.walk(fn):
            if isinstance(a, ast.Assign) and len(a.targets) == 1 and isinstance(a.targets[0], ast.Name) and a.targets[0].id == vname \
                and isinstance(a.value, (ast.List, ast.Tuple)) and a.lineno < n.lineno:
              found = a.value
          if found is not None:
            ins = found
        ilist = [ast.unparse(x) for x in ins.elts] if isinstance(ins, (ast.List, ast.Tuple)) else None
        if ilist is None and ins is None and "inputs" not in kw:
          ilist = []    # a launch with outputs only
        olist = [ast.unparse(x) for x in outs.elts] if isinstance(outs, (ast.List, ast.Tuple)) else []
        kname = None
        if isinstance(kexpr, ast.Name):
          kname = kexpr.id
        elif isinstance(kexpr, ast.Call):
          kname = ast.unparse(kexpr.func) + "()"
        elif isinstance(kexpr, ast.Attribute):
          kname = ast.unparse(kexpr)
        launches.append({"module": mod, "host": hname, "line": n.lineno, "kernel_expr": kname, "inputs": ilist, "outputs": olist,
                         "dim": ast.unparse(kw["dim"]) if "dim" in kw else (ast.unparse(n.args[1]) if len(n.args) > 1 else "")})
  return launches


def resolve_kernel(l, kernels_by_mod, funcs_by_mod):
  """launch kernel expression -> kernel key 'module.name'"""
  mod = l["module"]
  k = l["kernel_expr"]
  if k is None:
    return None
  if k.endswith("()"):
    b = k[:-2]
    bmod = mod
    if "." in b:
      bmod, b = b.split(".", 1)
    # nested kernel of the builder
    for name in kernels_by_mod.get(bmod, {}):
      if name.startswith(b + "."):
        return f"{bmod}.{name}"
    return None
  if "." in k:
    bmod, b = k.split(".", 1)
    if b in kernels_by_mod.get(bmod, {}):
      return f"{bmod}.{b}"
    return None
  if k in kernels_by_mod.get(mod, {}):
    return f"{mod}.{k}"
  # nested kernel defined in the same host function
  for name in kernels_by_mod.get(mod, {}):
    if name == l["host"] + "." + k or name.endswith("." + k):
      return f"{mod}.{name}"
  return None


def run():
  ftab = field_table()
  kernels, launches = {}, []
  kernels_by_mod = {}
  for mod in modules():
    path = os.path.join(SRC, mod + ".py")
    tree = ast.parse(open(path).read())
    funcs = collect_functions(tree)
    kernels_by_mod[mod] = {}
    for name, fn in funcs.items():
      if is_kernel(fn):
        rec = classify_kernel(mod, name, fn)
        kernels[f"{mod}.{name}"] = rec
        kernels_by_mod[mod][name] = rec
    launches += scan_launches(mod, tree, funcs, None, ftab)
  # bind
  bindings = {}   # kernel key -> param -> set of (class, field)
  unresolved = 0
  for l in launches:
    key = resolve_kernel(l, kernels_by_mod, None)
    l["kernel"] = key
    if key is None or l["inputs"] is None:
      unresolved += 1
      continue
    params = [p for p, _ in kernels[key]["params"]]
    args = l["inputs"] + l["outputs"]
    if len(args) != len(params):
      l["arity_mismatch"] = True
      unresolved += 1
      continue
    for p, a in zip(params, args):
      c, f = classify_binding(a, ftab)
      bindings.setdefault(key, {}).setdefault(p, set()).add((c, f))
  # parameters of one kernel bound to the same array expression at some launch (in/out aliasing)
  alias_pairs = {}
  for l in launches:
    key = l.get("kernel")
    if key is None or l["inputs"] is None or l.get("arity_mismatch"):
      continue
    params = [p for p, _ in kernels[key]["params"]]
    args = l["inputs"] + l["outputs"]
    nin = len(l["inputs"])
    for i, (p, a) in enumerate(zip(params, args)):
      for j in range(max(i + 1, nin), len(args)):
        if args[j] == a and dict(kernels[key]["params"]).get(p, 0) > 0 and a not in ("None",):
          alias_pairs.setdefault(key, {})[p] = params[j]
  json.dump(alias_pairs, open(os.path.join(GEN, "aliases.json"), "w"), indent=0, sort_keys=True)
  # join accesses with bindings
  rows = []
  for key, k in kernels.items():
    for a in k["accesses"]:
      bs = bindings.get(key, {}).get(a["param"], {("Unbound", "")})
      for c, f in sorted(bs, key=lambda x: (x[0], str(x[1]))):
        rows.append({"kernel": key, "param": a["param"], "ndim": a["ndim"], "idx0": a["idx0"], "rw": a["rw"], "line": a["line"], "fclass": c, "field": f or "",
                     "world": k["world"] or "", "idx": a.get("idx", ""), "op": a.get("op", "")})
  stats = {}
  for r in rows:
    stats[(r["fclass"], r["idx0"].split(":")[0], r["rw"])] = stats.get((r["fclass"], r["idx0"].split(":")[0], r["rw"]), 0) + 1
  out = {"kernels": len(kernels), "launches": len(launches), "unresolved_launches": unresolved, "rows": len(rows),
         "stats": {f"{a}|{b}|{c}": n for (a, b, c), n in sorted(stats.items())}}
  json.dump({"summary": out, "rows": rows, "launches": launches, "kernels": {k: {kk: vv for kk, vv in v.items() if kk != "accesses"} for k, v in kernels.items()}},
            open(os.path.join(GEN, "graph.json"), "w"), indent=0, default=list)
  emit_lean(rows, launches, kernels)
  return out


def lstr(s):
  return '"' + str(s).replace("\\", "\\\\").replace('"', '\\"') + '"'


def emit_lean(rows, launches, kernels):
  from .emit import write_if_changed
  names = {}

  def nid(x):
    x = str(x)
    if x not in names:
      names[x] = len(names)
    return names[x]

  nid("")
  seen_rows, uniq = set(), []
  for r in rows:
    k = (r["kernel"], r["param"], r["field"], r["ndim"], r["idx0"], r["rw"], r["fclass"], r.get("idx", ""), r.get("op", ""))
    if k not in seen_rows:
      seen_rows.add(k)
      uniq.append(r)
  rows = uniq
  L = ["/- GENERATED by harness/translate/graph.py from /repo — access classes of every kernel and the launch list. -/",
       "import MjwVerif.Model.Discipline", "namespace Mjw.Gen.Graph", "open Mjw.Discipline", ""]
  chunk = 200
  cnames = []
  body = []
  mods = []
  for ci in range(0, len(rows), chunk):
    nm = f"rows{ci // chunk}"
    cnames.append(nm)
    body.append(f"def {nm} : List Access := [")
    part = rows[ci: ci + chunk]
    for i, r in enumerate(part):
      idx = r["idx0"]
      if idx.startswith("WMOD:"):
        ic = f"(IdxClass.wmod {nid(idx[5:])})"
      else:
        ic = {"W": "IdxClass.w", "TID": "IdxClass.tid", "CONST": "IdxClass.const", "OTHER": "IdxClass.other"}[idx]
      rw = {"r": "RW.read", "w": "RW.write", "a": "RW.atomic"}[r["rw"]]
      fc = {"ModelBatched": "FClass.modelBatched", "ModelShared": "FClass.modelShared", "DataWorld": "FClass.dataWorld", "DataFlat": "FClass.dataFlat",
            "Global": "FClass.global", "Temp": "FClass.temp", "Unbound": "FClass.unbound", "Unknown": "FClass.unknown", "ModelScalar": "FClass.unknown",
            "DataScalar": "FClass.unknown", "Scalar": "FClass.unknown"}[r["fclass"]]
      mname = r["kernel"].split(".")[0]
      if mname not in mods:
        mods.append(mname)
      body.append(f"  ⟨{mods.index(mname)}, {nid(r['kernel'])}, {nid(r['param'])}, {nid(r['field'])}, {r['ndim']}, {ic}, {rw}, {fc}, 0, {nid(r.get('idx', ''))}, {nid(r.get('op', ''))}⟩"
                  + ("," if i < len(part) - 1 else ""))
    body.append("]")
  L.append("/-- interned names (kernels, parameters, fields, index texts, atomic ops) -/")
  L.append("def names : Array String := #[" + ", ".join(lstr(k) for k, _ in sorted(names.items(), key=lambda kv: kv[1])) + "]")
  L.append("def moduleNames : List String := [" + ", ".join(lstr(m) for m in mods) + "]")
  L.append("def moduleId (m : String) : Nat := moduleNames.idxOf m")
  L.append("def name (i : Nat) : String := names.getD i \"?\"")
  L.append("def named (l : List (Nat × Nat)) : List (String × String) := l.map (fun p => (name p.1, name p.2))")
  L.append("")
  L += body
  L.append("def rows : List Access := " + " ++ ".join(cnames) if cnames else "def rows : List Access := []")
  L.append("")
  L.append("end Mjw.Gen.Graph")
  write_if_changed(os.path.join(GEN, "Graph.lean"), "\n".join(L) + "\n")


if __name__ == "__main__":
  print(json.dumps(run(), indent=1))
