"""Allow-list of /repo functions the tier-A translator must translate (module -> function names).
A listed function that stops translating is a broken proof obligation (reported by ./check)."""

TARGETS = {
  "math": [
    "mul_quat", "quat_mul_axis", "rot_vec_quat", "axis_angle_to_quat", "quat_to_mat", "quat_z2vec", "quat_inv",
    "inert_vec", "motion_cross", "motion_cross_force", "quat_to_vel", "quat_sub", "quat_integrate",
  ],
}
