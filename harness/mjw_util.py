"""Small helpers around the real mujoco / mujoco_warp APIs used by harnesses."""
from __future__ import annotations
import numpy as np


def load(xml):
  import mujoco
  mjm = mujoco.MjModel.from_xml_string(xml)
  mjd = mujoco.MjData(mjm)
  return mjm, mjd


def put(mjm, mjd, nworld=1, **kw):
  import mujoco_warp as mjw
  m = mjw.put_model(mjm)
  d = mjw.put_data(mjm, mjd, nworld=nworld, **kw)
  return m, d


def set_rows(arr, values):
  """Assign numpy `values` (nworld x n) into a warp array."""
  import warp as wp
  a = arr.numpy()
  a[...] = np.asarray(values, dtype=a.dtype).reshape(a.shape)
  arr.assign(a)


def quat_norms(mjm, qpos):
  """norms of all free/ball quaternions in a (nworld x nq) qpos array -> array (nworld x nquat)"""
  import mujoco
  cols = []
  for j in range(mjm.njnt):
    adr = mjm.jnt_qposadr[j]
    t = mjm.jnt_type[j]
    if t == mujoco.mjtJoint.mjJNT_FREE:
      cols.append(np.linalg.norm(qpos[:, adr + 3: adr + 7], axis=1))
    elif t == mujoco.mjtJoint.mjJNT_BALL:
      cols.append(np.linalg.norm(qpos[:, adr: adr + 4], axis=1))
  if not cols:
    return np.zeros((qpos.shape[0], 0))
  return np.stack(cols, axis=1)


def rot_defect(mats):
  """max |R^T R - I| and min det over an array (..., 3, 3)"""
  m = np.asarray(mats, dtype=np.float64).reshape(-1, 3, 3)
  if m.shape[0] == 0:
    return 0.0, 1.0
  rtr = np.einsum("nij,nik->njk", m, m)
  return float(np.abs(rtr - np.eye(3)).max()), float(np.linalg.det(m).min())
