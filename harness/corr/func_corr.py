"""Func-level differential: the real Warp `@wp.func` vs the generated Lean definition at Float32.

For each translated function a one-thread-per-case Warp kernel is generated that calls the REAL
function of /repo on inputs read from arrays; the same inputs (as float32 bit patterns) are piped to
the Lean driver, which evaluates the regenerated `Gen` definition at `Float32`.  Results must agree
within a small ulp/relative tolerance (same operation order, same precision).  This validates the
translator (it is in the trusted base) and ties the model to the code by running both.
"""

from __future__ import annotations

import hashlib
import importlib.util
import json
import os
import struct
import subprocess
import sys
import time

import numpy as np

VERIF = os.path.abspath(os.path.join(os.path.dirname(__file__), "..", ".."))
LEAN = os.path.join(VERIF, "lean")
CACHE = os.path.join(VERIF, ".cache")

WP_T = {"F": "float", "I": "int", "B": "bool", "V2": "wp.vec2", "V3": "wp.vec3", "V4": "wp.vec4", "V5": "types.vec5", "V6": "wp.spatial_vector",
        "V10": "types.vec10", "Q": "wp.quat", "M33": "wp.mat33", "M22": "wp.mat22"}
WIDTH = {"F": 1, "I": 1, "B": 1, "V2": 2, "V3": 3, "V4": 4, "V5": 5, "V6": 6, "V10": 10, "Q": 4, "M33": 9, "M22": 4}


def flat_types(t):
  if isinstance(t, list) and t[0] == "tuple":
    out = []
    for x in t[1:]:
      out += flat_types(x)
    return out
  return [t]


def supported(sig):
  if sig.get("kind", "func") != "func" or sig.get("extras"):
    return False
  ts = list(sig["params"]) + flat_types(sig["ret"])
  return all(isinstance(t, str) and t in WP_T for t in ts)


def kernel_source(names, sigs):
  mods = sorted({n.split(".")[0] for n in names})
  src = ["import warp as wp", "from mujoco_warp._src import types"]
  for m in mods:
    src.append(f"from mujoco_warp._src import {m}")
  src.append("")
  for n in names:
    sig = sigs[n]
    kname = "k_" + n.replace(".", "__")
    params = [f"a{i}: wp.array(dtype={WP_T[t]})" for i, t in enumerate(sig["params"])]
    rets = flat_types(sig["ret"])
    params += [f"o{i}: wp.array(dtype={WP_T[t]})" for i, t in enumerate(rets)]
    src.append("@wp.kernel(module='unique')")
    src.append(f"def {kname}({', '.join(params)}):")
    src.append("  i = wp.tid()")
    call = f"{sig.get('py', n)}({', '.join(f'a{j}[i]' for j in range(len(sig['params'])))})"
    if len(rets) == 1:
      src.append(f"  o0[i] = {call}")
    else:
      src.append(f"  {', '.join(f'r{j}' for j in range(len(rets)))} = {call}")
      for j in range(len(rets)):
        src.append(f"  o{j}[i] = r{j}")
    src.append("")
  return "\n".join(src)


SPECIAL = np.array([0.0, 1.0, -1.0, 0.5, -0.5, 2.0, 1e-15, -1e-15, 2e-15, 1e-6, 1e-3, 3.0, 1e-7, 0.25, 10.0], dtype=np.float32)


def gen_floats(rng, shape, mode):
  if mode == 0:
    x = rng.uniform(-2.0, 2.0, size=shape)
  elif mode == 1:
    x = rng.normal(size=shape)
  elif mode == 2:
    x = rng.choice(SPECIAL, size=shape)
  elif mode == 3:  # mix of special and uniform
    x = np.where(rng.random(size=shape) < 0.4, rng.choice(SPECIAL, size=shape), rng.uniform(-1.5, 1.5, size=shape))
  elif mode == 4:  # positive
    x = rng.uniform(0.01, 3.0, size=shape)
  else:  # small integers (equal values likely)
    x = rng.integers(-2, 3, size=shape).astype(np.float64)
  return x.astype(np.float32)


def f32_bits(x):
  return np.asarray(x, dtype=np.float32).view(np.uint32)


def ulp_close(a_bits, b_bits, a, b, rtol, atol):
  if a_bits == b_bits:
    return True
  if np.isnan(a) and np.isnan(b):
    return True
  if np.isnan(a) or np.isnan(b):
    return False
  if np.isinf(a) or np.isinf(b):
    return a == b
  return abs(float(a) - float(b)) <= atol + rtol * max(abs(float(a)), abs(float(b)))


class LeanDriver:
  def __init__(self):
    self.proc = None

  def run_lines(self, lines):
    p = subprocess.run(["lake", "env", "lean", "--run", "Driver/Main.lean"], cwd=LEAN, input="\n".join(lines) + "\n", capture_output=True, text=True)
    if p.returncode != 0:
      raise RuntimeError("lean driver failed: " + p.stderr[-2000:] + p.stdout[-2000:])
    out = [l for l in p.stdout.split("\n")]
    if out and out[-1] == "":
      out.pop()
    return out


def run(names=None, ncases=64, seed=0, int_ranges=None, rtol=2e-5, atol=1e-6, wp_init=None):
  """Returns dict(results per function, evaluations, disagreements list)."""
  import warp as wp

  report = json.load(open(os.path.join(LEAN, "MjwVerif", "Gen", "report.json")))
  sigs = report["signatures"]
  if names is None:
    names = sorted(sigs)
  int_ranges = int_ranges or {}
  names = [n for n in names if n in sigs and supported(sigs[n])]
  # integer parameters need a per-function domain (random ints can divide by zero / index out of range)
  names = [n for n in names if ("I" not in sigs[n]["params"]) or n in int_ranges or any((n, i) in int_ranges for i in range(len(sigs[n]["params"])))]
  skipped = [n for n in (names or []) if n not in sigs]
  src = kernel_source(names, sigs)
  h = hashlib.sha1(src.encode()).hexdigest()[:16]
  d = os.path.join(CACHE, "funccorr")
  os.makedirs(d, exist_ok=True)
  path = os.path.join(d, f"kern_{h}.py")
  if not os.path.exists(path):
    open(path, "w").write(src)
  spec = importlib.util.spec_from_file_location(f"kern_{h}", path)
  mod = importlib.util.module_from_spec(spec)
  sys.modules[f"kern_{h}"] = mod
  spec.loader.exec_module(mod)

  rng = np.random.default_rng(seed)
  int_ranges = int_ranges or {}
  lines, meta = [], []
  per_fn = {}
  for n in names:
    sig = sigs[n]
    rets = flat_types(sig["ret"])
    ins = []
    for pi, t in enumerate(sig["params"]):
      if t == "I":
        lo, hi = int_ranges.get((n, pi), int_ranges.get(n, (0, 4)))
        ins.append(rng.integers(lo, hi + 1, size=(ncases,)).astype(np.int32))
      elif t == "B":
        ins.append(rng.integers(0, 2, size=(ncases,)).astype(np.bool_))
      else:
        w = WIDTH[t]
        arr = np.zeros((ncases, w), dtype=np.float32)
        for c in range(ncases):
          arr[c] = gen_floats(rng, (w,), int(rng.integers(0, 6)))
        ins.append(arr)
    wp_ins = []
    for t, arr in zip(sig["params"], ins):
      if t == "I":
        wp_ins.append(wp.array(arr, dtype=int))
      elif t == "B":
        wp_ins.append(wp.array(arr, dtype=bool))
      elif t == "F":
        wp_ins.append(wp.array(arr[:, 0], dtype=float))
      elif t == "M33":
        wp_ins.append(wp.array(arr.reshape(ncases, 3, 3), dtype=wp.mat33))
      elif t == "M22":
        wp_ins.append(wp.array(arr.reshape(ncases, 2, 2), dtype=wp.mat22))
      else:
        wp_ins.append(wp.array(arr, dtype=eval(WP_T[t], {"wp": wp, "types": importlib.import_module("mujoco_warp._src.types")})))
    wp_outs = []
    types_mod = importlib.import_module("mujoco_warp._src.types")
    for t in rets:
      wp_outs.append(wp.zeros(ncases, dtype=eval(WP_T[t], {"wp": wp, "types": types_mod, "float": float, "int": int, "bool": bool})))
    k = getattr(mod, "k_" + n.replace(".", "__"))
    wp.launch(k, dim=ncases, inputs=wp_ins, outputs=wp_outs)
    outs = [o.numpy() for o in wp_outs]
    for c in range(ncases):
      toks = []
      for t, arr in zip(sig["params"], ins):
        if t == "I":
          toks.append(str(int(arr[c])))
        elif t == "B":
          toks.append("1" if arr[c] else "0")
        else:
          toks += [str(int(b)) for b in f32_bits(arr[c])]
      lines.append(f"f32 {n} " + " ".join(toks))
      exp = []
      for t, o in zip(rets, outs):
        if t == "I":
          exp.append(("I", int(o[c])))
        elif t == "B":
          exp.append(("B", int(bool(o[c]))))
        else:
          for v in np.asarray(o[c], dtype=np.float32).reshape(-1):
            exp.append(("F", np.float32(v)))
      meta.append((n, c, exp))
    per_fn[n] = {"cases": ncases, "disagree": 0}
  t0 = time.time()
  out = LeanDriver().run_lines(lines)
  lean_s = time.time() - t0
  if len(out) != len(lines):
    raise RuntimeError(f"driver returned {len(out)} lines for {len(lines)} requests")
  disagreements = []
  distinct = set()
  for line, (n, c, exp), got in zip(lines, meta, out):
    if got.startswith("ERR"):
      disagreements.append({"fn": n, "request": line, "lean": got, "warp": "n/a"})
      per_fn[n]["disagree"] += 1
      continue
    toks = got.split()
    ok = len(toks) == len(exp)
    if ok:
      for (kind, v), tk in zip(exp, toks):
        if kind in ("I", "B"):
          if int(tk) != v:
            ok = False
        else:
          gb = np.uint32(int(tk))
          gv = np.array([gb], dtype=np.uint32).view(np.float32)[0]
          if not ulp_close(int(f32_bits(v)), int(gb), v, gv, rtol, atol):
            ok = False
    distinct.add((n, got))
    if not ok:
      per_fn[n]["disagree"] += 1
      disagreements.append({"fn": n, "request": line, "lean": got,
                            "warp": " ".join(str(int(f32_bits(v))) if k == "F" else str(v) for k, v in exp)})
  return {"functions": per_fn, "evaluations": len(lines), "distinct_outputs": len(distinct), "disagreements": disagreements, "skipped": skipped,
          "lean_seconds": lean_s, "sample": lines[:2] and [lines[0], out[0]]}


if __name__ == "__main__":
  import warp as wp
  wp.config.quiet = True
  seed = int(os.environ.get("VERIF_SEED", "0"))
  names = sys.argv[1:] or None
  r = run(names, ncases=64, seed=seed)
  print(json.dumps({k: v for k, v in r.items() if k != "disagreements"}, indent=1)[:3000])
  print("disagreements:", len(r["disagreements"]))
  for dsg in r["disagreements"][:10]:
    print(dsg)
