"""Kernel-level translation validation by launch interception.

While the REAL mujoco_warp code runs (step(), get_state(), reset_data(), ...), every `wp.launch` of a
kernel that the tier-B translator has translated is intercepted: the array arguments are copied before
and after the real launch.  The generated Lean kernel is then run by the driver on the *before*
contents for (a sample of) the thread ids, and the write list it returns is compared with what the
real launch did to memory:
  * every `set` write must equal the after-launch value of that cell (float32 tolerance),
  * atomic updates are summed per cell over all threads and compared with (after - before)
    (only when every thread id was evaluated),
  * cells that changed must be covered by some write (same condition).
This ties the regenerated kernel models to the code by running both on realistic inputs.
"""

from __future__ import annotations

import json
import os
import subprocess
import sys

import numpy as np

VERIF = os.path.abspath(os.path.join(os.path.dirname(__file__), "..", ".."))
LEAN = os.path.join(VERIF, "lean")
FUEL = 100000


def kernel_name(kernel):
  f = kernel.func
  mod = f.__module__.split(".")[-1]
  qn = f.__qualname__.replace(".<locals>", "")
  return f"{mod}.{qn.replace('.', '__')}"


class Recorder:
  def __init__(self, wanted=None, max_elems=400000, max_records_per_kernel=3):
    rep = json.load(open(os.path.join(LEAN, "MjwVerif", "Gen", "report.json")))
    self.sigs = {k: v for k, v in rep["signatures"].items() if v.get("kind") == "kernel" and "kernel" in v}
    self.wanted = set(wanted) if wanted else None
    self.records = []
    self.max_elems = max_elems
    self.max_per = max_records_per_kernel
    self.count = {}
    self.seen = {}

  def __enter__(self):
    import warp as wp
    self.wp = wp
    self.orig = wp.launch
    rec = self

    def launch(kernel, dim, inputs=[], outputs=[], **kw):
      name = None
      try:
        name = kernel_name(kernel)
      except Exception:
        pass
      rec.seen[name] = rec.seen.get(name, 0) + 1
      if name not in rec.sigs or (rec.wanted is not None and name not in rec.wanted) or rec.count.get(name, 0) >= rec.max_per:
        return rec.orig(kernel, dim=dim, inputs=inputs, outputs=outputs, **kw)
      args = list(inputs) + list(outputs)
      names = [a.label for a in kernel.adj.args]
      before = {}
      total = 0
      ok = len(names) == len(args)
      if ok:
        for n, a in zip(names, args):
          if isinstance(a, wp.array):
            total += a.size
        ok = total <= rec.max_elems
      if not ok:
        return rec.orig(kernel, dim=dim, inputs=inputs, outputs=outputs, **kw)
      for n, a in zip(names, args):
        before[n] = a.numpy().copy() if isinstance(a, wp.array) else a
      r = rec.orig(kernel, dim=dim, inputs=inputs, outputs=outputs, **kw)
      after = {n: a.numpy().copy() for n, a in zip(names, args) if isinstance(a, wp.array)}
      clos = {}
      f = kernel.func
      if f.__closure__:
        for nm, cell in zip(f.__code__.co_freevars, f.__closure__):
          try:
            clos[nm] = cell.cell_contents
          except ValueError:
            pass
      ptrs = {}
      for n, a in zip(names, args):
        if isinstance(a, wp.array) and a.ptr:
          ptrs.setdefault(a.ptr, []).append(n)
      rec.count[name] = rec.count.get(name, 0) + 1
      d = dim if isinstance(dim, (tuple, list)) else (dim,)
      rec.records.append({"kernel": name, "dim": tuple(int(x) for x in d), "before": before, "after": after, "closure": clos, "globals": f.__globals__,
                          "aliases": [v for v in ptrs.values() if len(v) > 1]})
      return r

    wp.launch = launch
    # modules did `import warp as wp` -> they call wp.launch through the module attribute, so patching the module is enough
    return self

  def __exit__(self, *a):
    self.wp.launch = self.orig


def arr_line(name, a):
  a = np.asarray(a)
  if a.dtype == np.float32 or a.dtype == np.float64:
    kind = "f"
    flat = np.ascontiguousarray(a, dtype=np.float32).view(np.uint32).reshape(-1)
  else:
    kind = "i"
    flat = np.ascontiguousarray(a).astype(np.int64).reshape(-1)
  return kind, flat


def encode_array(name, a, sig_t):
  """sig_t = ["arr", elt, nd]; numpy array may have extra trailing dims for vector elements"""
  nd = sig_t[2]
  a = np.asarray(a)
  dims = a.shape[:nd]
  w = int(np.prod(a.shape[nd:])) if a.ndim > nd else 1
  kind, flat = arr_line(name, a)
  return f"arr {name} {kind} {w} {nd} " + " ".join(str(int(d)) for d in dims) + " " + " ".join(str(int(v)) for v in flat)


def f32(tok):
  return np.array([int(tok)], dtype=np.uint32).view(np.float32)[0]


def close(a, b, rtol=3e-5, atol=1e-6):
  a, b = float(a), float(b)
  if np.isnan(a) and np.isnan(b):
    return True
  if a == b:
    return True
  return abs(a - b) <= atol + rtol * max(abs(a), abs(b))


def check_records(recorder, rng, max_tids=64, replay_allocs=False):
  """Runs the Lean driver on the recorded launches. Returns summary dict with disagreements."""
  lines, plan = [], []
  deferred = []
  for ri, r in enumerate(recorder.records):
    sig = recorder.sigs[r["kernel"]]
    ks = sig["kernel"]
    lines.append("clr")
    plan.append(("ctl", ri))
    for pn, t in ks["arrays"]:
      lines.append(encode_array(pn, r["before"][pn], t))
      plan.append(("ctl", ri))
    # scalar tokens
    toks, skip = [], None
    comp = {}
    for n, t in ks["scalars"]:
      if n in r["before"] and not isinstance(r["before"][n], np.ndarray):
        v = r["before"][n]
        import enum
        if isinstance(v, enum.Enum):
          v = int(v.value)   # IntFlag results (flags & DisableBit.X) have __len__ on Python >= 3.11 but are scalars
        if hasattr(v, "__len__") and not isinstance(v, (str, bytes)):
          k = comp.get(n, 0)
          comp[n] = k + 1
          flat = np.asarray(v, dtype=np.float64).reshape(-1)
          v = float(flat[k])
          t = "F"
      elif n.startswith("cl_") and n[3:] in r["closure"]:
        v = r["closure"][n[3:]]
      elif n.startswith("st_"):
        v = None
        ex = sig.get("static_exprs", {}).get(n)
        # re-evaluate the wp.static expression in the kernel's closure
        for cand in ([ex] if ex else []) + [n[3:]]:
          try:
            v = eval(cand, dict(r["globals"]), dict(r["closure"]))
            break
          except Exception:
            v = None
        if v is None:
          v = guess_static(n, r)
        if v is None:
          skip = f"cannot evaluate static parameter {n}"
          break
      elif n == "fuel":
        v = FUEL
      elif n.startswith("alloc"):
        v = "ALLOC"
        r["has_alloc"] = True
      else:
        skip = f"no value for scalar parameter {n}"
        break
      if isinstance(v, str) and v == "ALLOC":
        toks.append("@" + n)
      elif t == "F":
        toks.append(str(int(np.array([v], dtype=np.float32).view(np.uint32)[0])))
      elif t == "B":
        toks.append("1" if v else "0")
      else:
        toks.append(str(int(v)))
    r["skip"] = skip
    if skip:
      continue
    dim = r["dim"]
    ntot = int(np.prod(dim))
    if r.get("has_alloc") and not replay_allocs:
      r["skip"] = "allocating kernel (serial replay not requested)"
      continue
    if r.get("has_alloc"):
      # allocation results are inputs of the model task: they are reconstructed by replaying the launch serially (pass 2)
      if ntot > 96:
        r["skip"] = "allocating kernel with too many tasks to replay serially in this tier"
        continue
      r["alloc_toks"] = toks
      r["all"] = True
      r["tids"] = [list(np.unravel_index(f, dim))[: ks["ntid"]] + [0] * max(0, ks["ntid"] - len(dim)) for f in range(ntot)]
      deferred.append(ri)
      continue
    if ntot <= max_tids:
      ids = list(range(ntot))
      r["all"] = True
    else:
      ids = sorted(set(int(x) for x in rng.integers(0, ntot, size=max_tids)))
      r["all"] = False
    r["tids"] = []
    for flat in ids:
      tid = np.unravel_index(flat, dim)
      tid = list(tid) + [0] * (ks["ntid"] - len(tid))
      tid = tid[: ks["ntid"]]
      r["tids"].append(tid)
      lines.append(f"k32 {r['kernel']} {len(tid)} " + " ".join(str(int(t)) for t in tid) + (" " + " ".join(toks) if toks else ""))
      plan.append(("task", ri, tid))
  for ri in deferred:
    extra_lines, extra_plan = replay_alloc(recorder, ri)
    lines += extra_lines
    plan += extra_plan
  if not lines:
    return {"launches": 0, "tasks": 0, "disagreements": [], "kernels": {}, "skipped": {}}
  p = subprocess.run(["lake", "env", "lean", "--run", "Driver/Main.lean"], cwd=LEAN, input="\n".join(lines) + "\n", capture_output=True, text=True)
  if p.returncode != 0:
    raise RuntimeError("lean driver failed: " + p.stderr[-3000:])
  out = p.stdout.split("\n")
  if out and out[-1] == "":
    out.pop()
  if len(out) != len(lines):
    raise RuntimeError(f"driver returned {len(out)} lines for {len(lines)} requests")
  disagreements = []
  per_kernel = {}
  writes_by_rec = {}
  for (kind, *info), line, req in zip(plan, out, lines):
    if kind == "ctl":
      if line != "ok":
        disagreements.append({"kernel": recorder.records[info[0]]["kernel"], "what": "driver rejected array", "reply": line})
      continue
    ri, tid = info
    r = recorder.records[ri]
    pk = per_kernel.setdefault(r["kernel"], {"launches": 0, "tasks": 0, "writes": 0, "disagree": 0})
    pk["tasks"] += 1
    if not line.startswith("W"):
      disagreements.append({"kernel": r["kernel"], "tid": tid, "what": "driver error", "reply": line[:200]})
      pk["disagree"] += 1
      continue
    body = line[2:].strip()
    ws = []
    if body:
      for wtxt in body.split(";"):
        arr, idx, kd, val = wtxt.split("|")
        idx = tuple(int(x) for x in idx.split(",")) if idx else ()
        vk, vv = val.split(":", 1)
        if vk == "f":
          vals = [f32(vv)]
        elif vk in ("i", "b"):
          vals = [int(vv)]
        elif vk == "v":
          vals = [f32(x) for x in vv.split(",")]
        else:
          vals = [int(x) for x in vv.split(",")]
        ws.append((arr, idx, kd, vals))
    pk["writes"] += len(ws)
    writes_by_rec.setdefault(ri, []).append((tid, ws))
  for ri, tw in writes_by_rec.items():
    r = recorder.records[ri]
    pk = per_kernel[r["kernel"]]
    pk["launches"] += 1
    # last set-write per cell per thread; atomics accumulated
    atom = {}
    covered = set()
    for tid, ws in tw:
      final = {}
      for arr, idx, kd, vals in ws:
        covered.add((arr, idx))
        for grp in r.get("aliases", []):
          if arr in grp:
            for other in grp:
              covered.add((other, idx))
        if kd == "set":
          final[(arr, idx)] = vals
        else:
          atom.setdefault((arr, idx), []).append((kd, vals))
      for (arr, idx), vals in final.items():
        if (arr, idx) in atom:
          continue
        after = r["after"].get(arr)
        if after is None:
          disagreements.append({"kernel": r["kernel"], "tid": tid, "what": f"write to unknown array {arr}"})
          pk["disagree"] += 1
          continue
        try:
          got = np.asarray(after[idx]).reshape(-1)
        except IndexError:
          disagreements.append({"kernel": r["kernel"], "tid": tid, "what": f"model writes out of bounds {arr}{list(idx)}"})
          pk["disagree"] += 1
          continue
        ok = len(got) == len(vals) and all(close(g, v) for g, v in zip(got, vals))
        if not ok:
          # another thread may legitimately have overwritten the cell with a different value: only tolerated if
          # some other evaluated thread wrote the observed value
          others = [v2 for t2, w2 in tw for (a2, i2, k2, v2) in w2 if (a2, i2) == (arr, idx) and k2 == "set" and t2 != tid]
          if not any(len(got) == len(o) and all(close(g, v) for g, v in zip(got, o)) for o in others):
            disagreements.append({"kernel": r["kernel"], "tid": tid, "what": f"{arr}{list(idx)}: model {[float(v) for v in vals]} vs real {[float(g) for g in got]}"})
            pk["disagree"] += 1
    if r.get("all"):
      for (arr, idx), ups in atom.items():
        before = np.asarray(r["before"][arr][idx], dtype=np.float64).reshape(-1)
        after = np.asarray(r["after"][arr][idx], dtype=np.float64).reshape(-1)
        exp = before.copy()
        for kd, vals in ups:
          v = np.asarray(vals, dtype=np.float64)
          if kd in ("aadd", "alloc"):
            exp = exp + v
          elif kd == "asub":
            exp = exp - v
          elif kd == "amax":
            exp = np.maximum(exp, v)
          elif kd == "amin":
            exp = np.minimum(exp, v)
          elif kd == "aor":
            exp = np.array([int(exp[0]) | int(v[0])], dtype=np.float64)
        if not all(close(e, a, rtol=1e-4, atol=1e-5) for e, a in zip(exp, after)):
          disagreements.append({"kernel": r["kernel"], "what": f"atomic total {arr}{list(idx)}: model {exp.tolist()} vs real {after.tolist()}"})
          pk["disagree"] += 1
      # completeness: changed cells must be covered
      for arr, after in r["after"].items():
        before = r["before"][arr]
        if before.size == 0:
          continue
        nd = [t for pn, t in recorder.sigs[r["kernel"]]["kernel"]["arrays"] if pn == arr][0][2]
        b2 = before.reshape(before.shape[:nd] + (-1,))
        a2 = after.reshape(after.shape[:nd] + (-1,))
        with np.errstate(invalid="ignore"):
          diff = np.any((a2 != b2) & ~((a2 != a2) & (b2 != b2)), axis=-1)
        for idx in zip(*np.nonzero(diff)):
          if (arr, tuple(int(i) for i in idx)) not in covered:
            disagreements.append({"kernel": r["kernel"], "what": f"real launch changed {arr}{[int(i) for i in idx]} but no model task writes it"})
            pk["disagree"] += 1
            break
  skipped = {}
  for r in recorder.records:
    if r.get("skip"):
      skipped[r["kernel"]] = r["skip"]
  return {"launches": len(writes_by_rec), "tasks": sum(v["tasks"] for v in per_kernel.values()), "kernels": per_kernel, "disagreements": disagreements,
          "skipped": skipped}


def guess_static(n, r):
  return None


def run_driver(lines):
  p = subprocess.run(["lake", "env", "lean", "--run", "Driver/Main.lean"], cwd=LEAN, input="\n".join(lines) + "\n", capture_output=True, text=True)
  if p.returncode != 0:
    raise RuntimeError("lean driver failed: " + p.stderr[-3000:])
  out = p.stdout.split("\n")
  if out and out[-1] == "":
    out.pop()
  return out


def parse_writes(line):
  ws = []
  body = line[2:].strip()
  if body:
    for wtxt in body.split(";"):
      arr, idx, kd, val = wtxt.split("|")
      idx = tuple(int(x) for x in idx.split(",")) if idx else ()
      vk, vv = val.split(":", 1)
      ws.append((arr, idx, kd, vk, vv))
  return ws


def replay_alloc(recorder, ri):
  """Serial replay (ascending task order = Warp's CPU schedule) to reconstruct the values returned by allocating atomics.
  Fix-point over passes: allocation results feed guards that decide later atomics."""
  r = recorder.records[ri]
  sig = recorder.sigs[r["kernel"]]
  ks = sig["kernel"]
  alloc_names = [n for n, t in ks["scalars"] if n.startswith("alloc")]
  site_arr = {a: arr for a, arr in sig.get("alloc_sites", [])}
  head = ["clr"] + [encode_array(pn, r["before"][pn], t) for pn, t in ks["arrays"]]
  allocs = {tuple(t): {a: 0 for a in alloc_names} for t in r["tids"]}
  final_lines = None
  for _ in range(5):
    lines = list(head)
    for tid in r["tids"]:
      toks = [str(allocs[tuple(tid)][t[1:]]) if t.startswith("@") else t for t in r["alloc_toks"]]
      lines.append(f"k32 {r['kernel']} {len(tid)} " + " ".join(str(int(x)) for x in tid) + (" " + " ".join(toks) if toks else ""))
    out = run_driver(lines)[len(head):]
    counters = {}
    new = {}
    for tid, line in zip(r["tids"], out):
      cur = {}
      if line.startswith("W"):
        used = set()
        for arr, idx, kd, vk, vv in parse_writes(line):
          if kd in ("alloc", "aadd", "asub") and vk == "i":
            key = (arr, idx)
            if key not in counters:
              try:
                counters[key] = int(np.asarray(r["before"][arr][idx]))
              except Exception:
                counters[key] = 0
            if kd == "alloc":
              # the allocation site: first not-yet-used alloc parameter whose array matches
              for a in alloc_names:
                if a not in used and site_arr.get(a, arr) == arr:
                  cur[a] = counters[key]
                  used.add(a)
                  break
            counters[key] += int(vv) if kd != "asub" else -int(vv)
      new[tuple(tid)] = {a: cur.get(a, 0) for a in alloc_names}
    final_lines = lines
    if new == allocs:
      break
    allocs = new
  plan = [("ctl", ri)] * len(head) + [("task", ri, tid) for tid in r["tids"]]
  return final_lines, plan
