"""C34 Ray casting returns the nearest eligible hit."""
from __future__ import annotations
import numpy as np
from .common import Acc, result, search_result

ID = "C34"
LEAN_MODULES = ["MjwVerif.Props.C34"]
GEN_FUNCS = ["ray._ray_map", "ray._ray_eliminate", "ray._ray_quad", "ray.ray_plane", "ray.ray_sphere", "ray.ray_ellipsoid", "ray.ray_box", "ray.ray_capsule", "ray.ray_cylinder", "ray.ray_geom"]
LEVEL_TEXT = ("Theorems over the reals about the ray/primitive functions regenerated from ray.py on every run: _ray_map is the change to the geom frame (distance preserving for rotations); "
              "_ray_quad returns the smallest non-negative root (a>0, det>=MINVAL) or -1; ray_sphere / ray_plane / ray_ellipsoid / ray_box: a returned x>=0 is a point on the surface, it is the nearest "
              "hit, the normal is the unit outward normal, misses return (-1,0); _ray_eliminate is exactly the group/static/exclude/alpha rule; ray_geom dispatches by type. "
              "Capsule/cylinder/triangle: hit-on-surface only (`_partial`). The nearest-hit reduction over geoms, the eligibility rule as wired into the kernels, and the BVH path are compared with "
              "mujoco.mj_ray (distance, hit/miss, geom id, normal) on random scenes that contain, in rotation, every kind of geom the rule distinguishes (world-body geoms, jointless bodies and chains "
              "of them hanging off the world, mocap bodies, jointless children of moving bodies, groups 0..5 and out-of-range groups, alpha-0 geoms, alpha-0 / visible materials) under a full rotation "
              "of flg_static x geomgroup (none / random / target group off / only target group) x bodyexclude (none / target body / welded body / world / random); rays() with per-ray excluded "
              "bodies is compared with ray() ray by ray on both paths (sampled).")
LEVEL_NOTE = ("C34_partial: capsule/cylinder nearest-ness, triangle/mesh/hfield/flex rays, the per-world reduction and BVH traversal are sampled only (one world; primitives only). Rays for which "
              "MuJoCo's own answer flips under a 2e-5 perturbation (grazing / edge rays) are not judged. Trusted: Lean kernel + Mathlib, tier-A translator.")
ASSUMPTIONS = ["oracle mujoco.mj_ray with the same geomgroup / flg_static / bodyexclude (geomgroup entries 0/1 or no mask)", "mju_rayGeom as arbiter when two surfaces coincide along a ray"]


GT = ["sphere", "capsule", "box", "ellipsoid", "cylinder"]
ASSET = ('<asset><material name="c34minv" rgba="0.5 0.5 0.5 0"/><material name="c34mvis" rgba="0.5 0.5 0.5 1"/></asset>')


def _scene(rng, c):
  """random forest + (in rotation) every kind of geom the eligibility rule distinguishes:
  world-body geoms, geoms on jointless bodies hanging off the world (body id != 0, welded to the world), nested ones, mocap bodies,
  jointless children of moving bodies (NOT static), groups 0..5 and out-of-range groups, alpha-0 geoms, alpha-0 materials,
  visible material over an alpha-0 geom colour."""
  import re
  from harness.gen import models
  f = models._f
  wb, sp = models.random_tree(rng, nbody=int(rng.integers(1, 5)), joint_types=("free", "hinge"), geom_types=GT, spread=0.5, static_geoms=int(rng.integers(0, 3)), sites=False)
  if c % 2 == 0:   # jointless child of a moving body: weld id != 0, stays eligible when flg_static is False
    k = wb.find("</body>")
    wb = wb[:k] + f'<body name="c34jl" pos="{f(rng.uniform(-0.3, 0.3, size=3))}">' + models._geom(rng, "c34gjl", GT) + "</body>\n" + wb[k:]

  def place():
    p = rng.uniform(-0.8, 0.8, size=3)
    p[2] = rng.uniform(0.3, 1.5)
    q = rng.normal(size=4)
    return f'pos="{f(p)}" quat="{f(q / np.linalg.norm(q))}"'

  world = []
  kind = c % 3
  if kind in (0, 2):   # chain of jointless bodies off the world
    world.append(f'    <body name="c34w0" {place()}>{models._geom(rng, "c34gw0", GT)}'
                 f'<body name="c34w1" pos="{f(rng.uniform(-0.3, 0.3, size=3))}">{models._geom(rng, "c34gw1", GT)}</body></body>')
  if kind == 1:        # single jointless body off the world
    world.append(f'    <body name="c34w0" {place()}>{models._geom(rng, "c34gw0", GT)}</body>')
  if kind in (1, 2):   # mocap body (MuJoCo gives it its own weld id: not static)
    world.append(f'    <body name="c34mc" mocap="true" {place()}>{models._geom(rng, "c34gmc", GT)}</body>')
  xml = models.wrap(wb + "\n" + "\n".join(world), floor=rng.random() < 0.7, extra=ASSET,
                    compiler='<compiler angle="radian" inertiagrouprange="-3 8"/>')   # out-of-range groups still give mass
  xml = xml.replace("<worldbody>", '<worldbody><camera name="c34cam" pos="0 -3 1" xyaxes="1 0 0 0 0 1"/>', 1)
  cnt = [int(rng.integers(0, 8))]

  def deco(mo):
    cnt[0] += 1
    grp = int(rng.integers(0, 6)) if rng.random() < 0.85 else int(rng.choice([7, -2]))
    s = mo.group(0) + f' group="{grp}"'
    if cnt[0] % 4 == 0:
      s += [' rgba="0.3 0.3 0.3 0"', ' material="c34minv"', ' material="c34mvis" rgba="0.3 0.3 0.3 0"', ' material="c34mvis"'][(cnt[0] // 4) % 4]
    return s
  xml = re.sub(r'<geom name="[^"]+"', deco, xml)
  return xml


def _ref(mujoco, mjm, mjd, pnt, vec, gg, flg_static, bodyexclude):
  gid = np.full(1, -1, dtype=np.int32)
  nrm = np.zeros(3)
  dist = mujoco.mj_ray(mjm, mjd, pnt, vec, None if gg is None else gg.astype(np.uint8), 1 if flg_static else 0, int(bodyexclude), gid, nrm)
  return float(dist), int(gid[0]), nrm


def _geom_dist(mujoco, mjm, mjd, g, pnt, vec):
  """distance along the ray to geom g alone (MuJoCo's primitive routine)"""
  return float(mujoco.mju_rayGeom(mjd.geom_xpos[g], mjd.geom_xmat[g], mjm.geom_size[g], pnt, vec, int(mjm.geom_type[g])))


def _ill_conditioned(mujoco, mjm, mjd, pnt, vec, gg, flg_static, bodyexclude, dist, gid, nn, tol):
  """True if MuJoCo itself returns the observed answer for a ray perturbed by ~1e-5 (grazing rays, rays through an edge where
  the nearest geom / the face normal switches): such an input does not decide anything in float32."""
  h = 2e-5
  for k in range(12):
    e = np.zeros(3)
    e[k % 3] = h if (k // 3) % 2 == 0 else -h
    p2, v2 = (pnt + e, vec) if k < 6 else (pnt, (vec + e) / np.linalg.norm(vec + e))
    d2, g2, n2 = _ref(mujoco, mjm, mjd, p2, v2, gg, flg_static, bodyexclude)
    if (d2 >= 0) != (dist >= 0):
      continue
    if d2 < 0:
      return True
    if abs(d2 - dist) <= tol and (g2 == gid) and float(np.linalg.norm(n2 - nn)) <= 5e-3:
      return True
  return False


def _run(ctx, ncases, nrays):
  import mujoco
  import warp as wp
  import mujoco_warp as mjw
  from mujoco_warp._src import types as _t
  from harness.gen import models
  rng = np.random.default_rng(ctx.seed * 1000 + 34)
  acc = Acc()
  for c in range(ncases):
    xml = _scene(rng, c)
    mjm = mujoco.MjModel.from_xml_string(xml)
    mjd = mujoco.MjData(mjm)
    models.random_state(rng, mjm, mjd, qpos_scale=0.3, unnormalized=False)
    if mjm.nmocap:
      mjd.mocap_pos[:] += rng.normal(size=mjd.mocap_pos.shape) * 0.2
      q = rng.normal(size=mjd.mocap_quat.shape)
      mjd.mocap_quat[:] = q / np.linalg.norm(q, axis=1, keepdims=True)
    mujoco.mj_forward(mjm, mjd)
    m = mjw.put_model(mjm)
    d = mjw.put_data(mjm, mjd, nworld=1)
    mjw.kinematics(m, d)
    gbody = mjm.geom_bodyid
    weld0 = [g for g in range(mjm.ngeom) if mjm.body_weldid[gbody[g]] == 0]
    weld0_nw = [g for g in weld0 if gbody[g] != 0]
    weld0_bodies = sorted({int(gbody[g]) for g in weld0_nw})
    matid = mjm.geom_matid
    invisible = [g for g in range(mjm.ngeom) if (matid[g] < 0 and mjm.geom_rgba[g][3] == 0) or (matid[g] >= 0 and mjm.mat_rgba[matid[g]][3] == 0)]
    # the BVH-accelerated path of ray() (render context): same answer as the brute-force path
    rc = None
    try:
      groups = sorted(set(range(6)) | {int(x) for x in mjm.geom_group})
      rc = mjw.create_render_context(mjm, nworld=1, cam_res=(4, 4), render_rgb=False, render_depth=True, render_seg=True, enabled_geom_groups=groups)
      mjw.refit_bvh(m, d, rc)
      # the leaf box of every convex geom must contain the geom: exact extents along the world axes from support functions
      from harness.props.c04 import _support
      lo, up, ids = rc.lower.numpy(), rc.upper.numpy(), rc.enabled_geom_ids.numpy()
      for li, g in enumerate(ids.tolist()):
        for k in range(3):
          e = np.zeros(3); e[k] = 1.0
          hi_, lo_ = _support(mjm, mjd, g, e), _support(mjm, mjd, g, -e)
          if hi_ is None or lo_ is None:
            continue
          acc.evals += 1
          if up[li][k] < hi_ - 1e-4 or lo[li][k] > -lo_ + 1e-4:
            acc.find(f"BVH leaf box of geom {g} (type {int(mjm.geom_type[g])}) does not contain the geom along axis {k}: box [{lo[li][k]:.5g}, {up[li][k]:.5g}], geom [{-lo_:.5g}, {hi_:.5g}]",
                     "bvh._compute_bvh_bounds", "leaf-box-too-small", xml=xml, geom=g, qpos=mjd.qpos.tolist())
            break
      acc.hit("bvh-bounds-checked")
    except Exception as e:
      acc.hit("bvh-context-unavailable:" + type(e).__name__)
      rc = None
    done = []    # (pnt, vec, flg_static, gg, bodyexclude, brute (dist, geom), bvh (dist, geom) or None)
    for r in range(nrays):
      # ---- ray: every 3rd one is aimed from close by at a geom of a body welded to the world (the static rule decides the answer)
      mode = 4 if (r % 3 == 0 and weld0) else int(rng.integers(0, 4))
      if mode == 4:
        tg = int(rng.choice(weld0_nw)) if weld0_nw and rng.random() < 0.75 else int(rng.choice(weld0))
        tgt = mjd.geom_xpos[tg] + rng.normal(size=3) * 0.03
        if mjm.geom_type[tg] == 0:
          tgt = tgt + mjd.geom_xmat[tg].reshape(3, 3)[:, :2] @ rng.uniform(-1, 1, size=2)
        off = rng.normal(size=3)
        pnt = tgt + off / np.linalg.norm(off) * rng.uniform(0.35, 0.9)
        vec = tgt - pnt
      elif mode == 3:   # toward an extremity of an elongated geom (away from its centre: where wrong bounds / axes show)
        elong = [k for k in range(mjm.ngeom) if mjm.geom_type[k] in (3, 5)]    # capsules and cylinders first
        tg = int(rng.choice(elong)) if elong and rng.random() < 0.8 else int(rng.integers(mjm.ngeom))
        R = mjd.geom_xmat[tg].reshape(3, 3)
        ext = float(mjm.geom_size[tg][1] if mjm.geom_type[tg] in (3, 5) else mjm.geom_size[tg][2])   # capsule/cylinder half length, else z half size
        tgt = mjd.geom_xpos[tg] + R[:, 2] * ext * float(rng.choice([-0.9, 0.9]))
        pnt = tgt + rng.normal(size=3) * 1.5
        vec = tgt - pnt
      elif mode == 0:   # from outside toward a geom
        tg = int(rng.integers(mjm.ngeom))
        tgt = mjd.geom_xpos[tg] + rng.normal(size=3) * 0.05
        pnt = tgt + rng.normal(size=3) * 1.5
        vec = tgt - pnt
      elif mode == 1:  # from inside a geom
        tg = int(rng.integers(mjm.ngeom))
        pnt = mjd.geom_xpos[tg] + rng.normal(size=3) * 0.01
        vec = rng.normal(size=3)
      else:
        tg = int(rng.integers(mjm.ngeom))
        pnt = rng.normal(size=3) * 1.0 + np.array([0, 0, 1.0])
        vec = rng.normal(size=3)
      vec = vec / np.linalg.norm(vec)
      # ---- filters, in rotation (2 x 4 x 5 combinations; the body rotation is shifted per case)
      flg_static = bool((r + c) % 2)
      gk = (r // 2) % 4
      tgrp = min(5, max(0, int(mjm.geom_group[tg])))
      if gk == 0:
        gg = None
      elif gk == 1:
        gg = rng.integers(0, 2, size=6).astype(np.int32)
      elif gk == 2:    # the aimed-at geom's group is switched off
        gg = rng.integers(0, 2, size=6).astype(np.int32); gg[tgrp] = 0
      else:            # only the aimed-at geom's group is on
        gg = np.zeros(6, dtype=np.int32); gg[tgrp] = 1
      bk = (r // 8 + c) % 5
      if bk == 0:
        bodyexclude = -1
      elif bk == 1:
        bodyexclude = int(gbody[tg])
      elif bk == 2:
        bodyexclude = int(rng.choice(weld0_bodies)) if weld0_bodies else 0
      elif bk == 3:
        bodyexclude = 0
      else:
        bodyexclude = int(rng.integers(0, mjm.nbody))
      dist_ref, geomid_ref, nrm_ref = _ref(mujoco, mjm, mjd, pnt, vec, gg, flg_static, bodyexclude)
      # which rules decided this answer (vacuity statistics only)
      d0, g0, _ = _ref(mujoco, mjm, mjd, pnt, vec, None, True, -1)
      if g0 >= 0:
        if _ref(mujoco, mjm, mjd, pnt, vec, None, flg_static, -1)[1] != g0:
          acc.hit("static-rule-decides")
          if gbody[g0] != 0:
            acc.hit("static-rule-decides:jointless-body-off-world")
        elif not flg_static and mjm.body_jntnum[gbody[g0]] == 0 and geomid_ref == g0:
          # jointless but not welded to the world for MuJoCo (its weld id is not 0): nearest hit although flg_static is off
          acc.hit("static-off:mocap-body-kept" if mjm.body_mocapid[gbody[g0]] >= 0 else "static-off:jointless-child-of-moving-body-kept")
        if gg is not None and _ref(mujoco, mjm, mjd, pnt, vec, gg, True, -1)[1] != g0:
          acc.hit("group-rule-decides" + (":out-of-range-group" if not 0 <= mjm.geom_group[g0] <= 5 else ""))
        if bodyexclude >= 0 and _ref(mujoco, mjm, mjd, pnt, vec, None, True, bodyexclude)[1] != g0:
          acc.hit("bodyexclude-decides")
      for g in invisible:
        dinv = _geom_dist(mujoco, mjm, mjd, g, pnt, vec)
        if dinv >= 0 and (d0 < 0 or dinv < d0):
          acc.hit("invisible-geom-in-front")
          break
      p = wp.array(np.array([[pnt]], dtype=np.float32), dtype=wp.vec3)
      v = wp.array(np.array([[vec]], dtype=np.float32), dtype=wp.vec3)
      ggv = None if gg is None else _t.vec6(*[float(x) for x in gg])
      replay = dict(xml=xml, pnt=pnt.tolist(), vec=vec.tolist(), flg_static=flg_static, bodyexclude=bodyexclude, geomgroup=None if gg is None else gg.tolist(), qpos=mjd.qpos.tolist(),
                    mocap_pos=mjd.mocap_pos.tolist(), mocap_quat=mjd.mocap_quat.tolist())
      try:
        dist, gid, nrm = mjw.ray(m, d, p, v, ggv, flg_static, bodyexclude)
      except Exception as e:
        acc.find(f"ray raised {type(e).__name__}: {e}", "ray.ray", "crash", xml=xml)
        break
      acc.evals += 1
      dg, gg_id, nn = float(dist.numpy()[0, 0]), int(gid.numpy()[0, 0]), nrm.numpy()[0, 0].astype(np.float64)
      bv = None
      if rc is not None:
        try:
          db, gb, nb = mjw.ray(m, d, p, v, ggv, flg_static, bodyexclude, rc=rc)
          dbv, gbv = float(db.numpy()[0, 0]), int(gb.numpy()[0, 0])
          bv = (dbv, gbv)
          acc.evals += 1
          if (dbv >= 0) != (dg >= 0) or (dg >= 0 and abs(dbv - dg) > 1e-4 * (1 + abs(dg))):
            acc.find(f"BVH ray path gives distance {dbv:.6g} (geom {gbv}), brute force {dg:.6g} (geom {gg_id})", "ray.ray (BVH) / bvh bounds", "bvh-vs-bruteforce", **replay)
          acc.hit("bvh-path")
        except TypeError:
          rc = None
      done.append((pnt, vec, flg_static, gg, bodyexclude, (dg, gg_id), bv))
      hit_ref = dist_ref >= 0
      if hit_ref:
        acc.distinct.add((c, r))
      tol = 2e-4 * (1 + abs(dist_ref))
      filt = f"flg_static={flg_static}, bodyexclude={bodyexclude}, geomgroup={None if gg is None else gg.tolist()}"
      if (dg >= 0) != hit_ref or (hit_ref and abs(dg - dist_ref) > tol):
        if _ill_conditioned(mujoco, mjm, mjd, pnt, vec, gg, flg_static, bodyexclude, dg, gg_id, nn, tol):
          acc.hit("ill-conditioned-ray-skipped")
          continue
        where = ""
        if gg_id >= 0:
          b = int(gbody[gg_id])
          where = f"; reported geom is on body {b} (weld id {int(mjm.body_weldid[b])}, group {int(mjm.geom_group[gg_id])})"
        acc.find(f"ray distance {dg:.6g} (geom {gg_id}) vs mj_ray {dist_ref:.6g} (geom {geomid_ref}) with {filt}{where}", "ray.ray", "vs-mujoco", **replay)
        continue
      if not hit_ref:
        acc.hit("miss")
        if dg != -1.0 or gg_id != -1:
          acc.find(f"no hit, but outputs are distance {dg!r}, geom {gg_id} (expected -1, -1)", "ray.ray", "miss-outputs", **replay)
        continue
      acc.hit(["outside", "inside", "random", "extremity", "at-static-geom"][mode])
      if gg_id != geomid_ref:
        # same distance, different geom: a defect unless the two surfaces really coincide along the ray
        dgeo = _geom_dist(mujoco, mjm, mjd, gg_id, pnt, vec) if 0 <= gg_id < mjm.ngeom else -1.0
        if not (dgeo >= 0 and abs(dgeo - dist_ref) <= tol):
          acc.find(f"geom id {gg_id} vs mj_ray {geomid_ref} at distance {dist_ref:.6g} with {filt}", "ray.ray", "vs-mujoco-geomid", **replay)
        else:
          acc.hit("coincident-surfaces")
        continue
      if abs(np.linalg.norm(nn) - 1) > 1e-3:
        acc.find(f"hit normal is not unit ({nn.tolist()})", "ray.ray", "normal", xml=xml, pnt=pnt.tolist(), vec=vec.tolist())
      elif float(np.linalg.norm(nn - nrm_ref)) > 5e-3:
        if _ill_conditioned(mujoco, mjm, mjd, pnt, vec, gg, flg_static, bodyexclude, dg, gg_id, nn, tol):
          acc.hit("ill-conditioned-ray-skipped")
        else:
          acc.find(f"hit normal {nn.tolist()} vs mj_ray {nrm_ref.tolist()} (geom {gg_id}, type {int(mjm.geom_type[gg_id])}, distance {dg:.6g})", "ray.ray", "vs-mujoco-normal", **replay)
      else:
        acc.hit("normal-compared")
    # ---- rays(): many rays at once with a per-ray excluded body must give what ray() gave for each of them
    batches = {}
    for i, t in enumerate(done):
      batches.setdefault((t[2], None if t[3] is None else tuple(t[3].tolist())), []).append(i)
    for (fs, ggk), idx in batches.items():
      n = len(idx)
      p = wp.array(np.array([[done[i][0] for i in idx]], dtype=np.float32), dtype=wp.vec3)
      v = wp.array(np.array([[done[i][1] for i in idx]], dtype=np.float32), dtype=wp.vec3)
      be = wp.array(np.array([done[i][4] for i in idx], dtype=np.int32), dtype=int)
      ggv = _t.vec6(*([-1.0] * 6)) if ggk is None else _t.vec6(*[float(x) for x in ggk])
      for path, ctx_rc in (("brute", None), ("bvh", rc)):
        if path == "bvh" and (rc is None or any(done[i][6] is None for i in idx)):
          continue
        od, og, on = wp.zeros((1, n), dtype=float), wp.zeros((1, n), dtype=int), wp.zeros((1, n), dtype=wp.vec3)
        try:
          mjw.rays(m, d, p, v, ggv, fs, be, od, og, on, ctx_rc)
        except Exception as e:
          acc.find(f"rays raised {type(e).__name__}: {e}", "ray.rays", "crash", xml=xml)
          break
        odn, ogn = od.numpy()[0], og.numpy()[0]
        for j, i in enumerate(idx):
          one = done[i][5] if path == "brute" else done[i][6]
          acc.evals += 1
          if float(odn[j]) != one[0] or int(ogn[j]) != one[1]:
            acc.find(f"rays() ({path}) gives ({float(odn[j]):.6g}, geom {int(ogn[j])}) for ray {j} of {n}, ray() gave ({one[0]:.6g}, geom {one[1]}) for the same ray and filters", "ray.rays",
                     "rays-vs-ray", xml=xml, pnts=[done[k][0].tolist() for k in idx], vecs=[done[k][1].tolist() for k in idx], flg_static=fs, geomgroup=ggk, bodyexclude=[done[k][4] for k in idx],
                     qpos=mjd.qpos.tolist())
            break
        acc.hit("rays-batch:" + path)
    acc.sample({"ngeom": int(mjm.ngeom), "nbody": int(mjm.nbody), "bodies_welded_to_world": weld0_bodies, "invisible_geoms": invisible})
  return acc


RULE = ("random scenes of free/hinged bodies + static geoms + optional floor with sphere/capsule/box/ellipsoid/cylinder geoms; every scene also has (rotating) a jointless body or chain of jointless bodies "
        "attached to the world, a mocap body, a jointless child of a moving body; every geom gets a random group (15%: out of range 7 / -2), every 4th geom is alpha-0 / has an alpha-0 material / has a "
        "visible material over an alpha-0 colour / a visible material. Rays: aimed at geoms from outside, started inside geoms, toward extremities, random, and every 3rd ray from close by at a geom of a "
        "body welded to the world. Per ray a deterministic rotation of flg_static (2) x geomgroup (none, random, target's group off, only target's group) x bodyexclude (none, target's body, a welded "
        "body, world, random). Compared with mujoco.mj_ray: hit/miss and distance, (-1,-1) on a miss, geom id (mju_rayGeom decides coincident surfaces), normal (unit; equal to mj_ray's within 5e-3); "
        "mismatches that MuJoCo itself reproduces for a 2e-5 perturbed ray are skipped and counted. BVH path (render context with all groups enabled) vs brute force per ray; rays() batches with "
        "per-ray bodyexclude vs the single-ray results, both paths, exact. hits: which rule decided the reference answer (static / group / bodyexclude / invisible geom in front). distinct = rays that hit")


def correspondence(ctx):
  from harness.corr import func_corr
  fc = func_corr.run(["ray._ray_quad", "ray.ray_sphere", "ray.ray_plane", "ray.ray_ellipsoid", "ray.ray_box", "ray.ray_capsule", "ray.ray_cylinder", "ray._ray_map", "ray._ray_triangle"],
                     ncases=192 if ctx.thorough else 48, seed=ctx.seed)
  acc = _run(ctx, 24 if ctx.thorough else 6, 40)
  return result(acc, RULE, fc=fc)


def search(ctx, breaks):
  acc = _run(ctx, 40, 40)
  return search_result(acc, "mujoco.mj_ray")
