"""C34 Ray casting returns the nearest eligible hit."""
from __future__ import annotations
import numpy as np
from .common import Acc, result, search_result

ID = "C34"
LEAN_MODULES = ["MjwVerif.Props.C34"]
GEN_FUNCS = ["ray._ray_map", "ray._ray_eliminate", "ray._ray_quad", "ray.ray_plane", "ray.ray_sphere", "ray.ray_ellipsoid", "ray.ray_box", "ray.ray_capsule", "ray.ray_cylinder", "ray.ray_geom"]
LEVEL_TEXT = ("Theorems over the reals about the ray/primitive functions regenerated from ray.py on every run: _ray_map is the change to the geom frame (distance preserving for rotations); "
              "_ray_quad returns the smallest non-negative root (a>0, det>=MINVAL) or -1; ray_sphere / ray_plane / ray_ellipsoid / ray_box: a returned x>=0 is a point on the surface, it is the nearest "
              "hit, the normal is the unit outward normal, misses return (-1,0); _ray_eliminate is exactly the group/static/exclude/alpha rule; ray_geom dispatches by type. "
              "Capsule/cylinder/triangle: hit-on-surface only (`_partial`). The nearest-hit reduction over geoms and the BVH path are compared with mujoco.mj_ray on random scenes (sampled).")
LEVEL_NOTE = "C34_partial: capsule/cylinder nearest-ness, triangle/mesh/hfield/flex rays, the per-world reduction and BVH traversal are sampled only. Trusted: Lean kernel + Mathlib, tier-A translator."
ASSUMPTIONS = ["oracle mujoco.mj_ray with the same geomgroup / flg_static / bodyexclude"]


def _run(ctx, ncases, nrays):
  import mujoco
  import warp as wp
  import mujoco_warp as mjw
  from harness.gen import models
  rng = np.random.default_rng(ctx.seed * 1000 + 34)
  acc = Acc()
  for c in range(ncases):
    wb, sp = models.random_tree(rng, nbody=int(rng.integers(1, 5)), joint_types=("free", "hinge"), geom_types=["sphere", "capsule", "box", "ellipsoid", "cylinder"], spread=0.5,
                                static_geoms=int(rng.integers(0, 3)), sites=False)
    xml = models.wrap(wb, floor=rng.random() < 0.7)
    xml = xml.replace("<worldbody>", '<worldbody><camera name="c34cam" pos="0 -3 1" xyaxes="1 0 0 0 0 1"/>', 1)
    # random groups
    xml = xml.replace('type="sphere"', f'type="sphere" group="{int(rng.integers(0, 6))}"')
    mjm = mujoco.MjModel.from_xml_string(xml)
    mjd = mujoco.MjData(mjm)
    models.random_state(rng, mjm, mjd, qpos_scale=0.3, unnormalized=False)
    mujoco.mj_forward(mjm, mjd)
    m = mjw.put_model(mjm)
    d = mjw.put_data(mjm, mjd, nworld=1)
    mjw.kinematics(m, d)
    # the BVH-accelerated path of ray() (render context): same answer as the brute-force path
    rc = None
    try:
      rc = mjw.create_render_context(mjm, nworld=1, cam_res=(4, 4), render_rgb=False, render_depth=True, render_seg=True, enabled_geom_groups=[0, 1, 2, 3, 4, 5])
      mjw.refit_bvh(m, d, rc)
      # the leaf box of every convex geom must contain the geom: exact extents along the world axes from support functions
      from harness.props.c04 import _support
      lo, up, ids = rc.lower.numpy(), rc.upper.numpy(), rc.enabled_geom_ids.numpy()
      for li, g in enumerate(ids.tolist()):
        for k in range(3):
          e = np.zeros(3); e[k] = 1.0
          hi_, lo_ = _support(mjm, mjd, g, e), _support(mjm, mjd, g, -e)
          if hi_ is None or lo_ is None:
            continue
          acc.evals += 1
          if up[li][k] < hi_ - 1e-4 or lo[li][k] > -lo_ + 1e-4:
            acc.find(f"BVH leaf box of geom {g} (type {int(mjm.geom_type[g])}) does not contain the geom along axis {k}: box [{lo[li][k]:.5g}, {up[li][k]:.5g}], geom [{-lo_:.5g}, {hi_:.5g}]",
                     "bvh._compute_bvh_bounds", "leaf-box-too-small", xml=xml, geom=g, qpos=mjd.qpos.tolist())
            break
      acc.hit("bvh-bounds-checked")
    except Exception as e:
      acc.hit("bvh-context-unavailable:" + type(e).__name__)
      rc = None
    flg_static = bool(rng.random() < 0.7)
    bodyexclude = int(rng.integers(-1, mjm.nbody))
    gg = None
    if rng.random() < 0.5:
      gg = rng.integers(0, 2, size=6).astype(np.int32)
    for r in range(nrays):
      mode = int(rng.integers(0, 4))
      if mode == 3:   # toward an extremity of an elongated geom (away from its centre: where wrong bounds / axes show)
        elong = [k for k in range(mjm.ngeom) if mjm.geom_type[k] in (3, 5)]    # capsules and cylinders first
        g = int(rng.choice(elong)) if elong and rng.random() < 0.8 else int(rng.integers(mjm.ngeom))
        R = mjd.geom_xmat[g].reshape(3, 3)
        ext = float(mjm.geom_size[g][1] if mjm.geom_type[g] in (3, 5) else mjm.geom_size[g][2])   # capsule/cylinder half length, else z half size
        tgt = mjd.geom_xpos[g] + R[:, 2] * ext * float(rng.choice([-0.9, 0.9]))
        pnt = tgt + rng.normal(size=3) * 1.5
        vec = tgt - pnt
      elif mode == 0:   # from outside toward a geom
        tgt = mjd.geom_xpos[int(rng.integers(mjm.ngeom))] + rng.normal(size=3) * 0.05
        pnt = tgt + rng.normal(size=3) * 1.5
        vec = tgt - pnt
      elif mode == 1:  # from inside a geom
        pnt = mjd.geom_xpos[int(rng.integers(mjm.ngeom))] + rng.normal(size=3) * 0.01
        vec = rng.normal(size=3)
      else:
        pnt = rng.normal(size=3) * 1.0 + np.array([0, 0, 1.0])
        vec = rng.normal(size=3)
      vec = vec / np.linalg.norm(vec)
      geomid_ref = np.zeros(1, dtype=np.int32)
      dist_ref = mujoco.mj_ray(mjm, mjd, pnt, vec, None if gg is None else gg.astype(np.uint8), 1 if flg_static else 0, bodyexclude, geomid_ref)
      p = wp.array(np.array([[pnt]], dtype=np.float32), dtype=wp.vec3)
      v = wp.array(np.array([[vec]], dtype=np.float32), dtype=wp.vec3)
      ggv = None
      if gg is not None:
        ggv = mjw.vec6(*[int(x) for x in gg]) if hasattr(mjw, "vec6") else None
      try:
        if ggv is None and gg is not None:
          from mujoco_warp._src import types as _t
          ggv = _t.vec6(*[float(x) for x in gg])
        dist, gid, nrm = mjw.ray(m, d, p, v, ggv, flg_static, bodyexclude)
      except Exception as e:
        acc.find(f"ray raised {type(e).__name__}: {e}", "ray.ray", "crash", xml=xml)
        break
      acc.evals += 1
      dg, gg_id, nn = float(dist.numpy()[0, 0]), int(gid.numpy()[0, 0]), nrm.numpy()[0, 0]
      if rc is not None:
        try:
          db, gb, nb = mjw.ray(m, d, p, v, ggv, flg_static, bodyexclude, rc=rc)
          dbv, gbv = float(db.numpy()[0, 0]), int(gb.numpy()[0, 0])
          acc.evals += 1
          if (dbv >= 0) != (dg >= 0) or (dg >= 0 and abs(dbv - dg) > 1e-4 * (1 + abs(dg))):
            acc.find(f"BVH ray path gives distance {dbv:.6g} (geom {gbv}), brute force {dg:.6g} (geom {gg_id})", "ray.ray (BVH) / bvh bounds", "bvh-vs-bruteforce", xml=xml, pnt=pnt.tolist(),
                     vec=vec.tolist(), flg_static=flg_static, bodyexclude=bodyexclude, geomgroup=None if gg is None else gg.tolist(), qpos=mjd.qpos.tolist())
          acc.hit("bvh-path")
        except TypeError:
          rc = None
      hit_ref = dist_ref >= 0
      if hit_ref:
        acc.distinct.add((c, r))
      tol = 2e-4 * (1 + abs(dist_ref))
      if (dg >= 0) != hit_ref or (hit_ref and abs(dg - dist_ref) > tol):
        acc.find(f"ray distance {dg:.6g} (geom {gg_id}) vs mj_ray {dist_ref:.6g} (geom {int(geomid_ref[0])})", "ray.ray", "vs-mujoco", xml=xml, pnt=pnt.tolist(), vec=vec.tolist(),
                 flg_static=flg_static, bodyexclude=bodyexclude, geomgroup=None if gg is None else gg.tolist(), qpos=mjd.qpos.tolist())
      elif hit_ref:
        if abs(np.linalg.norm(nn) - 1) > 1e-3:
          acc.find(f"hit normal is not unit ({nn.tolist()})", "ray.ray", "normal", xml=xml, pnt=pnt.tolist(), vec=vec.tolist())
        acc.hit(["outside", "inside", "random", "extremity"][mode])
    acc.sample({"ngeom": int(mjm.ngeom), "flg_static": flg_static, "bodyexclude": bodyexclude, "geomgroup": None if gg is None else gg.tolist()})
  return acc


RULE = ("random scenes of free/hinged bodies + static geoms + optional floor with sphere/capsule/box/ellipsoid/cylinder geoms and random groups; rays aimed at geoms from outside, started inside "
        "geoms, and random; random geomgroup / flg_static / bodyexclude; distance and hit/miss vs mujoco.mj_ray, unit normal, and the BVH-accelerated path (render context) vs the brute-force path; distinct = rays that hit")


def correspondence(ctx):
  from harness.corr import func_corr
  fc = func_corr.run(["ray._ray_quad", "ray.ray_sphere", "ray.ray_plane", "ray.ray_ellipsoid", "ray.ray_box", "ray.ray_capsule", "ray.ray_cylinder", "ray._ray_map", "ray._ray_triangle"],
                     ncases=192 if ctx.thorough else 48, seed=ctx.seed)
  acc = _run(ctx, 24 if ctx.thorough else 6, 40 if ctx.thorough else 24)
  return result(acc, RULE, fc=fc)


def search(ctx, breaks):
  acc = _run(ctx, 40, 40)
  return search_result(acc, "mujoco.mj_ray")
