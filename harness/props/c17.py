"""C17 No out-of-bounds access or crash on accepted inputs."""
from __future__ import annotations
import json
import os
import subprocess
import sys
import numpy as np
from .common import Acc, result, search_result

ID = "C17"
LEAN_MODULES = ["MjwVerif.Props.C17"]
GEN_FUNCS = ["constraint._equality_connect__kernel", "collision_core.write_contact", "island._flood_fill", "island._compact_dofs", "history._history_physical_index",
             "support.get_state___get_state"]
NEEDS_DRIVER = False
LEVEL_TEXT = ("In-bounds theorems (aliases of theorems proved about kernels regenerated from /repo on every run, each for ALL inputs): every data-dependent index is in range — rows handed out by the "
              "nefc counter in all 11 row builders (alloc <= r < alloc+k, r < njmax), contact and broadphase slots (< naconmax), the island DFS stack (<= ntree^2 = scratch size) and labels, the "
              "DOF-compaction maps, history-buffer physical indices, state get/set addresses. Thread-id / Model-lookup indices and the remaining kernels are exercised, as the property prescribes, "
              "with Warp's bounds-checked DEBUG build in a subprocess over random models, flag combinations (sleep), tiny and exact-fit capacities and the public functions "
              "(step/forward/get_state/set_state/contact_force/reset_data/set_length_range); invalid capacities must raise.")
LEVEL_NOTE = ("C17_partial: memory safety of tile/Cholesky/GJK/EPA/SDF/render kernels and of tid/Model-indexed accesses is only sampled (debug build). Two crashes found this way were repaired (fix: "
              "commits: set_length_range heap overflow, ZeroDivisionError with naconmax=0). Trusted: Lean kernel, tier-B translator, Warp's debug-mode bounds checks.")
ASSUMPTIONS = ["a process abort (assertion in warp/native/array.h) or an unexpected exception in the worker is the failure signal; ValueError/NotImplementedError = rejected"]
VERIF = os.path.abspath(os.path.join(os.path.dirname(__file__), "..", ".."))


def _call_site(stderr):
  """innermost mujoco_warp frame of the faulthandler traceback (most recent call first), e.g. 'island.tree_edges'"""
  import re
  for mo in re.finditer(r'File ".*?/mujoco_warp/_src/(\w+)\.py", line \d+ in (\w+)', stderr or ""):
    if mo.group(1) != "warp_util":
      return f"{mo.group(1)}.{mo.group(2)}"
  return None


def _run(ctx, ncases):
  acc = Acc()
  seed = ctx.seed * 1000 + 17
  skip = []
  for attempt in range(4):
    p = subprocess.run([sys.executable, os.path.join(VERIF, "harness", "props", "c17_worker.py"), str(seed), str(ncases), ",".join(str(k) for k in skip)],
                       capture_output=True, text=True, timeout=3000)
    last = None
    for line in p.stdout.split("\n"):
      line = line.strip()
      if not line.startswith("{"):
        continue
      try:
        ev = json.loads(line)
      except Exception:
        continue
      if "begin" in ev:
        last = ev["begin"]
      elif "end" in ev:
        if attempt and ev["end"] != "invalid" and ev["end"] in acc.distinct:
          last = None
          continue        # already counted in an earlier attempt
        acc.evals += 1
        st = ev["status"]
        acc.hit(st.split(":")[0])
        if ev["end"] == "invalid":
          if st != "rejected" and not attempt:
            acc.find(f"invalid configuration {ev['kw']} was not rejected ({st})", "io.make_data", "invalid-accepted", kw=ev["kw"])
        else:
          acc.distinct.add(ev["end"])
          if st.startswith("exception"):
            acc.find(f"public function raised {st[10:]}", "forward.step", "crash-exception", **{k: v for k, v in (last or {}).items() if k != "case"})
          elif st == "nonfinite":
            acc.find("non-finite state without an overflow bit", "forward.step", "nonfinite", **{k: v for k, v in (last or {}).items() if k != "case"})
        if last is not None and len(acc.samples) < 2:
          acc.sample({"nworld": last.get("nworld"), "caps": last.get("caps"), "sleep": last.get("sleep"), "status": st})
        last = None
    if p.returncode == 0:
      break
    tail = (p.stderr or "")
    site = _call_site(tail)
    caps = (last or {}).get("caps") or {}
    msg = [l for l in tail.split("\n") if "Assertion failed" in l or "At '" in l]
    # recorded finding C17-nnz-overflow-rows: a row dropped by an njmax_nnz overflow (reported!) is still counted in nefc but its type/id/D/aref are
    # never written; with a Data from make_data they are uninitialised and island.tree_edges indexes Model arrays with the garbage id
    known = site == "island.tree_edges" and "njmax_nnz" in caps and bool((last or {}).get("sleep"))
    acc.find(f"debug-build worker died (exit {p.returncode}) in {site or '?'}: {' '.join(msg)[-300:] or tail.strip()[-300:]}",
             site if known else "warp debug build", "oob-after-njmax_nnz-overflow" if known else "abort", call_site=site, **{k: v for k, v in (last or {}).items() if k != "case"})
    if last is None or "case" not in last:
      break
    skip.append(int(last["case"]))     # continue the sweep behind the aborting case
    acc.hit("restarted-after-abort")
  return acc


RULE = ("subprocess with wp.config.mode='debug' (bounds-checked arrays): random trees with all primitive geoms, limits/friction loss/actuator/sensor/optional connect or weld, 30% sleeping, "
        "both cones, dense/sparse, Euler/implicitfast/RK4, unnormalised quaternions, 1-3 worlds; capacities random small / exact fit / need-1 / default, optional nvmax; calls step x2, forward, "
        "get_state, set_state, contact_force, reset_data(mask), step, set_length_range; plus 5 invalid make_data configurations that must raise; distinct = completed cases")


def correspondence(ctx):
  acc = _run(ctx, 40 if ctx.thorough else 8)
  return result(acc, RULE)


def search(ctx, breaks):
  acc = _run(ctx, 80)
  return search_result(acc, "Warp debug build (bounds-checked) in a subprocess")
