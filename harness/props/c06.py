"""C06 Constrained acceleration is the convex-cost optimum."""
from __future__ import annotations
import numpy as np
from .common import Acc, result, search_result

ID = "C06"
LEAN_MODULES = ["MjwVerif.Props.C06"]
GEN_FUNCS = ["solver._eval_constraint", "solver._eval_pt", "solver._eval_cost"]
LEVEL_TEXT = ("Theorems (Mathlib convexity/calculus) with the row costs and forces taken from `_eval_constraint` as regenerated from solver.py on every run: each scalar row cost (quadratic, friction "
              "Huber-like, one-sided quadratic) is convex and force = -cost'; the Gauss cost c(a) = 1/2 (a-a0)^T M (a-a0) + sum_i s_i((J a - aref)_i) is convex for PSD M; its gradient is "
              "M(a-a0) - J^T f = M a - qfrc_smooth - J^T f (the solver's gradient); a zero gradient is a global minimiser and a small gradient bounds the suboptimality; the line-search polynomial "
              "functions are value/derivative/second derivative. NOT proved: that Newton/CG reach the tolerance. On the real code: qacc vs mujoco.mj_forward; an independent float64 KKT residual of the "
              "returned qacc computed from M, J (dense or sparse storage), aref, D; qfrc_constraint = J^T efc_force; independence of the solution from the solver's starting point (qacc_warmstart zero / "
              "near / far / warmstart disabled; worlds of one batch differing only in it). Besides random small trees, a size sweep puts a model in every host-side size regime of the solver (nv <= 32, "
              "33..50, 51..59, 60 dense; > 32 AUTO/sparse; > 60 sparse: thread partition of a constraint row, fused/unfused jv, plain/blocked Cholesky, padding) each run, all dofs constrained.")
LEVEL_NOTE = ("C06_partial: elliptic-cone block (jointly convex, not a sum of row costs), convergence of the iteration, incremental Hessian bookkeeping. The host-side launch geometry of solver.py (threads per "
              "constraint row, dofs per thread, tile sizes as functions of nv) is NOT in the Lean model: Gen/Host.lean records launch dims as source text only, so these are covered by the size sweep of the "
              "oracle, not by a theorem. Trusted: Lean kernel + Mathlib, tier-A translator.")
ASSUMPTIONS = ["solver tolerance 1e-10 / 100 iterations (200 in the size sweep) in the oracle so that the residual reflects correctness rather than early stopping",
               "size sweep scenes use sphere-plane contacts and limited joints with friction loss only (contact sets identical to MuJoCo's, so every sweep case is compared with mj_forward)"]


def _dense_J(m, d, w, n, nv):
  """row-major float64 copy of world w's constraint Jacobian, from dense or sparse storage"""
  if not m.is_sparse:
    return d.efc.J.numpy()[w][:n, :nv].astype(np.float64)
  J = np.zeros((n, nv))
  rn, ra = d.efc.J_rownnz.numpy()[w], d.efc.J_rowadr.numpy()[w]
  ci, Jv = d.efc.J_colind.numpy()[w].reshape(-1), d.efc.J.numpy()[w].reshape(-1)
  for r in range(n):
    a, k = int(ra[r]), int(rn[r])
    J[r, ci[a:a + k]] = Jv[a:a + k]
  return J


def _mass_matrix(mjm, mjd):
  import mujoco
  M = np.zeros((mjm.nv, mjm.nv))
  for k in range(mjm.nv):
    e = np.zeros(mjm.nv); e[k] = 1
    col = np.zeros(mjm.nv); mujoco.mj_mulM(mjm, mjd, col, e); M[:, k] = col
  return M


def _world_contact_ids(d, w):
  n = int(min(d.nacon.numpy()[0], d.naconmax))
  return np.nonzero(d.contact.worldid.numpy()[:n] == w)[0]


def _judge(acc, mjm, mjd, m, d, w, cone, desc, replay, M=None):
  """judges world w's solution of a finished mjw.forward: (1) against mujoco.mj_forward's qacc (mjd, same state) when the two
  optimisation problems are the same, (2) pyramidal: float64 KKT residual of the Gauss cost built from mujoco_warp's own J, aref, D
  (dense or sparse storage) and the row force law, (3) reported forces == implied forces, (4) qfrc_constraint == J^T efc_force.
  Returns qacc (float64) for cross-world comparisons."""
  qacc = d.qacc.numpy()[w].astype(np.float64)
  ref = mjd.qacc
  scale = 1 + np.abs(ref).max()
  ids = _world_contact_ids(d, w)
  same_contacts = len(ids) == int(mjd.ncon)
  same_frames = True
  if same_contacts and mjd.ncon:
    # the tangent axes of a contact frame are a free choice (only the normal is geometry); a pyramidal cone is not rotation
    # invariant about the normal, so a different choice of tangents is a (slightly) different, equally valid problem
    fw = d.contact.frame.numpy()[ids].reshape(-1, 9)
    fm = np.array([c.frame for c in mjd.contact])
    order_w = np.lexsort(d.contact.pos.numpy()[ids].T.round(5))
    order_m = np.lexsort(np.array([c.pos for c in mjd.contact]).T.round(5))
    same_frames = bool(np.allclose(fw[order_w], fm[order_m], atol=2e-3))
  if not same_contacts:
    # a different contact SET (multi-contact CCD pairs: property C04) is a different optimisation problem; the KKT residual
    # below still judges the solver on mujoco_warp's own problem
    acc.hit("contact-set-differs:mujoco-comparison-skipped")
  elif not same_frames and cone == "pyramidal":
    acc.hit("tangent-frames-differ:mujoco-comparison-skipped")
  else:
    acc.hit("mujoco-compared")
    if not np.allclose(qacc, ref, rtol=5e-3, atol=5e-3 * scale):
      acc.find(f"qacc differs from mj_forward (max |d| {np.abs(qacc - ref).max():.3g}; {desc})", "solver.solve", "qacc-vs-mujoco", **replay)
  n = int(d.nefc.numpy()[w])
  if n:
    J = _dense_J(m, d, w, n, mjm.nv)
    frc = d.efc.force.numpy()[w][:n].astype(np.float64)
    # the generalised constraint force is J^T efc_force whatever the cone (no force law needed)
    qc = d.qfrc_constraint.numpy()[w].astype(np.float64)
    jtf = J.T @ frc
    if not np.allclose(qc, jtf, rtol=5e-3, atol=5e-3 * (1 + np.abs(jtf).max())):
      acc.find(f"qfrc_constraint differs from J^T efc_force (max |d| {np.abs(qc - jtf).max():.3g}; {desc})", "solver.solve", "qfrc-constraint-vs-JTf", **replay)
    acc.hit("qfrc_constraint==J^T.force checked")
  if n and cone == "pyramidal":
    # independent KKT residual in float64 (pyramidal / frictionless rows only: per-row force law of C24)
    aref = d.efc.aref.numpy()[w][:n].astype(np.float64)
    D = d.efc.D.numpy()[w][:n].astype(np.float64)
    fl = d.efc.frictionloss.numpy()[w][:n].astype(np.float64)
    ne, nf = int(d.ne.numpy()[w]), int(d.nf.numpy()[w])
    jar = J @ qacc - aref
    f = np.zeros(n)
    for i in range(n):
      if i < ne:
        f[i] = -D[i] * jar[i]
      elif i < ne + nf:
        f[i] = float(np.clip(-D[i] * jar[i], -fl[i], fl[i]))
      else:
        f[i] = max(0.0, -D[i] * jar[i])
    if M is None:
      M = _mass_matrix(mjm, mjd)
    grad = M @ qacc - d.qfrc_smooth.numpy()[w].astype(np.float64) - J.T @ f
    gnorm = np.linalg.norm(grad) / (1 + np.linalg.norm(M @ qacc))
    if gnorm > 2e-3:
      acc.find(f"KKT residual of the returned qacc is {gnorm:.3g} (relative): qacc is not the optimum of the Gauss cost ({desc})", "solver.solve", "kkt-residual", **replay)
    if not np.allclose(frc, f, rtol=5e-3, atol=5e-3 * (1 + np.abs(f).max())):
      acc.find(f"reported efc_force differs from the force implied by qacc (max |d| {np.abs(frc - f).max():.3g}; {desc})", "solver._update_constraint", "implied-force", **replay)
    acc.hit("kkt-checked" + ("-sparse" if m.is_sparse else ""))
  return qacc, n


START_MODES = ("zero", "near-optimum", "far", "warmstart-disabled")


def _set_start(rng, mode, mjm, mjd):
  """the solver's starting point: mujoco_warp starts at qacc_warmstart (or at qacc_smooth when warmstart is disabled); the optimum
  of a strictly convex cost does not depend on it. Called after mj_forward(mjm, mjd) (mjd.qacc is MuJoCo's optimum)."""
  import mujoco
  s = 1 + np.abs(mjd.qacc).max()
  if mode == "near-optimum":
    mjd.qacc_warmstart[:] = mjd.qacc * (1 + 0.1 * rng.normal(size=mjm.nv)) + 0.05 * s * rng.normal(size=mjm.nv)
  elif mode == "far":
    mjd.qacc_warmstart[:] = mjd.qacc_smooth + 0.5 * s * rng.normal(size=mjm.nv)
  elif mode == "warmstart-disabled":
    mjm.opt.disableflags |= int(mujoco.mjtDisableBit.mjDSBL_WARMSTART)
    mjd.qacc_warmstart[:] = 0
  else:
    mjd.qacc_warmstart[:] = 0


def _run(ctx, ncases):
  import mujoco
  import mujoco_warp as mjw
  from harness.gen import models
  rng = np.random.default_rng(ctx.seed * 1000 + 6)
  acc = Acc()
  for c in range(ncases):
    cone = "elliptic" if rng.random() < 0.5 else "pyramidal"
    solver = "Newton" if rng.random() < 0.7 else "CG"
    jac = "sparse" if rng.random() < 0.3 else "dense"
    wb, sp = models.random_tree(rng, nbody=int(rng.integers(2, 6)), geom_types=["sphere", "capsule", "box"], spread=0.3, sites=False, joint_types=("free", "hinge", "slide"))
    xml = models.wrap(wb, option=f'cone="{cone}" solver="{solver}" jacobian="{jac}" iterations="100" tolerance="1e-10" timestep="0.004"')
    xml = xml.replace('type="hinge"', 'type="hinge" limited="true" range="-0.3 0.3" frictionloss="0.2"')
    try:
      mjm = mujoco.MjModel.from_xml_string(xml)
    except ValueError:
      continue
    mjd = mujoco.MjData(mjm)
    models.random_state(rng, mjm, mjd, qpos_scale=0.4, qvel_scale=1.0, unnormalized=False)
    for j in range(mjm.njnt):
      if mjm.jnt_type[j] == 0:
        mjd.qpos[mjm.jnt_qposadr[j] + 2] = rng.uniform(0.03, 0.3)
    mujoco.mj_forward(mjm, mjd)
    # starting point of the solver, in rotation (qacc_warmstart of a fresh MjData is 0: without this every case starts at 0)
    start = START_MODES[(c + ctx.seed) % len(START_MODES)]
    _set_start(rng, start, mjm, mjd)
    replay = dict(xml=xml, qpos=mjd.qpos.tolist(), qvel=mjd.qvel.tolist(), qacc_warmstart=mjd.qacc_warmstart.tolist(), start=start)
    m = mjw.put_model(mjm)
    if cone == "elliptic" and rng.random() < 0.75:
      # per-world impratio (a batched Option field): every world's optimum is that of ITS OWN cost
      import warp as wp
      ratios = [1.0, float(rng.choice([4.0, 10.0, 25.0]))]
      m.opt.impratio_invsqrt = wp.array(np.array([1.0 / np.sqrt(r) for r in ratios], dtype=np.float32), dtype=float)
      d2 = mjw.put_data(mjm, mjd, nworld=2, naconmax=400, njmax=500)
      mjw.forward(m, d2)
      acc.evals += 1
      if not (d2.overflow.numpy() & 0x1FF).any():
        for w, r in enumerate(ratios):
          mjm.opt.impratio = r
          mref = mujoco.MjData(mjm)
          mref.qpos[:], mref.qvel[:] = mjd.qpos, mjd.qvel
          mujoco.mj_forward(mjm, mref)
          qa = d2.qacc.numpy()[w].astype(np.float64)
          if len(_world_contact_ids(d2, w)) != int(mref.ncon):
            # a different contact SET (multi-contact pairs: property C04) is a different optimisation problem. The arbiter is then
            # mujoco_warp's own solution of a single world whose model-wide impratio is r (same contacts, same rows)
            acc.hit("contact-set-differs:per-world-impratio judged against a uniform single-world run")
            m1 = mjw.put_model(mjm)
            d1 = mjw.put_data(mjm, mjd, nworld=1, naconmax=400, njmax=500)
            mjw.forward(m1, d1)
            q1 = d1.qacc.numpy()[0].astype(np.float64)
            if not (d1.overflow.numpy() & 0x1FF).any() and not np.allclose(qa, q1, rtol=5e-3, atol=5e-3 * (1 + np.abs(q1).max())):
              acc.find(f"world {w} with its own impratio {r}: qacc differs from a single-world run with model-wide impratio {r} (max |d| {np.abs(qa - q1).max():.3g}; {solver}, {jac}, start={start})",
                       "solver.solve", "per-world-impratio", impratio=ratios, **replay)
          elif not np.allclose(qa, mref.qacc, rtol=5e-3, atol=5e-3 * (1 + np.abs(mref.qacc).max())):
            acc.find(f"world {w} with its own impratio {r}: qacc differs from mj_forward at that impratio (max |d| {np.abs(qa - mref.qacc).max():.3g}; {solver}, {jac}, start={start})",
                     "solver.solve", "per-world-impratio", impratio=ratios, **replay)
        mjm.opt.impratio = 1.0
      acc.hit("per-world-impratio")
      m = mjw.put_model(mjm)
    d = mjw.put_data(mjm, mjd, nworld=1, naconmax=200, njmax=500)
    mjw.forward(m, d)
    acc.evals += 1
    acc.distinct.add((c, cone, solver, jac, start))
    if (d.overflow.numpy() != 0).any():
      acc.hit("overflow-skipped")
      continue
    _, n = _judge(acc, mjm, mjd, m, d, 0, cone, f"{cone}, {solver}, {jac}, start={start}, nv={mjm.nv}", replay)
    acc.hit(f"{solver}-{cone}")
    acc.hit(f"start:{start}")
    acc.sample({"cone": cone, "solver": solver, "jacobian": jac, "start": start, "nefc": n})
  return acc


# ---------------------------------------------------------------------------------------------------------------------------
# size sweep. solver.py and io.py choose the launch geometry, the storage and the factorisation on the HOST from the model size:
#   nv <= 32 plain tile Cholesky | nv > 32 blocked Cholesky on a padded matrix (+1 augmented column for Newton)
#   jacobian AUTO: dense for nv <= 32, sparse above | put_model rejects dense nv > 60
#   dense: nv <= 50 one thread per constraint row (blocks of 50 dofs), jv fused into the line search
#          nv  > 50 ceil(nv/20) threads per row with atomic accumulation (last block partial unless nv = 60), separate jv kernel
# The random trees above have nv <= ~30 and see only the first regime. The sweep builds a scene with a prescribed nv for every
# regime, each quick run, with every dof (in particular the last ones) carrying constraint rows and a starting point that is
# non-zero in every dof.
SIZE_CLASSES = (
  ("dense-33..50", "dense", 33, 50),
  ("dense-51..59", "dense", 51, 59),
  ("dense-60", "dense", 60, 60),
  ("auto-33..70", "auto", 33, 70),
  ("sparse-61..72", "sparse", 61, 72),
  ("dense-26..32", "dense", 26, 32),
)
SWEEP_COMBOS = (("Newton", "pyramidal"), ("CG", "pyramidal"), ("Newton", "elliptic"), ("CG", "elliptic"))


def _wide_scene(rng, nv, option):
  """a forest with exactly nv dofs: free spheres/capsules lying on (slightly inside) the floor and hanging chains of limited hinge/slide
  joints with friction loss; the order of the blocks in the dof vector is random. Every dof carries at least one constraint row
  (contact rows for the free bodies, friction-loss rows for the chain joints)."""
  nfree = int(rng.integers(max(1, nv // 12), nv // 6 + 1))
  rest = nv - 6 * nfree
  blocks = [("free", 6)] * nfree
  while rest > 0:
    k = int(min(rest, rng.integers(1, 5)))
    blocks.append(("chain", k))
    rest -= k
  order = rng.permutation(len(blocks))
  out = []
  for slot, bi in enumerate(order):
    kind, k = blocks[bi]
    x, y = 0.4 * (slot % 6), 0.4 * (slot // 6)
    if kind == "free":
      r = float(rng.uniform(0.06, 0.12))
      z = r - float(rng.uniform(0.0005, 0.01))
      q = rng.normal(size=4)
      q /= np.linalg.norm(q)
      out.append(f'<body pos="{x:.3f} {y:.3f} {z:.4f}" quat="{q[0]:.5f} {q[1]:.5f} {q[2]:.5f} {q[3]:.5f}"><freejoint/>'
                 f'<geom type="sphere" size="{r:.4f}" mass="{rng.uniform(0.3, 3.0):.3f}" friction="{rng.uniform(0.3, 1.2):.2f}"/></body>')
    else:
      inner = ""
      for i in range(k):
        jt = "hinge" if rng.random() < 0.7 else "slide"
        ax = rng.normal(size=3)
        ax /= np.linalg.norm(ax)
        rg = "-0.3 0.3" if jt == "hinge" else "-0.05 0.05"
        inner = (f'<body pos="0.02 0 -0.12"><joint type="{jt}" axis="{ax[0]:.4f} {ax[1]:.4f} {ax[2]:.4f}" limited="true" range="{rg}" '
                 f'frictionloss="{rng.uniform(0.05, 0.4):.3f}" armature="0.01"/>'
                 f'<geom type="capsule" size="0.02" fromto="0 0 0 0.02 0 -0.12" mass="{rng.uniform(0.2, 1.0):.3f}" contype="0" conaffinity="0"/>{inner}</body>')
      out.append(f'<body pos="{x:.3f} {y:.3f} 1.5">{inner}</body>')
  return (f'<mujoco><compiler angle="radian"/><option {option}/><worldbody><geom name="floor" type="plane" size="5 5 .1"/>\n'
          + "\n".join(out) + "\n</worldbody></mujoco>")


def _sweep(ctx, acc, ncases):
  import mujoco
  import mujoco_warp as mjw
  rng = np.random.default_rng(ctx.seed * 1000 + 606)
  for c in range(ncases):
    k, j = c % len(SIZE_CLASSES), c // len(SIZE_CLASSES)
    name, jac, lo, hi = SIZE_CLASSES[k]
    # (solver, cone, warmstart disabled): 8 combinations; every class walks through all of them in 8 rounds (5 is coprime to 8)
    rot = (k + ctx.seed + 5 * j) % (2 * len(SWEEP_COMBOS))
    solver, cone = SWEEP_COMBOS[rot % len(SWEEP_COMBOS)]
    disabled = rot >= len(SWEEP_COMBOS)
    nv = int(rng.integers(lo, hi + 1))
    xml = _wide_scene(rng, nv, f'cone="{cone}" solver="{solver}" jacobian="{jac}" iterations="200" ls_iterations="50" tolerance="1e-10" timestep="0.004"')
    mjm = mujoco.MjModel.from_xml_string(xml)
    assert mjm.nv == nv
    mjd = mujoco.MjData(mjm)
    for j in range(mjm.njnt):
      if mjm.jnt_type[j] != 0:
        mjd.qpos[mjm.jnt_qposadr[j]] = rng.normal() * (0.3 if mjm.jnt_type[j] == 3 else 0.05)  # some limits violated
    mjd.qvel[:] = 0.3 * rng.normal(size=nv)
    mujoco.mj_forward(mjm, mjd)
    M = _mass_matrix(mjm, mjd)
    # worlds of one batch differ ONLY in the solver's starting point; the optimum may not
    if disabled:
      _set_start(rng, "warmstart-disabled", mjm, mjd)
      starts = ["warmstart-disabled"]
      ws = np.zeros((1, nv))
    else:
      starts = ["zero", "near-optimum", "far"]
      ws = np.zeros((3, nv))
      for w, s in enumerate(starts):
        _set_start(rng, s, mjm, mjd)
        ws[w] = mjd.qacc_warmstart
      mjd.qacc_warmstart[:] = 0
    m = mjw.put_model(mjm)
    d = mjw.put_data(mjm, mjd, nworld=len(starts), naconmax=len(starts) * (nv // 6 + 8) * 4, njmax=8 * nv + 64)
    import warp as wp
    wp.copy(d.qacc_warmstart, wp.array(ws.astype(np.float32), dtype=float))
    mjw.forward(m, d)
    acc.evals += 1
    acc.distinct.add(("sweep", c, name, nv, solver, cone, disabled))
    acc.hit(f"size:{name}" + ("(sparse)" if m.is_sparse else "(dense)"))
    if (d.overflow.numpy() != 0).any():
      acc.hit("overflow-skipped")
      continue
    replay = dict(xml=xml, qpos=mjd.qpos.tolist(), qvel=mjd.qvel.tolist())
    qs = []
    for w, s in enumerate(starts):
      # the last dofs must really be constrained and started away from zero, otherwise the case says nothing about the tail
      q, n = _judge(acc, mjm, mjd, m, d, w, cone, f"{cone}, {solver}, {name}, nv={nv}, start={s}", dict(replay, qacc_warmstart=ws[w].tolist(), start=s), M=M)
      qs.append(q)
      acc.hit(f"start:{s}")
    n = int(d.nefc.numpy()[0])
    if n:
      J = _dense_J(m, d, 0, n, nv)
      tail = np.abs(J[:, nv - (nv % 20 or 20):]).max() > 0 and np.abs(J[:, -1]).max() > 0
      acc.hit("tail-dofs-constrained" if tail else "tail-dofs-unconstrained")
    scale = 1 + np.abs(mjd.qacc).max()
    for w in range(1, len(starts)):
      if not np.allclose(qs[w], qs[0], rtol=5e-3, atol=5e-3 * scale):
        acc.find(f"the solution depends on the solver's starting point: start={starts[w]} and start={starts[0]} differ by {np.abs(qs[w] - qs[0]).max():.3g} in qacc "
                 f"({cone}, {solver}, {name}, nv={nv}); a strictly convex cost has one minimiser", "solver.solve", "start-dependence", qacc_warmstart=ws[w].tolist(), **replay)
      acc.hit("start-invariance-checked")
    acc.hit(f"sweep:{solver}-{cone}")
    acc.sample({"sweep": name, "nv": nv, "cone": cone, "solver": solver, "sparse": bool(m.is_sparse), "starts": starts, "nefc": n}, limit=6)
  return acc


RULE = ("(a) random trees (nv <= ~30) over a floor with limits and friction loss, both cones, Newton/CG, dense/sparse, tight tolerance, the solver's starting point in rotation (qacc_warmstart zero / near the "
        "optimum / far from it / warmstart disabled = qacc_smooth); (b) size sweep: a forest with a prescribed nv for every host-side size regime of solver.py/io.py (dense 26..32, dense 33..50, dense 51..59, "
        "dense 60, AUTO 33..70 -> sparse, sparse 61..72), every dof constrained, dof blocks in random order, solver x cone in rotation, one batch whose worlds differ only in the starting point. Judged per "
        "world: qacc vs mujoco.mj_forward (when contact set and tangent frames agree); for pyramidal cases (dense AND sparse storage) an independent float64 KKT residual M a - qfrc_smooth - J^T f(J a - aref) "
        "with the row force law and the equality of reported and implied forces; qfrc_constraint = J^T efc_force (any cone); the solutions of the worlds of one batch agree (unique minimiser); "
        "distinct = option tuples")


def correspondence(ctx):
  from harness.corr import func_corr
  fc = func_corr.run(["solver._eval_pt", "solver._eval_cost", "solver._eval_pt_direct", "solver._eval_frictionloss_pt"], ncases=96 if ctx.thorough else 32, seed=ctx.seed)
  acc = _run(ctx, 50 if ctx.thorough else 10)
  _sweep(ctx, acc, 36 if ctx.thorough else 2 * len(SIZE_CLASSES))
  from harness.props import _c06_probe_incnan
  _c06_probe_incnan.run(acc)   # recorded finding C06-incremental-hessian-nan, reported when observed
  return result(acc, RULE, fc=fc)


def search(ctx, breaks):
  acc = _run(ctx, 120)
  _sweep(ctx, acc, 48)
  return search_result(acc, "mujoco.mj_forward qacc + independent float64 KKT residual + start-point invariance, over all host-side size regimes")
