"""C06 Constrained acceleration is the convex-cost optimum."""
from __future__ import annotations
import numpy as np
from .common import Acc, result, search_result

ID = "C06"
LEAN_MODULES = ["MjwVerif.Props.C06"]
GEN_FUNCS = ["solver._eval_constraint", "solver._eval_pt", "solver._eval_cost"]
LEVEL_TEXT = ("Theorems (Mathlib convexity/calculus) with the row costs and forces taken from `_eval_constraint` as regenerated from solver.py on every run: each scalar row cost (quadratic, friction "
              "Huber-like, one-sided quadratic) is convex and force = -cost'; the Gauss cost c(a) = 1/2 (a-a0)^T M (a-a0) + sum_i s_i((J a - aref)_i) is convex for PSD M; its gradient is "
              "M(a-a0) - J^T f = M a - qfrc_smooth - J^T f (the solver's gradient); a zero gradient is a global minimiser and a small gradient bounds the suboptimality; the line-search polynomial "
              "functions are value/derivative/second derivative. NOT proved: that Newton/CG reach the tolerance. On the real code an independent float64 KKT residual of the returned qacc is "
              "computed from M, J, aref, D and compared with mujoco.mj_forward.")
LEVEL_NOTE = "C06_partial: elliptic-cone block (jointly convex, not a sum of row costs), convergence of the iteration, incremental Hessian bookkeeping. Trusted: Lean kernel + Mathlib, tier-A translator."
ASSUMPTIONS = ["solver tolerance 1e-10 / 100 iterations in the oracle so that the residual reflects correctness rather than early stopping"]


def _run(ctx, ncases):
  import mujoco
  import mujoco_warp as mjw
  from harness.gen import models
  rng = np.random.default_rng(ctx.seed * 1000 + 6)
  acc = Acc()
  for c in range(ncases):
    cone = "elliptic" if rng.random() < 0.5 else "pyramidal"
    solver = "Newton" if rng.random() < 0.7 else "CG"
    jac = "sparse" if rng.random() < 0.3 else "dense"
    wb, sp = models.random_tree(rng, nbody=int(rng.integers(2, 6)), geom_types=["sphere", "capsule", "box"], spread=0.3, sites=False, joint_types=("free", "hinge", "slide"))
    xml = models.wrap(wb, option=f'cone="{cone}" solver="{solver}" jacobian="{jac}" iterations="100" tolerance="1e-10" timestep="0.004"')
    xml = xml.replace('type="hinge"', 'type="hinge" limited="true" range="-0.3 0.3" frictionloss="0.2"')
    try:
      mjm = mujoco.MjModel.from_xml_string(xml)
    except ValueError:
      continue
    mjd = mujoco.MjData(mjm)
    models.random_state(rng, mjm, mjd, qpos_scale=0.4, qvel_scale=1.0, unnormalized=False)
    for j in range(mjm.njnt):
      if mjm.jnt_type[j] == 0:
        mjd.qpos[mjm.jnt_qposadr[j] + 2] = rng.uniform(0.03, 0.3)
    mujoco.mj_forward(mjm, mjd)
    warm = rng.random() < 0.5
    m = mjw.put_model(mjm)
    if cone == "elliptic" and rng.random() < 0.75:
      # per-world impratio (a batched Option field): every world's optimum is that of ITS OWN cost
      import warp as wp
      ratios = [1.0, float(rng.choice([4.0, 10.0, 25.0]))]
      m.opt.impratio_invsqrt = wp.array(np.array([1.0 / np.sqrt(r) for r in ratios], dtype=np.float32), dtype=float)
      d2 = mjw.put_data(mjm, mjd, nworld=2, naconmax=400, njmax=500)
      if not warm:
        d2.qacc_warmstart.zero_()
      mjw.forward(m, d2)
      acc.evals += 1
      if not (d2.overflow.numpy() & 0x1FF).any():
        for w, r in enumerate(ratios):
          mjm.opt.impratio = r
          mref = mujoco.MjData(mjm)
          mref.qpos[:], mref.qvel[:] = mjd.qpos, mjd.qvel
          if warm:
            mref.qacc_warmstart[:] = mjd.qacc_warmstart
          mujoco.mj_forward(mjm, mref)
          qa = d2.qacc.numpy()[w].astype(np.float64)
          if not np.allclose(qa, mref.qacc, rtol=5e-3, atol=5e-3 * (1 + np.abs(mref.qacc).max())):
            acc.find(f"world {w} with its own impratio {r}: qacc differs from mj_forward at that impratio (max |d| {np.abs(qa - mref.qacc).max():.3g}; {solver}, {jac})", "solver.solve",
                     "per-world-impratio", xml=xml, qpos=mjd.qpos.tolist(), qvel=mjd.qvel.tolist(), impratio=ratios)
        mjm.opt.impratio = 1.0
      acc.hit("per-world-impratio")
      m = mjw.put_model(mjm)
    d = mjw.put_data(mjm, mjd, nworld=1, naconmax=200, njmax=500)
    if not warm:
      d.qacc_warmstart.zero_()
    mjw.forward(m, d)
    acc.evals += 1
    acc.distinct.add((c, cone, solver, jac, warm))
    if (d.overflow.numpy() != 0).any():
      acc.hit("overflow-skipped")
      continue
    qacc = d.qacc.numpy()[0].astype(np.float64)
    ref = mjd.qacc
    scale = 1 + np.abs(ref).max()
    same_contacts = int(d.nacon.numpy()[0]) == int(mjd.ncon)
    same_frames = True
    if same_contacts and mjd.ncon:
      # the tangent axes of a contact frame are a free choice (only the normal is geometry); a pyramidal cone is not rotation
      # invariant about the normal, so a different choice of tangents is a (slightly) different, equally valid problem
      fw = d.contact.frame.numpy()[: mjd.ncon].reshape(-1, 9)
      fm = np.array([c.frame for c in mjd.contact])
      order_w = np.lexsort(d.contact.pos.numpy()[: mjd.ncon].T.round(5))
      order_m = np.lexsort(np.array([c.pos for c in mjd.contact]).T.round(5))
      same_frames = bool(np.allclose(fw[order_w], fm[order_m], atol=2e-3))
    if not same_contacts:
      # a different contact SET (multi-contact CCD pairs: property C04) is a different optimisation problem; the KKT residual
      # below still judges the solver on mujoco_warp's own problem
      acc.hit("contact-set-differs:mujoco-comparison-skipped")
    elif not same_frames and cone == "pyramidal":
      acc.hit("tangent-frames-differ:mujoco-comparison-skipped")
    elif not np.allclose(qacc, ref, rtol=5e-3, atol=5e-3 * scale):
      acc.find(f"qacc differs from mj_forward (max |d| {np.abs(qacc - ref).max():.3g}; {cone}, {solver}, {jac}, warmstart={warm})", "solver.solve", "qacc-vs-mujoco", xml=xml,
               qpos=mjd.qpos.tolist(), qvel=mjd.qvel.tolist())
    # independent KKT residual in float64 (pyramidal / frictionless rows only: per-row force law of C24)
    n = int(d.nefc.numpy()[0])
    if n and cone == "pyramidal" and not m.is_sparse:
      J = d.efc.J.numpy()[0][:n, : mjm.nv].astype(np.float64)
      aref = d.efc.aref.numpy()[0][:n].astype(np.float64)
      D = d.efc.D.numpy()[0][:n].astype(np.float64)
      fl = d.efc.frictionloss.numpy()[0][:n].astype(np.float64)
      ne, nf = int(d.ne.numpy()[0]), int(d.nf.numpy()[0])
      jar = J @ qacc - aref
      f = np.zeros(n)
      for i in range(n):
        if i < ne:
          f[i] = -D[i] * jar[i]
        elif i < ne + nf:
          f[i] = float(np.clip(-D[i] * jar[i], -fl[i], fl[i]))
        else:
          f[i] = max(0.0, -D[i] * jar[i])
      M = np.zeros((mjm.nv, mjm.nv))
      for k in range(mjm.nv):
        e = np.zeros(mjm.nv); e[k] = 1
        col = np.zeros(mjm.nv); mujoco.mj_mulM(mjm, mjd, col, e); M[:, k] = col
      grad = M @ qacc - d.qfrc_smooth.numpy()[0].astype(np.float64) - J.T @ f
      gnorm = np.linalg.norm(grad) / (1 + np.linalg.norm(M @ qacc))
      if gnorm > 2e-3:
        acc.find(f"KKT residual of the returned qacc is {gnorm:.3g} (relative): qacc is not the optimum of the Gauss cost", "solver.solve", "kkt-residual", xml=xml,
                 qpos=mjd.qpos.tolist(), qvel=mjd.qvel.tolist())
      frc = d.efc.force.numpy()[0][:n].astype(np.float64)
      if not np.allclose(frc, f, rtol=5e-3, atol=5e-3 * (1 + np.abs(f).max())):
        acc.find(f"reported efc_force differs from the force implied by qacc (max |d| {np.abs(frc - f).max():.3g})", "solver._update_constraint", "implied-force", xml=xml,
                 qpos=mjd.qpos.tolist(), qvel=mjd.qvel.tolist())
      acc.hit("kkt-checked")
    acc.hit(f"{solver}-{cone}")
    acc.sample({"cone": cone, "solver": solver, "jacobian": jac, "warmstart": warm, "nefc": n})
  return acc


RULE = ("random trees over a floor with limits and friction loss, both cones, Newton/CG, dense/sparse, with and without warmstart, tight tolerance; qacc vs mujoco.mj_forward; for pyramidal dense "
        "cases an independent float64 KKT residual M a - qfrc_smooth - J^T f(J a - aref) with the row force law and the equality of reported and implied forces; distinct = option tuples")


def correspondence(ctx):
  from harness.corr import func_corr
  fc = func_corr.run(["solver._eval_pt", "solver._eval_cost", "solver._eval_pt_direct", "solver._eval_frictionloss_pt"], ncases=96 if ctx.thorough else 32, seed=ctx.seed)
  acc = _run(ctx, 50 if ctx.thorough else 10)
  return result(acc, RULE, fc=fc)


def search(ctx, breaks):
  acc = _run(ctx, 120)
  return search_result(acc, "mujoco.mj_forward qacc + independent float64 KKT residual")
