"""C24 Constraint forces are physically admissible."""
from __future__ import annotations
import numpy as np

ID = "C24"
LEAN_MODULES = ["MjwVerif.Props.C24"]
GEN_FUNCS = ["solver._eval_constraint", "solver._eval_elliptic_middle", "solver._eval_frictionloss_cost", "solver._eval_frictionloss_pt", "solver._state_check",
             "solver._active_check", "math.safe_div_F_F"]
LEVEL_TEXT = ("Theorems over the reals about the row force law `_eval_constraint` (and helpers) regenerated from solver.py on every run: equality rows f=-D*jaref; friction-loss rows "
              "|f|<=frictionloss with equality exactly in the linear states (incl. the D=0 safe_div case); limit/pyramidal rows f>=0 and satisfied <=> jaref>=0 => f=0; elliptic rows: "
              "top zone 0, bottom zone quadratic, middle zone on the cone boundary (sum (F_j/fr_j)^2 = F_0^2, F_0>0), all zones inside the cone; f = -d cost/d jaref (HasDerivAt, incl. branch "
              "boundaries), cost>=0, satisfied => zero force. That the kernels assemble qfrc_constraint = J^T f and feed the row function with the right arguments is sampled on the real forward().")
LEVEL_NOTE = "Trusted: Lean kernel + Mathlib, tier-A translator (func-level differential each run); kernel-level assembly (J^T f, elliptic argument wiring) sampled, float round-off not modelled."
ASSUMPTIONS = ["D>0, mu>0, frictionloss>=0 as produced by constraint.py/collision_core (MJ_MINMU floor)", "D=0 discontinuity documented in Props/C24Witness.lean (not reachable: D = 1/R, R>0)"]


def _oracle(ctx, ncases):
  import mujoco
  import mujoco_warp as mjw
  from harness.gen import models
  from harness import mjw_util
  rng = np.random.default_rng(ctx.seed * 1000 + 24)
  findings, samples, evals, nontrivial = [], [], 0, 0
  for c in range(ncases):
    cone = "elliptic" if rng.random() < 0.5 else "pyramidal"
    solver = "Newton" if rng.random() < 0.7 else "CG"
    extra = ""
    xml, sp = models.random_model_xml(rng, nbody=int(rng.integers(2, 5)), joint_types=("free", "hinge", "slide", "ball"),
                                      geom_types=["sphere", "capsule", "box"], option=f'cone="{cone}" solver="{solver}" iterations="50" tolerance="1e-10"', spread=0.25)
    # anisotropic sliding friction exists only for explicit pairs: floor against some of the geoms, mu1 != mu2, condim 3/4/6
    if rng.random() < 0.6 and sp.geoms and 'name="floor"' in xml:
      prs = ""
      for gname in rng.choice(sp.geoms, size=min(len(sp.geoms), int(rng.integers(1, 3))), replace=False):
        mu = rng.uniform(0.2, 1.5, size=2)
        prs += f'<pair geom1="floor" geom2="{gname}" condim="{int(rng.choice([3, 4, 6]))}" friction="{mu[0]:.3f} {mu[1]:.3f} 0.01 0.001 0.001"/>'
      xml = xml.replace("</mujoco>", f"<contact>{prs}</contact></mujoco>")
    # add friction loss + limits by attribute injection
    xml = xml.replace('type="hinge"', 'type="hinge" frictionloss="0.3" limited="true" range="-0.4 0.4"', 2)
    try:
      mjm, mjd = mjw_util.load(xml)
    except Exception:
      continue
    models.random_state(rng, mjm, mjd, qpos_scale=0.3, qvel_scale=2.0, unnormalized=False)
    # drop bodies onto the floor to get contacts
    for j in range(mjm.njnt):
      if mjm.jnt_type[j] == 0:
        mjd.qpos[mjm.jnt_qposadr[j] + 2] = rng.uniform(0.0, 0.15)
    nworld = int(rng.integers(1, 3))
    try:
      m, d = mjw_util.put(mjm, mjd, nworld=nworld)
      mjw.forward(m, d)
    except Exception as e:
      findings.append({"what": f"forward raised {type(e).__name__}: {e}", "site": "forward", "trigger_id": "crash", "xml": xml})
      continue
    evals += 1
    nefc = d.nefc.numpy()
    ne, nf = d.ne.numpy(), d.nf.numpy()
    nl = d.nl.numpy()
    force = d.efc.force.numpy()
    state = d.efc.state.numpy()
    floss = d.efc.frictionloss.numpy()
    typ = d.efc.type.numpy()
    J = d.efc.J.numpy()
    qfc = d.qfrc_constraint.numpy()
    for w in range(nworld):
      n = int(nefc[w])
      if n == 0 or n > force.shape[1]:
        continue
      nontrivial += 1
      f = force[w, :n].astype(np.float64)
      tol = 1e-5 * (1 + np.abs(f).max())
      fr = slice(int(ne[w]), int(ne[w] + nf[w]))
      if (np.abs(f[fr]) > floss[w, fr] + tol).any():
        findings.append({"what": "friction-loss force exceeds frictionloss", "site": "solver._eval_constraint", "trigger_id": "floss", "xml": xml})
      lim = slice(int(ne[w] + nf[w]), int(ne[w] + nf[w] + nl[w]))
      if (f[lim] < -tol).any():
        findings.append({"what": "negative limit force", "site": "solver._eval_constraint", "trigger_id": "limit-neg", "xml": xml})
      con = slice(int(ne[w] + nf[w] + nl[w]), n)
      if cone == "pyramidal" and (f[con] < -tol).any():
        findings.append({"what": "negative pyramidal edge force", "site": "solver._eval_constraint", "trigger_id": "pyr-neg", "xml": xml})
      sat = state[w, :n] == 0
      if (np.abs(f[sat]) > tol).any():
        findings.append({"what": "satisfied row carries force", "site": "solver._eval_constraint", "trigger_id": "sat-force", "xml": xml})
      if cone == "elliptic":
        cf = np.zeros((d.naconmax if hasattr(d, "naconmax") else 0, 6))
      # qfrc_constraint = J^T f  (dense J only)
      if not m.is_sparse and J.ndim == 3:
        jt = J[w, :n, : mjm.nv].astype(np.float64).T @ f
        if not np.allclose(jt, qfc[w], rtol=2e-4, atol=2e-4 * (1 + np.abs(jt).max())):
          findings.append({"what": "qfrc_constraint != J^T efc_force", "site": "solver._qfrc_constraint", "trigger_id": "jtf", "xml": xml,
                           "max_abs_diff": float(np.abs(jt - qfc[w]).max())})
    if cone == "elliptic" and d.nacon.numpy()[0] > 0:
      # cone membership of decoded contact forces via the public API
      try:
        import warp as wp
        nac = int(min(d.nacon.numpy()[0], d.naconmax))
        ids = wp.array(np.arange(nac, dtype=np.int32), dtype=int)
        out = wp.zeros(nac, dtype=wp.spatial_vector)
        mjw.contact_force(m, d, ids, False, out)
        cfrc = out.numpy()
        fric = d.contact.friction.numpy()[:nac]
        dim = d.contact.dim.numpy()[:nac]
        for k in range(nac):
          if dim[k] >= 3:
            fn, ft = cfrc[k, 0], cfrc[k, 1:3]
            lhs = np.sqrt((ft[0] / max(fric[k, 0], 1e-12)) ** 2 + (ft[1] / max(fric[k, 1], 1e-12)) ** 2)
            if fn < -1e-4 or lhs > fn * (1 + 1e-3) + 1e-3:
              findings.append({"what": f"elliptic contact force outside its cone (fn={fn:.4g}, |ft/mu|={lhs:.4g})", "site": "solver._eval_constraint", "trigger_id": "cone", "xml": xml})
      except Exception as e:
        ctx.notes.append(f"contact_force cone check skipped: {type(e).__name__}: {e}")
    if c < 2:
      samples.append({"cone": cone, "solver": solver, "nefc": nefc.tolist(), "ne": ne.tolist(), "nf": nf.tolist(), "nl": nl.tolist()})
  return evals, nontrivial, samples, findings


PUSH_XML = """<mujoco><option cone="elliptic" solver="{solver}" jacobian="{jac}" iterations="100" tolerance="1e-10"/>
<worldbody><geom name="floor" type="plane" size="5 5 .1"/>
<body pos="0 0 {z}" quat="{qw} 0 0 {qz}"><freejoint/><geom name="b" type="{gt}" size="{sz}" mass="1"/></body></worldbody>
<contact><pair geom1="floor" geom2="b" condim="{cd}" friction="{mu1} {mu2} 0.01 0.001 0.001"/></contact></mujoco>"""


def _push_cases(ctx, ncases):
  """a body RESTING on the floor through an explicit pair with anisotropic sliding friction (mu1 != mu2), pushed sideways below
  and above the slip threshold: in the sticking zone the tangential force is decided by the rows' regularisation, so a row
  scaling that does not follow the cone shows up as a force outside (ft1/mu1)^2 + (ft2/mu2)^2 <= fn^2"""
  import mujoco
  import warp as wp
  import mujoco_warp as mjw
  rng = np.random.default_rng(ctx.seed * 1000 + 2424)
  findings, evals = [], 0
  for c in range(ncases):
    mu = rng.uniform(0.15, 1.2, size=2)
    if abs(mu[0] - mu[1]) < 0.2:
      mu[1] = mu[0] * (0.3 if rng.random() < 0.5 else 2.5)
    gt, sz, z = [("box", ".1 .1 .1", 0.0995), ("sphere", ".1", 0.0995), ("capsule", ".06 .1", 0.0595)][int(rng.integers(0, 3))]
    ang = rng.uniform(0, np.pi)
    xml = PUSH_XML.format(solver=str(rng.choice(["Newton", "CG"])), jac=str(rng.choice(["dense", "sparse"])), z=z, qw=np.cos(ang / 2), qz=np.sin(ang / 2), gt=gt, sz=sz,
                          cd=int(rng.choice([3, 4, 6])), mu1=f"{mu[0]:.3f}", mu2=f"{mu[1]:.3f}")
    mjm = mujoco.MjModel.from_xml_string(xml)
    mjd = mujoco.MjData(mjm)
    th = rng.uniform(0, 2 * np.pi)
    mag = rng.uniform(0.2, 1.6) * min(mu) * 9.81
    mjd.xfrc_applied[1, :2] = mag * np.array([np.cos(th), np.sin(th)])
    mujoco.mj_forward(mjm, mjd)
    m = mjw.put_model(mjm)
    d = mjw.put_data(mjm, mjd, nworld=1)
    mjw.forward(m, d)
    evals += 1
    nac = int(min(d.nacon.numpy()[0], d.naconmax))
    if nac == 0 or (d.overflow.numpy() & 0x1FF).any():
      continue
    out = wp.zeros(nac, dtype=wp.spatial_vector)
    mjw.contact_force(m, d, wp.array(np.arange(nac, dtype=np.int32), dtype=int), False, out)
    cf, fr = out.numpy(), d.contact.friction.numpy()[:nac]
    for k in range(nac):
      fn, ft = cf[k, 0], cf[k, 1:3]
      lhs = np.sqrt((ft[0] / fr[k, 0]) ** 2 + (ft[1] / fr[k, 1]) ** 2)
      if fn < -1e-4 or lhs > fn * (1 + 5e-3) + 1e-3:
        findings.append({"what": f"elliptic contact force outside its anisotropic cone (fn={fn:.4g}, sqrt((ft1/mu1)^2+(ft2/mu2)^2)={lhs:.4g}, mu=({fr[k, 0]:.3g},{fr[k, 1]:.3g}))",
                         "site": "constraint._efc_contact_update / solver._eval_constraint", "trigger_id": "cone-anisotropic", "xml": xml, "xfrc": mjd.xfrc_applied[1].tolist()})
        break
    ref = mjd.qacc
    qa = d.qacc.numpy()[0]
    if not np.allclose(qa, ref, rtol=2e-2, atol=2e-2 * (1 + np.abs(ref).max())):
      findings.append({"what": f"qacc of a pushed resting body differs from mj_forward (max |d| {np.abs(qa - ref).max():.3g})", "site": "constraint._efc_contact_update / solver._eval_constraint",
                       "trigger_id": "pushed-body-qacc", "xml": xml, "xfrc": mjd.xfrc_applied[1].tolist()})
  return evals, findings


def correspondence(ctx):
  from harness.corr import func_corr
  names = [f for f in GEN_FUNCS if f != "solver._eval_constraint"] + ["solver._eval_frictionloss_pt_one", "solver._eval_pt", "solver._eval_cost"]
  fc = func_corr.run(names, ncases=256 if ctx.thorough else 64, seed=ctx.seed)
  fc2 = func_corr.run(["solver._eval_constraint"], ncases=512 if ctx.thorough else 128, seed=ctx.seed + 1, int_ranges={"solver._eval_constraint": (0, 1)})
  evals, nontriv, samples, findings = _oracle(ctx, 24 if ctx.thorough else 6)
  pe, pf = _push_cases(ctx, 40 if ctx.thorough else 12)
  evals, nontriv, findings = evals + pe, nontriv + pe, findings + pf
  fns = dict(fc["functions"]); fns.update(fc2["functions"])
  return {"evaluations": fc["evaluations"] + fc2["evaluations"] + evals, "distinct_nontrivial": fc["distinct_outputs"] + fc2["distinct_outputs"] + nontriv,
          "rule": "func-level: random float32 argument tuples incl. 0/+-1/MJ_MINVAL neighbours, all flag combinations; distinct = distinct (function, output); "
                  "forward-level: random trees dropped on a floor with friction loss and joint limits, both cones/solvers, explicit floor pairs with anisotropic friction; plus bodies resting on an "
                  "anisotropic-friction pair and pushed sideways around the slip threshold (cone membership with the per-axis coefficients, qacc vs mj_forward); nontrivial = worlds with nefc>0",
          "samples": [fc["sample"]] + samples, "func_level": fns, "disagreements": fc["disagreements"] + fc2["disagreements"], "findings": findings}


def search(ctx, breaks):
  evals, nontriv, samples, findings = _oracle(ctx, 60)
  pe, pf = _push_cases(ctx, 60)
  evals, findings = evals + pe, findings + pf
  return {"oracle": "admissibility inequalities and J^T f on real forward() outputs", "cases": evals, "outcome": "witness" if findings else "none", "findings": findings}
