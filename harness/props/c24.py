"""C24 Constraint forces are physically admissible."""
from __future__ import annotations
import numpy as np

ID = "C24"
LEAN_MODULES = ["MjwVerif.Props.C24"]
GEN_FUNCS = ["solver._eval_constraint", "solver._eval_elliptic_middle", "solver._eval_frictionloss_cost", "solver._eval_frictionloss_pt", "solver._state_check",
             "solver._active_check", "math.safe_div_F_F", "solver._update_constraint_efc__kernel"]
KERNELS = ["solver._update_constraint_efc__kernel"]
LEVEL_TEXT = ("Theorems over the reals about the row force law `_eval_constraint` (and helpers) regenerated from solver.py on every run: equality rows f=-D*jaref; friction-loss rows "
              "|f|<=frictionloss with equality exactly in the linear states (incl. the D=0 safe_div case); limit/pyramidal rows f>=0 and satisfied <=> jaref>=0 => f=0; elliptic rows: "
              "top zone 0, bottom zone quadratic, middle zone on the cone boundary (sum (F_j/fr_j)^2 = F_0^2, F_0>0), all zones inside the cone; f = -d cost/d jaref (HasDerivAt, incl. branch "
              "boundaries), cost>=0, satisfied => zero force. Kernel level (generic scalar type, all inputs): a thread of `_update_constraint_efc` (tracking on) that writes a row state different from "
              "the stored one increments state_changed_count, i.e. the Newton/pyramidal stable-state fast path is never taken by a world in which some row changed the branch of its force law "
              "(incl. friction LINEARNEG<->LINEARPOS, which leaves the quadratic flag alone). That the kernels assemble qfrc_constraint = J^T f and feed the row function with the right arguments is sampled on the real forward()/step(): "
              "random trees (dense and sparse J), and warm-started solves that stop on a small iteration budget while friction-loss rows move between their two linear regimes "
              "(the Newton/pyramidal tracked-state fast path recovers qfrc_constraint from a scaled stale gradient there), checked after every published solve.")
LEVEL_NOTE = ("Trusted: Lean kernel + Mathlib, tier-A translator (func-level differential each run), tier-B translation of _update_constraint_efc (launch interception with serial replay of the "
             "slot allocations, thorough tier only: two Lean-driver passes are too slow for the quick tier); launch-level sum of the atomic increments and the recovery identity are not proved; kernel-level assembly (J^T f incl. its recovery from the gradient on the incremental path, state-change bookkeeping, elliptic argument wiring) sampled, float round-off not modelled.")
ASSUMPTIONS = ["D>0, mu>0, frictionloss>=0 as produced by constraint.py/collision_core (MJ_MINMU floor)", "D=0 discontinuity documented in Props/C24Witness.lean (not reachable: D = 1/R, R>0)"]


def _oracle(ctx, ncases):
  import mujoco
  import mujoco_warp as mjw
  from harness.gen import models
  from harness import mjw_util
  rng = np.random.default_rng(ctx.seed * 1000 + 24)
  findings, samples, evals, nontrivial = [], [], 0, 0
  for c in range(ncases):
    cone = "elliptic" if rng.random() < 0.5 else "pyramidal"
    solver = "Newton" if rng.random() < 0.7 else "CG"
    jac = ("dense", "sparse", "auto")[c % 3]
    xml, sp = models.random_model_xml(rng, nbody=int(rng.integers(2, 5)), joint_types=("free", "hinge", "slide", "ball"),
                                      geom_types=["sphere", "capsule", "box"], option=f'cone="{cone}" solver="{solver}" jacobian="{jac}" iterations="50" tolerance="1e-10"', spread=0.25)
    # anisotropic sliding friction exists only for explicit pairs: floor against some of the geoms, mu1 != mu2, condim 3/4/6
    if rng.random() < 0.6 and sp.geoms and 'name="floor"' in xml:
      prs = ""
      for gname in rng.choice(sp.geoms, size=min(len(sp.geoms), int(rng.integers(1, 3))), replace=False):
        mu = rng.uniform(0.2, 1.5, size=2)
        prs += f'<pair geom1="floor" geom2="{gname}" condim="{int(rng.choice([3, 4, 6]))}" friction="{mu[0]:.3f} {mu[1]:.3f} 0.01 0.001 0.001"/>'
      xml = xml.replace("</mujoco>", f"<contact>{prs}</contact></mujoco>")
    # add friction loss + limits by attribute injection
    xml = xml.replace('type="hinge"', 'type="hinge" frictionloss="0.3" limited="true" range="-0.4 0.4"', 2)
    try:
      mjm, mjd = mjw_util.load(xml)
    except Exception:
      continue
    models.random_state(rng, mjm, mjd, qpos_scale=0.3, qvel_scale=2.0, unnormalized=False)
    # drop bodies onto the floor to get contacts
    for j in range(mjm.njnt):
      if mjm.jnt_type[j] == 0:
        mjd.qpos[mjm.jnt_qposadr[j] + 2] = rng.uniform(0.0, 0.15)
    nworld = int(rng.integers(1, 3))
    try:
      m, d = mjw_util.put(mjm, mjd, nworld=nworld)
      mjw.forward(m, d)
    except Exception as e:
      findings.append({"what": f"forward raised {type(e).__name__}: {e}", "site": "forward", "trigger_id": "crash", "xml": xml})
      continue
    evals += 1
    nefc = d.nefc.numpy()
    ne, nf = d.ne.numpy(), d.nf.numpy()
    nl = d.nl.numpy()
    force = d.efc.force.numpy()
    state = d.efc.state.numpy()
    floss = d.efc.frictionloss.numpy()
    typ = d.efc.type.numpy()
    qfc = d.qfrc_constraint.numpy()
    for w in range(nworld):
      n = int(nefc[w])
      if n == 0 or n > force.shape[1]:
        continue
      nontrivial += 1
      f = force[w, :n].astype(np.float64)
      tol = 1e-5 * (1 + np.abs(f).max())
      fr = slice(int(ne[w]), int(ne[w] + nf[w]))
      if (np.abs(f[fr]) > floss[w, fr] + tol).any():
        findings.append({"what": "friction-loss force exceeds frictionloss", "site": "solver._eval_constraint", "trigger_id": "floss", "xml": xml})
      lim = slice(int(ne[w] + nf[w]), int(ne[w] + nf[w] + nl[w]))
      if (f[lim] < -tol).any():
        findings.append({"what": "negative limit force", "site": "solver._eval_constraint", "trigger_id": "limit-neg", "xml": xml})
      con = slice(int(ne[w] + nf[w] + nl[w]), n)
      if cone == "pyramidal" and (f[con] < -tol).any():
        findings.append({"what": "negative pyramidal edge force", "site": "solver._eval_constraint", "trigger_id": "pyr-neg", "xml": xml})
      sat = state[w, :n] == 0
      if (np.abs(f[sat]) > tol).any():
        findings.append({"what": "satisfied row carries force", "site": "solver._eval_constraint", "trigger_id": "sat-force", "xml": xml})
      # qfrc_constraint = J^T f  (dense and sparse storage of J)
      jt = _dense_J(m, d, w, n, mjm.nv).T @ f
      if not np.allclose(jt, qfc[w], rtol=2e-4, atol=2e-4 * (1 + np.abs(jt).max())):
        findings.append({"what": "qfrc_constraint != J^T efc_force", "site": "solver._qfrc_constraint", "trigger_id": "jtf", "xml": xml,
                         "max_abs_diff": float(np.abs(jt - qfc[w]).max())})
    if cone == "elliptic" and d.nacon.numpy()[0] > 0:
      # cone membership of decoded contact forces via the public API
      try:
        import warp as wp
        nac = int(min(d.nacon.numpy()[0], d.naconmax))
        ids = wp.array(np.arange(nac, dtype=np.int32), dtype=int)
        out = wp.zeros(nac, dtype=wp.spatial_vector)
        mjw.contact_force(m, d, ids, False, out)
        cfrc = out.numpy()
        fric = d.contact.friction.numpy()[:nac]
        dim = d.contact.dim.numpy()[:nac]
        for k in range(nac):
          if dim[k] >= 3:
            fn, ft = cfrc[k, 0], cfrc[k, 1:3]
            lhs = np.sqrt((ft[0] / max(fric[k, 0], 1e-12)) ** 2 + (ft[1] / max(fric[k, 1], 1e-12)) ** 2)
            if fn < -1e-4 or lhs > fn * (1 + 1e-3) + 1e-3:
              findings.append({"what": f"elliptic contact force outside its cone (fn={fn:.4g}, |ft/mu|={lhs:.4g})", "site": "solver._eval_constraint", "trigger_id": "cone", "xml": xml})
      except Exception as e:
        ctx.notes.append(f"contact_force cone check skipped: {type(e).__name__}: {e}")
    if c < 2:
      samples.append({"cone": cone, "solver": solver, "nefc": nefc.tolist(), "ne": ne.tolist(), "nf": nf.tolist(), "nl": nl.tolist()})
  return evals, nontrivial, samples, findings


def _dense_J(m, d, w, n, nv):
  """row-major dense copy of world w's constraint Jacobian (dense or sparse storage)"""
  if not m.is_sparse:
    return d.efc.J.numpy()[w, :n, :nv].astype(np.float64)
  J = np.zeros((n, nv))
  rn, ra = d.efc.J_rownnz.numpy()[w], d.efc.J_rowadr.numpy()[w]
  ci, Jv = d.efc.J_colind.numpy()[w].reshape(-1), d.efc.J.numpy()[w].reshape(-1)
  for r in range(n):
    a, k = int(ra[r]), int(rn[r])
    J[r, ci[a:a + k]] = Jv[a:a + k]
  return J


# (solver, cone, jacobian, iterations, ls_iterations) taken in rotation by the budget-limited cases; Newton+pyramidal is the only
# configuration with tracked state changes / incremental Hessian / the stable-state fast path, so it comes first and most often
BUDGET_COMBOS = [("Newton", "pyramidal", "dense", 1, 50), ("Newton", "pyramidal", "sparse", 1, 50), ("Newton", "pyramidal", "dense", 2, 4), ("CG", "pyramidal", "sparse", 1, 50),
                 ("Newton", "elliptic", "dense", 1, 50), ("Newton", "pyramidal", "sparse", 3, 50), ("CG", "elliptic", "dense", 2, 4), ("Newton", "pyramidal", "dense", 100, 50),
                 ("Newton", "pyramidal", "sparse", 2, 50), ("CG", "pyramidal", "dense", 3, 4), ("Newton", "elliptic", "sparse", 2, 4), ("Newton", "pyramidal", "dense", 4, 50)]
LAWTOL = 5e-5  # relative float32 drift allowed on jaref (Jaref += alpha*jv per iteration); 2e-6 is already silent over 4000 solves of the unchanged tree
S_SAT, S_QUAD, S_LNEG, S_LPOS, S_CONE = 0, 1, 2, 3, 4
T_EQ, T_FDOF, T_FTEN, T_LJNT, T_LTEN, T_CFL, T_CPYR, T_CELL = range(8)


def _chain_xml(rng, c, combo):
  """serial arm of 2..3 hinges with joint friction loss; in rotation: a fixed tendon with friction loss, a joint limit, a floor under the tip"""
  solver, cone, jac, its, ls = combo
  n = 2 + int(c % 3 == 2)
  grav = "0 0 -9.81" if c % 2 else "0 0 0"
  floss = rng.uniform(0.2, 1.5, size=n)
  if n == 3 and rng.random() < 0.5:
    floss[int(rng.integers(0, n))] = 0.0
  feats = {"tendon": c % 2 == 1, "limit": c % 3 == 2, "floor": c % 4 == 3}
  body, close = "", ""
  pos = "0 0 0.3"
  for i in range(n):
    L = rng.uniform(0.2, 0.45)
    lim = ' limited="true" range="-0.3 0.3"' if feats["limit"] and i == n - 1 else ""
    body += (f'<body pos="{pos}"><joint name="j{i}" type="hinge" axis="0 1 0" frictionloss="{floss[i]:.3f}" damping="{rng.uniform(0.0, 0.3):.3f}"{lim}/>'
             f'<geom name="g{i}" type="capsule" size="0.03" fromto="0 0 0 {L:.3f} 0 0" mass="{rng.uniform(0.3, 1.5):.3f}"/>')
    close += "</body>"
    pos = f"{L:.3f} 0 0"
  extra = ""
  if feats["tendon"]:
    extra += (f'<tendon><fixed name="t" frictionloss="{rng.uniform(0.2, 1.0):.3f}"><joint joint="j0" coef="{rng.uniform(0.5, 1.5):.3f}"/>'
              f'<joint joint="j{n - 1}" coef="{-rng.uniform(0.5, 1.5):.3f}"/></fixed></tendon>')
  floor = '<geom name="floor" type="plane" size="3 3 .1" pos="0 0 0.275" condim="3"/>' if feats["floor"] else ""
  xml = (f'<mujoco><option timestep="0.002" gravity="{grav}" solver="{solver}" cone="{cone}" jacobian="{jac}" iterations="{its}" ls_iterations="{ls}" tolerance="1e-10"/>'
         f'<worldbody>{floor}{body}{close}</worldbody>{extra}</mujoco>')
  return xml, n, floss, feats


def _row_force_law(typ, jaref, D, floss):
  """NumPy transcription of the scalar row law (MuJoCo's mj_constraintUpdate) for all rows but elliptic contact rows (NaN there)"""
  f = np.full(len(jaref), np.nan)
  for r in range(len(jaref)):
    t = int(typ[r])
    if t == T_EQ:
      f[r] = -D[r] * jaref[r]
    elif t in (T_FDOF, T_FTEN):
      f[r] = float(np.clip(-D[r] * jaref[r], -floss[r], floss[r]))
    elif t != T_CELL:
      f[r] = -D[r] * jaref[r] if jaref[r] < 0 else 0.0
  return f


def _abs_inertia(mjm, mjd, qpos):
  """|M(qpos)| from MuJoCo C (only used as a magnitude for round-off tolerances)"""
  import mujoco
  mjd.qpos[:] = qpos
  mujoco.mj_forward(mjm, mjd)
  M = np.zeros((mjm.nv, mjm.nv))
  mujoco.mj_fullM(mjm, mjd, M)
  return np.abs(M)


def _check_solve_outputs(acc, m, d, nv, cone, tag, replay, prev_state, mjm, mjd, qpos_solved):
  """the C24 invariants on whatever the solver published, converged or not (J^T f, bounds, satisfied rows, row law at the published qacc)"""
  nefc, ne, nf, nl = d.nefc.numpy(), d.ne.numpy(), d.nf.numpy(), d.nl.numpy()
  force, state, floss, typ = d.efc.force.numpy(), d.efc.state.numpy(), d.efc.frictionloss.numpy(), d.efc.type.numpy()
  aref, D, qacc, qfc, niter, qsm = d.efc.aref.numpy(), d.efc.D.numpy(), d.qacc.numpy(), d.qfrc_constraint.numpy(), d.solver_niter.numpy(), d.qfrc_smooth.numpy()
  new_state = []
  for w in range(d.nworld):
    n = int(nefc[w])
    new_state.append(state[w, :n].copy())
    if n == 0 or n > force.shape[1] or not np.isfinite(qacc[w]).all():
      acc.hit("budget:skipped-world")
      continue
    acc.evals += 1
    f = force[w, :n].astype(np.float64)
    st, ty = state[w, :n], typ[w, :n]
    J = _dense_J(m, d, w, n, nv)
    fscale = 1 + np.abs(f).max()
    tol = 1e-5 * fscale
    fr = slice(int(ne[w]), int(ne[w] + nf[w]))
    lin = (st[fr] == S_LNEG) | (st[fr] == S_LPOS)
    acc.hit(f"budget:floss-rows-linear={'some' if lin.any() else 'none'}")
    if prev_state is not None and len(prev_state[w]) == n:
      ps = prev_state[w][fr]
      if (((ps == S_LNEG) & (st[fr] == S_LPOS)) | ((ps == S_LPOS) & (st[fr] == S_LNEG))).any():
        acc.hit("budget:floss-row-switched-linear-side-since-previous-solve")
    acc.hit(f"budget:niter={'limit' if niter[w] >= m.opt.iterations else 'below-limit'}")
    if (np.abs(f[fr]) > floss[w, fr] + tol).any():
      acc.find(f"friction-loss force exceeds frictionloss ({tag})", "solver._eval_constraint", "floss", **replay)
    if (f[int(ne[w] + nf[w]):int(ne[w] + nf[w] + nl[w])] < -tol).any():
      acc.find(f"negative limit force ({tag})", "solver._eval_constraint", "limit-neg", **replay)
    if cone == "pyramidal" and (f[int(ne[w] + nf[w] + nl[w]):] < -tol).any():
      acc.find(f"negative pyramidal edge force ({tag})", "solver._eval_constraint", "pyr-neg", **replay)
    if (np.abs(f[st == S_SAT]) > 0).any():
      acc.find(f"satisfied row carries force ({tag})", "solver._eval_constraint", "sat-force", **replay)
    # generalized force: identity in the published arrays; float32 sum over n rows
    # on the Newton/pyramidal path the published value is Ma - qfrc_smooth - grad_scale*grad: cancellation at the magnitude of |M||qacc| + |qfrc_smooth|
    jt = J.T @ f
    cancel = (_abs_inertia(mjm, mjd, qpos_solved[w]) @ np.abs(qacc[w, :nv]) + np.abs(qsm[w, :nv])).max()
    jtol = 2e-4 * (1 + (np.abs(J).T @ np.abs(f)).max()) + 3e-5 * cancel
    if np.abs(jt - qfc[w]).max() > jtol:
      acc.find(f"qfrc_constraint != J^T efc_force after a solve that stopped at niter={int(niter[w])} of {int(m.opt.iterations)} ({tag}; max |d| {np.abs(jt - qfc[w]).max():.3g}, "
               f"tol {jtol:.2g})", "solver._qfrc_constraint", "jtf", world=w, **replay)
    # row law at the published qacc (jaref accumulates alpha*jv in float32 over the iterations; the law is continuous)
    jaref = J @ qacc[w, :nv].astype(np.float64) - aref[w, :n]
    ref = _row_force_law(ty, jaref, D[w, :n].astype(np.float64), floss[w, :n].astype(np.float64))
    ok = np.isfinite(ref)
    acc.hit(f"budget:row-law-compared={'yes' if ok.any() else 'no'}")
    ltol = LAWTOL * D[w, :n] * (np.abs(J) @ np.abs(qacc[w, :nv]) + np.abs(aref[w, :n])) + tol
    if ok.any() and (np.abs(ref - f)[ok] > ltol[ok]).any():
      r = int(np.argmax(np.where(ok, np.abs(ref - f) - ltol, -np.inf)))
      acc.find(f"efc_force differs from the row law evaluated at the published qacc ({tag}; row {r} type {int(ty[r])} state {int(st[r])}: {f[r]:.6g} vs {ref[r]:.6g}, tol {ltol[r]:.2g})",
               "solver._update_constraint_efc", "force-vs-qacc", world=w, **replay)
  return new_state


def _budget_cases(ctx, acc, ncases, rec=None):
  """solves that stop on the iteration limit (1..4 iterations, short and long line searches) from a warm start that is far from
  the new solution: an arm with joint/tendon friction loss is driven for a few steps, then the drive is reversed / rescaled per
  world and forward() is called. A friction-loss row then travels from one linear regime to the other within one iteration, and
  the solve ends wherever the budget ends. Every published solve (each step and the final forward) is checked."""
  import warp as wp
  import mujoco_warp as mjw
  from harness import mjw_util
  rng = np.random.default_rng(ctx.seed * 1000 + 242424)
  for c in range(ncases):
    combo = BUDGET_COMBOS[c % len(BUDGET_COMBOS)]
    xml, n, fl, feats = _chain_xml(rng, c, combo)
    mjm, mjd = mjw_util.load(xml)
    nv = mjm.nv
    nworld = 3
    tq = rng.uniform(15, 40, size=nv) * np.maximum(fl, 0.3) * rng.choice([-1.0, 1.0], size=nv)
    scale2 = rng.uniform(-1.5, 1.5)
    npre = int(rng.integers(1, 4))
    replay = {"xml": xml, "torque": tq.tolist(), "world_scales_after": [-1.0, 1.0, float(scale2)], "npre": npre}
    acc.hit(f"budget:{combo[0]}/{combo[1]}/{combo[2]}/it={combo[3]}/ls={combo[4]}")
    for k, v in feats.items():
      if v:
        acc.hit(f"budget:feature-{k}")
    try:
      # launches are recorded (thorough tier) on the two Newton/pyramidal one-iteration cases, with a small njmax: the allocating kernel is replayed serially (<= 96 tasks)
      icpt = rec is not None and c < 2
      m, d = mjw_util.put(mjm, mjd, nworld=nworld, **({"njmax": 16} if icpt else {}))
      m.opt.warn_overflow = False  # stopping on the limit is the point here; keeps the console quiet
      d.qfrc_applied = wp.array(np.tile(tq, (nworld, 1)), dtype=float)
      prev = None
      for s in range(npre):
        qp = d.qpos.numpy().copy()  # step() publishes the solve at the configuration BEFORE integration
        mjw.step(m, d)
        prev = _check_solve_outputs(acc, m, d, nv, combo[1], f"step {s} of the drive", replay, prev, mjm, mjd, qp)
      d.qfrc_applied = wp.array(np.stack([-tq, tq, scale2 * tq]), dtype=float)
      if icpt:
        with rec:
          mjw.forward(m, d)
      else:
        mjw.forward(m, d)
      _check_solve_outputs(acc, m, d, nv, combo[1], "forward after the drive was reversed (world 0) / kept (1) / rescaled (2)", replay, prev, mjm, mjd, d.qpos.numpy())
    except Exception as e:
      acc.find(f"forward/step raised {type(e).__name__}: {e}", "forward", "crash", **replay)
    acc.distinct.add(("budget", c, combo))


PUSH_XML = """<mujoco><option cone="elliptic" solver="{solver}" jacobian="{jac}" iterations="100" tolerance="1e-10"/>
<worldbody><geom name="floor" type="plane" size="5 5 .1"/>
<body pos="0 0 {z}" quat="{qw} 0 0 {qz}"><freejoint/><geom name="b" type="{gt}" size="{sz}" mass="1"/></body></worldbody>
<contact><pair geom1="floor" geom2="b" condim="{cd}" friction="{mu1} {mu2} 0.01 0.001 0.001"/></contact></mujoco>"""


def _push_cases(ctx, ncases):
  """a body RESTING on the floor through an explicit pair with anisotropic sliding friction (mu1 != mu2), pushed sideways below
  and above the slip threshold: in the sticking zone the tangential force is decided by the rows' regularisation, so a row
  scaling that does not follow the cone shows up as a force outside (ft1/mu1)^2 + (ft2/mu2)^2 <= fn^2"""
  import mujoco
  import warp as wp
  import mujoco_warp as mjw
  rng = np.random.default_rng(ctx.seed * 1000 + 2424)
  findings, evals = [], 0
  for c in range(ncases):
    mu = rng.uniform(0.15, 1.2, size=2)
    if abs(mu[0] - mu[1]) < 0.2:
      mu[1] = mu[0] * (0.3 if rng.random() < 0.5 else 2.5)
    gt, sz, z = [("box", ".1 .1 .1", 0.0995), ("sphere", ".1", 0.0995), ("capsule", ".06 .1", 0.0595)][int(rng.integers(0, 3))]
    ang = rng.uniform(0, np.pi)
    xml = PUSH_XML.format(solver=str(rng.choice(["Newton", "CG"])), jac=str(rng.choice(["dense", "sparse"])), z=z, qw=np.cos(ang / 2), qz=np.sin(ang / 2), gt=gt, sz=sz,
                          cd=int(rng.choice([3, 4, 6])), mu1=f"{mu[0]:.3f}", mu2=f"{mu[1]:.3f}")
    mjm = mujoco.MjModel.from_xml_string(xml)
    mjd = mujoco.MjData(mjm)
    th = rng.uniform(0, 2 * np.pi)
    mag = rng.uniform(0.2, 1.6) * min(mu) * 9.81
    mjd.xfrc_applied[1, :2] = mag * np.array([np.cos(th), np.sin(th)])
    mujoco.mj_forward(mjm, mjd)
    m = mjw.put_model(mjm)
    d = mjw.put_data(mjm, mjd, nworld=1)
    mjw.forward(m, d)
    evals += 1
    nac = int(min(d.nacon.numpy()[0], d.naconmax))
    if nac == 0 or (d.overflow.numpy() & 0x1FF).any():
      continue
    out = wp.zeros(nac, dtype=wp.spatial_vector)
    mjw.contact_force(m, d, wp.array(np.arange(nac, dtype=np.int32), dtype=int), False, out)
    cf, fr = out.numpy(), d.contact.friction.numpy()[:nac]
    for k in range(nac):
      fn, ft = cf[k, 0], cf[k, 1:3]
      lhs = np.sqrt((ft[0] / fr[k, 0]) ** 2 + (ft[1] / fr[k, 1]) ** 2)
      if fn < -1e-4 or lhs > fn * (1 + 5e-3) + 1e-3:
        findings.append({"what": f"elliptic contact force outside its anisotropic cone (fn={fn:.4g}, sqrt((ft1/mu1)^2+(ft2/mu2)^2)={lhs:.4g}, mu=({fr[k, 0]:.3g},{fr[k, 1]:.3g}))",
                         "site": "constraint._efc_contact_update / solver._eval_constraint", "trigger_id": "cone-anisotropic", "xml": xml, "xfrc": mjd.xfrc_applied[1].tolist()})
        break
    ref = mjd.qacc
    qa = d.qacc.numpy()[0]
    if not np.allclose(qa, ref, rtol=2e-2, atol=2e-2 * (1 + np.abs(ref).max())):
      findings.append({"what": f"qacc of a pushed resting body differs from mj_forward (max |d| {np.abs(qa - ref).max():.3g})", "site": "constraint._efc_contact_update / solver._eval_constraint",
                       "trigger_id": "pushed-body-qacc", "xml": xml, "xfrc": mjd.xfrc_applied[1].tolist()})
  return evals, findings


def correspondence(ctx):
  from harness.corr import func_corr
  from harness.props.common import Acc
  names = [f for f in GEN_FUNCS if f != "solver._eval_constraint" and f not in KERNELS] + ["solver._eval_frictionloss_pt_one", "solver._eval_pt", "solver._eval_cost"]
  fc = func_corr.run(names, ncases=256 if ctx.thorough else 64, seed=ctx.seed)
  fc2 = func_corr.run(["solver._eval_constraint"], ncases=512 if ctx.thorough else 128, seed=ctx.seed + 1, int_ranges={"solver._eval_constraint": (0, 1)})
  evals, nontriv, samples, findings = _oracle(ctx, 24 if ctx.thorough else 6)
  pe, pf = _push_cases(ctx, 40 if ctx.thorough else 12)
  acc = Acc()
  kc = None
  if ctx.thorough:
    from harness.corr import kernel_corr
    rec = kernel_corr.Recorder(wanted=KERNELS, max_records_per_kernel=4)
    _budget_cases(ctx, acc, 48, rec)
    kc = kernel_corr.check_records(rec, np.random.default_rng(ctx.seed), max_tids=64, replay_allocs=True)
  else:
    _budget_cases(ctx, acc, 12)
  evals, nontriv, findings = evals + pe + acc.evals, nontriv + pe + acc.evals, findings + pf + acc.findings
  fns = dict(fc["functions"]); fns.update(fc2["functions"])
  return {"evaluations": fc["evaluations"] + fc2["evaluations"] + evals, "distinct_nontrivial": fc["distinct_outputs"] + fc2["distinct_outputs"] + nontriv,
          "rule": RULE, "samples": [fc["sample"]] + samples, "func_level": fns, "disagreements": fc["disagreements"] + fc2["disagreements"] + (kc["disagreements"] if kc else []), "findings": findings, "hits": acc.hist,
          "kernel_interception": ({k: v for k, v in kc.items() if k != "disagreements"} if kc else "thorough tier only")}


RULE = ("func-level: random float32 argument tuples incl. 0/+-1/MJ_MINVAL neighbours, all flag combinations; distinct = distinct (function, output); "
        "forward-level: random trees dropped on a floor with friction loss and joint limits, both cones/solvers, dense/sparse/auto Jacobian in rotation, explicit floor pairs with "
        "anisotropic friction; plus bodies resting on an anisotropic-friction pair and pushed sideways around the slip threshold (cone membership with the per-axis coefficients, qacc vs "
        "mj_forward); plus budget-limited warm-started solves: 2..3-hinge arms with joint friction loss (in rotation: tendon friction loss, joint limit, floor contact), 3 worlds, driven for "
        "1..3 steps and then the drive reversed / kept / rescaled per world, (solver, cone, jacobian, iterations 1/2/3/4/100, ls_iterations 4/50) in fixed rotation with Newton+pyramidal "
        "(tracked state changes, incremental Hessian, stable-state fast path) first; after EVERY published solve (each step, the final forward), converged or stopped on the limit: "
        "qfrc_constraint = J^T efc_force (J densified from either storage), friction-loss bound, non-negative limit/pyramidal forces, satisfied rows exactly zero, and efc_force = row law "
        "(NumPy transcription) at jaref = J qacc - aref of the published qacc; hits record per-combination counts, friction rows in a linear regime, rows that switched linear side between "
        "consecutive solves, and stops on/below the limit; nontrivial = worlds with nefc>0")


def search(ctx, breaks):
  from harness.props.common import Acc
  evals, nontriv, samples, findings = _oracle(ctx, 60)
  pe, pf = _push_cases(ctx, 60)
  acc = Acc()
  _budget_cases(ctx, acc, 96)
  evals, findings = evals + pe + acc.evals, findings + pf + acc.findings
  return {"oracle": "admissibility inequalities and J^T f on real forward() outputs, incl. solves stopped on the iteration limit from a far warm start", "cases": evals, "hits": acc.hist,
          "outcome": "witness" if findings else "none", "findings": findings}
