"""C22 Jacobians are consistent with positions and velocities."""
from __future__ import annotations
import numpy as np
from .common import Acc, intercept, result, search_result

ID = "C22"
LEAN_MODULES = ["MjwVerif.Props.C22"]
GEN_FUNCS = ["support.jac_dof", "support._compute_jacp", "support._compute_jacr", "smooth._cdof", "support._make_jac_kernel___jac"]
KERNELS = ["support._make_jac_kernel___jac"]
LEVEL_TEXT = ("Theorems about functions regenerated from support.py / smooth.py on every run: `jac_dof` returns MuJoCo's mj_jac column (cdof_lin + cdof_ang x (point - subtree_com[root]), cdof_ang) "
              "when the dof is an ancestor of the body, else 0; for hinge/slide dofs the column is (axis x (x - anchor), axis) / (axis, 0) (the subtree-com offsets cancel); for a single hinge in any "
              "unit frame the derivative of the kernel's own point position w.r.t. the joint angle IS that column (HasDerivAt). On the real code: jac() vs mujoco.mj_jac on random points/bodies, "
              "J*qvel vs efc_vel for every constraint row, the COMPLETE tendon and actuator Jacobian matrices (ten_J, actuator_moment) for every transmission kind (joint/jointinparent on "
              "hinge, slide, ball and free joints; tendon; site with and without refsite; adhesion on a body; slider-crank with the slider site on a rotating body and the crank in the same tree, "
              "another tree or the world, regular and degenerate determinant) vs MuJoCo on the same state and vs per-dof central differences of mujoco_warp's own lengths, and dense vs sparse "
              "Jacobian simulations with non-zero controls.")
LEVEL_NOTE = ("C22_partial: chains of joints and ball/free rotational dofs (velocity-map statement), tendon/actuator Jacobians (every transmission kind, complete matrices vs MuJoCo; vs finite differences "
              "of the lengths where the Jacobian is an exact derivative: tendons, scalar-joint, tendon and slider-crank transmissions) and dense=sparse are sampled only. The adhesion (body) moment is "
              "checked by running transmission() alone on MuJoCo's own contacts and constraint rows (contact-set differences belong to C04). Trusted: Lean kernel + Mathlib, translator.")
ASSUMPTIONS = ["tolerance 1e-4 on point Jacobians, 2e-4 * (1 + max |row|) on tendon/actuator Jacobian rows vs MuJoCo, 2e-2 * (1 + max |row|) vs central differences (step 1e-3, float32 lengths), "
               "3e-3 * (1 + max |efc_vel|) on J*qvel vs efc_vel, max(5e-3, 2e-7 * cond(M)) * (1 + max |qacc|) on dense vs sparse qacc (float32 solve)",
               "slider-crank lengths are differentiated only where |det| > 1e-2 (the branch switch at det = 0 is not differentiable); cranklengths are chosen per state so that sqrt(det) is in [0.2, 0.6] "
               "or det is clearly negative"]

TRN = {0: "joint", 1: "jointinparent", 2: "slidercrank", 3: "tendon", 4: "site", 5: "body"}  # mujoco.mjtTrn


def _inject_sites(rng, wb):
  """adds a randomly placed and ORIENTED site xs<b> to every generated body b<b> and a site xsw to the world body"""
  import re
  from harness.gen.models import _f

  def one(name):
    q = rng.normal(size=4)
    return f'<site name="{name}" pos="{_f(rng.uniform(-0.15, 0.15, size=3))}" quat="{_f(q / np.linalg.norm(q))}"/>'

  wb = re.sub(r'<body name="b(\d+)"[^>]*>', lambda mo: mo.group(0) + one(f"xs{mo.group(1)}"), wb)
  return f'    <site name="xsw" pos="{_f(rng.uniform(-0.3, 0.3, size=3) + np.array([0, 0, 0.8]))}" quat="{_f((lambda q: q / np.linalg.norm(q))(rng.normal(size=4)))}"/>\n' + wb


def _all_transmissions(rng, mjm0, sp, c):
  """actuator XML covering every transmission kind for the tree compiled in mjm0 (bodies b<k> carry sites xs<k>; world: xsw)"""
  import mujoco
  from harness.gen.models import _f
  J = mujoco.mjtJoint
  act = ""
  g6 = lambda: _f(rng.uniform(0.3, 2.0, size=6) * rng.choice([-1, 1], size=6))
  g3 = lambda: _f(rng.uniform(0.3, 2.0, size=3) * rng.choice([-1, 1], size=3))
  # joint / jointinparent on ball and free joints (hinge/slide: jointinparent == joint; one of them too)
  done = set()
  for jn, jt in sp.joint_types.items():
    if jt in done:
      continue
    done.add(jt)
    if jt == "free":
      act += f'<motor joint="{jn}" gear="{g6()}"/><motor jointinparent="{jn}" gear="{g6()}"/>'
    elif jt == "ball":
      act += f'<motor joint="{jn}" gear="{g3()}"/><motor jointinparent="{jn}" gear="{g3()}"/>'
    else:
      act += f'<motor jointinparent="{jn}" gear="{rng.uniform(0.5, 2):.4g}"/>'
  # rotational dofs at or above each body, tree of each body
  nb = mjm0.nbody
  rot = np.zeros(nb, dtype=bool)
  for b in range(1, nb):
    jt = mjm0.jnt_type[mjm0.body_jntadr[b]: mjm0.body_jntadr[b] + mjm0.body_jntnum[b]] if mjm0.body_jntnum[b] else []
    rot[b] = rot[mjm0.body_parentid[b]] or any(int(t) in (int(J.mjJNT_FREE), int(J.mjJNT_BALL), int(J.mjJNT_HINGE)) for t in jt)
  name = {b: mujoco.mj_id2name(mjm0, mujoco.mjtObj.mjOBJ_BODY, b) for b in range(1, nb)}
  xs = lambda b: "xs" + name[b][1:]
  bodies = list(range(1, nb))
  moving = [b for b in bodies if mjm0.body_weldid[b] != 0]
  # wrench at a site without refsite; site relative to a refsite with a full (translational and rotational) gear
  b = moving[c % len(moving)] if moving else bodies[c % len(bodies)]
  act += f'<general site="{xs(b)}" gear="{g6()}"/>'
  b2 = bodies[(c + 1) % len(bodies)]
  act += f'<general site="{xs(b)}" refsite="{xs(b2) if b2 != b else "xsw"}" gear="{g6()}"/>'
  # adhesion on a body (moment: average of the normal Jacobians of the body's contacts)
  act += f'<adhesion body="{name[bodies[c % len(bodies)]]}" ctrlrange="0 1" gain="{rng.uniform(0.5, 2):.4g}"/>'
  if moving and c % 2:
    act += f'<adhesion body="{name[moving[(c // 2) % len(moving)]]}" ctrlrange="0 1" gain="{rng.uniform(0.5, 2):.4g}"/>'
  # slider-cranks (cranklength is set per state in _set_cranklengths)
  rots = [b for b in bodies if rot[b]]
  sc = lambda crank, slider: f'<motor cranksite="{crank}" slidersite="{slider}" cranklength="1" gear="{rng.uniform(0.5, 2) * rng.choice([-1, 1]):.4g}"/>'
  if rots:
    bs = rots[c % len(rots)]
    same = [b for b in bodies if b != bs and mjm0.body_rootid[b] == mjm0.body_rootid[bs]]
    other = [b for b in moving if mjm0.body_rootid[b] != mjm0.body_rootid[bs]]
    if same:
      act += sc(xs(same[c % len(same)]), xs(bs))
    if other:
      act += sc(xs(other[c % len(other)]), xs(bs))
    act += sc("xsw", xs(bs))
    gen = [s for s in sp.sites if s != "s" + name[bs][1:]]
    if gen:  # crank on one of the generator's unrotated sites
      act += sc(gen[c % len(gen)], xs(bs))
  act += sc(xs(moving[(c + 2) % len(moving)] if moving else bodies[0]), "xsw")
  return act


def _set_cranklengths(rng, mjm, mjd, c):
  """cranklength per slider-crank from the CURRENT site poses: the determinant av^2 + r^2 - |v|^2 is s^2 with s in [0.2, 0.6]
  (regular branch, derivative of sqrt well conditioned) or, for one actuator of every third case, clearly negative (the
  degenerate branch length = av). Returns the determinants (NaN for other transmissions)."""
  det = np.full(mjm.nu, np.nan)
  k = 0
  for i in range(mjm.nu):
    if mjm.actuator_trntype[i] != 2:
      continue
    cr, sl = mjm.actuator_trnid[i]
    v = mjd.site_xpos[cr] - mjd.site_xpos[sl]
    av = v @ mjd.site_xmat[sl].reshape(3, 3)[:, 2]
    perp2 = max(v @ v - av * av, 0.0)
    if c % 3 == 0 and k == (c // 3) % 2 and perp2 > 0.02:
      r2 = perp2 * rng.uniform(0.2, 0.6)
    else:
      r2 = perp2 + rng.uniform(0.2, 0.6) ** 2
    mjm.actuator_cranklength[i] = np.sqrt(r2)
    det[i] = r2 - perp2
    k += 1
  return det


def _dense(vals, rownnz, rowadr, colind, nrow, nv):
  out = np.zeros((nrow, nv))
  for i in range(nrow):
    for k in range(int(rownnz[i])):
      out[i, int(colind[int(rowadr[i]) + k])] += float(vals[int(rowadr[i]) + k])
  return out


def _run(ctx, ncases, rec):
  import mujoco
  import warp as wp
  import mujoco_warp as mjw
  from harness.gen import models
  rng = np.random.default_rng(ctx.seed * 1000 + 22)
  rx = np.random.default_rng(ctx.seed * 1000 + 2222)  # separate stream for the transmission sweep (keeps the tree/state stream stable)
  acc = Acc()

  def scenario():
    for c in range(ncases):
      wb, sp = models.random_tree(rng, nbody=int(rng.integers(2, 7)), max_joints_per_body=2, geom_types=["sphere", "capsule", "box"], sites=True, spread=0.35)
      # an ORIENTED site on every body and one on the world body (slider axes are site z axes; the generator's own sites are
      # unrotated and exist on 60% of the bodies only)
      wb = _inject_sites(rx, wb)
      extra = ""
      if len(sp.bodies) >= 2:
        extra = f'<equality><connect body1="{sp.bodies[0]}" body2="{sp.bodies[-1]}" anchor="0.05 0 0"/></equality>'
      # tendons (spatial through sites of possibly DIFFERENT kinematic trees, fixed over scalar joints) and actuators on them:
      # their Jacobians must be the derivatives of their lengths
      hj22 = [j for j, t in sp.joint_types.items() if t in ("hinge", "slide")]
      ten, act = "", ""
      if len(sp.sites) >= 2:
        for k in range(int(rng.integers(1, 3))):
          a, b = rng.choice(len(sp.sites), size=2, replace=False)
          ten += f'<spatial name="sp{k}"><site site="{sp.sites[a]}"/><site site="{sp.sites[b]}"/></spatial>'
          act += f'<motor tendon="sp{k}" gear="{rx.uniform(0.5, 2):.4g}"/>'
      if len(hj22) >= 2:
        ten += f'<fixed name="fx"><joint joint="{hj22[0]}" coef="1.3"/><joint joint="{hj22[1]}" coef="-0.7"/></fixed>'
        act += '<position tendon="fx" kp="2"/>'
      if hj22:
        act += f'<motor joint="{hj22[0]}" gear="1.7"/>'
      if len(sp.sites) >= 2:
        act += f'<general site="{sp.sites[0]}" refsite="{sp.sites[-1]}" gear="1 0 0 0 0.5 0"/>'
      # EVERY transmission kind in every case (the topology-dependent ones are chosen from a first compile of the bare tree):
      # joint / jointinparent on ball and free joints, wrench at a site (no refsite), site relative to a refsite with a full gear,
      # adhesion on a body, and slider-cranks whose slider site sits on a body WITH rotational dofs above it (the axis Jacobian
      # term is identically zero otherwise) and whose crank is in the same tree / another tree / the world, plus the mirrored one
      # (slider on the world)
      try:
        mjm0 = mujoco.MjModel.from_xml_string(models.wrap(wb))
      except ValueError:
        continue
      act += _all_transmissions(rx, mjm0, sp, c)
      if ten:
        extra += f"<tendon>{ten}</tendon>"
      if act:
        extra += f"<actuator>{act}</actuator>"
      jac_mode = "sparse" if rng.random() < 0.5 else "dense"
      xml = models.wrap(wb, option=f'jacobian="{jac_mode}"', extra=extra).replace('type="hinge"', 'type="hinge" limited="true" range="-0.3 0.3" frictionloss="0.1"')
      try:
        mjm = mujoco.MjModel.from_xml_string(xml)
      except ValueError:
        continue
      mjd = mujoco.MjData(mjm)
      models.random_state(rng, mjm, mjd, qpos_scale=0.5, qvel_scale=1.0, unnormalized=False)
      for j in range(mjm.njnt):
        if mjm.jnt_type[j] == 0:
          mjd.qpos[mjm.jnt_qposadr[j] + 2] = rng.uniform(0.03, 0.4)
      mjd.ctrl[:] = rx.uniform(0, 1, size=mjm.nu)
      mujoco.mj_kinematics(mjm, mjd)
      det = _set_cranklengths(rx, mjm, mjd, c)
      mujoco.mj_forward(mjm, mjd)
      m = mjw.put_model(mjm)
      d = mjw.put_data(mjm, mjd, nworld=1, naconmax=200, njmax=400)
      mjw.forward(m, d)
      acc.evals += 1
      acc.distinct.add((c, jac_mode))
      # (a) point Jacobians
      for _ in range(3):
        b = int(rng.integers(1, mjm.nbody))
        pt = mjd.xpos[b] + rng.normal(size=3) * 0.2
        jp, jr = np.zeros((3, mjm.nv)), np.zeros((3, mjm.nv))
        mujoco.mj_jac(mjm, mjd, jp, jr, pt, b)
        jacp = wp.zeros((1, 3, mjm.nv), dtype=float)
        jacr = wp.zeros((1, 3, mjm.nv), dtype=float)
        mjw.jac(m, d, jacp, jacr, wp.array([wp.vec3(*pt)], dtype=wp.vec3), wp.array([b], dtype=int))
        acc.evals += 1
        if not (np.allclose(jacp.numpy()[0], jp, atol=2e-4) and np.allclose(jacr.numpy()[0], jr, atol=2e-4)):
          acc.find(f"jac() differs from mj_jac for body {b} (max |d| {max(np.abs(jacp.numpy()[0] - jp).max(), np.abs(jacr.numpy()[0] - jr).max()):.3g})", "support.jac", "vs-mj_jac", xml=xml,
                   qpos=mjd.qpos.tolist(), body=b, point=pt.tolist())
      # (a') tendon and actuator lengths, velocities (Jacobian * qvel, random qvel) and the COMPLETE Jacobian matrices (ten_J,
      # actuator_moment) vs MuJoCo, and the Jacobians against central finite differences of mujoco_warp's OWN lengths along every
      # dof and along qvel (J is the derivative of L). One batched Data: worlds 0..nv-1 / nv..2nv-1 hold qpos +- h e_j, 2nv and
      # 2nv+1 hold qpos +- h qvel, and the last world holds the unperturbed state with MuJoCo's OWN contacts and constraint rows
      # (put_data copies them), which isolates the adhesion (body) moment from collision-stage differences.
      if mjm.ntendon or mjm.nu:
        nv, nu, nt = mjm.nv, mjm.nu, mjm.ntendon
        h = 1e-3
        nW = 2 * nv + 3
        Q = np.tile(mjd.qpos, (nW, 1))
        for j in range(nv):
          e = np.zeros(nv); e[j] = 1.0
          for sgn, w in ((+1, j), (-1, nv + j)):
            q2 = mjd.qpos.copy(); mujoco.mj_integratePos(mjm, q2, e, sgn * h); Q[w] = q2
        for sgn, w in ((+1, 2 * nv), (-1, 2 * nv + 1)):
          q2 = mjd.qpos.copy(); mujoco.mj_integratePos(mjm, q2, mjd.qvel, sgn * h); Q[w] = q2
        dx = mjw.put_data(mjm, mjd, nworld=nW, naconmax=max(200, mjd.ncon * nW), njmax=400)
        dx.qpos.assign(Q.astype(np.float32))
        mjw.kinematics(m, dx); mjw.com_pos(m, dx); mjw.tendon(m, dx); mjw.transmission(m, dx)
        TL, AL = dx.ten_length.numpy().astype(np.float64), dx.actuator_length.numpy().astype(np.float64)
        fdJ = {"tendon": (TL[:nv] - TL[nv:2 * nv]).T / (2 * h), "actuator": (AL[:nv] - AL[nv:2 * nv]).T / (2 * h)}
        fdv = {"tendon": (TL[2 * nv] - TL[2 * nv + 1]) / (2 * h), "actuator": (AL[2 * nv] - AL[2 * nv + 1]) / (2 * h)}
        # complete Jacobians, dense: mujoco_warp (after forward), MuJoCo, and (adhesion rows) transmission() alone on MuJoCo's contacts
        trn = mjm.actuator_trntype
        got_J = {"tendon": _dense(d.ten_J.numpy()[0], m.ten_J_rownnz.numpy(), m.ten_J_rowadr.numpy(), m.ten_J_colind.numpy(), nt, nv),
                 "actuator": _dense(d.actuator_moment.numpy()[0], d.moment_rownnz.numpy()[0], d.moment_rowadr.numpy()[0], d.moment_colind.numpy()[0], nu, nv)}
        ref_J = {"tendon": _dense(mjd.ten_J, mjm.ten_J_rownnz, mjm.ten_J_rowadr, mjm.ten_J_colind, nt, nv),
                 "actuator": _dense(mjd.actuator_moment, mjd.moment_rownnz, mjd.moment_rowadr, mjd.moment_colind, nu, nv)}
        iso = _dense(dx.actuator_moment.numpy()[nW - 1], dx.moment_rownnz.numpy()[nW - 1], dx.moment_rowadr.numpy()[nW - 1], dx.moment_colind.numpy()[nW - 1], nu, nv)
        got_J["actuator"][trn == 5] = iso[trn == 5]
        # the Jacobian is the exact derivative of the length for tendons and for joint (hinge/slide), tendon and slider-crank
        # transmissions (slider-crank: away from the branch switch det = 0). NOT for: ball joints (length = gear . log(quat)),
        # free joints / sites without refsite / bodies (length 0 by definition), sites with a refsite (MuJoCo's moment ignores the
        # rotation of the reference frame): for those MuJoCo's matrix is the reference.
        scalar_jnt = np.array([trn[i] in (0, 1) and mjm.jnt_type[mjm.actuator_trnid[i, 0]] in (2, 3) for i in range(nu)], dtype=bool)
        fdmask = {"tendon": np.ones(nt, dtype=bool), "actuator": scalar_jnt | (trn == 3) | ((trn == 2) & (np.abs(np.nan_to_num(det)) > 1e-2))}
        # adhesion rows after a full forward depend on mujoco_warp's own contact set (another property's business): no velocity comparison
        vmask = {"tendon": np.ones(nt, dtype=bool), "actuator": trn != 5}
        kinds = {"tendon": ["tendon"] * nt, "actuator": [TRN[int(t)] for t in trn]}
        for nm, got_l, ref_l, got_v, ref_v in (("tendon", d.ten_length.numpy()[0], mjd.ten_length, d.ten_velocity.numpy()[0], mjd.ten_velocity),
                                               ("actuator", d.actuator_length.numpy()[0], mjd.actuator_length, d.actuator_velocity.numpy()[0], mjd.actuator_velocity)):
          if not len(ref_l):
            continue
          acc.evals += 1
          sc = 1 + np.abs(ref_v).max()
          fd, msk = fdv[nm], fdmask[nm]
          rowsc = 1 + np.abs(ref_J[nm]).max(axis=1, keepdims=True)
          bad_m = np.abs(got_J[nm] - ref_J[nm]).max(axis=1) > 2e-4 * rowsc[:, 0]
          bad_fd = (np.abs(got_J[nm] - fdJ[nm]).max(axis=1) > 2e-2 * rowsc[:, 0]) & msk
          if not np.allclose(got_l, ref_l, rtol=1e-4, atol=1e-4):
            acc.find(f"{nm} length differs from mj_forward (max |d| {np.abs(got_l - ref_l).max():.3g})", "smooth.tendon/transmission", f"{nm}-length", xml=xml, qpos=mjd.qpos.tolist(),
                     cranklength=mjm.actuator_cranklength.tolist())
          elif bad_m.any():
            # one finding per transmission kind of the case
            for kind in sorted({kinds[nm][i] for i in np.nonzero(bad_m)[0]}):
              rows = [int(i) for i in np.nonzero(bad_m)[0] if kinds[nm][i] == kind]
              acc.find(f"{nm} Jacobian ({kind}) differs from MuJoCo's on the same state: rows {rows}, max |d| {np.abs(got_J[nm][rows] - ref_J[nm][rows]).max():.3g} "
                       f"(finite difference of the own length agrees with {'MuJoCo' if np.abs(fdJ[nm][rows] - ref_J[nm][rows]).max() < np.abs(fdJ[nm][rows] - got_J[nm][rows]).max() else 'mujoco_warp'}"
                       f"{'' if msk[rows].all() else '; not an exact derivative for this kind'})", "smooth.tendon/transmission", f"{nm}-jacobian-matrix-{kind}", xml=xml, qpos=mjd.qpos.tolist(),
                       qvel=mjd.qvel.tolist(), cranklength=mjm.actuator_cranklength.tolist(), rows=rows)
          elif not np.allclose(got_v[vmask[nm]], ref_v[vmask[nm]], rtol=2e-3, atol=2e-3 * sc):
            acc.find(f"{nm} velocity (Jacobian * qvel) differs from mj_forward (max |d| {np.abs(got_v - ref_v)[vmask[nm]].max():.3g})", "smooth.tendon/transmission", f"{nm}-jacobian", xml=xml,
                     qpos=mjd.qpos.tolist(), qvel=mjd.qvel.tolist(), cranklength=mjm.actuator_cranklength.tolist())
          elif bad_fd.any():
            rows = [int(i) for i in np.nonzero(bad_fd)[0]]
            acc.find(f"{nm} Jacobian is not the derivative of its own length (rows {rows}, per-dof central differences; max |d| {np.abs(got_J[nm][rows] - fdJ[nm][rows]).max():.3g})",
                     "smooth.tendon/transmission", f"{nm}-jacobian-fd", xml=xml, qpos=mjd.qpos.tolist(), cranklength=mjm.actuator_cranklength.tolist(), rows=rows)
          elif not np.allclose(got_v[msk], fd[msk], rtol=2e-2, atol=2e-2 * sc):
            acc.find(f"{nm} velocity (Jacobian * qvel) is not the derivative of its own length along qvel (max |d| {np.abs(got_v[msk] - fd[msk]).max():.3g})", "smooth.tendon/transmission",
                     f"{nm}-jacobian-fd", xml=xml, qpos=mjd.qpos.tolist(), qvel=mjd.qvel.tolist(), cranklength=mjm.actuator_cranklength.tolist())
          acc.hit(nm)
          acc.evals += int(len(ref_l))
        # what was really exercised (vacuity): per transmission kind, and for slider-cranks the geometry the axis term depends on
        for i in range(nu):
          kind = TRN[int(trn[i])]
          acc.hit("trn-" + kind + ("" if kind not in ("joint", "jointinparent") else "-" + ("free", "ball", "slide", "hinge")[int(mjm.jnt_type[mjm.actuator_trnid[i, 0]])]))
          if kind == "slidercrank":
            cr, sl = (int(mjm.site_bodyid[k]) for k in mjm.actuator_trnid[i])
            jp, jr = np.zeros((3, nv)), np.zeros((3, nv))
            mujoco.mj_jacSite(mjm, mjd, jp, jr, int(mjm.actuator_trnid[i, 1]))
            ax = mjd.site_xmat[mjm.actuator_trnid[i, 1]].reshape(3, 3)[:, 2]
            acc.hit("slidercrank-axis-moves" if np.abs(np.cross(jr.T, ax)).max() > 1e-3 else "slidercrank-axis-fixed")
            acc.hit("slidercrank-" + ("world-slider" if mjm.body_weldid[sl] == 0 else "world-crank" if mjm.body_weldid[cr] == 0 else
                                      "same-tree" if mjm.body_rootid[cr] == mjm.body_rootid[sl] else "other-tree"))
            acc.hit("slidercrank-det<=0" if det[i] <= 0 else "slidercrank-det>0")
          if kind == "body":
            bid = int(mjm.actuator_trnid[i, 0])
            nc = sum(1 for k in range(mjd.ncon) if bid in (mjm.geom_bodyid[mjd.contact.geom[k][0]], mjm.geom_bodyid[mjd.contact.geom[k][1]]))
            acc.hit("body-with-contacts" if nc else "body-without-contacts")
      # (b) J*qvel = efc_vel for every row
      nefc = int(d.nefc.numpy()[0])
      if nefc and (d.overflow.numpy() == 0).all():
        vel = d.efc.vel.numpy()[0][:nefc].astype(np.float64)
        qv = d.qvel.numpy()[0].astype(np.float64)
        if m.is_sparse:
          J = np.zeros((nefc, mjm.nv))
          rn, ra, ci, Jv = d.efc.J_rownnz.numpy()[0], d.efc.J_rowadr.numpy()[0], d.efc.J_colind.numpy()[0].reshape(-1), d.efc.J.numpy()[0].reshape(-1)
          for r in range(nefc):
            for k in range(rn[r]):
              J[r, ci[ra[r] + k]] = Jv[ra[r] + k]
        else:
          J = d.efc.J.numpy()[0][:nefc, : mjm.nv].astype(np.float64)
        if not np.allclose(J @ qv, vel, rtol=3e-3, atol=3e-3 * (1 + np.abs(vel).max())):
          acc.find(f"efc J*qvel differs from efc_vel ({jac_mode}; max |d| {np.abs(J @ qv - vel).max():.3g})", "constraint.make_constraint", "J-qvel", xml=xml, qpos=mjd.qpos.tolist(), qvel=mjd.qvel.tolist())
        acc.hit("rows")
      # (c) dense vs sparse give the same qacc
      other = "dense" if jac_mode == "sparse" else "sparse"
      mjm2 = mujoco.MjModel.from_xml_string(xml.replace(f'jacobian="{jac_mode}"', f'jacobian="{other}"'))
      mjm2.actuator_cranklength[:] = mjm.actuator_cranklength
      m2 = mjw.put_model(mjm2)
      md2 = mujoco.MjData(mjm2)
      md2.qpos[:], md2.qvel[:], md2.ctrl[:] = mjd.qpos, mjd.qvel, mjd.ctrl
      mujoco.mj_forward(mjm2, md2)
      d2 = mjw.put_data(mjm2, md2, nworld=1, naconmax=200, njmax=400)
      mjw.forward(m2, d2)
      qa, qb = d.qacc.numpy()[0], d2.qacc.numpy()[0]
      # float32 solves lose eps32 * cond(M) relative accuracy: the tolerance follows the condition number of the mass matrix
      # (a tree of light bodies behind heavy ones reaches cond 1e5, where the two representations legitimately differ by 1%)
      Mfull = np.zeros((mjm.nv, mjm.nv))
      for j in range(mjm.nv):
        e = np.zeros(mjm.nv); e[j] = 1.0; col = np.zeros(mjm.nv)
        mujoco.mj_mulM(mjm, mjd, col, e); Mfull[:, j] = col
      rel = max(5e-3, 2e-7 * float(np.linalg.cond(Mfull)))
      if rel > 5e-3:
        acc.hit("ill-conditioned-M")
      if (d.overflow.numpy() == 0).all() and (d2.overflow.numpy() == 0).all() and not np.allclose(qa, qb, rtol=rel, atol=rel * (1 + np.abs(qa).max())):
        acc.find(f"dense and sparse Jacobian settings give different qacc (max |d| {np.abs(qa - qb).max():.3g})", "constraint/solver", "dense-vs-sparse", xml=xml, qpos=mjd.qpos.tolist(), qvel=mjd.qvel.tolist(),
                 ctrl=mjd.ctrl.tolist(), cranklength=mjm.actuator_cranklength.tolist())
      acc.sample({"nbody": int(mjm.nbody), "nv": int(mjm.nv), "jacobian": jac_mode, "nefc": nefc})

  if rec:
    kc, _ = intercept(KERNELS, scenario, rng, max_tids=16, per_kernel=3)
  else:
    scenario()
    kc = None
  return acc, kc


RULE = ("random trees over a floor with limits, friction loss, a connect equality, spatial tendons between sites of arbitrary trees, a fixed tendon, an oriented site on every body and on the world, "
        "and in EVERY case actuators of every transmission kind (joint/jointinparent on one joint of each type present, tendon, site, site+refsite with full gear, adhesion, and 3-5 slider-cranks: slider "
        "site on a body with rotational dofs above it and crank in the same tree / another tree / the world / on an unrotated site, plus slider on the world; every third case one of them with det < 0), "
        "random controls, dense or sparse; (a') tendon/actuator lengths, velocities and complete Jacobian matrices vs MuJoCo (adhesion rows: transmission() alone on MuJoCo's contacts), Jacobian rows vs "
        "per-dof central differences of their own lengths and velocities vs central differences along qvel (one batched Data of 2 nv + 3 worlds); (a) jac() at random points of random bodies vs "
        "mujoco.mj_jac, (b) J*qvel vs efc_vel for all rows, (c) the same state with the other Jacobian representation gives the same qacc; distinct = (case, representation); hits list the transmission "
        "kinds and slider-crank geometries really exercised (axis-moves = the slider axis has a non-zero Jacobian)")

def correspondence(ctx):
  acc, kc = _run(ctx, 40 if ctx.thorough else 10, True)
  return result(acc, RULE, kc=kc)


def search(ctx, breaks):
  acc, _ = _run(ctx, 100, False)
  return search_result(acc, "mujoco.mj_jac, J*qvel = efc_vel, tendon/actuator Jacobian matrices vs MuJoCo and vs finite differences, dense vs sparse")
