"""C22 Jacobians are consistent with positions and velocities."""
from __future__ import annotations
import numpy as np
from .common import Acc, intercept, result, search_result

ID = "C22"
LEAN_MODULES = ["MjwVerif.Props.C22"]
GEN_FUNCS = ["support.jac_dof", "support._compute_jacp", "support._compute_jacr", "smooth._cdof", "support._make_jac_kernel___jac"]
KERNELS = ["support._make_jac_kernel___jac"]
LEVEL_TEXT = ("Theorems about functions regenerated from support.py / smooth.py on every run: `jac_dof` returns MuJoCo's mj_jac column (cdof_lin + cdof_ang x (point - subtree_com[root]), cdof_ang) "
              "when the dof is an ancestor of the body, else 0; for hinge/slide dofs the column is (axis x (x - anchor), axis) / (axis, 0) (the subtree-com offsets cancel); for a single hinge in any "
              "unit frame the derivative of the kernel's own point position w.r.t. the joint angle IS that column (HasDerivAt). On the real code: jac() vs mujoco.mj_jac on random points/bodies, "
              "J*qvel vs efc_vel for every constraint row, finite-difference of point positions, and dense vs sparse Jacobian simulations.")
LEVEL_NOTE = "C22_partial: chains of joints and ball/free rotational dofs (velocity-map statement), tendon/actuator Jacobians (vs MuJoCo and vs finite differences of the lengths) and dense=sparse are sampled only. Trusted: Lean kernel + Mathlib, translator."
ASSUMPTIONS = ["tolerance 1e-4 on Jacobians, 2e-3 on J*qvel vs efc_vel, finite-difference step 1e-4 in float64 MuJoCo positions"]


def _run(ctx, ncases, rec):
  import mujoco
  import warp as wp
  import mujoco_warp as mjw
  from harness.gen import models
  rng = np.random.default_rng(ctx.seed * 1000 + 22)
  acc = Acc()

  def scenario():
    for c in range(ncases):
      wb, sp = models.random_tree(rng, nbody=int(rng.integers(2, 7)), max_joints_per_body=2, geom_types=["sphere", "capsule", "box"], sites=True, spread=0.35)
      extra = ""
      if len(sp.bodies) >= 2:
        extra = f'<equality><connect body1="{sp.bodies[0]}" body2="{sp.bodies[-1]}" anchor="0.05 0 0"/></equality>'
      # tendons (spatial through sites of possibly DIFFERENT kinematic trees, fixed over scalar joints) and actuators on them:
      # their Jacobians must be the derivatives of their lengths
      hj22 = [j for j, t in sp.joint_types.items() if t in ("hinge", "slide")]
      ten, act = "", ""
      if len(sp.sites) >= 2:
        for k in range(int(rng.integers(1, 3))):
          a, b = rng.choice(len(sp.sites), size=2, replace=False)
          ten += f'<spatial name="sp{k}"><site site="{sp.sites[a]}"/><site site="{sp.sites[b]}"/></spatial>'
          act += f'<motor tendon="sp{k}"/>'
      if len(hj22) >= 2:
        ten += f'<fixed name="fx"><joint joint="{hj22[0]}" coef="1.3"/><joint joint="{hj22[1]}" coef="-0.7"/></fixed>'
        act += '<position tendon="fx" kp="2"/>'
      if hj22:
        act += f'<motor joint="{hj22[0]}" gear="1.7"/>'
      if len(sp.sites) >= 2:
        act += f'<general site="{sp.sites[0]}" refsite="{sp.sites[-1]}" gear="1 0 0 0 0.5 0"/>'
      if ten:
        extra += f"<tendon>{ten}</tendon>"
      if act:
        extra += f"<actuator>{act}</actuator>"
      jac_mode = "sparse" if rng.random() < 0.5 else "dense"
      xml = models.wrap(wb, option=f'jacobian="{jac_mode}"', extra=extra).replace('type="hinge"', 'type="hinge" limited="true" range="-0.3 0.3" frictionloss="0.1"')
      try:
        mjm = mujoco.MjModel.from_xml_string(xml)
      except ValueError:
        continue
      mjd = mujoco.MjData(mjm)
      models.random_state(rng, mjm, mjd, qpos_scale=0.5, qvel_scale=1.0, unnormalized=False)
      for j in range(mjm.njnt):
        if mjm.jnt_type[j] == 0:
          mjd.qpos[mjm.jnt_qposadr[j] + 2] = rng.uniform(0.03, 0.4)
      mujoco.mj_forward(mjm, mjd)
      m = mjw.put_model(mjm)
      d = mjw.put_data(mjm, mjd, nworld=1, naconmax=200, njmax=400)
      mjw.forward(m, d)
      acc.evals += 1
      acc.distinct.add((c, jac_mode))
      # (a) point Jacobians
      for _ in range(3):
        b = int(rng.integers(1, mjm.nbody))
        pt = mjd.xpos[b] + rng.normal(size=3) * 0.2
        jp, jr = np.zeros((3, mjm.nv)), np.zeros((3, mjm.nv))
        mujoco.mj_jac(mjm, mjd, jp, jr, pt, b)
        jacp = wp.zeros((1, 3, mjm.nv), dtype=float)
        jacr = wp.zeros((1, 3, mjm.nv), dtype=float)
        mjw.jac(m, d, jacp, jacr, wp.array([wp.vec3(*pt)], dtype=wp.vec3), wp.array([b], dtype=int))
        acc.evals += 1
        if not (np.allclose(jacp.numpy()[0], jp, atol=2e-4) and np.allclose(jacr.numpy()[0], jr, atol=2e-4)):
          acc.find(f"jac() differs from mj_jac for body {b} (max |d| {max(np.abs(jacp.numpy()[0] - jp).max(), np.abs(jacr.numpy()[0] - jr).max()):.3g})", "support.jac", "vs-mj_jac", xml=xml,
                   qpos=mjd.qpos.tolist(), body=b, point=pt.tolist())
      # (a') tendon and actuator lengths and velocities (velocity = Jacobian * qvel, for a random qvel) vs MuJoCo, and the
      # velocities against a central finite difference of mujoco_warp's OWN lengths along qvel (J is the derivative of L)
      if mjm.ntendon or mjm.nu:
        h = 1e-3
        Lp = []
        for sgn in (+1, -1):
          q2 = mjd.qpos.copy()
          mujoco.mj_integratePos(mjm, q2, mjd.qvel, sgn * h)
          mdx = mujoco.MjData(mjm); mdx.qpos[:] = q2
          mujoco.mj_kinematics(mjm, mdx); mujoco.mj_comPos(mjm, mdx)
          dx = mjw.put_data(mjm, mdx, nworld=1, naconmax=200, njmax=400)
          dx.qpos.assign(q2[None].astype(np.float32))
          mjw.kinematics(m, dx); mjw.com_pos(m, dx); mjw.tendon(m, dx); mjw.transmission(m, dx)
          Lp.append((dx.ten_length.numpy()[0].astype(np.float64), dx.actuator_length.numpy()[0].astype(np.float64)))
        # site transmissions with a reference site measure rotation by a quaternion difference in a moving frame: their moment is
        # MuJoCo's definition, not the exact derivative of that length, so the finite-difference test covers joint/tendon transmissions
        fdmask = {"tendon": np.ones(mjm.ntendon, dtype=bool),
                  "actuator": np.isin(mjm.actuator_trntype, [int(mujoco.mjtTrn.mjTRN_JOINT), int(mujoco.mjtTrn.mjTRN_TENDON)])}
        for nm, got_l, ref_l, got_v, ref_v, fd in (("tendon", d.ten_length.numpy()[0], mjd.ten_length, d.ten_velocity.numpy()[0], mjd.ten_velocity, (Lp[0][0] - Lp[1][0]) / (2 * h)),
                                                  ("actuator", d.actuator_length.numpy()[0], mjd.actuator_length, d.actuator_velocity.numpy()[0], mjd.actuator_velocity, (Lp[0][1] - Lp[1][1]) / (2 * h))):
          if not len(ref_l):
            continue
          acc.evals += 1
          sc = 1 + np.abs(ref_v).max()
          if not np.allclose(got_l, ref_l, rtol=1e-4, atol=1e-4):
            acc.find(f"{nm} length differs from mj_forward (max |d| {np.abs(got_l - ref_l).max():.3g})", "smooth.tendon/transmission", f"{nm}-length", xml=xml, qpos=mjd.qpos.tolist())
          elif not np.allclose(got_v, ref_v, rtol=2e-3, atol=2e-3 * sc):
            acc.find(f"{nm} velocity (Jacobian * qvel) differs from mj_forward (max |d| {np.abs(got_v - ref_v).max():.3g})", "smooth.tendon/transmission", f"{nm}-jacobian", xml=xml,
                     qpos=mjd.qpos.tolist(), qvel=mjd.qvel.tolist())
          elif not np.allclose(got_v[fdmask[nm]], fd[fdmask[nm]], rtol=2e-2, atol=2e-2 * sc):
            acc.find(f"{nm} velocity (Jacobian * qvel) is not the derivative of its own length along qvel (max |d| {np.abs(got_v - fd).max():.3g})", "smooth.tendon/transmission",
                     f"{nm}-jacobian-fd", xml=xml, qpos=mjd.qpos.tolist(), qvel=mjd.qvel.tolist())
          acc.hit(nm)
      # (b) J*qvel = efc_vel for every row
      nefc = int(d.nefc.numpy()[0])
      if nefc and (d.overflow.numpy() == 0).all():
        vel = d.efc.vel.numpy()[0][:nefc].astype(np.float64)
        qv = d.qvel.numpy()[0].astype(np.float64)
        if m.is_sparse:
          J = np.zeros((nefc, mjm.nv))
          rn, ra, ci, Jv = d.efc.J_rownnz.numpy()[0], d.efc.J_rowadr.numpy()[0], d.efc.J_colind.numpy()[0].reshape(-1), d.efc.J.numpy()[0].reshape(-1)
          for r in range(nefc):
            for k in range(rn[r]):
              J[r, ci[ra[r] + k]] = Jv[ra[r] + k]
        else:
          J = d.efc.J.numpy()[0][:nefc, : mjm.nv].astype(np.float64)
        if not np.allclose(J @ qv, vel, rtol=3e-3, atol=3e-3 * (1 + np.abs(vel).max())):
          acc.find(f"efc J*qvel differs from efc_vel ({jac_mode}; max |d| {np.abs(J @ qv - vel).max():.3g})", "constraint.make_constraint", "J-qvel", xml=xml, qpos=mjd.qpos.tolist(), qvel=mjd.qvel.tolist())
        acc.hit("rows")
      # (c) dense vs sparse give the same qacc
      other = "dense" if jac_mode == "sparse" else "sparse"
      mjm2 = mujoco.MjModel.from_xml_string(xml.replace(f'jacobian="{jac_mode}"', f'jacobian="{other}"'))
      m2 = mjw.put_model(mjm2)
      md2 = mujoco.MjData(mjm2)
      md2.qpos[:], md2.qvel[:] = mjd.qpos, mjd.qvel
      mujoco.mj_forward(mjm2, md2)
      d2 = mjw.put_data(mjm2, md2, nworld=1, naconmax=200, njmax=400)
      mjw.forward(m2, d2)
      qa, qb = d.qacc.numpy()[0], d2.qacc.numpy()[0]
      if (d.overflow.numpy() == 0).all() and (d2.overflow.numpy() == 0).all() and not np.allclose(qa, qb, rtol=5e-3, atol=5e-3 * (1 + np.abs(qa).max())):
        acc.find(f"dense and sparse Jacobian settings give different qacc (max |d| {np.abs(qa - qb).max():.3g})", "constraint/solver", "dense-vs-sparse", xml=xml, qpos=mjd.qpos.tolist(), qvel=mjd.qvel.tolist())
      acc.sample({"nbody": int(mjm.nbody), "nv": int(mjm.nv), "jacobian": jac_mode, "nefc": nefc})

  if rec:
    kc, _ = intercept(KERNELS, scenario, rng, max_tids=16, per_kernel=3)
  else:
    scenario()
    kc = None
  return acc, kc


RULE = ("random trees over a floor with limits, friction loss, a connect equality, spatial tendons between sites of arbitrary trees, a fixed tendon and actuators on joints/tendons/sites, dense or sparse; "
        "(a') tendon/actuator lengths and velocities vs mj_forward and velocities vs central differences of their own lengths; (a) jac() at random points of random bodies vs mujoco.mj_jac, (b) J*qvel vs efc_vel for all rows, "
        "(c) the same state with the other Jacobian representation gives the same qacc; distinct = (case, representation)")


def correspondence(ctx):
  acc, kc = _run(ctx, 40 if ctx.thorough else 10, True)
  return result(acc, RULE, kc=kc)


def search(ctx, breaks):
  acc, _ = _run(ctx, 100, False)
  return search_result(acc, "mujoco.mj_jac, J*qvel = efc_vel, dense vs sparse")
