"""C05 Constraint assembly agrees with MuJoCo C."""
from __future__ import annotations
import numpy as np
from .common import Acc, intercept, result, search_result

ID = "C05"
LEAN_MODULES = ["MjwVerif.Props.C05"]
GEN_FUNCS = ["constraint._efc_row", "constraint._equality_connect__kernel", "constraint._efc_contact_init__kernel", "constraint._efc_contact_update__kernel", "constraint._zero_constraint_counts"]
KERNELS = ["constraint._equality_joint__kernel", "constraint._friction_dof__kernel", "constraint._limit_slide_hinge__kernel", "constraint._efc_contact_update__kernel", "constraint._zero_constraint_counts"]
LEVEL_TEXT = ("Theorems about kernels regenerated from constraint.py on every run: `_efc_row` writes exactly the eight per-row cells of a transcription of mj_makeImpedance (REFSAFE clamp, direct "
              "k/b for negative solref, the two-branch sigmoid impedance, D = 1/max(R, MINVAL), aref = -b vel - k imp pos) under five explicit hypotheses where the code departs from C (witnesses); "
              "imp in [dmin,dmax] and 0 < D <= 1e15 unconditionally (C24's hypothesis); ne/nf/nl count the requested rows of each class for every interleaving; for every schedule the row "
              "classes occupy consecutive index blocks [0,ne) [ne,ne+nf) [..,+nl) [..,nefc); every contact efc_address >= 0 points at a row with efc_id = that contact, rows contiguous, -1 "
              "where the row did not fit; pyramidal rows use MuJoCo's pyramid regulariser. Rows are compared as multisets with mujoco.mj_forward; contact rows additionally one by one (contact k, direction i) "
              "with a tolerance relative to each row, with an explicit anisotropic-friction <pair> contact (condim 3/4/6) forced in every case.")
LEVEL_NOTE = ("C05_partial: Jacobian values (C22), adhesion branch, flex builders. Five documented departures from mj_makeImpedance on degenerate solimp/solref (C05Witness). "
              "Trusted: Lean kernel + Mathlib, tier-B translator (interception incl. allocation replay).")
ASSUMPTIONS = ["rows compared as sorted tuples (type, pos, margin, D, aref, frictionloss) with tolerance 2e-3 relative; cvel consistent (mj_forward before put_data)",
               "per-contact rows: put_data keeps MuJoCo's contact order, so contact k / row i is the same row on both sides; D within 5e-3 relative per row, aref within 5e-3 of the contact's largest |aref|"]


def _run(ctx, ncases, rec):
  import mujoco
  import mujoco_warp as mjw
  from harness.gen import models
  rng = np.random.default_rng(ctx.seed * 1000 + 5)
  prng = np.random.default_rng(ctx.seed * 1000 + 505)   # parameters of the explicit pairs (own stream)
  acc = Acc()

  def scenario():
    for c in range(ncases):
      cone = "elliptic" if rng.random() < 0.5 else "pyramidal"
      jac = "sparse" if rng.random() < 0.4 else "dense"
      if c % 4 != 3:
        # fixed rotation (three of four cases; the fourth keeps the random draw): elliptic/pyramidal alternate, and the elliptic cases alternate dense/sparse
        cone = "elliptic" if c % 2 == 0 else "pyramidal"
        if c % 2 == 0:
          jac = "dense" if c % 4 == 0 else "sparse"
      wb, sp = models.random_tree(rng, nbody=int(rng.integers(2, 6)), geom_types=["sphere", "capsule", "box"], spread=0.3, sites=False, joint_types=("free", "hinge", "slide", "ball"))
      extra = ""
      eqs = []
      if len(sp.bodies) >= 2:
        eqs.append(f'<connect body1="{sp.bodies[0]}" body2="{sp.bodies[1]}" anchor="0.05 0 0" active="{rng.choice(["true", "false", "true"])}" solimp="0.85 0.97 {float(rng.choice([0.001, 0.3, 3.0]))} 0.5 2"/>')
        if rng.random() < 0.5:
          # torquescale != 1 and an impedance width wide enough that the (random) violation is NOT saturated at dmax: the impedance
          # depends on the norm of the 6-vector (translation, torquescale * rotation)
          ts = float(rng.choice([1.0, 0.05, 20.0, 3.0]))
          wd = float(rng.choice([0.01, 0.5, 2.0, 5.0]))
          eqs.append(f'<weld body1="{sp.bodies[-1]}" body2="{sp.bodies[0]}" torquescale="{ts}" solref="0.03 0.8" solimp="0.8 0.95 {wd} 0.4 3"/>')
      hj = [j for j, t in sp.joint_types.items() if t in ("hinge", "slide")]
      if len(hj) >= 2:
        # either order (joint2 may be the model's first joint, id 0), or a single-joint equality (no joint2)
        ja, jb = (hj[0], hj[1]) if rng.random() < 0.5 else (hj[1], hj[0])
        eqs.append(f'<joint joint1="{ja}" joint2="{jb}" polycoef="0 0.5 0 0 0"/>' if rng.random() < 0.7 else f'<joint joint1="{ja}" polycoef="0.1 0 0 0 0"/>')
      elif len(hj) == 1 and rng.random() < 0.5:
        eqs.append(f'<joint joint1="{hj[0]}" polycoef="0.1 0 0 0 0"/>')
      if eqs:
        extra = "<equality>" + "".join(eqs) + "</equality>"
      # EVERY case: a sphere held at a height where it always touches the floor (slide along x, hinge about y through its centre),
      # whose contact comes from an explicit <pair> with anisotropic friction (mu1 != mu2, torsional, two rolling coefficients all
      # distinct), condim 3/4/6 in rotation; plus the same kind of pair for one geom of the random tree (in contact or not: recorded)
      pcd = (3, 4, 6)[c % 3]
      mu = prng.uniform(0.2, 1.2, size=2)
      if abs(mu[0] - mu[1]) < 0.25 * mu[0]:
        mu[1] = mu[0] * (0.4 if prng.random() < 0.5 else 2.2)
      pfr = f"{mu[0]:.3f} {mu[1]:.3f} {prng.uniform(0.002, 0.05):.4f} {prng.uniform(0.0001, 0.002):.5f} {prng.uniform(0.002, 0.01):.5f}"
      wb = wb + f'\n    <body name="c05pb" pos="{prng.uniform(-2, 2):.3f} {prng.uniform(2.5, 3.5):.3f} {prng.uniform(0.06, 0.095):.4f}"><joint name="c05ps" type="slide" axis="1 0 0"/>' \
                f'<joint name="c05ph" type="hinge" axis="0 1 0"/><geom name="c05pg" type="sphere" size="0.1"/></body>'
      pairs = f'<pair geom1="floor" geom2="c05pg" condim="{pcd}" friction="{pfr}"/>'
      if sp.geoms:
        mu2 = prng.uniform(0.2, 1.2) * np.array([1.0, float(prng.choice([0.35, 0.6, 1.7, 2.5]))])
        pairs += f'<pair geom1="floor" geom2="{sp.geoms[int(prng.integers(0, len(sp.geoms)))]}" condim="{(4, 6, 3)[c % 3]}" friction="{mu2[0]:.3f} {mu2[1]:.3f} 0.01 0.0005 0.002"/>'
      extra += "<contact>" + pairs + "</contact>"
      xml = models.wrap(wb, option=f'cone="{cone}" jacobian="{jac}" timestep="0.004"', extra=extra)
      xml = xml.replace('type="hinge"', 'type="hinge" limited="true" range="-0.3 0.3" frictionloss="0.2" solreflimit="0.03 1.1" margin="0.01"')
      xml = xml.replace('type="ball"', 'type="ball" limited="true" range="0 0.4"')
      try:
        mjm = mujoco.MjModel.from_xml_string(xml)
      except ValueError:
        continue
      mjd = mujoco.MjData(mjm)
      models.random_state(rng, mjm, mjd, qpos_scale=0.5, qvel_scale=1.0, unnormalized=False)
      for j in range(mjm.njnt):
        if mjm.jnt_type[j] == 0:
          mjd.qpos[mjm.jnt_qposadr[j] + 2] = rng.uniform(0.03, 0.3)
      mujoco.mj_forward(mjm, mjd)
      m = mjw.put_model(mjm)
      d = mjw.put_data(mjm, mjd, nworld=1, naconmax=200, njmax=500)
      # the constraint stage alone, on MuJoCo's own positions, velocities and CONTACTS (put_data copies them): differences of the
      # collision stage (contact counts of multi-contact pairs: property C04) must not be charged to the constraint rows
      mjw.make_constraint(m, d)
      acc.evals += 1
      acc.distinct.add((c, cone, jac))
      if (d.overflow.numpy() != 0).any():
        acc.hit("overflow-skipped")
        continue
      n = int(d.nefc.numpy()[0])
      cnt = (int(d.ne.numpy()[0]), int(d.nf.numpy()[0]), int(d.nl.numpy()[0]), n)
      ref = (int(mjd.ne), int(mjd.nf), int(mjd.nl), int(mjd.nefc))
      keep = np.ones(n, dtype=bool)
      only_non_eq = False
      if cnt != ref:
        # an OBSERVED count mismatch is attributed to the known deviation only if it is exactly explained by it: equality rows whose
        # Jacobian is identically zero (connect/weld between bodies that hang on the same weld root) are emitted here and dropped by
        # MuJoCo; removing exactly those rows must give MuJoCo's counts, and the remaining rows are compared as usual
        typ_w = d.efc.type.numpy()[0][:n]
        if m.is_sparse:
          ra, rn, Jv = d.efc.J_rowadr.numpy()[0][:n], d.efc.J_rownnz.numpy()[0][:n], d.efc.J.numpy()[0][0]
          zero = np.array([not np.any(Jv[ra[r]: ra[r] + rn[r]] != 0) for r in range(n)])
        else:
          zero = ~np.any(d.efc.J.numpy()[0][:n, : mjm.nv] != 0, axis=1)
        zero &= typ_w == 0   # equality rows only
        nz = int(zero.sum())
        dn = cnt[0] - ref[0]
        if nz and 0 < dn <= nz and (cnt[0] - dn, cnt[1], cnt[2], cnt[3] - dn) == ref:
          # MuJoCo dropped dn of the nz zero-Jacobian rows (those that are exactly zero in float64 too)
          acc.find(f"{nz} equality row(s) with an identically zero Jacobian (connect/weld between bodies on one weld root) are emitted here, none in MuJoCo (counts {cnt} vs {ref})",
                   "constraint._equality_connect/_equality_weld", "zero-jacobian-rows", xml=xml, qpos=mjd.qpos.tolist())
          keep = ~zero if dn == nz else (typ_w != 0)
          only_non_eq = dn != nz
        else:
          acc.find(f"row counts (ne,nf,nl,nefc) {cnt} differ from MuJoCo {ref}", "constraint.make_constraint", "counts", xml=xml, qpos=mjd.qpos.tolist())
          continue
      def rows(typ, pos, mar, D, aref, fl):
        return sorted(zip(np.asarray(typ).tolist(), np.round(pos, 4).tolist(), np.round(mar, 4).tolist(), np.asarray(D).tolist(), np.asarray(aref).tolist(), np.round(fl, 4).tolist()))
      a = rows(d.efc.type.numpy()[0][:n][keep], d.efc.pos.numpy()[0][:n][keep], d.efc.margin.numpy()[0][:n][keep], d.efc.D.numpy()[0][:n][keep], d.efc.aref.numpy()[0][:n][keep], d.efc.frictionloss.numpy()[0][:n][keep])
      nr = int(mjd.nefc)
      b = rows(mjd.efc_type[:nr], mjd.efc_pos[:nr], mjd.efc_margin[:nr], mjd.efc_D[:nr], mjd.efc_aref[:nr], mjd.efc_frictionloss[:nr])
      if only_non_eq:
        b = [r for r in b if r[0] != 0]
      ok = True
      # friction rows of elliptic contacts store pos=margin=includemargin (C stores 0): documented departure W5 -> compare D/aref/type only for those
      A = np.array([[r[0], r[3], r[4]] for r in sorted(a, key=lambda r: (r[0], r[3], r[4]))])
      B = np.array([[r[0], r[3], r[4]] for r in sorted(b, key=lambda r: (r[0], r[3], r[4]))])
      if A.shape != B.shape or (B.size and not np.allclose(A, B, rtol=5e-3, atol=5e-3 * (1 + np.abs(B).max()))):
        ok = False
        acc.find(f"constraint rows (type, D, aref) differ from MuJoCo as multisets ({cone}, {jac})", "constraint.make_constraint", "rows-vs-mujoco", xml=xml, qpos=mjd.qpos.tolist(), qvel=mjd.qvel.tolist())
      # contact rows one by one: the contacts are MuJoCo's own, in MuJoCo's order (put_data), so contact k / direction i is ONE row on
      # both sides (elliptic: condim rows, pyramidal: 2(condim-1) edges in the same order); D and aref of that row are compared with a
      # tolerance relative to that row's own magnitude (the multiset comparison above is scaled by the largest entry of the whole model)
      nc = int(d.nacon.numpy()[0])
      if nc == mjd.ncon and not (cnt != ref and only_non_eq):
        adr_w = d.contact.efc_address.numpy()[:nc]
        Dw, Aw, Tw = d.efc.D.numpy()[0], d.efc.aref.numpy()[0], d.efc.type.numpy()[0]
        fr_w = d.contact.friction.numpy()[:nc]
        for k in range(nc):
          con = mjd.contact[k]
          a_m = int(con.efc_address)
          cd = int(con.dim)
          nrow = cd if (cone == "elliptic" or cd == 1) else 2 * (cd - 1)
          aw = adr_w[k][:nrow]
          if a_m < 0 or (aw < 0).any():
            if (a_m < 0) != bool((aw < 0).all()):
              acc.find(f"contact {k}: rows present on one side only (MuJoCo efc_address {a_m}, here {aw.tolist()})", "constraint._efc_contact_init", "contact-rows-present", xml=xml, qpos=mjd.qpos.tolist())
            continue
          aniso = cd >= 3 and abs(con.friction[0] - con.friction[1]) > 0.1 * con.friction[0]
          acc.hit(f"contact-rows:{cone}-condim{cd}-{'aniso' if aniso else 'iso'}")
          if aniso:
            acc.hit(f"aniso-pair:{cone}-{jac}")
          Dm, Am, Tm = mjd.efc_D[a_m: a_m + nrow], mjd.efc_aref[a_m: a_m + nrow], mjd.efc_type[a_m: a_m + nrow]
          dD = np.abs(Dw[aw] - Dm) / np.maximum(np.abs(Dm), 1e-30)
          sA = 1e-4 + np.abs(Am).max()
          dA = np.abs(Aw[aw] - Am) / sA
          if (Tw[aw] != Tm).any() or dD.max() > 5e-3 or dA.max() > 5e-3:
            i = int(np.argmax(dD)) if dD.max() > 5e-3 else int(np.argmax(dA))
            acc.find(f"contact {k} (condim {cd}, {cone}, {jac}, friction {np.round(con.friction, 4).tolist()}): row {i} of the contact has D={Dw[aw][i]:.6g} aref={Aw[aw][i]:.6g}, "
                     f"MuJoCo D={Dm[i]:.6g} aref={Am[i]:.6g}", "constraint._efc_contact_update", "contact-row-D-aref", xml=xml, qpos=mjd.qpos.tolist(), qvel=mjd.qvel.tolist())
            ok = False
            break
      # contact row addresses
      adr = d.contact.efc_address.numpy()[:nc]
      ids = d.efc.id.numpy()[0][:n]
      types = d.efc.type.numpy()[0][:n]
      for k in range(nc):
        for a0 in adr[k]:
          if a0 >= 0 and (a0 >= n or ids[a0] != k):
            acc.find(f"contact {k} efc_address {int(a0)} does not point at a row of that contact", "constraint._efc_contact_init", "address", xml=xml, qpos=mjd.qpos.tolist())
            ok = False
            break
      acc.hit(f"{cone}-{jac}")
      acc.sample({"cone": cone, "jacobian": jac, "counts": cnt})

  if rec:
    kc, _ = intercept(KERNELS, scenario, rng, max_tids=16, per_kernel=2, replay_allocs=True)
  else:
    scenario()
    kc = None
  return acc, kc


RULE = ("random trees over a floor with connect (active or not), weld (custom solref/solimp), joint equality, joint limits with margin, ball limits, friction loss, contacts; in EVERY case a sphere resting on the floor through an explicit <contact><pair> with anisotropic friction "
        "(mu1 != mu2 by >= 25%, distinct torsional/rolling coefficients, condim 3/4/6 in rotation) plus such a pair for one geom of the tree; elliptic/pyramidal alternate and the elliptic cases "
        "alternate dense/sparse (every 4th case random); "
        "forward() vs mujoco.mj_forward: (ne,nf,nl,nefc), the multiset of rows (type, D, aref), per contact and direction (type, D, aref) of the one row against MuJoCo's row of the same contact (hits: contact-rows:<cone>-condim<k>-<aniso|iso>, "
        "aniso-pair:<cone>-<jacobian>), and contact.efc_address -> efc_id consistency; distinct = (case, cone, jacobian)")


def correspondence(ctx):
  acc, kc = _run(ctx, 40 if ctx.thorough else 8, True)
  return result(acc, RULE, kc=kc)


def search(ctx, breaks):
  acc, _ = _run(ctx, 100, False)
  return search_result(acc, "mujoco.mj_forward constraint rows (multiset), counts, address consistency")
