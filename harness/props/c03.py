"""C03 Actuation agrees with MuJoCo C."""
from __future__ import annotations
import numpy as np
from .common import Acc, intercept, result, search_result

ID = "C03"
LEAN_MODULES = ["MjwVerif.Props.C03"]
GEN_FUNCS = ["support.next_act", "forward._actuator_force", "util_misc._sigmoid", "util_misc.muscle_gain_length", "util_misc.muscle_bias", "smooth._transmission", "support.jac_dof"]
KERNELS = ["forward._actuator_force", "forward._actuator_velocity", "forward._qfrc_actuator", "forward._tendon_actuator_force", "forward._tendon_actuator_force_clamp"]
LEVEL_TEXT = ("Theorems over the reals about functions/kernels regenerated from support.py / forward.py / util_misc.py / smooth.py on every run: next_act per dynamics type (integrator/filter/filterexact/muscle/"
              "none/user) equals a transcription of mj_nextActivation, stays in actrange when clamped, filterexact limit behaviour; muscle helpers (_sigmoid in [0,1] and monotone, force-length "
              "curve in [0,1], passive force sign); `_actuator_force`: the control used is the clamped control (ctrllimited and CLAMPCTRL not disabled) and with forcelimited the stored force lies "
              "in forcerange (non-DCMOTOR bias); `_transmission` (SITE with reference site, translational gear, two-body topology, all real data): the complete write list, the moment entry being the velocity of "
              "the actuated site's own point minus that of the reference site's own point along the wrench R_ref*gear (transmission_refsite_moment_at_refsite_point, transmission_site_moment_at_site_point). Lengths, velocities, forces, act_dot and qfrc_actuator of the real fwd_actuation are compared with mujoco (sampled). "
              "Transmission scenes (sampled, every run): the dense actuator_moment matrix, row by row, plus length/velocity/force/qfrc_actuator, of mjw.transmission run alone on MuJoCo's own "
              "kinematics AND of the whole forward pass, against mujoco, on a branching tree (root hinge/free/ball in rotation, ball or slide+hinge inner link, welded body) with a second free "
              "tree, a slide-only tree and an adhesion pad: site+refsite in 11 topological relations of the two sites (refsite in world / ancestor / descendant / sibling branch / other tree / "
              "slide-only tree / same body / parent body / welded body, site in world) x translational / rotational / mixed gear, site without refsite, slider-crank in 5 relations with both "
              "determinant branches, joint and jointinparent on ball/free/hinge, spatial and fixed tendons, body (adhesion) with active, in-gap and no contacts under both cones; force laws "
              "motor/position/velocity/affine in rotation so that a wrong length or moment also shows in the force.")
LEVEL_NOTE = ("C03_partial: transmission moments (site/refsite/slider-crank/body/tendon/ball/free; compared per actuator row with mujoco on the transmission scenes), tendon/joint actuator-force "
              "limits and DC-motor branches are sampled only (the `_transmission` theorems cover one site/refsite topology with translational gear; the generated `_transmission` is tied to the source by regeneration only: it allocates rows with "
              "an atomic counter, so launch interception cannot replay it); documented deviations in C03Witness (USER dynamics unclamped; inverted actrange; DC-motor cogging torque after the force "
              "clamp). Not compared (counted in hits): slider-crank within 1% of the singular determinant, axis-angle site differences within 0.02 of pi (length/force only), and the force of "
              "rotational position servos when the installed MuJoCo wraps their servo error (exact signature: integer multiple of gain*2pi|gear|). Trusted: Lean kernel + Mathlib, translator.")
ASSUMPTIONS = ["oracle mujoco.mj_forward on the same model/state/ctrl"]

XML = """
<mujoco>
  <option timestep="0.004"/>
  <worldbody>
    <body pos="0 0 1" gravcomp="{gc}"><joint name="h1" type="hinge" axis="0 1 0" range="-1 1" actuatorfrcrange="-2 2" actuatorfrclimited="{jl}" actuatorgravcomp="{agc}"/><geom type="capsule" size=".04 .2"/>
      <site name="s1" pos=".1 0 0"/>
      <body pos=".4 0 0" gravcomp="{gc}"><joint name="h2" type="hinge" axis="0 1 0"/><geom type="capsule" size=".03 .15"/><site name="s2" pos=".1 0 0"/></body></body>
    <body pos="1 0 1"><joint name="sl" type="slide" axis="0 0 1"/><geom size=".05"/></body>
  </worldbody>
  <tendon><fixed name="t1" limited="false"><joint joint="h1" coef="1"/><joint joint="h2" coef="-0.5"/></fixed></tendon>
  <actuator>
    <motor joint="h1" gear="2" ctrllimited="true" ctrlrange="-0.5 0.5" forcelimited="{fl}" forcerange="-0.6 0.6"/>
    <position joint="h2" kp="5" kv="0.3"/>
    <velocity joint="sl" kv="2"/>
    <general tendon="t1" dyntype="{dyn}" dynprm="0.03" gainprm="3" biasprm="0.1 -1 -0.2" actlimited="true" actrange="-1 1"/>
    <muscle joint="h2" lengthrange="-1 1"/>
    <general site="s2" refsite="s1" gear="1 0 0 0 1 0" gainprm="2"/>
  </actuator>
</mujoco>
"""


def _run(ctx, ncases, rec, ntrn=12):
  import mujoco
  import mujoco_warp as mjw
  rng = np.random.default_rng(ctx.seed * 1000 + 3)
  acc = Acc()

  def scenario():
    for c in range(ncases):
      dyn = str(rng.choice(["integrator", "filter", "filterexact"]))
      fl, jl = str(rng.choice(["true", "false"])), str(rng.choice(["true", "false"]))
      clamp = rng.random() < 0.3
      early = rng.random() < 0.3
      # gravity compensation routed through the actuator channel (actuatorgravcomp) is added BEFORE the joint's actuator force range
      # clamps the total: both features on the same joint, with compensation large enough to matter
      agc = str(rng.choice(["true", "false"]))
      gc = float(rng.choice([0.0, 1.0, 2.5]))
      if c % 3 == 0:
        jl, agc, gc = "true", "true", 2.5   # every third case: limited joint + compensation through the actuator channel
      xml = XML.format(dyn=dyn, fl=fl, jl=jl, agc=agc, gc=gc)
      if clamp:
        xml = xml.replace("<option ", '<option><flag clampctrl="disable"/></option>\n  <option ')
      if early:
        xml = xml.replace('dynprm="0.03"', 'dynprm="0.03" actearly="true"')
      mjm = mujoco.MjModel.from_xml_string(xml)
      mjd = mujoco.MjData(mjm)
      mjd.qpos[:] = rng.normal(size=mjm.nq) * 0.4
      mjd.qvel[:] = rng.normal(size=mjm.nv)
      mjd.ctrl[:] = rng.normal(size=mjm.nu) * 1.5
      mjd.act[:] = rng.normal(size=mjm.na) * 0.5
      mujoco.mj_forward(mjm, mjd)
      nworld = int(rng.integers(1, 3))
      try:
        m = mjw.put_model(mjm)
      except Exception as e:
        acc.hit("rejected:" + type(e).__name__)
        continue
      d = mjw.put_data(mjm, mjd, nworld=nworld)
      mjw.forward(m, d)
      acc.evals += 1
      acc.distinct.add((dyn, fl, jl, clamp, early))
      for nm, a, b in (("actuator_length", d.actuator_length.numpy(), mjd.actuator_length), ("actuator_velocity", d.actuator_velocity.numpy(), mjd.actuator_velocity),
                       ("actuator_force", d.actuator_force.numpy(), mjd.actuator_force), ("act_dot", d.act_dot.numpy(), mjd.act_dot), ("qfrc_actuator", d.qfrc_actuator.numpy(), mjd.qfrc_actuator)):
        for w in range(nworld):
          if b.size and not np.allclose(a[w], b, rtol=3e-4, atol=3e-4 * (1 + np.abs(b).max())):
            acc.find(f"{nm} differs from MuJoCo (dyn={dyn}, forcelimited={fl}, jointlimited={jl}, clampctrl off={clamp}, actearly={early}): max |d| {np.abs(a[w] - b).max():.3g}",
                     "forward.fwd_actuation", "vs-mujoco-" + nm, xml=xml, ctrl=mjd.ctrl.tolist(), act=mjd.act.tolist(), qpos=mjd.qpos.tolist(), qvel=mjd.qvel.tolist())
            break
      acc.hit(dyn)
      acc.hit(f"gravcomp-actuator:{agc}:{gc}:{jl}")
      acc.sample({"dyn": dyn, "forcelimited": fl, "actuatorfrclimited": jl, "actuatorgravcomp": agc, "gravcomp": gc, "clampctrl_disabled": clamp, "actearly": early})

  if rec:
    kc, _ = intercept(KERNELS, scenario, rng, max_tids=16, per_kernel=3)
  else:
    scenario()
    kc = None
  _run_trn(ctx, ntrn, acc)
  return acc, kc


# ------------------------------------------------------------------------------------------------------------------------------
# Transmission scenes: every transmission type on a branching tree + separate trees, with the two attachment points of the
# two-point transmissions (site/refsite, slider-crank, spatial tendon) in every topological relation.

_REF_PAIRS = [("sa3", "sw", "ref-in-world"), ("sa3", "sb2", "ref-on-sibling-branch"), ("sa3", "sa1", "ref-on-ancestor"), ("sa1", "sa3", "ref-on-descendant"),
              ("sa2", "sfb", "ref-on-free-tree"), ("sfc", "sb1", "site-on-free-tree"), ("sf", "sb2", "welded-site-sibling-ref"), ("sb2", "ssl2", "ref-on-slide-tree"),
              ("sa3", "sa2b", "ref-on-parent-body"), ("sa2", "sa2b", "ref-on-same-body"), ("sw", "sa3", "site-in-world")]
_CRANK_PAIRS = [("sa3", "sb2", "crank-sibling"), ("sfc", "sa1", "crank-free-tree"), ("sa2", "sw", "slider-in-world"), ("sw", "sb1", "crank-in-world"), ("sa3", "sa1", "slider-on-ancestor")]
_SITE_ONLY = ["sa3", "sfb", "sf", "sw", "sb2"]
_GEAR_KINDS = ("translational", "rotational", "mixed")


def _trn_xml(rng, c):
  """(xml, meta): meta[i] = dict(kind=..., rel=..., gear=...) per actuator, in actuator order"""
  def v(scale, n=3):
    return " ".join(f"{x:.4f}" for x in rng.uniform(-1, 1, n) * scale)

  def unit(n):
    a = rng.normal(size=n)
    return " ".join(f"{x:.5f}" for x in a / np.linalg.norm(a))

  def site(name):
    return f'<site name="{name}" pos="{v(.25)}" quat="{unit(4)}"/>'

  def geom():
    return f'<geom type="capsule" size=".03" fromto="0 0 0 {v(.3)}" contype="0" conaffinity="0"/>'

  def hinge(name):
    return f'<joint name="{name}" type="hinge" axis="{unit(3)}"/>'

  def slide(name):
    return f'<joint name="{name}" type="slide" axis="{unit(3)}"/>'

  root = ("hinge", "free", "ball")[c % 3]
  rootj = {"hinge": hinge("jr"), "free": '<joint name="jr" type="free"/>', "ball": '<joint name="jr" type="ball"/>'}[root]
  a2kind = ("ball", "slide+hinge")[(c // 3) % 2]
  a2j = '<joint name="ja2" type="ball"/>' if a2kind == "ball" else slide("ja2s") + hinge("ja2")
  gap = c % 2 == 1
  padgeom = 'contype="1" conaffinity="1"' + (' margin=".03" gap=".015"' if gap else ' margin=".01"')
  body = f"""
    <geom name="floor" type="plane" size="5 5 .1" contype="1" conaffinity="1"/>
    {site("sw")}
    <body name="r" pos="0 0 1">{rootj}{geom()}{site("sr")}
      <body name="a1" pos="{v(.3)}">{hinge("ja1")}{geom()}{site("sa1")}
        <body name="a2" pos="{v(.3)}">{a2j}{geom()}{site("sa2")}{site("sa2b")}
          <body name="f" pos="{v(.2)}" quat="{unit(4)}">{geom()}{site("sf")}</body>
          <body name="a3" pos="{v(.3)}">{hinge("ja3")}{geom()}{site("sa3")}</body>
        </body>
      </body>
      <body name="b1" pos="{v(.3)}"><joint name="jb1" type="ball"/>{geom()}{site("sb1")}
        <body name="b2" pos="{v(.3)}">{slide("jb2s")}{hinge("jb2")}{geom()}{site("sb2")}</body>
      </body>
    </body>
    <body name="fb" pos="1 0 1"><joint name="jfb" type="free"/>{geom()}{site("sfb")}
      <body name="fc" pos="{v(.3)}">{hinge("jfc")}{geom()}{site("sfc")}</body>
    </body>
    <body name="sl" pos="-1 0 1">{slide("jsl")}{geom()}{site("ssl")}
      <body name="sl2" pos="{v(.3)}">{slide("jsl2")}{geom()}{site("ssl2")}</body>
    </body>
    <body name="pad" pos="2 0 .04"><joint name="jpad" type="slide" axis="0 0 1"/><joint name="jpadh" type="hinge" axis="0 1 0"/>
      <geom name="pad1" type="sphere" size=".05" {padgeom}/><geom name="pad2" type="sphere" size=".05" pos=".2 0 0" {padgeom}/></body>"""
  acts, meta = [], []

  def gear6(kind):
    g = rng.uniform(-2, 2, 6)
    g[np.abs(g) < 0.2] = 0.5
    if kind == "translational":
      g[3:] = 0
    elif kind == "rotational":
      g[:3] = 0
    return " ".join(f"{x:.3f}" for x in g)

  def law(k, trn, gear):
    # force laws that read length and velocity, so that a wrong moment/length is visible in the force as well
    which = k % 4
    if which == 0:
      return f'<motor {trn} gear="{gear}"/>'
    if which == 1:
      return f'<position {trn} gear="{gear}" kp="{rng.uniform(2, 8):.2f}" kv="{rng.uniform(.2, 1):.2f}"/>'
    if which == 2:
      return f'<velocity {trn} gear="{gear}" kv="{rng.uniform(.5, 2):.2f}"/>'
    return f'<general {trn} gear="{gear}" gainprm="{rng.uniform(1, 3):.2f}" biastype="affine" biasprm="{v(1.0)}"/>'

  for k, (s, r, rel) in enumerate(_REF_PAIRS):
    gk = _GEAR_KINDS[(c + k) % 3]
    acts.append(law(c + 2 * k, f'site="{s}" refsite="{r}"', gear6(gk)))
    meta.append({"kind": "site+refsite", "rel": rel, "gear": gk})
  for k, s in enumerate(_SITE_ONLY):
    gk = _GEAR_KINDS[(c + k + 1) % 3]
    acts.append(law(c + k, f'site="{s}"', gear6(gk)))
    meta.append({"kind": "site", "rel": s, "gear": gk})
  for k, (s, r, rel) in enumerate(_CRANK_PAIRS):
    acts.append(law(c + k + 1, f'cranksite="{s}" slidersite="{r}" cranklength="1"', f"{rng.uniform(.5, 2) * rng.choice([-1, 1]):.3f}"))
    meta.append({"kind": "slidercrank", "rel": rel, "gear": "scalar"})
  for k, (j, jt) in enumerate((("jb1", "ball"), ("jfb", "free"), ("jr", root), ("ja2", a2kind.split("+")[-1]))):
    for trn in ("joint", "jointinparent"):
      acts.append(law(c + k, f'{trn}="{j}"', gear6("mixed")))
      meta.append({"kind": trn, "rel": jt, "gear": "mixed"})
  for k, t in enumerate(("tsp", "tfix")):
    acts.append(law(c + k + 1, f'tendon="{t}"', f"{rng.uniform(.5, 2):.3f}"))
    meta.append({"kind": "tendon", "rel": t, "gear": "scalar"})
  acts.append(f'<adhesion body="pad" ctrlrange="0 1" gain="{rng.uniform(1, 4):.2f}"/>')
  meta.append({"kind": "body", "rel": "gap" if gap else "nogap", "gear": "scalar"})
  xml = f"""<mujoco>
  <compiler angle="radian"/>
  <option timestep="0.004" cone="{("pyramidal", "elliptic")[(c // 2) % 2]}"/>
  <worldbody>{body}
  </worldbody>
  <tendon>
    <spatial name="tsp"><site site="sa3"/><site site="sb2"/><site site="sfc"/></spatial>
    <fixed name="tfix"><joint joint="ja1" coef="1.3"/><joint joint="jfc" coef="-0.7"/><joint joint="jsl2" coef="0.4"/></fixed>
  </tendon>
  <actuator>
    {chr(10).join("    " + a for a in acts)}
  </actuator>
</mujoco>"""
  return xml, meta, {"root": root, "a2": a2kind, "gap": gap}


def _dense_moment(nu, nv, moment, rownnz, rowadr, colind):
  out = np.zeros((nu, nv))
  for i in range(nu):
    for k in range(int(rownnz[i])):
      out[i, int(colind[rowadr[i] + k])] += moment[rowadr[i] + k]
  return out


def _run_trn(ctx, ncases, acc):
  """transmission scenes: actuator_moment (dense), length, velocity, force, qfrc_actuator of the real code against MuJoCo, per actuator"""
  import mujoco
  import mujoco_warp as mjw
  rng = np.random.default_rng(ctx.seed * 1000 + 303)
  for c0 in range(ncases):
    c = c0 + 5 * ctx.seed   # rotate the deterministic feature schedule with the seed as well
    xml, meta, info = _trn_xml(rng, c)
    mjm = mujoco.MjModel.from_xml_string(xml)
    mjd = mujoco.MjData(mjm)
    for j in range(mjm.njnt):
      qa, t = mjm.jnt_qposadr[j], mjm.jnt_type[j]
      if t == mujoco.mjtJoint.mjJNT_FREE:
        mjd.qpos[qa:qa + 3] = mjm.qpos0[qa:qa + 3] + rng.normal(size=3) * 0.3
        q = rng.normal(size=4)
        mjd.qpos[qa + 3:qa + 7] = q / np.linalg.norm(q)
      elif t == mujoco.mjtJoint.mjJNT_BALL:
        q = rng.normal(size=4)
        mjd.qpos[qa:qa + 4] = q / np.linalg.norm(q)
      else:
        mjd.qpos[qa] = rng.normal() * 0.5
    jpad = mjm.jnt_qposadr[mujoco.mj_name2id(mjm, mujoco.mjtObj.mjOBJ_JOINT, "jpad")]
    # adhesion pad over the floor, in rotation: penetrating / between margin and margin+gap (excluded contact when the geoms have a gap, none otherwise) / inside the active margin
    lo, hi = ((-0.02, 0.0), (0.033, 0.042), (0.002, 0.008))[(c // 2) % 3]   # margin .03, detection up to margin + gap = .045
    mjd.qpos[jpad] = 0.01 + rng.uniform(lo, hi)
    mjd.qpos[jpad + 1] = rng.uniform(-0.01, 0.01)
    if info["root"] == "free":
      mjd.qpos[2] = max(mjd.qpos[2], 1.0)
    mjd.qvel[:] = rng.normal(size=mjm.nv)
    mjd.ctrl[:] = rng.normal(size=mjm.nu) * 1.5
    # crank lengths from the actual geometry: mostly a reachable rod (det > 0), every 4th (rotating) an unreachable one (det <= 0 branch)
    mujoco.mj_kinematics(mjm, mjd)
    skip, nolen = set(), set()
    for i in range(mjm.nu):
      if meta[i]["kind"] == "slidercrank":
        s, r = mjm.actuator_trnid[i]
        vec = mjd.site_xpos[s] - mjd.site_xpos[r]
        ax = mjd.site_xmat[r].reshape(3, 3)[:, 2]
        unreachable = (c + i) % 4 == 0
        perp2 = vec @ vec - (ax @ vec) ** 2
        rod = np.sqrt(perp2) * (rng.uniform(0.3, 0.8) if unreachable else rng.uniform(1.2, 2.5)) + (0.0 if unreachable else 0.05)
        mjm.actuator_cranklength[i] = rod
        det = (ax @ vec) ** 2 + rod * rod - vec @ vec
        meta[i]["branch"] = "det>0" if det > 0 else "det<=0"
        if abs(det) < 1e-2 * (rod * rod + vec @ vec):
          skip.add(i)   # d length / d vec ~ 1/sqrt(det): float32 kinematics error is amplified without bound near det = 0
          acc.hit("trn:skipped:slidercrank-near-singular")
      if meta[i]["kind"] == "site+refsite" and meta[i]["gear"] != "translational":
        s, r = mjm.actuator_trnid[i]
        qs, qr, dq = np.zeros(4), np.zeros(4), np.zeros(3)
        mujoco.mju_mat2Quat(qs, mjd.site_xmat[s])
        mujoco.mju_mat2Quat(qr, mjd.site_xmat[r])
        mujoco.mju_subQuat(dq, qs, qr)
        if np.linalg.norm(dq) > np.pi - 0.02:
          nolen.add(i)   # the axis-angle difference jumps at angle pi: float32/float64 may land on different sides (moment and velocity unaffected)
          acc.hit("trn:length-and-force-not-compared:quat-difference-near-pi")
    mujoco.mj_forward(mjm, mjd)
    # The installed MuJoCo wraps the servo error of a position servo (affine bias with biasprm[1] == -gainprm[0]) whose length is purely
    # rotational (ball joint; site+refsite with rotational gear) into (-pi |gear|, pi |gear|]; mujoco_warp does not.  Exact signature:
    # MuJoCo's force differs from its own unwrapped affine law by a non-zero integer multiple of gain * 2 pi |gear|.  Those forces are
    # reported under the recorded finding id 'servo-angle-wrap' when mujoco_warp's force is observed to differ; everything else is compared as usual.
    noforce = set()
    for i in range(mjm.nu):
      mi = meta[i]
      rot = (mi["kind"] in ("joint", "jointinparent") and mi["rel"] == "ball") or (mi["kind"] == "site+refsite" and mi["gear"] == "rotational")
      g0, bp = mjm.actuator_gainprm[i][0], mjm.actuator_biasprm[i]
      if rot and mjm.actuator_biastype[i] == mujoco.mjtBias.mjBIAS_AFFINE and g0 == -bp[1] and g0 != 0:
        f0 = g0 * mjd.ctrl[i] + bp[0] + bp[1] * mjd.actuator_length[i] + bp[2] * mjd.actuator_velocity[i]
        gn = np.linalg.norm(mjm.actuator_gear[i][:3] if mi["kind"] != "site+refsite" else mjm.actuator_gear[i][3:])
        k = (f0 - mjd.actuator_force[i]) / (g0 * 2 * np.pi * gn)
        if abs(k) > 0.5 and abs(k - round(k)) < 1e-6:
          noforce.add(i)
          acc.hit("trn:force-not-compared:mujoco-wraps-rotational-servo-error")
        else:
          acc.hit("trn:rotational-position-servo:unwrapped")
    if not np.all(np.isfinite(mjd.qfrc_actuator)) or mjd.warning.number.any():
      acc.hit("trn:skipped:mujoco-warning")
      continue
    nworld = 1 + (c % 2)
    try:
      m = mjw.put_model(mjm)
    except Exception as e:
      acc.hit("trn:rejected:" + type(e).__name__)
      continue
    ref_mom = _dense_moment(mjm.nu, mjm.nv, mjd.actuator_moment, mjd.moment_rownnz, mjd.moment_rowadr, mjd.moment_colind)
    replay = dict(xml=xml, cranklength=mjm.actuator_cranklength.tolist(), ctrl=mjd.ctrl.tolist(), qpos=mjd.qpos.tolist(), qvel=mjd.qvel.tolist())
    ncon = int(mjd.ncon)
    nexcl = int(sum(1 for k in range(ncon) if mjd.contact.exclude[k] == 1))
    acc.hit(f"trn:adhesion-contacts:active={ncon - nexcl}:in-gap={nexcl}:{mjm.opt.cone == 1 and 'elliptic' or 'pyramidal'}")

    nfound = {}

    def find(what, site, trig, **kw):
      nfound[trig] = nfound.get(trig, 0) + 1
      if nfound[trig] <= 2:   # at most two findings per case and kind
        acc.find(what, site, trig, **kw)

    def compare(d, stage, fields):
      bad = False
      mom = [_dense_moment(mjm.nu, mjm.nv, d.actuator_moment.numpy()[w], d.moment_rownnz.numpy()[w], d.moment_rowadr.numpy()[w], d.moment_colind.numpy()[w]) for w in range(nworld)]
      arrs = {nm: getattr(d, nm).numpy() for nm in fields}
      for i in range(mjm.nu):
        if i in skip or (stage == "transmission-only" and meta[i]["kind"] == "body"):
          continue
        tag = f"{meta[i]['kind']}/{meta[i]['rel']}/{meta[i]['gear']}" + ("/" + meta[i]["branch"] if "branch" in meta[i] else "")
        for w in range(nworld):
          tol = 3e-4 * (1 + np.abs(ref_mom[i]).max())
          if not np.all(np.abs(mom[w][i] - ref_mom[i]) <= tol):
            find(f"actuator_moment row of actuator {i} ({tag}) differs from MuJoCo [{stage}; root={info['root']}, a2={info['a2']}]: max |d| {np.abs(mom[w][i] - ref_mom[i]).max():.3g} "
                     f"(tol {tol:.2g}); mjw {np.round(mom[w][i], 4).tolist()} mujoco {np.round(ref_mom[i], 4).tolist()}",
                     "smooth.transmission", "vs-mujoco-actuator_moment", actuator=i, world=w, **replay)
            bad = True
            break
          for nm in ("actuator_length", "actuator_velocity", "actuator_force"):
            if nm == "actuator_force" and nm in arrs and i in noforce and i not in nolen:
              # recorded deviation (known_findings C03-servo-angle-wrap): reported when OBSERVED, i.e. mujoco_warp's force is not MuJoCo's
              b = mjd.actuator_force[i]
              if abs(arrs[nm][w][i] - b) > 3e-4 * (1 + np.abs(mjd.actuator_force).max()):
                find(f"position servo on a purely rotational length (actuator {i}, {tag}): MuJoCo wraps the error ctrl - length into (-pi|gear|, pi|gear|], mujoco_warp does not: "
                     f"force {arrs[nm][w][i]:.6g} vs {b:.6g}", "forward.fwd_actuation", "servo-angle-wrap", actuator=i, world=w, **replay)
              continue
            if nm in arrs and not (nm == "actuator_force" and i in noforce) and not (nm != "actuator_velocity" and i in nolen):
              b = getattr(mjd, nm)[i]
              if abs(arrs[nm][w][i] - b) > 3e-4 * (1 + np.abs(getattr(mjd, nm)).max()):
                find(f"{nm} of actuator {i} ({tag}) differs from MuJoCo [{stage}]: {arrs[nm][w][i]:.6g} vs {b:.6g}",
                         "smooth.transmission" if nm == "actuator_length" else "forward.fwd_actuation", "vs-mujoco-" + nm, actuator=i, world=w, **replay)
                bad = True
      return bad

    # (1) the transmission stage alone, on MuJoCo's own kinematics (site frames, cdof, subtree_com, tendon Jacobians copied by put_data)
    d = mjw.put_data(mjm, mjd, nworld=nworld)
    mjw.transmission(m, d)
    bad = compare(d, "transmission-only", ("actuator_length",))
    # (2) the whole forward pass
    d = mjw.put_data(mjm, mjd, nworld=nworld)
    mjw.forward(m, d)
    kin_ok = np.allclose(d.site_xpos.numpy()[0], mjd.site_xpos, atol=1e-4) and np.allclose(d.site_xmat.numpy()[0].reshape(-1, 9), mjd.site_xmat, atol=1e-4)
    con_ok = int(d.nacon.numpy()[0]) == ncon * nworld
    if not kin_ok or not con_ok:
      acc.hit("trn:skipped-forward:kinematics-or-contacts-differ")   # C01/C04's business
    else:
      bad |= compare(d, "forward", ("actuator_length", "actuator_velocity", "actuator_force"))
      if not skip and not noforce and not nolen:
        q = d.qfrc_actuator.numpy()
        for w in range(nworld):
          if not np.allclose(q[w], mjd.qfrc_actuator, rtol=3e-4, atol=3e-4 * (1 + np.abs(mjd.qfrc_actuator).max())):
            acc.find(f"qfrc_actuator differs from MuJoCo (transmission scene, root={info['root']}): max |d| {np.abs(q[w] - mjd.qfrc_actuator).max():.3g}",
                     "forward.fwd_actuation", "vs-mujoco-qfrc_actuator", world=w, **replay)
            break
    acc.evals += mjm.nu
    for i in range(mjm.nu):
      if i not in skip:
        mi = meta[i]
        acc.hit(f"trn:{mi['kind']}:{mi['rel']}" + (":" + mi["gear"] if mi["kind"] in ("site+refsite", "site") else "") + (":" + mi["branch"] if "branch" in mi else ""))
        # is the feature really active?  (a moving refsite contributes columns that are not columns of the site's body)
        acc.distinct.add(("trn", mi["kind"], mi["rel"], mi["gear"], mi.get("branch"), info["root"], info["a2"]))
    refrows = [i for i in range(mjm.nu) if meta[i]["kind"] == "site+refsite" and meta[i]["rel"] not in ("ref-in-world", "ref-on-ancestor", "ref-on-same-body", "ref-on-parent-body")]
    if all(np.abs(ref_mom[i]).max() > 1e-3 for i in refrows):
      acc.hit("trn:moving-refsite-rows-nonzero")
    acc.sample({"transmission_scene": info, "nu": int(mjm.nu), "nv": int(mjm.nv), "ncon": ncon}, limit=5)


RULE = ("2-link arm + slider with motor (ctrl- and force-limited), position, velocity, tendon-driven general actuator with integrator/filter/filterexact dynamics and act limits, muscle, site transmission; "
        "random state/ctrl/act, flags clampctrl/actearly, joint actuator-force limits; forward() vs mujoco.mj_forward on length, velocity, force, act_dot, qfrc_actuator; distinct = option tuples. "
        "PLUS transmission scenes: 34-actuator model on a branching tree + free tree + slide tree + adhesion pad, deterministic rotation (case index + 5*seed) of root joint type (3), inner link "
        "joint (2), gear kind per site pair (3), force law (4), unreachable crank (4), pad distance (3) x gap (2) x cone (2); random frames/axes/state; dense actuator_moment rows, length, "
        "velocity, force, qfrc_actuator of mjw.transmission alone (on MuJoCo's kinematics) and of forward() vs mujoco, tolerance 3e-4*(1+max|reference row|); distinct = (kind, relation, gear, "
        "branch, root, link) tuples; hits 'trn:*' show each feature and every skipped comparison")


def correspondence(ctx):
  from harness.corr import func_corr
  fc = func_corr.run(["util_misc._sigmoid", "util_misc.muscle_gain_length", "util_misc.muscle_gain", "util_misc.muscle_bias", "util_misc.muscle_dynamics", "util_misc.muscle_dynamics_timescale"],
                     ncases=128 if ctx.thorough else 48, seed=ctx.seed)
  acc, kc = _run(ctx, 40 if ctx.thorough else 10, True, ntrn=36 if ctx.thorough else 12)
  return result(acc, RULE, kc=kc, fc=fc)


def search(ctx, breaks):
  acc, _ = _run(ctx, 100, False, ntrn=72)
  return search_result(acc, "mujoco.mj_forward actuator quantities")
