"""C03 Actuation agrees with MuJoCo C."""
from __future__ import annotations
import numpy as np
from .common import Acc, intercept, result, search_result

ID = "C03"
LEAN_MODULES = ["MjwVerif.Props.C03"]
GEN_FUNCS = ["support.next_act", "forward._actuator_force", "util_misc._sigmoid", "util_misc.muscle_gain_length", "util_misc.muscle_bias"]
KERNELS = ["forward._actuator_force", "forward._actuator_velocity", "forward._qfrc_actuator", "forward._tendon_actuator_force", "forward._tendon_actuator_force_clamp"]
LEVEL_TEXT = ("Theorems over the reals about functions/kernels regenerated from support.py / forward.py / util_misc.py on every run: next_act per dynamics type (integrator/filter/filterexact/muscle/"
              "none/user) equals a transcription of mj_nextActivation, stays in actrange when clamped, filterexact limit behaviour; muscle helpers (_sigmoid in [0,1] and monotone, force-length "
              "curve in [0,1], passive force sign); `_actuator_force`: the control used is the clamped control (ctrllimited and CLAMPCTRL not disabled) and with forcelimited the stored force lies "
              "in forcerange (non-DCMOTOR bias). Lengths, moments, velocities, forces and qfrc_actuator of the real fwd_actuation are compared with mujoco (sampled).")
LEVEL_NOTE = ("C03_partial: transmission moments (site/slider-crank/body), tendon/joint actuator-force limits and DC-motor branches are sampled only; documented deviations in C03Witness "
              "(USER dynamics unclamped; inverted actrange; DC-motor cogging torque after the force clamp). Trusted: Lean kernel + Mathlib, translator.")
ASSUMPTIONS = ["oracle mujoco.mj_forward on the same model/state/ctrl"]

XML = """
<mujoco>
  <option timestep="0.004"/>
  <worldbody>
    <body pos="0 0 1" gravcomp="{gc}"><joint name="h1" type="hinge" axis="0 1 0" range="-1 1" actuatorfrcrange="-2 2" actuatorfrclimited="{jl}" actuatorgravcomp="{agc}"/><geom type="capsule" size=".04 .2"/>
      <site name="s1" pos=".1 0 0"/>
      <body pos=".4 0 0" gravcomp="{gc}"><joint name="h2" type="hinge" axis="0 1 0"/><geom type="capsule" size=".03 .15"/><site name="s2" pos=".1 0 0"/></body></body>
    <body pos="1 0 1"><joint name="sl" type="slide" axis="0 0 1"/><geom size=".05"/></body>
  </worldbody>
  <tendon><fixed name="t1" limited="false"><joint joint="h1" coef="1"/><joint joint="h2" coef="-0.5"/></fixed></tendon>
  <actuator>
    <motor joint="h1" gear="2" ctrllimited="true" ctrlrange="-0.5 0.5" forcelimited="{fl}" forcerange="-0.6 0.6"/>
    <position joint="h2" kp="5" kv="0.3"/>
    <velocity joint="sl" kv="2"/>
    <general tendon="t1" dyntype="{dyn}" dynprm="0.03" gainprm="3" biasprm="0.1 -1 -0.2" actlimited="true" actrange="-1 1"/>
    <muscle joint="h2" lengthrange="-1 1"/>
    <general site="s2" refsite="s1" gear="1 0 0 0 1 0" gainprm="2"/>
  </actuator>
</mujoco>
"""


def _run(ctx, ncases, rec):
  import mujoco
  import mujoco_warp as mjw
  rng = np.random.default_rng(ctx.seed * 1000 + 3)
  acc = Acc()

  def scenario():
    for c in range(ncases):
      dyn = str(rng.choice(["integrator", "filter", "filterexact"]))
      fl, jl = str(rng.choice(["true", "false"])), str(rng.choice(["true", "false"]))
      clamp = rng.random() < 0.3
      early = rng.random() < 0.3
      # gravity compensation routed through the actuator channel (actuatorgravcomp) is added BEFORE the joint's actuator force range
      # clamps the total: both features on the same joint, with compensation large enough to matter
      agc = str(rng.choice(["true", "false"]))
      gc = float(rng.choice([0.0, 1.0, 2.5]))
      if c % 3 == 0:
        jl, agc, gc = "true", "true", 2.5   # every third case: limited joint + compensation through the actuator channel
      xml = XML.format(dyn=dyn, fl=fl, jl=jl, agc=agc, gc=gc)
      if clamp:
        xml = xml.replace("<option ", '<option><flag clampctrl="disable"/></option>\n  <option ')
      if early:
        xml = xml.replace('dynprm="0.03"', 'dynprm="0.03" actearly="true"')
      mjm = mujoco.MjModel.from_xml_string(xml)
      mjd = mujoco.MjData(mjm)
      mjd.qpos[:] = rng.normal(size=mjm.nq) * 0.4
      mjd.qvel[:] = rng.normal(size=mjm.nv)
      mjd.ctrl[:] = rng.normal(size=mjm.nu) * 1.5
      mjd.act[:] = rng.normal(size=mjm.na) * 0.5
      mujoco.mj_forward(mjm, mjd)
      nworld = int(rng.integers(1, 3))
      try:
        m = mjw.put_model(mjm)
      except Exception as e:
        acc.hit("rejected:" + type(e).__name__)
        continue
      d = mjw.put_data(mjm, mjd, nworld=nworld)
      mjw.forward(m, d)
      acc.evals += 1
      acc.distinct.add((dyn, fl, jl, clamp, early))
      for nm, a, b in (("actuator_length", d.actuator_length.numpy(), mjd.actuator_length), ("actuator_velocity", d.actuator_velocity.numpy(), mjd.actuator_velocity),
                       ("actuator_force", d.actuator_force.numpy(), mjd.actuator_force), ("act_dot", d.act_dot.numpy(), mjd.act_dot), ("qfrc_actuator", d.qfrc_actuator.numpy(), mjd.qfrc_actuator)):
        for w in range(nworld):
          if b.size and not np.allclose(a[w], b, rtol=3e-4, atol=3e-4 * (1 + np.abs(b).max())):
            acc.find(f"{nm} differs from MuJoCo (dyn={dyn}, forcelimited={fl}, jointlimited={jl}, clampctrl off={clamp}, actearly={early}): max |d| {np.abs(a[w] - b).max():.3g}",
                     "forward.fwd_actuation", "vs-mujoco-" + nm, xml=xml, ctrl=mjd.ctrl.tolist(), act=mjd.act.tolist(), qpos=mjd.qpos.tolist(), qvel=mjd.qvel.tolist())
            break
      acc.hit(dyn)
      acc.hit(f"gravcomp-actuator:{agc}:{gc}:{jl}")
      acc.sample({"dyn": dyn, "forcelimited": fl, "actuatorfrclimited": jl, "actuatorgravcomp": agc, "gravcomp": gc, "clampctrl_disabled": clamp, "actearly": early})

  if rec:
    kc, _ = intercept(KERNELS, scenario, rng, max_tids=16, per_kernel=3)
  else:
    scenario()
    kc = None
  return acc, kc


RULE = ("2-link arm + slider with motor (ctrl- and force-limited), position, velocity, tendon-driven general actuator with integrator/filter/filterexact dynamics and act limits, muscle, site transmission; "
        "random state/ctrl/act, flags clampctrl/actearly, joint actuator-force limits; forward() vs mujoco.mj_forward on length, velocity, force, act_dot, qfrc_actuator; distinct = option tuples")


def correspondence(ctx):
  from harness.corr import func_corr
  fc = func_corr.run(["util_misc._sigmoid", "util_misc.muscle_gain_length", "util_misc.muscle_gain", "util_misc.muscle_bias", "util_misc.muscle_dynamics", "util_misc.muscle_dynamics_timescale"],
                     ncases=128 if ctx.thorough else 48, seed=ctx.seed)
  acc, kc = _run(ctx, 40 if ctx.thorough else 10, True)
  return result(acc, RULE, kc=kc, fc=fc)


def search(ctx, breaks):
  acc, _ = _run(ctx, 100, False)
  return search_result(acc, "mujoco.mj_forward actuator quantities")
