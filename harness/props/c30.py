"""C30 Delayed controls and sensors read the right past sample."""
from __future__ import annotations
import numpy as np
from .common import Acc, intercept, result, search_result

ID = "C30"
LEAN_MODULES = ["MjwVerif.Props.C30"]
GEN_FUNCS = ["history._history_physical_index", "history._history_find_index", "history._history_read_scalar", "history._history_insert_scalar",
             "history._read_ctrl_delayed_kernel", "history._insert_ctrl_history_kernel"]
KERNELS = ["history._read_ctrl_delayed_kernel", "history._insert_ctrl_history_kernel", "history._apply_sensor_delay_kernel"]
LEVEL_TEXT = ("Theorems about the history-buffer functions regenerated from history.py on every run, over the reals, for all n >= 1, cursors, times: physical index = rotation bijection; the "
              "circular binary search returns the least logical index with t <= time (terminates within log fuel); insert refines a sorted-association-list spec in all four cases and preserves "
              "the invariant (strictly increasing logical times) through any number of insertions incl. wrap-around; read refines the spec for ZOH/linear/cubic; end-to-end: from MuJoCo's "
              "initial buffer, after k steps the ZOH read at k*dt - m*dt returns c_(k-m) (0 before) for any k, n, 1<=m<=n, also through the two ctrl kernels. "
              "make_data now starts from MuJoCo's initial buffer (fix: commit); reset_data still does not restore it (known finding). Real step() is compared with mujoco.mj_step on delayed models. "
              "Sensor zoo (oracle): one scene with 42 sensor kinds of every stage -- position (jointpos, tendonpos, actuatorpos, ballquat, jointlimitpos, tendonlimitpos, frame*, subtreecom, rangefinder, clock, "
              "magnetometer, e_potential, distance/normal/fromto, insidesite), velocity (velocimeter, gyro, joint/tendon/actuator vel, ballangvel, jointlimitvel, tendonlimitvel, frame lin/ang vel, subtree "
              "linvel/angmom) and acceleration (touch, contact, accelerometer, force, torque, actuatorfrc, tendonactuatorfrc, jointactuatorfrc, jointlimitfrc, tendonlimitfrc, frame lin/ang acc), i.e. every "
              "sensor index list and dedicated kernel of sensor.py -- each kind plain, delayed (n 1..4, delay k or k-1/2 steps, zoh/linear/cubic) and with an interval / delay+interval / record-only "
              "buffer; active joint limit, tendon limit and contact; dims 1..6; nworld 1 and 2; Data from put_data (fresh and mid-episode), make_data and after reset_data; after every step "
              "sensordata, read_sensor (per-world query times, interpolation override) and read_ctrl are compared with MuJoCo C (mj_step, mj_readSensor, mj_readCtrl). After reset_data Warp is additionally "
              "required to behave exactly like MuJoCo whose buffers were left stale (the precise signature of the recorded finding). A fixed regression case for repair 11fa011 (delayed limit-force sensors) runs first.")
LEVEL_NOTE = ("C30_partial: vector (dim>1) buffers and sensor interval logic (period not a multiple of the timestep, negative phase) are sampled only; dt must exceed the 1e-6 merge window. "
              "WHICH sensors reach the delay logic is decided by index lists built in put_model (host NumPy code, not in Gen) and by the call sequence of sensor_pos/vel/acc: covered by the sensor-zoo oracle only "
              "(every kind is delayed in every case), not by a theorem. A delayed reading is judged only while the undelayed reading of the same quantity agrees with MuJoCo (counted as "
              "zoo:value-differs-not-judged otherwise); zoo:*-NOT-visible hits list readings whose delay had no visible effect in a case. Trusted: Lean kernel + Mathlib, translator (func/kernel differentials).")
ASSUMPTIONS = ["times on a grid coarser than 2e-6 (k*timestep)", "oracle: mujoco.mj_step with the same controls, comparing ctrl-driven qvel/qpos and delayed sensordata",
               "zoo oracle: tolerance 2e-4 + 1e-3 * (running max magnitude of the undelayed MuJoCo reading of that kind); read_sensor/read_ctrl query times keep >= 0.1 timestep away from sample times"]

XML = """
<mujoco>
  <option timestep="{dt}"/>
  <worldbody>
    <body><joint name="j" type="hinge" damping="0.1"/><geom size=".1"/></body>
    <body pos="1 0 0"><joint name="k" type="slide"/><geom size=".1"/></body>
  </worldbody>
  <actuator>
    <motor joint="j" delay="{d1}" nsample="{n1}" interp="{i1}"/>
    <motor joint="k"/>
  </actuator>
  <sensor><jointpos joint="j" delay="{d2}" nsample="{n2}" interp="{i2}"/><jointvel joint="k"/>{isens}</sensor>
</mujoco>
"""


def _run(ctx, ncases, rec):
  import mujoco
  import warp as wp
  import mujoco_warp as mjw
  rng = np.random.default_rng(ctx.seed * 1000 + 30)
  acc = Acc()

  def scenario():
    for c in range(ncases):
      dt = float(rng.choice([0.01, 0.002, 0.0078125]))
      n1, n2 = int(rng.integers(1, 6)), int(rng.integers(1, 5))
      m1, m2 = int(rng.integers(1, n1 + 1)), int(rng.integers(1, n2 + 1))
      i1 = str(rng.choice(["zoh", "linear", "cubic"]))
      i2 = str(rng.choice(["zoh", "linear"]))
      frac = float(rng.choice([1.0, 1.0, 0.5]))
      # interval sensors: the period is NOT a multiple of the timestep (k + 0.37 steps) and the phase may be negative, so that the
      # sampling thresholds phase + j*period stay well away from step times (no float32 tie) and "advance by exactly one period"
      # differs from "restart at the current time" from the second sample on
      isens = ""
      if rng.random() < 0.6:
        kper = int(rng.integers(1, 4)) + 0.37
        ph = float(rng.choice([0.0, -0.45])) * dt
        isens += f'<jointpos joint="k" interval="{kper * dt:.9g} {ph:.9g}" nsample="{int(rng.integers(2, 5))}"/>'
        if rng.random() < 0.5:
          isens += f'<jointvel joint="j" delay="{2 * dt:.9g}" interval="{(kper + 1) * dt:.9g} 0" nsample="5" interp="linear"/>'
      xml = XML.format(dt=dt, d1=m1 * dt * frac, n1=n1, i1=i1, d2=m2 * dt, n2=n2, i2=i2, isens=isens)
      try:
        mjm = mujoco.MjModel.from_xml_string(xml)
      except ValueError as e:
        ctx.notes.append(f"generator: MuJoCo rejected a delay spec: {e}")
        continue
      start = str(rng.choice(["make_data", "put_data", "reset_data"]))
      nworld = int(rng.integers(1, 3))
      m = mjw.put_model(mjm)
      mjd = mujoco.MjData(mjm)
      if start == "put_data":
        d = mjw.put_data(mjm, mjd, nworld=nworld)
      else:
        d = mjw.make_data(mjm, nworld=nworld)
      nsteps = int(rng.integers(2, 3 * max(n1, n2) + 4))   # beyond the buffer length -> wrap-around
      if start == "reset_data":
        for _ in range(3):
          d.ctrl.assign(rng.normal(size=(nworld, mjm.nu)).astype(np.float32))
          mjw.step(m, d)
        mjw.reset_data(m, d)
      ok = True
      for s in range(nsteps):
        u = rng.integers(-4, 5, size=mjm.nu).astype(np.float64)
        mjd.ctrl[:] = u
        d.ctrl.assign(np.tile(u, (nworld, 1)).astype(np.float32))
        mujoco.mj_step(mjm, mjd)
        mjw.step(m, d)
        acc.evals += 1
        qv = d.qvel.numpy()
        sd = d.sensordata.numpy()
        for w in range(nworld):
          if not (np.allclose(qv[w], mjd.qvel, rtol=1e-3, atol=2e-4) and np.allclose(sd[w], mjd.sensordata, rtol=1e-3, atol=2e-4)):
            trig = {"reset_data": "history-not-reset", "make_data": "make-data-history", "put_data": "put-data"}[start]
            acc.find(f"delayed ctrl/sensor differs from mj_step at step {s} (start={start}, n={n1}/{n2}, delay={m1}/{m2} steps, interp={i1}/{i2})", "io.reset_data" if start == "reset_data" else "history",
                     trig, xml=xml, start=start, step=s, qvel=qv[w].tolist(), mj_qvel=mjd.qvel.tolist(), sensor=sd[w].tolist(), mj_sensor=mjd.sensordata.tolist())
            ok = False
            break
        if not ok:
          break
      acc.distinct.add((dt, n1, n2, m1, m2, i1, i2, start, frac))
      acc.hit(start)
      acc.hit('interval-sensor' if isens else 'no-interval-sensor')
      acc.hit("wrap" if nsteps > max(n1, n2) else "nowrap")
      acc.sample({"dt": dt, "nsample": [n1, n2], "delay_steps": [m1 * frac, m2], "interp": [i1, i2], "start": start, "steps": nsteps})

  if rec:
    kc, _ = intercept(KERNELS, scenario, rng, max_tids=8, per_kernel=4)
  else:
    scenario()
    kc = None
  return acc, kc


# ---------------------------------------------------------------------------------------------------------------------------------
# Sensor zoo: delays AND intervals on sensors of every stage and kind (incl. the acceleration-stage sensors that have their own
# kernels and index lists), multi-dimensional sensors, nworld 1 and 2, every way of obtaining a Data -- all in lock step with MuJoCo C.
# Every kind appears (a) plain ("twin", no history), (b) delayed, (c) with an interval / delay+interval / record-only buffer.
# The plain twin isolates the delay stage: a delayed reading is only judged while the undelayed reading of the same quantity has
# agreed with MuJoCo at every step so far (value-level disagreements are other properties' business and are counted, not alarmed).
ZOO = """
<mujoco>
  <compiler angle="radian"/>
  <option timestep="{dt}"/>
  <worldbody>
    <geom name="floor" type="plane" size="5 5 .1"/>
    <site name="s0" pos="-1 1 1"/>
    <site name="zone" type="box" pos="0.7 0 0.75" size="0.2 0.2 0.22"/>
    <body name="arm" pos="0 0 1">
      <joint name="h" type="hinge" axis="0 1 0" limited="true" range="0.15 1.2" margin="0.4" damping="0.2"/>
      <geom name="armg" type="capsule" fromto="0 0 0 0.4 0 0" size="0.04" mass="1" contype="0" conaffinity="0"/>
      <site name="imu" pos="0.4 0 0"/>
      <site name="rf" pos="0.2 0.3 0" zaxis="0.3 0 -1"/>
      <body name="fore" pos="0.4 0 0">
        <joint name="b" type="ball" damping="0.1"/>
        <geom name="foreg" type="capsule" fromto="0 0 0 0.3 0 0" size="0.03" mass="0.5" contype="0" conaffinity="0"/>
        <site name="tip" pos="0.3 0 0"/>
      </body>
    </body>
    <body name="slider" pos="0 1 1">
      <joint name="s" type="slide" axis="1 0 0" damping="1"/>
      <geom name="slg" size="0.1" mass="1" contype="0" conaffinity="0"/>
      <site name="s1" pos="0.1 0 0"/>
    </body>
    <body name="ball" pos="2 0 0.095">
      <freejoint name="f"/>
      <geom name="ballgeom" size="0.1" mass="1"/>
      <site name="pad" size="0.12"/>
    </body>
  </worldbody>
  <tendon>
    <spatial name="ten" limited="true" range="1.15 3" margin="0.4"><site site="s0"/><site site="s1"/></spatial>
  </tendon>
  <actuator>
    <motor name="mh" joint="h" gear="0.5"/>
    <motor name="mt" tendon="ten" gear="2"/>
    <position name="ps" joint="s" kp="3"/>
    <motor name="md" joint="s" gear="0.3" delay="{ad}" nsample="{an}" interp="{ai}"/>
  </actuator>
  <sensor>
{sensors}
  </sensor>
</mujoco>
"""

# (kind, attributes); the joint limit (hinge starts 0.15 rad beyond its range), the tendon limit (0.05 beyond) and the ball/floor
# contact (5 mm penetration) are ACTIVE from step 0 with time-varying forces, so limit/touch sensors carry a signal
ZOO_KINDS = [
  # position stage (sensor_pos_adr, sensor_limitpos_adr, sensor_rangefinder_adr, collision sensors)
  ("jointpos", 'joint="h"'), ("tendonpos", 'tendon="ten"'), ("actuatorpos", 'actuator="ps"'), ("ballquat", 'joint="b"'),
  ("jointlimitpos", 'joint="h"'), ("tendonlimitpos", 'tendon="ten"'), ("framepos", 'objtype="site" objname="tip"'),
  ("framexaxis", 'objtype="site" objname="tip"'), ("framequat", 'objtype="body" objname="fore"'), ("subtreecom", 'body="arm"'),
  ("rangefinder", 'site="rf"'), ("clock", ''), ("magnetometer", 'site="tip"'), ("e_potential", ''),
  ("distance", 'geom1="ballgeom" geom2="foreg" cutoff="10"'), ("fromto", 'geom1="ballgeom" geom2="slg" cutoff="10"'),
  ("normal", 'geom1="armg" geom2="slg" cutoff="10"'), ("insidesite", 'site="zone" objtype="site" objname="tip"'),
  # velocity stage (sensor_vel_adr, sensor_limitvel_adr, subtree velocities)
  ("velocimeter", 'site="imu"'), ("gyro", 'site="tip"'), ("jointvel", 'joint="s"'), ("tendonvel", 'tendon="ten"'),
  ("actuatorvel", 'actuator="ps"'), ("ballangvel", 'joint="b"'), ("jointlimitvel", 'joint="h"'), ("tendonlimitvel", 'tendon="ten"'),
  ("framelinvel", 'objtype="site" objname="tip"'), ("frameangvel", 'objtype="body" objname="fore"'), ("subtreelinvel", 'body="arm"'),
  ("subtreeangmom", 'body="arm"'),
  # acceleration stage (sensor_acc_adr, sensor_touch_adr, sensor_tendonactfrc_adr, sensor_limitfrc_adr, rne_postconstraint)
  ("touch", 'site="pad"'), ("accelerometer", 'site="imu"'), ("force", 'site="imu"'), ("torque", 'site="imu"'),
  ("actuatorfrc", 'actuator="mt"'), ("tendonactuatorfrc", 'tendon="ten"'), ("jointactuatorfrc", 'joint="h"'),
  ("jointlimitfrc", 'joint="h"'), ("tendonlimitfrc", 'tendon="ten"'), ("framelinacc", 'objtype="site" objname="tip"'),
  ("frameangacc", 'objtype="body" objname="fore"'), ("contact", 'geom1="ballgeom" data="found force dist" num="1"'),
]
ZOO_STARTS = ["put_data", "make_data", "reset_data", "put_data_mid"]
# query-time offsets (in steps) for read_sensor / read_ctrl: never on a sample time for delays of k or k - 1/2 steps
ZOO_QOFF = [0.0, 0.4, 1.3, 2.6]


def _zoo_sensors(rng, dt, rot):
  """sensor block of the zoo: per kind a twin, a delayed variant and (rotating with `rot`) interval / delay+interval / record-only"""
  lines, meta = [], []
  for ki, (kind, attr) in enumerate(ZOO_KINDS):
    lines.append(f'    <{kind} {attr}/>')
    meta.append((kind, "twin", ""))
    n = int(rng.integers(1, 5))
    mstep = int(rng.integers(1, n + 1))
    half = rng.random() < 0.3
    steps = mstep - 0.5 if half else mstep
    interp = str(rng.choice(["zoh", "linear", "cubic"]))
    lines.append(f'    <{kind} {attr} delay="{steps * dt:.9g}" nsample="{n}" interp="{interp}"/>')
    meta.append((kind, "delay", f"n={n} delay={steps}dt {interp}"))
    # intervals: period k + 0.37 steps, phase 0 or negative (see the comment in scenario())
    kper = int(rng.integers(1, 4)) + 0.37
    ph = float(rng.choice([0.0, -0.45])) * dt
    n2 = int(rng.integers(1, 5))
    v = (ki + rot) % 3
    if v == 0:
      lines.append(f'    <{kind} {attr} interval="{kper * dt:.9g} {ph:.9g}" nsample="{n2}"/>')
      meta.append((kind, "interval", f"n={n2} period={kper}dt phase={ph / dt}dt"))
    elif v == 1:
      lines.append(f'    <{kind} {attr} delay="{2 * dt:.9g}" interval="{kper * dt:.9g} {ph:.9g}" nsample="{n2 + 2}" interp="linear"/>')
      meta.append((kind, "delay+interval", f"n={n2 + 2} delay=2dt period={kper}dt phase={ph / dt}dt linear"))
    else:
      lines.append(f'    <{kind} {attr} nsample="{n2}" interp="{interp}"/>')
      meta.append((kind, "record", f"n={n2} {interp}"))
  return "\n".join(lines), meta


class _Ref:
  """comparison of the Warp run with one MuJoCo reference run; twin-arbitrated (see above)"""

  def __init__(self, mjm, mjd, meta):
    self.mjm, self.mjd, self.meta = mjm, mjd, meta
    self.scale = {}          # kind -> running max |reference value| (signal magnitude; tolerances are relative to it)
    self.dead = set()        # kinds whose undelayed reading has differed from the reference: not judged any more
    self.mism = {}           # (site, kind, variant) -> first mismatch record
    self.visible = set()     # sensors whose delayed/held reference reading differed from the current undelayed one at some step
    self.twin_of = {}
    for sid, (kind, variant, par) in enumerate(meta):
      if variant == "twin":
        self.twin_of[kind] = sid

  def tol(self, kind):
    return 2e-4 + 1e-3 * self.scale.get(kind, 0.0)

  def sensordata(self, sd, step):
    mjm, ref = self.mjm, self.mjd.sensordata
    nworld = sd.shape[0]
    for twins in (True, False):
      for sid, (kind, variant, par) in enumerate(self.meta):
        if (variant == "twin") != twins or kind in self.dead:
          continue
        a, dim = int(mjm.sensor_adr[sid]), int(mjm.sensor_dim[sid])
        r = ref[a:a + dim]
        if twins:
          self.scale[kind] = max(self.scale.get(kind, 0.0), float(np.max(np.abs(r))))
        else:
          ta = int(mjm.sensor_adr[self.twin_of[kind]])
          if np.any(np.abs(ref[ta:ta + dim] - r) > self.tol(kind)):
            self.visible.add(sid)
        for w in range(nworld):
          if not np.all(np.abs(sd[w, a:a + dim] - r) <= self.tol(kind)):
            if twins:
              self.dead.add(kind)
            else:
              self.mism.setdefault(("history.apply_sensor_delay", kind, variant), dict(step=step, world=w, sensor=sid, params=par, warp=sd[w, a:a + dim].tolist(), mujoco=r.tolist()))
            break

  def read(self, site, kind, variant, par, got, want, step, **kw):
    if kind in self.dead:
      return
    if not np.all(np.abs(np.asarray(got) - np.asarray(want)) <= self.tol(kind)):
      self.mism.setdefault((site, kind, variant), dict(step=step, params=par, warp=np.asarray(got).tolist(), mujoco=np.asarray(want).tolist(), **kw))


def _mj_read_sensor(mujoco, mjm, mjd, sid, t, interp):
  dim = int(mjm.sensor_dim[sid])
  buf = np.zeros((dim, 1))
  r = mujoco.mj_readSensor(mjm, mjd, sid, t, buf, interp)
  return (buf if r is None else np.asarray(r, dtype=float)).ravel()[:dim].copy()


def _lockstep(acc, rng, xml, meta, start, nworld, nsteps, label):
  """one zoo case: Warp and MuJoCo C step by step with the same controls; compares sensordata, read_sensor and read_ctrl"""
  import mujoco
  import warp as wp
  import mujoco_warp as mjw
  mjm = mujoco.MjModel.from_xml_string(xml)
  mjd = mujoco.MjData(mjm)
  m = mjw.put_model(mjm)
  dt = float(mjm.opt.timestep)
  nu = mjm.nu

  def controls():
    return rng.integers(-4, 5, size=nu).astype(np.float64)

  def both(u, refs):
    for r in refs:
      r.ctrl[:] = u
      mujoco.mj_step(mjm, r)

  mjd_nr = None
  if start == "put_data":
    d = mjw.put_data(mjm, mjd, nworld=nworld)
  elif start == "put_data_mid":      # MuJoCo data taken in the middle of an episode: the buffers hold real samples
    for _ in range(3):
      both(controls(), [mjd])
    d = mjw.put_data(mjm, mjd, nworld=nworld)
  else:
    d = mjw.make_data(mjm, nworld=nworld)
  if start == "reset_data":
    for _ in range(3):
      u = controls()
      both(u, [mjd])
      d.ctrl.assign(np.tile(u, (nworld, 1)).astype(np.float32))
      mjw.step(m, d)
    stale = mjd.history.copy()
    mjw.reset_data(m, d)
    mujoco.mj_resetData(mjm, mjd)
    # exact signature of the recorded finding C30-reset-history: MuJoCo itself, reset, but with the history buffers NOT re-initialised
    mjd_nr = mujoco.MjData(mjm)
    mjd_nr.history[:] = stale
  refs = [_Ref(mjm, mjd, meta)] + ([_Ref(mjm, mjd_nr, meta)] if mjd_nr is not None else [])
  hist_sids = [sid for sid in range(mjm.nsensor) if mjm.sensor_history[sid, 0] > 0]
  first_twin = next(sid for sid, mt in enumerate(meta) if mt[1] == "twin")
  hist_act = [i for i in range(nu) if mjm.actuator_history[i, 0] > 0]
  plain_act = [i for i in range(nu) if mjm.actuator_history[i, 0] == 0][:1]
  tq = wp.zeros(nworld, dtype=float)
  for s in range(nsteps):
    u = controls()
    both(u, [r.mjd for r in refs])
    d.ctrl.assign(np.tile(u, (nworld, 1)).astype(np.float32))
    mjw.step(m, d)
    acc.evals += 1
    sd = d.sensordata.numpy()
    if not np.all(np.isfinite(sd)):
      acc.hit("zoo:nonfinite-skip")
      return
    for r in refs:
      r.sensordata(sd, s)
    # read_sensor / read_ctrl: every sensor with a buffer (plus one without), per-world query times, interpolation override in rotation
    tw = d.time.numpy().astype(np.float64)
    qoff = np.array([ZOO_QOFF[(s + w) % len(ZOO_QOFF)] for w in range(nworld)])
    tq.assign((tw - qoff * dt).astype(np.float32))
    for j, sid in enumerate(hist_sids + [first_twin]):
      if (j + s) % 2:
        continue
      kind, variant, par = meta[sid]
      interp = [-1, 0, -1, 1, -1, 2][(j // 2 + s) % 6]
      dim = int(mjm.sensor_dim[sid])
      res = wp.zeros((nworld, dim), dtype=float)
      mjw.read_sensor(m, d, sid, tq, interp, res)
      got = res.numpy()
      acc.evals += 1
      for r in refs:
        # MuJoCo's own clock differs from Warp's float32 clock by rounding only; the query is made at the same offset from it
        want = np.stack([_mj_read_sensor(mujoco, mjm, r.mjd, sid, r.mjd.time - qoff[w] * dt, interp) for w in range(nworld)])
        r.read("history.read_sensor", kind, variant, par, got, want, s, sensor=sid, interp=interp, qoff=qoff.tolist())
    for i in hist_act + plain_act:
      interp = [-1, 0, 1, 2][(i + s) % 4]
      res = wp.zeros(nworld, dtype=float)
      mjw.read_ctrl(m, d, i, tq, interp, res)
      got = res.numpy()
      for r in refs:
        want = np.array([mujoco.mj_readCtrl(mjm, r.mjd, i, r.mjd.time - qoff[w] * dt, interp) for w in range(nworld)])
        r.scale["ctrl"] = 4.0
        r.read("history.read_ctrl", "ctrl", "delay" if i in hist_act else "plain", f"actuator {i}", got, want, s, actuator=i, interp=interp, qoff=qoff.tolist())
  # verdict
  true, nr = refs[0], (refs[1] if len(refs) > 1 else None)
  report = true
  if nr is not None and true.mism:
    # Warp differs from MuJoCo after reset_data: the recorded finding, reported when observed ...
    key, rec = sorted(true.mism.items())[0]
    acc.find(f"after reset_data delayed readings differ from MuJoCo (first: {key[1]} [{key[2]}] via {key[0]} at step {rec['step']}); Warp behaves like MuJoCo with the stale buffers" if not nr.mism else
             f"after reset_data delayed readings differ from MuJoCo (first: {key[1]} [{key[2]}] via {key[0]} at step {rec['step']})",
             "io.reset_data", "history-not-reset", xml=xml, start=start, nworld=nworld, case=label, **rec)
    acc.hit("zoo:reset-history-observed")
    # ... and anything that is NOT explained by "MuJoCo with the history buffers left as they were" is judged against that reference
    report = nr if len(nr.mism) <= len(true.mism) else true
  for k in sorted(report.dead):
    acc.hit(f"zoo:value-differs-not-judged:{k}")
  # vacuity: a delayed / interval reading that never differs from the current one would not show a missing delay
  for sid, (kind, variant, par) in enumerate(meta):
    if variant not in ("twin", "record"):
      acc.hit(f"zoo:{variant}-visible" if sid in report.visible else f"zoo:{variant}-NOT-visible:{kind}")
  n = 0
  for (site, kind, variant), rec in sorted(report.mism.items(), key=lambda kv: (kv[1]["step"], kv[0])):
    if n >= 4:
      break
    n += 1
    acc.find(f"{kind} sensor [{variant}: {rec['params']}] differs from MuJoCo at step {rec['step']} via {site} (start={start}, nworld={nworld}) while the undelayed {kind} reading agrees",
             site, f"{variant}:{kind}", xml=xml, start=start, nworld=nworld, case=label, **rec)


def _zoo(ctx, ncases, acc):
  rng = np.random.default_rng(ctx.seed * 1000 + 31)
  # regression case first (repair 11fa011 of /repo): delayed tendonlimitfrc / jointlimitfrc went through the delay buffer twice per step
  dt = 0.002
  reg = [("tendonlimitfrc", 'tendon="ten"'), ("jointlimitfrc", 'joint="h"'), ("touch", 'site="pad"'), ("tendonactuatorfrc", 'tendon="ten"')]
  lines, meta = [], []
  for kind, attr in reg:
    lines += [f'    <{kind} {attr}/>', f'    <{kind} {attr} delay="{2 * dt}" nsample="3"/>', f'    <{kind} {attr} delay="{2.5 * dt}" nsample="4" interp="linear"/>']
    meta += [(kind, "twin", ""), (kind, "delay", "n=3 delay=2dt zoh"), (kind, "delay", "n=4 delay=2.5dt linear")]
  xml = ZOO.format(dt=dt, sensors="\n".join(lines), ad=dt, an=2, ai="zoh")
  _lockstep(acc, np.random.default_rng(30), xml, meta, "put_data", 1, 12, "regression-11fa011")
  acc.hit("zoo:regression-limitfrc-delay")
  for c in range(ncases):
    k = c + ctx.seed
    start = ZOO_STARTS[k % 4]
    nworld = 1 + ((k % 2) ^ ((k // 4) % 2))
    dt = [0.01, 0.002, 0.0078125][k % 3]
    sens, meta = _zoo_sensors(rng, dt, k)
    an = int(rng.integers(1, 5))
    am = int(rng.integers(1, an + 1))
    ai = ["zoh", "linear", "cubic"][k % 3]
    xml = ZOO.format(dt=dt, sensors=sens, ad=f"{am * dt:.9g}", an=an, ai=ai)
    nsteps = int(rng.integers(9, 15))
    _lockstep(acc, rng, xml, meta, start, nworld, nsteps, f"zoo-{k}")
    acc.hit(f"zoo:{start}")
    acc.hit(f"zoo:nworld={nworld}")
    acc.distinct.add(("zoo", k, dt, start, nworld, ai))
    for kind, variant, par in meta:
      if variant != "twin":
        acc.hit(f"zoo:{variant}")



RULE = ("hinge+slide model with a delayed motor (nsample 1..5, delay 1..n steps or a half step, zoh/linear/cubic) and a delayed joint sensor; dt in {0.01,0.002,2^-7}; data from make_data / put_data / "
        "after reset_data; integer controls; 2..3n+3 steps (wrap-around) in lock step with mujoco.mj_step comparing qvel and sensordata; distinct = distinct parameter tuples. "
        "Sensor zoo: fixed regression case (delayed tendonlimitfrc/jointlimitfrc/touch/tendonactuatorfrc, 11fa011) first, then cases k = c + seed rotating start = (put_data, make_data, reset_data, put_data_mid)[k%4], "
        "nworld = 1 + (k%2 xor (k//4)%2), dt = (0.01, 0.002, 2^-7)[k%3], third variant per kind = (interval, delay+interval, record-only)[(kind index + k)%3]; 42 kinds x (twin, delayed, third variant); "
        "9..14 steps with integer controls on 4 actuators (one delayed); sensordata of every sensor every step, read_sensor of every buffered sensor every other step, read_ctrl every step, all vs MuJoCo C")


def _merge(a, b):
  a.evals += b.evals
  a.distinct |= b.distinct
  a.findings = (a.findings + b.findings)[:40]
  a.samples += b.samples
  for k, v in b.hist.items():
    a.hist[k] = a.hist.get(k, 0) + v
  return a


def correspondence(ctx):
  from harness.corr import func_corr
  fc = func_corr.run(["history._history_physical_index"], ncases=64, seed=ctx.seed, int_ranges={"history._history_physical_index": (1, 7)})
  zacc = Acc()
  _zoo(ctx, 32 if ctx.thorough else 8, zacc)      # regression case for 11fa011 runs first
  acc, kc = _run(ctx, 36 if ctx.thorough else 9, True)
  return result(_merge(zacc, acc), RULE, kc=kc, fc=fc)


def search(ctx, breaks):
  zacc = Acc()
  _zoo(ctx, 40, zacc)
  acc, _ = _run(ctx, 90, False)
  acc = _merge(zacc, acc)
  return search_result(acc, "lock-step mujoco.mj_step on delayed actuators/sensors from make_data/put_data/reset_data")
