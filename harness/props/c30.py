"""C30 Delayed controls and sensors read the right past sample."""
from __future__ import annotations
import numpy as np
from .common import Acc, intercept, result, search_result

ID = "C30"
LEAN_MODULES = ["MjwVerif.Props.C30"]
GEN_FUNCS = ["history._history_physical_index", "history._history_find_index", "history._history_read_scalar", "history._history_insert_scalar",
             "history._read_ctrl_delayed_kernel", "history._insert_ctrl_history_kernel"]
KERNELS = ["history._read_ctrl_delayed_kernel", "history._insert_ctrl_history_kernel", "history._apply_sensor_delay_kernel"]
LEVEL_TEXT = ("Theorems about the history-buffer functions regenerated from history.py on every run, over the reals, for all n >= 1, cursors, times: physical index = rotation bijection; the "
              "circular binary search returns the least logical index with t <= time (terminates within log fuel); insert refines a sorted-association-list spec in all four cases and preserves "
              "the invariant (strictly increasing logical times) through any number of insertions incl. wrap-around; read refines the spec for ZOH/linear/cubic; end-to-end: from MuJoCo's "
              "initial buffer, after k steps the ZOH read at k*dt - m*dt returns c_(k-m) (0 before) for any k, n, 1<=m<=n, also through the two ctrl kernels. "
              "make_data now starts from MuJoCo's initial buffer (fix: commit); reset_data still does not restore it (known finding). Real step() is compared with mujoco.mj_step on delayed models.")
LEVEL_NOTE = "C30_partial: vector (dim>1) buffers and sensor interval logic (period not a multiple of the timestep, negative phase) are sampled only; dt must exceed the 1e-6 merge window. Trusted: Lean kernel + Mathlib, translator (func/kernel differentials)."
ASSUMPTIONS = ["times on a grid coarser than 2e-6 (k*timestep)", "oracle: mujoco.mj_step with the same controls, comparing ctrl-driven qvel/qpos and delayed sensordata"]

XML = """
<mujoco>
  <option timestep="{dt}"/>
  <worldbody>
    <body><joint name="j" type="hinge" damping="0.1"/><geom size=".1"/></body>
    <body pos="1 0 0"><joint name="k" type="slide"/><geom size=".1"/></body>
  </worldbody>
  <actuator>
    <motor joint="j" delay="{d1}" nsample="{n1}" interp="{i1}"/>
    <motor joint="k"/>
  </actuator>
  <sensor><jointpos joint="j" delay="{d2}" nsample="{n2}" interp="{i2}"/><jointvel joint="k"/>{isens}</sensor>
</mujoco>
"""


def _run(ctx, ncases, rec):
  import mujoco
  import warp as wp
  import mujoco_warp as mjw
  rng = np.random.default_rng(ctx.seed * 1000 + 30)
  acc = Acc()

  def scenario():
    for c in range(ncases):
      dt = float(rng.choice([0.01, 0.002, 0.0078125]))
      n1, n2 = int(rng.integers(1, 6)), int(rng.integers(1, 5))
      m1, m2 = int(rng.integers(1, n1 + 1)), int(rng.integers(1, n2 + 1))
      i1 = str(rng.choice(["zoh", "linear", "cubic"]))
      i2 = str(rng.choice(["zoh", "linear"]))
      frac = float(rng.choice([1.0, 1.0, 0.5]))
      # interval sensors: the period is NOT a multiple of the timestep (k + 0.37 steps) and the phase may be negative, so that the
      # sampling thresholds phase + j*period stay well away from step times (no float32 tie) and "advance by exactly one period"
      # differs from "restart at the current time" from the second sample on
      isens = ""
      if rng.random() < 0.6:
        kper = int(rng.integers(1, 4)) + 0.37
        ph = float(rng.choice([0.0, -0.45])) * dt
        isens += f'<jointpos joint="k" interval="{kper * dt:.9g} {ph:.9g}" nsample="{int(rng.integers(2, 5))}"/>'
        if rng.random() < 0.5:
          isens += f'<jointvel joint="j" delay="{2 * dt:.9g}" interval="{(kper + 1) * dt:.9g} 0" nsample="5" interp="linear"/>'
      xml = XML.format(dt=dt, d1=m1 * dt * frac, n1=n1, i1=i1, d2=m2 * dt, n2=n2, i2=i2, isens=isens)
      try:
        mjm = mujoco.MjModel.from_xml_string(xml)
      except ValueError as e:
        ctx.notes.append(f"generator: MuJoCo rejected a delay spec: {e}")
        continue
      start = str(rng.choice(["make_data", "put_data", "reset_data"]))
      nworld = int(rng.integers(1, 3))
      m = mjw.put_model(mjm)
      mjd = mujoco.MjData(mjm)
      if start == "put_data":
        d = mjw.put_data(mjm, mjd, nworld=nworld)
      else:
        d = mjw.make_data(mjm, nworld=nworld)
      nsteps = int(rng.integers(2, 3 * max(n1, n2) + 4))   # beyond the buffer length -> wrap-around
      if start == "reset_data":
        for _ in range(3):
          d.ctrl.assign(rng.normal(size=(nworld, mjm.nu)).astype(np.float32))
          mjw.step(m, d)
        mjw.reset_data(m, d)
      ok = True
      for s in range(nsteps):
        u = rng.integers(-4, 5, size=mjm.nu).astype(np.float64)
        mjd.ctrl[:] = u
        d.ctrl.assign(np.tile(u, (nworld, 1)).astype(np.float32))
        mujoco.mj_step(mjm, mjd)
        mjw.step(m, d)
        acc.evals += 1
        qv = d.qvel.numpy()
        sd = d.sensordata.numpy()
        for w in range(nworld):
          if not (np.allclose(qv[w], mjd.qvel, rtol=1e-3, atol=2e-4) and np.allclose(sd[w], mjd.sensordata, rtol=1e-3, atol=2e-4)):
            trig = {"reset_data": "history-not-reset", "make_data": "make-data-history", "put_data": "put-data"}[start]
            acc.find(f"delayed ctrl/sensor differs from mj_step at step {s} (start={start}, n={n1}/{n2}, delay={m1}/{m2} steps, interp={i1}/{i2})", "io.reset_data" if start == "reset_data" else "history",
                     trig, xml=xml, start=start, step=s, qvel=qv[w].tolist(), mj_qvel=mjd.qvel.tolist(), sensor=sd[w].tolist(), mj_sensor=mjd.sensordata.tolist())
            ok = False
            break
        if not ok:
          break
      acc.distinct.add((dt, n1, n2, m1, m2, i1, i2, start, frac))
      acc.hit(start)
      acc.hit('interval-sensor' if isens else 'no-interval-sensor')
      acc.hit("wrap" if nsteps > max(n1, n2) else "nowrap")
      acc.sample({"dt": dt, "nsample": [n1, n2], "delay_steps": [m1 * frac, m2], "interp": [i1, i2], "start": start, "steps": nsteps})

  if rec:
    kc, _ = intercept(KERNELS, scenario, rng, max_tids=8, per_kernel=4)
  else:
    scenario()
    kc = None
  return acc, kc


RULE = ("hinge+slide model with a delayed motor (nsample 1..5, delay 1..n steps or a half step, zoh/linear/cubic) and a delayed joint sensor; dt in {0.01,0.002,2^-7}; data from make_data / put_data / "
        "after reset_data; integer controls; 2..3n+3 steps (wrap-around) in lock step with mujoco.mj_step comparing qvel and sensordata; distinct = distinct parameter tuples")


def correspondence(ctx):
  from harness.corr import func_corr
  fc = func_corr.run(["history._history_physical_index"], ncases=64, seed=ctx.seed, int_ranges={"history._history_physical_index": (1, 7)})
  acc, kc = _run(ctx, 36 if ctx.thorough else 9, True)
  return result(acc, RULE, kc=kc, fc=fc)


def search(ctx, breaks):
  acc, _ = _run(ctx, 90, False)
  return search_result(acc, "lock-step mujoco.mj_step on delayed actuators/sensors from make_data/put_data/reset_data")
