"""C27 Velocity derivatives are correct."""
from __future__ import annotations
import numpy as np
from .common import Acc, intercept, result, search_result

ID = "C27"
LEAN_MODULES = ["MjwVerif.Props.C27"]
GEN_FUNCS = ["util_misc._poly_force", "util_misc._poly_force_deriv", "util_misc.poly_potential", "derivative._qderiv_actuator_passive_vel", "derivative._qderiv_actuator_passive",
             "derivative._qderiv_tendon_damping", "forward._compute_damping_deriv"]
KERNELS = ["derivative._qderiv_actuator_passive_vel", "derivative._qderiv_actuator_passive", "derivative._qderiv_tendon_damping"]
LEVEL_TEXT = ("Theorems (Mathlib calculus, HasDerivAt) about functions/kernels regenerated from util_misc.py / derivative.py / forward.py on every run: _poly_force_deriv is the derivative of "
              "x * _poly_force(x) (the force passive.py forms) for all coefficients and all x incl. 0; damper/spring forces have derivative -_poly_force_deriv; poly_potential' = force; "
              "_compute_damping_deriv stores that value; _qderiv_actuator_passive_vel stores exactly bias_vel + gain_vel * u for affine actuators (u = clamped ctrl / act / next act), 0 when the "
              "force is clamped; exact write lists of _qderiv_actuator_passive and _qderiv_tendon_damping (J^T diag(B) J on the sparse pattern). On the real code (sampled) the matrix written by "
              "deriv_smooth_vel, M - h*qDeriv, is compared ENTRY BY ENTRY with float64 finite differences of MuJoCo's passive+actuator forces, with MuJoCo's analytic qDeriv and with finite differences of "
              "mjw's own forces, for both implicit integrators, on models that combine every smooth-force component (joint/tendon damping incl. polynomial, joint and tendon actuators, ellipsoid-model "
              "and inertia-box fluid bodies in ONE model, four media with wind); one step is compared with a dense solve using the finite-difference Jacobian and with mj_step. Per-world BATCHED Model "
              "fields (nworld 2..5; dof/tendon damping and dampingpoly, actuator gain/bias/dyn prm, force/ctrl/act ranges, opt.timestep, with batch sizes 1 / nworld / nworld-1 that DIFFER between "
              "sibling fields in all six patterns): every world's assembled M - h*qDeriv vs the unbatched Model of an MjModel holding that world's values, vs MuJoCo's analytic qDeriv and finite "
              "differences for that MjModel, vs finite differences of the batched forces; one batched step per world vs mj_step.")
LEVEL_NOTE = ("C27_partial: DC-motor branches, the RNE (Coriolis) derivative of the full implicit integrator and fluid derivatives are sampled only (the fluid kernels and the host-side choice of which "
              "fluid kernel is launched are not in Gen). The clamped-control defect found by the witness was repaired (fix: commit). Observed, not recorded here (reported): the full implicit integrator "
              "mirrors the lower triangle of the nonsymmetric ellipsoid-fluid derivative into the upper triangle (counted as 'observed: ...' in hits). Trusted: Lean kernel + Mathlib, translator.")
ASSUMPTIONS = ["matrix check: float64 MuJoCo finite differences with step 1e-6, tolerance 1e-5*|M|max + 1e-3*|h*J|max + 1e-7 (observed noise < 0.1 of it); float32 finite differences of mjw forces with step 1e-3, "
               "tolerance 1e-5*|M|max + 1e-2*|h*J|max + 2e-5, skipped when MuJoCo's forces have a kink inside the +-1e-3 window",
               "finite-difference references are used only where MuJoCo's analytic qDeriv agrees with MuJoCo's own finite differences (the analytic comparison always runs)",
               "batched family: per-row values are the model's value times a positive factor in [1/e, e] (timestep [0.5, 2]), rounded to float32 on both sides; same tolerances; the comparison with the "
               "unbatched Model uses the float64 tolerance (observed: identical to < 0.1 of it)",
               "step checks: tolerance 3e-2 relative (dense solve with the float32 finite-difference Jacobian), 2e-3 relative vs mj_step"]

XML = """
<mujoco>
  <option timestep="0.005" integrator="implicitfast"/>
  <worldbody>
    <body pos="0 0 1"><joint name="h1" type="hinge" axis="0 1 0" damping="0.4"/><geom type="capsule" size=".04 .2"/>
      <body pos=".4 0 0"><joint name="h2" type="hinge" axis="0 1 0" damping="0.2"/><geom type="capsule" size=".03 .15"/></body></body>
    <body pos="1 0 1"><joint name="sl" type="slide" axis="0 0 1" damping="0.5"/><geom size=".05"/></body>
  </worldbody>
  <tendon><fixed name="t1" damping="0.3"><joint joint="h1" coef="1"/><joint joint="h2" coef="-0.5"/></fixed></tendon>
  <actuator>
    <general joint="h1" gainprm="0 0 1.5" ctrllimited="true" ctrlrange="-1 1"/>
    <position joint="h2" kp="5" kv="0.7"/>
    <velocity joint="sl" kv="2" forcelimited="{fl}" forcerange="-0.5 0.5"/>
    <general tendon="t1" dyntype="filter" dynprm="0.05" gainprm="1 0 0.4" biasprm="0 0 -0.3"/>
  </actuator>
</mujoco>
"""


# second family: EVERY smooth-force component in one model.  Per-BODY choice of the fluid model (a body with at least one fluidshape="ellipsoid"
# geom uses the ellipsoid model, every other body with mass the inertia-box model), joint damping (linear / polynomial), tendon damping
# (linear / polynomial), velocity-dependent actuators on joints and on the tendon, medium density / viscosity / wind.
XML_MIX = """
<mujoco>
  <option timestep="0.005" integrator="{integ}" density="{rho}" viscosity="{mu}" wind="{wind}"><flag contact="disable"/></option>
  <worldbody>
    <body pos="0 0 1"><joint name="h1" type="hinge" axis="0 1 0" damping="{jd}"/>
      <geom type="box" size=".2 .05 .02" pos=".2 0 0" euler="10 20 30" density="500" fluidshape="{f0}"/>
      <body pos=".4 0 0"><joint name="h2" type="hinge" axis="0 0 1" damping="0.2"/>
        <geom type="capsule" size=".03 .15" pos=".15 .02 0" euler="-20 5 40" density="500" fluidshape="{f1}"/>
        <body pos=".3 0 0"><joint name="b3" type="ball" damping="0.05"/>
          <geom type="ellipsoid" size=".1 .06 .03" pos=".1 0 .05" euler="30 -15 10" density="500" fluidshape="{f2}"/>
          <geom type="box" size=".03 .03 .08" pos=".05 .1 0" density="500" fluidshape="{f3}"/>
        </body></body></body>
    <body pos="1 0 1"><joint name="sl" type="slide" axis="0 0 1" damping="0.5"/><geom size=".05" density="500" fluidshape="{f4}"/></body>
  </worldbody>
  <tendon><fixed name="t1" damping="{td}"><joint joint="h1" coef="1"/><joint joint="h2" coef="-0.5"/></fixed></tendon>
  <actuator>
    <general joint="h1" gainprm="0 0 1.5" ctrllimited="true" ctrlrange="-1 1"/>
    <position joint="h2" kp="5" kv="0.7"/>
    <velocity joint="sl" kv="2"/>
    <general tendon="t1" dyntype="filter" dynprm="0.05" gainprm="1 0 0.4" biastype="affine" biasprm="0 0 -0.3"/>
  </actuator>
</mujoco>
"""
# fluidshape of (link 1, link 2, link 3 geom a, link 3 geom b, slider); the first four MIX the two fluid models in one model (link 3 with one
# ellipsoid geom and one plain geom is an ellipsoid-model body), the last two are the single-model controls
FLUID_PATTERNS = [("none", "ellipsoid", "none", "none", "ellipsoid"), ("ellipsoid", "none", "ellipsoid", "none", "none"), ("none", "none", "none", "ellipsoid", "none"),
                  ("ellipsoid", "ellipsoid", "none", "none", "ellipsoid"), ("none",) * 5, ("ellipsoid",) * 5]
MEDIA = [(1000.0, 0.002), (1.2, 0.5), (0.0, 0.1), (300.0, 0.0)]   # water, thick air, viscosity only, density only


def _dense_mass(mujoco, mjm, mjd):
  nv = mjm.nv
  M = np.zeros((nv, nv))
  for k in range(nv):
    e = np.zeros(nv); e[k] = 1.0
    col = np.zeros(nv)
    mujoco.mj_mulM(mjm, mjd, col, e)
    M[:, k] = col
  return M


def _mj_fd(mujoco, mjm, mjd, eps):
  """float64 central differences of MuJoCo's own forces wrt qvel: (d(passive + actuator)/dv, d(-bias)/dv)"""
  nv = mjm.nv
  t = mujoco.MjData(mjm)
  out = []
  for k in range(nv):
    fs = []
    for s in (1.0, -1.0):
      t.qpos[:], t.qvel[:], t.ctrl[:], t.act[:] = mjd.qpos, mjd.qvel, mjd.ctrl, mjd.act
      t.qvel[k] += s * eps
      mujoco.mj_forward(mjm, t)
      fs.append((t.qfrc_passive + t.qfrc_actuator, -t.qfrc_bias.copy()))
    out.append(((fs[0][0] - fs[1][0]) / (2 * eps), (fs[0][1] - fs[1][1]) / (2 * eps)))
  return np.array([o[0] for o in out]).T, np.array([o[1] for o in out]).T


def _mj_qderiv(mjm, ref):
  """MuJoCo's analytic qDeriv (D-structure, as left behind by mj_step with an implicit integrator) as a dense matrix"""
  nv = mjm.nv
  Q = np.zeros((nv, nv))
  for i in range(nv):
    a = int(mjm.D_rowadr[i])
    for k in range(int(mjm.D_rownnz[i])):
      Q[i, int(mjm.D_colind[a + k])] = ref.qDeriv[a + k]
  return Q


def _check_case(acc, mujoco, wp, mjw, derivative, mjm, mjd, integ, xml, fluid):
  """all comparisons for one (model, state): mjd must hold the state after mj_forward.  Returns nothing; findings go to acc."""
  nv, h = mjm.nv, mjm.opt.timestep
  replay = dict(xml=xml, qpos=mjd.qpos.tolist(), qvel=mjd.qvel.tolist(), ctrl=mjd.ctrl.tolist(), act=mjd.act.tolist())
  m = mjw.put_model(mjm)
  d = mjw.put_data(mjm, mjd, nworld=1)
  mjw.forward(m, d)
  v0 = mjd.qvel.copy()
  M = _dense_mass(mujoco, mjm, mjd)
  sym = (lambda J: 0.5 * (J + J.T)) if integ == "implicitfast" else (lambda J: J)   # implicitfast symmetrises (fluid B -> (B + B^T)/2, no RNE term)

  # ---- 1. the matrix deriv_smooth_vel itself: out = M - h * d(passive + actuator)/d(qvel) on M's sparsity pattern (lower triangle, chain ancestors)
  out = wp.zeros((1, m.nC), dtype=float)
  derivative.deriv_smooth_vel(m, d, out)
  outn = out.numpy()[0].astype(np.float64)
  eid = m.M_elemid.numpy() if hasattr(m.M_elemid, "numpy") else np.asarray(m.M_elemid)
  mask = np.tril(eid >= 0)
  A = np.where(mask, outn[np.clip(eid, 0, None)], 0.0)
  # references: (a) float64 central differences of MuJoCo's forces, step 1e-6; (b) MuJoCo's analytic qDeriv left by mj_step (for the full implicit
  # integrator it contains the RNE term, removed with (a)'s bias part); (c) float32 central differences of mjw's OWN forces, step 1e-3
  Jpa, Jb = _mj_fd(mujoco, mjm, mjd, 1e-6)
  Jpa3, _ = _mj_fd(mujoco, mjm, mjd, 1e-3)
  ref = mujoco.MjData(mjm)
  ref.qpos[:], ref.qvel[:], ref.ctrl[:], ref.act[:] = mjd.qpos, mjd.qvel, mjd.ctrl, mjd.act
  mujoco.mj_step(mjm, ref)
  Q = _mj_qderiv(mjm, ref) - (Jb if integ == "implicit" else 0.0)
  Jw, Jbw = np.zeros((nv, nv)), np.zeros((nv, nv))
  eps = 1e-3
  for k in range(nv):
    fs = []
    for s in (1.0, -1.0):
      v = v0.copy(); v[k] += s * eps
      d.qvel.assign(v[None].astype(np.float32)); mjw.forward(m, d)
      fs.append(((d.qfrc_passive.numpy()[0] + d.qfrc_actuator.numpy()[0]).astype(np.float64), -d.qfrc_bias.numpy()[0].astype(np.float64)))
    Jw[:, k] = (fs[0][0] - fs[1][0]) / (2 * eps)
    Jbw[:, k] = (fs[0][1] - fs[1][1]) / (2 * eps)
  d.qvel.assign(v0[None].astype(np.float32)); mjw.forward(m, d)
  sJ = np.abs(h * Jpa).max()
  sM = np.abs(M).max()
  # float32: M entries carry ~1e-7 relative error, the analytic derivative ~1e-5 (observed noise on the unchanged tree: <= 5e-7 absolute at sM ~ 0.4,
  # sJ ~ 0.01..0.1); float32 finite differences carry  h * ulp(|f|) / eps ~ 1e-5 (observed <= 1e-5)
  tol64 = 1e-5 * sM + 1e-3 * sJ + 1e-7
  tol32 = 1e-5 * sM + 1e-2 * sJ + 2e-5
  smooth_window = np.abs(h * (Jpa3 - Jpa)).max() <= 0.1 * tol32    # no kink (force clamp, |v| at 0) inside the +-1e-3 window of reference (c)
  acc.hit("fd-window-smooth" if smooth_window else "fd-window-kink(mjw finite differences skipped)")

  def worst(R):
    E = np.abs(A - R * mask)
    i, j = np.unravel_index(int(E.argmax()), E.shape)
    return E[i, j], f"entry [{i},{j}] {A[i, j]:.6g} vs {(R * mask)[i, j]:.6g}; h*J scale {sJ:.3g}, M scale {sM:.3g}"
  # arbiter on the REFERENCES only (no mjw quantity involved): MuJoCo's analytic ellipsoid-fluid derivative is occasionally off from MuJoCo's own finite
  # differences (observed ~1e-2 relative, wind on, an ellipsoid-model geom with two equal semi-axes); mjw transcribes the analytic formula, so there the
  # comparison with the analytic qDeriv decides and the finite-difference references are skipped (counted)
  consistent = np.abs(h * (sym(Q) - sym(Jpa)) * mask).max() <= tol64
  acc.hit("references-consistent" if consistent else "references-inconsistent: MuJoCo analytic qDeriv != MuJoCo finite differences (finite-difference comparisons skipped)")
  for name, R, tol, on in (("mujoco-fd", M - h * sym(Jpa), tol64, consistent), ("mujoco-analytic", M - h * sym(Q), tol64, True), ("finite-difference", M - h * sym(Jw), tol32, smooth_window and consistent)):
    if not on:
      continue
    e, txt = worst(R)
    acc.hit(f"margin {name}: err/tol " + ("<= 0.1" if e <= 0.1 * tol else "<= 0.5" if e <= 0.5 * tol else "<= 1" if e <= tol else "> 1"))
    if not e <= tol:
      acc.find(f"deriv_smooth_vel ({integ}{', fluid ' + fluid if fluid else ''}): M - h*qDeriv differs from the reference '{name}' by {e:.3g} > {tol:.3g}: {txt}",
               "derivative.deriv_smooth_vel", "matrix-vs-" + name, **replay)
  acc.hit("qDeriv-asymmetric" if np.abs(h * (Jpa - Jpa.T)).max() > 10 * tol64 else "qDeriv-symmetric")

  # ---- 2. one step vs a dense solve with the finite-difference velocity Jacobian of the real forces:  (M - h*J) dv = h * f
  d2 = mjw.put_data(mjm, mjd, nworld=1)
  mjw.step(m, d2)
  qv = d2.qvel.numpy()[0].astype(np.float64)
  dv = qv - v0
  rhs = h * (d.qfrc_smooth.numpy()[0].astype(np.float64) + d.qfrc_constraint.numpy()[0].astype(np.float64))
  Jfull = sym(Jw) + (Jbw if integ == "implicit" else 0.0)
  dv_fd = np.linalg.solve(M - h * Jfull, rhs)
  # arbiter for a deviation of the unchanged tree (reported, not recorded here): the full implicit integrator mirrors the lower triangle of
  # d(passive+actuator)/dv into the upper one (_map_m2d of the M-structure matrix); MuJoCo keeps the nonsymmetric ellipsoid-fluid derivative
  mirror = np.tril(Jpa) + np.tril(Jpa, -1).T
  dv_mirror = np.linalg.solve(M - h * (mirror + Jb), h * (mjd.qfrc_smooth + mjd.qfrc_constraint)) if integ == "implicit" else None
  mirrored = lambda tol_r, tol_a: dv_mirror is not None and np.abs(mirror - Jpa).max() * h > 10 * tol64 and np.allclose(dv, dv_mirror, rtol=tol_r, atol=tol_a)
  scale = 1 + np.abs(dv_fd).max()
  if not np.allclose(dv, dv_fd, rtol=3e-2, atol=3e-3 * scale):
    if mirrored(3e-2, 3e-3 * scale):
      acc.hit("observed: implicit step uses the mirrored lower triangle of the nonsymmetric fluid derivative")
      _mirror_finding(acc, dv, dv_fd, replay)
    else:
      acc.find(f"{integ} step differs from a dense solve with the finite-difference velocity Jacobian of passive+actuator{'-bias' if integ == 'implicit' else ''} forces (max |d dv| {np.abs(dv - dv_fd).max():.3g})",
               "derivative.deriv_smooth_vel" if integ == "implicitfast" else "forward.implicit / derivative.deriv_rne_vel", "vs-finite-difference", **replay)
  # ---- 3. and against MuJoCo's own step
  if not np.allclose(qv, ref.qvel, rtol=2e-3, atol=2e-3 * (1 + np.abs(ref.qvel).max())):
    if mirrored(2e-3, 2e-3 * (1 + np.abs(ref.qvel).max())):
      acc.hit("observed: implicit step uses the mirrored lower triangle of the nonsymmetric fluid derivative")
      _mirror_finding(acc, qv, ref.qvel, replay)
    else:
      acc.find(f"{integ} step differs from mj_step (max |d qvel| {np.abs(qv - ref.qvel).max():.3g})", "derivative.deriv_smooth_vel", "vs-mujoco", **replay)
  return m


def _mirror_finding(acc, got, want, replay):
  """recorded deviation (known_findings C27-implicit-fluid-symmetrised), reported when OBSERVED, once per run"""
  if acc.__dict__.setdefault("_mirror_reported", False):
    return
  acc.__dict__["_mirror_reported"] = True
  acc.find(f"full implicit integrator with the ellipsoid fluid model: the step equals a dense solve with the LOWER triangle of d(passive)/d(qvel) mirrored into the upper one "
           f"(max |d| to the true/MuJoCo result {np.abs(np.asarray(got) - np.asarray(want)).max():.3g}); MuJoCo keeps the nonsymmetric derivative",
           "forward.implicit (_map_m2d of the M-structure qDeriv)", "implicit-fluid-derivative-symmetrised", **replay)


# third family: PER-WORLD BATCHED Model fields.  Every Model field that the velocity-derivative kernels read per world is an independently batched array
# (leading dimension 1, nworld or anything in between, addressed worldid % size).  One batched Model with batch sizes that DIFFER between the fields, nworld >= 2,
# per-world states; world w's M - h*qDeriv must be what the unbatched code / MuJoCo give for an MjModel that holds world w's values.
XML_BATCH = """
<mujoco>
  <option timestep="0.005" integrator="{integ}"><flag contact="disable"/></option>
  <worldbody>
    <body pos="0 0 1"><joint name="h1" type="hinge" axis="0 1 0" damping="0.4 0.15 0.05"/><geom type="capsule" size=".04 .2"/><site name="s0" pos=".1 0 .1"/>
      <body pos=".4 0 0"><joint name="h2" type="hinge" axis="1 0 0.3" damping="0.2 0.1 0.02"/><geom type="capsule" size=".03 .15"/><site name="s1" pos=".1 0 .1"/>
        <body pos=".3 0 0"><joint name="h3" type="hinge" axis="0 0 1" damping="0.1"/><geom type="capsule" size=".03 .1"/><site name="s2" pos=".1 .05 .1"/></body></body></body>
    <body pos="1 0 1"><joint name="sl" type="slide" axis="0 0 1" damping="0.5 0.2 0.1"/><geom size=".05"/></body>
  </worldbody>
  <tendon>
    <fixed name="t1" damping="0.3 0.2 0.1"><joint joint="h1" coef="1"/><joint joint="h2" coef="-0.5"/><joint joint="h3" coef="0.7"/></fixed>
    <spatial name="t2" damping="0.4 0.25 0.1"><site site="s0"/><site site="s1"/><site site="s2"/></spatial>
  </tendon>
  <actuator>
    <general joint="h1" gainprm="0.5 0 1.5" ctrllimited="true" ctrlrange="-1 1"/>
    <position joint="h2" kp="5" kv="0.7"/>
    <velocity joint="sl" kv="2" forcelimited="true" forcerange="-1.5 1.5"/>
    <general tendon="t1" dyntype="filter" dynprm="0.05" gainprm="1 0 0.4" biastype="affine" biasprm="0 0 -0.3"/>
    <general joint="h3" dyntype="filterexact" dynprm="0.03" actearly="true" gainprm="0.5 0 0.6"/>
    <general tendon="t2" dyntype="integrator" actlimited="true" actrange="-0.4 0.4" actearly="true" gainprm="0.3 0 0.5"/>
  </actuator>
</mujoco>
"""
# sibling fields read side by side in one kernel; per case the two batch sizes of every pair follow BATCH_PATTERNS in rotation ('1', 'n' = nworld,
# 'k' = nworld - 1 (1 when nworld = 2): a size that does not divide nworld), shifted by the pair index so that one case mixes different patterns
BATCH_PAIRS = [("tendon_damping", "tendon_dampingpoly"), ("dof_damping", "dof_dampingpoly"), ("actuator_gainprm", "actuator_biasprm"),
               ("actuator_dynprm", "actuator_actrange"), ("actuator_forcerange", "actuator_ctrlrange")]
BATCH_PATTERNS = [("1", "n"), ("n", "1"), ("k", "n"), ("n", "k"), ("n", "n"), ("1", "k")]
BATCH_NWORLD = [3, 2, 4, 3, 5, 2]
BATCH_TIMESTEP = ["n", "1", "k"]


def _assemble(outn, eid, mask):
  return np.where(mask, outn.astype(np.float64)[np.clip(eid, 0, None)], 0.0)


def _check_batched(acc, mujoco, wp, mjw, derivative, rng, state, c):
  """one batched case: a Model whose per-world fields have batch sizes that differ from each other, nworld >= 2, per-world states.  References per world w, all
  for an MjModel holding world w's values: MuJoCo's analytic qDeriv, MuJoCo float64 finite differences, the UNBATCHED mjw Model (put_model of that MjModel), and
  float32 finite differences of the batched mjw forces themselves."""
  import copy
  integ = "implicit" if c % 2 else "implicitfast"
  nw = BATCH_NWORLD[c % len(BATCH_NWORLD)]
  sz = {"1": 1, "n": nw, "k": nw - 1 if nw > 2 else 1}
  xml = XML_BATCH.format(integ=integ)
  mjm = mujoco.MjModel.from_xml_string(xml)
  nv = mjm.nv
  sizes = {}
  for p, (a, b) in enumerate(BATCH_PAIRS):
    pa, pb = BATCH_PATTERNS[(c + p) % len(BATCH_PATTERNS)]
    sizes[a], sizes[b] = sz[pa], sz[pb]
  ts_size = sz[BATCH_TIMESTEP[c % len(BATCH_TIMESTEP)]]
  # per-row values: the model's value times a positive factor in [1/e, e] per entry (nonzero stays nonzero, zero stays zero: nothing that put_model derives
  # from these fields changes); row 0 of a size-1 field is the model's own value
  rows = {}
  for name, s in sizes.items():
    base = np.asarray(getattr(mjm, name), dtype=np.float64)
    if s == 1:
      rows[name] = base[None].copy()
    elif name.endswith("range"):
      rows[name] = base[None] * np.exp(rng.uniform(-1, 1, size=(s,) + base.shape[:1] + (1,)))     # both ends of a range scaled together
    else:
      rows[name] = base[None] * np.exp(rng.uniform(-1, 1, size=(s,) + base.shape))
  ts_rows = np.array([mjm.opt.timestep]) if ts_size == 1 else mjm.opt.timestep * np.exp(rng.uniform(-0.7, 0.7, size=ts_size))
  # float32 is what the device holds: the per-world MjModels get exactly those values
  rows = {k: v.astype(np.float32).astype(np.float64) for k, v in rows.items()}
  ts_rows = ts_rows.astype(np.float32).astype(np.float64)

  # ---- the batched Model (public route: put_model(batch_sizes=...) + per-row values) and per-world states
  m = mjw.put_model(mjm, batch_sizes={k: s for k, s in sizes.items() if s > 1})
  for name, s in sizes.items():
    arr = getattr(m, name)
    if arr.shape[0] != s:
      acc.find(f"put_model(batch_sizes={{{name!r}: {s}}}) produced leading dimension {arr.shape[0]}", "io.put_model", "batched-size", xml=xml)
      return
    if s > 1:
      arr.assign(rows[name].astype(np.float32))
  m.opt.timestep = wp.array(ts_rows.astype(np.float32), dtype=float)
  worlds = []
  for w in range(nw):
    mw = copy.copy(mjm)
    for name, s in sizes.items():
      getattr(mw, name)[:] = rows[name][w % s]
    mw.opt.timestep = float(ts_rows[w % ts_size])
    worlds.append((mw, state(mw)))
  d = mjw.put_data(mjm, worlds[0][1], nworld=nw)
  for fld in ("qpos", "qvel", "ctrl", "act"):
    getattr(d, fld).assign(np.array([getattr(md, fld) for _, md in worlds], dtype=np.float32))
  mjw.forward(m, d)
  out = wp.zeros((nw, m.nC), dtype=float)
  derivative.deriv_smooth_vel(m, d, out)
  outn = out.numpy()
  eid = m.M_elemid.numpy() if hasattr(m.M_elemid, "numpy") else np.asarray(m.M_elemid)
  mask = np.tril(eid >= 0)
  sym = (lambda J: 0.5 * (J + J.T)) if integ == "implicitfast" else (lambda J: J)
  # float32 central differences of the BATCHED model's own forces, all worlds at once
  V0 = np.array([md.qvel for _, md in worlds])
  eps = 1e-3
  Jw = np.zeros((nw, nv, nv))
  for k in range(nv):
    fs = []
    for s_ in (1.0, -1.0):
      V = V0.copy(); V[:, k] += s_ * eps
      d.qvel.assign(V.astype(np.float32)); mjw.forward(m, d)
      fs.append((d.qfrc_passive.numpy() + d.qfrc_actuator.numpy()).astype(np.float64))
    Jw[:, :, k] = (fs[0] - fs[1]) / (2 * eps)
  d.qvel.assign(V0.astype(np.float32)); mjw.forward(m, d)
  # one step of the batched model (implicit integrators: solve with the matrix above)
  d2 = mjw.put_data(mjm, worlds[0][1], nworld=nw)
  for fld in ("qpos", "qvel", "ctrl", "act"):
    getattr(d2, fld).assign(np.array([getattr(md, fld) for _, md in worlds], dtype=np.float32))
  mjw.step(m, d2)
  qv2 = d2.qvel.numpy().astype(np.float64)

  desc = ", ".join(f"{k}:{s}" for k, s in sizes.items()) + f", opt.timestep:{ts_size}"
  for w, (mw, md) in enumerate(worlds):
    h = mw.opt.timestep
    replay = dict(xml=xml, nworld=nw, world=w, batch_sizes=dict(sizes, **{"opt.timestep": ts_size}), rows={k: v.tolist() for k, v in rows.items() if v.shape[0] > 1},
                  timestep_rows=ts_rows.tolist(), qpos=md.qpos.tolist(), qvel=md.qvel.tolist(), ctrl=md.ctrl.tolist(), act=md.act.tolist())
    A = _assemble(outn[w], eid, mask)
    M = _dense_mass(mujoco, mw, md)
    Jpa, Jb = _mj_fd(mujoco, mw, md, 1e-6)
    Jpa3, _ = _mj_fd(mujoco, mw, md, 1e-3)
    ref = mujoco.MjData(mw)
    ref.qpos[:], ref.qvel[:], ref.ctrl[:], ref.act[:] = md.qpos, md.qvel, md.ctrl, md.act
    mujoco.mj_step(mw, ref)
    Q = _mj_qderiv(mw, ref) - (Jb if integ == "implicit" else 0.0)
    # the unbatched Model of world w's MjModel, same state
    m1 = mjw.put_model(mw)
    d1 = mjw.put_data(mw, md, nworld=1)
    mjw.forward(m1, d1)
    o1 = wp.zeros((1, m1.nC), dtype=float)
    derivative.deriv_smooth_vel(m1, d1, o1)
    A1 = _assemble(o1.numpy()[0], eid, mask)
    sJ, sM = np.abs(h * Jpa).max(), np.abs(M).max()
    tol64 = 1e-5 * sM + 1e-3 * sJ + 1e-7
    tol32 = 1e-5 * sM + 1e-2 * sJ + 2e-5
    smooth_window = np.abs(h * (Jpa3 - Jpa)).max() <= 0.1 * tol32
    consistent = np.abs(h * (sym(Q) - sym(Jpa)) * mask).max() <= tol64
    acc.hit("batched: " + ("fd-window-smooth" if smooth_window else "fd-window-kink(mjw finite differences skipped)"))
    acc.hit("batched: " + ("references-consistent" if consistent else "references-inconsistent (finite-difference comparisons skipped)"))
    for name, R, tol, on in (("unbatched-model", A1, tol64, True), ("mujoco-analytic", (M - h * sym(Q)) * mask, tol64, True), ("mujoco-fd", (M - h * sym(Jpa)) * mask, tol64, consistent),
                             ("finite-difference", (M - h * sym(Jw[w])) * mask, tol32, smooth_window and consistent)):
      if not on:
        continue
      E = np.abs(A - R)
      i, j = np.unravel_index(int(E.argmax()), E.shape)
      e = E[i, j]
      acc.hit(f"batched margin {name}: err/tol " + ("<= 0.1" if e <= 0.1 * tol else "<= 0.5" if e <= 0.5 * tol else "<= 1" if e <= tol else "> 1"))
      if not e <= tol:
        acc.find(f"deriv_smooth_vel ({integ}) with per-world batched Model fields (nworld {nw}; batch sizes {desc}): world {w}'s M - h*qDeriv differs from the reference '{name}' for an "
                 f"MjModel holding world {w}'s values by {e:.3g} > {tol:.3g}: entry [{i},{j}] {A[i, j]:.6g} vs {R[i, j]:.6g}; h*J scale {sJ:.3g}, M scale {sM:.3g}",
                 "derivative.deriv_smooth_vel", "batched-matrix-vs-" + name, **replay)
    if not np.allclose(qv2[w], ref.qvel, rtol=2e-3, atol=2e-3 * (1 + np.abs(ref.qvel).max())):
      acc.find(f"{integ} step with per-world batched Model fields (nworld {nw}; batch sizes {desc}): world {w} differs from mj_step of an MjModel holding world {w}'s values "
               f"(max |d qvel| {np.abs(qv2[w] - ref.qvel).max():.3g})", "derivative.deriv_smooth_vel", "batched-vs-mujoco", **replay)
    # vacuity: is this world's derivative really a function of a row other than row 0?
    if w >= 1:
      for a, b in BATCH_PAIRS:
        ra, rb = w % sizes[a], w % sizes[b]
        if ra != rb:
          acc.hit(f"batched: world>=1 reads different rows of {a} / {b}")
      acc.hit("batched: world>=1 reads timestep row " + ("0" if w % ts_size == 0 else ">=1"))
    acc.hit("batched: tendon velocity nonzero" if np.abs(md.ten_velocity).min() > 1e-3 else "batched: some tendon velocity ~ 0")
    acc.hit("batched: velocity actuator force " + ("clamped" if abs(md.actuator_force[2]) >= mw.actuator_forcerange[2, 1] - 1e-9 else "inside range"))
    acc.hit("batched: ctrl " + ("saturated" if abs(md.ctrl[0]) > mw.actuator_ctrlrange[0, 1] else "inside range"))
    acc.hit("batched: integrator act " + ("at/over actrange" if abs(md.act[-1]) >= mw.actuator_actrange[5, 1] else "inside actrange"))
  acc.evals += 1
  acc.distinct.add(("batched", c, integ, nw, tuple(sorted(sizes.items())), ts_size))
  acc.hit("batched:" + integ)
  acc.hit(f"batched: nworld {nw}")
  for (a, b) in BATCH_PAIRS:
    acc.hit(f"batched: sizes {a}/{b} " + ("differ" if sizes[a] != sizes[b] else "equal"))
  acc.hit(f"batched: opt.timestep size {'1' if ts_size == 1 else 'nworld' if ts_size == nw else 'other'}")
  acc.sample({"batched": desc, "nworld": nw, "integrator": integ}, limit=6)


def _run(ctx, ncases, rec):
  import mujoco
  import warp as wp
  import mujoco_warp as mjw
  from mujoco_warp._src import derivative
  rng = np.random.default_rng(ctx.seed * 1000 + 27)
  acc = Acc()

  def state(mjm):
    mjd = mujoco.MjData(mjm)
    mjd.qpos[:] = rng.normal(size=mjm.nq) * 0.4
    for j in range(mjm.njnt):
      if mjm.jnt_type[j] == mujoco.mjtJoint.mjJNT_BALL:
        a = int(mjm.jnt_qposadr[j])
        mjd.qpos[a:a + 4] /= np.linalg.norm(mjd.qpos[a:a + 4]) or 1.0
    mjd.qvel[:] = rng.normal(size=mjm.nv)
    mjd.ctrl[:] = rng.normal(size=mjm.nu) * 2.0    # saturates the ctrl-limited actuator often
    mjd.act[:] = rng.normal(size=mjm.na) * 0.5
    mujoco.mj_forward(mjm, mjd)
    return mjd

  def scenario():
    for c in range(ncases):
      fl = str(rng.choice(["true", "false"]))
      # the full implicit integrator adds the Coriolis/centrifugal (RNE) term: -d(qfrc_bias)/d(qvel); every other case
      integ = "implicit" if c % 2 else "implicitfast"
      xml = XML.format(fl=fl).replace('integrator="implicitfast"', f'integrator="{integ}"')
      if integ == "implicit":
        # out-of-plane second hinge + a ball joint: non-planar chain with a rich Coriolis matrix
        xml = xml.replace('<joint name="h2" type="hinge" axis="0 1 0"', '<joint name="h2" type="hinge" axis="1 0 0.3"').replace(
          '<geom type="capsule" size=".03 .15"/></body></body>', '<geom type="capsule" size=".03 .15"/><body pos=".1 .2 0"><joint type="ball" damping="0.05"/><geom type="box" size=".05 .1 .02" pos=".1 0 .05"/></body></body></body>')
      mjm = mujoco.MjModel.from_xml_string(xml)
      mjd = state(mjm)
      _check_case(acc, mujoco, wp, mjw, derivative, mjm, mjd, integ, xml, "")
      acc.evals += 1
      acc.distinct.add((c, fl, integ))
      acc.hit(integ)
      acc.hit("ctrl-saturated" if abs(mjd.ctrl[0]) > 1 else "ctrl-inside")
      acc.sample({"forcelimited": fl, "ctrl": np.round(mjd.ctrl, 2).tolist()})
    # mixed models: both fluid models + joint/tendon damping (polynomial every third case) + actuators, both integrators, all four media in rotation
    for c in range(ncases):
      integ = "implicit" if c % 2 else "implicitfast"
      pat = FLUID_PATTERNS[(c // 2) % len(FLUID_PATTERNS)]
      rho, mu = MEDIA[(c + c // 2) % len(MEDIA)]
      poly = c % 3 == 0
      wind = " ".join(f"{x:.3f}" for x in rng.normal(size=3) * 1.5)
      xml = XML_MIX.format(integ=integ, rho=rho, mu=mu, wind=wind, jd="0.4 0.15 0.05" if poly else "0.4", td="0.3 0.2 0.1" if poly else "0.3",
                           f0=pat[0], f1=pat[1], f2=pat[2], f3=pat[3], f4=pat[4])
      mjm = mujoco.MjModel.from_xml_string(xml)
      mjd = state(mjm)
      m = _check_case(acc, mujoco, wp, mjw, derivative, mjm, mjd, integ, xml, "/".join(pat))
      nbox, nell = int(m.body_fluid_box_adr.size), int(m.body_fluid_ellipsoid_adr.size)
      acc.evals += 1
      acc.distinct.add(("mix", c, pat, integ, rho, mu))
      acc.hit("mix:" + integ)
      acc.hit("mix:fluid-models-mixed" if nbox and nell else ("mix:box-only" if nbox else "mix:ellipsoid-only"))
      acc.hit(f"mix:medium density={rho:g} viscosity={mu:g}")
      acc.hit("mix:polynomial-damping" if poly else "mix:linear-damping")
      acc.hit("mix:fluid-force-active" if np.abs(mjd.qfrc_fluid).max() > 1e-6 else "mix:fluid-force-zero")
      acc.sample({"fluidshape": pat, "integrator": integ, "density": rho, "viscosity": mu, "n_box_bodies": nbox, "n_ellipsoid_bodies": nell}, limit=5)
    # batched models: per-world Model fields with batch sizes that differ from each other (all six size patterns of every sibling pair in the quick tier)
    for c in range(len(BATCH_PATTERNS) if ncases <= 8 else ncases // 2):
      _check_batched(acc, mujoco, wp, mjw, derivative, rng, state, c)

  if rec:
    kc, _ = intercept(KERNELS, scenario, rng, max_tids=16, per_kernel=3)
  else:
    scenario()
    kc = None
  return acc, kc


RULE = ("two families, even cases implicitfast / odd cases full implicit. (A) arm + slider with joint and tendon damping and velocity-dependent actuators (affine velocity gain with a ctrl-limited control that is often "
        "saturated, position with kv, velocity with force limit, tendon actuator with filter dynamics; the implicit cases on a non-planar chain with a ball joint). (B) mixed models: 3-link chain (hinge, hinge, ball) + slider in "
        "a medium (water / thick air / viscosity only / density only in rotation, random wind) where the fluid model is chosen per body in rotation (4 patterns mixing ellipsoid-model and inertia-box bodies in ONE model, "
        "incl. a body with one ellipsoid and one plain geom; all-box and all-ellipsoid controls in the thorough tier), joint + tendon damping (polynomial every third case) and actuators on joints and tendon. Per case: "
        "(1) the matrix written by deriv_smooth_vel (M - h*qDeriv on M's sparsity pattern) entry by entry vs M - h*J with J from float64 central differences of MuJoCo's passive+actuator forces, vs MuJoCo's analytic qDeriv "
        "(left by mj_step; RNE part removed for the full implicit integrator), and vs float32 central differences of mjw's own forces (symmetrised for implicitfast); (2) one step vs a dense solve of (M - h J) dv = h f with "
        "J the central finite-difference velocity Jacobian of the real forces (incl. -d qfrc_bias/d qvel for implicit); (3) one step vs mujoco.mj_step; distinct = (family, case, pattern, integrator, medium). "
        "(C) batched models: 3 hinges + slider, fixed and spatial tendon, joint and tendon damping polynomial, six actuators (affine velocity gain with ctrl limit, position kv, force-limited velocity, tendon filter with "
        "affine bias, filterexact with actearly, act-limited integrator with actearly on the spatial tendon); nworld 3,2,4,3,5,2 in rotation, per-world states; put_model(batch_sizes=...) with per-row values; the batch "
        "sizes of each sibling pair (tendon_damping/tendon_dampingpoly, dof_damping/dof_dampingpoly, gainprm/biasprm, dynprm/actrange, forcerange/ctrlrange) run through (1,n) (n,1) (n-1,n) (n,n-1) (n,n) (1,n-1), "
        "shifted per pair, opt.timestep through n / 1 / n-1 (all patterns in every quick run). Per world w: the row of deriv_smooth_vel's output vs (a) the unbatched Model put_model(MjModel with world w's values), "
        "(b) M - h*qDeriv of MuJoCo for that MjModel (analytic and float64 finite differences), (c) float32 finite differences of the batched forces; one batched step vs mj_step per world")


def correspondence(ctx):
  from harness.corr import func_corr
  fc = func_corr.run(["util_misc._poly_force", "util_misc._poly_force_deriv", "util_misc.poly_potential"], ncases=96 if ctx.thorough else 32, seed=ctx.seed,
                     int_ranges={"util_misc._poly_force": (0, 1), "util_misc._poly_force_deriv": (0, 1), "util_misc.poly_potential": (0, 1)})
  acc, kc = _run(ctx, 24 if ctx.thorough else 8, True)
  return result(acc, RULE, kc=kc, fc=fc)


def search(ctx, breaks):
  acc, _ = _run(ctx, 60, False)
  return search_result(acc, "finite differences of the real forces + mujoco.mj_step")
