"""C27 Velocity derivatives are correct."""
from __future__ import annotations
import numpy as np
from .common import Acc, intercept, result, search_result

ID = "C27"
LEAN_MODULES = ["MjwVerif.Props.C27"]
GEN_FUNCS = ["util_misc._poly_force", "util_misc._poly_force_deriv", "util_misc.poly_potential", "derivative._qderiv_actuator_passive_vel", "derivative._qderiv_actuator_passive",
             "derivative._qderiv_tendon_damping", "forward._compute_damping_deriv"]
KERNELS = ["derivative._qderiv_actuator_passive_vel", "derivative._qderiv_actuator_passive", "derivative._qderiv_tendon_damping"]
LEVEL_TEXT = ("Theorems (Mathlib calculus, HasDerivAt) about functions/kernels regenerated from util_misc.py / derivative.py / forward.py on every run: _poly_force_deriv is the derivative of "
              "x * _poly_force(x) (the force passive.py forms) for all coefficients and all x incl. 0; damper/spring forces have derivative -_poly_force_deriv; poly_potential' = force; "
              "_compute_damping_deriv stores that value; _qderiv_actuator_passive_vel stores exactly bias_vel + gain_vel * u for affine actuators (u = clamped ctrl / act / next act), 0 when the "
              "force is clamped; exact write lists of _qderiv_actuator_passive and _qderiv_tendon_damping (J^T diag(B) J on the sparse pattern). The assembled qDeriv is compared with finite "
              "differences of the smooth force on the real code (sampled).")
LEVEL_NOTE = ("C27_partial: DC-motor branches, the RNE (Coriolis) derivative of the full implicit integrator and fluid derivatives are sampled only. The clamped-control defect found by the witness was "
              "repaired (fix: commit). Trusted: Lean kernel + Mathlib, translator.")
ASSUMPTIONS = ["finite differences with step 1e-3 in qvel, tolerance 2e-2 relative (float32)"]

XML = """
<mujoco>
  <option timestep="0.005" integrator="implicitfast"/>
  <worldbody>
    <body pos="0 0 1"><joint name="h1" type="hinge" axis="0 1 0" damping="0.4"/><geom type="capsule" size=".04 .2"/>
      <body pos=".4 0 0"><joint name="h2" type="hinge" axis="0 1 0" damping="0.2"/><geom type="capsule" size=".03 .15"/></body></body>
    <body pos="1 0 1"><joint name="sl" type="slide" axis="0 0 1" damping="0.5"/><geom size=".05"/></body>
  </worldbody>
  <tendon><fixed name="t1" damping="0.3"><joint joint="h1" coef="1"/><joint joint="h2" coef="-0.5"/></fixed></tendon>
  <actuator>
    <general joint="h1" gainprm="0 0 1.5" ctrllimited="true" ctrlrange="-1 1"/>
    <position joint="h2" kp="5" kv="0.7"/>
    <velocity joint="sl" kv="2" forcelimited="{fl}" forcerange="-0.5 0.5"/>
    <general tendon="t1" dyntype="filter" dynprm="0.05" gainprm="1 0 0.4" biasprm="0 0 -0.3"/>
  </actuator>
</mujoco>
"""


def _smooth_force(mjw, m, d, mjm, qvel):
  d.qvel.assign(qvel[None].astype(np.float32))
  mjw.forward(m, d)
  return (d.qfrc_passive.numpy()[0] + d.qfrc_actuator.numpy()[0] - d.qfrc_bias.numpy()[0]).astype(np.float64), d.qfrc_bias.numpy()[0].astype(np.float64)


def _run(ctx, ncases, rec):
  import mujoco
  import warp as wp
  import mujoco_warp as mjw
  from mujoco_warp._src import derivative
  rng = np.random.default_rng(ctx.seed * 1000 + 27)
  acc = Acc()

  def scenario():
    for c in range(ncases):
      fl = str(rng.choice(["true", "false"]))
      # the full implicit integrator adds the Coriolis/centrifugal (RNE) term: -d(qfrc_bias)/d(qvel); every other case
      integ = "implicit" if c % 2 else "implicitfast"
      xml = XML.format(fl=fl).replace('integrator="implicitfast"', f'integrator="{integ}"')
      if integ == "implicit":
        # out-of-plane second hinge + a ball joint: non-planar chain with a rich Coriolis matrix
        xml = xml.replace('<joint name="h2" type="hinge" axis="0 1 0"', '<joint name="h2" type="hinge" axis="1 0 0.3"').replace(
          '<geom type="capsule" size=".03 .15"/></body></body>', '<geom type="capsule" size=".03 .15"/><body pos=".1 .2 0"><joint type="ball" damping="0.05"/><geom type="box" size=".05 .1 .02" pos=".1 0 .05"/></body></body></body>')
      mjm = mujoco.MjModel.from_xml_string(xml)
      mjd = mujoco.MjData(mjm)
      mjd.qpos[:] = rng.normal(size=mjm.nq) * 0.4
      if mjm.nq > mjm.nv:
        mjd.qpos[-4:] /= np.linalg.norm(mjd.qpos[-4:]) or 1.0
      mjd.qvel[:] = rng.normal(size=mjm.nv)
      mjd.ctrl[:] = rng.normal(size=mjm.nu) * 2.0    # saturates the ctrl-limited actuator often
      mjd.act[:] = rng.normal(size=mjm.na) * 0.5
      mujoco.mj_forward(mjm, mjd)
      m = mjw.put_model(mjm)
      d = mjw.put_data(mjm, mjd, nworld=1)
      mjw.forward(m, d)
      # MuJoCo's analytic derivative of (passive + actuator) wrt velocity: qDeriv (without the RNE term for implicitfast)
      mujoco.mjd_smooth_vel(mjm, mjd, 0) if hasattr(mujoco, "mjd_smooth_vel") else None
      # finite differences on the real mjw forces (actuator + passive), velocity-only perturbation
      v0 = mjd.qvel.copy()
      eps = 1e-3
      J = np.zeros((mjm.nv, mjm.nv))
      for k in range(mjm.nv):
        vp, vm = v0.copy(), v0.copy()
        vp[k] += eps
        vm[k] -= eps
        d.qvel.assign(vp[None].astype(np.float32)); mjw.forward(m, d)
        fp = (d.qfrc_passive.numpy()[0] + d.qfrc_actuator.numpy()[0] - (d.qfrc_bias.numpy()[0] if integ == "implicit" else 0.0)).astype(np.float64)
        d.qvel.assign(vm[None].astype(np.float32)); mjw.forward(m, d)
        fm = (d.qfrc_passive.numpy()[0] + d.qfrc_actuator.numpy()[0] - (d.qfrc_bias.numpy()[0] if integ == "implicit" else 0.0)).astype(np.float64)
        J[:, k] = (fp - fm) / (2 * eps)
      d.qvel.assign(v0[None].astype(np.float32)); mjw.forward(m, d)
      # mjw's analytic: out = M - dt * qDeriv  (deriv_smooth_vel writes in M's sparse layout) -> compare through one implicitfast step instead:
      # (M - h*qDeriv) dv = h * f  =>  use the step itself against a dense solve with the FD Jacobian
      M = np.zeros((mjm.nv, mjm.nv))
      for k in range(mjm.nv):
        e = np.zeros(mjm.nv); e[k] = 1.0
        col = np.zeros(mjm.nv)
        mujoco.mj_mulM(mjm, mjd, col, e)
        M[:, k] = col
      h = mjm.opt.timestep
      f = (d.qfrc_smooth.numpy()[0]).astype(np.float64) if hasattr(d, "qfrc_smooth") else None
      d2 = mjw.put_data(mjm, mjd, nworld=1)
      mjw.step(m, d2)
      dv = d2.qvel.numpy()[0].astype(np.float64) - v0
      rhs = h * (d.qfrc_smooth.numpy()[0].astype(np.float64) + d.qfrc_constraint.numpy()[0].astype(np.float64))
      dv_fd = np.linalg.solve(M - h * J, rhs)
      acc.evals += 1
      acc.distinct.add((c, fl, integ))
      acc.hit(integ)
      scale = 1 + np.abs(dv_fd).max()
      if not np.allclose(dv, dv_fd, rtol=3e-2, atol=3e-3 * scale):
        acc.find(f"{integ} step differs from a dense solve with the finite-difference velocity Jacobian of passive+actuator{'-bias' if integ == 'implicit' else ''} forces (max |d dv| {np.abs(dv - dv_fd).max():.3g})",
                 "derivative.deriv_smooth_vel" if integ == "implicitfast" else "forward.implicit / derivative.deriv_rne_vel", "vs-finite-difference", xml=xml, qpos=mjd.qpos.tolist(), qvel=v0.tolist(), ctrl=mjd.ctrl.tolist(), act=mjd.act.tolist())
      # and against MuJoCo's own step
      ref = mujoco.MjData(mjm)
      ref.qpos[:], ref.qvel[:], ref.ctrl[:], ref.act[:] = mjd.qpos, mjd.qvel, mjd.ctrl, mjd.act
      mujoco.mj_step(mjm, ref)
      if not np.allclose(d2.qvel.numpy()[0], ref.qvel, rtol=2e-3, atol=2e-3 * (1 + np.abs(ref.qvel).max())):
        acc.find(f"{integ} step differs from mj_step (max |d qvel| {np.abs(d2.qvel.numpy()[0] - ref.qvel).max():.3g})", "derivative.deriv_smooth_vel", "vs-mujoco", xml=xml,
                 qpos=mjd.qpos.tolist(), qvel=v0.tolist(), ctrl=mjd.ctrl.tolist(), act=mjd.act.tolist())
      acc.hit("ctrl-saturated" if abs(mjd.ctrl[0]) > 1 else "ctrl-inside")
      acc.sample({"forcelimited": fl, "ctrl": np.round(mjd.ctrl, 2).tolist()})

  if rec:
    kc, _ = intercept(KERNELS, scenario, rng, max_tids=16, per_kernel=3)
  else:
    scenario()
    kc = None
  return acc, kc


RULE = ("arm + slider with joint and tendon damping and velocity-dependent actuators (affine velocity gain with a ctrl-limited control that is often saturated, position with kv, velocity with force "
        "limit, tendon actuator with filter dynamics); one implicitfast step (even cases) or one full implicit step on a non-planar chain with a ball joint (odd cases; J then includes -d qfrc_bias/d qvel) vs (a) a dense solve of (M - h J) dv = h f with J the central finite-difference velocity Jacobian of the real "
        "passive+actuator forces, (b) mujoco.mj_step; distinct = (case, forcelimited)")


def correspondence(ctx):
  from harness.corr import func_corr
  fc = func_corr.run(["util_misc._poly_force", "util_misc._poly_force_deriv", "util_misc.poly_potential"], ncases=96 if ctx.thorough else 32, seed=ctx.seed,
                     int_ranges={"util_misc._poly_force": (0, 1), "util_misc._poly_force_deriv": (0, 1), "util_misc.poly_potential": (0, 1)})
  acc, kc = _run(ctx, 24 if ctx.thorough else 8, True)
  return result(acc, RULE, kc=kc, fc=fc)


def search(ctx, breaks):
  acc, _ = _run(ctx, 60, False)
  return search_result(acc, "finite differences of the real forces + mujoco.mj_step")
