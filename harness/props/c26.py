"""C26 Forward and inverse dynamics are consistent."""
from __future__ import annotations
import re
import numpy as np
from .common import Acc, intercept, result, search_result

ID = "C26"
LEAN_MODULES = ["MjwVerif.Props.C26"]
GEN_FUNCS = ["inverse._qfrc_inverse", "inverse._qfrc_eulerdamp", "forward._qfrc_smooth__kernel", "forward._euler_damp_qfrc", "forward._compute_damping_deriv"]
KERNELS = ["inverse._qfrc_inverse", "inverse._qfrc_eulerdamp", "forward._qfrc_smooth__kernel", "forward._compute_damping_deriv"]
LEVEL_TEXT = ("Theorems: exact write lists of _qfrc_inverse (bias + M a - passive - constraint), _qfrc_smooth (passive - bias + actuator + applied, sleep mask), _update_gradient_grad, "
              "_qfrc_eulerdamp and _compute_damping_deriv (the SAME coefficient _poly_force_deriv(damping, dampingpoly, qvel, 1) in the step and in discrete_acc), regenerated from "
              "inverse.py/forward.py/solver.py on every run; per dof and in matrix form over the reals: qfrc_inverse - (applied + xfrc + actuator) equals the "
              "forward solver's gradient M a - qfrc_smooth - J^T f EXACTLY — so they agree iff the solver residual is zero and within its norm otherwise; the discrete-time maps "
              "a_c = M^-1 (M + hB) a_d and a_d = (M + hB)^-1 M a_c (Euler) / with M - h qDeriv (implicit-fast) are mutually inverse. On the real code (sampled, deterministic rotation of "
              "integrator x INVDISCRETE x EULERDAMP/DAMPER flags x linear/polynomial joint and tendon damping x velocity sign): forward()[+step()]+inverse() round trip, and inverse() "
              "at an arbitrary acceleration against mujoco.mj_inverse for continuous- AND discrete-time inverse dynamics.")
LEVEL_NOTE = ("Deviations documented in C26Witness: INVDISCRETE with DAMPER disabled (inherited from MuJoCo C; the oracle checks there that the real code equals mujoco.mj_inverse and does "
              "not claim the round trip), dofs of sleeping trees. discrete_acc raises NotImplementedError for implicit/RK4 (counted, not claimed). Trusted: Lean kernel + Mathlib, tier-B translator.")
ASSUMPTIONS = ["round-trip tolerance: constrained states 5e-3 x force magnitude (the property allows 'within the forward solver's residual'); unconstrained states 5e-4 x magnitude of the "
               "terms of the inverse-dynamics sum (float32), plus the float32 rounding of the differenced velocity (qvel' - qvel)/h propagated through |M|",
               "same-input comparison with mujoco.mj_inverse only for states without constraint rows (contact sets are C04's business)"]

EPS32 = float(np.finfo(np.float32).eps)

# Deterministic rotation (case c uses row c % 10; c // 10 = round varies the secondary choices).  Columns:
#   integrator, INVDISCRETE, disabled flag, damping kind, velocity-sign policy, floor (None = random)
# damping kinds: "linear" (one coefficient), "poly" (joint damping b0 b1 b2), "poly+tendon" (additionally a fixed tendon with
# polynomial damping / stiffness over the scalar joints: off-diagonal terms of qDeriv for implicit-fast)
_ROT = [
  ("Euler",        True,  "",          "poly",        "neg",   False),
  ("implicitfast", True,  "",          "poly+tendon", "neg",   False),
  ("Euler",        False, "",          "poly",        "rand",  None),
  ("Euler",        True,  "eulerdamp", "poly",        "mixed", None),
  ("implicitfast", False, "",          "linear",      "rand",  None),
  ("Euler",        True,  "",          "poly+tendon", "mixed", None),
  ("implicitfast", True,  "damper",    "poly+tendon", "neg",   None),
  ("Euler",        True,  "damper",    "poly",        "neg",   False),
  (None,           None,  "",          "linear",      "rand",  None),   # the earlier purely random draw
  ("other",        None,  "",          "poly",        "rand",  None),   # implicit / RK4 (discrete_acc: NotImplementedError)
]


def _damping_attr(rng, kind, scale=1.0):
  """damping attribute; coefficients are relative to `scale` (the joint-space inertia of the damped dofs) so that the implicit
  term h B is a visible fraction (up to ~0.5) of M whatever the masses are"""
  b0 = rng.uniform(0.5, 5.0) * scale
  if kind == "linear":
    return f'damping="{b0:.4g}"'
  # quadratic coefficient always non-zero (it is the term that distinguishes |v| from v), cubic one in half of the cases
  b1 = rng.uniform(3.0, 10.0) * scale
  b2 = rng.uniform(0.5, 2.0) * scale if rng.random() < 0.5 else 0.0
  return f'damping="{b0:.4g} {b1:.4g} {b2:.4g}"'


def _set_state(ref, mjd, qacc=None):
  ref.qpos[:], ref.qvel[:], ref.ctrl[:], ref.qfrc_applied[:] = mjd.qpos, mjd.qvel, mjd.ctrl, mjd.qfrc_applied
  ref.xfrc_applied[:] = mjd.xfrc_applied
  if qacc is not None:
    ref.qacc[:] = qacc


def _discrete_matrices(mujoco, mjm, mjd, integ, dis):
  """NumPy float64 transcription of what discrete_acc has to compute: the inverse of the integrator's velocity update.
  Returns (M, A) with A a_d = M a_c:

  Euler:         (M + h B) a_d = M a_c,  B_i = b0_i + 2 b1_i |v_i| + 3 b2_i v_i^2  (dof damping, odd force law b(|v|) v)
  implicit-fast: (M - h qDeriv) a_d = M a_c,  qDeriv = d(actuator + damper forces)/dv restricted to the sparsity pattern of M:
                 sum_act moment^T (gainprm[2] ctrl + biasprm[2]) moment  -  diag(B)  -  sum_tendon J^T B_t J
  (no damping terms when DAMPER is disabled; Euler with EULERDAMP or DAMPER disabled: a_c = a_d).  mjd holds mj_forward results."""
  nv, h = mjm.nv, mjm.opt.timestep
  M = np.zeros((nv, nv))
  mujoco.mj_fullM(mjm, mjd, M)
  v = mjd.qvel
  B = mjm.dof_damping + 2 * mjm.dof_dampingpoly[:, 0] * np.abs(v) + 3 * mjm.dof_dampingpoly[:, 1] * v * v
  if integ == "Euler":
    # euler() integrates damping implicitly iff neither EULERDAMP nor DAMPER is disabled
    return M, (M.copy() if dis in ("eulerdamp", "damper") else M + h * np.diag(B))
  assert integ == "implicitfast"
  Q = np.zeros((nv, nv))
  for a in range(mjm.nu):
    assert mjm.actuator_trntype[a] == mujoco.mjtTrn.mjTRN_JOINT and mjm.actuator_dyntype[a] == mujoco.mjtDyn.mjDYN_NONE
    mom = np.zeros(nv)
    mom[mjm.jnt_dofadr[mjm.actuator_trnid[a, 0]]] = mjm.actuator_gear[a, 0]
    coef = 0.0
    if mjm.actuator_gaintype[a] == mujoco.mjtGain.mjGAIN_AFFINE:
      coef += mjm.actuator_gainprm[a, 2] * mjd.ctrl[a]
    if mjm.actuator_biastype[a] == mujoco.mjtBias.mjBIAS_AFFINE:
      coef += mjm.actuator_biasprm[a, 2]
    Q += coef * np.outer(mom, mom)
  if dis != "damper":
    Q -= np.diag(B)
    for t in range(mjm.ntendon):
      J = np.zeros(nv)
      for w in range(mjm.tendon_adr[t], mjm.tendon_adr[t] + mjm.tendon_num[t]):
        assert mjm.wrap_type[w] == mujoco.mjtWrap.mjWRAP_JOINT
        J[mjm.jnt_dofadr[mjm.wrap_objid[w]]] += mjm.wrap_prm[w]
      vt = float(J @ v)
      Q -= (mjm.tendon_damping[t] + 2 * mjm.tendon_dampingpoly[t, 0] * abs(vt) + 3 * mjm.tendon_dampingpoly[t, 1] * vt * vt) * np.outer(J, J)
  # qDeriv lives on the sparsity pattern of M (dof i, dof j with one an ancestor of the other); other entries are dropped
  pat = np.eye(nv, dtype=bool)
  for i in range(nv):
    j = mjm.dof_parentid[i]
    while j >= 0:
      pat[i, j] = pat[j, i] = True
      j = mjm.dof_parentid[j]
  return M, M - h * np.where(pat, Q, 0.0)


def _evaluate(mujoco, mjw, acc, margin, mjm, mjd, m, caps, integ, disc, dis, label, replay, qacc_r, case_key):
  """the two checks on one (model, state): round trip forward()[+step()] -> inverse(), and inverse() at the acceleration qacc_r
  against the references.  mjd holds the state and mj_forward results; returns the mujoco_warp Data."""
  d = mjw.put_data(mjm, mjd, nworld=1, **caps)
  mjw.forward(m, d)
  # the documented deviation (C26Witness.discrete_guard_mismatch_model): euler() integrates damping implicitly iff neither
  # EULERDAMP nor DAMPER is disabled, discrete_acc (like MuJoCo C) tests EULERDAMP only -> no round-trip claim there
  guard_mismatch = disc and integ == "Euler" and dis == "damper" and bool((mjm.dof_damping != 0).any() or (mjm.dof_dampingpoly != 0).any())
  supported = True
  diff_tol = np.zeros(mjm.nv)
  Mfull = Adisc = None
  h = float(mjm.opt.timestep)
  if disc:
    # the acceleration the discrete step actually uses: take a step on a copy and difference the velocity
    d2 = mjw.put_data(mjm, mjd, nworld=1, **caps)
    mjw.step(m, d2)
    qvel1 = d2.qvel.numpy()[0].astype(np.float64)
    qacc_d = (qvel1 - mjd.qvel) / h
    d.qacc.assign(qacc_d[None].astype(np.float32))
    # float32 rounding of qvel' (and of qvel on upload) enters qacc_d divided by h, and the forces through |A|, A a_d = M a_c
    if integ in ("Euler", "implicitfast"):
      Mfull, Adisc = _discrete_matrices(mujoco, mjm, mjd, integ, dis)
      diff_tol = 4.0 * (np.abs(Adisc) @ (EPS32 * (np.abs(qvel1) + np.abs(mjd.qvel)) / h))
  try:
    mjw.inverse(m, d)
  except NotImplementedError:
    # discrete_acc supports Euler and implicit-fast only; an explicit refusal is outside the property's domain
    supported = False
    acc.hit(f"disc-unsupported-integrator:{integ}:NotImplementedError")
    if integ in ("Euler", "implicitfast"):
      acc.find(f"inverse() with INVDISCRETE raised NotImplementedError for the {integ} integrator", "inverse.discrete_acc", "fwdinv-discrete-raises", **replay)
  if supported and guard_mismatch:
    acc.hit("roundtrip-not-claimed:damper-disabled-euler-invdiscrete(documented)")
  elif supported:
    acc.evals += 1
    inv = d.qfrc_inverse.numpy()[0].astype(np.float64)
    # applied generalized force = qfrc_applied + J^T xfrc + actuator, computed by MuJoCo for the same inputs
    ref = mujoco.MjData(mjm)
    _set_state(ref, mjd)
    mujoco.mj_forward(mjm, ref)
    applied = ref.qfrc_applied.copy() + ref.qfrc_actuator
    for b in range(1, mjm.nbody):
      jp, jr = np.zeros((3, mjm.nv)), np.zeros((3, mjm.nv))
      mujoco.mj_jac(mjm, ref, jp, jr, ref.xipos[b], b)
      applied += jp.T @ ref.xfrc_applied[b, :3] + jr.T @ ref.xfrc_applied[b, 3:]
    nefc = int(d.nefc.numpy()[0]) if caps["njmax"] else 0
    fcon = np.abs(d.qfrc_constraint.numpy()[0]).max()
    bias, passive = np.abs(d.qfrc_bias.numpy()[0]).astype(np.float64), np.abs(d.qfrc_passive.numpy()[0]).astype(np.float64)
    glob = 1 + np.abs(applied).max() + bias.max() + passive.max() + np.abs(inv).max()
    if nefc > 0:
      tol = 5e-3 * (glob + fcon) + diff_tol
    else:
      # float32: 5e-4 x the terms of dof i's own sum + 2e-5 x the largest force in the system (RNE accumulates over the subtree)
      tol = 5e-4 * (np.abs(applied) + bias + passive + np.abs(inv)) + 2e-5 * glob + diff_tol
    acc.distinct.add(case_key)
    k = int(np.argmax(np.abs(inv - applied) / tol))
    err, tol = float(np.abs(inv - applied)[k]), float((tol + np.zeros(mjm.nv))[k])
    margin("roundtrip" + ("-disc" if disc else "") + ("-constrained" if nefc else ""), err, tol)
    if not err <= tol:
      acc.find(f"inverse() after forward() returns forces differing from applied+xfrc+actuator by {err:.3g} at dof {k} (tol {tol:.2g}; {label})",
               "inverse.inverse", "fwdinv-discrete" if disc else "fwdinv", **replay)
    acc.hit("roundtrip" + ("-disc" if disc else "") + ("-constrained" if nefc else "-unconstrained"))
  if supported:
    # inverse dynamics is a function of (qpos, qvel, qacc) for ANY acceleration, not only the one forward() produced.
    # Reference: mujoco.mj_inverse WITHOUT INVDISCRETE at the continuous-time acceleration; with INVDISCRETE the given qacc is
    # the discrete-time one and the continuous-time one is a_c = M^-1 (M + h B) a_d (Euler) / M^-1 (M - h qDeriv) a_d
    # (implicit-fast) with B, qDeriv transcribed in NumPy float64 from the model (_discrete_matrices).
    qacc_c = np.linalg.solve(Mfull, Adisc @ qacc_r) if disc else qacc_r  # (disc and supported => Euler or implicit-fast)
    ref2 = mujoco.MjData(mjm)
    _set_state(ref2, mjd, qacc_c)
    mjm.opt.enableflags &= ~int(mujoco.mjtEnableBit.mjENBL_INVDISCRETE)
    try:
      mujoco.mj_inverse(mjm, ref2)
    finally:
      if disc:
        mjm.opt.enableflags |= int(mujoco.mjtEnableBit.mjENBL_INVDISCRETE)
    if int(ref2.nefc) == 0:
      d.qacc.assign(qacc_r[None].astype(np.float32))
      mjw.inverse(m, d)
      acc.evals += 1
      inv2 = d.qfrc_inverse.numpy()[0].astype(np.float64)
      Ma = np.zeros(mjm.nv)
      mujoco.mj_mulM(mjm, ref2, Ma, qacc_c)
      loc = np.abs(ref2.qfrc_inverse) + np.abs(ref2.qfrc_bias) + np.abs(ref2.qfrc_passive) + np.abs(Ma)
      tol2v = 5e-4 * loc + 2e-5 * (1 + loc.max())
      kind = "arbitrary-qacc" + ("-disc" if disc else "")
      if not (disc and guard_mismatch):
        k = int(np.argmax(np.abs(inv2 - ref2.qfrc_inverse) / tol2v))
        err2, tol2 = float(np.abs(inv2 - ref2.qfrc_inverse)[k]), float(tol2v[k])
        margin(kind, err2, tol2)
        if not err2 <= tol2:
          acc.find(f"inverse() for an arbitrary qacc differs from mujoco.mj_inverse"
                   f"{' at the continuous-time acceleration M^-1 (M + h B) a_d resp. M^-1 (M - h qDeriv) a_d' if disc else ''} by {err2:.3g} (tol {tol2:.2g}; {label}, njmax={caps['njmax']})",
                   "inverse.inverse", "inverse-arbitrary-qacc-discrete" if disc else "inverse-arbitrary-qacc", qacc=qacc_r.tolist(), **replay)
        acc.hit(kind)
      if disc:
        # MuJoCo C's own discrete-time inverse (mj_discreteAcc) on the same input.  Decides for Euler (including the inherited
        # EULERDAMP-only guard when DAMPER is disabled); for implicit-fast MuJoCo 3.13 integrates free/ball bodies with a term
        # that mujoco_warp's implicit-fast does not have (C08's subject), so there it is only counted.
        ref3 = mujoco.MjData(mjm)
        _set_state(ref3, mjd, qacc_r)
        mujoco.mj_inverse(mjm, ref3)
        k = int(np.argmax(np.abs(inv2 - ref3.qfrc_inverse) / tol2v))
        err3, tol2 = float(np.abs(inv2 - ref3.qfrc_inverse)[k]), float(tol2v[k])
        if integ == "Euler":
          margin(kind + "-vs-mjC", err3, tol2)
          if not err3 <= tol2:
            acc.find(f"inverse() with INVDISCRETE for an arbitrary qacc differs from mujoco.mj_inverse (mj_discreteAcc) by {err3:.3g} (tol {tol2:.2g}; {label}, njmax={caps['njmax']})",
                     "inverse.discrete_acc", "inverse-arbitrary-qacc-discrete-vs-mjC", qacc=qacc_r.tolist(), **replay)
          acc.hit(kind + "-vs-mjC")
        else:
          acc.hit(f"{kind}-vs-mjC({integ}):" + ("agrees" if err3 <= tol2 else "differs(not claimed)"))
    else:
      acc.hit("arbitrary-qacc-constrained-skipped")
  return d


def _run(ctx, ncases, rec):
  import mujoco
  import mujoco_warp as mjw
  from harness.gen import models
  rng = np.random.default_rng(ctx.seed * 1000 + 26)
  acc = Acc()
  margins = {}

  def margin(kind, err, tol):
    margins[kind] = max(margins.get(kind, 0.0), float(err / tol))

  def scenario():
    for c in range(ncases):
      integ, disc, dis, damp, vsign, floor = _ROT[c % len(_ROT)]
      rnd = c // len(_ROT)
      if integ is None:
        integ = str(rng.choice(["Euler", "implicitfast"]))
      elif integ == "other":
        integ = ["implicit", "RK4"][rnd % 2]
      if disc is None:
        disc = bool(rng.random() < 0.5)
      if floor is None:
        floor = bool(rng.random() < 0.6)
      if vsign == "neg" and rnd % 3 == 2:
        vsign = "pos"  # control: for non-negative velocities the |v| / v distinction vanishes
      h = [0.01, 0.004, 0.02][(c + rnd) % 3]
      cone = ' cone="elliptic"' if rng.random() < 0.4 else ""
      wb, sp = models.random_tree(rng, nbody=int(rng.integers(2, 5)), geom_types=["sphere", "capsule", "box"], spread=0.35, sites=False, joint_types=("free", "hinge", "slide"))
      hj = [j for j, t in sp.joint_types.items() if t in ("hinge", "slide")]
      extra = f'<actuator><motor joint="{hj[0]}"/><position joint="{hj[0]}" kp="3" kv="0.2"/></actuator>' if hj else ""
      if damp == "poly+tendon" and hj:
        coefs = "".join(f'<joint joint="{j}" coef="{rng.uniform(0.4, 1.5) * (1 if rng.random() < 0.5 else -1):.3g}"/>' for j in hj[:3])
        extra += f'\n<tendon><fixed name="t0" @D:{"+".join(hj[:3])}@ stiffness="{rng.uniform(0.5, 2):.3g} {rng.uniform(-0.5, 0.5):.3g} {rng.uniform(0, 0.5):.3g}">{coefs}</fixed></tendon>'
      flags = ('invdiscrete="enable" ' if disc else "") + (f'{dis}="disable"' if dis else "")
      flag = f'<option><flag {flags}/></option>\n  ' if flags else ""
      xml = models.wrap(wb, option=f'timestep="{h}" integrator="{integ}" iterations="100" tolerance="1e-12"' + cone, extra=extra, floor=floor)
      xml = xml.replace("<option ", flag + "<option ", 1)
      # springs and dampers: every hinge/slide joint gets (linear or polynomial) damping, hinges a (polynomial) spring, every free
      # joint damping (polynomial kinds).  @D:<joints>@ marks a damping attribute, filled in below relative to the joints' inertia.
      stiff = (lambda: f'stiffness="1 {rng.uniform(-0.5, 0.5):.3g} {rng.uniform(0, 0.4):.3g}"') if damp != "linear" else (lambda: 'stiffness="1"')
      xml = re.sub(r'<joint name="([^"]*)" type="(hinge|slide)"', lambda mo: f'{mo.group(0)} @D:{mo.group(1)}@ {stiff() if mo.group(2) == "hinge" else ""}', xml)
      if damp != "linear":
        xml = re.sub(r'<freejoint name="([^"]*)"/>', lambda mo: f'<joint name="{mo.group(1)}" type="free" @D:{mo.group(1)}@/>', xml)
      try:
        mjm0 = mujoco.MjModel.from_xml_string(re.sub(r"@D:[^@]*@", "", xml))
      except ValueError:
        acc.hit("xml-rejected-by-mujoco")
        continue

      def fill(mo):
        # scale = smallest joint-space inertia (dof_M0) among the dofs of the named joints
        m0 = []
        for jn in mo.group(1).split("+"):
          j = mujoco.mj_name2id(mjm0, mujoco.mjtObj.mjOBJ_JOINT, jn)
          a0 = mjm0.jnt_dofadr[j]
          m0 += list(mjm0.dof_M0[a0:a0 + {0: 6, 1: 3, 2: 1, 3: 1}[int(mjm0.jnt_type[j])]])
        return _damping_attr(rng, "poly" if "+" in mo.group(1) else damp, float(min(m0)))

      xml = re.sub(r"@D:([^@]*)@", fill, xml)
      try:
        mjm = mujoco.MjModel.from_xml_string(xml)
      except ValueError:
        acc.hit("xml-rejected-by-mujoco")
        continue
      mjd = mujoco.MjData(mjm)
      models.random_state(rng, mjm, mjd, qpos_scale=0.2, qvel_scale=1.0, unnormalized=False)
      for j in range(mjm.njnt):
        if mjm.jnt_type[j] == 0:
          mjd.qpos[mjm.jnt_qposadr[j] + 2] = rng.uniform(0.05, 0.5)
      # velocity-sign policy on the dofs (the damping force law is odd in v: b(|v|) v)
      polydof = [i for i in range(mjm.nv) if mjm.dof_dampingpoly[i, 0] != 0]
      if vsign == "neg":
        mjd.qvel[:] = -np.abs(mjd.qvel) - 0.1
      elif vsign == "pos":
        mjd.qvel[:] = np.abs(mjd.qvel) + 0.1
      elif vsign == "mixed" and polydof:
        k = int(rng.integers(len(polydof)))
        mjd.qvel[polydof[k]] = -abs(mjd.qvel[polydof[k]]) - 0.3
        if len(polydof) > 1:
          k2 = (k + 1) % len(polydof)
          mjd.qvel[polydof[k2]] = abs(mjd.qvel[polydof[k2]]) + 0.3
      mjd.ctrl[:] = rng.normal(size=mjm.nu)
      mjd.qfrc_applied[:] = rng.normal(size=mjm.nv) * 0.5
      mjd.xfrc_applied[1:, :3] = rng.normal(size=(mjm.nbody - 1, 3)) * 0.3
      mujoco.mj_forward(mjm, mjd)
      try:
        m = mjw.put_model(mjm)
      except Exception as e:
        acc.hit("rejected:" + type(e).__name__)
        continue
      # capacities are part of the input space: a model without constraints may be given njmax = 0 (the constraint stage and the
      # solver context are then skipped altogether)
      caps = dict(naconmax=150, njmax=300)
      if int(mjd.nefc) == 0 and int(mjd.ncon) == 0 and rng.random() < 0.7:
        caps = dict(naconmax=0, njmax=0)
      acc.hit("njmax=0" if caps["njmax"] == 0 else "njmax>0")
      # which features are really active in this case (vacuity is visible in the hit table)
      damper_on = dis != "damper"
      if polydof and damper_on:
        acc.hit("active:dof-dampingpoly")
        if (mjd.qvel[polydof] < 0).any():
          acc.hit("active:dof-dampingpoly,qvel<0")
      if mjm.ntendon and damper_on and (mjm.tendon_dampingpoly[:, 0] != 0).any():
        acc.hit("active:tendon-dampingpoly" + (",ten_velocity<0" if (mjd.ten_velocity < 0).any() else ""))
      if (mjm.jnt_stiffnesspoly != 0).any():
        acc.hit("active:jnt-stiffnesspoly")
      if dis:
        acc.hit(f"flag:{dis}-disabled")
      acc.hit(f"timestep={h}")
      label = f"{integ}, invdiscrete={disc}{cone}" + (f", {dis} disabled" if dis else "") + f", damping {damp}, qvel {vsign}, h={h}"
      replay = dict(xml=xml, qpos=mjd.qpos.tolist(), qvel=mjd.qvel.tolist(), ctrl=mjd.ctrl.tolist(), qfrc_applied=mjd.qfrc_applied.tolist(),
                    xfrc_applied=mjd.xfrc_applied.tolist(), njmax=caps["njmax"])
      qacc_r = rng.normal(size=mjm.nv) * 3.0
      d = _evaluate(mujoco, mjw, acc, margin, mjm, mjd, m, caps, integ, disc, dis, label, replay, qacc_r, (c, integ, disc, cone, dis, damp, vsign))
      acc.hit(f"{integ}{'-disc' if disc else ''}")
      acc.sample({"integrator": integ, "invdiscrete": disc, "cone": cone.strip(), "disabled": dis, "damping": damp, "qvel": vsign, "timestep": h,
                  "nefc": int(d.nefc.numpy()[0])})

  if rec:
    kc, _ = intercept(KERNELS, scenario, rng, max_tids=16, per_kernel=3)
  else:
    scenario()
    kc = None
  return acc, kc, margins


RULE = ("random trees with actuators, applied generalized and Cartesian forces, with and without floor contacts, both cones, time steps 0.004/0.01/0.02; a 10-row deterministic rotation over "
        "integrator (Euler, implicitfast; implicit/RK4 for continuous-time and to see discrete_acc refuse them) x INVDISCRETE x disabled flag (none, EULERDAMP, DAMPER) x damping kind (linear; polynomial "
        "joint damping b0 b1 b2 with b1 != 0 on hinge/slide/free joints and polynomial springs; additionally a fixed tendon with polynomial damping/stiffness) x velocity-sign policy (all negative, "
        "mixed with one polynomially damped dof forced negative and one positive, random, all positive as control) — hits 'active:*' count the cases where the feature is really active; "
        "(1) forward() then inverse() (for INVDISCRETE on the acceleration (qvel' - qvel)/h that step() actually produced); qfrc_inverse vs qfrc_applied + J^T xfrc_applied + qfrc_actuator "
        "(MuJoCo's values) — not claimed for Euler+INVDISCRETE with DAMPER disabled (documented deviation); (2) for states without constraint rows inverse() at a random qacc vs mujoco.mj_inverse, "
        "continuous- and discrete-time; zero capacities (njmax = naconmax = 0) for unconstrained models; 'margins' = worst observed error / tolerance per check; distinct = case tuples")


def correspondence(ctx):
  acc, kc, margins = _run(ctx, 40 if ctx.thorough else 10, True)
  return result(acc, RULE, kc=kc, extra={"margins": margins})


def search(ctx, breaks):
  acc, _, margins = _run(ctx, 100, False)
  out = search_result(acc, "applied + Cartesian-applied + actuator forces vs inverse() output (round trip); mujoco.mj_inverse at an arbitrary acceleration, continuous- and discrete-time")
  out["margins"] = margins
  return out


def replay(payload):
  """re-runs a recorded witness (xml + state [+ qacc]) on the real code; True iff it passes now"""
  import mujoco
  import mujoco_warp as mjw
  mjm = mujoco.MjModel.from_xml_string(payload["xml"])
  mjd = mujoco.MjData(mjm)
  mjd.qpos[:], mjd.qvel[:], mjd.ctrl[:] = payload["qpos"], payload["qvel"], payload["ctrl"]
  if "qfrc_applied" in payload:
    mjd.qfrc_applied[:] = payload["qfrc_applied"]
    mjd.xfrc_applied[:] = np.array(payload["xfrc_applied"])
  mujoco.mj_forward(mjm, mjd)
  integ = {0: "Euler", 1: "RK4", 2: "implicit", 3: "implicitfast"}[int(mjm.opt.integrator)]
  disc = bool(mjm.opt.enableflags & int(mujoco.mjtEnableBit.mjENBL_INVDISCRETE))
  dis = "damper" if mjm.opt.disableflags & int(mujoco.mjtDisableBit.mjDSBL_DAMPER) else (
    "eulerdamp" if mjm.opt.disableflags & int(mujoco.mjtDisableBit.mjDSBL_EULERDAMP) else "")
  njmax = int(payload.get("njmax", 300))
  caps = dict(naconmax=150 if njmax else 0, njmax=njmax)
  acc = Acc()
  qacc_r = np.array(payload["qacc"]) if "qacc" in payload else np.random.default_rng(0).normal(size=mjm.nv) * 3.0
  _evaluate(mujoco, mjw, acc, lambda *a: None, mjm, mjd, mjw.put_model(mjm), caps, integ, disc, dis, "replay", {}, qacc_r, ("replay",))
  for f in acc.findings:
    print("replay:", f["trigger_id"], f["what"])
  return not acc.findings
