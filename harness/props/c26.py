"""C26 Forward and inverse dynamics are consistent."""
from __future__ import annotations
import numpy as np
from .common import Acc, intercept, result, search_result

ID = "C26"
LEAN_MODULES = ["MjwVerif.Props.C26"]
GEN_FUNCS = ["inverse._qfrc_inverse", "inverse._qfrc_eulerdamp", "forward._qfrc_smooth__kernel", "forward._euler_damp_qfrc"]
KERNELS = ["inverse._qfrc_inverse", "inverse._qfrc_eulerdamp", "forward._qfrc_smooth__kernel"]
LEVEL_TEXT = ("Theorems: exact write lists of _qfrc_inverse (bias + M a - passive - constraint), _qfrc_smooth (passive - bias + actuator + applied, sleep mask), _update_gradient_grad, "
              "_qfrc_eulerdamp, regenerated from inverse.py/forward.py/solver.py on every run; per dof and in matrix form over the reals: qfrc_inverse - (applied + xfrc + actuator) equals the "
              "forward solver's gradient M a - qfrc_smooth - J^T f EXACTLY — so they agree iff the solver residual is zero and within its norm otherwise; the discrete-time maps "
              "a_c = M^-1 (M + hB) a_d and a_d = (M + hB)^-1 M a_c (Euler) / with M - h qDeriv (implicit-fast) are mutually inverse. forward()+inverse() on the real code are compared (sampled).")
LEVEL_NOTE = ("Deviations documented in C26Witness: INVDISCRETE with DAMPER disabled (inherited from MuJoCo C), dofs of sleeping trees. Trusted: Lean kernel + Mathlib, tier-B translator.")
ASSUMPTIONS = ["tolerance = 50x the solver tolerance scaled by force magnitude (the property allows 'within the forward solver's residual')"]


def _run(ctx, ncases, rec):
  import mujoco
  import mujoco_warp as mjw
  from harness.gen import models
  rng = np.random.default_rng(ctx.seed * 1000 + 26)
  acc = Acc()

  def scenario():
    for c in range(ncases):
      integ = str(rng.choice(["Euler", "implicitfast"]))
      disc = rng.random() < 0.5
      cone = ' cone="elliptic"' if rng.random() < 0.4 else ""
      wb, sp = models.random_tree(rng, nbody=int(rng.integers(2, 5)), geom_types=["sphere", "capsule", "box"], spread=0.35, sites=False, joint_types=("free", "hinge", "slide"))
      hj = [j for j, t in sp.joint_types.items() if t in ("hinge", "slide")]
      extra = f'<actuator><motor joint="{hj[0]}"/><position joint="{hj[0]}" kp="3" kv="0.2"/></actuator>' if hj else ""
      flag = '<option><flag invdiscrete="enable"/></option>\n  ' if disc else ""
      xml = models.wrap(wb, option=f'timestep="0.004" integrator="{integ}" iterations="100" tolerance="1e-12"' + cone, extra=extra, floor=rng.random() < 0.6)
      xml = xml.replace("<option ", flag + "<option ", 1).replace('type="hinge"', 'type="hinge" damping="0.3" stiffness="1"')
      try:
        mjm = mujoco.MjModel.from_xml_string(xml)
      except ValueError:
        continue
      mjd = mujoco.MjData(mjm)
      models.random_state(rng, mjm, mjd, qpos_scale=0.2, qvel_scale=1.0, unnormalized=False)
      for j in range(mjm.njnt):
        if mjm.jnt_type[j] == 0:
          mjd.qpos[mjm.jnt_qposadr[j] + 2] = rng.uniform(0.05, 0.5)
      mjd.ctrl[:] = rng.normal(size=mjm.nu)
      mjd.qfrc_applied[:] = rng.normal(size=mjm.nv) * 0.5
      mjd.xfrc_applied[1:, :3] = rng.normal(size=(mjm.nbody - 1, 3)) * 0.3
      mujoco.mj_forward(mjm, mjd)
      try:
        m = mjw.put_model(mjm)
      except Exception as e:
        acc.hit("rejected:" + type(e).__name__)
        continue
      # capacities are part of the input space: a model without constraints may be given njmax = 0 (the constraint stage and the
      # solver context are then skipped altogether)
      caps = dict(naconmax=150, njmax=300)
      if int(mjd.nefc) == 0 and int(mjd.ncon) == 0 and rng.random() < 0.7:
        caps = dict(naconmax=0, njmax=0)
      acc.hit("njmax=0" if caps["njmax"] == 0 else "njmax>0")
      d = mjw.put_data(mjm, mjd, nworld=1, **caps)
      mjw.forward(m, d)
      if disc:
        # the acceleration the discrete step actually uses: take a step on a copy and difference the velocity
        d2 = mjw.put_data(mjm, mjd, nworld=1, **caps)
        mjw.step(m, d2)
        qacc_d = (d2.qvel.numpy()[0] - mjd.qvel) / mjm.opt.timestep
        d.qacc.assign(qacc_d[None].astype(np.float32))
      mjw.inverse(m, d)
      acc.evals += 1
      inv = d.qfrc_inverse.numpy()[0].astype(np.float64)
      # applied generalized force = qfrc_applied + J^T xfrc + actuator, computed by MuJoCo for the same inputs
      ref = mujoco.MjData(mjm)
      ref.qpos[:], ref.qvel[:], ref.ctrl[:], ref.qfrc_applied[:] = mjd.qpos, mjd.qvel, mjd.ctrl, mjd.qfrc_applied
      ref.xfrc_applied[:] = mjd.xfrc_applied
      mujoco.mj_forward(mjm, ref)
      applied = ref.qfrc_applied.copy() + ref.qfrc_actuator
      for b in range(1, mjm.nbody):
        jp, jr = np.zeros((3, mjm.nv)), np.zeros((3, mjm.nv))
        mujoco.mj_jac(mjm, ref, jp, jr, ref.xipos[b], b)
        applied += jp.T @ ref.xfrc_applied[b, :3] + jr.T @ ref.xfrc_applied[b, 3:]
      tol = 5e-3 * (1 + np.abs(applied).max() + np.abs(d.qfrc_constraint.numpy()[0]).max())
      acc.distinct.add((c, integ, disc, cone))
      if not np.allclose(inv, applied, atol=tol):
        acc.find(f"inverse() after forward() returns forces differing from applied+xfrc+actuator by {np.abs(inv - applied).max():.3g} (tol {tol:.2g}; {integ}, invdiscrete={disc}{cone})",
                 "inverse.inverse", "fwdinv-discrete" if disc else "fwdinv", xml=xml, qpos=mjd.qpos.tolist(), qvel=mjd.qvel.tolist(), ctrl=mjd.ctrl.tolist())
      if not disc:
        # inverse dynamics is a function of (qpos, qvel, qacc) for ANY acceleration, not only the one forward() produced
        qacc_r = rng.normal(size=mjm.nv) * 3.0
        ref2 = mujoco.MjData(mjm)
        ref2.qpos[:], ref2.qvel[:], ref2.ctrl[:], ref2.qfrc_applied[:] = mjd.qpos, mjd.qvel, mjd.ctrl, mjd.qfrc_applied
        ref2.xfrc_applied[:] = mjd.xfrc_applied
        ref2.qacc[:] = qacc_r
        mujoco.mj_inverse(mjm, ref2)
        d.qacc.assign(qacc_r[None].astype(np.float32))
        mjw.inverse(m, d)
        acc.evals += 1
        inv2 = d.qfrc_inverse.numpy()[0].astype(np.float64)
        tol2 = 5e-3 * (1 + np.abs(ref2.qfrc_inverse).max())
        if int(ref2.nefc) == 0 and not np.allclose(inv2, ref2.qfrc_inverse, atol=tol2):
          acc.find(f"inverse() for an arbitrary qacc differs from mujoco.mj_inverse by {np.abs(inv2 - ref2.qfrc_inverse).max():.3g} (tol {tol2:.2g}; {integ}, njmax={caps['njmax']})",
                   "inverse.inverse", "inverse-arbitrary-qacc", xml=xml, qpos=mjd.qpos.tolist(), qvel=mjd.qvel.tolist(), qacc=qacc_r.tolist(), njmax=caps["njmax"])
        acc.hit("arbitrary-qacc" + ("" if int(ref2.nefc) == 0 else "-constrained-skipped"))
      acc.hit(f"{integ}{'-disc' if disc else ''}")
      acc.sample({"integrator": integ, "invdiscrete": disc, "cone": cone.strip(), "nefc": int(d.nefc.numpy()[0])})

  if rec:
    kc, _ = intercept(KERNELS, scenario, rng, max_tids=16, per_kernel=3)
  else:
    scenario()
    kc = None
  return acc, kc


RULE = ("random trees with actuators, springs/dampers, applied generalized and Cartesian forces, with and without floor contacts, both cones, Euler/implicitfast, INVDISCRETE on/off; forward() then "
        "inverse() (for INVDISCRETE on the acceleration the step actually produced); qfrc_inverse vs qfrc_applied + J^T xfrc_applied + qfrc_actuator (MuJoCo's values); for unconstrained states additionally inverse() at a random qacc vs mujoco.mj_inverse; zero capacities (njmax = naconmax = 0) for unconstrained models; distinct = case tuples")


def correspondence(ctx):
  acc, kc = _run(ctx, 40 if ctx.thorough else 10, True)
  return result(acc, RULE, kc=kc)


def search(ctx, breaks):
  acc, _ = _run(ctx, 100, False)
  return search_result(acc, "applied + Cartesian-applied + actuator forces vs inverse() output")
