"""C21 Inertia factorization solves the inertia system."""
from __future__ import annotations
import numpy as np
from .common import Acc, intercept, result, search_result

ID = "C21"
LEAN_MODULES = ["MjwVerif.Props.C21"]
GEN_FUNCS = ["smooth._qLD_acc", "smooth._qLDiag_div", "smooth._small_cholesky_solve", "support.mul_m_kernel___mul_m", "smooth._M", "smooth._tendon_armature"]
KERNELS = ["smooth._qLD_acc", "smooth._qLDiag_div", "support.mul_m_kernel___mul_m", "smooth._M", "smooth._tendon_armature", "smooth._crb_accumulate"]
LEVEL_TEXT = ("Theorems over the reals, for ALL sizes and ALL kinematic forests (abstracted as a depth function with `l[k,i] != 0 -> depth i < depth k` and, for the factorisation, the chain "
              "property of ancestors): the level-parallel sparse L^T D L elimination (Model/LDL.lean `factorLevel`; its elementary update is proved to be exactly what the regenerated `_qLD_acc` / "
              "`_qLDiag_div` tasks write) returns L, D with M = L^T D L whenever all pivots are non-zero; the three-phase level-parallel back-substitution (`solve`, the schedule of "
              "`_solve_LD_sparse_fused`) returns x with M x = b, hence factor-then-solve gives M x = b; M = L^T D L with positive D is positive definite; the regenerated scalar Cholesky "
              "back-substitution `_small_cholesky_solve` solves U^T U x = y for block sizes 2 and 3; the regenerated `mul_m` gather kernel stores the row sum over its index lists; every cell a "
              "regenerated `_M` / `_tendon_armature` task writes lies in the CSR row of its own dof (all models; so tasks of one launch write disjoint cells). On the real code: d.M vs MuJoCo's M, eigenvalues, "
              "float64 residuals of solve_m / factor_solve_i / factor_solve_lu against the stored matrix, reconstruction of M from every stored factor block, mul_m, qLD vs MuJoCo's qLD, "
              "for every layout m_block_layout produces (compact, scalar, tile, sparse), sizes 1..>64 including 6/7/64/65, nworld > 1.")
TECHNIQUE = ('Lean 4 theorems over a hand-written model of sparse L^T D L factor/solve (Model/LDL.lean) refined by kernels regenerated from source (_qLD_acc, _qLDiag_div, mul_m, _M); fused/tile kernels compared by replay; oracle: float64 residuals vs mujoco.mj_fullM')
LEVEL_NOTE = ("C21_partial: the fused solve kernel, the scalar/tile Cholesky factorisation kernels and the sparse LU kernel are nested closures that are not in Gen (listed as missing); the "
              "level-parallel model of the fused solve is hand-written (Model/LDL.lean) and tied to the code by the Python replay of the same elementary updates against the real solve_m in this "
              "module; dense (scalar for general size, tile) and LU paths are covered by the oracle only. Pivots != 0 is a hypothesis (that SPD implies positive pivots is not proved); positive "
              "definiteness of the CRB matrix itself is sampled (eigenvalues). Launch = net effect of its tasks is argued, not derived. History: this check found (kernel interception of `_M` on "
              "models with compact blocks; d.M vs MuJoCo with tendon armature over two aligned slides) that `_M` / `_tendon_armature` left the one-cell CSR row of MuJoCo's simple dofs; repaired in "
              "/repo commit 'fix: _M and _tendon_armature walked past the row of a simple dof (tendon armature landed on another dof's diagonal)'; the trigger model is kept as a regression case "
              "that runs first. Trusted: Lean kernel + Mathlib, translator.")
ASSUMPTIONS = ["backward-error tolerances: residual <= 64 n eps32 |M| |x| (Higham Thm 10.4 constant for Cholesky/LDL of an SPD matrix is ~ 4n(3n+1) eps in the worst case, ~n eps in practice)",
               "d.M vs MuJoCo: 5e-5 relative to max|M| (float32 CRB vs float64)"]

EPS = float(np.finfo(np.float32).eps)


def _gen_tree(rng, ndof, branching, armature, free_root, damping=False):
  """kinematic tree with exactly `ndof` dofs: hinge/slide/ball joints (free root optional); returns body xml"""
  left = ndof
  bodies = []      # (parent index, joints xml)
  first = True
  while left > 0:
    jts = []
    if first and free_root and left >= 6:
      jts.append("<freejoint/>")
      left -= 6
    else:
      nj = int(rng.integers(1, 3))
      for _ in range(nj):
        if left <= 0:
          break
        r = rng.random()
        arm = f' armature="{rng.uniform(0.01, 0.5):.4f}"' if (armature and rng.random() < 0.7) else ""
        dmp = f' damping="{rng.uniform(0.05, 2.0):.4f}"' if (damping and rng.random() < 0.7) else ""
        if r < 0.2 and left >= 3 and not jts:
          jts.append(f'<joint type="ball"{arm}{dmp} pos="{rng.uniform(-.05, .05):.3f} 0 0"/>')
          left -= 3
          break
        ax = rng.normal(size=3)
        ax /= np.linalg.norm(ax)
        t = "hinge" if r < 0.75 else "slide"
        jts.append(f'<joint type="{t}" axis="{ax[0]:.4f} {ax[1]:.4f} {ax[2]:.4f}"{arm}{dmp}/>')
        left -= 1
    if first:
      p = -1
    elif rng.random() < branching:
      p = int(rng.integers(0, len(bodies)))
    else:
      p = len(bodies) - 1
    bodies.append((p, jts))
    first = False
  children = {i: [] for i in range(-1, len(bodies))}
  for i, (p, _) in enumerate(bodies):
    children[p].append(i)

  def emit(i):
    pos = rng.uniform(-0.25, 0.25, size=3)
    q = rng.normal(size=4)
    q /= np.linalg.norm(q)
    out = [f'<body pos="{pos[0]:.3f} {pos[1]:.3f} {pos[2]:.3f}" quat="{q[0]:.4f} {q[1]:.4f} {q[2]:.4f} {q[3]:.4f}">']
    out += bodies[i][1]
    sz = rng.uniform(0.03, 0.12, size=3)
    gp = rng.uniform(-0.1, 0.1, size=3)
    out.append(f'<geom type="box" size="{sz[0]:.3f} {sz[1]:.3f} {sz[2]:.3f}" pos="{gp[0]:.3f} {gp[1]:.3f} {gp[2]:.3f}" density="{rng.uniform(300, 3000):.0f}"/>')
    for c in children[i]:
      out += emit(c)
    out.append("</body>")
    return out
  # emission is depth-first, so dof order follows MuJoCo's body order (parent before child); only the count matters here
  return "\n".join(emit(0))


def _gen_model(rng, sizes, jac, integrator="Euler", damping=False):
  trees = []
  for n in sizes:
    kind = rng.random()
    if kind < 0.15 and n == 6:
      trees.append('<body pos="0 0 1"><freejoint/><geom size=".1"/></body>')                  # simple free body -> compact
    elif kind < 0.3 and n <= 3:
      ax = ["1 0 0", "0 1 0", "0 0 1"][:n]
      trees.append('<body pos="0 0 1">' + "".join(f'<joint type="slide" axis="{a}"/>' for a in ax) + '<geom size=".1"/></body>')   # aligned slides -> compact
    else:
      trees.append(_gen_tree(rng, n, branching=float(rng.choice([0.0, 0.0, 0.3, 0.7])), armature=rng.random() < 0.6, free_root=rng.random() < 0.5, damping=damping))
  return f"""<mujoco>
  <compiler angle="radian"/>
  <option jacobian="{jac}" integrator="{integrator}" timestep="0.002"><flag contact="disable"/></option>
  <worldbody>
{chr(10).join(trees)}
  </worldbody>
</mujoco>"""


def _dense(mujoco, mjm, Mcsr):
  out = np.zeros((mjm.nv, mjm.nv))
  mujoco.mju_sym2dense(out, np.ascontiguousarray(Mcsr, dtype=np.float64), mjm.M_rownnz, mjm.M_rowadr, mjm.M_colind)
  return out


def _layout_name(mjm, lay, start, size):
  adr = int(lay["dof_adr"][start])
  if adr == -2:
    return "compact"
  if adr == -1:
    return "sparse"
  if start in lay["scalar_tiles"].get(size, []):
    return "scalar"
  return "tile"


def _replay_sparse_solve(mjm, lay, Lreg, Dinv, y):
  """the elementary updates of Model/LDL.lean `solve` (= `_solve_LD_sparse_fused`) in float64, level by level, on the factor the real code stored"""
  x = y.astype(np.float64).copy()
  depth = np.zeros(mjm.nv, dtype=int) - 1
  ups = {}
  for k in range(mjm.nv):
    if mjm.M_rownnz[k] == 1:
      continue
    depth[k] = depth[mjm.dof_parentid[k]] + 1
    if lay["dof_adr"][k] != -1:
      continue
    i = mjm.dof_parentid[k]
    adr = mjm.M_rowadr[k] + mjm.M_rownnz[k] - 2
    while i > -1:
      ups.setdefault(int(depth[i]), []).append((int(i), k, int(adr)))
      i = mjm.dof_parentid[i]
      adr -= 1
  levels = sorted(ups)
  for l in reversed(levels):
    xn = x.copy()
    for i, k, a in ups[l]:
      xn[i] -= Lreg[a] * x[k]
    x = xn
  sp = lay["dof_adr"] == -1
  x[sp] *= Dinv[sp]
  for l in levels:
    xn = x.copy()
    for i, k, a in ups[l]:
      xn[k] -= Lreg[a] * x[i]
    x = xn
  return x, sp


def _check_model(ctx, acc, rng, xml, tag):
  import mujoco
  import warp as wp
  import mujoco_warp as mjw
  from mujoco_warp._src import io, smooth, support
  try:
    mjm = mujoco.MjModel.from_xml_string(xml)
  except ValueError:
    acc.hit("mujoco-rejected")
    return
  nv = mjm.nv
  lay = io.m_block_layout(mjm)
  blocks = io._m_blocks(mjm)
  try:
    m = mjw.put_model(mjm)
  except Exception as e:    # noqa: BLE001 - features put_model rejects are outside the domain
    acc.hit(f"put_model-rejected:{type(e).__name__}")
    return
  nworld = int(rng.choice([1, 1, 2, 3]))
  mjd = mujoco.MjData(mjm)
  d = mjw.put_data(mjm, mjd, nworld=nworld)
  qpos = np.zeros((nworld, mjm.nq))
  refs = []
  for w in range(nworld):
    qp = mjm.qpos0 + rng.normal(size=mjm.nq) * 0.7
    for j in range(mjm.njnt):
      a = mjm.jnt_qposadr[j]
      if mjm.jnt_type[j] == 0:
        q = rng.normal(size=4); qp[a + 3:a + 7] = q / np.linalg.norm(q)
      elif mjm.jnt_type[j] == 1:
        q = rng.normal(size=4); qp[a:a + 4] = q / np.linalg.norm(q)
    qpos[w] = qp
    mjd.qpos[:] = qp
    mujoco.mj_forward(mjm, mjd)
    refs.append((_dense(mujoco, mjm, mjd.M), mjd.qLD.copy(), mjd.qLDiagInv.copy()))
  d.qpos.assign(qpos.astype(np.float32))
  smooth.kinematics(m, d)
  smooth.com_pos(m, d)
  smooth.crb(m, d)
  smooth.factor_m(m, d)
  Mw_all = d.M.numpy().astype(np.float64)
  qLD_all = d.qLD.numpy().astype(np.float64)
  Dinv_all = d.qLDiagInv.numpy().astype(np.float64)
  total = int(lay["total"])
  names = [_layout_name(mjm, lay, s, z) for s, z in blocks]
  for nme in names:
    acc.hit("layout:" + nme)
  for s, z in blocks:
    acc.hit("size:" + ("1-5" if z < 6 else "6" if z == 6 else "7" if z == 7 else "8-63" if z < 64 else "64" if z == 64 else "65" if z == 65 else ">65"))
  if len(set(names)) > 1:
    acc.hit("mixed-layouts-in-one-model")
  acc.hit(f"nworld={nworld}")
  acc.distinct.add((tag, nv, tuple(sorted(set(names))), nworld))
  acc.sample({"nv": nv, "trees": [z for _, z in blocks], "layouts": names, "nworld": nworld})
  replay = dict(xml=xml, qpos=qpos.tolist(), nworld=nworld)

  B = rng.normal(size=(nworld, nv))
  y = wp.array(B.astype(np.float32), dtype=float)
  x = wp.zeros((nworld, nv), dtype=float)
  smooth.solve_m(m, d, x, y)
  X = x.numpy().astype(np.float64)
  B32 = y.numpy().astype(np.float64)
  res = wp.zeros((nworld, nv), dtype=float)
  support.mul_m(m, d, res, x)
  MX = res.numpy().astype(np.float64)

  for w in range(nworld):
    acc.evals += 1
    Mc, qLDc, Dinvc = refs[w]
    Mw = _dense(mujoco, mjm, Mw_all[w])
    scale = np.abs(Mc).max()
    # (0) stored matrix vs MuJoCo
    if not np.allclose(Mw, Mc, rtol=0, atol=5e-5 * scale + 1e-9):
      acc.find(f"d.M differs from MuJoCo's M (max |d| {np.abs(Mw - Mc).max():.3g}, max |M| {scale:.3g})", "smooth.crb", "M-vs-mujoco", **replay, world=w)
    # (i) SPD of what warp stores (symmetric by construction of the lower-triangular CSR)
    ev = np.linalg.eigvalsh(Mw)
    if ev.min() <= 0:
      acc.find(f"stored inertia matrix is not positive definite (min eigenvalue {ev.min():.3g})", "smooth.crb", "not-spd", **replay, world=w)
      continue
    for (s, z), nme in zip(blocks, names):
      blk = Mw[s:s + z, s:s + z]
      nrm = np.abs(blk).sum(axis=1).max()
      xb, bb = X[w, s:s + z], B32[w, s:s + z]
      # (ii) backward error of solve_m
      r = np.abs(blk @ xb - bb).max()
      tol = 64 * z * EPS * (nrm * np.abs(xb).max() + np.abs(bb).max()) + 1e-12
      if not r <= tol:
        acc.find(f"solve_m residual |M x - b| = {r:.3g} exceeds the backward-error bound {tol:.3g} for a {nme} block of {z} dofs", "smooth.solve_m", f"solve-{nme}", **replay, world=w,
                 start=s, size=z)
      # (iii) mul_m
      mm = np.abs(MX[w, s:s + z] - blk @ xb).max()
      tolm = 8 * z * EPS * nrm * np.abs(xb).max() + 1e-12
      if not mm <= tolm:
        acc.find(f"mul_m differs from M x by {mm:.3g} (bound {tolm:.3g}), {nme} block of {z} dofs", "support.mul_m", f"mulm-{nme}", **replay, world=w, start=s, size=z)
      # (iv) the stored factor reproduces the matrix
      adr = int(lay["dof_adr"][s])
      if nme == "compact":
        rec = np.diag(1.0 / Dinv_all[w, s:s + z])
        if not np.allclose(Dinv_all[w, s:s + z], Dinvc[s:s + z], rtol=1e-4):
          acc.find("qLDiagInv of a compact block differs from MuJoCo's", "smooth.factor_m", "dinv-compact", **replay, world=w, start=s, size=z)
      elif nme in ("scalar", "tile"):
        U = np.triu(qLD_all[w, adr:adr + z * z].reshape(z, z))
        rec = U.T @ U
      else:
        Lreg = qLD_all[w, total:]
        L = np.eye(z)
        Dg = np.zeros(z)
        for k in range(s, s + z):
          ra, rn = mjm.M_rowadr[k], mjm.M_rownnz[k]
          Dg[k - s] = Lreg[ra + rn - 1]
          for t in range(rn - 1):
            L[k - s, mjm.M_colind[ra + t] - s] = Lreg[ra + t]
        rec = L.T @ np.diag(Dg) @ L
        if not np.allclose(Dinv_all[w, s:s + z] * Dg, 1.0, rtol=1e-5):
          acc.find("qLDiagInv is not the reciprocal of the stored pivots", "smooth._qLDiag_div", "dinv-sparse", **replay, world=w, start=s, size=z)
        # where the layouts coincide (sparse rows): against MuJoCo's own L^T D L, error amplified by cond(M)
        cond = ev.max() / ev.min()
        ra, re = mjm.M_rowadr[s], mjm.M_rowadr[s + z - 1] + mjm.M_rownnz[s + z - 1]
        dq = np.abs(Lreg[ra:re] - qLDc[ra:re]).max()
        if cond < 1e5 and not dq <= 64 * z * EPS * cond * max(1.0, np.abs(qLDc[ra:re]).max()):
          acc.find(f"sparse qLD differs from MuJoCo's by {dq:.3g} (cond {cond:.3g})", "smooth.factor_m", "qLD-vs-mujoco", **replay, world=w, start=s, size=z)
        acc.hit("qLD-vs-mujoco-compared" if cond < 1e5 else "qLD-vs-mujoco-skipped-illconditioned")
      fe = np.abs(rec - blk).max()
      tolf = 64 * z * EPS * nrm + 1e-12
      if not fe <= tolf:
        acc.find(f"stored factor does not reproduce M: |rec - M| = {fe:.3g} (bound {tolf:.3g}), {nme} block of {z} dofs", "smooth.factor_m", f"factor-{nme}", **replay, world=w, start=s,
                 size=z)
    # model replay of the sparse back-substitution (the elementary updates of Model/LDL.lean) vs the real fused kernel
    if lay["has_sparse"]:
      xr, sp = _replay_sparse_solve(mjm, lay, qLD_all[w, total:], Dinv_all[w], B32[w])
      dx = np.abs(xr[sp] - X[w][sp]).max()
      cond = ev.max() / ev.min()
      if not dx <= 64 * nv * EPS * cond * (np.abs(xr[sp]).max() + 1e-9):
        acc.find(f"level-parallel model of the sparse solve differs from solve_m by {dx:.3g}", "smooth._solve_LD_sparse_fused", "model-vs-code", **replay, world=w)
      acc.hit("sparse-solve-model-replayed")

  # factor_solve_i on an implicit-integration system matrix M + h B (positive diagonal shift, as euler() / implicitfast build it)
  shift = rng.uniform(0.0, 2.0, size=(nworld, nv)) * np.abs(Mw_all).max()
  M2 = Mw_all.copy()
  diag = mjm.M_rowadr + mjm.M_rownnz - 1
  M2[:, diag] += shift
  M2w = wp.array(M2.astype(np.float32), dtype=float)
  qLD2 = wp.zeros(d.qLD.shape, dtype=float)
  D2 = wp.zeros((nworld, nv), dtype=float)
  x2 = wp.zeros((nworld, nv), dtype=float)
  smooth.factor_solve_i(m, d, M2w, qLD2, D2, x2, y)
  X2 = x2.numpy().astype(np.float64)
  M2f = M2w.numpy().astype(np.float64)
  for w in range(nworld):
    A = _dense(mujoco, mjm, M2f[w])
    for (s, z), nme in zip(blocks, names):
      blk = A[s:s + z, s:s + z]
      nrm = np.abs(blk).sum(axis=1).max()
      xb, bb = X2[w, s:s + z], B32[w, s:s + z]
      r = np.abs(blk @ xb - bb).max()
      tol = 64 * z * EPS * (nrm * np.abs(xb).max() + np.abs(bb).max()) + 1e-12
      acc.evals += 1
      if not r <= tol:
        acc.find(f"factor_solve_i residual {r:.3g} exceeds {tol:.3g} on M + h B, {nme} block of {z} dofs", "smooth.factor_solve_i", f"fsi-{nme}", **replay, world=w, start=s, size=z)
  acc.hit("factor_solve_i-checked")

  # factor_solve_lu (implicit integrator): diagonally dominant non-symmetric matrix on MuJoCo's D pattern
  if nv <= 80:
    nD = mjm.nD
    A = np.zeros((nworld, nD))
    dense = np.zeros((nworld, nv, nv))
    for w in range(nworld):
      vals = rng.normal(size=nD)
      for i in range(nv):
        ra, rn = mjm.D_rowadr[i], mjm.D_rownnz[i]
        vals[ra + mjm.D_diag[i]] = np.abs(vals[ra:ra + rn]).sum() + 1.0
      A[w] = vals
    qLU = wp.array(A.astype(np.float32), dtype=float)
    A32 = qLU.numpy().astype(np.float64)
    for w in range(nworld):
      for i in range(nv):
        ra, rn = mjm.D_rowadr[i], mjm.D_rownnz[i]
        dense[w, i, mjm.D_colind[ra:ra + rn]] = A32[w, ra:ra + rn]
    x3 = wp.zeros((nworld, nv), dtype=float)
    smooth.factor_solve_lu(m, d, qLU, x3, y)
    X3 = x3.numpy().astype(np.float64)
    for w in range(nworld):
      r = np.abs(dense[w] @ X3[w] - B32[w]).max()
      tol = 64 * nv * EPS * (np.abs(dense[w]).sum(axis=1).max() * np.abs(X3[w]).max() + np.abs(B32[w]).max())
      acc.evals += 1
      if not r <= tol:
        acc.find(f"factor_solve_lu residual {r:.3g} exceeds {tol:.3g}", "smooth.factor_solve_lu", "lu", **replay, world=w)
    acc.hit("factor_solve_lu-checked")


def _step_check(ctx, acc, rng, integrator, sizes):
  """one step of the implicit integrators / Euler with damping vs mujoco.mj_step (contacts disabled)"""
  import mujoco
  import mujoco_warp as mjw
  xml = _gen_model(rng, sizes, "dense" if (rng.random() < 0.5 and sum(sizes) <= 60) else "sparse", integrator=integrator, damping=True)
  try:
    mjm = mujoco.MjModel.from_xml_string(xml)
    m = mjw.put_model(mjm)
  except Exception:   # noqa: BLE001
    acc.hit("step-model-rejected")
    return
  mjd = mujoco.MjData(mjm)
  mjd.qpos[:] = mjm.qpos0 + rng.normal(size=mjm.nq) * 0.3
  for j in range(mjm.njnt):
    a = mjm.jnt_qposadr[j]
    if mjm.jnt_type[j] == 0:
      q = rng.normal(size=4); mjd.qpos[a + 3:a + 7] = q / np.linalg.norm(q)
    elif mjm.jnt_type[j] == 1:
      q = rng.normal(size=4); mjd.qpos[a:a + 4] = q / np.linalg.norm(q)
  mjd.qvel[:] = rng.normal(size=mjm.nv) * 0.5
  d = mjw.put_data(mjm, mjd, nworld=1)
  mjw.step(m, d)
  mujoco.mj_step(mjm, mjd)
  acc.evals += 1
  acc.hit("step:" + integrator)
  qv = d.qvel.numpy()[0].astype(np.float64)
  if not np.all(np.isfinite(qv)) or not np.allclose(qv, mjd.qvel, rtol=2e-3, atol=2e-3 * (1 + np.abs(mjd.qvel).max())):
    acc.find(f"{integrator} step differs from mj_step (max |d qvel| {np.abs(qv - mjd.qvel).max():.3g})", "forward.step", "step-" + integrator, xml=xml, qpos=mjd.qpos.tolist())


BOUNDARY = [[6], [7], [64], [65], [5, 6, 7], [1], [2, 3], [6, 1, 65, 20], [64, 3, 6], [33], [70, 6, 6, 2]]

TENDON_XML = """<mujoco>
  <option><flag contact="disable"/></option>
  <worldbody>
    <body pos="0 0 1"><joint name="sx" type="slide" axis="1 0 0"/><joint name="sy" type="slide" axis="0 1 0"/><geom size=".1"/></body>
  </worldbody>
  <tendon><fixed name="t" armature="{arm:.3f}"><joint joint="sx" coef="{c0:.3f}"/><joint joint="sy" coef="{c1:.3f}"/></fixed></tendon>
</mujoco>"""


COMPACT_XML = """<mujoco>
  <option><flag contact="disable"/></option>
  <worldbody>
    <body pos="0 0 1"><freejoint/><geom size=".1"/></body>
    <body pos="1 0 1"><joint type="slide" axis="1 0 0"/><joint type="slide" axis="0 1 0"/><joint type="slide" axis="0 0 1"/><geom size=".1"/></body>
    <body pos="2 0 1"><joint type="hinge" axis="0 1 0"/><geom size=".1" pos=".1 0 0"/><body pos=".3 0 0"><joint type="hinge" axis="1 0 0"/><geom size=".05" pos="0 .1 0"/></body></body>
  </worldbody>
</mujoco>"""


def _tendon_case(acc, rng):
  """regression case (former defect, repaired): fixed tendon with armature over the two aligned slides of a 'simple' body: d.M vs MuJoCo
  (Props/C21.lean `tendon_armature_writes_in_row`, `tendon_armature_simple_repaired`)"""
  import mujoco
  import mujoco_warp as mjw
  arm, c0, c1 = rng.uniform(0.5, 3.0), rng.uniform(0.5, 2.0), rng.uniform(0.5, 4.0)
  xml = TENDON_XML.format(arm=arm, c0=c0, c1=c1)
  mjm = mujoco.MjModel.from_xml_string(xml)
  mjd = mujoco.MjData(mjm)
  mujoco.mj_forward(mjm, mjd)
  m = mjw.put_model(mjm)
  d = mjw.put_data(mjm, mjd)
  mjw.forward(m, d)
  acc.evals += 1
  acc.hit("tendon-armature-on-simple-dofs")
  Mw = d.M.numpy()[0].astype(np.float64)
  if not np.allclose(Mw, mjd.M, rtol=1e-4):
    acc.find(f"tendon armature over the dofs of a simple body: d.M = {np.round(Mw, 4).tolist()} but MuJoCo's M = {np.round(mjd.M, 4).tolist()}", "smooth._tendon_armature",
             "tendon-armature-simple", xml=xml)


def _run(ctx, ncases, rec):
  rng = np.random.default_rng(ctx.seed * 1000 + 21)
  acc = Acc()
  # always first: a tree above the sparse threshold (> 64 dofs) next to coupled trees that get PACKED blocks (2..64 dofs) and a
  # compact block: every layout in one factor buffer, the offsets between the packed part and the sparse part matter
  plan = [[70, 9, 4, 2]] + [BOUNDARY[i % len(BOUNDARY)] for i in range(ctx.seed, ctx.seed + min(ncases, 4 if not ctx.thorough else len(BOUNDARY)))]
  while len(plan) < ncases:
    nt = int(rng.integers(1, 5))
    plan.append([int(rng.choice([1, 2, 3, 4, 5, 6, 7, 8, 12, 20, 31, 32, 33, 40, 63, 64, 65, 66, 90])) if rng.random() < 0.5 else int(rng.integers(1, 30)) for _ in range(nt)])

  def scenario():
    # regression cases of the repaired defect first: tendon armature over simple dofs, a simple free body + aligned slides (compact blocks)
    _tendon_case(acc, rng)
    _check_model(ctx, acc, rng, COMPACT_XML, "compact-regression")
    for c, sizes in enumerate(plan):
      jac = str(rng.choice(["dense", "sparse", "auto"]))
      if sum(sizes) > 60 and jac == "dense" and rng.random() < 0.9:
        jac = "sparse"     # put_model rejects dense for nv > 60 (outside the domain; kept with small probability to count it)
      acc.hit("jacobian:" + jac)
      _check_model(ctx, acc, rng, _gen_model(rng, sizes, jac), c)

  if rec:
    kc, _ = intercept(KERNELS, scenario, rng, max_tids=8, per_kernel=3)
  else:
    scenario()
    kc = None
  for k, integ in enumerate(["implicitfast", "implicit", "Euler"] * (2 if ctx.thorough else 1)):
    # one of the integrators per run gets the mixed layout (packed blocks + a sparse tree), the others small forests
    mixed = (k % 3 == ctx.seed % 3) or rng.random() < 0.3
    _step_check(ctx, acc, rng, integ, [int(rng.integers(2, 12)) for _ in range(int(rng.integers(1, 4)))] + ([66] if mixed else []))
  return acc, kc


RULE = ("forests of 1-4 kinematic trees with prescribed dof counts (boundary sizes 1,6,7,64,65 and random sizes up to 90; hinge/slide/ball joints, optional free root, random branching, armature; "
        "simple free bodies / aligned slides for the compact layout), contacts disabled, 1-3 worlds with different random qpos, dense and sparse jacobian option; per world and per tree: d.M vs "
        "MuJoCo, eigenvalues, float64 backward error of solve_m / factor_solve_i (M + positive diagonal) / factor_solve_lu (diagonally dominant matrix on the D pattern), mul_m vs M x, "
        "reconstruction of M from the stored factor (U^T U or L^T D L), sparse qLD vs MuJoCo's, replay of the level-parallel solve model vs the real fused kernel; one step of implicitfast / "
        "implicit / Euler-with-damping vs mj_step; regression cases first (tendon armature over two aligned slides of a simple body: d.M vs MuJoCo; simple free body + aligned slides: compact "
        "blocks under kernel interception of `_M`); distinct = (case, nv, layouts, nworld)")


def correspondence(ctx):
  acc, kc = _run(ctx, 16 if ctx.thorough else 7, True)
  return result(acc, RULE, kc=kc)


def search(ctx, breaks):
  acc, _ = _run(ctx, 40, False)
  return search_result(acc, "float64 residuals against the stored matrix + MuJoCo's M / qLD + mj_step")
