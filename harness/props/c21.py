"""C21 Inertia factorization solves the inertia system."""
from __future__ import annotations
import numpy as np
from .common import Acc, intercept, result, search_result

ID = "C21"
LEAN_MODULES = ["MjwVerif.Props.C21"]
GEN_FUNCS = ["smooth._qLD_acc", "smooth._qLDiag_div", "smooth._small_cholesky_solve", "support.mul_m_kernel___mul_m", "smooth._M", "smooth._tendon_armature"]
KERNELS = ["smooth._qLD_acc", "smooth._qLDiag_div", "support.mul_m_kernel___mul_m", "smooth._M", "smooth._tendon_armature", "smooth._crb_accumulate"]
LEVEL_TEXT = ("Theorems over the reals, for ALL sizes and ALL kinematic forests (abstracted as a depth function with `l[k,i] != 0 -> depth i < depth k` and, for the factorisation, the chain "
              "property of ancestors): the level-parallel sparse L^T D L elimination (Model/LDL.lean `factorLevel`; its elementary update is proved to be exactly what the regenerated `_qLD_acc` / "
              "`_qLDiag_div` tasks write) returns L, D with M = L^T D L whenever all pivots are non-zero; the three-phase level-parallel back-substitution (`solve`, the schedule of "
              "`_solve_LD_sparse_fused`) returns x with M x = b, hence factor-then-solve gives M x = b; M = L^T D L with positive D is positive definite; the regenerated scalar Cholesky "
              "back-substitution `_small_cholesky_solve` solves U^T U x = y for block sizes 2 and 3; the regenerated `mul_m` gather kernel stores the row sum over its index lists; every cell a "
              "regenerated `_M` / `_tendon_armature` task writes lies in the CSR row of its own dof (all models; so tasks of one launch write disjoint cells). On the real code: d.M vs MuJoCo's M, eigenvalues, "
              "float64 residuals of solve_m / factor_solve_i / factor_solve_lu against the stored matrix, reconstruction of M from every stored factor block, mul_m, qLD vs MuJoCo's qLD, "
              "for every layout m_block_layout produces (compact, scalar, tile, sparse), sizes 1..>64 including 6/7/64/65, nworld > 1; on every seed, forced in rotation, models "
              "MIXING the layouts in one factor buffer (one or two trees above the sparse threshold + diagonal blocks with M_ii != 1 of six kinds + scalar and tile blocks, compact dofs before / "
              "between / after the sparse dofs), and on those the consumers inside the real pipeline: every factor_solve_i / solve_m call of forward (qacc_smooth), euler (M + h B) and "
              "implicitfast (M - h qDeriv) is tapped and its x checked per tree against the matrix and right-hand side it was given (backward error + distance to the float64 dense solve).")
TECHNIQUE = ('Lean 4 theorems over a hand-written model of sparse L^T D L factor/solve (Model/LDL.lean) refined by kernels regenerated from source (_qLD_acc, _qLDiag_div, mul_m, _M); fused/tile kernels compared by replay; oracle: float64 residuals vs mujoco.mj_fullM')
LEVEL_NOTE = ("C21_partial: the fused solve kernel, the scalar/tile Cholesky factorisation kernels and the sparse LU kernel are nested closures that are not in Gen (listed as missing); the "
              "level-parallel model of the fused solve is hand-written (Model/LDL.lean) and tied to the code by the Python replay of the same elementary updates against the real solve_m in this "
              "module; dense (scalar for general size, tile) and LU paths are covered by the oracle only; that the passes of one solve touch only the dofs of their own layout (the sentinel "
              "tests on qLD_block_adr in the fused sparse kernel and the block kernels) is not a theorem: it is decided by the oracle on the mixed-layout models (a dof scaled twice by D shows as a "
              "residual on the compact block). Pivots != 0 is a hypothesis (that SPD implies positive pivots is not proved); positive "
              "definiteness of the CRB matrix itself is sampled (eigenvalues). Launch = net effect of its tasks is argued, not derived. History: this check found (kernel interception of `_M` on "
              "models with compact blocks; d.M vs MuJoCo with tendon armature over two aligned slides) that `_M` / `_tendon_armature` left the one-cell CSR row of MuJoCo's simple dofs; repaired in "
              "/repo commit 'fix: _M and _tendon_armature walked past the row of a simple dof (tendon armature landed on another dof's diagonal)'; the trigger model is kept as a regression case "
              "that runs first. Trusted: Lean kernel + Mathlib, translator.")
ASSUMPTIONS = ["tapped pipeline calls: the matrix / right-hand side read from the argument arrays just before the call are what the routine solves (it does not modify them before use); "
               "forward error bound = backward bound * cond(block); mixed-model step vs mj_step: 5e-3 (float32 qacc through a 65..72-dof chain)",
               "backward-error tolerances: residual <= 64 n eps32 |M| |x| (Higham Thm 10.4 constant for Cholesky/LDL of an SPD matrix is ~ 4n(3n+1) eps in the worst case, ~n eps in practice)",
               "d.M vs MuJoCo: 5e-5 relative to max|M| (float32 CRB vs float64)"]

EPS = float(np.finfo(np.float32).eps)


def _gen_tree(rng, ndof, branching, armature, free_root, damping=False):
  """kinematic tree with exactly `ndof` dofs: hinge/slide/ball joints (free root optional); returns body xml"""
  left = ndof
  bodies = []      # (parent index, joints xml)
  first = True
  while left > 0:
    jts = []
    if first and free_root and left >= 6:
      jts.append("<freejoint/>")
      left -= 6
    else:
      nj = int(rng.integers(1, 3))
      for _ in range(nj):
        if left <= 0:
          break
        r = rng.random()
        arm = f' armature="{rng.uniform(0.01, 0.5):.4f}"' if (armature and rng.random() < 0.7) else ""
        dmp = f' damping="{rng.uniform(0.05, 2.0):.4f}"' if (damping and rng.random() < 0.7) else ""
        if r < 0.2 and left >= 3 and not jts:
          jts.append(f'<joint type="ball"{arm}{dmp} pos="{rng.uniform(-.05, .05):.3f} 0 0"/>')
          left -= 3
          break
        ax = rng.normal(size=3)
        ax /= np.linalg.norm(ax)
        t = "hinge" if r < 0.75 else "slide"
        jts.append(f'<joint type="{t}" axis="{ax[0]:.4f} {ax[1]:.4f} {ax[2]:.4f}"{arm}{dmp}/>')
        left -= 1
    if first:
      p = -1
    elif rng.random() < branching:
      p = int(rng.integers(0, len(bodies)))
    else:
      p = len(bodies) - 1
    bodies.append((p, jts))
    first = False
  children = {i: [] for i in range(-1, len(bodies))}
  for i, (p, _) in enumerate(bodies):
    children[p].append(i)

  def emit(i):
    pos = rng.uniform(-0.25, 0.25, size=3)
    q = rng.normal(size=4)
    q /= np.linalg.norm(q)
    out = [f'<body pos="{pos[0]:.3f} {pos[1]:.3f} {pos[2]:.3f}" quat="{q[0]:.4f} {q[1]:.4f} {q[2]:.4f} {q[3]:.4f}">']
    out += bodies[i][1]
    sz = rng.uniform(0.03, 0.12, size=3)
    gp = rng.uniform(-0.1, 0.1, size=3)
    out.append(f'<geom type="box" size="{sz[0]:.3f} {sz[1]:.3f} {sz[2]:.3f}" pos="{gp[0]:.3f} {gp[1]:.3f} {gp[2]:.3f}" density="{rng.uniform(300, 3000):.0f}"/>')
    for c in children[i]:
      out += emit(c)
    out.append("</body>")
    return out
  # emission is depth-first, so dof order follows MuJoCo's body order (parent before child); only the count matters here
  return "\n".join(emit(0))


def _gen_model(rng, sizes, jac, integrator="Euler", damping=False):
  trees = []
  for n in sizes:
    kind = rng.random()
    if kind < 0.15 and n == 6:
      trees.append('<body pos="0 0 1"><freejoint/><geom size=".1"/></body>')                  # simple free body -> compact
    elif kind < 0.3 and n <= 3:
      ax = ["1 0 0", "0 1 0", "0 0 1"][:n]
      trees.append('<body pos="0 0 1">' + "".join(f'<joint type="slide" axis="{a}"/>' for a in ax) + '<geom size=".1"/></body>')   # aligned slides -> compact
    else:
      trees.append(_gen_tree(rng, n, branching=float(rng.choice([0.0, 0.0, 0.3, 0.7])), armature=rng.random() < 0.6, free_root=rng.random() < 0.5, damping=damping))
  return f"""<mujoco>
  <compiler angle="radian"/>
  <option jacobian="{jac}" integrator="{integrator}" timestep="0.002"><flag contact="disable"/></option>
  <worldbody>
{chr(10).join(trees)}
  </worldbody>
</mujoco>"""


COMPACT_KINDS = ["hinge1", "free-sphere", "slide1", "free-box", "slides", "ball0"]


def _compact_tree(rng, kind, damping=False):
  """a tree whose block of M is DIAGONAL (MuJoCo: M_rownnz == 1 on every dof; m_block_layout: compact, no packed factor, solved as x = D y) with
  diagonal entries away from 1 (random density / armature); whether the block really is compact and M_ii != 1 is read off the model in _check_model"""
  pos = rng.uniform(-1.0, 1.0, size=3)
  head = f'<body pos="{pos[0]:.3f} {pos[1]:.3f} {pos[2] + 1.5:.3f}">'
  dens = rng.uniform(1500, 6000)
  ax = rng.normal(size=3)
  ax /= np.linalg.norm(ax)
  axs = f"{ax[0]:.4f} {ax[1]:.4f} {ax[2]:.4f}"
  dmp = f' damping="{rng.uniform(0.5, 5.0):.4f}"' if damping else ""     # large enough that M + h B differs from M in float32 on these dofs
  if kind == "hinge1":      # single-dof tree, M_ii = axis inertia + armature
    return head + f'<joint type="hinge" axis="{axs}" armature="{rng.uniform(0.05, 0.6):.4f}"{dmp}/><geom type="capsule" fromto="0 0 0 {rng.uniform(.2, .4):.3f} 0 .1" size=".04" density="{dens:.0f}"/></body>'
  if kind == "slide1":      # single-dof tree, M_ii = mass + armature
    return head + f'<joint type="slide" axis="{axs}" armature="{rng.uniform(0.0, 0.3):.4f}"{dmp}/><geom type="box" size=".1 .15 .2" pos=".05 0 0" density="{dens:.0f}"/></body>'
  if kind == "free-sphere":  # simple free body: no children, com at the frame origin
    return head + f'<freejoint/><geom type="sphere" size="{rng.uniform(.1, .2):.3f}" density="{dens:.0f}"/></body>'
  if kind == "free-box":     # simple free body with three different principal inertias
    q = [".5 .5 .5 .5", "1 0 0 0"][int(rng.integers(0, 2))]
    return head[:-1] + f' quat="{q}"><freejoint/><geom type="box" size=".1 .17 .26" density="{dens:.0f}"/></body>'
  if kind == "slides":       # aligned slides of one body
    n = int(rng.integers(2, 4))
    return head + "".join(f'<joint type="slide" axis="{a}"{dmp}/>' for a in ["1 0 0", "0 1 0", "0 0 1"][:n]) + f'<geom size=".12" density="{dens:.0f}"/></body>'
  if kind == "ball0":        # ball joint through the com of a sphere
    return head + f'<joint type="ball" armature="{rng.uniform(0.05, 0.4):.4f}"{dmp}/><geom type="sphere" size=".15" density="{dens:.0f}"/></body>'
  raise ValueError(kind)


def _mixed_model(rng, k, integrator="Euler", damping=False):
  """forest MIXING the layouts in one model, forced in rotation k: one tree above the sparse threshold (L^T D L region), two or three diagonal (compact) blocks of
  different kinds, a small coupled block (scalar Cholesky, 2..6 dofs) and a coupled block of 7..20 dofs (tile Cholesky), every sixth k a second sparse tree; the order of the trees rotates, so
  compact dofs lie before, between and after the sparse dofs and the packed blocks"""
  big = [65, 70, 66, 72][k % 4]
  kinds = [COMPACT_KINDS[(k + j * (1 + k // len(COMPACT_KINDS) % 2)) % len(COMPACT_KINDS)] for j in (0, 2, 3)][: 2 + k % 2]
  parts = [("sparse", _gen_tree(rng, big, branching=[0.0, 0.3][k % 2], armature=True, free_root=k % 3 == 0, damping=damping))]
  parts += [("compact:" + kd, _compact_tree(rng, kd, damping)) for kd in kinds]
  if k % 4 != 1:
    parts.append(("small", _gen_tree(rng, 2 + k % 5, branching=0.3, armature=k % 2 == 0, free_root=False, damping=damping)))
  if k % 4 != 2:
    parts.append(("tile", _gen_tree(rng, [7, 12, 20, 9][k % 4], branching=0.3, armature=True, free_root=k % 2 == 1, damping=damping)))
  if k % 6 == 4:      # two trees in the L^T D L region: compact / packed dofs lie BETWEEN sparse dofs
    parts.insert(2, ("sparse", _gen_tree(rng, 65, branching=0.0, armature=False, free_root=False, damping=damping)))
  rot = k % len(parts)
  order = parts[rot:] + parts[:rot]
  if k % 2:
    order = order[::-1]
  xml = f"""<mujoco>
  <compiler angle="radian"/>
  <option jacobian="sparse" integrator="{integrator}" timestep="0.002"><flag contact="disable"/></option>
  <worldbody>
{chr(10).join(b for _, b in order)}
  </worldbody>
</mujoco>"""
  return xml, [n for n, _ in order]


def _dense(mujoco, mjm, Mcsr):
  out = np.zeros((mjm.nv, mjm.nv))
  mujoco.mju_sym2dense(out, np.ascontiguousarray(Mcsr, dtype=np.float64), mjm.M_rownnz, mjm.M_rowadr, mjm.M_colind)
  return out


def _layout_name(mjm, lay, start, size):
  adr = int(lay["dof_adr"][start])
  if adr == -2:
    return "compact"
  if adr == -1:
    return "sparse"
  if start in lay["scalar_tiles"].get(size, []):
    return "scalar"
  return "tile"


def _replay_sparse_solve(mjm, lay, Lreg, Dinv, y):
  """the elementary updates of Model/LDL.lean `solve` (= `_solve_LD_sparse_fused`) in float64, level by level, on the factor the real code stored"""
  x = y.astype(np.float64).copy()
  depth = np.zeros(mjm.nv, dtype=int) - 1
  ups = {}
  for k in range(mjm.nv):
    if mjm.M_rownnz[k] == 1:
      continue
    depth[k] = depth[mjm.dof_parentid[k]] + 1
    if lay["dof_adr"][k] != -1:
      continue
    i = mjm.dof_parentid[k]
    adr = mjm.M_rowadr[k] + mjm.M_rownnz[k] - 2
    while i > -1:
      ups.setdefault(int(depth[i]), []).append((int(i), k, int(adr)))
      i = mjm.dof_parentid[i]
      adr -= 1
  levels = sorted(ups)
  for l in reversed(levels):
    xn = x.copy()
    for i, k, a in ups[l]:
      xn[i] -= Lreg[a] * x[k]
    x = xn
  sp = lay["dof_adr"] == -1
  x[sp] *= Dinv[sp]
  for l in levels:
    xn = x.copy()
    for i, k, a in ups[l]:
      xn[k] -= Lreg[a] * x[i]
    x = xn
  return x, sp


def _mixed_hits(acc, mjm, blocks, names, M0):
  """which layout mixtures a model really has (read off m_block_layout and the stored matrix, not off the generator's intent)"""
  kinds = set(names)
  if "sparse" in kinds and "compact" in kinds:
    acc.hit("mixed:sparse+compact")
    sp = [s for (s, _), n in zip(blocks, names) if n == "sparse"]
    for (s, z), n in zip(blocks, names):
      if n == "compact":
        acc.hit("mixed:compact-dofs-" + ("before" if s < min(sp) else "after" if s > max(sp) else "between") + "-sparse-dofs")
        dg = np.diag(M0)[s:s + z]
        acc.hit("mixed:compact-next-to-sparse-with-Mii-away-from-1" if np.all(np.abs(dg - 1.0) > 0.05) else "mixed:compact-next-to-sparse-with-some-Mii~1")
    if {"scalar", "tile"} <= kinds:
      acc.hit("mixed:all-four-layouts")
    elif "scalar" in kinds or "tile" in kinds:
      acc.hit("mixed:sparse+compact+one-packed-layout")
  elif "sparse" in kinds and len(kinds) > 1:
    acc.hit("mixed:sparse+packed-only")


def _block_residuals(acc, mujoco, mjm, blocks, names, Acsr, X, B, what, site, trig, replay):
  """per world and per tree: float64 backward error of x against the matrix the routine was GIVEN (CSR in M's structure) and, per dof, the distance to the float64
  dense solve of the block (forward error bound = backward bound * cond)"""
  for w in range(X.shape[0]):
    A = _dense(mujoco, mjm, Acsr[w])
    for (s, z), nme in zip(blocks, names):
      blk = A[s:s + z, s:s + z]
      ev = np.linalg.eigvalsh(blk)
      acc.evals += 1
      if ev.min() <= 0:
        acc.hit(f"{trig}:block-not-spd-skipped")
        continue
      nrm = np.abs(blk).sum(axis=1).max()
      xb, bb = X[w, s:s + z], B[w, s:s + z]
      r = np.abs(blk @ xb - bb).max()
      tol = 64 * z * EPS * (nrm * np.abs(xb).max() + np.abs(bb).max()) + 1e-12
      xref = np.linalg.solve(blk, bb)
      fe = np.abs(xb - xref).max()
      tolx = 64 * z * EPS * (ev.max() / ev.min()) * (np.abs(xref).max() + np.abs(bb).max() / nrm) + 1e-12
      if not (r <= tol and fe <= tolx):
        bad = int(s + np.argmax(np.abs(xb - xref)))
        acc.find(f"{what}: residual |A x - b| = {r:.3g} (bound {tol:.3g}), |x - float64 solve| = {fe:.3g} (bound {tolx:.3g}, worst dof {bad}) on a {nme} block of {z} dofs, layouts in "
                 f"the model {sorted(set(names))}", site, f"{trig}-{nme}", **replay, world=w, start=s, size=z)


class _Tap:
  """records every call of smooth.factor_solve_i / smooth.solve_m made by the real pipeline (forward's qacc_smooth, euler's M + h B, implicitfast's M - h qDeriv):
  the matrix handed in, the right-hand side and the returned x"""

  def __init__(self, d):
    from mujoco_warp._src import smooth
    self.smooth, self.d, self.calls = smooth, d, []

  def __enter__(self):
    sm, d = self.smooth, self.d
    self.orig = (sm.factor_solve_i, sm.solve_m)
    o_fsi, o_sm = self.orig

    def fsi(m, dd, M, L, D, x, y):
      Mn, yn = M.numpy().copy(), y.numpy().copy()       # before the call (x may alias nothing, but M / y could be scratch)
      o_fsi(m, dd, M, L, D, x, y)
      self.calls.append(("factor_solve_i", M.ptr == d.M.ptr, Mn, x.numpy().copy(), yn))

    def slv(m, dd, x, y):
      Mn, yn = dd.M.numpy().copy(), y.numpy().copy()
      o_sm(m, dd, x, y)
      self.calls.append(("solve_m", True, Mn, x.numpy().copy(), yn))
    sm.factor_solve_i, sm.solve_m = fsi, slv
    return self

  def __exit__(self, *a):
    self.smooth.factor_solve_i, self.smooth.solve_m = self.orig
    return False


def _pipeline_check(ctx, acc, rng, xml, integrator, nworld, split):
  """the consumers of the factorisation inside the real pipeline, on a model mixing layouts: every factor_solve_i / solve_m call of forward() + the integrator
  (or step1 + step2: factor_m then solve_m) is tapped and its x checked against the matrix and right-hand side it was given; qvel after the step vs mj_step per world"""
  import mujoco
  import mujoco_warp as mjw
  from mujoco_warp._src import io
  try:
    mjm = mujoco.MjModel.from_xml_string(xml)
    m = mjw.put_model(mjm)
  except Exception:   # noqa: BLE001
    acc.hit("pipeline-model-rejected")
    return
  lay = io.m_block_layout(mjm)
  blocks = io._m_blocks(mjm)
  names = [_layout_name(mjm, lay, s, z) for s, z in blocks]
  mjd = mujoco.MjData(mjm)
  qpos = np.zeros((nworld, mjm.nq))
  qvel = np.zeros((nworld, mjm.nv))
  ref = np.zeros((nworld, mjm.nv))
  for w in range(nworld):
    qp = mjm.qpos0 + rng.normal(size=mjm.nq) * 0.3
    for j in range(mjm.njnt):
      a = mjm.jnt_qposadr[j]
      if mjm.jnt_type[j] == 0:
        q = rng.normal(size=4); qp[a + 3:a + 7] = q / np.linalg.norm(q)
      elif mjm.jnt_type[j] == 1:
        q = rng.normal(size=4); qp[a:a + 4] = q / np.linalg.norm(q)
    qpos[w], qvel[w] = qp, rng.normal(size=mjm.nv) * 0.5
    mujoco.mj_resetData(mjm, mjd)
    mjd.qpos[:], mjd.qvel[:] = qpos[w], qvel[w]
    mujoco.mj_step(mjm, mjd)
    ref[w] = mjd.qvel
  mujoco.mj_resetData(mjm, mjd)
  d = mjw.put_data(mjm, mjd, nworld=nworld)
  d.qpos.assign(qpos.astype(np.float32))
  d.qvel.assign(qvel.astype(np.float32))
  with _Tap(d) as tap:
    if split:
      mjw.step1(m, d)
      mjw.step2(m, d)
    else:
      mjw.step(m, d)
  replay = dict(xml=xml, qpos=qpos.tolist(), qvel=qvel.tolist(), nworld=nworld, integrator=integrator, split=split)
  M0 = _dense(mujoco, mjm, tap.calls[0][2][0]) if tap.calls else np.eye(mjm.nv)
  _mixed_hits(acc, mjm, blocks, names, M0)
  acc.hit(f"pipeline:{integrator}:{'step1+step2' if split else 'step'}:nworld={nworld}")
  acc.distinct.add(("pipeline", integrator, split, mjm.nv, tuple(sorted(set(names))), nworld))
  for fn, is_m, Mn, xn, yn in tap.calls:
    label = ("forward-qacc_smooth" if is_m else {"Euler": "euler-damping-system", "implicitfast": "implicitfast-system"}.get(integrator, "system")) + ":" + fn
    acc.hit("tapped:" + label)
    if not is_m:
      dg = mjm.M_rowadr + mjm.M_rownnz - 1
      cp = np.flatnonzero(lay["dof_adr"] == -2)
      if len(cp) and len(tap.calls) and np.any(np.abs(Mn[:, dg[cp]] - tap.calls[0][2][:, dg[cp]]) > 1e-4 * np.abs(Mn[:, dg[cp]])):
        acc.hit("tapped:system-matrix-differs-from-M-on-compact-dofs")
    _block_residuals(acc, mujoco, mjm, blocks, names, Mn.astype(np.float64), xn.astype(np.float64), yn.astype(np.float64),
                     f"{fn} inside {'step1+step2' if split else 'step'} ({label})", "smooth." + fn, "pipe-" + label.split(":")[0], replay)
  qv = d.qvel.numpy().astype(np.float64)
  for w in range(nworld):
    acc.evals += 1
    if not np.all(np.isfinite(qv[w])) or not np.allclose(qv[w], ref[w], rtol=5e-3, atol=5e-3 * (1 + np.abs(ref[w]).max())):
      acc.find(f"{integrator} step of a model mixing layouts {sorted(set(names))} differs from mj_step (max |d qvel| {np.abs(qv[w] - ref[w]).max():.3g}, worst dof "
               f"{int(np.argmax(np.abs(qv[w] - ref[w])))})", "forward.step", "step-mixed-" + integrator, **replay, world=w)


def _check_model(ctx, acc, rng, xml, tag, nworld=None):
  import mujoco
  import warp as wp
  import mujoco_warp as mjw
  from mujoco_warp._src import io, smooth, support
  try:
    mjm = mujoco.MjModel.from_xml_string(xml)
  except ValueError:
    acc.hit("mujoco-rejected")
    return
  nv = mjm.nv
  lay = io.m_block_layout(mjm)
  blocks = io._m_blocks(mjm)
  try:
    m = mjw.put_model(mjm)
  except Exception as e:    # noqa: BLE001 - features put_model rejects are outside the domain
    acc.hit(f"put_model-rejected:{type(e).__name__}")
    return
  nworld = int(rng.choice([1, 1, 2, 3])) if nworld is None else nworld
  mjd = mujoco.MjData(mjm)
  d = mjw.put_data(mjm, mjd, nworld=nworld)
  qpos = np.zeros((nworld, mjm.nq))
  refs = []
  for w in range(nworld):
    qp = mjm.qpos0 + rng.normal(size=mjm.nq) * 0.7
    for j in range(mjm.njnt):
      a = mjm.jnt_qposadr[j]
      if mjm.jnt_type[j] == 0:
        q = rng.normal(size=4); qp[a + 3:a + 7] = q / np.linalg.norm(q)
      elif mjm.jnt_type[j] == 1:
        q = rng.normal(size=4); qp[a:a + 4] = q / np.linalg.norm(q)
    qpos[w] = qp
    mjd.qpos[:] = qp
    mujoco.mj_forward(mjm, mjd)
    refs.append((_dense(mujoco, mjm, mjd.M), mjd.qLD.copy(), mjd.qLDiagInv.copy()))
  d.qpos.assign(qpos.astype(np.float32))
  smooth.kinematics(m, d)
  smooth.com_pos(m, d)
  smooth.crb(m, d)
  smooth.factor_m(m, d)
  Mw_all = d.M.numpy().astype(np.float64)
  qLD_all = d.qLD.numpy().astype(np.float64)
  Dinv_all = d.qLDiagInv.numpy().astype(np.float64)
  total = int(lay["total"])
  names = [_layout_name(mjm, lay, s, z) for s, z in blocks]
  for nme in names:
    acc.hit("layout:" + nme)
  for s, z in blocks:
    acc.hit("size:" + ("1-5" if z < 6 else "6" if z == 6 else "7" if z == 7 else "8-63" if z < 64 else "64" if z == 64 else "65" if z == 65 else ">65"))
  if len(set(names)) > 1:
    acc.hit("mixed-layouts-in-one-model")
  _mixed_hits(acc, mjm, blocks, names, _dense(mujoco, mjm, Mw_all[0]))
  acc.hit(f"nworld={nworld}")
  acc.distinct.add((tag, nv, tuple(sorted(set(names))), nworld))
  acc.sample({"nv": nv, "trees": [z for _, z in blocks], "layouts": names, "nworld": nworld})
  replay = dict(xml=xml, qpos=qpos.tolist(), nworld=nworld)

  B = rng.normal(size=(nworld, nv))
  y = wp.array(B.astype(np.float32), dtype=float)
  x = wp.zeros((nworld, nv), dtype=float)
  smooth.solve_m(m, d, x, y)
  X = x.numpy().astype(np.float64)
  B32 = y.numpy().astype(np.float64)
  res = wp.zeros((nworld, nv), dtype=float)
  support.mul_m(m, d, res, x)
  MX = res.numpy().astype(np.float64)

  for w in range(nworld):
    acc.evals += 1
    Mc, qLDc, Dinvc = refs[w]
    Mw = _dense(mujoco, mjm, Mw_all[w])
    scale = np.abs(Mc).max()
    # (0) stored matrix vs MuJoCo
    if not np.allclose(Mw, Mc, rtol=0, atol=5e-5 * scale + 1e-9):
      acc.find(f"d.M differs from MuJoCo's M (max |d| {np.abs(Mw - Mc).max():.3g}, max |M| {scale:.3g})", "smooth.crb", "M-vs-mujoco", **replay, world=w)
    # (i) SPD of what warp stores (symmetric by construction of the lower-triangular CSR)
    ev = np.linalg.eigvalsh(Mw)
    if ev.min() <= 0:
      acc.find(f"stored inertia matrix is not positive definite (min eigenvalue {ev.min():.3g})", "smooth.crb", "not-spd", **replay, world=w)
      continue
    for (s, z), nme in zip(blocks, names):
      blk = Mw[s:s + z, s:s + z]
      nrm = np.abs(blk).sum(axis=1).max()
      xb, bb = X[w, s:s + z], B32[w, s:s + z]
      # (ii) backward error of solve_m
      r = np.abs(blk @ xb - bb).max()
      tol = 64 * z * EPS * (nrm * np.abs(xb).max() + np.abs(bb).max()) + 1e-12
      if not r <= tol:
        acc.find(f"solve_m residual |M x - b| = {r:.3g} exceeds the backward-error bound {tol:.3g} for a {nme} block of {z} dofs", "smooth.solve_m", f"solve-{nme}", **replay, world=w,
                 start=s, size=z)
      # (iii) mul_m
      mm = np.abs(MX[w, s:s + z] - blk @ xb).max()
      tolm = 8 * z * EPS * nrm * np.abs(xb).max() + 1e-12
      if not mm <= tolm:
        acc.find(f"mul_m differs from M x by {mm:.3g} (bound {tolm:.3g}), {nme} block of {z} dofs", "support.mul_m", f"mulm-{nme}", **replay, world=w, start=s, size=z)
      # (iv) the stored factor reproduces the matrix
      adr = int(lay["dof_adr"][s])
      if nme == "compact":
        rec = np.diag(1.0 / Dinv_all[w, s:s + z])
        if not np.allclose(Dinv_all[w, s:s + z], Dinvc[s:s + z], rtol=1e-4):
          acc.find("qLDiagInv of a compact block differs from MuJoCo's", "smooth.factor_m", "dinv-compact", **replay, world=w, start=s, size=z)
      elif nme in ("scalar", "tile"):
        U = np.triu(qLD_all[w, adr:adr + z * z].reshape(z, z))
        rec = U.T @ U
      else:
        Lreg = qLD_all[w, total:]
        L = np.eye(z)
        Dg = np.zeros(z)
        for k in range(s, s + z):
          ra, rn = mjm.M_rowadr[k], mjm.M_rownnz[k]
          Dg[k - s] = Lreg[ra + rn - 1]
          for t in range(rn - 1):
            L[k - s, mjm.M_colind[ra + t] - s] = Lreg[ra + t]
        rec = L.T @ np.diag(Dg) @ L
        if not np.allclose(Dinv_all[w, s:s + z] * Dg, 1.0, rtol=1e-5):
          acc.find("qLDiagInv is not the reciprocal of the stored pivots", "smooth._qLDiag_div", "dinv-sparse", **replay, world=w, start=s, size=z)
        # where the layouts coincide (sparse rows): against MuJoCo's own L^T D L, error amplified by cond(M)
        cond = ev.max() / ev.min()
        ra, re = mjm.M_rowadr[s], mjm.M_rowadr[s + z - 1] + mjm.M_rownnz[s + z - 1]
        dq = np.abs(Lreg[ra:re] - qLDc[ra:re]).max()
        if cond < 1e5 and not dq <= 64 * z * EPS * cond * max(1.0, np.abs(qLDc[ra:re]).max()):
          acc.find(f"sparse qLD differs from MuJoCo's by {dq:.3g} (cond {cond:.3g})", "smooth.factor_m", "qLD-vs-mujoco", **replay, world=w, start=s, size=z)
        acc.hit("qLD-vs-mujoco-compared" if cond < 1e5 else "qLD-vs-mujoco-skipped-illconditioned")
      fe = np.abs(rec - blk).max()
      tolf = 64 * z * EPS * nrm + 1e-12
      if not fe <= tolf:
        acc.find(f"stored factor does not reproduce M: |rec - M| = {fe:.3g} (bound {tolf:.3g}), {nme} block of {z} dofs", "smooth.factor_m", f"factor-{nme}", **replay, world=w, start=s,
                 size=z)
    # model replay of the sparse back-substitution (the elementary updates of Model/LDL.lean) vs the real fused kernel
    if lay["has_sparse"]:
      xr, sp = _replay_sparse_solve(mjm, lay, qLD_all[w, total:], Dinv_all[w], B32[w])
      dx = np.abs(xr[sp] - X[w][sp]).max()
      cond = ev.max() / ev.min()
      if not dx <= 64 * nv * EPS * cond * (np.abs(xr[sp]).max() + 1e-9):
        acc.find(f"level-parallel model of the sparse solve differs from solve_m by {dx:.3g}", "smooth._solve_LD_sparse_fused", "model-vs-code", **replay, world=w)
      acc.hit("sparse-solve-model-replayed")

  # factor_solve_i on an implicit-integration system matrix M + h B (positive diagonal shift, as euler() / implicitfast build it)
  shift = rng.uniform(0.0, 2.0, size=(nworld, nv)) * np.abs(Mw_all).max()
  M2 = Mw_all.copy()
  diag = mjm.M_rowadr + mjm.M_rownnz - 1
  M2[:, diag] += shift
  M2w = wp.array(M2.astype(np.float32), dtype=float)
  qLD2 = wp.zeros(d.qLD.shape, dtype=float)
  D2 = wp.zeros((nworld, nv), dtype=float)
  x2 = wp.zeros((nworld, nv), dtype=float)
  smooth.factor_solve_i(m, d, M2w, qLD2, D2, x2, y)
  X2 = x2.numpy().astype(np.float64)
  M2f = M2w.numpy().astype(np.float64)
  for w in range(nworld):
    A = _dense(mujoco, mjm, M2f[w])
    for (s, z), nme in zip(blocks, names):
      blk = A[s:s + z, s:s + z]
      nrm = np.abs(blk).sum(axis=1).max()
      xb, bb = X2[w, s:s + z], B32[w, s:s + z]
      r = np.abs(blk @ xb - bb).max()
      tol = 64 * z * EPS * (nrm * np.abs(xb).max() + np.abs(bb).max()) + 1e-12
      acc.evals += 1
      if not r <= tol:
        acc.find(f"factor_solve_i residual {r:.3g} exceeds {tol:.3g} on M + h B, {nme} block of {z} dofs", "smooth.factor_solve_i", f"fsi-{nme}", **replay, world=w, start=s, size=z)
  acc.hit("factor_solve_i-checked")

  # factor_solve_lu (implicit integrator): diagonally dominant non-symmetric matrix on MuJoCo's D pattern
  if nv <= 80:
    nD = mjm.nD
    A = np.zeros((nworld, nD))
    dense = np.zeros((nworld, nv, nv))
    for w in range(nworld):
      vals = rng.normal(size=nD)
      for i in range(nv):
        ra, rn = mjm.D_rowadr[i], mjm.D_rownnz[i]
        vals[ra + mjm.D_diag[i]] = np.abs(vals[ra:ra + rn]).sum() + 1.0
      A[w] = vals
    qLU = wp.array(A.astype(np.float32), dtype=float)
    A32 = qLU.numpy().astype(np.float64)
    for w in range(nworld):
      for i in range(nv):
        ra, rn = mjm.D_rowadr[i], mjm.D_rownnz[i]
        dense[w, i, mjm.D_colind[ra:ra + rn]] = A32[w, ra:ra + rn]
    x3 = wp.zeros((nworld, nv), dtype=float)
    smooth.factor_solve_lu(m, d, qLU, x3, y)
    X3 = x3.numpy().astype(np.float64)
    for w in range(nworld):
      r = np.abs(dense[w] @ X3[w] - B32[w]).max()
      tol = 64 * nv * EPS * (np.abs(dense[w]).sum(axis=1).max() * np.abs(X3[w]).max() + np.abs(B32[w]).max())
      acc.evals += 1
      if not r <= tol:
        acc.find(f"factor_solve_lu residual {r:.3g} exceeds {tol:.3g}", "smooth.factor_solve_lu", "lu", **replay, world=w)
    acc.hit("factor_solve_lu-checked")


def _step_check(ctx, acc, rng, integrator, sizes):
  """one step of the implicit integrators / Euler with damping vs mujoco.mj_step (contacts disabled)"""
  import mujoco
  import mujoco_warp as mjw
  xml = _gen_model(rng, sizes, "dense" if (rng.random() < 0.5 and sum(sizes) <= 60) else "sparse", integrator=integrator, damping=True)
  try:
    mjm = mujoco.MjModel.from_xml_string(xml)
    m = mjw.put_model(mjm)
  except Exception:   # noqa: BLE001
    acc.hit("step-model-rejected")
    return
  mjd = mujoco.MjData(mjm)
  mjd.qpos[:] = mjm.qpos0 + rng.normal(size=mjm.nq) * 0.3
  for j in range(mjm.njnt):
    a = mjm.jnt_qposadr[j]
    if mjm.jnt_type[j] == 0:
      q = rng.normal(size=4); mjd.qpos[a + 3:a + 7] = q / np.linalg.norm(q)
    elif mjm.jnt_type[j] == 1:
      q = rng.normal(size=4); mjd.qpos[a:a + 4] = q / np.linalg.norm(q)
  mjd.qvel[:] = rng.normal(size=mjm.nv) * 0.5
  d = mjw.put_data(mjm, mjd, nworld=1)
  mjw.step(m, d)
  mujoco.mj_step(mjm, mjd)
  acc.evals += 1
  acc.hit("step:" + integrator)
  qv = d.qvel.numpy()[0].astype(np.float64)
  if not np.all(np.isfinite(qv)) or not np.allclose(qv, mjd.qvel, rtol=2e-3, atol=2e-3 * (1 + np.abs(mjd.qvel).max())):
    acc.find(f"{integrator} step differs from mj_step (max |d qvel| {np.abs(qv - mjd.qvel).max():.3g})", "forward.step", "step-" + integrator, xml=xml, qpos=mjd.qpos.tolist())


BOUNDARY = [[6], [7], [64], [65], [5, 6, 7], [1], [2, 3], [6, 1, 65, 20], [64, 3, 6], [33], [70, 6, 6, 2]]

TENDON_XML = """<mujoco>
  <option><flag contact="disable"/></option>
  <worldbody>
    <body pos="0 0 1"><joint name="sx" type="slide" axis="1 0 0"/><joint name="sy" type="slide" axis="0 1 0"/><geom size=".1"/></body>
  </worldbody>
  <tendon><fixed name="t" armature="{arm:.3f}"><joint joint="sx" coef="{c0:.3f}"/><joint joint="sy" coef="{c1:.3f}"/></fixed></tendon>
</mujoco>"""


COMPACT_XML = """<mujoco>
  <option><flag contact="disable"/></option>
  <worldbody>
    <body pos="0 0 1"><freejoint/><geom size=".1"/></body>
    <body pos="1 0 1"><joint type="slide" axis="1 0 0"/><joint type="slide" axis="0 1 0"/><joint type="slide" axis="0 0 1"/><geom size=".1"/></body>
    <body pos="2 0 1"><joint type="hinge" axis="0 1 0"/><geom size=".1" pos=".1 0 0"/><body pos=".3 0 0"><joint type="hinge" axis="1 0 0"/><geom size=".05" pos="0 .1 0"/></body></body>
  </worldbody>
</mujoco>"""


def _tendon_case(acc, rng):
  """regression case (former defect, repaired): fixed tendon with armature over the two aligned slides of a 'simple' body: d.M vs MuJoCo
  (Props/C21.lean `tendon_armature_writes_in_row`, `tendon_armature_simple_repaired`)"""
  import mujoco
  import mujoco_warp as mjw
  arm, c0, c1 = rng.uniform(0.5, 3.0), rng.uniform(0.5, 2.0), rng.uniform(0.5, 4.0)
  xml = TENDON_XML.format(arm=arm, c0=c0, c1=c1)
  mjm = mujoco.MjModel.from_xml_string(xml)
  mjd = mujoco.MjData(mjm)
  mujoco.mj_forward(mjm, mjd)
  m = mjw.put_model(mjm)
  d = mjw.put_data(mjm, mjd)
  mjw.forward(m, d)
  acc.evals += 1
  acc.hit("tendon-armature-on-simple-dofs")
  Mw = d.M.numpy()[0].astype(np.float64)
  if not np.allclose(Mw, mjd.M, rtol=1e-4):
    acc.find(f"tendon armature over the dofs of a simple body: d.M = {np.round(Mw, 4).tolist()} but MuJoCo's M = {np.round(mjd.M, 4).tolist()}", "smooth._tendon_armature",
             "tendon-armature-simple", xml=xml)


def _run(ctx, ncases, rec):
  rng = np.random.default_rng(ctx.seed * 1000 + 21)
  acc = Acc()
  # always first: a tree above the sparse threshold (> 64 dofs) next to coupled trees that get PACKED blocks (2..64 dofs) and a
  # compact block: every layout in one factor buffer, the offsets between the packed part and the sparse part matter
  plan = [[70, 9, 4, 2]] + [BOUNDARY[i % len(BOUNDARY)] for i in range(ctx.seed, ctx.seed + min(ncases, 4 if not ctx.thorough else len(BOUNDARY)))]
  while len(plan) < ncases:
    nt = int(rng.integers(1, 5))
    plan.append([int(rng.choice([1, 2, 3, 4, 5, 6, 7, 8, 12, 20, 31, 32, 33, 40, 63, 64, 65, 66, 90])) if rng.random() < 0.5 else int(rng.integers(1, 30)) for _ in range(nt)])

  nmixed = 4 if ctx.thorough else 2

  def scenario():
    # regression cases of the repaired defect first: tendon armature over simple dofs, a simple free body + aligned slides (compact blocks)
    _tendon_case(acc, rng)
    _check_model(ctx, acc, rng, COMPACT_XML, "compact-regression")
    # forced on every seed, in rotation: models MIXING layouts (a tree above the sparse threshold + diagonal blocks with M_ii != 1 + packed scalar / tile blocks),
    # 1..3 worlds with different states: factor_m + solve_m, factor_solve_i on M + h B, mul_m, stored factors
    for j in range(nmixed):
      k = ctx.seed * nmixed + j
      xml, order = _mixed_model(rng, k)
      acc.hit("mixed-order:" + ",".join(o.split(":")[0] for o in order))
      _check_model(ctx, acc, rng, xml, f"mixed-{k % 12}", nworld=1 + k % 3)
    for c, sizes in enumerate(plan):
      jac = str(rng.choice(["dense", "sparse", "auto"]))
      if sum(sizes) > 60 and jac == "dense" and rng.random() < 0.9:
        jac = "sparse"     # put_model rejects dense for nv > 60 (outside the domain; kept with small probability to count it)
      acc.hit("jacobian:" + jac)
      _check_model(ctx, acc, rng, _gen_model(rng, sizes, jac), c)

  if rec:
    kc, _ = intercept(KERNELS, scenario, rng, max_tids=8, per_kernel=3)
  else:
    scenario()
    kc = None
  # the consumers inside the real pipeline on mixed-layout models: forward's fused factor_solve_i, euler's M + h B, implicitfast's M - h qDeriv, and the
  # factor_m -> solve_m path of step1 + step2; integrator x entry point x nworld rotate with the seed
  for j in range(6 if ctx.thorough else 3):
    k = ctx.seed * 3 + j
    integ = ["Euler", "implicitfast"][(k + k // 2) % 2] if j >= 2 else ["Euler", "implicitfast"][(j + ctx.seed) % 2]
    xml, _ = _mixed_model(rng, k + 5, integrator=integ, damping=True)
    _pipeline_check(ctx, acc, rng, xml, integ, nworld=1 + (k + 1) % 3, split=(j % 3 == 2))
  for k, integ in enumerate(["implicitfast", "implicit", "Euler"] * (2 if ctx.thorough else 1)):
    # one of the integrators per run gets the mixed layout (packed blocks + a sparse tree), the others small forests
    mixed = (k % 3 == ctx.seed % 3) or rng.random() < 0.3
    _step_check(ctx, acc, rng, integ, [int(rng.integers(2, 12)) for _ in range(int(rng.integers(1, 4)))] + ([66] if mixed else []))
  return acc, kc


RULE = ("forests of 1-4 kinematic trees with prescribed dof counts (boundary sizes 1,6,7,64,65 and random sizes up to 90; hinge/slide/ball joints, optional free root, random branching, armature; "
        "simple free bodies / aligned slides for the compact layout), contacts disabled, 1-3 worlds with different random qpos, dense and sparse jacobian option; per world and per tree: d.M vs "
        "MuJoCo, eigenvalues, float64 backward error of solve_m / factor_solve_i (M + positive diagonal) / factor_solve_lu (diagonally dominant matrix on the D pattern), mul_m vs M x, "
        "reconstruction of M from the stored factor (U^T U or L^T D L), sparse qLD vs MuJoCo's, replay of the level-parallel solve model vs the real fused kernel; one step of implicitfast / "
        "implicit / Euler-with-damping vs mj_step; regression cases first (tendon armature over two aligned slides of a simple body: d.M vs MuJoCo; simple free body + aligned slides: compact "
        "blocks under kernel interception of `_M`); then on EVERY seed 2 (thorough 4) mixed-layout models by rotation index k = seed * n + j: sparse tree of 65/70/66/72 dofs (chain or branching, "
        "free root every third), 2-3 compact blocks out of {single hinge + armature, simple free sphere, single slide, simple free box, 2-3 aligned slides, ball through the com} with random density "
        "(M_ii away from 1 is read off the matrix and counted), scalar block of 2..6 dofs, tile block of 7/12/20/9 dofs, every sixth k a second 65-dof sparse tree, tree order rotated / reversed, "
        "nworld = 1 + k % 3, through all the per-tree checks above; and 3 (thorough 6) pipeline runs on such models with joint damping (Euler / implicitfast, mjw.step or step1 + step2, "
        "nworld 1..3, different qpos / qvel per world): each tapped factor_solve_i / solve_m call -> per world and tree |A x - b| <= 64 z eps (|A||x| + |b|) and |x - solve64(A, b)| <= that * cond, "
        "A = the CSR matrix handed to the call; qvel after the step vs mj_step per world; distinct = (case, nv, layouts, nworld) and (pipeline, integrator, entry, nv, layouts, nworld)")


def correspondence(ctx):
  acc, kc = _run(ctx, 16 if ctx.thorough else 7, True)
  return result(acc, RULE, kc=kc)


def search(ctx, breaks):
  acc, _ = _run(ctx, 40, False)
  return search_result(acc, "float64 residuals against the stored matrix + MuJoCo's M / qLD + mj_step")
